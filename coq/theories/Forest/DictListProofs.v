(* Specifications and proofs for the list-of-dicts form (C14).
   The specifications are relational (what a dict forest has to look like to
   mirror a tree; when two trees are the same up to node identity) and are
   connected here to the executable functions of DictList.v. *)
From Coq Require Import List ZArith Bool Arith Lia.
From NT Require Import Sx Rose ListFacts RoseFacts DictList.
Import ListNotations.

(* ------------------------------------------------------------------ *)
(* dicts *)
Lemma text_eqb_neq a b : a <> b -> text_eqb a b = false.
Proof. intros H. destruct (text_eqb a b) eqn:E; [apply text_eqb_eq in E; contradiction|reflexivity]. Qed.

Lemma dget_dset_same k v d : dget k (dset k v d) = Some v.
Proof.
  induction d as [|[k' v'] r IH]; cbn [dset dget].
  - now rewrite text_eqb_refl.
  - destruct (text_eqb k k') eqn:E; cbn [dget]; rewrite E; [reflexivity|exact IH].
Qed.

Lemma dget_dset_other k k' v d : k <> k' -> dget k (dset k' v d) = dget k d.
Proof.
  intros N. induction d as [|[k2 v2] r IH]; cbn [dset dget].
  - now rewrite (text_eqb_neq _ _ N).
  - destruct (text_eqb k' k2) eqn:E; cbn [dget].
    + apply text_eqb_eq in E. subst k2. now rewrite (text_eqb_neq _ _ N).
    + destruct (text_eqb k k2); [reflexivity|exact IH].
Qed.

Lemma k_data_neq_id : k_data <> k_data_id. Proof. discriminate. Qed.
Lemma k_data_neq_ch : k_data <> k_children. Proof. discriminate. Qed.
Lemma k_id_neq_ch : k_data_id <> k_children. Proof. discriminate. Qed.
Lemma k_id_neq_data : k_data_id <> k_data. Proof. discriminate. Qed.
Lemma k_ch_neq_data : k_children <> k_data. Proof. discriminate. Qed.
Lemma k_ch_neq_id : k_children <> k_data_id. Proof. discriminate. Qed.

(* ------------------------------------------------------------------ *)
(* induction over decoded items *)
Section PtInd.
  Variable P : pt -> Prop.
  Hypothesis HB : P PBad.
  Hypothesis HT : forall d kids, Forall P kids -> P (PT d kids).
  Fixpoint pt_ind' (p : pt) : P p :=
    match p with
    | PBad => HB
    | PT d kids => HT d kids ((fix go (l : list pt) : Forall P l :=
                                match l with
                                | [] => Forall_nil _
                                | x :: xs => Forall_cons _ (pt_ind' x) (go xs)
                                end) kids)
    end.
End PtInd.

(* the decoding is: the dict itself + the decoded items of its "children" *)
Lemma parse_dict d : parse (JDict d) = PT d (map parse (kids_of d)).
Proof.
  cbn [parse]. f_equal. unfold kids_of.
  induction d as [|[k v] r IH]; [reflexivity|].
  cbn [dget]. destruct (text_eqb k_children k); [|exact IH].
  destruct v; try reflexivity; cbn [map parse]; destruct (truthy _); reflexivity.
Qed.

Lemma fd_item_PT dd calc d kids seen used :
  fd_item dd calc (PT d kids) seen used =
  match dd d with
  | inr e => inr e
  | inl (i0, d') =>
      match (if did_early (dget k_data_id d') then did_for calc (dget k_data_id d') i0 else inl (DInt 0)) with
      | inr e => inr e
      | inl _ =>
          match nid_check (dget k_node_id d') used with
          | inr e => inr e
          | inl nid =>
              match did_for calc (dget k_data_id d') i0 with
              | inr e => inr e
              | inl dv =>
                  if existsb (did_eqb dv) seen then inr E_UNIQUE
                  else match fd_loop dd calc kids [] (used ++ opt_list nid) with
                       | inr e => inr e
                       | inl ch => inl (T 0%nat (mk_info i0 dv nid) ch)
                       end
              end
          end
      end
  end.
Proof.
  cbn [fd_item].
  destruct (dd d) as [[i0 d']|e]; [|reflexivity].
  destruct (if did_early (dget k_data_id d') then did_for calc (dget k_data_id d') i0 else inl (DInt 0)) as [x0|e]; [|reflexivity].
  destruct (nid_check (dget k_node_id d') used) as [nid|e]; [|reflexivity].
  destruct (did_for calc (dget k_data_id d') i0) as [dv|e]; [|reflexivity].
  destruct (existsb (did_eqb dv) seen); [reflexivity|].
  assert (E : forall l s u,
             (fix loop (l : list pt) (seen' : list did) (used' : list Z) {struct l} : res (list rt) :=
                match l with
                | [] => inl []
                | x :: xs =>
                    match fd_item dd calc x seen' used' with
                    | inr e => inr e
                    | inl t => match loop xs (seen' ++ [rdid t]) (used' ++ nids dd x) with
                               | inr e => inr e
                               | inl ts => inl (t :: ts)
                               end
                    end
                end) l s u = fd_loop dd calc l s u).
  { induction l as [|x xs IH]; intros s u; [reflexivity|].
    cbn [fd_loop]. destruct (fd_item dd calc x s u) as [t|e]; [|reflexivity]. now rewrite IH. }
  now rewrite E.
Qed.

(* what the success of one item says about its entries ([d'] = the item as the
   deserialisation step leaves it) *)
Lemma fd_item_PT_ok dd calc d kids seen used t :
  fd_item dd calc (PT d kids) seen used = inl t ->
  exists i0 d' dv nid ch,
    dd d = inl (i0, d') /\ did_for calc (dget k_data_id d') i0 = inl dv /\
    nid_check (dget k_node_id d') used = inl nid /\
    existsb (did_eqb dv) seen = false /\
    fd_loop dd calc kids [] (used ++ opt_list nid) = inl ch /\
    t = T 0%nat (mk_info i0 dv nid) ch.
Proof.
  rewrite fd_item_PT. intros E.
  destruct (dd d) as [[i0 d']|e] eqn:E1; [|discriminate].
  destruct (if did_early (dget k_data_id d') then did_for calc (dget k_data_id d') i0 else inl (DInt 0)) as [x0|e]; [|discriminate].
  destruct (nid_check (dget k_node_id d') used) as [nid|e] eqn:E3; [|discriminate].
  destruct (did_for calc (dget k_data_id d') i0) as [dv|e] eqn:E2; [|discriminate].
  destruct (existsb (did_eqb dv) seen) eqn:Ex; [discriminate|].
  destruct (fd_loop dd calc kids [] (used ++ opt_list nid)) as [ch|e] eqn:El; [|discriminate].
  injection E as <-. exists i0, d', dv, nid, ch.
  refine (conj eq_refl (conj E2 (conj E3 (conj Ex (conj El eq_refl))))).
Qed.

(* ... and conversely *)
Lemma fd_item_PT_intro dd calc d kids seen used i0 d' dv nid :
  dd d = inl (i0, d') -> did_for calc (dget k_data_id d') i0 = inl dv ->
  nid_check (dget k_node_id d') used = inl nid -> existsb (did_eqb dv) seen = false ->
  fd_item dd calc (PT d kids) seen used =
  match fd_loop dd calc kids [] (used ++ opt_list nid) with
  | inr e => inr e
  | inl ch => inl (T 0%nat (mk_info i0 dv nid) ch)
  end.
Proof.
  intros E1 E2 E3 E4. rewrite fd_item_PT, E1, E2, E3, E4.
  destruct (did_early (dget k_data_id d')); reflexivity.
Qed.

(* ------------------------------------------------------------------ *)
(* Specification 1: a dict forest mirrors a tree.  [enc i] is what the "data"
   entry of a node with payload [i] has to hold. *)
(* the node's data_id is not the default hash(data): either there is no hash
   ([i_hash = -1] encodes "hash(data) raises TypeError") or the id differs *)
Definition custom_id (i : info) : Prop := i_hash i = (-1)%Z \/ i_did i <> DInt (i_hash i).

Inductive mirrors (enc : info -> jv) : rt -> jv -> Prop :=
| mirrors_node : forall id i ch d js,
    dget k_data d = Some (enc i) ->
    (custom_id i -> dget k_data_id d = Some (jv_of_did (i_did i))) ->
    (~ custom_id i -> dget k_data_id d = None) ->
    (ch = [] -> dget k_children d = None) ->
    (ch <> [] -> dget k_children d = Some (JList js)) ->
    Forall2 (mirrors enc) ch js ->
    mirrors enc (T id i ch) (JDict d).

Definition enc_name (i : info) : jv := JStr (i_name i).

(* what the theorems need of a serialisation mapper *)
Definition sm_ok (enc : info -> jv) (sm : smapper) : Prop :=
  forall i res,
    dget k_data res = Some (JStr (i_name i)) -> dget k_children res = None -> dget k_node_id res = None ->
    dget k_data (sm i res) = Some (enc i) /\
    dget k_data_id (sm i res) = dget k_data_id res /\
    dget k_children (sm i res) = None /\
    dget k_node_id (sm i res) = None.

Lemma sm_none_ok : sm_ok enc_name sm_none.
Proof. intros i res H1 H2 H3. unfold sm_none, enc_name. auto. Qed.

Lemma has_custom_did_true i : has_custom_did i = true <-> custom_id i.
Proof.
  unfold has_custom_did, custom_id, unhashable. rewrite orb_true_iff, negb_true_iff, Z.eqb_eq.
  split; (intros [H|H]; [now left|right]).
  - intros E. rewrite E, did_eqb_refl in H. discriminate.
  - destruct (did_eqb (i_did i) (DInt (i_hash i))) eqn:E; [|reflexivity].
    apply did_eqb_eq in E. contradiction.
Qed.

Lemma has_custom_did_false i : has_custom_did i = false <-> ~ custom_id i.
Proof.
  rewrite <- has_custom_did_true. destruct (has_custom_did i); split; intros H; try reflexivity; try discriminate.
  - exfalso. now apply H.
Qed.

(* the dict of one node, before "children" is added *)
Definition head_dict (sm : smapper) (i : info) : jdict :=
  sm i (if has_custom_did i then dset k_data_id (jv_of_did (i_did i)) [(k_data, JStr (i_name i))]
        else [(k_data, JStr (i_name i))]).

Lemma to_dict_unfold sm id i ch :
  to_dict sm (T id i ch) =
  JDict (match ch with [] => head_dict sm i | _ :: _ => dset k_children (JList (map (to_dict sm) ch)) (head_dict sm i) end).
Proof. reflexivity. Qed.

Lemma head_dict_spec enc sm i : sm_ok enc sm ->
  dget k_data (head_dict sm i) = Some (enc i) /\
  dget k_data_id (head_dict sm i) = (if has_custom_did i then Some (jv_of_did (i_did i)) else None) /\
  dget k_children (head_dict sm i) = None /\
  dget k_node_id (head_dict sm i) = None.
Proof.
  intros Hsm. unfold head_dict.
  destruct (has_custom_did i).
  - destruct (Hsm i (dset k_data_id (jv_of_did (i_did i)) [(k_data, JStr (i_name i))])) as (A1 & A2 & A3 & A4).
    + rewrite dget_dset_other by exact k_data_neq_id. reflexivity.
    + rewrite dget_dset_other by exact k_ch_neq_id. reflexivity.
    + rewrite dget_dset_other by discriminate. reflexivity.
    + refine (conj A1 (conj _ (conj A3 A4))). rewrite A2. apply dget_dset_same.
  - destruct (Hsm i [(k_data, JStr (i_name i))]) as (A1 & A2 & A3 & A4); [reflexivity|reflexivity|reflexivity|].
    refine (conj A1 (conj _ (conj A3 A4))). rewrite A2. reflexivity.
Qed.

Lemma to_dict_mirrors enc sm : sm_ok enc sm -> forall t, mirrors enc t (to_dict sm t).
Proof.
  intros Hsm. induction t as [id i ch IH] using rt_ind'.
  rewrite to_dict_unfold.
  destruct (head_dict_spec enc sm i Hsm) as (A1 & A2 & A3 & _).
  assert (F2 : Forall2 (mirrors enc) ch (map (to_dict sm) ch)).
  { clear -IH. induction IH as [|x xs Hx _ IHxs]; cbn [map]; constructor; assumption. }
  destruct ch as [|c cs].
  - apply mirrors_node with (js := []).
    + exact A1.
    + intros C. apply has_custom_did_true in C. now rewrite C in A2.
    + intros C. apply has_custom_did_false in C. now rewrite C in A2.
    + intros _. exact A3.
    + intros N. now contradiction N.
    + constructor.
  - apply mirrors_node with (js := map (to_dict sm) (c :: cs)).
    + rewrite dget_dset_other by exact k_data_neq_ch. exact A1.
    + intros C. apply has_custom_did_true in C. rewrite dget_dset_other by exact k_id_neq_ch. now rewrite C in A2.
    + intros C. apply has_custom_did_false in C. rewrite dget_dset_other by exact k_id_neq_ch. now rewrite C in A2.
    + discriminate.
    + intros _. apply dget_dset_same.
    + exact F2.
Qed.

Theorem to_dict_list_mirrors enc sm : sm_ok enc sm ->
  forall f, Forall2 (mirrors enc) f (to_dict_list sm f).
Proof.
  intros Hsm f. unfold to_dict_list. induction f as [|t r IH]; cbn [map]; constructor;
    [apply to_dict_mirrors; assumption|exact IH].
Qed.

(* the "data_id" entry the property asks for *)
Definition opt_id (i : info) : option jv :=
  if Z.eqb (i_hash i) (-1) then Some (jv_of_did (i_did i))
  else if did_eqb (i_did i) (DInt (i_hash i)) then None else Some (jv_of_did (i_did i)).

Lemma opt_id_custom i : (if has_custom_did i then Some (jv_of_did (i_did i)) else None) = opt_id i.
Proof.
  unfold has_custom_did, opt_id, unhashable. destruct (Z.eqb (i_hash i) (-1)); [reflexivity|].
  cbn [orb]. now destruct (did_eqb (i_did i) (DInt (i_hash i))).
Qed.

(* without a mapper the dict is exactly: data[, data_id][, children] *)
Theorem to_dict_plain_exact id i ch :
  to_dict sm_none (T id i ch) =
  JDict ([(k_data, JStr (i_name i))]
         ++ (match opt_id i with Some v => [(k_data_id, v)] | None => [] end)
         ++ (match ch with [] => [] | _ => [(k_children, JList (map (to_dict sm_none) ch))] end)).
Proof.
  rewrite to_dict_unfold. unfold head_dict, sm_none. rewrite <- opt_id_custom.
  destruct (has_custom_did i); destruct ch; reflexivity.
Qed.

(* ------------------------------------------------------------------ *)
(* Specification 2: two trees are the same up to node identity (and up to what
   the dict form does not carry: kind, meta).  [same_data]: the data objects
   are indistinguishable for the library (==, hash, str-ness, printed form). *)
Definition same_data (i i' : info) : Prop :=
  i_eqc i' = i_eqc i /\ i_hash i' = i_hash i /\ i_isstr i' = i_isstr i /\ i_name i' = i_name i.

Inductive iso : rt -> rt -> Prop :=
| iso_node : forall id i ch id' i' ch',
    same_data i i' -> i_did i' = i_did i -> i_kind i' = None -> i_meta i' = [] ->
    Forall2 iso ch ch' -> iso (T id i ch) (T id' i' ch').

(* no two children of one parent with one data_id (C03), all the way down *)
Inductive sibuniq : rt -> Prop :=
| sibuniq_node : forall id i ch, NoDup (map rdid ch) -> Forall sibuniq ch -> sibuniq (T id i ch).
Definition sibuniq_f (f : forest) : Prop := NoDup (map rdid f) /\ Forall sibuniq f.

(* a property of every payload in a tree *)
Inductive allinfo (Q : info -> Prop) : rt -> Prop :=
| allinfo_node : forall id i ch, Q i -> Forall (allinfo Q) ch -> allinfo Q (T id i ch).

Lemma allinfo_of_pre (Q : info -> Prop) : forall t, (forall x, In x (pre t) -> Q (rinfo x)) -> allinfo Q t.
Proof.
  induction t as [id i ch IH] using rt_ind'. intros H. constructor.
  - apply (H (T id i ch)). apply pre_in_self.
  - rewrite Forall_forall in *. intros c Hc. apply IH; [assumption|].
    intros x Hx. apply H. cbn [pre]. right. apply in_flat_map. exists c. split; assumption.
Qed.

Lemma allinfo_f_of_pre (Q : info -> Prop) f : (forall x, In x (pre_f f) -> Q (rinfo x)) -> Forall (allinfo Q) f.
Proof.
  intros H. apply Forall_forall. intros t Ht. apply allinfo_of_pre. intros x Hx. apply H.
  apply in_flat_map. exists t. split; assumption.
Qed.

(* the mapper pair is inverse on payload [i]: from the dict to_dict writes for the
   node ([head_dict]: "data", maybe "data_id", whatever the serialisation mapper
   adds), with any "children" entry, the deserialisation step builds an
   indistinguishable data object *)
Definition own_entries (D0 D : jdict) : Prop := forall k, k <> k_children -> dget k D = dget k D0.

(* ... and leaves the item with exactly the "data_id" entry the node needs (its
   id when custom, none otherwise – whether the serialisation mapper kept it
   there or moved it to another key and the deserialisation mapper restores it)
   and without a "node_id" entry *)
Definition inverse_on (sm : smapper) (dd : dmapper) (i : info) : Prop :=
  forall D, own_entries (head_dict sm i) D ->
  exists i' D', dd D = inl (i', D') /\ same_data i i' /\
                dget k_data_id D' = opt_id i /\ dget k_node_id D' = None.

(* the only thing the round trip needs of the serialisation mapper itself: it
   does not invent a "children" entry *)
Definition sm_kids (sm : smapper) : Prop :=
  forall i res, dget k_children res = None -> dget k_children (sm i res) = None.

Lemma sm_ok_kids enc sm : sm_ok enc sm ->
  forall i res, dget k_data res = Some (JStr (i_name i)) -> dget k_children res = None -> dget k_node_id res = None ->
                dget k_children (sm i res) = None.
Proof. intros H i res H1 H2 H3. now destruct (H i res H1 H2 H3) as (_ & _ & A & _). Qed.

Lemma existsb_did_false dv seen : ~ In dv seen -> existsb (did_eqb dv) seen = false.
Proof.
  intros H. destruct (existsb (did_eqb dv) seen) eqn:E; [|reflexivity].
  apply existsb_exists in E as (x & Hx & E). apply did_eqb_eq in E. subst x. contradiction.
Qed.

Lemma existsb_did_true dv seen : In dv seen -> existsb (did_eqb dv) seen = true.
Proof. intros H. apply existsb_exists. exists dv. split; [assumption|apply did_eqb_refl]. Qed.

Lemma did_for_of_did calc d i : did_for calc (Some (jv_of_did d)) i = inl d.
Proof. destruct d; reflexivity. Qed.

Lemma to_dict_dict_spec enc sm id i ch : sm_ok enc sm ->
  exists D, to_dict sm (T id i ch) = JDict D /\
            dget k_data D = Some (enc i) /\
            dget k_data_id D = (if has_custom_did i then Some (jv_of_did (i_did i)) else None) /\
            kids_of D = map (to_dict sm) ch /\
            own_entries (head_dict sm i) D /\
            dget k_node_id D = None.
Proof.
  intros Hsm. rewrite to_dict_unfold. destruct (head_dict_spec enc sm i Hsm) as (A1 & A2 & A3 & A4).
  destruct ch as [|c cs].
  - exists (head_dict sm i). refine (conj eq_refl (conj A1 (conj A2 (conj _ (conj _ A4))))).
    + unfold kids_of. now rewrite A3.
    + intros k _. reflexivity.
  - eexists. split; [reflexivity|]. refine (conj _ (conj _ (conj _ (conj _ _)))).
    + rewrite dget_dset_other by exact k_data_neq_ch. exact A1.
    + rewrite dget_dset_other by exact k_id_neq_ch. exact A2.
    + unfold kids_of. now rewrite dget_dset_same.
    + intros k Hk. now apply dget_dset_other.
    + rewrite dget_dset_other by discriminate. exact A4.
Qed.

Lemma iso_rdid a b : iso a b -> rdid b = rdid a.
Proof. intros H. inversion H as [id i ch id' i' ch' H1 Hd H3 H4 H5]; subst. exact Hd. Qed.

Lemma to_dict_kids sm id i ch : sm_kids sm ->
  exists D, to_dict sm (T id i ch) = JDict D /\ kids_of D = map (to_dict sm) ch /\ own_entries (head_dict sm i) D.
Proof.
  intros Hk. rewrite to_dict_unfold.
  assert (A3 : dget k_children (head_dict sm i) = None).
  { unfold head_dict. apply Hk. destruct (has_custom_did i); [|reflexivity].
    rewrite dget_dset_other by exact k_ch_neq_id. reflexivity. }
  destruct ch as [|c cs].
  - exists (head_dict sm i). refine (conj eq_refl (conj _ _)).
    + unfold kids_of. now rewrite A3.
    + intros k _. reflexivity.
  - eexists. split; [reflexivity|]. split.
    + unfold kids_of. now rewrite dget_dset_same.
    + intros k Hk'. now apply dget_dset_other.
Qed.

Section RoundTrip.
  Variables (sm : smapper) (dd : dmapper).
  Hypothesis Hk : sm_kids sm.

  Definition rt_goal (t : rt) : Prop :=
    sibuniq t -> allinfo (inverse_on sm dd) t ->
    forall seen used, ~ In (rdid t) seen ->
    exists t', fd_item dd default_did (parse (to_dict sm t)) seen used = inl t' /\ iso t t' /\
               nids dd (parse (to_dict sm t)) = [].

  Lemma rt_loop : forall ch, Forall rt_goal ch ->
    NoDup (map rdid ch) -> Forall sibuniq ch -> Forall (allinfo (inverse_on sm dd)) ch ->
    forall seen used, (forall x, In x (map rdid ch) -> ~ In x seen) ->
    exists ch', fd_loop dd default_did (map parse (map (to_dict sm) ch)) seen used = inl ch' /\ Forall2 iso ch ch' /\
                flat_map (nids dd) (map parse (map (to_dict sm) ch)) = [].
  Proof.
    induction ch as [|x xs IH]; intros HP ND SU AI seen used Hs.
    - exists []. split; [reflexivity|split; [constructor|reflexivity]].
    - inversion HP as [|x0 xs0 Px Pxs]; subst. inversion ND as [|d0 l0 Nin ND']; subst.
      inversion SU as [|x1 xs1 Sx Sxs]; subst. inversion AI as [|x2 xs2 Ax Axs]; subst.
      destruct (Px Sx Ax seen used) as (t' & E1 & I1 & N1).
      { apply Hs. now left. }
      destruct (IH Pxs ND' Sxs Axs (seen ++ [rdid x]) used) as (ts & E2 & I2 & N2).
      { intros y Hy Hin. apply in_app_or in Hin as [Hin|[<-|[]]].
        - apply (Hs y); [now right|assumption].
        - contradiction. }
      exists (t' :: ts). split; [|split; [constructor; assumption|]].
      + cbn [map fd_loop]. rewrite E1, N1, app_nil_r. rewrite (iso_rdid _ _ I1). now rewrite E2.
      + cbn [map flat_map]. now rewrite N1, N2.
  Qed.

  Lemma rt_item : forall t, rt_goal t.
  Proof.
    induction t as [id i ch IH] using rt_ind'. intros SU AI seen used Nin.
    inversion SU as [id0 i0 ch0 ND SUch]; subst. inversion AI as [id1 i1 ch1 Hinv AIch]; subst.
    destruct (to_dict_kids sm id i ch Hk) as (D & ED & D3 & D4).
    destruct (Hinv D D4) as (i' & D' & Ei & SD & Hid & Hnid).
    assert (Edid : did_for default_did (dget k_data_id D') i' = inl (i_did i)).
    { rewrite Hid. unfold opt_id. destruct SD as (_ & Eh & _).
      destruct (Z.eqb (i_hash i) (-1)) eqn:C1; [apply did_for_of_did|].
      destruct (did_eqb (i_did i) (DInt (i_hash i))) eqn:C2; [|apply did_for_of_did].
      apply did_eqb_eq in C2. cbn [did_for]. unfold default_did, unhashable. rewrite Eh, C1, C2. reflexivity. }
    change (rdid (T id i ch)) with (i_did i) in Nin.
    destruct (rt_loop ch IH ND SUch AIch [] (used ++ opt_list None)) as (ch' & E & I & N); [intros x _ []|].
    rewrite ED, parse_dict.
    rewrite (fd_item_PT_intro dd default_did D _ seen used i' D' (i_did i) None Ei Edid);
      [|unfold nid_check; rewrite Hnid; reflexivity|apply existsb_did_false; exact Nin].
    rewrite D3, E. eexists. split; [reflexivity|]. split.
    - constructor; try reflexivity; try assumption.
    - cbn [nids]. rewrite Ei, Hnid. cbn [nid_of app]. exact N.
  Qed.

  (* from_dict before node identities are assigned *)
  Theorem roundtrip_raw f : sibuniq_f f -> Forall (allinfo (inverse_on sm dd)) f ->
    exists f', fd_loop dd default_did (map parse (to_dict_list sm f)) [] [] = inl f' /\ Forall2 iso f f'.
  Proof.
    intros [ND SU] AI. unfold to_dict_list.
    destruct (rt_loop f (proj2 (Forall_forall _ _) (fun t _ => rt_item t)) ND SU AI [] []) as (f' & E & I & _);
      [intros x _ []|].
    exists f'. split; assumption.
  Qed.
End RoundTrip.

(* ------------------------------------------------------------------ *)
(* node identities: allocation order = pre-order *)
Lemma renum_unfold n id i ch :
  renum n (T id i ch) = (T (S n) i (fst (renum_f (S n) ch)), snd (renum_f (S n) ch)).
Proof.
  cbn [renum].
  assert (E : forall l m,
             (fix go (l : list rt) (m : nat) {struct l} : list rt * nat :=
                match l with
                | [] => ([], m)
                | x :: xs => let '(x', m1) := renum m x in
                             let '(xs', m2) := go xs m1 in (x' :: xs', m2)
                end) l m = renum_f m l).
  { induction l as [|x xs IH]; intros m; [reflexivity|].
    cbn [renum_f]. destruct (renum m x) as [x' m1]. now rewrite IH. }
  rewrite E. destruct (renum_f (S n) ch) as [ch' n']. reflexivity.
Qed.

Lemma renum_f_cons n x xs :
  renum_f n (x :: xs) =
  (fst (renum n x) :: fst (renum_f (snd (renum n x)) xs), snd (renum_f (snd (renum n x)) xs)).
Proof.
  cbn [renum_f]. destruct (renum n x) as [x' m1]. cbn [fst snd].
  destruct (renum_f m1 xs) as [xs' m2]. reflexivity.
Qed.

Lemma ids_cons_t t f : ids (t :: f) = ids_t t ++ ids f.
Proof. unfold ids, ids_t. cbn [flat_map]. now rewrite map_app. Qed.

Lemma size_f_cons t f : size_f (t :: f) = (size t + size_f f)%nat.
Proof. reflexivity. Qed.

Lemma size_T id i ch : size (T id i ch) = S (size_f ch).
Proof. reflexivity. Qed.

(* same payloads, same shape: equal up to node identities *)
Inductive eqv : rt -> rt -> Prop :=
| eqv_node : forall id i ch id' ch', Forall2 eqv ch ch' -> eqv (T id i ch) (T id' i ch').

Definition renum_ok (t : rt) : Prop :=
  forall n,
    snd (renum n t) = (n + size t)%nat /\
    ids_t (fst (renum n t)) = seq (S n) (size t) /\
    eqv t (fst (renum n t)) /\
    rinfo (fst (renum n t)) = rinfo t /\
    (forall t0, iso t0 t -> iso t0 (fst (renum n t))) /\
    (sibuniq t -> sibuniq (fst (renum n t))).

Lemma renum_f_ok : forall f, Forall renum_ok f -> forall n,
    snd (renum_f n f) = (n + size_f f)%nat /\
    ids (fst (renum_f n f)) = seq (S n) (size_f f) /\
    Forall2 eqv f (fst (renum_f n f)) /\
    map rinfo (fst (renum_f n f)) = map rinfo f /\
    (forall f0, Forall2 iso f0 f -> Forall2 iso f0 (fst (renum_f n f))) /\
    (Forall sibuniq f -> Forall sibuniq (fst (renum_f n f))).
Proof.
  induction f as [|x xs IH]; intros HP n.
  - cbn. rewrite Nat.add_0_r. refine (conj eq_refl (conj eq_refl (conj (Forall2_nil _) (conj eq_refl (conj _ _))))); auto.
  - inversion HP as [|x0 xs0 Px Pxs]; subst.
    rewrite renum_f_cons. cbn [fst snd].
    destruct (Px n) as (A1 & A2 & A0 & A3 & A4 & A5).
    destruct (IH Pxs (snd (renum n x))) as (B1 & B2 & B0 & B3 & B4 & B5).
    refine (conj _ (conj _ (conj _ (conj _ (conj _ _))))).
    + rewrite B1, A1, size_f_cons. lia.
    + rewrite ids_cons_t, A2, B2, A1, size_f_cons, seq_app. reflexivity.
    + constructor; assumption.
    + cbn [map]. now rewrite A3, B3.
    + intros f0 H. inversion H as [|a b la lb Hab Hl]; subst. constructor; [apply A4|apply B4]; assumption.
    + intros H. inversion H as [|a la Ha Hl]; subst. constructor; [apply A5|apply B5]; assumption.
Qed.

Lemma renum_all_ok : forall t, renum_ok t.
Proof.
  induction t as [id i ch IH] using rt_ind'. intros n.
  rewrite renum_unfold. cbn [fst snd].
  destruct (renum_f_ok ch IH (S n)) as (B1 & B2 & B0 & B3 & B4 & B5).
  refine (conj _ (conj _ (conj _ (conj _ (conj _ _))))).
  - rewrite B1, size_T. lia.
  - rewrite ids_t_unfold. cbn [rid rch]. rewrite B2, size_T. reflexivity.
  - constructor. exact B0.
  - reflexivity.
  - intros t0 H. inversion H as [id0 i0 ch0 id' i' ch' S1 S2 S3 S4 S5]; subst.
    constructor; try assumption. now apply B4.
  - intros H. inversion H as [id0 i0 ch0 ND SU]; subst. constructor.
    + unfold rdid. rewrite <- map_map, B3, map_map. exact ND.
    + now apply B5.
Qed.

Lemma renum_forest_eqv f n : Forall2 eqv f (fst (renum_f n f)).
Proof.
  destruct (renum_f_ok f (proj2 (Forall_forall _ _) (fun t _ => renum_all_ok t)) n) as (_ & _ & B0 & _). exact B0.
Qed.

Lemma renum_forest_ok f n :
    ids (fst (renum_f n f)) = seq (S n) (size_f f) /\
    map rinfo (fst (renum_f n f)) = map rinfo f /\
    (forall f0, Forall2 iso f0 f -> Forall2 iso f0 (fst (renum_f n f))) /\
    (Forall sibuniq f -> Forall sibuniq (fst (renum_f n f))).
Proof.
  destruct (renum_f_ok f (proj2 (Forall_forall _ _) (fun t _ => renum_all_ok t)) n) as (_ & B2 & _ & B3 & B4 & B5).
  auto.
Qed.

(* ------------------------------------------------------------------ *)
(* consequences of [iso]: shape, order, data, data_ids along the pre-order *)
Inductive sk := Sk (l : list sk).
Fixpoint skel (t : rt) : sk := match t with T _ _ ch => Sk (map skel ch) end.

Lemma Forall_Forall2_impl {X Y} (R S : X -> Y -> Prop) l l' :
  Forall (fun x => forall y, R x y -> S x y) l -> Forall2 R l l' -> Forall2 S l l'.
Proof.
  intros HF H2. induction H2 as [|x y xs ys Hxy _ IH]; [constructor|].
  inversion HF as [|x0 xs0 Hx Hxs]; subst. constructor; [now apply Hx|now apply IH].
Qed.

Lemma Forall2_flat_map {X Y Z} (R : Y -> Z -> Prop) (g : X -> list Y) (h : X -> list Z) l :
  forall l', Forall2 (fun x x' => Forall2 R (g x) (h x')) l l' -> Forall2 R (flat_map g l) (flat_map h l').
Proof.
  intros l' H. induction H as [|x y xs ys Hxy _ IH]; [constructor|]. cbn [flat_map]. now apply Forall2_app.
Qed.

Lemma Forall2_eq_map {X Y Z} (g : X -> Z) (h : Y -> Z) l l' :
  Forall2 (fun x y => h y = g x) l l' -> map h l' = map g l.
Proof. intros H. induction H as [|x y xs ys E _ IH]; [reflexivity|]. cbn [map]. now rewrite E, IH. Qed.

Lemma Forall2_len {X Y} (R : X -> Y -> Prop) l l' : Forall2 R l l' -> length l = length l'.
Proof. intros H. induction H as [|x y xs ys _ _ IH]; [reflexivity|]. cbn [length]. now rewrite IH. Qed.

Lemma iso_skel : forall a b, iso a b -> skel b = skel a.
Proof.
  induction a as [id i ch IH] using rt_ind'. intros b H.
  inversion H as [id0 i0 ch0 id' i' ch' S1 S2 S3 S4 S5]; subst.
  cbn [skel]. f_equal. apply Forall2_eq_map. eapply Forall_Forall2_impl; [|exact S5].
  exact IH.
Qed.

Definition node_agrees (x y : rt) : Prop :=
  same_data (rinfo x) (rinfo y) /\ rdid y = rdid x /\ rkind y = None /\ i_meta (rinfo y) = [] /\
  length (rch y) = length (rch x).

Lemma iso_pre : forall a b, iso a b -> Forall2 node_agrees (pre a) (pre b).
Proof.
  induction a as [id i ch IH] using rt_ind'. intros b H.
  inversion H as [id0 i0 ch0 id' i' ch' S1 S2 S3 S4 S5]; subst.
  cbn [pre]. constructor.
  - unfold node_agrees, rdid, rkind. cbn [rinfo rch]. refine (conj S1 (conj S2 (conj S3 (conj S4 _)))).
    symmetry. eapply Forall2_len; exact S5.
  - apply Forall2_flat_map. eapply Forall_Forall2_impl; [|exact S5]. exact IH.
Qed.

Lemma iso_f_pre f f' : Forall2 iso f f' -> Forall2 node_agrees (pre_f f) (pre_f f').
Proof.
  intros H. apply Forall2_flat_map. eapply Forall_Forall2_impl; [|exact H].
  apply Forall_forall. intros a _ b. apply iso_pre.
Qed.

Lemma iso_f_skel f f' : Forall2 iso f f' -> map skel f' = map skel f.
Proof.
  intros H. apply Forall2_eq_map. eapply Forall_Forall2_impl; [|exact H].
  apply Forall_forall. intros a _ b. apply iso_skel.
Qed.

Lemma iso_f_dids f f' : Forall2 iso f f' -> map rdid (pre_f f') = map rdid (pre_f f).
Proof.
  intros H. apply Forall2_eq_map. apply iso_f_pre in H.
  induction H as [|x y xs ys (_ & E & _) _ IH]; constructor; assumption.
Qed.

Lemma iso_f_size f f' : Forall2 iso f f' -> size_f f' = size_f f.
Proof.
  intros H. apply iso_f_pre, Forall2_len in H.
  assert (L : forall g, length (pre_f g) = size_f g).
  { induction g as [|t r IH]; [reflexivity|]. cbn [flat_map]. now rewrite app_length, size_pre, IH. }
  now rewrite <- !L.
Qed.

(* clone groups: two positions of the pre-order carry one data_id in the
   rebuilt tree iff they do in the original *)
Lemma iso_f_clone_partition f f' : Forall2 iso f f' ->
  forall p q x y x' y',
    nth_error (pre_f f) p = Some x -> nth_error (pre_f f) q = Some y ->
    nth_error (pre_f f') p = Some x' -> nth_error (pre_f f') q = Some y' ->
    (rdid x = rdid y <-> rdid x' = rdid y').
Proof.
  intros H p q x y x' y' Hx Hy Hx' Hy'. apply iso_f_dids in H.
  assert (Ex : rdid x' = rdid x).
  { apply (map_nth_error rdid) in Hx, Hx'. rewrite H in Hx'. congruence. }
  assert (Ey : rdid y' = rdid y).
  { apply (map_nth_error rdid) in Hy, Hy'. rewrite H in Hy'. congruence. }
  rewrite Ex, Ey. reflexivity.
Qed.

(* ------------------------------------------------------------------ *)
(* The round trip, with identities *)
Theorem roundtrip sm dd next f :
  sm_kids sm -> sibuniq_f f -> Forall (allinfo (inverse_on sm dd)) f ->
  exists f', tree_from_dict dd next (to_dict_list sm f) = inl f' /\
             Forall2 iso f f' /\ ids f' = seq (S next) (size_f f).
Proof.
  intros Hk SU AI. destruct (roundtrip_raw sm dd Hk f SU AI) as (f0 & E & I).
  unfold tree_from_dict, from_dict. rewrite E.
  destruct (renum_forest_ok f0 next) as (B2 & _ & B4 & _).
  eexists. split; [reflexivity|]. split; [now apply B4|].
  rewrite B2. now rewrite (iso_f_size _ _ I).
Qed.

(* an admissible serialisation mapper (data_id left in place) with a
   deserialisation step that only reads the item: being inverse is then just
   "rebuilds indistinguishable data" *)
Lemma sm_ok_sm_kids_on_head enc sm i : sm_ok enc sm -> dget k_children (head_dict sm i) = None.
Proof. intros H. now destruct (head_dict_spec enc sm i H) as (_ & _ & A & _). Qed.

Lemma inverse_on_pure enc sm f i : sm_ok enc sm ->
  (forall D, own_entries (head_dict sm i) D -> exists i', f D = inl i' /\ same_data i i') ->
  inverse_on sm (dd_pure f) i.
Proof.
  intros Hsm H D Hown. destruct (H D Hown) as (i' & E & SD).
  exists i', D. unfold dd_pure. rewrite E. refine (conj eq_refl (conj SD _)).
  destruct (head_dict_spec enc sm i Hsm) as (_ & A2 & _ & A4). split.
  - rewrite (Hown k_data_id k_id_neq_ch), A2. apply opt_id_custom.
  - rewrite (Hown k_node_id); [exact A4|discriminate].
Qed.

Lemma inverse_on_raw enc sm raw i : sm_ok enc sm ->
  (exists i', raw (enc i) = inl i' /\ same_data i i') -> inverse_on sm (dd_raw raw) i.
Proof.
  intros Hsm H. apply (inverse_on_pure enc); [exact Hsm|]. intros D Hown.
  rewrite (Hown k_data k_data_neq_ch). destruct (head_dict_spec enc sm i Hsm) as (A1 & _). rewrite A1. exact H.
Qed.

(* [sm_ok] mappers: the round trip in its simpler form *)
Theorem roundtrip_ok enc sm dd next f :
  sm_ok enc sm -> sibuniq_f f -> Forall (allinfo (inverse_on sm dd)) f ->
  exists f', tree_from_dict dd next (to_dict_list sm f) = inl f' /\
             Forall2 iso f f' /\ ids f' = seq (S next) (size_f f).
Proof.
  intros Hsm SU AI.
  (* [sm_kids] is only used on the dicts to_dict builds: there sm_ok gives it *)
  destruct SU as [ND SU].
  assert (G : forall t, rt_goal sm dd t).
  { induction t as [id i ch IH] using rt_ind'. intros SUt AIt seen used Nin.
    inversion SUt as [id0 i0 ch0 NDc SUch]; subst. inversion AIt as [id1 i1 ch1 Hinv AIch]; subst.
    destruct (to_dict_dict_spec enc sm id i ch Hsm) as (D & ED & _ & _ & D3 & D4 & _).
    destruct (Hinv D D4) as (i' & D' & Ei & SD & Hid & Hnid).
    assert (Edid : did_for default_did (dget k_data_id D') i' = inl (i_did i)).
    { rewrite Hid. unfold opt_id. destruct SD as (_ & Eh & _).
      destruct (Z.eqb (i_hash i) (-1)) eqn:C1; [apply did_for_of_did|].
      destruct (did_eqb (i_did i) (DInt (i_hash i))) eqn:C2; [|apply did_for_of_did].
      apply did_eqb_eq in C2. cbn [did_for]. unfold default_did, unhashable. rewrite Eh, C1, C2. reflexivity. }
    change (rdid (T id i ch)) with (i_did i) in Nin.
    destruct (rt_loop sm dd ch IH NDc SUch AIch [] (used ++ opt_list None)) as (ch' & E & I & N); [intros x _ []|].
    rewrite ED, parse_dict.
    rewrite (fd_item_PT_intro dd default_did D _ seen used i' D' (i_did i) None Ei Edid);
      [|unfold nid_check; rewrite Hnid; reflexivity|apply existsb_did_false; exact Nin].
    rewrite D3, E. eexists. split; [reflexivity|]. split.
    - constructor; try reflexivity; try assumption.
    - cbn [nids]. rewrite Ei, Hnid. cbn [nid_of app]. exact N. }
  destruct (rt_loop sm dd f (proj2 (Forall_forall _ _) (fun t _ => G t)) ND SU AI [] []) as (f0 & E & I & _);
    [intros x _ []|].
  unfold tree_from_dict, from_dict, to_dict_list. rewrite E.
  destruct (renum_forest_ok f0 next) as (B2 & _ & B4 & _).
  eexists. split; [reflexivity|]. split; [now apply B4|].
  rewrite B2. now rewrite (iso_f_size _ _ I).
Qed.

(* ------------------------------------------------------------------ *)
(* from_dict on ANY input: whatever it builds satisfies sibling uniqueness *)
Lemma existsb_did_false_inv dv seen : existsb (did_eqb dv) seen = false -> ~ In dv seen.
Proof. intros E H. rewrite (existsb_did_true _ _ H) in E. discriminate. Qed.

Section Safe.
  Variables (dd : dmapper) (calc : info -> res did).

  Definition safe_goal (p : pt) : Prop :=
    forall seen used t, fd_item dd calc p seen used = inl t -> sibuniq t /\ ~ In (rdid t) seen.

  Lemma fd_loop_safe : forall l, Forall safe_goal l ->
    forall seen used f, fd_loop dd calc l seen used = inl f ->
    NoDup (map rdid f) /\ Forall sibuniq f /\ (forall x, In x (map rdid f) -> ~ In x seen).
  Proof.
    induction l as [|p ps IH]; intros HP seen used f E.
    - cbn in E. injection E as <-. refine (conj (NoDup_nil _) (conj (Forall_nil _) _)). intros x [].
    - inversion HP as [|p0 ps0 Pp Pps]; subst. cbn [fd_loop] in E.
      destruct (fd_item dd calc p seen used) as [t|e] eqn:E1; [|discriminate].
      destruct (fd_loop dd calc ps (seen ++ [rdid t]) (used ++ nids dd p)) as [ts|e] eqn:E2; [|discriminate].
      injection E as <-.
      destruct (Pp seen used t E1) as (S1 & N1).
      destruct (IH Pps _ _ _ E2) as (ND & SU & Dis).
      refine (conj _ (conj _ _)).
      + cbn [map]. constructor; [|exact ND]. intros Hin. apply (Dis _ Hin). apply in_or_app. right. now left.
      + constructor; assumption.
      + intros x [<-|Hx]; [exact N1|]. intros Hs. apply (Dis _ Hx). apply in_or_app. now left.
  Qed.

  Lemma fd_item_safe : forall p, safe_goal p.
  Proof.
    induction p as [|d kids IH] using pt_ind'; intros seen used t E.
    - discriminate.
    - apply fd_item_PT_ok in E as (i0 & d' & dv & nid & ch & E1 & E2 & E3 & Ex & El & ->).
      destruct (fd_loop_safe kids IH _ _ _ El) as (ND & SU & _).
      split; [constructor; assumption|]. apply existsb_did_false_inv. exact Ex.
  Qed.

  Theorem from_dict_safe next obj f : from_dict dd calc next obj = inl f -> sibuniq_f f.
  Proof.
    unfold from_dict. destruct (fd_loop dd calc (map parse obj) [] []) as [f0|e] eqn:E; [|discriminate].
    intros H. injection H as <-.
    destruct (fd_loop_safe (map parse obj) (proj2 (Forall_forall _ _) (fun p _ => fd_item_safe p)) _ _ _ E) as (ND & SU & _).
    destruct (renum_forest_ok f0 next) as (_ & B3 & _ & B5).
    split; [|now apply B5]. unfold rdid. rewrite <- map_map, B3, map_map. exact ND.
  Qed.
End Safe.

(* ------------------------------------------------------------------ *)
(* one dict per node, in pre-order: the flattened dict forest *)
Fixpoint pt_dicts (p : pt) : list jdict :=
  match p with PT d kids => d :: flat_map pt_dicts kids | PBad => [] end.
Definition dicts_of (l : list jv) : list jdict := flat_map (fun j => pt_dicts (parse j)) l.

Definition head_of (d : jdict) : option jv * option jv := (dget k_data d, dget k_data_id d).

Lemma dicts_pre_t enc sm : sm_ok enc sm -> forall t,
  map head_of (pt_dicts (parse (to_dict sm t))) = map (fun x => (Some (enc (rinfo x)), opt_id (rinfo x))) (pre t).
Proof.
  intros Hsm. induction t as [id i ch IH] using rt_ind'.
  destruct (to_dict_dict_spec enc sm id i ch Hsm) as (D & ED & D1 & D2 & D3 & _ & _).
  rewrite ED, parse_dict. cbn [pt_dicts pre map]. f_equal.
  - unfold head_of. rewrite D1, D2, opt_id_custom. reflexivity.
  - rewrite D3. clear -IH. induction IH as [|x xs Hx _ IHxs]; [reflexivity|].
    cbn [map flat_map]. rewrite !map_app, Hx, IHxs. reflexivity.
Qed.

Theorem dicts_pre enc sm : sm_ok enc sm -> forall f,
  map head_of (dicts_of (to_dict_list sm f)) = map (fun x => (Some (enc (rinfo x)), opt_id (rinfo x))) (pre_f f).
Proof.
  intros Hsm f. unfold dicts_of, to_dict_list. induction f as [|t r IH]; [reflexivity|].
  cbn [map flat_map]. rewrite !map_app, (dicts_pre_t enc sm Hsm), IH. reflexivity.
Qed.

(* strings without a mapper *)
Theorem roundtrip_strings raw next f :
  sibuniq_f f ->
  (forall t, In t (pre_f f) -> exists i', raw (JStr (i_name (rinfo t))) = inl i' /\ same_data (rinfo t) i') ->
  exists f', tree_from_dict (dd_raw raw) next (to_dict_list sm_none f) = inl f' /\
             Forall2 iso f f' /\ ids f' = seq (S next) (size_f f).
Proof.
  intros SU H. apply (roundtrip_ok enc_name); [exact sm_none_ok|exact SU|].
  apply allinfo_f_of_pre. intros x Hx. apply (inverse_on_raw enc_name); [exact sm_none_ok|]. exact (H x Hx).
Qed.

Theorem iso_consequences f f' : Forall2 iso f f' ->
  map skel f' = map skel f /\
  map rdid (pre_f f') = map rdid (pre_f f) /\
  Forall2 node_agrees (pre_f f) (pre_f f') /\
  (forall p q x y x' y',
     nth_error (pre_f f) p = Some x -> nth_error (pre_f f) q = Some y ->
     nth_error (pre_f f') p = Some x' -> nth_error (pre_f f') q = Some y' ->
     (rdid x = rdid y <-> rdid x' = rdid y')).
Proof.
  intros H. refine (conj (iso_f_skel _ _ H) (conj (iso_f_dids _ _ H) (conj (iso_f_pre _ _ H) _))).
  exact (iso_f_clone_partition _ _ H).
Qed.

(* ------------------------------------------------------------------ *)
(* Which inputs from_dict refuses.  An item is well formed when its data can
   be read, its data_id entry is usable and it has no node_id entry (to_dict
   never writes one); its effective id is the data_id
   entry or, without one, calc_data_id of the data.  For well-formed inputs:
   from_dict succeeds iff no two sibling items have one effective id, and the
   only error is UniqueConstraintError. *)
Section Refusal.
  Variables (dd : dmapper) (calc : info -> res did).

  Definition eff (p : pt) : option did :=
    match p with
    | PT d _ => match dd d with
                | inl (i, d') => match did_for calc (dget k_data_id d') i with inl dv => Some dv | inr _ => None end
                | inr _ => None
                end
    | PBad => None
    end.

  Inductive wf_pt : pt -> Prop :=
  | wf_PT : forall d kids i d' dv,
      dd d = inl (i, d') -> did_for calc (dget k_data_id d') i = inl dv -> dget k_node_id d' = None ->
      Forall wf_pt kids -> wf_pt (PT d kids).

  Lemma wf_eff d kids i d' dv : dd d = inl (i, d') -> did_for calc (dget k_data_id d') i = inl dv ->
    eff (PT d kids) = Some dv.
  Proof. intros E1 E2. cbn [eff]. now rewrite E1, E2. Qed.

  Inductive uniq_pt : pt -> Prop :=
  | uniq_PT : forall d kids, NoDup (map eff kids) -> Forall uniq_pt kids -> uniq_pt (PT d kids).

  Lemma eff_inv d kids dv : eff (PT d kids) = Some dv ->
    exists i d', dd d = inl (i, d') /\ did_for calc (dget k_data_id d') i = inl dv.
  Proof.
    cbn [eff]. destruct (dd d) as [[i d']|e]; [|discriminate].
    destruct (did_for calc (dget k_data_id d') i) as [x|e] eqn:E; [|discriminate].
    intros H. injection H as <-. exists i, d'. split; [reflexivity|exact E].
  Qed.

  Lemma nid_check_none d used : dget k_node_id d = None -> nid_check (dget k_node_id d) used = inl None.
  Proof. intros ->. reflexivity. Qed.

  (* success: shape of the result *)
  Definition ok_goal (p : pt) : Prop :=
    wf_pt p -> uniq_pt p -> forall seen used dv, eff p = Some dv -> ~ In dv seen ->
    exists t, fd_item dd calc p seen used = inl t /\ rdid t = dv.

  Lemma fd_loop_ok : forall l, Forall ok_goal l -> Forall wf_pt l -> Forall uniq_pt l -> NoDup (map eff l) ->
    forall seen used, (forall dv, In (Some dv) (map eff l) -> ~ In dv seen) ->
    exists f, fd_loop dd calc l seen used = inl f /\ map (fun t => Some (rdid t)) f = map eff l.
  Proof.
    induction l as [|p ps IH]; intros HP WF UQ ND seen used Hs.
    - exists []. split; reflexivity.
    - inversion HP as [|p0 ps0 Pp Pps]; subst. inversion WF as [|p1 ps1 Wp Wps]; subst.
      inversion UQ as [|p2 ps2 Up Ups]; subst. inversion ND as [|e0 l0 Nin ND']; subst.
      inversion Wp as [d kids i0 d' dv Ed Edv En Wk]; subst.
      pose proof (wf_eff d kids i0 d' dv Ed Edv) as Ee.
      destruct (Pp Wp Up seen used dv Ee) as (t & E1 & Et).
      { apply Hs. left. exact Ee. }
      destruct (IH Pps Wps Ups ND' (seen ++ [rdid t]) (used ++ nids dd (PT d kids))) as (ts & E2 & M).
      { intros x Hx Hin. apply in_app_or in Hin as [Hin|[<-|[]]].
        - apply (Hs x); [now right|assumption].
        - apply Nin. rewrite Ee, <- Et. exact Hx. }
      exists (t :: ts). split.
      + cbn [fd_loop]. now rewrite E1, E2.
      + cbn [map]. now rewrite M, Et, Ee.
  Qed.

  Lemma fd_item_ok : forall p, ok_goal p.
  Proof.
    induction p as [|d kids IH] using pt_ind'; intros WF UQ seen used dv Ee Nin.
    - discriminate.
    - inversion WF as [d0 k0 i d' dv0 E1 E2 En Wk]; subst. inversion UQ as [d1 k1 ND Uk]; subst.
      assert (dv0 = dv) as ->. { rewrite (wf_eff d kids i d' dv0 E1 E2) in Ee. now injection Ee. }
      rewrite (fd_item_PT_intro dd calc d kids seen used i d' dv None E1 E2 (nid_check_none d' used En)
                                (existsb_did_false _ _ Nin)).
      destruct (fd_loop_ok kids IH Wk Uk ND [] (used ++ opt_list None)) as (ch & E & _); [intros x _ []|].
      rewrite E. eexists. split; reflexivity.
  Qed.

  (* failure: only UniqueConstraintError *)
  Definition err_goal (p : pt) : Prop :=
    wf_pt p -> forall seen used e, fd_item dd calc p seen used = inr e -> e = E_UNIQUE.

  Lemma fd_loop_err : forall l, Forall err_goal l -> Forall wf_pt l ->
    forall seen used e, fd_loop dd calc l seen used = inr e -> e = E_UNIQUE.
  Proof.
    induction l as [|p ps IH]; intros HP WF seen used e E; [discriminate|].
    inversion HP as [|p0 ps0 Pp Pps]; subst. inversion WF as [|p1 ps1 Wp Wps]; subst.
    cbn [fd_loop] in E. destruct (fd_item dd calc p seen used) as [t|e1] eqn:E1.
    - destruct (fd_loop dd calc ps (seen ++ [rdid t]) (used ++ nids dd p)) as [ts|e2] eqn:E2; [discriminate|].
      injection E as <-. eapply IH; eassumption.
    - injection E as <-. eapply Pp; eassumption.
  Qed.

  Lemma fd_item_err : forall p, err_goal p.
  Proof.
    induction p as [|d kids IH] using pt_ind'; intros WF seen used e E.
    - inversion WF.
    - inversion WF as [d0 k0 i d' dv E1 E2 En Wk]; subst.
      destruct (existsb (did_eqb dv) seen) eqn:Ex.
      + rewrite fd_item_PT, E1, E2, (nid_check_none d' used En), Ex in E.
        destruct (did_early (dget k_data_id d')); now injection E as <-.
      + rewrite (fd_item_PT_intro dd calc d kids seen used i d' dv None E1 E2 (nid_check_none d' used En) Ex) in E.
        destruct (fd_loop dd calc kids [] (used ++ opt_list None)) as [ch|e1] eqn:El; [discriminate|].
        injection E as <-. eapply fd_loop_err; eassumption.
  Qed.

  (* success implies the input had unique sibling ids *)
  Definition conv_goal (p : pt) : Prop :=
    forall seen used t, fd_item dd calc p seen used = inl t -> eff p = Some (rdid t) /\ uniq_pt p.

  Lemma fd_loop_conv : forall l, Forall conv_goal l ->
    forall seen used f, fd_loop dd calc l seen used = inl f ->
    map eff l = map (fun t => Some (rdid t)) f /\ Forall uniq_pt l.
  Proof.
    induction l as [|p ps IH]; intros HP seen used f E.
    - cbn in E. injection E as <-. split; [reflexivity|constructor].
    - inversion HP as [|p0 ps0 Pp Pps]; subst. cbn [fd_loop] in E.
      destruct (fd_item dd calc p seen used) as [t|e] eqn:E1; [|discriminate].
      destruct (fd_loop dd calc ps (seen ++ [rdid t]) (used ++ nids dd p)) as [ts|e] eqn:E2; [|discriminate].
      injection E as <-. destruct (Pp _ _ _ E1) as (A1 & A2). destruct (IH Pps _ _ _ E2) as (B1 & B2).
      split; [cbn [map]; now rewrite A1, B1|constructor; assumption].
  Qed.

  Lemma fd_item_conv : forall p, conv_goal p.
  Proof.
    induction p as [|d kids IH] using pt_ind'; intros seen used t E.
    - discriminate.
    - apply fd_item_PT_ok in E as (i0 & d' & dv & nid & ch & E1 & E2 & E3 & Ex & El & ->).
      cbn [eff]. rewrite E1, E2. split; [reflexivity|].
      destruct (fd_loop_conv kids IH _ _ _ El) as (M & U).
      constructor; [|exact U]. rewrite M.
      destruct (fd_loop_safe dd calc kids (proj2 (Forall_forall _ _) (fun p _ => fd_item_safe dd calc p)) _ _ _ El) as (ND & _ & _).
      clear -ND. rewrite <- (map_map rdid Some). apply FinFun.Injective_map_NoDup; [|exact ND].
      intros a b H. now injection H.
  Qed.

  Definition uniq_items (obj : list jv) : Prop :=
    NoDup (map eff (map parse obj)) /\ Forall uniq_pt (map parse obj).

  Theorem from_dict_refusal next obj : Forall wf_pt (map parse obj) ->
    ((exists f, from_dict dd calc next obj = inl f) <-> uniq_items obj) /\
    (forall e, from_dict dd calc next obj = inr e -> e = E_UNIQUE).
  Proof.
    intros WF. unfold from_dict, uniq_items. split; [split|].
    - intros (f & E). destruct (fd_loop dd calc (map parse obj) [] []) as [f0|e] eqn:El; [|discriminate].
      destruct (fd_loop_conv _ (proj2 (Forall_forall _ _) (fun p _ => fd_item_conv p)) _ _ _ El) as (M & U).
      split; [|exact U]. rewrite M.
      destruct (fd_loop_safe dd calc _ (proj2 (Forall_forall _ _) (fun p _ => fd_item_safe dd calc p)) _ _ _ El) as (ND & _ & _).
      clear -ND. rewrite <- (map_map rdid Some). apply FinFun.Injective_map_NoDup; [|exact ND].
      intros a b H. now injection H.
    - intros (ND & U).
      destruct (fd_loop_ok _ (proj2 (Forall_forall _ _) (fun p _ => fd_item_ok p)) WF U ND [] []) as (f & E & _); [intros x _ []|].
      rewrite E. eexists. reflexivity.
    - intros e E. destruct (fd_loop dd calc (map parse obj) [] []) as [f0|e0] eqn:El; [discriminate|].
      injection E as <-. eapply fd_loop_err; [|exact WF|exact El].
      apply Forall_forall. intros p _. apply fd_item_err.
  Qed.
End Refusal.

(* ------------------------------------------------------------------ *)
(* Node.from_dict into a node of an existing tree keeps sibling uniqueness *)
Lemma set_ch_rinfo tg new t : rinfo (set_ch tg new t) = rinfo t.
Proof. destruct t as [id i ch]. cbn [set_ch]. destruct (Nat.eqb id tg); reflexivity. Qed.

Lemma set_ch_dids tg new l : map rdid (map (set_ch tg new) l) = map rdid l.
Proof. rewrite map_map. apply map_ext. intros t. unfold rdid. now rewrite set_ch_rinfo. Qed.

Lemma set_ch_sibuniq tg new : sibuniq_f new -> forall t, sibuniq t -> sibuniq (set_ch tg new t).
Proof.
  intros [NDn SUn]. induction t as [id i ch IH] using rt_ind'. intros H.
  inversion H as [id0 i0 ch0 ND SU]; subst. cbn [set_ch].
  destruct (Nat.eqb id tg).
  - constructor; assumption.
  - constructor.
    + rewrite set_ch_dids. exact ND.
    + clear -IH SU. induction ch as [|c cs IHc]; cbn [map]; constructor.
      * inversion IH as [|a b Ha Hb]; subst. inversion SU as [|a' b' Sa Sb]; subst. now apply Ha.
      * inversion IH as [|a b Ha Hb]; subst. inversion SU as [|a' b' Sa Sb]; subst. now apply IHc.
Qed.

Theorem node_from_dict_safe dd calc next f target obj f' :
  sibuniq_f f -> node_from_dict dd calc next f target obj = inl f' -> sibuniq_f f'.
Proof.
  intros [ND SU] H. unfold node_from_dict in H.
  destruct (find_node target f) as [[id i [|c cs]]|]; try discriminate.
  destruct (from_dict dd calc next obj) as [ch|e] eqn:E; [|discriminate].
  injection H as <-. pose proof (from_dict_safe dd calc next obj ch E) as Sch.
  split.
  - rewrite set_ch_dids. exact ND.
  - clear -SU Sch. induction SU as [|t r Ht _ IH]; cbn [map]; constructor; [now apply set_ch_sibuniq|exact IH].
Qed.

(* ------------------------------------------------------------------ *)
(* Specification 3: a tree is built from a decoded item: payload = the decoded
   data with the item's effective id (and its explicit node_id, if any),
   children built from the child items in order.  from_dict on ANY input, when it succeeds, builds exactly that. *)
Section Built.
  Variables (dd : dmapper) (calc : info -> res did).

  Inductive built : pt -> rt -> Prop :=
  | built_node : forall d kids i d' dv nid id ch,
      dd d = inl (i, d') -> did_for calc (dget k_data_id d') i = inl dv ->
      nid_of (dget k_node_id d') = inl nid ->
      Forall2 built kids ch -> built (PT d kids) (T id (mk_info i dv nid) ch).

  Definition built_goal (p : pt) : Prop := forall seen used t, fd_item dd calc p seen used = inl t -> built p t.

  Lemma fd_loop_built : forall l, Forall built_goal l ->
    forall seen used f, fd_loop dd calc l seen used = inl f -> Forall2 built l f.
  Proof.
    induction l as [|p ps IH]; intros HP seen used f E.
    - cbn in E. injection E as <-. constructor.
    - inversion HP as [|p0 ps0 Pp Pps]; subst. cbn [fd_loop] in E.
      destruct (fd_item dd calc p seen used) as [t|e] eqn:E1; [|discriminate].
      destruct (fd_loop dd calc ps (seen ++ [rdid t]) (used ++ nids dd p)) as [ts|e] eqn:E2; [|discriminate].
      injection E as <-. constructor; [eapply Pp; eassumption|eapply IH; eassumption].
  Qed.

  Lemma nid_check_of o used nid : nid_check o used = inl nid -> nid_of o = inl nid.
  Proof.
    unfold nid_check. destruct (nid_of o) as [[z|]|e]; try discriminate.
    - destruct (Z.eqb z 0 || existsb (Z.eqb z) used); [discriminate|]. intros H. exact H.
    - intros H. exact H.
  Qed.

  Lemma fd_item_built : forall p, built_goal p.
  Proof.
    induction p as [|d kids IH] using pt_ind'; intros seen used t E.
    - discriminate.
    - apply fd_item_PT_ok in E as (i0 & d' & dv & nid & ch & E1 & E2 & E3 & Ex & El & ->).
      econstructor; [exact E1|exact E2|eapply nid_check_of; exact E3|]. eapply fd_loop_built; eassumption.
  Qed.

  Lemma built_eqv : forall p t, built p t -> forall t', eqv t t' -> built p t'.
  Proof.
    induction p as [|d kids IH] using pt_ind'; intros t B t' Q.
    - inversion B.
    - inversion B as [d0 k0 i d' dv nid id ch E1 E2 E3 F]; subst.
      inversion Q as [id0 i0 ch0 id' ch' Fq]; subst.
      econstructor; [exact E1|exact E2|exact E3|].
      clear -IH F Fq. revert ch' Fq. induction F as [|k c ks cs Hkc _ IHF]; intros ch' Fq.
      + inversion Fq; subst. constructor.
      + inversion Fq as [|c0 c' cs0 cs' Hc Hcs]; subst. inversion IH as [|k0 ks0 Hk Hks]; subst.
        constructor; [eapply Hk; eassumption|now apply IHF].
  Qed.

  Theorem from_dict_built next obj f : from_dict dd calc next obj = inl f -> Forall2 built (map parse obj) f.
  Proof.
    unfold from_dict. destruct (fd_loop dd calc (map parse obj) [] []) as [f0|e] eqn:E; [|discriminate].
    intros H. injection H as <-.
    pose proof (fd_loop_built _ (proj2 (Forall_forall _ _) (fun p _ => fd_item_built p)) _ _ _ E) as B.
    pose proof (renum_forest_eqv f0 next) as Q.
    clear -B Q. revert Q. generalize (fst (renum_f next f0)). induction B as [|p t ps ts Hpt _ IH]; intros g Q.
    - inversion Q; subst. constructor.
    - inversion Q as [|t0 t' ts0 ts' Ht Hts]; subst. constructor; [eapply built_eqv; eassumption|now apply IH].
  Qed.
End Built.

(* ------------------------------------------------------------------ *)
(* The other direction: a canonical dict list (exactly the entries to_dict
   writes: "data" a string the deserialisation step reads back under that name,
   "data_id" only when it is not the default, "children" only when non-empty)
   is reproduced by to_dict_list(from_dict(obj)). *)
(* ([dd] reads the item dict; for the plain reading of a string, [dd_raw raw].) *)
Section Canonical.
  Variable dd : dmapper.

  Inductive canon : jv -> Prop :=
  | canon_item : forall s i idpart chpart,
      dd ([(k_data, JStr s)] ++ idpart ++ chpart) = inl (i, [(k_data, JStr s)] ++ idpart ++ chpart) ->
      i_name i = s -> i_hash i <> (-1)%Z ->
      (idpart = [] \/ exists dv, idpart = [(k_data_id, jv_of_did dv)] /\ dv <> DInt (i_hash i)) ->
      (chpart = [] \/ exists c cs, chpart = [(k_children, JList (c :: cs))] /\ Forall canon (c :: cs)) ->
      canon (JDict ([(k_data, JStr s)] ++ idpart ++ chpart)).

  Lemma canon_back : forall t j, canon j -> built dd default_did (parse j) t -> to_dict sm_none t = j.
  Proof.
    induction t as [id i ch IH] using rt_ind'. intros j C B.
    inversion C as [s i0 idpart chpart Ed En Hh Hid Hch]; subst j.
    rewrite parse_dict in B.
    inversion B as [d0 k0 i1 d1 dv nid id1 ch1 E1 E2 E3 F]; subst.
    change ([(k_data, JStr (i_name i0))] ++ idpart ++ chpart) with ((k_data, JStr (i_name i0)) :: idpart ++ chpart) in *.
    rewrite Ed in E1. injection E1 as <- <-.
    rewrite to_dict_plain_exact. cbn [i_name i_did i_hash mk_info]. apply f_equal.
    change ([(k_data, JStr (i_name i0))] ++ ?x) with ((k_data, JStr (i_name i0)) :: x). apply f_equal.
    assert (Kids : kids_of ((k_data, JStr (i_name i0)) :: idpart ++ chpart) =
                   match chpart with [(_, JList l)] => l | _ => [] end).
    { unfold kids_of. destruct Hid as [->|(dv0 & -> & _)]; destruct Hch as [->|(c & cs & -> & _)]; reflexivity. }
    assert (Gid : dget k_data_id ((k_data, JStr (i_name i0)) :: idpart ++ chpart) =
                  match idpart with [(_, v)] => Some v | _ => None end).
    { destruct Hid as [->|(dv0 & -> & _)]; destruct Hch as [->|(c & cs & -> & _)]; reflexivity. }
    rewrite Gid in E2. rewrite Kids in F.
    apply f_equal2.
    - unfold opt_id. cbn [i_hash i_did mk_info]. rewrite (proj2 (Z.eqb_neq _ _) Hh).
      destruct Hid as [->|(dv0 & -> & Hne)].
      + cbn [did_for] in E2. unfold default_did, unhashable in E2. rewrite (proj2 (Z.eqb_neq _ _) Hh) in E2.
        injection E2 as <-. now rewrite did_eqb_refl.
      + rewrite did_for_of_did in E2. injection E2 as <-.
        destruct (did_eqb dv0 (DInt (i_hash i0))) eqn:Eq; [apply did_eqb_eq in Eq; contradiction|reflexivity].
    - destruct Hch as [->|(c & cs & -> & Fc)].
      + inversion F; subst. reflexivity.
      + assert (ML : forall items ch0,
                   Forall (fun t => forall j, canon j -> built dd default_did (parse j) t -> to_dict sm_none t = j) ch0 ->
                   Forall canon items -> Forall2 (built dd default_did) (map parse items) ch0 ->
                   map (to_dict sm_none) ch0 = items).
        { induction items as [|x xs IHx]; intros ch0 H0 Fc0 F0.
          - inversion F0; subst. reflexivity.
          - cbn [map] in F0. inversion F0 as [|p t ps ts Hpt Hps]; subst.
            inversion Fc0 as [|x0 xs0 Cx Cxs]; subst. inversion H0 as [|t0 ts0 Ht Hts]; subst.
            cbn [map]. f_equal; [now apply Ht|now apply IHx]. }
        pose proof (ML (c :: cs) ch IH Fc F) as M.
        destruct ch as [|c1 cs1]; [discriminate M|]. now rewrite M.
  Qed.

  Theorem canonical_roundtrip next obj f :
    Forall canon obj -> from_dict dd default_did next obj = inl f -> to_dict_list sm_none f = obj.
  Proof.
    intros C E. apply from_dict_built in E. unfold to_dict_list.
    revert f E. induction C as [|j js Cj _ IH]; intros f E.
    - inversion E; subst. reflexivity.
    - cbn [map] in E. inversion E as [|p t ps ts Hpt Hps]; subst. cbn [map]. f_equal.
      + now apply canon_back.
      + now apply IH.
  Qed.
End Canonical.

(* ------------------------------------------------------------------ *)
(* explicit node ids: whatever from_dict accepts registers pairwise different,
   non-zero node ids (the keys of Tree._node_by_id) *)
Section NodeIds.
  Variables (dd : dmapper) (calc : info -> res did).

  Definition nids_fresh (l : list Z) (used : list Z) : Prop :=
    NoDup l /\ forall z, In z l -> z <> 0%Z /\ ~ In z used.

  Definition nid_goal (p : pt) : Prop :=
    forall seen used t, fd_item dd calc p seen used = inl t -> nids_fresh (nids dd p) used.

  Lemma fd_loop_nids : forall l, Forall nid_goal l ->
    forall seen used f, fd_loop dd calc l seen used = inl f -> nids_fresh (flat_map (nids dd) l) used.
  Proof.
    induction l as [|p ps IH]; intros HP seen used f E.
    - split; [constructor|intros z []].
    - inversion HP as [|p0 ps0 Pp Pps]; subst. cbn [fd_loop] in E.
      destruct (fd_item dd calc p seen used) as [t|e] eqn:E1; [|discriminate].
      destruct (fd_loop dd calc ps (seen ++ [rdid t]) (used ++ nids dd p)) as [ts|e] eqn:E2; [|discriminate].
      destruct (Pp _ _ _ E1) as (N1 & F1). destruct (IH Pps _ _ _ E2) as (N2 & F2).
      cbn [flat_map]. split.
      + apply NoDup_app_intro; [exact N1|exact N2|].
        intros z Hz1 Hz2. destruct (F2 z Hz2) as (_ & Hn). apply Hn. apply in_or_app. now right.
      + intros z Hz. apply in_app_or in Hz as [Hz|Hz]; [exact (F1 z Hz)|].
        destruct (F2 z Hz) as (Z0 & Hn). split; [exact Z0|]. intros Hu. apply Hn. apply in_or_app. now left.
  Qed.

  Lemma nid_check_some o used z : nid_check o used = inl (Some z) ->
    nid_of o = inl (Some z) /\ z <> 0%Z /\ ~ In z used.
  Proof.
    unfold nid_check. destruct (nid_of o) as [[z'|]|e]; try discriminate.
    destruct (Z.eqb z' 0) eqn:E0; [discriminate|]. cbn [orb].
    destruct (existsb (Z.eqb z') used) eqn:Ex; [discriminate|].
    intros H. injection H as <-. refine (conj eq_refl (conj _ _)).
    - now apply Z.eqb_neq.
    - intros Hin. assert (existsb (Z.eqb z') used = true) as Ht; [|rewrite Ht in Ex; discriminate].
      apply existsb_exists. exists z'. split; [exact Hin|apply Z.eqb_refl].
  Qed.

  Lemma fd_item_nids : forall p, nid_goal p.
  Proof.
    induction p as [|d kids IH] using pt_ind'; intros seen used t E.
    - discriminate.
    - apply fd_item_PT_ok in E as (i0 & d' & dv & nid & ch & E1 & E2 & E3 & Ex & El & ->).
      destruct (fd_loop_nids kids IH _ _ _ El) as (Nk & Fk). cbn [nids]. rewrite E1.
      destruct nid as [z|].
      + destruct (nid_check_some _ _ _ E3) as (En & Z0 & Zu). rewrite En. cbn [app]. split.
        * constructor; [|exact Nk]. intros Hin. destruct (Fk z Hin) as (_ & Hn). apply Hn.
          apply in_or_app. right. now left.
        * intros y [<-|Hy]; [split; assumption|]. destruct (Fk y Hy) as (Y0 & Hn). split; [exact Y0|].
          intros Hu. apply Hn. apply in_or_app. now left.
      + apply nid_check_of in E3. rewrite E3. cbn [app]. split; [exact Nk|].
        intros y Hy. destruct (Fk y Hy) as (Y0 & Hn). split; [exact Y0|].
        intros Hu. apply Hn. apply in_or_app. now left.
  Qed.

  Theorem from_dict_node_ids next obj f : from_dict dd calc next obj = inl f ->
    NoDup (flat_map (nids dd) (map parse obj)) /\ ~ In 0%Z (flat_map (nids dd) (map parse obj)).
  Proof.
    unfold from_dict. destruct (fd_loop dd calc (map parse obj) [] []) as [f0|e] eqn:E; [|discriminate].
    intros _. destruct (fd_loop_nids _ (proj2 (Forall_forall _ _) (fun p _ => fd_item_nids p)) _ _ _ E) as (N & F).
    split; [exact N|]. intros H0. destruct (F _ H0) as (Z0 & _). now apply Z0.
  Qed.
End NodeIds.
