(* Proofs about Nav.v: contexts returned by [locate_f] are the structural
   contexts of the forest; the kind-aware queries equal the plain queries on
   the kind-filtered sibling list (C15); the plain queries agree with the
   shape (C10). *)
From Coq Require Import List ZArith Bool Arith Lia Permutation.
From NT Require Import Sx Rose ListFacts RoseFacts Nav.
Import ListNotations.

(* ------------------------------------------------------------------ *)
(* locate                                                               *)
(* ------------------------------------------------------------------ *)
Lemma locate_go n anc' sibs' : forall l,
  (fix go (l : list rt) : option ctx :=
     match l with
     | [] => None
     | c :: l' => match locate n anc' sibs' c with Some r => Some r | None => go l' end
     end) l = locate_in n anc' sibs' l.
Proof.
  induction l as [|c l IH]; [reflexivity|]. cbn [locate_in].
  destruct (locate n anc' sibs' c); [reflexivity|exact IH].
Qed.

Lemma locate_unfold n anc sibs id i ch :
  locate n anc sibs (T id i ch) =
  if Nat.eqb id n then Some (anc, sibs, T id i ch)
  else locate_in n (T id i ch :: anc) ch ch.
Proof.
  cbn [locate]. destruct (Nat.eqb id n); [reflexivity|]. apply locate_go.
Qed.

(* a structural chain: the ancestor list (nearest first) and the sibling list it leads to *)
Inductive chain (f : forest) : list rt -> list rt -> Prop :=
| chain_top : chain f [] f
| chain_down p anc sibs : chain f anc sibs -> In p sibs -> chain f (p :: anc) (rch p).

Definition ctx_ok (f : forest) (c : ctx) : Prop :=
  chain f (c_anc c) (c_sibs c) /\ In (c_self c) (c_sibs c).

Lemma locate_ok f : forall t n anc sibs c,
  chain f anc sibs -> In t sibs -> locate n anc sibs t = Some c -> ctx_ok f c /\ rid (c_self c) = n.
Proof.
  induction t as [id i ch IH] using rt_ind'. intros n anc sibs c Hc Hin H.
  rewrite locate_unfold in H. destruct (Nat.eqb id n) eqn:E.
  - injection H as <-. split; [split; assumption|]. cbn. now apply Nat.eqb_eq.
  - assert (Hc' : chain f (T id i ch :: anc) ch) by (apply (chain_down f (T id i ch) anc sibs); assumption).
    rewrite Forall_forall in IH.
    assert (G : forall l, incl l ch -> locate_in n (T id i ch :: anc) ch l = Some c ->
                          ctx_ok f c /\ rid (c_self c) = n).
    { induction l as [|x l IHl]; intros Hl Hloc; cbn [locate_in] in Hloc; [discriminate|].
      destruct (locate n (T id i ch :: anc) ch x) eqn:Ex.
      - injection Hloc as ->. eapply (IH x); eauto; apply Hl; now left.
      - apply IHl; [|assumption]. intros y Hy. apply Hl. now right. }
    apply (G ch); [apply incl_refl|assumption].
Qed.

Lemma locate_in_ok f n anc sibs : forall l c,
  chain f anc sibs -> incl l sibs -> locate_in n anc sibs l = Some c -> ctx_ok f c /\ rid (c_self c) = n.
Proof.
  induction l as [|x l IH]; intros c Hc Hl H; cbn [locate_in] in H; [discriminate|].
  destruct (locate n anc sibs x) eqn:Ex.
  - injection H as ->. eapply locate_ok; eauto. apply Hl. now left.
  - apply IH; auto. intros y Hy. apply Hl. now right.
Qed.

Theorem locate_f_ok f n c : locate_f n f = Some c -> ctx_ok f c /\ rid (c_self c) = n.
Proof. apply locate_in_ok; [constructor|apply incl_refl]. Qed.

(* completeness: every node of the forest is found *)
Lemma locate_complete : forall t n anc sibs, In n (ids_t t) -> locate n anc sibs t <> None.
Proof.
  induction t as [id i ch IH] using rt_ind'. intros n anc sibs Hn.
  rewrite locate_unfold. destruct (Nat.eqb id n) eqn:E; [discriminate|].
  rewrite ids_t_unfold in Hn. cbn [rid rch] in Hn. destruct Hn as [->|Hn]; [now rewrite Nat.eqb_refl in E|].
  rewrite Forall_forall in IH.
  assert (G : forall l, incl l ch -> In n (ids l) -> locate_in n (T id i ch :: anc) ch l <> None).
  { induction l as [|x l IHl]; intros Hl Hi; [contradiction|].
    cbn [locate_in]. destruct (locate n (T id i ch :: anc) ch x) eqn:Ex; [discriminate|].
    rewrite ids_cons in Hi. change (rid x :: ids (rch x)) with (rid x :: ids (rch x)) in Hi.
    assert (Hx : In n (ids_t x) \/ In n (ids l)).
    { rewrite ids_t_unfold. cbn in Hi. destruct Hi as [Hi|Hi]; [left; now left|].
      apply in_app_or in Hi as [Hi|Hi]; [left; now right|now right]. }
    destruct Hx as [Hx|Hx].
    - exfalso. eapply (IH x); eauto. apply Hl. now left.
    - apply IHl; [|assumption]. intros y Hy. apply Hl. now right. }
  apply (G ch); [apply incl_refl|assumption].
Qed.

Lemma locate_in_complete n anc sibs : forall l, In n (ids l) -> exists c, locate_in n anc sibs l = Some c.
Proof.
  induction l as [|x l IH]; intros Hn; [contradiction|].
  cbn [locate_in]. destruct (locate n anc sibs x) eqn:Ex; [eauto|].
  rewrite ids_cons in Hn.
  assert (Hx : In n (ids_t x) \/ In n (ids l)).
  { rewrite ids_t_unfold. cbn in Hn. destruct Hn as [Hn|Hn]; [left; now left|].
    apply in_app_or in Hn as [Hn|Hn]; [left; now right|now right]. }
  destruct Hx as [Hx|Hx]; [exfalso; eapply locate_complete; eauto|auto].
Qed.

Theorem locate_f_complete f n : In n (ids f) -> exists c, locate_f n f = Some c.
Proof. apply locate_in_complete. Qed.

(* consequences of a structural chain *)
Lemma chain_sibs_in_pre f anc sibs : chain f anc sibs -> forall t, In t sibs -> In t (pre_f f).
Proof.
  induction 1 as [|p anc sibs Hc IH Hp]; intros t Ht; [now apply in_pre_f_top|].
  eapply pre_f_child_closed; eauto.
Qed.

Lemma chain_anc_in_pre f anc sibs : chain f anc sibs -> forall t, In t anc -> In t (pre_f f).
Proof.
  induction 1 as [|p anc sibs Hc IH Hp]; intros t Ht; [contradiction|].
  destruct Ht as [<-|Ht]; [eapply chain_sibs_in_pre; eauto|auto].
Qed.

Lemma chain_sibs_nodup f anc sibs : NoDup (ids f) -> chain f anc sibs -> NoDup (map rid sibs).
Proof.
  intros H Hc. destruct Hc as [|p anc sibs Hc Hp]; [now apply NoDup_ids_top|].
  apply NoDup_ids_top. eapply NoDup_ids_children; eauto. eapply chain_sibs_in_pre; eauto.
Qed.

Lemma ctx_self_in_pre f c : ctx_ok f c -> In (c_self c) (pre_f f).
Proof. intros [Hc Hs]. eapply chain_sibs_in_pre; eauto. Qed.

Theorem locate_f_self f t : NoDup (ids f) -> In t (pre_f f) ->
  exists c, locate_f (rid t) f = Some c /\ c_self c = t /\ ctx_ok f c.
Proof.
  intros H Ht. destruct (locate_f_complete f (rid t)) as (c & Hc).
  { unfold ids. now apply in_map. }
  destruct (locate_f_ok f _ c Hc) as (Hok & Hid). exists c. repeat split; try assumption; try apply Hok.
  eapply node_unique; eauto. now apply ctx_self_in_pre.
Qed.

(* the shape the sibling-relative proofs use: self splits its sibling list,
   and nothing with its identity comes earlier *)
Definition ctx_split (c : ctx) : Prop :=
  exists l1 l2, c_sibs c = l1 ++ c_self c :: l2 /\
                (forall x, In x l1 -> rid x <> rid (c_self c)) /\
                (forall x, In x l2 -> rid x <> rid (c_self c)).

Lemma ctx_ok_split f c : NoDup (ids f) -> ctx_ok f c -> ctx_split c.
Proof.
  intros H [Hc Hs]. pose proof (chain_sibs_nodup f _ _ H Hc) as Hnd.
  apply in_split in Hs as (l1 & l2 & E). exists l1, l2. split; [exact E|].
  rewrite E, map_app in Hnd. cbn [map] in Hnd. split; intros x Hx Heq.
  - eapply (NoDup_app_disj (map rid l1)); [exact Hnd| |now left]. rewrite <- Heq. now apply in_map.
  - apply NoDup_app_r in Hnd. inversion Hnd as [|? ? Hn _]; subst. apply Hn. rewrite <- Heq. now apply in_map.
Qed.

Lemma index_of_split n l1 x l2 :
  rid x = n -> (forall y, In y l1 -> rid y <> n) -> index_of n (l1 ++ x :: l2) = Some (length l1).
Proof.
  intros Hx. induction l1 as [|y l1 IH]; intros H; cbn [app index_of length].
  - subst n. now rewrite Nat.eqb_refl.
  - destruct (Nat.eqb (rid y) n) eqn:E; [apply Nat.eqb_eq in E; exfalso; eapply H; [now left|exact E]|].
    rewrite IH; [reflexivity|]. intros z Hz. apply H. now right.
Qed.

Lemma index_of_nth n l k : index_of n l = Some k -> exists x, nth_error l k = Some x /\ rid x = n.
Proof.
  revert k. induction l as [|y l IH]; intros k H; cbn [index_of] in H; [discriminate|].
  destruct (Nat.eqb (rid y) n) eqn:E.
  - injection H as <-. exists y. split; [reflexivity|now apply Nat.eqb_eq].
  - destruct (index_of n l) as [j|]; [|discriminate]. injection H as <-.
    destruct (IH j eq_refl) as (x & Hx & Hr). exists x. split; assumption.
Qed.

(* ------------------------------------------------------------------ *)
(* C15: kind-aware queries = plain queries on the kind-filtered list    *)
(* ------------------------------------------------------------------ *)
Definition sk (self : rt) (t : rt) : bool := same_kind t self.

(* the same context, seen through the kind filter *)
Definition fctx (c : ctx) : ctx := (c_anc c, filter (sk (c_self c)) (c_sibs c), c_self c).

Lemma same_kind_refl t : same_kind t t = true.
Proof. unfold same_kind. now apply kind_eqb_eq. Qed.

Lemma typed_children_filter ch k : t_get_children ch (Some k) = filter (kind_is k) ch.
Proof. destruct ch; reflexivity. Qed.

Lemma typed_children_any ch : t_get_children ch None = ch.
Proof. destruct ch; reflexivity. Qed.

Lemma typed_first_child ch k : t_first_child ch (Some k) = hd_error (filter (kind_is k) ch).
Proof. destruct ch; [reflexivity|]. unfold t_first_child. apply find_hd_filter. Qed.

Lemma typed_first_child_any ch : t_first_child ch None = hd_error ch.
Proof. destruct ch; reflexivity. Qed.

Lemma typed_last_child ch k : t_last_child ch (Some k) = last_error (filter (kind_is k) ch).
Proof.
  destruct ch as [|x ch]; [reflexivity|]. unfold t_last_child, last_error.
  now rewrite find_hd_filter, filter_rev'.
Qed.

Lemma typed_last_child_any ch : t_last_child ch None = last_error ch.
Proof. destruct ch; reflexivity. Qed.

Lemma typed_has_children ch k :
  t_has_children ch (Some k) = match filter (kind_is k) ch with [] => false | _ => true end.
Proof.
  unfold t_has_children. rewrite typed_children_filter. now destruct (filter (kind_is k) ch).
Qed.

Lemma typed_has_children_any ch : t_has_children ch None = match ch with [] => false | _ => true end.
Proof. reflexivity. Qed.

Section TypedSibs.
  Variable c : ctx.
  Hypothesis Hs : ctx_split c.
  Let self := c_self c.
  Let me := rid self.

  Lemma fctx_split : ctx_split (fctx c).
  Proof.
    destruct Hs as (l1 & l2 & E & H1 & H2). exists (filter (sk self) l1), (filter (sk self) l2).
    unfold fctx, c_sibs, c_self; cbn [fst snd]. fold self. split.
    - unfold c_sibs in E. rewrite E, filter_app. cbn [filter]. unfold sk at 2. now rewrite same_kind_refl.
    - split; intros x Hx; apply filter_In in Hx as [Hx _]; auto.
  Qed.

  Lemma typed_siblings add_self : t_siblings c false add_self = q_siblings (fctx c) add_self.
  Proof.
    unfold t_siblings, q_siblings, fctx, c_sibs, c_self; cbn [fst snd]. destruct add_self; cbn [orb].
    - apply filter_ext_in'. intros x _. reflexivity.
    - rewrite filter_filter_comm. apply filter_ext_in'. intros x _. reflexivity.
  Qed.

  Lemma typed_first_sibling : t_first_sibling c false = q_first_sibling (fctx c).
  Proof. unfold t_first_sibling, q_first_sibling, fctx, c_sibs, c_self; cbn [fst snd]. apply find_hd_filter. Qed.

  Lemma typed_last_sibling : t_last_sibling c false = q_last_sibling (fctx c).
  Proof.
    unfold t_last_sibling, q_last_sibling, last_error, fctx, c_sibs, c_self; cbn [fst snd].
    now rewrite find_hd_filter, filter_rev'.
  Qed.

  Lemma typed_is_first : t_is_first c false = q_is_first (fctx c).
  Proof. unfold t_is_first, q_is_first. now rewrite typed_first_sibling. Qed.

  Lemma typed_is_last : t_is_last c false = q_is_last (fctx c).
  Proof. unfold t_is_last, q_is_last. now rewrite typed_last_sibling. Qed.

  Lemma typed_index k : rkind self = Some k -> t_index c false = q_index (fctx c).
  Proof.
    intros Hk. unfold self, c_self in Hk. unfold t_index, q_index, fctx, c_sibs, c_self; cbn [fst snd]. rewrite Hk.
    rewrite typed_children_filter. f_equal. apply filter_ext_in'. intros x _.
    unfold kind_is, sk, same_kind. now rewrite Hk.
  Qed.

  (* plain prev/next in terms of the split *)
  Lemma q_prev_split (d : ctx) l1 l2 :
    c_sibs d = l1 ++ c_self d :: l2 -> (forall x, In x l1 -> rid x <> rid (c_self d)) ->
    q_prev d = last_error l1.
  Proof.
    intros E H1. unfold q_prev, q_is_first, q_index. rewrite E, (index_of_split _ l1 _ l2 eq_refl H1).
    destruct l1 as [|y l1]; cbn [app hd_error].
    - unfold is_self. now rewrite Nat.eqb_refl.
    - unfold is_self. destruct (Nat.eqb (rid y) (rid (c_self d))) eqn:Ey.
      + apply Nat.eqb_eq in Ey. exfalso. eapply H1; [now left|exact Ey].
      + cbn [length]. unfold last_error.
        change (y :: l1 ++ c_self d :: l2) with ((y :: l1) ++ c_self d :: l2).
        now apply nth_error_last.
  Qed.

  Lemma q_next_split (d : ctx) l1 l2 :
    c_sibs d = l1 ++ c_self d :: l2 -> (forall x, In x l1 -> rid x <> rid (c_self d)) ->
    (forall x, In x l2 -> rid x <> rid (c_self d)) ->
    q_next d = hd_error l2.
  Proof.
    intros E H1 H2. unfold q_next, q_is_last, q_index, last_error.
    rewrite E, (index_of_split _ l1 _ l2 eq_refl H1), nth_error_app_S_len.
    rewrite rev_app_distr. cbn [rev]. rewrite <- app_assoc. cbn [app].
    destruct l2 as [|y l2] using rev_ind.
    - cbn. unfold is_self. now rewrite Nat.eqb_refl.
    - clear IHl2. rewrite rev_app_distr. cbn [rev app hd_error]. unfold is_self.
      destruct (Nat.eqb (rid y) (rid (c_self d))) eqn:Ey; [|reflexivity].
      apply Nat.eqb_eq in Ey. exfalso. eapply H2; [|exact Ey]. apply in_or_app. right. now left.
  Qed.

  Lemma fctx_sibs l1 l2 : c_sibs c = l1 ++ self :: l2 ->
    c_sibs (fctx c) = filter (sk self) l1 ++ c_self (fctx c) :: filter (sk self) l2.
  Proof.
    intros E. unfold fctx, c_sibs, c_self; cbn [fst snd]. unfold c_sibs in E. rewrite E, filter_app.
    cbn [filter]. fold self. unfold sk at 2. now rewrite same_kind_refl.
  Qed.

  Lemma typed_prev : t_prev c false = q_prev (fctx c).
  Proof.
    destruct Hs as (l1 & l2 & E & H1 & H2). fold self in E, H1, H2.
    rewrite (q_prev_split (fctx c) _ _ (fctx_sibs l1 l2 E)).
    2:{ intros x Hx. apply filter_In in Hx as [Hx _]. now apply H1. }
    unfold t_prev. fold me self. rewrite E.
    rewrite (index_of_split _ l1 _ l2 eq_refl H1), firstn_app_len. cbn [orb].
    rewrite find_hd_filter, filter_rev'. reflexivity.
  Qed.

  Lemma typed_next : t_next c false = q_next (fctx c).
  Proof.
    destruct Hs as (l1 & l2 & E & H1 & H2). fold self in E, H1, H2.
    rewrite (q_next_split (fctx c) _ _ (fctx_sibs l1 l2 E)).
    2:{ intros x Hx. apply filter_In in Hx as [Hx _]. now apply H1. }
    2:{ intros x Hx. apply filter_In in Hx as [Hx _]. now apply H2. }
    unfold t_next. fold me self. rewrite E.
    rewrite (index_of_split _ l1 _ l2 eq_refl H1).
    rewrite skipn_S_app_len.
    cbn [orb]. apply find_hd_filter.
  Qed.

  (* any_kind = True: the kind-aware query is the plain query *)
  Lemma typed_any_siblings a : t_siblings c true a = q_siblings c a.
  Proof. reflexivity. Qed.
  Lemma typed_any_first : t_first_sibling c true = q_first_sibling c.
  Proof. reflexivity. Qed.
  Lemma typed_any_last : t_last_sibling c true = q_last_sibling c.
  Proof. reflexivity. Qed.
  Lemma typed_any_index : t_index c true = q_index c.
  Proof. reflexivity. Qed.
  Lemma typed_any_is_first : t_is_first c true = q_is_first c.
  Proof. reflexivity. Qed.
  Lemma typed_any_is_last : t_is_last c true = q_is_last c.
  Proof. reflexivity. Qed.

  Lemma typed_any_prev : t_prev c true = q_prev c.
  Proof.
    destruct Hs as (l1 & l2 & E & H1 & H2). fold self in E, H1, H2.
    rewrite (q_prev_split c l1 l2 E H1).
    unfold t_prev. fold me self. rewrite E.
    rewrite (index_of_split _ l1 _ l2 eq_refl H1), firstn_app_len. cbn [orb].
    rewrite find_hd_filter, filter_true. reflexivity.
  Qed.

  Lemma typed_any_next : t_next c true = q_next c.
  Proof.
    destruct Hs as (l1 & l2 & E & H1 & H2). fold self in E, H1, H2.
    rewrite (q_next_split c l1 l2 E H1 H2).
    unfold t_next. fold me self. rewrite E.
    rewrite (index_of_split _ l1 _ l2 eq_refl H1).
    rewrite skipn_S_app_len.
    cbn [orb]. rewrite find_hd_filter, filter_true. reflexivity.
  Qed.
End TypedSibs.

Lemma typed_iter_by_type f k : t_iter_by_type f (Some k) = filter (kind_is k) (pre_f f).
Proof. reflexivity. Qed.
Lemma typed_iter_any f : t_iter_by_type f None = pre_f f.
Proof. reflexivity. Qed.

(* ---- C15, packaged for every node of every forest with unique identities ---- *)
Theorem typed_child_queries ch k :
  t_get_children ch (Some k) = filter (kind_is k) ch /\
  t_first_child ch (Some k) = hd_error (filter (kind_is k) ch) /\
  t_last_child ch (Some k) = last_error (filter (kind_is k) ch) /\
  t_has_children ch (Some k) = negb (match filter (kind_is k) ch with [] => true | _ => false end).
Proof.
  refine (conj _ (conj _ (conj _ _)));
    [apply typed_children_filter|apply typed_first_child|apply typed_last_child|].
  rewrite typed_has_children. now destruct (filter (kind_is k) ch).
Qed.

Theorem typed_child_queries_any ch :
  t_get_children ch None = ch /\ t_first_child ch None = hd_error ch /\
  t_last_child ch None = last_error ch /\
  t_has_children ch None = negb (match ch with [] => true | _ => false end).
Proof.
  refine (conj _ (conj _ (conj _ _)));
    [apply typed_children_any|apply typed_first_child_any|apply typed_last_child_any|].
  now destruct ch.
Qed.

Theorem typed_sibling_queries f n c k :
  NoDup (ids f) -> locate_f n f = Some c -> rkind (c_self c) = Some k ->
  (forall a, t_siblings c false a = q_siblings (fctx c) a) /\
  t_first_sibling c false = q_first_sibling (fctx c) /\
  t_last_sibling c false = q_last_sibling (fctx c) /\
  t_prev c false = q_prev (fctx c) /\
  t_next c false = q_next (fctx c) /\
  t_index c false = q_index (fctx c) /\
  t_is_first c false = q_is_first (fctx c) /\
  t_is_last c false = q_is_last (fctx c).
Proof.
  intros Hnd Hl Hk. destruct (locate_f_ok f n c Hl) as [Hok _].
  pose proof (ctx_ok_split f c Hnd Hok) as Hs.
  refine (conj _ (conj _ (conj _ (conj _ (conj _ (conj _ (conj _ _))))))).
  - intros a. apply typed_siblings.
  - apply typed_first_sibling.
  - apply typed_last_sibling.
  - now apply typed_prev.
  - now apply typed_next.
  - eapply typed_index; eauto.
  - apply typed_is_first.
  - apply typed_is_last.
Qed.

Theorem typed_sibling_queries_any f n c :
  NoDup (ids f) -> locate_f n f = Some c ->
  (forall a, t_siblings c true a = q_siblings c a) /\
  t_first_sibling c true = q_first_sibling c /\
  t_last_sibling c true = q_last_sibling c /\
  t_prev c true = q_prev c /\
  t_next c true = q_next c /\
  t_index c true = q_index c /\
  t_is_first c true = q_is_first c /\
  t_is_last c true = q_is_last c.
Proof.
  intros Hnd Hl. destruct (locate_f_ok f n c Hl) as [Hok _].
  pose proof (ctx_ok_split f c Hnd Hok) as Hs.
  refine (conj _ (conj _ (conj _ (conj _ (conj _ (conj _ (conj _ _))))))); try reflexivity;
    [now apply typed_any_prev|now apply typed_any_next].
Qed.

(* the filtered context is the context of the same node in the forest's kind-filtered sibling list *)
Theorem fctx_is_filter c : c_sibs (fctx c) = filter (fun t => same_kind t (c_self c)) (c_sibs c) /\ c_self (fctx c) = c_self c.
Proof. split; reflexivity. Qed.
