(* Proofs about Nav.v: contexts returned by [locate_f] are the structural
   contexts of the forest; the kind-aware queries equal the plain queries on
   the kind-filtered sibling list (C15); the plain queries agree with the
   shape (C10). *)
From Coq Require Import List ZArith Bool Arith Lia Permutation.
From NT Require Import Sx Rose ListFacts RoseFacts Nav.
Import ListNotations.

(* ------------------------------------------------------------------ *)
(* locate                                                               *)
(* ------------------------------------------------------------------ *)
Lemma locate_go n anc' sibs' : forall l,
  (fix go (l : list rt) : option ctx :=
     match l with
     | [] => None
     | c :: l' => match locate n anc' sibs' c with Some r => Some r | None => go l' end
     end) l = locate_in n anc' sibs' l.
Proof.
  induction l as [|c l IH]; [reflexivity|]. cbn [locate_in].
  destruct (locate n anc' sibs' c); [reflexivity|exact IH].
Qed.

Lemma locate_unfold n anc sibs id i ch :
  locate n anc sibs (T id i ch) =
  if Nat.eqb id n then Some (anc, sibs, T id i ch)
  else locate_in n (T id i ch :: anc) ch ch.
Proof.
  cbn [locate]. destruct (Nat.eqb id n); [reflexivity|]. apply locate_go.
Qed.

(* a structural chain: the ancestor list (nearest first) and the sibling list it leads to *)
Inductive chain (f : forest) : list rt -> list rt -> Prop :=
| chain_top : chain f [] f
| chain_down p anc sibs : chain f anc sibs -> In p sibs -> chain f (p :: anc) (rch p).

Definition ctx_ok (f : forest) (c : ctx) : Prop :=
  chain f (c_anc c) (c_sibs c) /\ In (c_self c) (c_sibs c).

Lemma locate_ok f : forall t n anc sibs c,
  chain f anc sibs -> In t sibs -> locate n anc sibs t = Some c -> ctx_ok f c /\ rid (c_self c) = n.
Proof.
  induction t as [id i ch IH] using rt_ind'. intros n anc sibs c Hc Hin H.
  rewrite locate_unfold in H. destruct (Nat.eqb id n) eqn:E.
  - injection H as <-. split; [split; assumption|]. cbn. now apply Nat.eqb_eq.
  - assert (Hc' : chain f (T id i ch :: anc) ch) by (apply (chain_down f (T id i ch) anc sibs); assumption).
    rewrite Forall_forall in IH.
    assert (G : forall l, incl l ch -> locate_in n (T id i ch :: anc) ch l = Some c ->
                          ctx_ok f c /\ rid (c_self c) = n).
    { induction l as [|x l IHl]; intros Hl Hloc; cbn [locate_in] in Hloc; [discriminate|].
      destruct (locate n (T id i ch :: anc) ch x) eqn:Ex.
      - injection Hloc as ->. eapply (IH x); eauto; apply Hl; now left.
      - apply IHl; [|assumption]. intros y Hy. apply Hl. now right. }
    apply (G ch); [apply incl_refl|assumption].
Qed.

Lemma locate_in_ok f n anc sibs : forall l c,
  chain f anc sibs -> incl l sibs -> locate_in n anc sibs l = Some c -> ctx_ok f c /\ rid (c_self c) = n.
Proof.
  induction l as [|x l IH]; intros c Hc Hl H; cbn [locate_in] in H; [discriminate|].
  destruct (locate n anc sibs x) eqn:Ex.
  - injection H as ->. eapply locate_ok; eauto. apply Hl. now left.
  - apply IH; auto. intros y Hy. apply Hl. now right.
Qed.

Theorem locate_f_ok f n c : locate_f n f = Some c -> ctx_ok f c /\ rid (c_self c) = n.
Proof. apply locate_in_ok; [constructor|apply incl_refl]. Qed.

(* completeness: every node of the forest is found *)
Lemma locate_complete : forall t n anc sibs, In n (ids_t t) -> locate n anc sibs t <> None.
Proof.
  induction t as [id i ch IH] using rt_ind'. intros n anc sibs Hn.
  rewrite locate_unfold. destruct (Nat.eqb id n) eqn:E; [discriminate|].
  rewrite ids_t_unfold in Hn. cbn [rid rch] in Hn. destruct Hn as [->|Hn]; [now rewrite Nat.eqb_refl in E|].
  rewrite Forall_forall in IH.
  assert (G : forall l, incl l ch -> In n (ids l) -> locate_in n (T id i ch :: anc) ch l <> None).
  { induction l as [|x l IHl]; intros Hl Hi; [contradiction|].
    cbn [locate_in]. destruct (locate n (T id i ch :: anc) ch x) eqn:Ex; [discriminate|].
    rewrite ids_cons in Hi. change (rid x :: ids (rch x)) with (rid x :: ids (rch x)) in Hi.
    assert (Hx : In n (ids_t x) \/ In n (ids l)).
    { rewrite ids_t_unfold. cbn in Hi. destruct Hi as [Hi|Hi]; [left; now left|].
      apply in_app_or in Hi as [Hi|Hi]; [left; now right|now right]. }
    destruct Hx as [Hx|Hx].
    - exfalso. eapply (IH x); eauto. apply Hl. now left.
    - apply IHl; [|assumption]. intros y Hy. apply Hl. now right. }
  apply (G ch); [apply incl_refl|assumption].
Qed.

Lemma locate_in_complete n anc sibs : forall l, In n (ids l) -> exists c, locate_in n anc sibs l = Some c.
Proof.
  induction l as [|x l IH]; intros Hn; [contradiction|].
  cbn [locate_in]. destruct (locate n anc sibs x) eqn:Ex; [eauto|].
  rewrite ids_cons in Hn.
  assert (Hx : In n (ids_t x) \/ In n (ids l)).
  { rewrite ids_t_unfold. cbn in Hn. destruct Hn as [Hn|Hn]; [left; now left|].
    apply in_app_or in Hn as [Hn|Hn]; [left; now right|now right]. }
  destruct Hx as [Hx|Hx]; [exfalso; eapply locate_complete; eauto|auto].
Qed.

Theorem locate_f_complete f n : In n (ids f) -> exists c, locate_f n f = Some c.
Proof. apply locate_in_complete. Qed.

(* consequences of a structural chain *)
Lemma chain_sibs_in_pre f anc sibs : chain f anc sibs -> forall t, In t sibs -> In t (pre_f f).
Proof.
  induction 1 as [|p anc sibs Hc IH Hp]; intros t Ht; [now apply in_pre_f_top|].
  eapply pre_f_child_closed; eauto.
Qed.

Lemma chain_anc_in_pre f anc sibs : chain f anc sibs -> forall t, In t anc -> In t (pre_f f).
Proof.
  induction 1 as [|p anc sibs Hc IH Hp]; intros t Ht; [contradiction|].
  destruct Ht as [<-|Ht]; [eapply chain_sibs_in_pre; eauto|auto].
Qed.

Lemma chain_sibs_nodup f anc sibs : NoDup (ids f) -> chain f anc sibs -> NoDup (map rid sibs).
Proof.
  intros H Hc. destruct Hc as [|p anc sibs Hc Hp]; [now apply NoDup_ids_top|].
  apply NoDup_ids_top. eapply NoDup_ids_children; eauto. eapply chain_sibs_in_pre; eauto.
Qed.

Lemma ctx_self_in_pre f c : ctx_ok f c -> In (c_self c) (pre_f f).
Proof. intros [Hc Hs]. eapply chain_sibs_in_pre; eauto. Qed.

Theorem locate_f_self f t : NoDup (ids f) -> In t (pre_f f) ->
  exists c, locate_f (rid t) f = Some c /\ c_self c = t /\ ctx_ok f c.
Proof.
  intros H Ht. destruct (locate_f_complete f (rid t)) as (c & Hc).
  { unfold ids. now apply in_map. }
  destruct (locate_f_ok f _ c Hc) as (Hok & Hid). exists c. repeat split; try assumption; try apply Hok.
  eapply node_unique; eauto. now apply ctx_self_in_pre.
Qed.

(* the shape the sibling-relative proofs use: self splits its sibling list,
   and nothing with its identity comes earlier *)
Definition ctx_split (c : ctx) : Prop :=
  exists l1 l2, c_sibs c = l1 ++ c_self c :: l2 /\
                (forall x, In x l1 -> rid x <> rid (c_self c)) /\
                (forall x, In x l2 -> rid x <> rid (c_self c)).

Lemma ctx_ok_split f c : NoDup (ids f) -> ctx_ok f c -> ctx_split c.
Proof.
  intros H [Hc Hs]. pose proof (chain_sibs_nodup f _ _ H Hc) as Hnd.
  apply in_split in Hs as (l1 & l2 & E). exists l1, l2. split; [exact E|].
  rewrite E, map_app in Hnd. cbn [map] in Hnd. split; intros x Hx Heq.
  - eapply (NoDup_app_disj (map rid l1)); [exact Hnd| |now left]. rewrite <- Heq. now apply in_map.
  - apply NoDup_app_r in Hnd. inversion Hnd as [|? ? Hn _]; subst. apply Hn. rewrite <- Heq. now apply in_map.
Qed.

Lemma index_of_split n l1 x l2 :
  rid x = n -> (forall y, In y l1 -> rid y <> n) -> index_of n (l1 ++ x :: l2) = Some (length l1).
Proof.
  intros Hx. induction l1 as [|y l1 IH]; intros H; cbn [app index_of length].
  - subst n. now rewrite Nat.eqb_refl.
  - destruct (Nat.eqb (rid y) n) eqn:E; [apply Nat.eqb_eq in E; exfalso; eapply H; [now left|exact E]|].
    rewrite IH; [reflexivity|]. intros z Hz. apply H. now right.
Qed.

Lemma index_of_nth n l k : index_of n l = Some k -> exists x, nth_error l k = Some x /\ rid x = n.
Proof.
  revert k. induction l as [|y l IH]; intros k H; cbn [index_of] in H; [discriminate|].
  destruct (Nat.eqb (rid y) n) eqn:E.
  - injection H as <-. exists y. split; [reflexivity|now apply Nat.eqb_eq].
  - destruct (index_of n l) as [j|]; [|discriminate]. injection H as <-.
    destruct (IH j eq_refl) as (x & Hx & Hr). exists x. split; assumption.
Qed.

(* ------------------------------------------------------------------ *)
(* C15: kind-aware queries = plain queries on the kind-filtered list    *)
(* ------------------------------------------------------------------ *)
Definition sk (self : rt) (t : rt) : bool := same_kind t self.

(* the same context, seen through the kind filter *)
Definition fctx (c : ctx) : ctx := (c_anc c, filter (sk (c_self c)) (c_sibs c), c_self c).

Lemma same_kind_refl t : same_kind t t = true.
Proof. unfold same_kind. now apply kind_eqb_eq. Qed.

Lemma typed_children_filter ch k : t_get_children ch (Some k) = filter (kind_is k) ch.
Proof. destruct ch; reflexivity. Qed.

Lemma typed_children_any ch : t_get_children ch None = ch.
Proof. destruct ch; reflexivity. Qed.

Lemma typed_first_child ch k : t_first_child ch (Some k) = hd_error (filter (kind_is k) ch).
Proof. destruct ch; [reflexivity|]. unfold t_first_child. apply find_hd_filter. Qed.

Lemma typed_first_child_any ch : t_first_child ch None = hd_error ch.
Proof. destruct ch; reflexivity. Qed.

Lemma typed_last_child ch k : t_last_child ch (Some k) = last_error (filter (kind_is k) ch).
Proof.
  destruct ch as [|x ch]; [reflexivity|]. unfold t_last_child, last_error.
  now rewrite find_hd_filter, filter_rev'.
Qed.

Lemma typed_last_child_any ch : t_last_child ch None = last_error ch.
Proof. destruct ch; reflexivity. Qed.

Lemma typed_has_children ch k :
  t_has_children ch (Some k) = match filter (kind_is k) ch with [] => false | _ => true end.
Proof.
  unfold t_has_children. rewrite typed_children_filter. now destruct (filter (kind_is k) ch).
Qed.

Lemma typed_has_children_any ch : t_has_children ch None = match ch with [] => false | _ => true end.
Proof. reflexivity. Qed.

Section TypedSibs.
  Variable c : ctx.
  Hypothesis Hs : ctx_split c.
  Let self := c_self c.
  Let me := rid self.

  Lemma fctx_split : ctx_split (fctx c).
  Proof.
    destruct Hs as (l1 & l2 & E & H1 & H2). exists (filter (sk self) l1), (filter (sk self) l2).
    unfold fctx, c_sibs, c_self; cbn [fst snd]. fold self. split.
    - unfold c_sibs in E. rewrite E, filter_app. cbn [filter]. unfold sk at 2. now rewrite same_kind_refl.
    - split; intros x Hx; apply filter_In in Hx as [Hx _]; auto.
  Qed.

  Lemma typed_siblings add_self : t_siblings c false add_self = q_siblings (fctx c) add_self.
  Proof.
    unfold t_siblings, q_siblings, fctx, c_sibs, c_self; cbn [fst snd]. destruct add_self; cbn [orb].
    - apply filter_ext_in'. intros x _. reflexivity.
    - rewrite filter_filter_comm. apply filter_ext_in'. intros x _. reflexivity.
  Qed.

  Lemma typed_first_sibling : t_first_sibling c false = q_first_sibling (fctx c).
  Proof. unfold t_first_sibling, q_first_sibling, fctx, c_sibs, c_self; cbn [fst snd]. apply find_hd_filter. Qed.

  Lemma typed_last_sibling : t_last_sibling c false = q_last_sibling (fctx c).
  Proof.
    unfold t_last_sibling, q_last_sibling, last_error, fctx, c_sibs, c_self; cbn [fst snd].
    now rewrite find_hd_filter, filter_rev'.
  Qed.

  Lemma typed_is_first : t_is_first c false = q_is_first (fctx c).
  Proof. unfold t_is_first, q_is_first. now rewrite typed_first_sibling. Qed.

  Lemma typed_is_last : t_is_last c false = q_is_last (fctx c).
  Proof. unfold t_is_last, q_is_last. now rewrite typed_last_sibling. Qed.

  Lemma typed_index k : rkind self = Some k -> t_index c false = q_index (fctx c).
  Proof.
    intros Hk. unfold self, c_self in Hk. unfold t_index, q_index, fctx, c_sibs, c_self; cbn [fst snd]. rewrite Hk.
    rewrite typed_children_filter. f_equal. apply filter_ext_in'. intros x _.
    unfold kind_is, sk, same_kind. now rewrite Hk.
  Qed.

  (* plain prev/next in terms of the split *)
  Lemma q_prev_split (d : ctx) l1 l2 :
    c_sibs d = l1 ++ c_self d :: l2 -> (forall x, In x l1 -> rid x <> rid (c_self d)) ->
    q_prev d = last_error l1.
  Proof.
    intros E H1. unfold q_prev, q_is_first, q_index. rewrite E, (index_of_split _ l1 _ l2 eq_refl H1).
    destruct l1 as [|y l1]; cbn [app hd_error].
    - unfold is_self. now rewrite Nat.eqb_refl.
    - unfold is_self. destruct (Nat.eqb (rid y) (rid (c_self d))) eqn:Ey.
      + apply Nat.eqb_eq in Ey. exfalso. eapply H1; [now left|exact Ey].
      + cbn [length]. unfold last_error.
        change (y :: l1 ++ c_self d :: l2) with ((y :: l1) ++ c_self d :: l2).
        now apply nth_error_last.
  Qed.

  Lemma q_next_split (d : ctx) l1 l2 :
    c_sibs d = l1 ++ c_self d :: l2 -> (forall x, In x l1 -> rid x <> rid (c_self d)) ->
    (forall x, In x l2 -> rid x <> rid (c_self d)) ->
    q_next d = hd_error l2.
  Proof.
    intros E H1 H2. unfold q_next, q_is_last, q_index, last_error.
    rewrite E, (index_of_split _ l1 _ l2 eq_refl H1), nth_error_app_S_len.
    rewrite rev_app_distr. cbn [rev]. rewrite <- app_assoc. cbn [app].
    destruct l2 as [|y l2] using rev_ind.
    - cbn. unfold is_self. now rewrite Nat.eqb_refl.
    - clear IHl2. rewrite rev_app_distr. cbn [rev app hd_error]. unfold is_self.
      destruct (Nat.eqb (rid y) (rid (c_self d))) eqn:Ey; [|reflexivity].
      apply Nat.eqb_eq in Ey. exfalso. eapply H2; [|exact Ey]. apply in_or_app. right. now left.
  Qed.

  Lemma fctx_sibs l1 l2 : c_sibs c = l1 ++ self :: l2 ->
    c_sibs (fctx c) = filter (sk self) l1 ++ c_self (fctx c) :: filter (sk self) l2.
  Proof.
    intros E. unfold fctx, c_sibs, c_self; cbn [fst snd]. unfold c_sibs in E. rewrite E, filter_app.
    cbn [filter]. fold self. unfold sk at 2. now rewrite same_kind_refl.
  Qed.

  Lemma typed_prev : t_prev c false = q_prev (fctx c).
  Proof.
    destruct Hs as (l1 & l2 & E & H1 & H2). fold self in E, H1, H2.
    rewrite (q_prev_split (fctx c) _ _ (fctx_sibs l1 l2 E)).
    2:{ intros x Hx. apply filter_In in Hx as [Hx _]. now apply H1. }
    unfold t_prev. fold me self. rewrite E.
    rewrite (index_of_split _ l1 _ l2 eq_refl H1), firstn_app_len. cbn [orb].
    rewrite find_hd_filter, filter_rev'. reflexivity.
  Qed.

  Lemma typed_next : t_next c false = q_next (fctx c).
  Proof.
    destruct Hs as (l1 & l2 & E & H1 & H2). fold self in E, H1, H2.
    rewrite (q_next_split (fctx c) _ _ (fctx_sibs l1 l2 E)).
    2:{ intros x Hx. apply filter_In in Hx as [Hx _]. now apply H1. }
    2:{ intros x Hx. apply filter_In in Hx as [Hx _]. now apply H2. }
    unfold t_next. fold me self. rewrite E.
    rewrite (index_of_split _ l1 _ l2 eq_refl H1).
    rewrite skipn_S_app_len.
    cbn [orb]. apply find_hd_filter.
  Qed.

  (* any_kind = True: the kind-aware query is the plain query *)
  Lemma typed_any_siblings a : t_siblings c true a = q_siblings c a.
  Proof. reflexivity. Qed.
  Lemma typed_any_first : t_first_sibling c true = q_first_sibling c.
  Proof. reflexivity. Qed.
  Lemma typed_any_last : t_last_sibling c true = q_last_sibling c.
  Proof. reflexivity. Qed.
  Lemma typed_any_index : t_index c true = q_index c.
  Proof. reflexivity. Qed.
  Lemma typed_any_is_first : t_is_first c true = q_is_first c.
  Proof. reflexivity. Qed.
  Lemma typed_any_is_last : t_is_last c true = q_is_last c.
  Proof. reflexivity. Qed.

  Lemma typed_any_prev : t_prev c true = q_prev c.
  Proof.
    destruct Hs as (l1 & l2 & E & H1 & H2). fold self in E, H1, H2.
    rewrite (q_prev_split c l1 l2 E H1).
    unfold t_prev. fold me self. rewrite E.
    rewrite (index_of_split _ l1 _ l2 eq_refl H1), firstn_app_len. cbn [orb].
    rewrite find_hd_filter, filter_true. reflexivity.
  Qed.

  Lemma typed_any_next : t_next c true = q_next c.
  Proof.
    destruct Hs as (l1 & l2 & E & H1 & H2). fold self in E, H1, H2.
    rewrite (q_next_split c l1 l2 E H1 H2).
    unfold t_next. fold me self. rewrite E.
    rewrite (index_of_split _ l1 _ l2 eq_refl H1).
    rewrite skipn_S_app_len.
    cbn [orb]. rewrite find_hd_filter, filter_true. reflexivity.
  Qed.
End TypedSibs.

Lemma typed_iter_by_type f k : t_iter_by_type f (Some k) = filter (kind_is k) (pre_f f).
Proof. reflexivity. Qed.
Lemma typed_iter_any f : t_iter_by_type f None = pre_f f.
Proof. reflexivity. Qed.

(* ---- C15, packaged for every node of every forest with unique identities ---- *)
Theorem typed_child_queries ch k :
  t_get_children ch (Some k) = filter (kind_is k) ch /\
  t_first_child ch (Some k) = hd_error (filter (kind_is k) ch) /\
  t_last_child ch (Some k) = last_error (filter (kind_is k) ch) /\
  t_has_children ch (Some k) = negb (match filter (kind_is k) ch with [] => true | _ => false end).
Proof.
  refine (conj _ (conj _ (conj _ _)));
    [apply typed_children_filter|apply typed_first_child|apply typed_last_child|].
  rewrite typed_has_children. now destruct (filter (kind_is k) ch).
Qed.

Theorem typed_child_queries_any ch :
  t_get_children ch None = ch /\ t_first_child ch None = hd_error ch /\
  t_last_child ch None = last_error ch /\
  t_has_children ch None = negb (match ch with [] => true | _ => false end).
Proof.
  refine (conj _ (conj _ (conj _ _)));
    [apply typed_children_any|apply typed_first_child_any|apply typed_last_child_any|].
  now destruct ch.
Qed.

Theorem typed_sibling_queries f n c k :
  NoDup (ids f) -> locate_f n f = Some c -> rkind (c_self c) = Some k ->
  (forall a, t_siblings c false a = q_siblings (fctx c) a) /\
  t_first_sibling c false = q_first_sibling (fctx c) /\
  t_last_sibling c false = q_last_sibling (fctx c) /\
  t_prev c false = q_prev (fctx c) /\
  t_next c false = q_next (fctx c) /\
  t_index c false = q_index (fctx c) /\
  t_is_first c false = q_is_first (fctx c) /\
  t_is_last c false = q_is_last (fctx c).
Proof.
  intros Hnd Hl Hk. destruct (locate_f_ok f n c Hl) as [Hok _].
  pose proof (ctx_ok_split f c Hnd Hok) as Hs.
  refine (conj _ (conj _ (conj _ (conj _ (conj _ (conj _ (conj _ _))))))).
  - intros a. apply typed_siblings.
  - apply typed_first_sibling.
  - apply typed_last_sibling.
  - now apply typed_prev.
  - now apply typed_next.
  - eapply typed_index; eauto.
  - apply typed_is_first.
  - apply typed_is_last.
Qed.

Theorem typed_sibling_queries_any f n c :
  NoDup (ids f) -> locate_f n f = Some c ->
  (forall a, t_siblings c true a = q_siblings c a) /\
  t_first_sibling c true = q_first_sibling c /\
  t_last_sibling c true = q_last_sibling c /\
  t_prev c true = q_prev c /\
  t_next c true = q_next c /\
  t_index c true = q_index c /\
  t_is_first c true = q_is_first c /\
  t_is_last c true = q_is_last c.
Proof.
  intros Hnd Hl. destruct (locate_f_ok f n c Hl) as [Hok _].
  pose proof (ctx_ok_split f c Hnd Hok) as Hs.
  refine (conj _ (conj _ (conj _ (conj _ (conj _ (conj _ (conj _ _))))))); try reflexivity;
    [now apply typed_any_prev|now apply typed_any_next].
Qed.

(* the filtered context is the context of the same node in the forest's kind-filtered sibling list *)
Theorem fctx_is_filter c : c_sibs (fctx c) = filter (fun t => same_kind t (c_self c)) (c_sibs c) /\ c_self (fctx c) = c_self c.
Proof. split; reflexivity. Qed.

(* ------------------------------------------------------------------ *)
(* C10: the plain queries agree with the shape                          *)
(* ------------------------------------------------------------------ *)

(* the ancestor list is a real path: self is a child of the nearest
   ancestor, every ancestor is a child of the next one, the last one is a
   top-level node *)
Inductive is_path (f : forest) : rt -> list rt -> Prop :=
| path_top t : In t f -> is_path f t []
| path_child t p anc : In t (rch p) -> is_path f p anc -> is_path f t (p :: anc).

Lemma chain_is_path f anc sibs : chain f anc sibs -> forall t, In t sibs -> is_path f t anc.
Proof.
  induction 1 as [|p anc sibs Hc IH Hp]; intros t Ht; [now constructor|].
  constructor; [assumption|]. now apply IH.
Qed.

Theorem ctx_path f c : ctx_ok f c -> is_path f (c_self c) (c_anc c).
Proof. intros [Hc Hs]. eapply chain_is_path; eauto. Qed.

Theorem ctx_sibs f c : ctx_ok f c ->
  c_sibs c = match c_anc c with [] => f | p :: _ => rch p end.
Proof. intros [Hc _]. now destruct Hc. Qed.

(* parent / children / siblings *)
Theorem parent_child f c : ctx_ok f c ->
  match q_parent c with
  | Some p => In (c_self c) (rch p) /\ q_siblings c true = rch p
  | None => In (c_self c) f /\ q_siblings c true = f /\ q_is_top c = true
  end.
Proof.
  intros Hok. pose proof (ctx_sibs f c Hok) as Hs. destruct Hok as [Hc Hin].
  unfold q_parent, q_siblings, q_is_top. destruct (c_anc c) as [|p anc]; cbn [hd_error].
  - rewrite Hs in Hin. auto.
  - rewrite Hs in Hin. auto.
Qed.

Theorem depth_parent_list c a b :
  q_depth c = S (length (q_parent_list c false b)) /\
  length (q_parent_list c true b) = q_depth c /\
  (q_is_top c = true <-> q_depth c = 1) /\
  (q_is_top c = true <-> q_parent c = None) /\
  q_parent_list c a true = rev (q_parent_list c a false).
Proof.
  unfold q_depth, q_parent_list, q_is_top, q_parent.
  refine (conj _ (conj _ (conj _ (conj _ _)))).
  - destruct b; [reflexivity|now rewrite rev_length].
  - destruct b; [reflexivity|now rewrite rev_length].
  - destruct (c_anc c); cbn; split; intros; try reflexivity; try discriminate; lia.
  - destruct (c_anc c); cbn; split; intros; try reflexivity; try discriminate.
  - destruct a; now rewrite rev_involutive.
Qed.

Theorem top_is_last_ancestor f c : ctx_ok f c -> In (q_top c) f /\
  (q_top c = c_self c \/ In (q_top c) (c_anc c)).
Proof.
  intros Hok. pose proof (ctx_path f c Hok) as Hp. unfold q_top, last_error.
  revert Hp. generalize (c_self c). induction (c_anc c) as [|p anc IH]; intros t Hp.
  - cbn. inversion Hp; subst. auto.
  - inversion Hp as [|? ? ? Ht Hp']; subst. cbn [rev].
    destruct (IH p Hp') as [Hin Hor].
    destruct (hd_error (rev anc)) as [z|] eqn:E.
    + assert (hd_error (rev anc ++ [p]) = Some z) as -> by (destruct (rev anc); [discriminate|exact E]).
      split; [assumption|]. right. destruct Hor as [->|Hor]; [now left|now right].
    + apply hd_error_rev_nil in E. subst anc. cbn. split; [assumption|]. right. now left.
Qed.

(* up(k) walks the same path; up(depth) is the system root; beyond is an error *)
Theorem up_spec c k :
  q_up c 0 = None /\
  (k < length (c_anc c) -> q_up c (S k) = option_map Some (nth_error (c_anc c) k)) /\
  q_up c (q_depth c) = Some None /\
  (q_depth c < k -> q_up c k = None).
Proof.
  unfold q_up, q_depth. refine (conj _ (conj _ (conj _ _))).
  - reflexivity.
  - intros Hk. destruct (nth_error (c_anc c) k) eqn:E; [reflexivity|].
    apply nth_error_None in E. lia.
  - assert (nth_error (c_anc c) (length (c_anc c)) = None) as -> by (apply nth_error_None; lia).
    now rewrite Nat.eqb_refl.
  - intros Hk. destruct k as [|k]; [lia|].
    assert (nth_error (c_anc c) k = None) as -> by (apply nth_error_None; lia).
    destruct (Nat.eqb k (length (c_anc c))) eqn:E; [apply Nat.eqb_eq in E; lia|reflexivity].
Qed.

(* every ancestor contains the node in its branch *)
Lemma path_in_branch f : forall anc t, is_path f t anc -> forall a, In a anc -> In t (pre_f (rch a)).
Proof.
  induction anc as [|p anc IH]; intros t Hp a Ha; [contradiction|].
  inversion Hp as [|? ? ? Ht Hp']; subst. destruct Ha as [<-|Ha].
  - now apply in_pre_f_top.
  - eapply pre_f_child_closed; [|eassumption]. now apply IH.
Qed.

Theorem descendant_sound f c o : ctx_ok f c -> q_is_descendant_of c o = true ->
  exists a, In a (c_anc c) /\ rid a = o /\ In (c_self c) (pre_f (rch a)).
Proof.
  intros Hok H. unfold q_is_descendant_of in H. apply existsb_exists in H as (a & Ha & E).
  exists a. split; [assumption|]. split; [unfold is_self in E; now apply Nat.eqb_eq|].
  eapply path_in_branch; [apply ctx_path; eassumption|assumption].
Qed.

Theorem descendant_iff_ancestor c o :
  q_is_descendant_of c (rid (c_self o)) = q_is_ancestor_of c (rid (c_self o)) /\
  (q_is_descendant_of c (rid (c_self o)) = true <-> In (rid (c_self o)) (map rid (c_anc c))).
Proof.
  split; [reflexivity|]. unfold q_is_descendant_of. rewrite existsb_exists. split.
  - intros (a & Ha & E). apply Nat.eqb_eq in E. rewrite <- E. now apply in_map.
  - intros H. apply in_map_iff in H as (a & E & Ha). exists a. split; [assumption|]. unfold is_self. now apply Nat.eqb_eq.
Qed.

(* a node is never its own ancestor (needs unique identities) *)
Lemma branch_ids_not_self f p : NoDup (ids f) -> In p (pre_f f) -> ~ In (rid p) (ids (rch p)).
Proof.
  intros H Hp. pose proof (NoDup_ids_sub f p H Hp) as Hs. rewrite ids_t_unfold in Hs. now inversion Hs.
Qed.

Theorem not_own_ancestor f c : NoDup (ids f) -> ctx_ok f c ->
  q_is_descendant_of c (rid (c_self c)) = false.
Proof.
  intros H Hok. destruct (q_is_descendant_of c (rid (c_self c))) eqn:E; [exfalso|reflexivity].
  destruct (descendant_sound f c _ Hok E) as (a & Ha & Hid & Hin).
  assert (Hap : In a (pre_f f)) by (destruct Hok as [Hc _]; eapply chain_anc_in_pre; eauto).
  apply (branch_ids_not_self f a H Hap). rewrite Hid. unfold ids. now apply in_map.
Qed.

(* siblings: index, previous and next are positions in the parent's list, by identity *)
Theorem sibling_positions c l1 l2 :
  c_sibs c = l1 ++ c_self c :: l2 ->
  (forall x, In x l1 -> rid x <> rid (c_self c)) ->
  (forall x, In x l2 -> rid x <> rid (c_self c)) ->
  q_index c = Some (length l1) /\
  q_prev c = last_error l1 /\
  q_next c = hd_error l2 /\
  q_first_sibling c = hd_error (l1 ++ [c_self c]) /\
  q_last_sibling c = last_error (c_self c :: l2) /\
  (q_is_first c = true <-> l1 = []) /\
  (q_is_last c = true <-> l2 = []) /\
  q_siblings c false = l1 ++ l2.
Proof.
  intros E H1 H2. refine (conj _ (conj _ (conj _ (conj _ (conj _ (conj _ (conj _ _))))))).
  - unfold q_index. rewrite E. now apply index_of_split.
  - now apply (q_prev_split c l1 l2).
  - now apply (q_next_split c l1 l2).
  - unfold q_first_sibling. rewrite E. now destruct l1.
  - unfold q_last_sibling, last_error. rewrite E, rev_app_distr. cbn [rev]. rewrite <- app_assoc. cbn [app].
    destruct (rev l2); reflexivity.
  - unfold q_is_first. rewrite E. destruct l1 as [|y l1]; cbn [app hd_error]; unfold is_self.
    + rewrite Nat.eqb_refl. split; reflexivity.
    + destruct (Nat.eqb (rid y) (rid (c_self c))) eqn:Ey.
      * apply Nat.eqb_eq in Ey. exfalso. eapply H1; [now left|exact Ey].
      * split; discriminate.
  - unfold q_is_last, last_error. rewrite E, rev_app_distr. cbn [rev]. rewrite <- app_assoc. cbn [app].
    destruct l2 as [|y l2] using rev_ind.
    + cbn. unfold is_self. rewrite Nat.eqb_refl. split; reflexivity.
    + clear IHl2. rewrite rev_app_distr. cbn [rev app hd_error]. unfold is_self.
      destruct (Nat.eqb (rid y) (rid (c_self c))) eqn:Ey.
      * apply Nat.eqb_eq in Ey. exfalso. eapply H2; [|exact Ey]. apply in_or_app. right. now left.
      * split; [discriminate|]. intros Hn. destruct l2; discriminate Hn.
  - unfold q_siblings. rewrite E, filter_app. cbn [filter]. unfold is_self at 2. rewrite Nat.eqb_refl. cbn [negb].
    f_equal; apply filter_all_true; intros x Hx; unfold is_self;
      destruct (Nat.eqb (rid x) (rid (c_self c))) eqn:Ex; try reflexivity;
      apply Nat.eqb_eq in Ex; exfalso; [eapply H1|eapply H2]; eauto.
Qed.

(* counts and height *)
Theorem count_descendants_size c :
  q_count_desc c false = size (c_self c) - 1 /\
  q_count_desc c true = length (filter (fun t => match rch t with [] => true | _ => false end) (pre_f (rch (c_self c)))) /\
  (q_is_leaf c = true <-> q_count_desc c false = 0) /\
  q_has_children c = negb (q_is_leaf c).
Proof.
  unfold q_count_desc, q_is_leaf, q_has_children. refine (conj _ (conj _ (conj _ _))); try reflexivity.
  - rewrite filter_true. rewrite <- size_pre, pre_unfold. cbn [length]. lia.
  - rewrite filter_true. destruct (rch (c_self c)) as [|x ch] eqn:E; cbn; [split; reflexivity|].
    split; [discriminate|]. destruct x. cbn. discriminate.
Qed.

Lemma list_max_ge l x : In x l -> x <= list_max l.
Proof.
  intros H. pose proof (proj1 (list_max_le l (list_max l)) (le_n _)) as F.
  rewrite Forall_forall in F. now apply F.
Qed.

Theorem height_spec t :
  (rch t = [] -> height t = 0) /\
  (forall x, In x (rch t) -> height x < height t) /\
  (rch t <> [] -> exists x, In x (rch t) /\ height t = S (height x)).
Proof.
  destruct t as [id i ch]. cbn [rch]. refine (conj _ (conj _ _)).
  - intros ->. reflexivity.
  - intros x Hx. cbn [height]. destruct ch as [|y ch]; [contradiction|].
    assert (height x <= list_max (map height (y :: ch))) by (apply list_max_ge; now apply in_map). lia.
  - intros Hne. cbn [height]. destruct ch as [|y ch]; [congruence|].
    assert (G : forall l, l <> [] -> exists x, In x l /\ list_max (map height l) = height x).
    { induction l as [|z l IH]; [congruence|]. intros _. destruct l as [|z' l].
      - exists z. split; [now left|]. cbn. lia.
      - destruct (IH ltac:(discriminate)) as (x & Hx & Ex).
        replace (list_max (map height (z :: z' :: l))) with (Nat.max (height z) (list_max (map height (z' :: l)))) by reflexivity.
        rewrite Ex.
        destruct (Nat.le_ge_cases (height z) (height x)) as [Hle|Hge].
        + exists x. split; [now right|]. lia.
        + exists z. split; [now left|]. lia. }
    destruct (G (y :: ch) ltac:(discriminate)) as (x & Hx & Ex). exists x. split; [assumption|]. now rewrite Ex.
Qed.

(* nearest common ancestor *)
Theorem common_ancestor_spec c o a :
  q_common_ancestor c o = Some a ->
  In a (c_self c :: c_anc c) /\ In (rid a) (map rid (c_self o :: c_anc o)) /\
  (* nearest: nothing closer to self on self's path is on other's path *)
  exists l1 l2, c_self c :: c_anc c = l1 ++ a :: l2 /\
                forall x, In x l1 -> ~ In (rid x) (map rid (c_self o :: c_anc o)).
Proof.
  unfold q_common_ancestor. set (oset := map rid (c_self o :: c_anc o)).
  set (p := fun t => existsb (Nat.eqb (rid t)) oset). generalize (c_self c :: c_anc c). intros l H.
  assert (Hp : forall t, p t = true <-> In (rid t) oset).
  { intros t. unfold p. rewrite existsb_exists. split.
    - intros (x & Hx & E). apply Nat.eqb_eq in E. now rewrite E.
    - intros Hi. exists (rid t). split; [assumption|apply Nat.eqb_refl]. }
  induction l as [|y l IH]; cbn [find] in H; [discriminate|].
  destruct (p y) eqn:Ey.
  - injection H as <-. split; [now left|]. split; [now apply Hp|]. exists [], l. split; [reflexivity|]. intros x [].
  - destruct (IH H) as (Hin & Hio & l1 & l2 & E & Hn). split; [now right|]. split; [assumption|].
    exists (y :: l1), l2. split; [cbn; now rewrite E|]. intros x [<-|Hx]; [|now apply Hn].
    intros Hc. apply Hp in Hc. congruence.
Qed.

Theorem common_ancestor_none c o :
  q_common_ancestor c o = None ->
  forall x, In x (c_self c :: c_anc c) -> ~ In (rid x) (map rid (c_self o :: c_anc o)).
Proof.
  unfold q_common_ancestor. intros H x Hx Hin.
  pose proof (find_none _ _ H x Hx) as Hf. cbv beta in Hf.
  assert (Ht : existsb (Nat.eqb (rid x)) (map rid (c_self o :: c_anc o)) = true).
  { apply existsb_exists. exists (rid x). split; [assumption|apply Nat.eqb_refl]. }
  congruence.
Qed.

(* tree height is the height of the system root *)
Theorem tree_height_spec f i : tree_height f = height (T 0 i f).
Proof. reflexivity. Qed.

Theorem sibling_positions_located f n c : NoDup (ids f) -> locate_f n f = Some c ->
  exists l1 l2, c_sibs c = l1 ++ c_self c :: l2 /\
  q_index c = Some (length l1) /\
  q_prev c = last_error l1 /\
  q_next c = hd_error l2 /\
  q_first_sibling c = hd_error (l1 ++ [c_self c]) /\
  q_last_sibling c = last_error (c_self c :: l2) /\
  (q_is_first c = true <-> l1 = []) /\
  (q_is_last c = true <-> l2 = []) /\
  q_siblings c false = l1 ++ l2.
Proof.
  intros H Hl. destruct (locate_f_ok f n c Hl) as [Hok _].
  destruct (ctx_ok_split f c H Hok) as (l1 & l2 & E & H1 & H2).
  exists l1, l2. split; [exact E|]. now apply sibling_positions.
Qed.
