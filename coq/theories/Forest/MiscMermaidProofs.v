(* Theorems about the default arguments of to_mermaid_flowchart (model: MiscMermaid.v). *)
From Coq Require Import List ZArith Bool.
From NT Require Import Sx Rose Export ExportProofs MiscMermaid.
Import ListNotations.

(* called without options the export never raises; the chart is: markdown fence, title block naming the start node,
   generator comment, "flowchart <direction>", the node lines of the unique-nodes / add-root export, the edge lines, closing fence *)
Theorem default_chart_total dir s :
  exists N E,
    default_chart dir s =
      Some ([L_md_open; L_dashes; L_title ++ rname s; L_dashes; []; L_generator; []; L_flowchart ++ dir; []; L_nodes]
            ++ N ++ [[]; L_edges] ++ E ++ [L_md_close]) /\
    map Some N = map mer_node_text (mer_nodes true true s) /\
    map Some E = map mer_edge_text (mer_edges true true s).
Proof.
  destruct (mer_chart_default (default_mopts dir) s eq_refl eq_refl) as (N & E & H & HN & HE).
  exists N, E. split; [exact H|]. split; assumption.
Qed.

(* the direction appears on exactly the line the options record says *)
Theorem default_chart_direction_line dir s ls : default_chart dir s = Some ls -> nth_error ls 7 = Some (L_flowchart ++ dir).
Proof.
  intros H. destruct (default_chart_total dir s) as (N & E & H' & _). rewrite H' in H. injection H as <-. reflexivity.
Qed.
