(* C06 — level order, right-to-left and zigzag as ORDER RELATIONS on (depth,
   sibling-subtree position), and sufficiency of the loop fuel. *)
From Coq Require Import List ZArith Bool Arith Lia Permutation.
From NT Require Import Sx Rose ListFacts RoseFacts Traverse TraverseProofs.
Import ListNotations.

(* ------------------------------------------------------------------ *)
(* depth of an identity, defined on the structure                      *)
(* ------------------------------------------------------------------ *)

Inductive depth_t : rt -> nat -> nat -> Prop :=
| depth_self t : depth_t t (rid t) 0
| depth_child t c x d : In c (rch t) -> depth_t c x d -> depth_t t x (S d).
(* top-level nodes of a forest have depth 0 *)
Definition depth_f (f : forest) (x d : nat) := exists t, In t f /\ depth_t t x d.

Lemma in_ids_of_child f c x : In c f -> In x (ids_t c) -> In x (ids f).
Proof.
  intros Hc Hx. apply in_split in Hc as (f1 & f2 & ->). rewrite ids_split.
  apply in_or_app; right. apply in_or_app; now left.
Qed.

Lemma depth_t_in t x d : depth_t t x d -> In x (ids_t t).
Proof.
  induction 1 as [t|t c x d Hc _ IH]; rewrite ids_t_unfold; [now left|right].
  eapply in_ids_of_child; eauto.
Qed.

Lemma depth_f_in f x d : depth_f f x d -> In x (ids f).
Proof. intros (t & Ht & H). eapply in_ids_of_child; eauto using depth_t_in. Qed.

Lemma top_unique f a b x :
  NoDup (ids f) -> In a f -> In b f -> In x (ids_t a) -> In x (ids_t b) -> a = b.
Proof.
  intros ND Ha Hb Hxa Hxb. apply in_split in Ha as (f1 & f2 & ->).
  rewrite ids_split in ND. apply in_app_or in Hb as [Hb|[Hb|Hb]].
  - exfalso. apply (NoDup_app_disj _ _ x ND); [eapply in_ids_of_child; eauto|].
    apply in_or_app; now left.
  - exact Hb.
  - exfalso. apply NoDup_app_r in ND. apply (NoDup_app_disj _ _ x ND); [exact Hxa|].
    eapply in_ids_of_child; eauto.
Qed.

Lemma NoDup_child t c : NoDup (ids_t t) -> In c (rch t) -> NoDup (ids_t c).
Proof.
  intros ND Hc. rewrite ids_t_unfold in ND. apply NoDup_cons_iff in ND as [_ ND].
  apply (NoDup_ids_sub (rch t)); [exact ND|now apply in_pre_f_top].
Qed.

Lemma NoDup_top f t : NoDup (ids f) -> In t f -> NoDup (ids_t t).
Proof. intros ND Ht. apply (NoDup_ids_sub f); [exact ND|now apply in_pre_f_top]. Qed.

Lemma depth_t_inv_child t c x d :
  NoDup (ids_t t) -> In c (rch t) -> In x (ids_t c) -> depth_t t x d ->
  exists d', d = S d' /\ depth_t c x d'.
Proof.
  intros ND Hc Hx H. rewrite ids_t_unfold in ND. apply NoDup_cons_iff in ND as [Hn ND].
  inversion H as [t'|t' c' x' d' Hc' H']; subst.
  - exfalso. apply Hn. eapply in_ids_of_child; eauto.
  - exists d'. split; [reflexivity|].
    assert (c' = c) as -> by (eapply top_unique; eauto using depth_t_in). exact H'.
Qed.

Lemma depth_t_fun : forall t x d, depth_t t x d -> forall d', NoDup (ids_t t) -> depth_t t x d' -> d = d'.
Proof.
  induction 1 as [t|t c x d Hc H IH]; intros d' ND H'.
  - inversion H' as [t'|t' c' x' d'' Hc' H'']; subst; [reflexivity|exfalso].
    rewrite ids_t_unfold in ND. apply NoDup_cons_iff in ND as [Hn _]. apply Hn.
    eapply in_ids_of_child; eauto using depth_t_in.
  - destruct (depth_t_inv_child t c x d' ND Hc (depth_t_in _ _ _ H) H') as (d'' & -> & H'').
    f_equal. apply IH; [eapply NoDup_child; eauto|exact H''].
Qed.

Lemma depth_f_fun f x d d' : NoDup (ids f) -> depth_f f x d -> depth_f f x d' -> d = d'.
Proof.
  intros ND (t & Ht & H) (t' & Ht' & H').
  assert (t' = t) as -> by (eapply top_unique; eauto using depth_t_in).
  eapply depth_t_fun; eauto using NoDup_top.
Qed.

Lemma depth_total_t : forall t x, In x (ids_t t) -> exists d, depth_t t x d.
Proof.
  induction t as [id i ch IH] using rt_ind'. intros x Hx. rewrite ids_t_unfold in Hx.
  destruct Hx as [<-|Hx]; [exists 0; apply (depth_self (T id i ch))|].
  cbn [rch] in Hx. apply in_ids_child in Hx as (c & Hc & Hx). rewrite Forall_forall in IH.
  destruct (IH c Hc x Hx) as (d & Hd). exists (S d). eapply depth_child; eauto.
Qed.

Lemma depth_total_f f x : In x (ids f) -> exists d, depth_f f x d.
Proof.
  intros Hx. apply in_ids_child in Hx as (c & Hc & Hx).
  destruct (depth_total_t c x Hx) as (d & Hd). exists d, c. now split.
Qed.

Lemma anc_t_in t x y : anc_t t x y -> In x (ids_t t) /\ In y (ids_t t).
Proof. intros H. apply anc_before_t, before_in in H. exact H. Qed.

(* a proper ancestor is strictly less deep *)
Lemma anc_depth_t : forall t x y, anc_t t x y ->
  forall dx dy, NoDup (ids_t t) -> depth_t t x dx -> depth_t t y dy -> dx < dy.
Proof.
  induction 1 as [id i ch y Hy | id i ch c x y Hc Hanc IH]; intros dx dy ND Hx Hy'.
  - assert (dx = 0) as -> by (symmetry; eapply (depth_t_fun _ _ _ (depth_self (T id i ch))); eauto).
    apply in_ids_child in Hy as (c & Hc & Hy).
    destruct (depth_t_inv_child _ c y dy ND Hc Hy Hy') as (d' & -> & _). lia.
  - destruct (anc_t_in _ _ _ Hanc) as [Hxc Hyc].
    destruct (depth_t_inv_child _ c x dx ND Hc Hxc Hx) as (dx' & -> & Hx').
    destruct (depth_t_inv_child _ c y dy ND Hc Hyc Hy') as (dy' & -> & Hy'').
    apply -> Nat.succ_lt_mono. apply IH; auto. eapply NoDup_child; eauto.
Qed.

Lemma anc_depth_f f x y dx dy :
  NoDup (ids f) -> anc_f f x y -> depth_f f x dx -> depth_f f y dy -> dx < dy.
Proof.
  intros ND (t & Ht & H) (tx & Htx & Hx) (ty & Hty & Hy).
  destruct (anc_t_in _ _ _ H) as [Hxt Hyt].
  assert (tx = t) as -> by (eapply top_unique; eauto using depth_t_in).
  assert (ty = t) as -> by (eapply top_unique; eauto using depth_t_in).
  eapply anc_depth_t; eauto using NoDup_top.
Qed.

(* the depth annotation of [dpre] is the structural depth *)
Lemma dpre_depth : forall t d0 k a, In (k, a) (dpre d0 t) -> exists d, k = d0 + d /\ depth_t t (rid a) d.
Proof.
  induction t as [id i ch IH] using rt_ind'. intros d0 k a H. cbn [dpre] in H.
  destruct H as [H|H].
  - inversion H; subst. exists 0. split; [lia|apply depth_self].
  - apply in_flat_map in H as (c & Hc & H). rewrite Forall_forall in IH.
    destruct (IH c Hc _ _ _ H) as (d & -> & Hd). exists (S d). split; [lia|].
    eapply depth_child; eauto.
Qed.

Lemma dpre_f_depth f k a : In (k, a) (dpre_f 0 f) -> depth_f f (rid a) k.
Proof.
  intros H. apply in_flat_map in H as (t & Ht & H). destruct (dpre_depth _ _ _ _ H) as (d & -> & Hd).
  exists t. now split.
Qed.

(* ------------------------------------------------------------------ *)
(* list facts                                                          *)
(* ------------------------------------------------------------------ *)

Lemma before_map_inv {X Y} (g : X -> Y) l x y :
  before (map g l) x y -> exists l1 a l2 b l3, l = l1 ++ a :: l2 ++ b :: l3 /\ g a = x /\ g b = y.
Proof.
  intros (m1 & m2 & m3 & E).
  apply map_eq_app in E as (l1 & r1 & -> & _ & E).
  apply map_eq_cons in E as (a & r2 & -> & Ha & E).
  apply map_eq_app in E as (l2 & r3 & -> & _ & E).
  apply map_eq_cons in E as (b & l3 & -> & Hb & _).
  now exists l1, a, l2, b, l3.
Qed.

Lemma before_filter_map {X Y} (g : X -> Y) p l x y :
  before (map g l) x y ->
  (forall a, In a l -> g a = x -> p a = true) -> (forall a, In a l -> g a = y -> p a = true) ->
  before (map g (filter p l)) x y.
Proof.
  intros H Hx Hy. apply before_map_inv in H as (l1 & a & l2 & b & l3 & -> & Ha & Hb).
  assert (Pa : p a = true) by (apply Hx; [apply in_or_app; right; now left|exact Ha]).
  assert (Pb : p b = true).
  { apply Hy; [|exact Hb]. apply in_or_app; right; right. apply in_or_app; right; now left. }
  rewrite filter_app. cbn [filter]. rewrite Pa, filter_app. cbn [filter]. rewrite Pb.
  exists (map g (filter p l1)), (map g (filter p l2)), (map g (filter p l3)).
  rewrite map_app. cbn [map]. rewrite map_app. cbn [map]. now rewrite Ha, Hb.
Qed.

Lemma in_filter_map {X Y} (g : X -> Y) p l x :
  In x (map g l) -> (forall a, In a l -> g a = x -> p a = true) -> In x (map g (filter p l)).
Proof.
  intros H Hx. apply in_map_iff in H as (a & Ha & Hin). apply in_map_iff. exists a. split; [exact Ha|].
  apply filter_In. split; [exact Hin|now apply Hx].
Qed.

(* filtering keeps the relative order *)
Lemma before_filter {X} (p : X -> bool) l x y : before (filter p l) x y -> before l x y.
Proof.
  revert x y. induction l as [|a l IH]; intros x y (m1 & m2 & m3 & E); cbn [filter] in E.
  - destruct m1; discriminate.
  - destruct (p a).
    + destruct m1 as [|h m1]; cbn in E; inversion E as [[Ea Et]]; subst.
      * apply before_cons_head. assert (Hy : In y (filter p l)) by (rewrite Et; apply in_or_app; right; now left).
        apply filter_In in Hy. tauto.
      * apply before_cons, IH. now exists m1, m2, m3.
    + apply before_cons, IH. now exists m1, m2, m3.
Qed.

Lemma nth_in_nonempty {X} (ls : list (list X)) j y : In y (nth j ls []) -> In (nth j ls []) ls.
Proof.
  intros H. destruct (Nat.lt_ge_cases j (length ls)) as [Hlt|Hge]; [now apply nth_In|].
  rewrite nth_overflow in H by exact Hge. destruct H.
Qed.

Lemma before_concat_same {X} : forall (ls : list (list X)) i x y,
  before (nth i ls []) x y -> before (concat ls) x y.
Proof.
  induction ls as [|l r IH]; intros i x y H.
  - destruct i; destruct H as (a & b & c & E); destruct a; discriminate.
  - cbn [concat]. destruct i as [|i]; cbn [nth] in H; [now apply before_app_l|].
    apply before_app_r. eapply IH; eauto.
Qed.

Lemma before_concat_cross {X} : forall (ls : list (list X)) i j x y,
  i < j -> In x (nth i ls []) -> In y (nth j ls []) -> before (concat ls) x y.
Proof.
  induction ls as [|l r IH]; intros i j x y Hij Hx Hy.
  - destruct i; destruct Hx.
  - cbn [concat]. destruct j as [|j]; [lia|]. cbn [nth] in Hy. destruct i as [|i]; cbn [nth] in Hx.
    + apply before_app_cross; [exact Hx|]. apply in_concat. exists (nth j r []). split; [|exact Hy].
      eapply nth_in_nonempty; eauto.
    + apply before_app_r. apply (IH i j); [lia|exact Hx|exact Hy].
Qed.

Lemma nth_map_seq {Y} (G : nat -> list Y) n d : d < n -> nth d (map G (seq 0 n)) [] = G d.
Proof.
  intros H. rewrite (nth_indep _ _ (G 0)) by (now rewrite map_length, seq_length).
  rewrite map_nth, seq_nth by exact H. reflexivity.
Qed.

(* ------------------------------------------------------------------ *)
(* the order relation of the four level methods                        *)
(* ------------------------------------------------------------------ *)

(* [level_dir rv tg d] = true: level d is listed right-to-left.
   x precedes y: x is less deep, or equally deep and in an earlier (for a
   right-to-left level: later) sibling sub-tree *)
Definition level_rel (rv tg : bool) (f : forest) (x y : nat) : Prop :=
  exists dx dy, depth_f f x dx /\ depth_f f y dy /\
    (dx < dy \/ (dx = dy /\ if level_dir rv tg dx then left_f f y x else left_f f x y)).

Definition lids (k : nat) (f : forest) : list nat := map rid (level_of k f).

Lemma lids_eq k f : lids k f = map (fun p => rid (snd p)) (filter (at_depth k) (dpre_f 0 f)).
Proof. unfold lids, level_of. now rewrite map_map. Qed.

Lemma ids_dpre f : ids f = map (fun p => rid (snd p)) (dpre_f 0 f).
Proof. unfold ids. now rewrite <- (dpre_f_snd f 0), map_map. Qed.

Lemma at_depth_of f d x :
  NoDup (ids f) -> depth_f f x d ->
  forall a, In a (dpre_f 0 f) -> rid (snd a) = x -> at_depth d a = true.
Proof.
  intros ND Hd [k a] Hin E. cbn [snd] in E. subst x. unfold at_depth. cbn [fst].
  apply Nat.eqb_eq. eapply depth_f_fun; eauto using dpre_f_depth.
Qed.

Lemma in_level f x d : NoDup (ids f) -> depth_f f x d -> In x (lids d f).
Proof.
  intros ND Hd. rewrite lids_eq. apply in_filter_map.
  - rewrite <- ids_dpre. eapply depth_f_in; eauto.
  - eapply at_depth_of; eauto.
Qed.

Lemma same_level_before f d x y :
  NoDup (ids f) -> depth_f f x d -> depth_f f y d -> before (ids f) x y -> before (lids d f) x y.
Proof.
  intros ND Hx Hy Hb. rewrite lids_eq. apply before_filter_map.
  - now rewrite <- ids_dpre.
  - eapply at_depth_of; eauto.
  - eapply at_depth_of; eauto.
Qed.

Lemma depth_lt_nodes f x d : NoDup (ids f) -> depth_f f x d -> d < length (pre_f f).
Proof.
  intros ND Hd. destruct (Nat.lt_ge_cases d (length (pre_f f))) as [H|H]; [exact H|exfalso].
  pose proof (in_level f x d ND Hd) as Hin. unfold lids in Hin. rewrite level_of_beyond in Hin by exact H.
  destruct Hin.
Qed.

Definition lev_ids (rv tg : bool) (f : forest) (n : nat) : list nat := map rid (levels_spec rv tg f n).

Lemma lev_ids_concat rv tg f n :
  lev_ids rv tg f n = concat (map (fun k => if level_dir rv tg k then rev (lids k f) else lids k f) (seq 0 n)).
Proof.
  unfold lev_ids, levels_spec. rewrite concat_map, map_map. f_equal. apply map_ext. intros k.
  unfold dir, lids. destruct (level_dir rv tg k); [apply map_rev|reflexivity].
Qed.

Lemma level_rel_sound rv tg f n x y :
  NoDup (ids f) -> length (pre_f f) <= n -> level_rel rv tg f x y -> before (lev_ids rv tg f n) x y.
Proof.
  intros ND Hn (dx & dy & Hx & Hy & H). rewrite lev_ids_concat.
  pose proof (depth_lt_nodes f x dx ND Hx) as Lx. pose proof (depth_lt_nodes f y dy ND Hy) as Ly.
  set (G := fun k => if level_dir rv tg k then rev (lids k f) else lids k f).
  assert (InG : forall z d, depth_f f z d -> In z (G d)).
  { intros z d Hz. unfold G. pose proof (in_level f z d ND Hz) as Hin.
    destruct (level_dir rv tg d); [now apply -> in_rev|exact Hin]. }
  destruct H as [Hlt|[-> Hdir]].
  - apply (before_concat_cross _ dx dy); [exact Hlt| |]; rewrite nth_map_seq by lia; now apply InG.
  - apply (before_concat_same _ dy). rewrite nth_map_seq by lia. unfold G.
    destruct (level_dir rv tg dy).
    + apply before_rev. apply same_level_before; auto. now apply left_before.
    + apply same_level_before; auto. now apply left_before.
Qed.

Lemma level_rel_total rv tg f x y :
  NoDup (ids f) -> In x (ids f) -> In y (ids f) -> x <> y -> level_rel rv tg f x y \/ level_rel rv tg f y x.
Proof.
  intros ND Hx Hy Hne.
  destruct (depth_total_f f x Hx) as (dx & Dx). destruct (depth_total_f f y Hy) as (dy & Dy).
  destruct (lt_eq_lt_dec dx dy) as [[Hlt|Heq]|Hgt].
  - left. exists dx, dy. auto.
  - subst dy.
    assert (L : left_f f x y \/ left_f f y x).
    { destruct (struct_total_f f x y Hx Hy Hne) as [H|[H|[H|H]]]; auto; exfalso.
      - pose proof (anc_depth_f f x y dx dx ND H Dx Dy). lia.
      - pose proof (anc_depth_f f y x dx dx ND H Dy Dx). lia. }
    destruct (level_dir rv tg dx) eqn:E; destruct L as [L|L].
    + right. exists dx, dx. rewrite E. auto.
    + left. exists dx, dx. rewrite E. auto.
    + left. exists dx, dx. rewrite E. auto.
    + right. exists dx, dx. rewrite E. auto.
  - right. exists dy, dx. auto.
Qed.

Lemma lev_ids_perm rv tg f n : length (pre_f f) <= n -> Permutation (lev_ids rv tg f n) (ids f).
Proof.
  intros H. unfold lev_ids. rewrite <- iter_level_levels. apply Permutation_map. now apply iter_level_perm.
Qed.

Theorem level_order_char rv tg f n x y :
  NoDup (ids f) -> length (pre_f f) <= n -> In x (ids f) -> In y (ids f) -> x <> y ->
  (before (lev_ids rv tg f n) x y <-> level_rel rv tg f x y).
Proof.
  intros ND Hn Hx Hy Hne.
  assert (ND' : NoDup (lev_ids rv tg f n)).
  { eapply Permutation_NoDup; [apply Permutation_sym, lev_ids_perm; exact Hn|exact ND]. }
  apply (order_char (lev_ids rv tg f n) (level_rel rv tg f) ND').
  - intros a b H. now apply level_rel_sound.
  - now apply level_rel_total.
Qed.

(* the model's four level iterators *)
Theorem iter_level_order s rv tg x y :
  NoDup (ids (rch s)) -> In x (ids (rch s)) -> In y (ids (rch s)) -> x <> y ->
  (before (map rid (iter_level_n s rv tg)) x y <-> level_rel rv tg (rch s) x y).
Proof.
  intros ND Hx Hy Hne. rewrite iter_level_n_levels. apply level_order_char; auto.
  pose proof (len_pre_children s). lia.
Qed.

(* direction of a level, spelled out per method *)
Lemma level_dir_cases k :
  level_dir false false k = false /\ level_dir true false k = true /\
  level_dir false true k = Nat.odd k /\ level_dir true true k = Nat.even k.
Proof.
  unfold level_dir. cbn [andb xorb]. rewrite <- Nat.negb_odd. destruct (Nat.odd k); auto.
Qed.

(* ------------------------------------------------------------------ *)
(* fuel: once the loop has seen every node the result no longer changes *)
(* ------------------------------------------------------------------ *)

Lemma levels_spec_more rv tg f n k :
  length (pre_f f) <= n -> levels_spec rv tg f (n + k) = levels_spec rv tg f n.
Proof.
  intros H. unfold levels_spec. rewrite seq_app, map_app, concat_app. cbn [plus].
  rewrite <- (app_nil_r (concat (map _ (seq 0 n)))) at 2. f_equal.
  induction (seq n k) as [|j r IH] eqn:E in H |- *; [reflexivity|].
  assert (Hall : forall j', In j' (seq n k) -> level_of j' f = []).
  { intros j' Hj. apply in_seq in Hj. apply level_of_beyond. lia. }
  clear IH. rewrite E in Hall. clear E. induction (j :: r) as [|a l IHl]; [reflexivity|].
  cbn [map concat]. rewrite (Hall a (or_introl eq_refl)), dir_nil. cbn [app].
  apply IHl. intros j' Hj. apply Hall. now right.
Qed.

Theorem iter_level_fuel rv tg f n :
  length (pre_f f) <= n -> iter_level n rv tg f = iter_level (length (pre_f f)) rv tg f.
Proof.
  intros H. rewrite !iter_level_levels.
  replace n with (length (pre_f f) + (n - length (pre_f f))) by lia.
  apply levels_spec_more. lia.
Qed.

(* [level_fuel t = size t] is enough: more fuel gives the same sequence *)
Theorem iter_level_n_fuel t rv tg k :
  iter_level (level_fuel t + k) rv tg (rch t) = iter_level_n t rv tg.
Proof.
  unfold iter_level_n, level_fuel. pose proof (len_pre_children t) as H.
  rewrite (iter_level_fuel rv tg (rch t) (size t + k)) by lia.
  rewrite (iter_level_fuel rv tg (rch t) (size t)) by lia. reflexivity.
Qed.

(* inside one level, "earlier sibling sub-tree" is the same as "earlier in document (pre-order) position":
   level order is the lexicographic order on (depth, document position) *)
Theorem same_depth_docpos f x y d :
  NoDup (ids f) -> depth_f f x d -> depth_f f y d -> x <> y -> (left_f f x y <-> before (ids f) x y).
Proof.
  intros ND Dx Dy Hne. split; [apply left_before|]. intros Hb.
  apply (pre_order_char f x y ND (depth_f_in _ _ _ Dx) (depth_f_in _ _ _ Dy) Hne) in Hb as [H|H]; [exfalso|exact H].
  pose proof (anc_depth_f f x y d d ND H Dx Dy). lia.
Qed.

(* every node of the forest has exactly one depth *)
Theorem depth_exists_unique f x :
  NoDup (ids f) -> In x (ids f) -> exists d, depth_f f x d /\ forall d', depth_f f x d' -> d' = d.
Proof.
  intros ND Hx. destruct (depth_total_f f x Hx) as (d & Hd). exists d. split; [exact Hd|].
  intros d' Hd'. eapply depth_f_fun; eauto.
Qed.

(* ------------------------------------------------------------------ *)
(* the tight bound: the loop of _iter_level runs [height] times         *)
(* ------------------------------------------------------------------ *)

(* Tree.calc_height / Node.calc_height of the pseudo node above a forest *)
Definition forest_height (f : forest) : nat :=
  match f with [] => 0 | _ => S (list_max (map height f)) end.

Lemma height_rch t : forest_height (rch t) = height t.
Proof. destruct t as [id i [|c r]]; reflexivity. Qed.

Lemma height_le_max c ch : In c ch -> height c <= list_max (map height ch).
Proof.
  intros H. pose proof (proj1 (list_max_le (map height ch) _) (le_n _)) as F.
  rewrite Forall_forall in F. apply F. now apply in_map.
Qed.

Lemma dpre_depth_height : forall t d0 k a, In (k, a) (dpre d0 t) -> k <= d0 + height t.
Proof.
  induction t as [id i ch IH] using rt_ind'. intros d0 k a H. cbn [dpre] in H.
  destruct H as [H|H]; [inversion H; lia|].
  apply in_flat_map in H as (c & Hc & H). rewrite Forall_forall in IH. apply (IH c Hc) in H.
  pose proof (height_le_max c ch Hc). destruct ch as [|c0 r]; [destruct Hc|].
  cbn [height]. lia.
Qed.

Lemma level_of_above_height f k : forest_height f <= k -> level_of k f = [].
Proof.
  intros Hk. unfold level_of. rewrite filter_none; [reflexivity|].
  intros [d x] Hin. unfold at_depth. cbn [fst]. apply Nat.eqb_neq.
  apply in_flat_map in Hin as (t & Ht & Hin). apply dpre_depth_height in Hin.
  pose proof (height_le_max t f Ht). destruct f as [|t0 r]; [destruct Ht|]. cbn [forest_height] in Hk. lia.
Qed.

Lemma levels_spec_more_gen rv tg f n k :
  (forall j, n <= j -> level_of j f = []) -> levels_spec rv tg f (n + k) = levels_spec rv tg f n.
Proof.
  intros H. unfold levels_spec. rewrite seq_app, map_app, concat_app. cbn [plus].
  rewrite <- (app_nil_r (concat (map _ (seq 0 n)))) at 2. f_equal.
  assert (Hall : forall j', In j' (seq n k) -> level_of j' f = []).
  { intros j' Hj. apply in_seq in Hj. apply H. lia. }
  induction (seq n k) as [|a l IHl]; [reflexivity|].
  cbn [map concat]. rewrite (Hall a (or_introl eq_refl)), dir_nil. cbn [app].
  apply IHl. intros j' Hj. apply Hall. now right.
Qed.

Lemma size_le_sum c ch : In c ch -> size c <= list_sum (map size ch).
Proof.
  induction ch as [|a r IH]; intros H; [destruct H|].
  change (list_sum (map size (a :: r))) with (size a + list_sum (map size r)).
  destruct H as [->|H]; [lia|]. specialize (IH H). lia.
Qed.

Lemma height_lt_size : forall t, height t < size t.
Proof.
  induction t as [id i ch IH] using rt_ind'. destruct ch as [|c r]; [cbn; lia|].
  cbn [height size]. apply -> Nat.succ_lt_mono.
  apply list_max_lt; [discriminate|]. apply Forall_forall. intros k Hk.
  apply in_map_iff in Hk as (x & <- & Hx). rewrite Forall_forall in IH.
  pose proof (IH x Hx). pose proof (size_le_sum x (c :: r) Hx). lia.
Qed.

(* [height t] loop iterations list the whole branch below t; Node.calc_height is 0 for a leaf *)
Theorem iter_level_height_fuel t rv tg k :
  iter_level (height t + k) rv tg (rch t) = iter_level_n t rv tg.
Proof.
  unfold iter_level_n, level_fuel. rewrite !iter_level_levels.
  assert (H : forall j, height t <= j -> level_of j (rch t) = []).
  { intros j Hj. apply level_of_above_height. now rewrite height_rch. }
  rewrite (levels_spec_more_gen rv tg (rch t) (height t) k H).
  pose proof (height_lt_size t) as Hs.
  replace (size t) with (height t + (size t - height t)) by lia.
  now rewrite (levels_spec_more_gen rv tg (rch t) (height t) _ H).
Qed.
