(* The marks INSIDE an added branch (the rule of _copy_children) as a relation
   on the result, derived from the master relation for every iteration order;
   and the bridge from the reachable-tree invariant (Mut/WF.v: no two siblings
   with one data_id) to the domain of the diff theorems. *)
From Coq Require Import List ZArith Bool Arith Lia Permutation.
From NT Require Import Sx Rose ListFacts RoseFacts Diff DiffProofs DiffMore DiffSrc.
From NT Require WF.
Import ListNotations.

(* below the root and below every node present in both trees: every child
   marked ADDED/MOVED_HERE heads a branch whose first level is marked
   ADDED/MOVED_HERE and whose deeper nodes carry no mark or MOVED_HERE *)
Inductive added_rule : list rt -> list rt -> list rt -> Prop :=
| added_rule_intro r ch0 ch1 :
    (forall x, In x r -> new x = true -> branch_marks x) ->
    (forall x c0 c1, In x r -> In c0 ch0 -> In c1 ch1 -> key c0 = key x -> key c1 = key x ->
       added_rule (rch x) (rch c0) (rch c1)) ->
    added_rule r ch0 ch1.

Lemma lvl_added_rule ordered : forall ren r ch0 ch1, lvl ordered ren r ch0 ch1 -> added_rule r ch0 ch1.
Proof.
  intros ren r ch0 ch1 H. pose proof (lvl_in_keys _ _ _ _ _ H) as IK.
  induction H as [ren r ch0 ch1 N0 N1 L1 L2 L3 L4 L5 L6 L7 L8 L9 IH L10].
  constructor.
  - intros x Hx Hn. destruct (L4 x Hx Hn) as [_ [c1 [_ [_ [_ [_ [_ BM]]]]]]]. exact BM.
  - intros x c0 c1 Hx H0 H1 K0 K1. destruct (IK x Hx) as [_ [_ I2]].
    assert (Hn : new x = false) by (apply I2; rewrite <- K0; now apply in_map).
    apply (IH x c0 c1 Hx Hn H0 H1 K0 K1). eapply lvl_in_keys. eauto.
Qed.

Theorem diff_added_rule order ordered t0 t1 : dom t0 t1 ->
  added_rule (snd (diff_with order ordered false t0 t1)) t0 t1.
Proof. intros H. exact (lvl_added_rule _ _ _ _ _ (diff_lvl order ordered t0 t1 H)). Qed.

(* which deep nodes of an added branch survive reduce=True: only MOVED_HERE
   nodes and their ancestors (a deep node is kept iff a MOVED_HERE node lies in
   its own sub-branch) *)
Lemma deep_keep z : Forall deep_mark_ok (pre z) ->
  (keepb z = true <-> exists w, In w (pre z) /\ has_dc w MOVED_HERE = true).
Proof.
  intros H. unfold keepb. rewrite existsb_exists. rewrite Forall_forall in H. split.
  - intros [w [Hw P]]. exists w. split; [exact Hw|]. destruct (H w Hw) as [E|E]; [|exact E].
    unfold pred_dc in P. now rewrite E in P.
  - intros [w [Hw E]]. exists w. split; [exact Hw|]. unfold pred_dc. unfold has_dc in E.
    destruct (mark w); [reflexivity|discriminate].
Qed.

(* ------------------------------------------------------------------ *)
(* bridge: reachable trees + "ids agree with data" => the domain       *)
(* ------------------------------------------------------------------ *)
(* WF.sib_unique (what C03 proves for every reachable tree) is sibling
   uniqueness of DATA_IDS, i.e. DiffMore.dsu; DiffProofs.sib_unique is sibling
   uniqueness of DATA (== classes). *)
Lemma wf_sib_unique_is_dsu f : WF.sib_unique f <-> dsu f.
Proof. split; intros H; exact H. Qed.

Lemma dsu_sib_unique f : dsu f -> did_is_data (pre_f f) -> sib_unique f.
Proof.
  intros [U V] Ha. split.
  - apply (NoDup_map_transfer rdid key); [exact U|]. intros x y Hx Hy E. apply Ha; auto; now apply in_pre_f_top.
  - intros p Hp. apply (NoDup_map_transfer rdid key); [now apply V|].
    intros x y Hx Hy E. apply Ha; auto; eapply pre_f_child_closed; eauto.
Qed.

(* for reachable trees (WF.sib_unique) over an alphabet on which == and data_id
   agree, every hypothesis used by the C11 theorems holds: with [did_is_data]
   the domain costs nothing *)
Theorem reachable_domain t0 t1 :
  WF.sib_unique t0 -> WF.sib_unique t1 -> did_is_data (pre_f t0 ++ pre_f t1) ->
  dom t0 t1 /\ sib_unique t0 /\ sib_unique t1 /\ did_inj (pre_f t0 ++ pre_f t1) /\ dsu t0 /\ dsu t1.
Proof.
  intros W0 W1 Ha.
  assert (S0 : sib_unique t0).
  { apply dsu_sib_unique; [exact W0|]. intros x y Hx Hy. apply Ha; apply in_or_app; auto. }
  assert (S1 : sib_unique t1).
  { apply dsu_sib_unique; [exact W1|]. intros x y Hx Hy. apply Ha; apply in_or_app; auto. }
  destruct (default_id_domain t0 t1 S0 S1 Ha) as [D [I _]].
  refine (conj D (conj S0 (conj S1 (conj I (conj W0 W1))))).
Qed.
