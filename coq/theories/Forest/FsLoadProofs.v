(* C19 -- specification and proofs for the model of nutree/fs.py (FsLoad.v).

   The specification is written in a different style than the model:
   - [fs_entries]/[ft_entries]: the (path, entry) pairs of a directory / of a tree;
     "the tree mirrors the directory" = the two collections are a [Permutation]
     of each other (equal as lists for sort=False);
   - [ordered]: a child list is files ++ folders, each [Sorted] by name;
   - [fperm]: two directories that differ only in the order of their listings. *)
From Coq Require Import List ZArith Bool Lia Permutation Sorted RelationClasses.
From NT Require Import Sx Rose FsLoad.
Import ListNotations.
Open Scope Z_scope.

(* ================================================================== *)
(* 1. [text_ltb] is a strict total order                               *)
Lemma text_ltb_irrefl a : text_ltb a a = false.
Proof.
  induction a as [|x a IH]; cbn; [reflexivity|].
  rewrite Z.ltb_irrefl, Z.eqb_refl. exact IH.
Qed.

Lemma text_ltb_trans a b c : text_ltb a b = true -> text_ltb b c = true -> text_ltb a c = true.
Proof.
  revert b c; induction a as [|x a IH]; intros [|y b] [|z c]; cbn; try discriminate; try reflexivity.
  destruct (Z.ltb_spec x y) as [Hxy|Hxy], (Z.eqb_spec x y) as [Exy|Exy],
           (Z.ltb_spec y z) as [Hyz|Hyz], (Z.eqb_spec y z) as [Eyz|Eyz],
           (Z.ltb_spec x z) as [Hxz|Hxz], (Z.eqb_spec x z) as [Exz|Exz];
    try lia; try discriminate; try reflexivity; intros H1 H2; try discriminate.
  eapply IH; eassumption.
Qed.

Lemma text_ltb_total a b : text_ltb a b = false -> text_ltb b a = false -> a = b.
Proof.
  revert b; induction a as [|x a IH]; intros [|y b]; cbn; try discriminate; try reflexivity.
  destruct (Z.ltb_spec x y) as [Hxy|Hxy], (Z.eqb_spec x y) as [Exy|Exy],
           (Z.ltb_spec y x) as [Hyx|Hyx], (Z.eqb_spec y x) as [Eyx|Eyx];
    try lia; try discriminate; intros H1 H2.
  subst y. f_equal. apply IH; assumption.
Qed.

Lemma text_ltb_asym a b : text_ltb a b = true -> text_ltb b a = false.
Proof.
  intros H. destruct (text_ltb b a) eqn:E; [|reflexivity].
  pose proof (text_ltb_trans _ _ _ H E) as F. rewrite text_ltb_irrefl in F. discriminate.
Qed.

Definition text_lt (a b : text) : Prop := text_ltb a b = true.
Definition text_le (a b : text) : Prop := text_ltb b a = false.     (* not (b < a) *)

Lemma text_le_trans a b c : text_le a b -> text_le b c -> text_le a c.
Proof.
  unfold text_le; intros H1 H2.
  destruct (text_ltb c a) eqn:E; [|reflexivity]. exfalso.
  destruct (text_ltb a b) eqn:Eab.
  - rewrite (text_ltb_trans _ _ _ E Eab) in H2. discriminate.
  - assert (a = b) by (apply text_ltb_total; assumption). subst b. congruence.
Qed.

Lemma text_le_lt_or_eq a b : text_le a b -> text_lt a b \/ a = b.
Proof.
  unfold text_le, text_lt; intros H. destruct (text_ltb a b) eqn:E; [left; reflexivity|right].
  apply text_ltb_total; assumption.
Qed.

(* ================================================================== *)
(* 2. the stable sort: Sorted, Permutation, stable, canonical          *)
Section SortFacts.
  Context {X : Type} (key : X -> text).
  Definition key_le (a b : X) : Prop := text_le (key a) (key b).
  Definition key_lt (a b : X) : Prop := text_lt (key a) (key b).

  Global Instance key_le_trans : Transitive key_le.
  Proof. intros a b c; apply text_le_trans. Qed.

  Lemma ins_perm x l : Permutation (ins key x l) (x :: l).
  Proof.
    induction l as [|y r IH]; cbn; [reflexivity|].
    destruct (text_ltb (key y) (key x)); [|reflexivity].
    rewrite IH. apply perm_swap.
  Qed.

  Lemma sort_by_perm l : Permutation (sort_by key l) l.
  Proof.
    induction l as [|x l IH]; cbn; [reflexivity|].
    rewrite ins_perm. apply perm_skip, IH.
  Qed.

  Lemma ins_hdrel y x r : key_le y x -> HdRel key_le y r -> HdRel key_le y (ins key x r).
  Proof.
    intros Hyx Hr. destruct r as [|z r]; cbn; [constructor; exact Hyx|].
    destruct (text_ltb (key z) (key x)); constructor; [|exact Hyx].
    inversion Hr; assumption.
  Qed.

  Lemma ins_sorted x l : Sorted key_le l -> Sorted key_le (ins key x l).
  Proof.
    induction l as [|y r IH]; cbn; intros Hs; [repeat constructor|].
    inversion Hs as [|y' r' Hsr Hhd]; subst.
    destruct (text_ltb (key y) (key x)) eqn:E.
    - constructor; [apply IH; exact Hsr|].
      apply ins_hdrel; [|exact Hhd]. unfold key_le, text_le. apply text_ltb_asym; exact E.
    - constructor; [exact Hs|]. constructor. exact E.
  Qed.

  Lemma sort_by_sorted l : Sorted key_le (sort_by key l).
  Proof. induction l as [|x l IH]; cbn; [constructor|apply ins_sorted, IH]. Qed.

  Lemma sort_by_strongly_sorted l : StronglySorted key_le (sort_by key l).
  Proof. apply Sorted_StronglySorted; [exact key_le_trans|apply sort_by_sorted]. Qed.

  (* stability: elements with one key keep their relative order *)
  Lemma ins_stable k x l :
    filter (fun y => text_eqb (key y) k) (ins key x l) = filter (fun y => text_eqb (key y) k) (x :: l).
  Proof.
    induction l as [|y r IH]; [reflexivity|].
    cbn [ins]. destruct (text_ltb (key y) (key x)) eqn:E; [|reflexivity].
    cbn [filter] in *. rewrite IH.
    destruct (text_eqb (key y) k) eqn:Ey, (text_eqb (key x) k) eqn:Ex; try reflexivity.
    apply text_eqb_eq in Ey, Ex. rewrite Ey, Ex, text_ltb_irrefl in E. discriminate.
  Qed.

  Lemma sort_by_stable k l :
    filter (fun y => text_eqb (key y) k) (sort_by key l) = filter (fun y => text_eqb (key y) k) l.
  Proof.
    induction l as [|x l IH]; [reflexivity|].
    cbn [sort_by fold_right]. rewrite ins_stable. cbn [filter]. fold (sort_by key l). rewrite IH. reflexivity.
  Qed.

  (* a sorted list is determined by its elements when the keys are distinct *)
  Lemma sorted_perm_eq l1 : forall l2,
    StronglySorted key_le l1 -> StronglySorted key_le l2 -> Permutation l1 l2 ->
    NoDup (map key l1) -> l1 = l2.
  Proof.
    induction l1 as [|a l1 IH]; intros l2 S1 S2 P ND.
    - apply Permutation_nil in P. subst; reflexivity.
    - destruct l2 as [|b l2]; [symmetry in P; apply Permutation_nil in P; discriminate|].
      assert (a = b) as ->.
      { assert (Ia : In a (b :: l2)) by (eapply Permutation_in; [exact P|left; reflexivity]).
        assert (Ib : In b (a :: l1)) by (eapply Permutation_in; [symmetry; exact P|left; reflexivity]).
        destruct Ia as [->|Ia]; [reflexivity|]. destruct Ib as [->|Ib]; [reflexivity|].
        exfalso.
        apply StronglySorted_inv in S1 as [_ F1]. apply StronglySorted_inv in S2 as [_ F2].
        rewrite Forall_forall in F1, F2.
        pose proof (F1 _ Ib) as Hab. pose proof (F2 _ Ia) as Hba.
        assert (key a = key b) as Ek by (apply text_ltb_total; [exact Hba|exact Hab]).
        cbn in ND. inversion ND as [|k ks Hnotin _]; subst. apply Hnotin.
        rewrite Ek. apply in_map; exact Ib. }
      f_equal. apply IH.
      + apply StronglySorted_inv in S1; tauto.
      + apply StronglySorted_inv in S2; tauto.
      + eapply Permutation_cons_inv; exact P.
      + cbn in ND. inversion ND; assumption.
  Qed.

  Lemma sort_by_canonical l l' :
    Permutation l l' -> NoDup (map key l) -> sort_by key l = sort_by key l'.
  Proof.
    intros P ND. apply sorted_perm_eq; try apply sort_by_strongly_sorted.
    - rewrite !sort_by_perm. exact P.
    - eapply Permutation_NoDup; [|exact ND]. apply Permutation_map. symmetry. apply sort_by_perm.
  Qed.

  (* distinct keys: the order is strict *)
  Lemma sorted_strict l : StronglySorted key_le l -> NoDup (map key l) -> StronglySorted key_lt l.
  Proof.
    induction l as [|a l IH]; intros S ND; [constructor|].
    apply StronglySorted_inv in S as [S F]. cbn in ND. inversion ND as [|k ks Hnotin ND']; subst.
    constructor; [apply IH; assumption|].
    rewrite Forall_forall in *. intros b Ib.
    destruct (text_le_lt_or_eq _ _ (F b Ib)) as [H|H]; [exact H|].
    exfalso. apply Hnotin. rewrite H. apply in_map; exact Ib.
  Qed.
End SortFacts.

(* ================================================================== *)
(* 3. list helpers                                                      *)
Lemma filter_partition_perm {X} (f : X -> bool) l :
  Permutation (filter (fun x => negb (f x)) l ++ filter f l) l.
Proof.
  induction l as [|x l IH]; cbn; [reflexivity|].
  destruct (f x); cbn.
  - rewrite <- Permutation_middle. apply perm_skip, IH.
  - apply perm_skip, IH.
Qed.

Lemma Permutation_filter' {X} (f : X -> bool) l l' :
  Permutation l l' -> Permutation (filter f l) (filter f l').
Proof.
  induction 1 as [|x l l' P IH|x y l|l l' l'' P1 IH1 P2 IH2]; cbn.
  - reflexivity.
  - destruct (f x); [apply perm_skip|]; exact IH.
  - destruct (f x), (f y); try reflexivity. apply perm_swap.
  - etransitivity; eassumption.
Qed.

Lemma NoDup_map_filter {X Y} (g : X -> Y) (f : X -> bool) l :
  NoDup (map g l) -> NoDup (map g (filter f l)).
Proof.
  induction l as [|x l IH]; cbn; intros ND; [constructor|].
  inversion ND as [|k ks Hnotin ND']; subst.
  destruct (f x); cbn; [|apply IH; exact ND'].
  constructor; [|apply IH; exact ND'].
  intros Hin. apply Hnotin. apply in_map_iff in Hin as (y & Ey & Iy).
  apply filter_In in Iy as [Iy _]. rewrite <- Ey. apply in_map; exact Iy.
Qed.

Lemma NoDup_app_l {X} (a b : list X) : NoDup (a ++ b) -> NoDup a.
Proof.
  induction a as [|x a IH]; cbn; intros H; [constructor|].
  inversion H as [|y ys Hn H']; subst. constructor; [|apply IH; exact H'].
  intros Hi. apply Hn. apply in_or_app; left; exact Hi.
Qed.

Lemma NoDup_app_r {X} (a b : list X) : NoDup (a ++ b) -> NoDup b.
Proof.
  induction a as [|x a IH]; cbn; intros H; [exact H|].
  inversion H; subst. apply IH; assumption.
Qed.

Lemma Forall_flat_map' {X Y} (Q : Y -> Prop) (g : X -> list Y) l :
  Forall Q (flat_map g l) <-> Forall (fun x => Forall Q (g x)) l.
Proof.
  induction l as [|x l IH]; cbn; [split; constructor|].
  rewrite Forall_app, IH. split.
  - intros [H1 H2]; constructor; assumption.
  - intros H; inversion H; subst; split; assumption.
Qed.

Lemma flat_map_flat_map {X Y Z} (g : Y -> list Z) (h : X -> list Y) l :
  flat_map g (flat_map h l) = flat_map (fun x => flat_map g (h x)) l.
Proof.
  induction l as [|x l IH]; cbn; [reflexivity|]. rewrite flat_map_app, IH. reflexivity.
Qed.

Lemma flat_map_perm_pointwise {X Y} (g h : X -> list Y) l :
  Forall (fun x => Permutation (g x) (h x)) l -> Permutation (flat_map g l) (flat_map h l).
Proof.
  induction 1 as [|x l Hx Hl IH]; cbn; [reflexivity|]. apply Permutation_app; assumption.
Qed.

Lemma flat_map_eq_pointwise {X Y} (g h : X -> list Y) l :
  Forall (fun x => g x = h x) l -> flat_map g l = flat_map h l.
Proof.
  induction 1 as [|x l Hx Hl IH]; cbn; [reflexivity|]. rewrite Hx, IH. reflexivity.
Qed.

(* ================================================================== *)
(* 4. induction principles for the nested types                         *)
Section FsnInd.
  Variable P : fsn -> Prop.
  Hypothesis HF : forall n s m, P (File n s m).
  Hypothesis HO : forall n, P (Other n).
  Hypothesis HD : forall n l, Forall P l -> P (Dir n l).
  Fixpoint fsn_ind' (x : fsn) : P x :=
    match x with
    | File n s m => HF n s m
    | Other n => HO n
    | Dir n l => HD n l ((fix go (l : list fsn) : Forall P l :=
                            match l with
                            | [] => Forall_nil _
                            | c :: r => Forall_cons _ (fsn_ind' c) (go r)
                            end) l)
    end.
End FsnInd.

Section FtInd.
  Variable P : ft -> Prop.
  Hypothesis HN : forall e ch, Forall P ch -> P (FN e ch).
  Fixpoint ft_ind' (t : ft) : P t :=
    match t with
    | FN e ch => HN e ch ((fix go (l : list ft) : Forall P l :=
                             match l with
                             | [] => Forall_nil _
                             | c :: r => Forall_cons _ (ft_ind' c) (go r)
                             end) ch)
    end.
End FtInd.

Lemma conv_dir s n l : conv s (Dir n l) = [FN (entry_dir n) (kids s (flat_map (conv s) l))].
Proof. reflexivity. Qed.

(* ================================================================== *)
(* 5. the tree mirrors the directory                                    *)

(* all (path, entry) pairs of the regular entries below a directory entry *)
Fixpoint fs_entries (pre : list text) (x : fsn) : list (list text * fse) :=
  match x with
  | File n s m => [(pre ++ [n], E n false s (Some m))]
  | Other _ => []
  | Dir n l => (pre ++ [n], E n true 0 None) :: flat_map (fs_entries (pre ++ [n])) l
  end.

(* all (path, entry) pairs of the nodes of a tree *)
Fixpoint ft_entries (pre : list text) (t : ft) : list (list text * fse) :=
  match t with
  | FN e ch => (pre ++ [e_name e], e) :: flat_map (ft_entries (pre ++ [e_name e])) ch
  end.

Definition dir_entries (pre : list text) (l : list fsn) := flat_map (fs_entries pre) l.
Definition tree_entries (pre : list text) (f : list ft) := flat_map (ft_entries pre) f.

Lemma kids_perm s ts : Permutation (kids s ts) ts.
Proof.
  unfold kids. destruct s; [|reflexivity].
  rewrite !sort_by_perm. apply filter_partition_perm.
Qed.

Lemma conv_mirror s x : forall pre, Permutation (tree_entries pre (conv s x)) (fs_entries pre x).
Proof.
  induction x as [n sz m|n|n l IH] using fsn_ind'; intros pre.
  - cbn. reflexivity.
  - cbn. reflexivity.
  - rewrite conv_dir. unfold tree_entries. cbn [flat_map ft_entries fs_entries entry_dir e_name].
    rewrite app_nil_r. apply perm_skip.
    etransitivity; [apply Permutation_flat_map, kids_perm|].
    rewrite flat_map_flat_map. apply flat_map_perm_pointwise.
    rewrite Forall_forall in *. intros x Hx. apply (IH x Hx).
Qed.

Theorem load_mirror s l pre : Permutation (tree_entries pre (load s l)) (dir_entries pre l).
Proof.
  unfold load, tree_entries, dir_entries.
  etransitivity; [apply Permutation_flat_map, kids_perm|].
  rewrite flat_map_flat_map. apply flat_map_perm_pointwise.
  rewrite Forall_forall. intros x _. apply conv_mirror.
Qed.

(* corollaries: as many nodes as files and folders (len(tree)); the same (depth, entry) pairs *)
Corollary load_count s l : length (tree_entries [] (load s l)) = length (dir_entries [] l).
Proof. apply Permutation_length, load_mirror. Qed.

Definition depth_entry (pe : list text * fse) : nat * fse := (length (fst pe), snd pe).

Corollary load_depths s l :
  Permutation (map depth_entry (tree_entries [] (load s l))) (map depth_entry (dir_entries [] l)).
Proof. apply Permutation_map, load_mirror. Qed.

(* sort=False: the pre-order walk of the tree IS the walk of the directory in listing order *)
Lemma conv_unsorted x : forall pre, tree_entries pre (conv false x) = fs_entries pre x.
Proof.
  induction x as [n sz m|n|n l IH] using fsn_ind'; intros pre.
  - reflexivity.
  - reflexivity.
  - rewrite conv_dir. unfold tree_entries, kids. cbn [flat_map ft_entries fs_entries entry_dir e_name].
    rewrite app_nil_r. f_equal.
    rewrite flat_map_flat_map. apply flat_map_eq_pointwise.
    rewrite Forall_forall in *. intros x Hx. apply (IH x Hx).
Qed.

Theorem load_unsorted l pre : tree_entries pre (load false l) = dir_entries pre l.
Proof.
  unfold load, kids, tree_entries, dir_entries.
  rewrite flat_map_flat_map. apply flat_map_eq_pointwise.
  rewrite Forall_forall. intros x _. apply conv_unsorted.
Qed.

(* the child list of one folder against its listing (no recursion) *)
Definition top_entry (x : fsn) : list fse :=
  match x with File n s m => [E n false s (Some m)] | Dir n _ => [E n true 0 None] | Other _ => [] end.

Lemma conv_top s x : map ft_entry (conv s x) = top_entry x.
Proof. destruct x; reflexivity. Qed.

Theorem load_top s l : Permutation (map ft_entry (load s l)) (flat_map top_entry l).
Proof.
  unfold load. rewrite (Permutation_map ft_entry (kids_perm s _)).
  induction l as [|x l IH]; cbn; [reflexivity|].
  rewrite map_app, conv_top. apply Permutation_app_head, IH.
Qed.

Theorem load_top_unsorted l : map ft_entry (load false l) = flat_map top_entry l.
Proof.
  unfold load, kids. induction l as [|x l IH]; cbn; [reflexivity|].
  rewrite map_app, conv_top, IH. reflexivity.
Qed.

(* ================================================================== *)
(* 6. sort=True: every folder is files ++ folders, each sorted by name  *)
Definition name_le (a b : ft) : Prop := text_le (ft_name a) (ft_name b).
Definition name_lt (a b : ft) : Prop := text_lt (ft_name a) (ft_name b).

Definition ordered (ch : list ft) : Prop :=
  exists fs ds, ch = fs ++ ds /\
    Forall (fun t => ft_isdir t = false) fs /\ Forall (fun t => ft_isdir t = true) ds /\
    Sorted name_le fs /\ Sorted name_le ds.

(* the child lists of all nodes of a tree, and of the root *)
Fixpoint folders_of (t : ft) : list (list ft) :=
  match t with FN _ ch => ch :: flat_map folders_of ch end.
Definition folders (f : list ft) : list (list ft) := f :: flat_map folders_of f.

Lemma kids_ordered ts : ordered (kids true ts).
Proof.
  exists (sort_by ft_name (filter (fun t => negb (ft_isdir t)) ts)), (sort_by ft_name (filter ft_isdir ts)).
  refine (conj eq_refl (conj _ (conj _ (conj _ _)))).
  - eapply Permutation_Forall; [symmetry; apply sort_by_perm|].
    rewrite Forall_forall. intros t Ht. apply filter_In in Ht as [_ Ht].
    destruct (ft_isdir t); [discriminate|reflexivity].
  - eapply Permutation_Forall; [symmetry; apply sort_by_perm|].
    rewrite Forall_forall. intros t Ht. apply filter_In in Ht as [_ Ht]. exact Ht.
  - apply (sort_by_sorted ft_name).
  - apply (sort_by_sorted ft_name).
Qed.

Lemma folders_kids (Q : list ft -> Prop) s ts :
  Forall (fun t => Forall Q (folders_of t)) ts -> Forall Q (flat_map folders_of (kids s ts)).
Proof.
  intros H. apply Forall_flat_map'. eapply Permutation_Forall; [symmetry; apply kids_perm|]. exact H.
Qed.

Lemma conv_sorted x : Forall (fun t => Forall ordered (folders_of t)) (conv true x).
Proof.
  induction x as [n sz m|n|n l IH] using fsn_ind'.
  - cbn. repeat constructor. exists [], []. repeat constructor.
  - constructor.
  - rewrite conv_dir. constructor; [|constructor]. cbn [folders_of]. constructor; [apply kids_ordered|].
    apply folders_kids. apply Forall_flat_map'. exact IH.
Qed.

Theorem load_sorted l : Forall ordered (folders (load true l)).
Proof.
  unfold folders, load. constructor; [apply kids_ordered|].
  apply folders_kids. apply Forall_flat_map'. rewrite Forall_forall. intros x _. apply conv_sorted.
Qed.

(* with distinct names in a folder (every real directory) the order is strict *)
Lemma ordered_strict ch :
  ordered ch -> NoDup (map ft_name ch) ->
  exists fs ds, ch = fs ++ ds /\
    Forall (fun t => ft_isdir t = false) fs /\ Forall (fun t => ft_isdir t = true) ds /\
    StronglySorted name_lt fs /\ StronglySorted name_lt ds.
Proof.
  intros (fs & ds & -> & Hf & Hd & Sf & Sd) ND. exists fs, ds.
  rewrite map_app in ND.
  refine (conj eq_refl (conj Hf (conj Hd (conj _ _)))).
  - apply (sorted_strict ft_name); [apply Sorted_StronglySorted; [apply key_le_trans|exact Sf]|].
    eapply NoDup_app_l; exact ND.
  - apply (sorted_strict ft_name); [apply Sorted_StronglySorted; [apply key_le_trans|exact Sd]|].
    eapply NoDup_app_r; exact ND.
Qed.

(* the sort is stable (only matters for equal names, which a real folder never has) *)
Theorem kids_stable k ts :
  filter (fun t => text_eqb (ft_name t) k) (kids true ts) =
  filter (fun t => text_eqb (ft_name t) k) (filter (fun t => negb (ft_isdir t)) ts) ++
  filter (fun t => text_eqb (ft_name t) k) (filter ft_isdir ts).
Proof. unfold kids. rewrite filter_app, !(sort_by_stable ft_name). reflexivity. Qed.

(* ================================================================== *)
(* 7. sort=True: the result does not depend on the listing order        *)
Definition reg_name (x : fsn) : list text :=
  match x with File n _ _ => [n] | Dir n _ => [n] | Other _ => [] end.
Definition reg_names (l : list fsn) : list text := flat_map reg_name l.

Lemma conv_names s l : map ft_name (flat_map (conv s) l) = reg_names l.
Proof.
  induction l as [|x l IH]; cbn; [reflexivity|].
  rewrite map_app, IH. destruct x; reflexivity.
Qed.

Lemma kids_canonical ts ts' :
  Permutation ts ts' -> NoDup (map ft_name ts) -> kids true ts = kids true ts'.
Proof.
  intros P ND. unfold kids. f_equal; apply sort_by_canonical.
  - apply Permutation_filter'; exact P.
  - apply NoDup_map_filter; exact ND.
  - apply Permutation_filter'; exact P.
  - apply NoDup_map_filter; exact ND.
Qed.

Theorem load_listing_independent l l' :
  Permutation l l' -> NoDup (reg_names l) -> load true l = load true l'.
Proof.
  intros P ND. unfold load. apply kids_canonical.
  - apply Permutation_flat_map; exact P.
  - rewrite conv_names; exact ND.
Qed.

(* ... at every depth: directories that differ only in the order of their listings *)
Inductive fperm : fsn -> fsn -> Prop :=
| FP_file n s m : fperm (File n s m) (File n s m)
| FP_other n : fperm (Other n) (Other n)
| FP_dir n l l1 l2 : Forall2 fperm l l1 -> Permutation l1 l2 -> fperm (Dir n l) (Dir n l2).

Definition lperm (l l2 : list fsn) : Prop := exists l1, Forall2 fperm l l1 /\ Permutation l1 l2.

(* names are distinct within every folder *)
Fixpoint wf_names (x : fsn) : Prop :=
  match x with
  | Dir _ l => NoDup (reg_names l) /\
               (fix all (l : list fsn) : Prop := match l with [] => True | c :: r => wf_names c /\ all r end) l
  | _ => True
  end.
Fixpoint wf_names_l (l : list fsn) : Prop :=
  match l with [] => True | c :: r => wf_names c /\ wf_names_l r end.
Definition wf_listing (l : list fsn) : Prop := NoDup (reg_names l) /\ wf_names_l l.

Lemma wf_names_dir n l : wf_names (Dir n l) <-> NoDup (reg_names l) /\ wf_names_l l.
Proof.
  cbn [wf_names]. assert (E : forall l, (fix all (l : list fsn) : Prop :=
      match l with [] => True | c :: r => wf_names c /\ all r end) l = wf_names_l l)
    by (intros l0; induction l0 as [|c r IHr]; cbn; [reflexivity|rewrite IHr; reflexivity]).
  rewrite E. tauto.
Qed.

Lemma wf_names_l_forall l : wf_names_l l <-> Forall wf_names l.
Proof.
  induction l as [|c r IH]; cbn; [split; constructor|].
  rewrite IH. split; [intros [H1 H2]; constructor; assumption|intros H; inversion H; subst; tauto].
Qed.

Lemma fperm_reg_name x y : fperm x y -> reg_name x = reg_name y.
Proof. destruct 1; reflexivity. Qed.

Lemma conv_lperm_step l l1 l2 :
  Forall2 (fun a b => conv true a = conv true b) l l1 -> Permutation l1 l2 ->
  NoDup (reg_names l) ->
  kids true (flat_map (conv true) l) = kids true (flat_map (conv true) l2).
Proof.
  intros F P ND.
  assert (E : flat_map (conv true) l = flat_map (conv true) l1).
  { clear P. induction F as [|a b l l1 Hab F IH]; cbn; [reflexivity|]. rewrite Hab, IH; [reflexivity|].
    cbn in ND. unfold reg_names in ND. cbn in ND. apply NoDup_app_r in ND. exact ND. }
  rewrite E. apply kids_canonical.
  - apply Permutation_flat_map; exact P.
  - rewrite <- E, conv_names. exact ND.
Qed.

Lemma conv_fperm x : forall y, fperm x y -> wf_names x -> conv true x = conv true y.
Proof.
  induction x as [n sz m|n|n l IH] using fsn_ind'; intros y H W; inversion H as [| |n' l' l1 l2 F P]; subst.
  - reflexivity.
  - reflexivity.
  - rewrite !conv_dir. do 2 f_equal.
    apply wf_names_dir in W as [ND Wl]. apply wf_names_l_forall in Wl.
    apply (conv_lperm_step l l1 l2); [|exact P|exact ND].
    clear P ND H. induction F as [|a b l l1 Hab F IHF]; constructor.
    + inversion IH; subst. inversion Wl; subst. auto.
    + inversion IH; subst. inversion Wl; subst. apply IHF; assumption.
Qed.

Theorem load_order_independent l l2 :
  lperm l l2 -> wf_listing l -> load true l = load true l2.
Proof.
  intros (l1 & F & P) [ND W]. unfold load. apply (conv_lperm_step l l1 l2); [|exact P|exact ND].
  apply wf_names_l_forall in W. clear P.
  induction F as [|a b l l1 Hab F IHF]; constructor.
  - inversion W; subst. apply conv_fperm; assumption.
  - inversion W; subst. apply IHF; [|assumption].
    unfold reg_names in ND. cbn in ND. apply NoDup_app_r in ND. exact ND.
Qed.

(* ================================================================== *)
(* 8. FileSystemEntry and the two mappers                               *)
Lemma dict_get_set_same k v d : dict_get k (dict_set k v d) = Some v.
Proof.
  induction d as [|[k' v'] r IH]; cbn; [rewrite text_eqb_refl; reflexivity|].
  destruct (text_eqb k k') eqn:E; cbn; rewrite E; [reflexivity|exact IH].
Qed.

Lemma dict_get_set_other k k2 v d : text_eqb k k2 = false -> dict_get k (dict_set k2 v d) = dict_get k d.
Proof.
  intros N. induction d as [|[k' v'] r IH]; cbn; [rewrite N; reflexivity|].
  destruct (text_eqb k2 k') eqn:E; cbn.
  - apply text_eqb_eq in E. subst k'. rewrite N. reflexivity.
  - destruct (text_eqb k k'); [reflexivity|exact IH].
Qed.

(* what the constructor guarantees *)
Lemma mk_entry_inv n d s m e :
  mk_entry n d s m = Some e ->
  e_name e = n /\ e_isdir e = d /\ e_mdate e = m /\
  (d = true -> s = None /\ e_size e = 0) /\ (d = false -> s = Some (e_size e)).
Proof.
  unfold mk_entry. destruct d, s as [z|]; intros H; inversion H; subst; cbn;
    repeat split; try reflexivity; try discriminate.
Qed.

(* an entry that survives serialisation: folders carry no size and no mdate
   (all entries made by load_tree_from_fs, and all files whatsoever) *)
Definition entry_ok (e : fse) : Prop := e_isdir e = true -> e_size e = 0 /\ e_mdate e = None.

Theorem deser_ser e d0 : dict_get k_d d0 = None -> entry_ok e -> deser (ser e d0) = Some e.
Proof.
  intros Hd Hok. destruct e as [n isdir sz md]. unfold ser, deser, dict_update. cbn [e_isdir e_name e_size e_mdate fold_left fst snd].
  destruct isdir.
  - rewrite dict_get_set_same.
    rewrite dict_get_set_other by reflexivity. rewrite dict_get_set_same.
    destruct (Hok eq_refl) as [Hs Hm]. cbn in Hs, Hm. subst. reflexivity.
  - rewrite !(dict_get_set_other k_d) by reflexivity. rewrite Hd.
    rewrite !(dict_get_set_other k_n) by reflexivity. rewrite dict_get_set_same.
    rewrite (dict_get_set_other k_s) by reflexivity. rewrite dict_get_set_same.
    rewrite dict_get_set_same.
    destruct md as [m|]; reflexivity.
Qed.

(* all entries of a loaded tree are of that form *)
Lemma fs_entries_ok x : forall pre, Forall (fun pe => entry_ok (snd pe)) (fs_entries pre x).
Proof.
  induction x as [n sz m|n|n l IH] using fsn_ind'; intros pre; cbn [fs_entries].
  - constructor; [|constructor]. intros H; discriminate H.
  - constructor.
  - constructor; [intros _; split; reflexivity|].
    apply Forall_flat_map'. rewrite Forall_forall in *. intros x Hx. apply IH; exact Hx.
Qed.

Theorem load_entries_ok s l pre : Forall (fun pe => entry_ok (snd pe)) (tree_entries pre (load s l)).
Proof.
  eapply Permutation_Forall; [symmetry; apply load_mirror|].
  unfold dir_entries. apply Forall_flat_map'. rewrite Forall_forall. intros x _. apply fs_entries_ok.
Qed.
