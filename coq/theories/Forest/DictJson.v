(* C14, audit follow-up: the JSON transport as an explicit function of the
   model ([DictList.json_rt]) and the round trip of string data without any
   premise about the rebuilt data. *)
From Coq Require Import List ZArith Bool Arith Lia.
From NT Require Import Sx Rose ListFacts RoseFacts DictList DictListProofs.
Import ListNotations.

(* nested induction over JSON-like values *)
Section JvInd.
  Variable P : jv -> Prop.
  Hypothesis Hnull : P JNull.
  Hypothesis Hbool : forall b, P (JBool b).
  Hypothesis Hint : forall z, P (JInt z).
  Hypothesis Hstr : forall s, P (JStr s).
  Hypothesis Hlist : forall l, Forall P l -> P (JList l).
  Hypothesis Htuple : forall l, Forall P l -> P (JTuple l).
  Hypothesis Hdict : forall d, Forall (fun kv => P (snd kv)) d -> P (JDict d).
  Fixpoint jv_ind' (v : jv) : P v :=
    match v with
    | JNull => Hnull
    | JBool b => Hbool b
    | JInt z => Hint z
    | JStr s => Hstr s
    | JList l => Hlist l ((fix go (l : list jv) : Forall P l :=
                             match l with [] => Forall_nil _ | x :: xs => Forall_cons _ (jv_ind' x) (go xs) end) l)
    | JTuple l => Htuple l ((fix go (l : list jv) : Forall P l :=
                               match l with [] => Forall_nil _ | x :: xs => Forall_cons _ (jv_ind' x) (go xs) end) l)
    | JDict d => Hdict d ((fix go (e : list (text * jv)) : Forall (fun kv => P (snd kv)) e :=
                             match e with
                             | [] => Forall_nil _
                             | (k, x) :: r => Forall_cons (k, x) (jv_ind' x) (go r)
                             end) d)
    end.
End JvInd.

(* a value without tuples is a fixed point of the JSON transport *)
Lemma json_rt_fixed : forall v, tuple_free v = true -> json_rt v = v.
Proof.
  induction v as [| b | z | s | l IH | l IH | d IH] using jv_ind'; intros H; try reflexivity.
  - cbn [json_rt tuple_free] in *. f_equal.
    induction l as [|x xs IHl]; [reflexivity|]. cbn [forallb map] in *. apply andb_true_iff in H as (H1 & H2).
    inversion IH as [|a b Ha Hb]; subst. f_equal; [now apply Ha|now apply IHl].
  - discriminate.
  - cbn [json_rt tuple_free] in *. f_equal.
    induction d as [|[k x] r IHd]; [reflexivity|]. apply andb_true_iff in H as (H1 & H2).
    inversion IH as [|a b Ha Hb]; subst. f_equal; [f_equal; now apply Ha|now apply IHd].
Qed.

(* ... and only such values are: the transport never returns a tuple *)
Lemma json_rt_tuple_free : forall v, tuple_free (json_rt v) = true.
Proof.
  induction v as [| b | z | s | l IH | l IH | d IH] using jv_ind'; try reflexivity.
  - cbn [json_rt tuple_free]. induction IH as [|x xs Hx _ IHl]; [reflexivity|]. cbn [map forallb]. now rewrite Hx, IHl.
  - cbn [json_rt tuple_free]. induction IH as [|x xs Hx _ IHl]; [reflexivity|]. cbn [map forallb]. now rewrite Hx, IHl.
  - cbn [json_rt tuple_free]. induction IH as [|[k x] r Hx _ IHd]; [reflexivity|]. cbn [snd] in Hx. now rewrite Hx, IHd.
Qed.

Lemma json_rt_idem v : json_rt (json_rt v) = json_rt v.
Proof. apply json_rt_fixed, json_rt_tuple_free. Qed.

Lemma tuple_free_dict d : tuple_free (JDict d) = dict_tuple_free d.
Proof.
  unfold dict_tuple_free. cbn [tuple_free]. induction d as [|[k x] r IH]; [reflexivity|]. cbn [forallb snd]. now rewrite IH.
Qed.

Lemma dset_tuple_free k v d : tuple_free v = true -> dict_tuple_free d = true -> dict_tuple_free (dset k v d) = true.
Proof.
  unfold dict_tuple_free. intros Hv. induction d as [|[k' v'] r IH]; intros Hd; cbn [dset forallb snd] in *.
  - now rewrite Hv.
  - apply andb_true_iff in Hd as (H1 & H2). destruct (text_eqb k k'); cbn [forallb snd].
    + now rewrite Hv, H2.
    + now rewrite H1, (IH H2).
Qed.

(* the serialisation mapper writes JSON-able values only (the documented domain:
   its result is meant for json.dump) *)
Definition sm_json (sm : smapper) : Prop :=
  forall i res, dict_tuple_free res = true -> dict_tuple_free (sm i res) = true.

Lemma sm_none_json : sm_json sm_none.
Proof. intros i res H. exact H. Qed.

Lemma jv_of_did_tuple_free d : tuple_free (jv_of_did d) = true.
Proof. destruct d; reflexivity. Qed.

Lemma to_dict_tuple_free sm : sm_json sm -> forall t, tuple_free (to_dict sm t) = true.
Proof.
  intros Hsm. induction t as [id i ch IH] using rt_ind'.
  rewrite to_dict_unfold, tuple_free_dict.
  assert (Hh : dict_tuple_free (head_dict sm i) = true).
  { unfold head_dict. apply Hsm. destruct (has_custom_did i); [|reflexivity].
    apply dset_tuple_free; [apply jv_of_did_tuple_free|reflexivity]. }
  destruct ch as [|c cs]; [exact Hh|].
  apply dset_tuple_free; [|exact Hh]. cbn [tuple_free].
  apply forallb_forall. intros x Hx. apply in_map_iff in Hx as (t & <- & Ht).
  rewrite Forall_forall in IH. now apply IH.
Qed.

(* "also after a JSON dump/load of the structure": the structure to_dict_list
   builds is a fixed point of the transport, for string data (no mapper) and for
   every mapper that writes JSON-able values *)
Theorem to_dict_list_json sm : sm_json sm -> forall f, map json_rt (to_dict_list sm f) = to_dict_list sm f.
Proof.
  intros Hsm f. unfold to_dict_list. rewrite map_map. apply map_ext. intros t.
  apply json_rt_fixed, to_dict_tuple_free, Hsm.
Qed.

Theorem roundtrip_after_json sm dd next f :
  sm_json sm -> sm_kids sm -> sibuniq_f f -> Forall (allinfo (inverse_on sm dd)) f ->
  exists f', tree_from_dict dd next (map json_rt (to_dict_list sm f)) = inl f' /\
             Forall2 iso f f' /\ ids f' = seq (S next) (size_f f).
Proof. intros Hj Hk SU AI. rewrite (to_dict_list_json sm Hj). now apply roundtrip. Qed.

(* ------------------------------------------------------------------ *)
(* String data without a mapper and WITHOUT a premise about the rebuilt data.
   Python's str: equality and hash are functions of the characters ([eqc_of],
   [hash_of], arbitrary).  A payload is a well-formed str payload when it says so;
   [raw_str] is Python's reading of a JSON string: the str with those characters. *)
Section Strings.
  Variables (hash_of eqc_of : text -> Z).

  Definition str_payload (i : info) : Prop :=
    i_isstr i = true /\ i_hash i = hash_of (i_name i) /\ i_eqc i = eqc_of (i_name i).

  Definition raw_str (v : jv) : res info :=
    match v with
    | JStr s => inl (I (-1) (eqc_of s) (hash_of s) true s (DInt 0) None [])
    | _ => inr E_CRASH              (* not needed for string trees *)
    end.

  Lemma raw_str_same_data i : str_payload i ->
    exists i', raw_str (JStr (i_name i)) = inl i' /\ same_data i i'.
  Proof.
    intros (H1 & H2 & H3). eexists. split; [reflexivity|].
    unfold same_data. cbn [i_eqc i_hash i_isstr i_name]. rewrite H1, H2, H3. repeat split.
  Qed.

  Theorem roundtrip_strings_wf next f :
    sibuniq_f f -> (forall t, In t (pre_f f) -> str_payload (rinfo t)) ->
    exists f', tree_from_dict (dd_raw raw_str) next (map json_rt (to_dict_list sm_none f)) = inl f' /\
               Forall2 iso f f' /\ ids f' = seq (S next) (size_f f) /\
               Forall2 node_agrees (pre_f f) (pre_f f').
  Proof.
    intros SU H. rewrite (to_dict_list_json sm_none sm_none_json).
    destruct (roundtrip_strings raw_str next f SU) as (f' & E & I & N).
    { intros t Ht. apply raw_str_same_data. now apply H. }
    exists f'. refine (conj E (conj I (conj N _))). now apply iso_f_pre.
  Qed.
End Strings.

(* ------------------------------------------------------------------ *)
(* Audit F4: the inverse-pair hypothesis only for the dicts that occur.
   [inverse_on] quantifies over every association list with the entries of the
   node's dict; a decoder that looks the structural dict up in a table (as the
   decoders of the correspondence do) cannot satisfy that.  The dicts to_dict
   really produces for a node are its head dict, with or without a "children"
   entry appended: [inverse_on_c] asks for those only – a weaker hypothesis, so
   a stronger round-trip theorem. *)
Definition own_dicts (D0 D : jdict) : Prop := D = D0 \/ exists js, D = dset k_children (JList js) D0.

Definition inverse_on_c (sm : smapper) (dd : dmapper) (i : info) : Prop :=
  forall D, own_dicts (head_dict sm i) D ->
  exists i' D', dd D = inl (i', D') /\ same_data i i' /\
                dget k_data_id D' = opt_id i /\ dget k_node_id D' = None.

Lemma own_dicts_entries D0 D : own_dicts D0 D -> own_entries D0 D.
Proof.
  intros [->|(js & ->)] k Hk; [reflexivity|]. now apply dget_dset_other.
Qed.

Lemma inverse_on_weaken sm dd i : inverse_on sm dd i -> inverse_on_c sm dd i.
Proof. intros H D HD. apply H. now apply own_dicts_entries. Qed.

Lemma to_dict_kids_c sm id i ch : sm_kids sm ->
  exists D, to_dict sm (T id i ch) = JDict D /\ kids_of D = map (to_dict sm) ch /\ own_dicts (head_dict sm i) D.
Proof.
  intros Hk. rewrite to_dict_unfold.
  assert (A3 : dget k_children (head_dict sm i) = None).
  { unfold head_dict. apply Hk. destruct (has_custom_did i); [|reflexivity].
    rewrite dget_dset_other by exact k_ch_neq_id. reflexivity. }
  destruct ch as [|c cs].
  - exists (head_dict sm i). refine (conj eq_refl (conj _ _)).
    + unfold kids_of. now rewrite A3.
    + now left.
  - eexists. split; [reflexivity|]. split.
    + unfold kids_of. now rewrite dget_dset_same.
    + right. eexists. reflexivity.
Qed.

Section RoundTripC.
  Variables (sm : smapper) (dd : dmapper).
  Hypothesis Hk : sm_kids sm.

  Definition rt_goal_c (t : rt) : Prop :=
    sibuniq t -> allinfo (inverse_on_c sm dd) t ->
    forall seen used, ~ In (rdid t) seen ->
    exists t', fd_item dd default_did (parse (to_dict sm t)) seen used = inl t' /\ iso t t' /\
               nids dd (parse (to_dict sm t)) = [].

  Lemma rt_loop_c : forall ch, Forall rt_goal_c ch ->
    NoDup (map rdid ch) -> Forall sibuniq ch -> Forall (allinfo (inverse_on_c sm dd)) ch ->
    forall seen used, (forall x, In x (map rdid ch) -> ~ In x seen) ->
    exists ch', fd_loop dd default_did (map parse (map (to_dict sm) ch)) seen used = inl ch' /\ Forall2 iso ch ch' /\
                flat_map (nids dd) (map parse (map (to_dict sm) ch)) = [].
  Proof.
    induction ch as [|x xs IH]; intros HP ND SU AI seen used Hs.
    - exists []. split; [reflexivity|split; [constructor|reflexivity]].
    - inversion HP as [|x0 xs0 Px Pxs]; subst. inversion ND as [|d0 l0 Nin ND']; subst.
      inversion SU as [|x1 xs1 Sx Sxs]; subst. inversion AI as [|x2 xs2 Ax Axs]; subst.
      destruct (Px Sx Ax seen used) as (t' & E1 & I1 & N1).
      { apply Hs. now left. }
      destruct (IH Pxs ND' Sxs Axs (seen ++ [rdid x]) used) as (ts & E2 & I2 & N2).
      { intros y Hy Hin. apply in_app_or in Hin as [Hin|[<-|[]]].
        - apply (Hs y); [now right|assumption].
        - contradiction. }
      exists (t' :: ts). split; [|split; [constructor; assumption|]].
      + cbn [map fd_loop]. rewrite E1, N1, app_nil_r. rewrite (iso_rdid _ _ I1). now rewrite E2.
      + cbn [map flat_map]. now rewrite N1, N2.
  Qed.

  Lemma rt_item_c : forall t, rt_goal_c t.
  Proof.
    induction t as [id i ch IH] using rt_ind'. intros SU AI seen used Nin.
    inversion SU as [id0 i0 ch0 ND SUch]; subst. inversion AI as [id1 i1 ch1 Hinv AIch]; subst.
    destruct (to_dict_kids_c sm id i ch Hk) as (D & ED & D3 & D4).
    destruct (Hinv D D4) as (i' & D' & Ei & SD & Hid & Hnid).
    assert (Edid : did_for default_did (dget k_data_id D') i' = inl (i_did i)).
    { rewrite Hid. unfold opt_id. destruct SD as (_ & Eh & _).
      destruct (Z.eqb (i_hash i) (-1)) eqn:C1; [apply did_for_of_did|].
      destruct (did_eqb (i_did i) (DInt (i_hash i))) eqn:C2; [|apply did_for_of_did].
      apply did_eqb_eq in C2. cbn [did_for]. unfold default_did, unhashable. rewrite Eh, C1, C2. reflexivity. }
    change (rdid (T id i ch)) with (i_did i) in Nin.
    destruct (rt_loop_c ch IH ND SUch AIch [] (used ++ opt_list None)) as (ch' & E & I & N); [intros x _ []|].
    rewrite ED, parse_dict.
    rewrite (fd_item_PT_intro dd default_did D _ seen used i' D' (i_did i) None Ei Edid);
      [|unfold nid_check; rewrite Hnid; reflexivity|apply existsb_did_false; exact Nin].
    rewrite D3, E. eexists. split; [reflexivity|]. split.
    - constructor; try reflexivity; try assumption.
    - cbn [nids]. rewrite Ei, Hnid. cbn [nid_of app]. exact N.
  Qed.
End RoundTripC.

Theorem roundtrip_c sm dd next f :
  sm_json sm -> sm_kids sm -> sibuniq_f f -> Forall (allinfo (inverse_on_c sm dd)) f ->
  exists f', tree_from_dict dd next (map json_rt (to_dict_list sm f)) = inl f' /\
             Forall2 iso f f' /\ ids f' = seq (S next) (size_f f).
Proof.
  intros Hj Hk [ND SU] AI. rewrite (to_dict_list_json sm Hj).
  destruct (rt_loop_c sm dd f (proj2 (Forall_forall _ _) (fun t _ => rt_item_c sm dd Hk t)) ND SU AI [] [])
    as (f0 & E & I & _); [intros x _ []|].
  unfold tree_from_dict, from_dict, to_dict_list. rewrite E.
  destruct (renum_forest_ok f0 next) as (B2 & _ & B4 & _).
  eexists. split; [reflexivity|]. split; [now apply B4|].
  rewrite B2. now rewrite (iso_f_size _ _ I).
Qed.
