(* Model of the relationship queries of node.py (C10) and of the kind-aware
   queries of typed_tree.py (C15).  Executable definitions only.

   The implementation navigates [_parent]/[_children] pointers.  The model
   first resolves a node identity to its *context* in the forest value
   (ancestor chain, sibling list, the node's own sub-tree) and then computes
   each query from that context the way the Python method does. *)
From Coq Require Import List ZArith Bool Arith Lia.
From NT Require Import Sx Rose.
Import ListNotations.

(* ancestors (nearest first), the sibling list the node lives in, the node *)
Definition ctx := (list rt * list rt * rt)%type.
Definition c_anc (c : ctx) : list rt := fst (fst c).
Definition c_sibs (c : ctx) : list rt := snd (fst c).
Definition c_self (c : ctx) : rt := snd c.

Fixpoint locate (n : nat) (anc sibs : list rt) (t : rt) {struct t} : option ctx :=
  match t with
  | T id i ch =>
      if Nat.eqb id n then Some (anc, sibs, t)
      else (fix go (l : list rt) : option ctx :=
              match l with
              | [] => None
              | c :: l' => match locate n (t :: anc) ch c with
                           | Some r => Some r
                           | None => go l'
                           end
              end) ch
  end.

Fixpoint locate_in (n : nat) (anc sibs : list rt) (l : list rt) : option ctx :=
  match l with
  | [] => None
  | c :: l' => match locate n anc sibs c with
               | Some r => Some r
               | None => locate_in n anc sibs l'
               end
  end.

Definition locate_f (n : nat) (f : forest) : option ctx := locate_in n [] f f.

(* position by identity ([is]), what the repaired get_index() computes *)
Fixpoint index_of (n : nat) (l : list rt) : option nat :=
  match l with
  | [] => None
  | x :: l' => if Nat.eqb (rid x) n then Some 0
               else match index_of n l' with Some k => Some (S k) | None => None end
  end.

Definition is_self (n : nat) (t : rt) : bool := Nat.eqb (rid t) n.

Definition last_error {X} (l : list X) : option X := hd_error (rev l).

(* ------------------------------------------------------------------ *)
(* node.py: plain relationship queries                                  *)
(* ------------------------------------------------------------------ *)
Section Plain.
  Variable c : ctx.
  Let anc := c_anc c.
  Let sibs := c_sibs c.
  Let self := c_self c.
  Let me := rid self.

  Definition q_parent : option rt := hd_error anc.
  Definition q_children : list rt := rch self.
  Definition q_first_child : option rt := hd_error (rch self).
  Definition q_last_child : option rt := last_error (rch self).
  Definition q_siblings (add_self : bool) : list rt :=
    if add_self then sibs else filter (fun t => negb (is_self me t)) sibs.
  Definition q_first_sibling : option rt := hd_error sibs.
  Definition q_last_sibling : option rt := last_error sibs.
  Definition q_index : option nat := index_of me sibs.
  Definition q_is_first : bool :=
    match hd_error sibs with Some t => is_self me t | None => false end.
  Definition q_is_last : bool :=
    match last_error sibs with Some t => is_self me t | None => false end.
  Definition q_prev : option rt :=
    if q_is_first then None
    else match q_index with
         | Some (S k) => nth_error sibs k
         | _ => None
         end.
  Definition q_next : option rt :=
    if q_is_last then None
    else match q_index with
         | Some k => nth_error sibs (S k)
         | None => None
         end.
  Definition q_depth : nat := S (length anc).           (* calc_depth *)
  Definition q_height : nat := height self.             (* calc_height *)
  Definition q_top : rt := match last_error anc with Some t => t | None => self end.
  Definition q_is_top : bool := match anc with [] => true | _ => false end.
  Definition q_is_leaf : bool := match rch self with [] => true | _ => false end.
  Definition q_has_children : bool := negb q_is_leaf.
  (* get_parent_list(add_self, bottom_up) *)
  Definition q_parent_list (add_self bottom_up : bool) : list rt :=
    let up := if add_self then self :: anc else anc in
    if bottom_up then up else rev up.
  (* get_path() with the default separator and repr: "/" + "/".join(names) *)
  Definition q_path (add_self : bool) : text :=
    match q_parent_list add_self false with
    | [] => [47%Z]
    | l => flat_map (fun t => 47%Z :: i_name (rinfo t)) l
    end.
  Definition q_count_desc (leaves_only : bool) : nat :=
    length (filter (fun t => if leaves_only then match rch t with [] => true | _ => false end else true)
                   (pre_f (rch self))).
  (* up(level): Some (Some t) = node, Some None = system root, None = ValueError *)
  Definition q_up (level : nat) : option (option rt) :=
    match level with
    | 0 => None
    | S k => match nth_error anc k with
             | Some t => Some (Some t)
             | None => if Nat.eqb k (length anc) then Some None else None
             end
    end.
  Definition q_is_descendant_of (other : nat) : bool := existsb (is_self other) anc.
End Plain.

Definition q_is_ancestor_of (other_ctx : ctx) (me : nat) : bool :=
  q_is_descendant_of other_ctx me.

(* get_common_ancestor: first of self's ancestors-or-self, bottom-up, whose
   node id is among other's ancestors-or-self *)
Definition q_common_ancestor (c o : ctx) : option rt :=
  let oset := map rid (c_self o :: c_anc o) in
  find (fun t => existsb (Nat.eqb (rid t)) oset) (c_self c :: c_anc c).

(* Tree.calc_height: height of the system root *)
Definition tree_height (f : forest) : nat :=
  match f with [] => 0 | _ => S (list_max (map height f)) end.

(* Tree-level accessors (tree.py): children / get_toplevel_nodes, first_child, last_child, count = len(tree),
   and count_descendants of the system root *)
Definition tr_children (f : forest) : list rt := f.
Definition tr_first_child (f : forest) : option rt := hd_error f.
Definition tr_last_child (f : forest) : option rt := last_error f.
Definition tr_count (f : forest) : nat := length (pre_f f).
Definition tr_count_desc (f : forest) (leaves_only : bool) : nat :=
  length (filter (fun t => if leaves_only then match rch t with [] => true | _ => false end else true) (pre_f f)).

(* ------------------------------------------------------------------ *)
(* typed_tree.py: kind-aware queries.  [k = None] is ANY_KIND           *)
(* ------------------------------------------------------------------ *)
Definition kind_is (k : text) (t : rt) : bool := kind_eqb (rkind t) (Some k).
Definition same_kind (a b : rt) : bool := kind_eqb (rkind a) (rkind b).

Definition t_get_children (ch : list rt) (k : option text) : list rt :=
  match ch with
  | [] => []
  | _ => match k with None => ch | Some k => filter (kind_is k) ch end
  end.

Definition t_first_child (ch : list rt) (k : option text) : option rt :=
  match ch with
  | [] => None
  | x :: _ => match k with None => Some x | Some k => find (kind_is k) ch end
  end.

Definition t_last_child (ch : list rt) (k : option text) : option rt :=
  match ch with
  | [] => None
  | _ => match k with None => last_error ch | Some k => find (kind_is k) (rev ch) end
  end.

Definition t_has_children (ch : list rt) (k : option text) : bool :=
  match k with
  | None => match ch with [] => false | _ => true end
  | Some _ => Nat.ltb 0 (length (t_get_children ch k))
  end.

Section Typed.
  Variable c : ctx.
  Variable any_kind : bool.
  Let sibs := c_sibs c.
  Let self := c_self c.
  Let me := rid self.
  Let sel (t : rt) : bool := any_kind || same_kind t self.

  Definition t_siblings (add_self : bool) : list rt :=
    if any_kind then q_siblings c add_self
    else filter (fun t => (add_self || negb (is_self me t)) && same_kind t self) sibs.
  Definition t_first_sibling : option rt :=
    if any_kind then hd_error sibs else find (fun t => same_kind t self) sibs.
  Definition t_last_sibling : option rt :=
    if any_kind then last_error sibs else find (fun t => same_kind t self) (rev sibs).
  (* own_idx = position of self (by identity); scan downwards from own_idx-1 *)
  Definition t_prev : option rt :=
    match index_of me sibs with
    | Some i => find sel (rev (firstn i sibs))
    | None => None
    end.
  Definition t_next : option rt :=
    match index_of me sibs with
    | Some i => find sel (skipn (S i) sibs)
    | None => None
    end.
  Definition t_index : option nat :=
    if any_kind then index_of me sibs
    else index_of me (t_get_children sibs (rkind self)).
  Definition t_is_first : bool :=
    match t_first_sibling with Some t => is_self me t | None => false end.
  Definition t_is_last : bool :=
    match t_last_sibling with Some t => is_self me t | None => false end.
End Typed.

(* TypedTree.iter_by_type *)
Definition t_iter_by_type (f : forest) (k : option text) : list rt :=
  match k with None => pre_f f | Some k => filter (kind_is k) (pre_f f) end.
