(* Theorems about DictWrapper (model: MiscWrap.v). *)
From Coq Require Import List ZArith Bool Arith Lia.
From NT Require Import Sx Rose MiscMapper MiscMapperProofs MiscRepr MiscWrap.
Import ListNotations.

(* ---- lists --------------------------------------------------------------------------------------------------- *)
Lemma length_set_nth {X} (l : list X) n x : length (set_nth l n x) = length l.
Proof. revert n; induction l as [|y r IH]; intros [|n]; cbn; auto. Qed.

Lemma nth_set_nth_same {X} (l : list X) n x d : n < length l -> nth n (set_nth l n x) d = x.
Proof. revert n; induction l as [|y r IH]; intros [|n]; cbn; intros H; try lia; auto. apply IH; lia. Qed.

Lemma nth_set_nth_other {X} (l : list X) n m x d : n <> m -> nth m (set_nth l n x) d = nth m l d.
Proof. revert n m; induction l as [|y r IH]; intros [|n] [|m]; cbn; intros H; try congruence; auto. Qed.

Section Addr.
  Variable addr : nat -> Z.
  Notation step := (step addr).

  (* every wrapper holds an allocated dict *)
  Definition wf (w : world) : Prop := Forall (fun di => di < length (w_dicts w)) (w_wraps w).
  (* the indices an op mentions exist *)
  Definition op_ok (w : world) (o : op) : Prop :=
    match o with
    | OWrap (CDict di) _ | OSetDirect di _ _ | ODeser di => di < length (w_dicts w)
    | OSet wi _ _ | OGet wi _ | OEqDict wi | OHash wi | ORepr wi | OSer wi => wi < length (w_wraps w)
    | OEq wi wj => wi < length (w_wraps w) /\ wj < length (w_wraps w)
    | _ => True
    end.

  Lemma wf_dict_of w wi : wf w -> wi < length (w_wraps w) -> dict_of w wi < length (w_dicts w).
  Proof. intros H L. unfold dict_of. apply (proj1 (Forall_forall _ _) H). apply nth_In, L. Qed.

  Lemma wf_empty : wf empty_world.
  Proof. constructor. Qed.

  Lemma wf_more w d : wf w -> Forall (fun di => di < length (w_dicts w ++ [d])) (w_wraps w).
  Proof. intros H. eapply Forall_impl; [|exact H]. cbn; intros a Ha. rewrite app_length; cbn; lia. Qed.

  Lemma step_wf w o : wf w -> op_ok w o -> wf (fst (step w o)).
  Proof.
    intros H Hok. destruct o as [d|a kv|wi k v|wi k|di k v|wi wj|wi|wi|wi|wi|di]; cbn; try exact H.
    - unfold wf; cbn. apply wf_more, H.
    - destruct a as [|di|]; cbn; [| |exact H].
      + unfold wf; cbn. apply Forall_app; split; [apply wf_more, H|]. constructor; [rewrite app_length; cbn; lia|constructor].
      + destruct kv; cbn; [|exact H]. unfold wf; cbn. apply Forall_app; split; [exact H|]. constructor; [exact Hok|constructor].
    - unfold wf; cbn. rewrite length_set_nth. exact H.
    - unfold wf; cbn. rewrite length_set_nth. exact H.
    - unfold wf; cbn. apply wf_more, H.
    - unfold wf; cbn. apply Forall_app; split; [apply wf_more, H|]. constructor; [rewrite app_length; cbn; lia|constructor].
  Qed.

  (* ---- == is identity of the wrapped dict: an equivalence, consistent with hash -------------------------------- *)
  Lemma w_eq_iff w i j : w_eq w i j = true <-> dict_of w i = dict_of w j.
  Proof. apply Nat.eqb_eq. Qed.

  Lemma w_eq_refl w i : w_eq w i i = true.
  Proof. apply Nat.eqb_refl. Qed.

  Lemma w_eq_sym w i j : w_eq w i j = w_eq w j i.
  Proof. apply Nat.eqb_sym. Qed.

  Lemma w_eq_trans w i j k : w_eq w i j = true -> w_eq w j k = true -> w_eq w i k = true.
  Proof. rewrite !w_eq_iff. congruence. Qed.

  Lemma w_eq_hash w i j : w_eq w i j = true -> w_hash addr w i = w_hash addr w j.
  Proof. rewrite w_eq_iff. unfold w_hash. congruence. Qed.

  (* objects that are alive together have different id()s *)
  Definition addr_inj : Prop := forall a b, addr a = addr b -> a = b.

  Lemma w_hash_eq w i j : addr_inj -> (w_hash addr w i = w_hash addr w j <-> w_eq w i j = true).
  Proof. intros Inj. rewrite w_eq_iff. unfold w_hash. split; [apply Inj|congruence]. Qed.

  (* equality never looks at the content *)
  Lemma w_eq_content_blind ds ds' ws i j : w_eq (W ds ws) i j = w_eq (W ds' ws) i j.
  Proof. reflexivity. Qed.

  (* ---- the constructor ---------------------------------------------------------------------------------------- *)
  (* DictWrapper(d): a reference to that very dict – also when d is empty *)
  Lemma wrap_dict_by_reference w di :
    step w (OWrap (CDict di) []) = (W (w_dicts w) (w_wraps w ++ [di]), RWrap (length (w_wraps w))) /\
    dict_of (fst (step w (OWrap (CDict di) []))) (length (w_wraps w)) = di.
  Proof. split; [reflexivity|]. cbn. unfold dict_of; cbn. rewrite app_nth2, Nat.sub_diag; [reflexivity|lia]. Qed.

  Lemma wrap_refusals w di k v kv a :
    step w (OWrap (CDict di) ((k, v) :: kv)) = (w, RErr E_VALUE) /\ step w (OWrap COther a) = (w, RErr E_TYPE).
  Proof. split; reflexivity. Qed.

  (* DictWrapper( **kv) / DictWrapper(None, **kv): a NEW dict holding exactly the keywords *)
  Lemma wrap_keywords_new_dict w kv :
    let w' := fst (step w (OWrap CNone kv)) in
    dict_of w' (length (w_wraps w)) = length (w_dicts w) /\ content_of w' (length (w_wraps w)) = kv.
  Proof.
    cbv zeta. cbn [MiscWrap.step fst]. unfold content_of, dict_of, dict_at. cbn [w_dicts w_wraps].
    rewrite (app_nth2 (w_wraps w)), Nat.sub_diag by lia. cbn [nth]. split; [reflexivity|].
    rewrite app_nth2, Nat.sub_diag by lia. reflexivity.
  Qed.

  Lemma dict_of_old w ds x wi : wi < length (w_wraps w) -> dict_of (W ds (w_wraps w ++ [x])) wi = dict_of w wi.
  Proof. intros L. unfold dict_of; cbn. apply app_nth1, L. Qed.

  (* a wrapper built from keywords, or by deserialize_mapper, equals no wrapper that existed before *)
  Lemma fresh_wrapper_unequal w o wi :
    wf w -> (exists kv, o = OWrap CNone kv) \/ (exists di, o = ODeser di) -> wi < length (w_wraps w) ->
    w_eq (fst (step w o)) wi (length (w_wraps w)) = false.
  Proof.
    intros H Ho L. pose proof (wf_dict_of w wi H L) as B.
    assert (G : forall d, w_eq (W (w_dicts w ++ [d]) (w_wraps w ++ [length (w_dicts w)])) wi (length (w_wraps w)) = false).
    { intros d. unfold w_eq, dict_of. cbn [w_wraps].
      rewrite (app_nth1 (w_wraps w) _ 0 L), (app_nth2 (w_wraps w) _ 0 (le_n _)), Nat.sub_diag. cbn [nth].
      apply Nat.eqb_neq. unfold dict_of in B. lia. }
    destruct Ho as [[kv ->]|[di ->]]; cbn [MiscWrap.step fst]; apply G.
  Qed.

  (* wrapping two different dict objects gives unequal wrappers – whatever the dicts contain (equal contents included);
     wrapping one dict twice gives equal wrappers *)
  Lemma wrap_two w di dj :
    let w2 := fst (step (fst (step w (OWrap (CDict di) []))) (OWrap (CDict dj) [])) in
    w_eq w2 (length (w_wraps w)) (S (length (w_wraps w))) = Nat.eqb di dj.
  Proof.
    cbn. unfold w_eq, dict_of; cbn.
    rewrite <- app_assoc; cbn.
    rewrite (app_nth2 (w_wraps w) [di; dj]) by lia. rewrite Nat.sub_diag; cbn.
    rewrite (app_nth2 (w_wraps w) [di; dj]) by lia. replace (S (length (w_wraps w)) - length (w_wraps w)) with 1 by lia. reflexivity.
  Qed.

  (* ---- item access goes through to the wrapped dict ------------------------------------------------------------ *)
  Lemma set_dict_of w wi k v wj : dict_of (fst (step w (OSet wi k v))) wj = dict_of w wj.
  Proof. reflexivity. Qed.

  (* after w_i[k] = v every wrapper of the same dict reads v, and so does the dict itself *)
  Lemma set_visible w wi k v wj :
    dict_of w wi < length (w_dicts w) -> w_eq w wi wj = true ->
    step (fst (step w (OSet wi k v))) (OGet wj k) = (fst (step w (OSet wi k v)), RGot v) /\
    d_get (dict_at (fst (step w (OSet wi k v))) (dict_of w wi)) k = Some v.
  Proof.
    intros L E. apply w_eq_iff in E.
    assert (G : d_get (dict_at (fst (step w (OSet wi k v))) (dict_of w wi)) k = Some v).
    { cbn. unfold dict_at at 1; cbn. rewrite nth_set_nth_same by exact L. apply d_get_set_same. }
    split; [|exact G].
    set (w' := fst (step w (OSet wi k v))) in *.
    assert (D : dict_of w' wj = dict_of w wi) by (rewrite E; reflexivity).
    change (step w' (OGet wj k)) with (w', match d_get (content_of w' wj) k with Some v => RGot v | None => RErr E_KEY end).
    unfold content_of. rewrite D, G. reflexivity.
  Qed.

  (* other keys of that dict, and every other dict, are untouched *)
  Lemma set_frame_key w wi k v k' : dict_of w wi < length (w_dicts w) -> k' <> k ->
    d_get (dict_at (fst (step w (OSet wi k v))) (dict_of w wi)) k' = d_get (dict_at w (dict_of w wi)) k'.
  Proof. intros L N. cbn. unfold dict_at at 1; cbn. rewrite nth_set_nth_same by exact L. apply d_get_set_other, N. Qed.

  Lemma set_frame_dict w wi k v dj : dj <> dict_of w wi -> dict_at (fst (step w (OSet wi k v))) dj = dict_at w dj.
  Proof. intros N. cbn. unfold dict_at; cbn. apply nth_set_nth_other. congruence. Qed.

  Lemma set_frame_wrapper w wi k v wj : w_eq w wi wj = false -> content_of (fst (step w (OSet wi k v))) wj = content_of w wj.
  Proof. intros E. unfold content_of. rewrite set_dict_of. apply set_frame_dict. apply Nat.eqb_neq in E. congruence. Qed.

  (* a write to the dict behind the wrappers' back is seen through every wrapper of it *)
  Lemma direct_write_visible w di k v wj : di < length (w_dicts w) -> dict_of w wj = di ->
    step (fst (step w (OSetDirect di k v))) (OGet wj k) = (fst (step w (OSetDirect di k v)), RGot v).
  Proof.
    intros L E.
    set (w' := fst (step w (OSetDirect di k v))).
    assert (D : dict_of w' wj = di) by (rewrite <- E; reflexivity).
    change (step w' (OGet wj k)) with (w', match d_get (content_of w' wj) k with Some v => RGot v | None => RErr E_KEY end).
    unfold content_of. rewrite D. unfold w', dict_at; cbn [MiscWrap.step fst w_dicts].
    rewrite nth_set_nth_same by exact L. rewrite d_get_set_same. reflexivity.
  Qed.

  (* w[k] raises KeyError exactly when the wrapped dict has no such key *)
  Lemma get_spec w wi k : snd (step w (OGet wi k)) = match d_get (content_of w wi) k with Some v => RGot v | None => RErr E_KEY end.
  Proof. reflexivity. Qed.

  (* ---- the mapper pair ------------------------------------------------------------------------------------------ *)
  (* serialize_mapper hands out a NEW dict with the wrapped content; deserialize_mapper of it a NEW wrapper around a
     third dict with the same content, unequal to the original wrapper *)
  Lemma mapper_roundtrip w wi :
    wf w -> wi < length (w_wraps w) ->
    let w1 := fst (step w (OSer wi)) in
    let w2 := fst (step w1 (ODeser (length (w_dicts w)))) in
    snd (step w (OSer wi)) = RDict (length (w_dicts w)) /\
    dict_at w1 (length (w_dicts w)) = content_of w wi /\
    content_of w2 (length (w_wraps w)) = content_of w wi /\
    dict_of w2 (length (w_wraps w)) = S (length (w_dicts w)) /\
    w_eq w2 wi (length (w_wraps w)) = false /\
    content_of w2 wi = content_of w wi.
  Proof.
    intros H L. pose proof (wf_dict_of w wi H L) as B. cbv zeta. cbn [MiscWrap.step fst snd].
    set (c := content_of w wi).
    unfold content_of, w_eq, dict_of, dict_at. cbn [w_dicts w_wraps]. unfold dict_of in B.
    rewrite !app_length; cbn [length].
    rewrite (app_nth2 (w_wraps w) _ 0 (le_n _)), Nat.sub_diag. cbn [nth].
    rewrite (app_nth1 (w_wraps w) _ 0 L).
    rewrite (app_nth2 (w_dicts w) [c] [] (le_n _)), Nat.sub_diag. cbn [nth].
    replace (length (w_dicts w) + 1) with (S (length (w_dicts w))) by lia.
    refine (conj eq_refl (conj eq_refl (conj _ (conj eq_refl (conj _ _))))).
    - rewrite app_nth2 by (rewrite app_length; cbn; lia). rewrite app_length; cbn [length].
      replace (S (length (w_dicts w)) - (length (w_dicts w) + 1)) with 0 by lia. reflexivity.
    - apply Nat.eqb_neq. lia.
    - rewrite <- app_assoc. rewrite app_nth1 by exact B. reflexivity.
  Qed.

  (* ---- data_id of a node holding a wrapper ---------------------------------------------------------------------- *)
  Lemma data_id_is_dict_identity w wi : node_data_id addr w wi = addr (dict_of w wi).
  Proof. reflexivity. Qed.

  Lemma clones_iff_same_dict w wi wj : addr_inj ->
    (In wj (clones_of addr w wi) <-> wj < length (w_wraps w) /\ dict_of w wj = dict_of w wi).
  Proof.
    intros Inj. unfold clones_of. rewrite filter_In, in_seq, Z.eqb_eq. unfold node_data_id, w_hash.
    split; intros [A B]; (split; [lia|]); [apply Inj, B|congruence].
  Qed.

  Lemma clones_iff_equal w wi wj : addr_inj -> wj < length (w_wraps w) ->
    (In wj (clones_of addr w wi) <-> w_eq w wj wi = true).
  Proof. intros Inj L. rewrite clones_iff_same_dict by exact Inj. rewrite w_eq_iff. tauto. Qed.

  (* ---- reachable worlds ------------------------------------------------------------------------------------------ *)
  Fixpoint ops_ok (w : world) (ops : list op) : Prop :=
    match ops with
    | [] => True
    | o :: r => op_ok w o /\ ops_ok (fst (step w o)) r
    end.

  Lemma run_wf w ops : wf w -> ops_ok w ops -> wf (fst (run addr w ops)).
  Proof.
    revert w; induction ops as [|o r IH]; intros w H Hok; cbn; [exact H|].
    destruct Hok as [Ho Hr]. pose proof (step_wf w o H Ho) as H1.
    destruct (MiscWrap.step addr w o) as [w1 x] eqn:E; cbn in *.
    specialize (IH w1 H1 Hr). destruct (run addr w1 r) as [w2 xs]; cbn in *. exact IH.
  Qed.
End Addr.

(* ---- non-vacuity -------------------------------------------------------------------------------------------------- *)
Definition ex_addr (di : nat) : Z := (1000 + 8 * Z.of_nat di)%Z.
Definition ex_script : list op :=
  [ONewDict [([97%Z], PInt 1)]; ONewDict [([97%Z], PInt 1)]; OWrap (CDict 0) []; OWrap (CDict 1) []; OWrap (CDict 0) [];
   OEq 0 1; OEq 0 2; OSet 2 [98%Z] (PInt 5); OGet 0 [98%Z]; OGet 1 [98%Z]; OSer 0; ODeser 2; OEq 0 3; OGet 3 [98%Z]; OHash 0; OHash 2; OHash 1;
   ONewDict []; OWrap (CDict 4) []; OSet 4 [107%Z] (PTuple []); ORepr 4; ORepr 0].

Example ex_wrap_run :
  snd (run ex_addr empty_world ex_script) =
  [RDict 0; RDict 1; RWrap 0; RWrap 1; RWrap 2; RBool false; RBool true; RUnit; RGot (PInt 5); RErr E_KEY; RDict 2; RWrap 3;
   RBool false; RGot (PInt 5); RInt 1000; RInt 1000; RInt 1008; RDict 4; RWrap 4; RUnit;
   RText [68; 105; 99; 116; 87; 114; 97; 112; 112; 101; 114; 60; 123; 39; 107; 39; 58; 32; 40; 41; 125; 62]%Z;
   RText [68; 105; 99; 116; 87; 114; 97; 112; 112; 101; 114; 60; 123; 39; 97; 39; 58; 32; 49; 44; 32; 39; 98; 39; 58; 32; 53; 125; 62]%Z] /\
  w_dicts (fst (run ex_addr empty_world ex_script)) =
  [[([97%Z], PInt 1); ([98%Z], PInt 5)]; [([97%Z], PInt 1)]; [([97%Z], PInt 1); ([98%Z], PInt 5)]; [([97%Z], PInt 1); ([98%Z], PInt 5)]; [([107%Z], PTuple [])]] /\
  clones_of ex_addr (fst (run ex_addr empty_world ex_script)) 0 = [0; 2].
Proof. vm_compute. repeat split. Qed.

Lemma ex_addr_inj : addr_inj ex_addr.
Proof. unfold addr_inj, ex_addr. intros a b H. lia. Qed.
