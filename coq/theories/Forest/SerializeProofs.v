(* Main theorems about the native file format: writer = layout, reader of a layout
   document = the described tree, round trip, option independence, iso, header
   rejection.  Side conditions are collected here. *)
From Coq Require Import List ZArith Bool Arith Lia Permutation.
From NT Require Import Sx Rose ListFacts RoseFacts Serialize SerializeSpec SerDictFacts SerCompressProofs
     SerLayFacts SerWriterProofs SerReaderProofs SerUnflatProofs.
From NTGen Require Import Generated.
Import ListNotations.

(* ------------------------------------------------------------------ side conditions *)
(* node identities are unique and none is the system root's (0) *)
Definition ids_ok (f : forest) : Prop := NoDup (0 :: ids f).

(* storage options fit the tree: the key map is injective, no entry uses one of its
   short names as a key, entries have unique keys, every value under a value-mapped
   key is a string listed for that key; user meta avoids the reserved header keys *)
Definition opts_ok (c : cls) (ser : info -> dict -> dict) (ko : kopt) (vo : vopt) (meta : dict) (f : forest) : Prop :=
  km_ok (resolve_km c ko) /\
  entries_ok c ser (resolve_km c ko) (resolve_vm c vo f) f /\
  meta_ok meta.

(* ------------------------------------------------------------------ writer *)
Theorem save_doc_is_layout c ser ko vo meta f :
  ids_ok f -> opts_ok c ser ko vo meta f ->
  save_doc c ser ko vo meta f = Ok (layout_doc c ser ko vo meta f).
Proof.
  intros Hids (Hkm & Hent & Hmeta). unfold save_doc, layout_doc, doc.
  rewrite (to_list_iter_layout c ser _ _ f Hids).
  - now rewrite (header_is_spec _ _ _ Hmeta).
  - intros t Ht. apply full_data_spec; [exact Hkm|]. intros Eb. now apply Hent.
Qed.

(* ------------------------------------------------------------------ reader *)
Lemma K_nodes_meta : text_eqb k_nodes k_meta = false. Proof. reflexivity. Qed.

Lemma jv_value_map_vmj vm : jv_value_map vm = JDict (vmj_of vm).
Proof. reflexivity. Qed.

Section Load.
  Variable c : cls.
  Variable ser : info -> dict -> dict.
  Variable deser : nat -> dict -> res dval.
  Variable shash : text -> Z.
  Variable f : forest.

  (* the mapper pair: assumptions of the theorems *)
  Definition mappers_ok : Prop :=
    ser_keeps c ser f /\ deser_total c ser deser f /\ deser_perm c ser deser f.

  Theorem load_layout_described km vm meta :
    km_ok km -> entries_ok c ser km vm f -> meta_ok meta -> mappers_ok ->
    described_unique c ser deser shash f ->
    load_doc c deser shash (doc (header_spec km vm meta) (layout c ser km vm f))
    = Ok (header_spec km vm meta, described c ser deser shash f).
  Proof.
    intros Hkm Hent Hmeta (Hkeeps & Htotal & Hperm) Huniq.
    destruct (header_spec_get km vm meta Hmeta) as (Hg & Hk & Hv).
    unfold load_doc, check_header, doc. cbn [dget]. rewrite text_eqb_refl, K_nodes_meta, text_eqb_refl.
    rewrite Hg. cbn [mentions_nutree]. rewrite is_substr_prefix. rewrite Hk, Hv.
    assert (Hun : uncompress_nodes
                    (inverse_key_map (if is_nil km then [] else match jv_key_map km with JDict m => m | _ => [] end))
                    (if is_nil vm then [] else vmj_of vm) (layout c ser km vm f)
                  = Ok (gen_entries (full_canon c ser km) [] (lay_f 0 1 f))).
    { assert (E1 : inverse_key_map (if is_nil km then [] else match jv_key_map km with JDict m => m | _ => [] end) = ikm_of km).
      { destruct km; [reflexivity|]. cbn [is_nil]. apply inverse_key_map_spec. }
      assert (E2 : (if is_nil vm then [] else vmj_of vm) = vmj_of vm) by (destruct vm; reflexivity).
      rewrite E1, E2. unfold layout. rewrite lay_entries_gen. apply uncompress_nodes_gen; [exact Hkm|].
      intros q Hq. apply Hent. rewrite <- (lay_f_nodes f 0 1). now apply in_map. }
    assert (Hfl : from_list c deser shash (gen_entries (full_canon c ser km) [] (lay_f 0 1 f))
                  = Ok (described c ser deser shash f)).
    { unfold from_list.
      pose proof (from_list_go_described c ser deser shash km f Hkeeps Htotal Hperm Huniq (lay_f 0 1 f) [] eq_refl) as G.
      cbn [prev3 map length described_nodes] in G. rewrite G.
      - f_equal. unfold described. apply unflat_forest.
        + apply (DN_idx c ser deser shash).
        + apply (DN_par c ser deser shash).
      - intros d j x Hfs. discriminate. }
    destruct km as [|kv km']; destruct vm as [|vv vm']; cbn [is_nil] in *; unfold jv_key_map in *; rewrite ?jv_value_map_vmj;
      rewrite Hun, Hfl; reflexivity.
  Qed.

  (* round trip *)
  Theorem load_save_described ko vo meta :
    ids_ok f -> opts_ok c ser ko vo meta f -> mappers_ok -> described_unique c ser deser shash f ->
    exists j, save_doc c ser ko vo meta f = Ok j /\
              load_doc c deser shash j
              = Ok (header_spec (resolve_km c ko) (resolve_vm c vo f) meta, described c ser deser shash f).
  Proof.
    intros Hids Hopts Hmap Huniq. exists (layout_doc c ser ko vo meta f). split; [now apply save_doc_is_layout|].
    destruct Hopts as (Hkm & Hent & Hmeta). unfold layout_doc. now apply load_layout_described.
  Qed.
End Load.

(* ------------------------------------------------------------------ header rejection *)
Theorem no_header_rejected c deser shash j :
  has_header j = false ->
  load_doc c deser shash j = Err EFormat \/ load_doc c deser shash j = Err EType.
Proof.
  unfold has_header, load_doc, check_header. intros H.
  destruct j as [| | | | |l|o]; try (now left).
  destruct (dget k_meta o) as [m|]; [|now left]. destruct (dget k_nodes o) as [n|]; [|destruct m; now left].
  destruct m as [| | | |s|ml|md]; try (now right).
  - destruct (is_substr k_generator s); [now right|now left].
  - destruct (existsb (jv_eqb (JStr k_generator)) ml); [now right|now left].
  - destruct (dget k_generator md) as [g|]; [|now left]. rewrite H. now left.
Qed.

(* a header that is a JSON object (or absent) is always answered by "Invalid file format" *)
Theorem no_header_rejected_format c deser shash j :
  has_header j = false ->
  (forall o m, j = JDict o -> dget k_meta o = Some m -> exists md, m = JDict md) ->
  load_doc c deser shash j = Err EFormat.
Proof.
  unfold has_header, load_doc, check_header. intros H Hm.
  destruct j as [| | | | |l|o]; try reflexivity.
  destruct (dget k_meta o) as [m|] eqn:Em; [|reflexivity]. destruct (Hm o m eq_refl Em) as [md ->].
  destruct (dget k_nodes o) as [n|]; [|reflexivity].
  destruct (dget k_generator md) as [g|]; [|reflexivity]. now rewrite H.
Qed.
