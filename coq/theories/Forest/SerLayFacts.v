(* Structural facts about the pre-order numbering [lay] of SerializeSpec.v and its
   relation to the model's (parent id, node) list [pre_par]. *)
From Coq Require Import List ZArith Bool Arith Lia Permutation.
From NT Require Import Sx Rose ListFacts RoseFacts Serialize SerializeSpec.
Import ListNotations.

Definition q_ppos (q : nat * nat * rt) : nat := fst (fst q).
Definition q_pos (q : nat * nat * rt) : nat := snd (fst q).
Definition q_node (q : nat * nat * rt) : rt := snd q.

Lemma lay_unfold ppos pos t : lay ppos pos t = (ppos, pos, t) :: lay_f pos (S pos) (rch t).
Proof.
  destruct t as [id i ch]. cbn [lay rch]. f_equal. generalize (S pos).
  induction ch as [|c ch IH]; intros p; cbn [lay_f]; [reflexivity|]. now rewrite IH.
Qed.

Lemma size_unfold t : size t = S (size_f (rch t)).
Proof. destruct t; reflexivity. Qed.

Lemma size_f_cons t f : size_f (t :: f) = size t + size_f f.
Proof. reflexivity. Qed.

Lemma size_f_pre f : length (pre_f f) = size_f f.
Proof.
  induction f as [|t f IH]; [reflexivity|]. cbn [flat_map]. rewrite app_length, size_pre, IH. reflexivity.
Qed.

(* nodes of the numbering = pre-order *)
Lemma lay_nodes : forall t ppos pos, map q_node (lay ppos pos t) = pre t.
Proof.
  induction t as [id i ch IH] using rt_ind'. intros ppos pos. rewrite lay_unfold. cbn [map q_node snd rch pre]. f_equal.
  generalize (S pos). induction ch as [|c ch IHc]; intros p; [reflexivity|].
  inversion IH as [|? ? Hc Hch]; subst. cbn [lay_f flat_map]. rewrite map_app, Hc, IHc; auto.
Qed.
Lemma lay_f_nodes f : forall ppos pos, map q_node (lay_f ppos pos f) = pre_f f.
Proof.
  induction f as [|t f IH]; intros ppos pos; [reflexivity|]. cbn [lay_f flat_map]. now rewrite map_app, lay_nodes, IH.
Qed.

(* positions are consecutive *)
Lemma lay_positions : forall t ppos pos, map q_pos (lay ppos pos t) = seq pos (size t).
Proof.
  induction t as [id i ch IH] using rt_ind'. intros ppos pos. rewrite lay_unfold, size_unfold. cbn [map q_pos fst snd rch seq]. f_equal.
  generalize (S pos). induction ch as [|c ch IHc]; intros p; [reflexivity|].
  inversion IH as [|? ? Hc Hch]; subst. cbn [lay_f]. rewrite size_f_cons, map_app, Hc, IHc, seq_app; auto.
Qed.
Lemma lay_f_positions f : forall ppos pos, map q_pos (lay_f ppos pos f) = seq pos (size_f f).
Proof.
  induction f as [|t f IH]; intros ppos pos; [reflexivity|]. cbn [lay_f]. now rewrite size_f_cons, map_app, lay_positions, IH, seq_app.
Qed.

(* ranges: own position inside the segment; parent = the given one or an earlier one inside *)
Lemma lay_range : forall t ppos pos q, In q (lay ppos pos t) ->
  pos <= q_pos q < pos + size t /\ ((q_ppos q = ppos /\ q_pos q = pos) \/ (pos <= q_ppos q /\ q_ppos q < q_pos q)).
Proof.
  induction t as [id i ch IH] using rt_ind'. intros ppos pos q. rewrite lay_unfold, size_unfold. cbn [rch]. intros [<-|Hq].
  - cbn. split; [lia|left; auto].
  - assert (G : forall f p, Forall (fun t => forall ppos pos q, In q (lay ppos pos t) ->
                  pos <= q_pos q < pos + size t /\ ((q_ppos q = ppos /\ q_pos q = pos) \/ (pos <= q_ppos q /\ q_ppos q < q_pos q))) f ->
                In q (lay_f pos p f) -> pos < p ->
                p <= q_pos q < p + size_f f /\ pos <= q_ppos q /\ q_ppos q < q_pos q).
    { induction f as [|c f IHf]; intros p Hall Hi Hlt; [contradiction|].
      inversion Hall as [|? ? Hc Hf]; subst. cbn [lay_f] in Hi. rewrite size_f_cons. apply in_app_or in Hi as [Hi|Hi].
      - destruct (Hc pos p q Hi) as [Hr Hp]. split; [lia|]. destruct Hp as [[-> ->]|Hp]; lia.
      - destruct (IHf (p + size c) Hf Hi) as [Hr Hp]; [lia|]. split; lia. }
    destruct (G ch (S pos) IH Hq) as [Hr Hp]; [lia|]. split; [lia|]. right. lia.
Qed.

Lemma lay_f_range f : forall ppos pos q, In q (lay_f ppos pos f) ->
  pos <= q_pos q < pos + size_f f /\ (q_ppos q = ppos \/ (pos <= q_ppos q /\ q_ppos q < q_pos q)).
Proof.
  induction f as [|c f IH]; intros ppos pos q Hi; [contradiction|]. cbn [lay_f] in Hi. rewrite size_f_cons.
  apply in_app_or in Hi as [Hi|Hi].
  - destruct (lay_range c ppos pos q Hi) as [Hr Hp]. split; [lia|]. destruct Hp as [[E _]|Hp]; [now left|right; lia].
  - destruct (IH ppos (pos + size c) q Hi) as [Hr Hp]. split; [lia|]. destruct Hp as [E|Hp]; [now left|right; lia].
Qed.

(* ------------------------------------------------------------------ *)
(* the combined list: (parent id, parent position, position, node) *)
Definition q4 := (nat * nat * nat * rt)%type.
Definition q4_pid (q : q4) : nat := fst (fst (fst q)).
Definition q4_q (q : q4) : nat * nat * rt := (snd (fst (fst q)), snd (fst q), snd q).
Definition q4_pn (q : q4) : nat * rt := (q4_pid q, snd q).

Fixpoint lay4 (pid ppos pos : nat) (t : rt) {struct t} : list q4 :=
  match t with
  | T id _ ch =>
      (pid, ppos, pos, t) ::
      (fix go (l : list rt) (p : nat) {struct l} : list q4 :=
         match l with
         | [] => []
         | c :: r => lay4 id pos p c ++ go r (p + size c)
         end) ch (S pos)
  end.
Fixpoint lay4_f (pid ppos pos : nat) (f : forest) : list q4 :=
  match f with
  | [] => []
  | c :: r => lay4 pid ppos pos c ++ lay4_f pid ppos (pos + size c) r
  end.

Lemma lay4_unfold pid ppos pos t : lay4 pid ppos pos t = (pid, ppos, pos, t) :: lay4_f (rid t) pos (S pos) (rch t).
Proof.
  destruct t as [id i ch]. cbn [lay4 rch rid]. f_equal. generalize (S pos).
  induction ch as [|c ch IH]; intros p; cbn [lay4_f]; [reflexivity|]. now rewrite IH.
Qed.

Lemma lay4_q : forall t pid ppos pos, map q4_q (lay4 pid ppos pos t) = lay ppos pos t.
Proof.
  induction t as [id i ch IH] using rt_ind'. intros pid ppos pos. rewrite lay4_unfold, lay_unfold. cbn [map rch rid]. f_equal.
  generalize (S pos). induction ch as [|c ch IHc]; intros p; [reflexivity|].
  inversion IH as [|? ? Hc Hch]; subst. cbn [lay4_f lay_f]. rewrite map_app, Hc, IHc; auto.
Qed.
Lemma lay4_f_q f : forall pid ppos pos, map q4_q (lay4_f pid ppos pos f) = lay_f ppos pos f.
Proof.
  induction f as [|t f IH]; intros pid ppos pos; [reflexivity|]. cbn [lay4_f lay_f]. now rewrite map_app, lay4_q, IH.
Qed.

Lemma pre_par_unfold p t : pre_par p t = (p, t) :: pre_par_f (rid t) (rch t).
Proof. destruct t; reflexivity. Qed.

Lemma lay4_pn : forall t pid ppos pos, map q4_pn (lay4 pid ppos pos t) = pre_par pid t.
Proof.
  induction t as [id i ch IH] using rt_ind'. intros pid ppos pos. rewrite lay4_unfold, pre_par_unfold. cbn [map rch rid]. f_equal.
  generalize (S pos). induction ch as [|c ch IHc]; intros p; [reflexivity|].
  inversion IH as [|? ? Hc Hch]; subst. cbn [lay4_f flat_map]. rewrite map_app, Hc, IHc; auto.
Qed.
Lemma lay4_f_pn f : forall pid ppos pos, map q4_pn (lay4_f pid ppos pos f) = pre_par_f pid f.
Proof.
  induction f as [|t f IH]; intros pid ppos pos; [reflexivity|]. cbn [lay4_f flat_map]. now rewrite map_app, lay4_pn, IH.
Qed.

(* every element's parent link: the given one, or an EARLIER element with children *)
Definition linked (pid ppos : nat) (A : list q4) (q : q4) : Prop :=
  (q4_pid q = pid /\ q_ppos (q4_q q) = ppos) \/
  (exists y, In y A /\ rid (snd y) = q4_pid q /\ q_pos (q4_q y) = q_ppos (q4_q q) /\ rch (snd y) <> []).

Lemma linked_weaken pid ppos A A' q : incl A A' -> linked pid ppos A q -> linked pid ppos A' q.
Proof. intros Hi [H|(y & Hy & H)]; [now left|right; exists y; split; auto]. Qed.

Lemma lay4_linked : forall t pid ppos pos A q B,
  lay4 pid ppos pos t = A ++ q :: B -> linked pid ppos A q.
Proof.
  induction t as [id i ch IH] using rt_ind'. intros pid ppos pos A q B E. rewrite lay4_unfold in E. cbn [rch rid] in E.
  destruct A as [|a A].
  - cbn in E. injection E as <- _. left. split; reflexivity.
  - cbn in E. injection E as <- E.
    (* q lies in the children part *)
    assert (G : forall f p A q B, Forall (fun t => forall pid ppos pos A q B, lay4 pid ppos pos t = A ++ q :: B -> linked pid ppos A q) f ->
                lay4_f id pos p f = A ++ q :: B -> linked id pos A q).
    { induction f as [|c f IHf]; intros p A0 q0 B0 Hall E0; [destruct A0; discriminate|].
      inversion Hall as [|? ? Hc Hf]; subst. cbn [lay4_f] in E0.
      apply app_eq_app in E0 as [l [[Ea El]|[Ea El]]].
      - destruct l as [|x l].
        + cbn in El. rewrite app_nil_r in Ea. subst A0.
          apply (linked_weaken _ _ []); [intros x Hx; contradiction|].
          eapply (IHf _ [] q0 B0 Hf). exact (eq_sym El).
        + cbn in El. injection El as <- El. eapply Hc. exact Ea.
      - apply (linked_weaken _ _ l); [intros x Hx; rewrite Ea; apply in_or_app; now right|].
        eapply IHf; eauto. }
    destruct (G ch (S pos) A q B IH E) as [[Hp Hpp]|(y & Hy & H)].
    + right. exists (pid, ppos, pos, T id i ch). split; [now left|]. split; [symmetry; exact Hp|]. split; [symmetry; exact Hpp|].
      cbn [snd rch]. intros Hnil. rewrite Hnil in E. destruct A; discriminate.
    + right. exists y. split; [now right|exact H].
Qed.

Lemma lay4_f_linked f : forall pid ppos pos A q B,
  lay4_f pid ppos pos f = A ++ q :: B -> linked pid ppos A q.
Proof.
  induction f as [|c f IHf]; intros pid ppos pos A0 q0 B0 E0; [destruct A0; discriminate|].
  cbn [lay4_f] in E0. apply app_eq_app in E0 as [l [[Ea El]|[Ea El]]].
  - destruct l as [|x l].
    + cbn in El. rewrite app_nil_r in Ea. subst A0.
      apply (linked_weaken _ _ []); [intros x Hx; contradiction|].
      eapply (IHf _ _ _ [] q0 B0). exact (eq_sym El).
    + cbn in El. injection El as <- El. eapply lay4_linked. exact Ea.
  - apply (linked_weaken _ _ l); [intros x Hx; rewrite Ea; apply in_or_app; now right|].
    eapply IHf; eauto.
Qed.

Lemma seq_split_pos : forall (l1 : list nat) a n x l2, seq a n = l1 ++ x :: l2 -> x = a + length l1.
Proof.
  induction l1 as [|y l1 IH]; intros a n x l2 E; destruct n as [|n]; try discriminate.
  - cbn in E. injection E as <- _. cbn. lia.
  - cbn in E. injection E as _ E. apply IH in E. cbn. lia.
Qed.

Lemma lay4_f_nodes f pid ppos pos : map (@snd _ rt) (lay4_f pid ppos pos f) = pre_f f.
Proof.
  rewrite <- (lay_f_nodes f ppos pos), <- (lay4_f_q f pid ppos pos), map_map. reflexivity.
Qed.

Lemma lay4_f_pos f pid ppos pos A q B : lay4_f pid ppos pos f = A ++ q :: B -> q_pos (q4_q q) = pos + length A.
Proof.
  intros E. pose proof (lay_f_positions f ppos pos) as P. rewrite <- (lay4_f_q f pid ppos pos), map_map, E, map_app in P.
  cbn [map] in P. symmetry in P. apply seq_split_pos in P. now rewrite map_length in P.
Qed.

Lemma lookup_nat_in {X} k (v : X) m : NoDup (map fst m) -> In (k, v) m -> lookup_nat k m = Some v.
Proof.
  induction m as [|[k' v'] m IH]; cbn; intros Hn Hi; [contradiction|].
  inversion Hn as [|x l Hx Hl]; subst. destruct Hi as [[= -> ->]|Hi].
  - now rewrite Nat.eqb_refl.
  - destruct (Nat.eqb k k') eqn:E; [|auto]. apply Nat.eqb_eq in E. subst. exfalso. apply Hx.
    change k' with (fst (k', v)). now apply in_map.
Qed.
