(* tree.py: Tree.print – executable model, no proofs (MiscPrintProofs.v).

       def print(self, *, repr=None, style=None, title=None, join="\n", file=None):
           print(self.format(repr=repr, style=style, title=title, join=join), file=file)

   The builtin print writes str(arg) followed by "\n" to `file`, or to sys.stdout when file is None; when format()
   raises, print is never called and nothing is written.  (There is no Node.print.) *)
From Coq Require Import List ZArith Bool.
From NT Require Import Sx Rose Format.
Import ListNotations.

Inductive sink := SStdout | SFile.        (* where the text went: sys.stdout, or the object passed as file= *)

Section Print.
  Variable table : list (text * segs).
  Variable default_style : text.
  Variable rend : rt -> text.

  Definition tree_print (trepr : text) (f : forest) (a : style_arg) (title : title_arg) (j : text) (file_given : bool)
    : res (sink * text) :=
    match tree_format table default_style rend trepr f a title j with
    | Ok t => Ok (if file_given then SFile else SStdout, t ++ [10%Z])
    | Err e => Err e
    end.
End Print.

Definition sx_sink (s : sink) : sx := match s with SStdout => A 0%Z | SFile => A 1%Z end.
