(* The result of diff carries ONLY the diff's own metadata: user metadata of the
   input nodes is neither copied to the result nor read by the comparison. *)
From Coq Require Import List ZArith Bool Arith Lia Permutation.
From NT Require Import Sx Rose ListFacts RoseFacts Diff DiffProofs DiffMore.
Import ListNotations.

Definition diff_keys (m : meta) : Prop := Forall (fun kv => fst kv = k_dc \/ fst kv = k_ren) m.
Definition only_diff_meta (f : forest) : Prop := Forall (fun x => diff_keys (rmeta x)) (pre_f f).

Lemma set_meta_dc_keys v m : diff_keys m -> diff_keys (set_meta k_dc v m).
Proof.
  induction m as [|[k w] m IH]; intros H; cbn.
  - constructor; [now left|constructor].
  - inversion H as [|? ? Hk Hm]; subst. destruct (text_eqb k k_dc).
    + constructor; [now left|exact Hm].
    + constructor; [exact Hk|now apply IH].
Qed.

Ltac dk := repeat (first [apply Forall_nil | apply Forall_cons; [first [left; reflexivity | right; reflexivity]|]]).

Lemma compare_only_diff_meta ordered ch0 ch1 : only_diff_meta (fst (compare ordered ch0 ch1)).
Proof.
  apply compare_all.
  - intros id i ch m [-> | ->]; unfold rmeta, diff_keys; cbn; dk.
  - intros id i ch o i0 i1 b. unfold rmeta, diff_keys. cbn [rinfo res_info i_meta]. unfold order_meta, root_meta.
    destruct (negb (Nat.eqb i0 i1) && o), b; cbn; dk.
  - intros id i. unfold rmeta, diff_keys. cbn. dk.
Qed.

Lemma step_only_diff_meta g f : step_ok g -> only_diff_meta f -> only_diff_meta (map (map_info g) f).
Proof.
  intros Hg H. unfold only_diff_meta in *. rewrite map_info_pre_f. apply Forall_forall. intros x' Hx'.
  apply in_map_iff in Hx'. destruct Hx' as [x [<- Hx]]. rewrite Forall_forall in H. specialize (H x Hx).
  unfold rmeta in *. rewrite map_info_rinfo.
  destruct (Hg (rid x) (rinfo x)) as [-> |[[_ ->]|[_ ->]]]; [exact H| |]; cbn; now apply set_meta_dc_keys.
Qed.

Lemma reduce_infos f x : In x (pre_f (reduce_f f)) -> exists y, In y (pre_f f) /\ rinfo y = rinfo x.
Proof.
  intros Hx. pose proof (reduce_nodes f) as E.
  assert (Hi : In (rid x, rinfo x) (map (fun x => (rid x, rinfo x)) (pre_f (reduce_f f)))) by (apply in_map_iff; eauto).
  rewrite E in Hi. apply in_map_iff in Hi. destruct Hi as [y [Ey Hy]]. apply filter_In in Hy.
  exists y. split; [apply Hy|]. now injection Ey.
Qed.

(* for ANY two forests, whatever metadata their nodes carry, every iteration
   order, ordered / reduce or not: the root and every node of the result carry
   only the keys "dc" and "dc_renumbered" *)
Theorem result_meta_is_diff_only order ordered reduce t0 t1 :
  let r := diff_with order ordered reduce t0 t1 in
  diff_keys (fst r) /\ only_diff_meta (snd r).
Proof.
  unfold diff_with. cbn [fst snd]. split.
  - unfold root_meta, diff_keys. destruct (snd (compare ordered t0 t1)); dk.
  - assert (U : only_diff_meta (reclass order (fst (compare ordered t0 t1)))).
    { apply (reclass_preserves only_diff_meta); [apply step_only_diff_meta|apply compare_only_diff_meta]. }
    destruct reduce; [|exact U]. apply Forall_forall. intros x Hx.
    destruct (reduce_infos _ x Hx) as [y [Hy E]]. unfold only_diff_meta in U. rewrite Forall_forall in U.
    unfold rmeta. rewrite <- E. now apply U.
Qed.

(* the comparison does not read the inputs' metadata either: clearing it on
   both inputs gives the same result *)
Fixpoint strip (t : rt) : rt := match t with T id i ch => T id (set_meta_i [] i) (map strip ch) end.

Lemma strip_key t : key (strip t) = key t. Proof. now destruct t. Qed.
Lemma strip_rdid t : rdid (strip t) = rdid t. Proof. now destruct t. Qed.
Lemma strip_rid t : rid (strip t) = rid t. Proof. now destruct t. Qed.
Lemma strip_rch t : rch (strip t) = map strip (rch t). Proof. now destruct t. Qed.
Lemma res_info_strip t m : res_info (rinfo (strip t)) m = res_info (rinfo t) m. Proof. now destruct t. Qed.

Lemma find_child_from_strip arr e : forall i,
  find_child_from i (map strip arr) e = option_map (fun p => (fst p, strip (snd p))) (find_child_from i arr e).
Proof.
  induction arr as [|c arr IH]; intros i; cbn; [reflexivity|].
  fold (key (strip c)) (key c). rewrite strip_key. destruct (Z.eqb (key c) e); [reflexivity|apply IH].
Qed.

Lemma copy_child_strip : forall n m, copy_child m (strip n) = copy_child m n.
Proof.
  induction n as [id i ch IH] using rt_ind'. intros m. cbn [strip copy_child]. f_equal.
  rewrite map_map. apply map_ext_in. intros c Hc. rewrite Forall_forall in IH. now apply IH.
Qed.

Lemma add_top_strip c : add_top (strip c) = add_top c.
Proof.
  destruct c as [id i ch]. unfold add_top. cbn [strip rid rinfo rch]. f_equal. unfold copy_children.
  rewrite map_map. apply map_ext. intros c. apply copy_child_strip.
Qed.

Lemma in_dids_strip d l : in_dids d (map strip l) = in_dids d l.
Proof. unfold in_dids. rewrite existsb_map_comp'. apply existsb_ext_in'. intros c _. now rewrite strip_rdid. Qed.

Lemma added_part_strip ch0 ch1 : added_part (map strip ch0) (map strip ch1) = added_part ch0 ch1.
Proof.
  unfold added_part. rewrite filter_map_swap, map_map.
  rewrite (map_ext _ _ add_top_strip). f_equal. apply filter_ext. intros c. now rewrite strip_rdid, in_dids_strip.
Qed.

Lemma mapi_from_map_in {X Y W} (f : nat -> Y -> W) (g : X -> Y) l : forall i,
  mapi_from f i (map g l) = mapi_from (fun i x => f i (g x)) i l.
Proof. induction l as [|x l IH]; intros i; cbn; [reflexivity|]. now rewrite IH. Qed.

Lemma compare_strip_aux ordered ch0 :
  Forall (fun c => forall ch1 i0, cmp ordered (map strip ch1) i0 (strip c) = cmp ordered ch1 i0 c) ch0 ->
  forall ch1, compare ordered (map strip ch0) (map strip ch1) = compare ordered ch0 ch1.
Proof.
  intros H ch1. unfold compare. rewrite added_part_strip, mapi_from_map_in.
  assert (E : mapi_from (fun i x => cmp ordered (map strip ch1) i (strip x)) 0 ch0 = mapi_from (cmp ordered ch1) 0 ch0).
  { apply mapi_from_ext. intros k x Hk. rewrite Forall_forall in H. apply H. eapply nth_error_In; eauto. }
  now rewrite E.
Qed.

Lemma cmp_strip ordered : forall c0 ch1 i0, cmp ordered (map strip ch1) i0 (strip c0) = cmp ordered ch1 i0 c0.
Proof.
  induction c0 as [n0 inf0 ch0 IH] using rt_ind'. intros ch1 i0. rewrite !cmp_unfold.
  rewrite strip_key, strip_rid, res_info_strip. unfold find_child. rewrite find_child_from_strip.
  destruct (find_child_from 0 ch1 (key (T n0 inf0 ch0))) as [[i1 c1]|]; cbn [option_map fst snd]; [|reflexivity].
  rewrite !strip_rch. cbn [rch]. now rewrite (compare_strip_aux ordered ch0 IH (rch c1)).
Qed.

Theorem compare_ignores_input_meta ordered t0 t1 :
  compare ordered (map strip t0) (map strip t1) = compare ordered t0 t1.
Proof. apply compare_strip_aux. apply Forall_forall. intros c _. apply cmp_strip. Qed.

Theorem diff_ignores_input_meta order ordered reduce t0 t1 :
  diff_with order ordered reduce (map strip t0) (map strip t1) = diff_with order ordered reduce t0 t1.
Proof. unfold diff_with. now rewrite compare_ignores_input_meta. Qed.
