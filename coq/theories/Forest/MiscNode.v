(* Node / Tree miscellany (node.py, tree.py, typed_tree.py) that the relationship model Nav.v does not contain.
   Executable model, no proofs (MiscNodeProofs.v).

     Node.path            = self.get_path(repr="{node.name}")             (= get_path() with its defaults)
     Node.get_children()  = self.children
     Node.is_system_root()= self._parent is None
     Node.__repr__        = f"{cls}<{self.name!r}, data_id={self.data_id}>"
     TypedNode.__repr__   = f"{cls}<kind={self.kind}, {self.name}, data_id={self.data_id!r}>"
     Tree.__repr__        = f"{cls}<{self.name!r}>"
     Tree.__eq__(other)   : raise NotImplementedError
     Tree.system_root     = self._root
     Tree.count           = len(self._node_by_id);  __len__ = count;  bool(tree) = (len(tree) != 0)
     Tree.first_child()/last_child() = self._root.first_child()/last_child()
     Tree.get_random_node()= nbid[random.choice(list(nbid.keys()))]
     Node.__eq__(other)   = self._data == (other._data if isinstance(other, Node) else other);   no __hash__

   [reg] is the key order of `_node_by_id` (an input, as in Search.v); `random` is an explicit stream reader (the
   harness replaces the module object `nutree.tree.random`): choice(seq) = seq[draw mod len(seq)], IndexError on an
   empty sequence, as random.choice.  repr()/str() of names and data_ids: MiscRepr.v (exact for ASCII texts). *)
From Coq Require Import List ZArith Bool Arith.
From NT Require Import Sx Rose Nav MiscMapper MiscRepr.
Import ListNotations.

(* ---- the objects a caller can hold: the invisible system root, or a node of the forest -------------------------- *)
Inductive ent := ERoot | ENode (c : ctx).

(* the `_parent` slot: None, or the identity of the parent object (0 = the system root object) *)
Definition raw_parent (e : ent) : option nat :=
  match e with
  | ERoot => None
  | ENode c => Some (match q_parent c with Some p => rid p | None => 0 end)
  end.

Definition is_system_root (e : ent) : bool :=          (* self._parent is None *)
  match raw_parent e with None => true | Some _ => false end.

Definition system_root : ent := ERoot.                  (* Tree.system_root *)

Definition ent_children (f : forest) (e : ent) : list rt :=       (* Node.children on either kind of object *)
  match e with ERoot => f | ENode c => q_children c end.

Definition node_get_children (c : ctx) : list rt := q_children c.      (* Node.get_children() *)
Definition node_path (c : ctx) : text := q_path c true.                 (* Node.path *)

Definition tree_first_child (f : forest) : option rt := hd_error (ent_children f system_root).
Definition tree_last_child (f : forest) : option rt := last_error (ent_children f system_root).

(* ---- counting ---------------------------------------------------------------------------------------------------- *)
Definition tree_count (reg : list nat) : nat := length reg.
Definition tree_len (reg : list nat) : nat := tree_count reg.
Definition tree_bool (reg : list nat) : bool := negb (Nat.eqb (tree_len reg) 0).

(* ---- Tree.__eq__ -------------------------------------------------------------------------------------------------- *)
Definition E_NOTIMPL : Z := 5%Z.
Definition E_INDEX : Z := 8%Z.          (* IndexError has no class of its own in harness/common.py:err_class *)
Definition tree_eq {X} (other : X) : Z + bool := inl E_NOTIMPL.

(* ---- Node.__eq__ / hash(node) ------------------------------------------------------------------------------------- *)
(* `node == other`: the DATA objects are compared (other._data for a Node, other itself for anything else); identity, kind,
   data_id and position play no role.  Node defines __eq__ and no __hash__: hash(node) raises TypeError. *)
Definition node_eq (a b : rt) : bool := Z.eqb (i_eqc (rinfo a)) (i_eqc (rinfo b)).
Definition node_eq_obj (a : rt) (eqc_other : Z) : bool := Z.eqb (i_eqc (rinfo a)) eqc_other.
Definition E_TYPE : Z := 7%Z.
Definition node_hash {X} (node : X) : Z + Z := inl E_TYPE.

(* ---- Tree.get_random_node ------------------------------------------------------------------------------------------ *)
Definition choice {X} (draw : Z) (l : list X) : option X :=
  match l with
  | [] => None
  | _ => nth_error l (Z.to_nat (draw mod Z.of_nat (length l)))
  end.

Definition get_random_node (reg : list nat) (draw : Z) : Z + nat :=
  match choice draw reg with Some n => inr n | None => inl E_INDEX end.

(* ---- __repr__ ------------------------------------------------------------------------------------------------------- *)
Definition did_str (d : did) : text := match d with DInt z => repr_int z | DStr s => s end.
Definition did_repr (d : did) : text := match d with DInt z => repr_int z | DStr s => repr_text s end.

Definition t_data_id_eq : text := [44; 32; 100; 97; 116; 97; 95; 105; 100; 61]%Z.   (* ", data_id=" *)
Definition t_kind_eq : text := [60; 107; 105; 110; 100; 61]%Z.                          (* "<kind=" *)

(* a function of (class name, name, data_id, kind): kind = None for plain nodes *)
Definition repr_of (cls name : text) (d : did) (k : option text) : text :=
  match k with
  | None => cls ++ [60%Z] ++ repr_text name ++ t_data_id_eq ++ did_str d ++ [62%Z]
  | Some kt => cls ++ t_kind_eq ++ kt ++ t_sep ++ name ++ t_data_id_eq ++ did_repr d ++ [62%Z]
  end.

Definition node_repr (cls : text) (t : rt) : text := repr_of cls (i_name (rinfo t)) (rdid t) (rkind t).

(* the system root: name = tree.name, data_id = ROOT_DATA_ID, and in a typed tree kind = None (printed "None") *)
Definition root_repr (typed : bool) (cls tree_name root_did : text) : text :=
  repr_of cls tree_name (DStr root_did) (if typed then Some t_None else None).

Definition tree_repr (cls tree_name : text) : text := cls ++ [60%Z] ++ repr_text tree_name ++ [62%Z].

Definition ent_repr (typed : bool) (cls rcls tree_name root_did : text) (e : ent) : text :=
  match e with
  | ERoot => root_repr typed rcls tree_name root_did
  | ENode c => node_repr cls (c_self c)
  end.
