(* Theorems about the call_mapper rule (model: MiscMapper.v). *)
From Coq Require Import List ZArith Bool Lia.
From NT Require Import Sx Rose MiscMapper.
Import ListNotations.

(* ---- the rule ------------------------------------------------------------------------------------------------ *)
Lemma cm_no_mapper d : call_mapper None d = OData d.
Proof. reflexivity. Qed.

Lemma cm_value_used_as_is body v d :
  v <> PNone -> call_mapper (Some (CB body (RVal v))) d = OVal v (apply_mops d body).
Proof. intros H. unfold call_mapper, call_fn; cbn. destruct v; try reflexivity. congruence. Qed.

Lemma cm_falsy_used_as_is body v d :
  truthy v = false -> v <> PNone -> call_mapper (Some (CB body (RVal v))) d = OVal v (apply_mops d body).
Proof. intros _. apply cm_value_used_as_is. Qed.

Lemma cm_none_selects_mutated body d :
  call_mapper (Some (CB body RNone)) d = OData (apply_mops d body).
Proof. reflexivity. Qed.

Lemma cm_same_object body d :
  call_mapper (Some (CB body RSame)) d = OData (apply_mops d body).
Proof. reflexivity. Qed.

Lemma cm_raise_propagates body c d :
  call_mapper (Some (CB body (RRaise c))) d = OErr c (apply_mops d body).
Proof. reflexivity. Qed.

(* the data dict's content afterwards never depends on how the callback ends *)
Lemma cm_after fn d :
  after (call_mapper fn d) = match fn with None => d | Some cb => apply_mops d (cb_body cb) end.
Proof.
  destruct fn as [[body r]|]; [|reflexivity].
  unfold call_mapper, call_fn; cbn. destruct r as [| |v|c]; try reflexivity. destruct (is_none v); reflexivity.
Qed.

(* the caller gets the data object itself exactly in the three documented situations *)
Definition returns_nothing (r : ret) : Prop := r = RNone \/ r = RSame \/ r = RVal PNone.

Theorem cm_is_data_iff fn d :
  (exists d', call_mapper fn d = OData d') <->
  (fn = None \/ exists body r, fn = Some (CB body r) /\ returns_nothing r).
Proof.
  split.
  - intros [d' H]. destruct fn as [[body r]|]; [right|left; reflexivity].
    exists body, r. split; [reflexivity|]. unfold call_mapper, call_fn in H; cbn in H.
    destruct r as [| |v|c]; unfold returns_nothing; auto; [|discriminate].
    destruct v; cbn in H; try discriminate. auto.
  - intros [->|(body & r & -> & H)]; [eexists; reflexivity|].
    destruct H as [->|[->| ->]]; eexists; reflexivity.
Qed.

(* full characterisation in one statement, as a function of the callback's end alone *)
Definition expected (r : ret) (d' : dict) : outcome :=
  match r with
  | RRaise c => OErr c d'
  | RVal v => match v with PNone => OData d' | _ => OVal v d' end
  | _ => OData d'
  end.

Theorem cm_spec body r d :
  call_mapper (Some (CB body r)) d = expected r (apply_mops d body).
Proof. unfold call_mapper, call_fn; cbn. destruct r as [| |v|c]; try reflexivity. destruct v; reflexivity. Qed.

(* ---- the excluded rule `fn(node, data) or data` differs exactly on falsy results other than None -------------- *)
Theorem cm_or_differs_iff fn d :
  call_mapper_or fn d <> call_mapper fn d <->
  exists body v, fn = Some (CB body (RVal v)) /\ truthy v = false /\ v <> PNone.
Proof.
  split.
  - destruct fn as [[body r]|]; [|intros H; exfalso; apply H; reflexivity].
    unfold call_mapper_or, call_mapper, call_fn; cbn.
    destruct r as [| |v|c]; try (intros H; exfalso; apply H; reflexivity).
    intros H. exists body, v. split; [reflexivity|].
    destruct v; cbn in *; try (split; [|discriminate]);
      try (exfalso; apply H; reflexivity).
    + destruct b; [exfalso; apply H; reflexivity|reflexivity].
    + destruct (Z.eqb z 0); [reflexivity|exfalso; apply H; reflexivity].
    + destruct s; [reflexivity|exfalso; apply H; reflexivity].
    + destruct l; [reflexivity|exfalso; apply H; reflexivity].
    + destruct l; [reflexivity|exfalso; apply H; reflexivity].
    + destruct kv; [reflexivity|exfalso; apply H; reflexivity].
    + destruct truth; [exfalso; apply H; reflexivity|reflexivity].
  - intros (body & v & -> & Hf & Hn).
    rewrite (cm_value_used_as_is body v d Hn).
    unfold call_mapper_or, call_fn; cbn. rewrite Hf. discriminate.
Qed.

(* ---- CPython dict semantics the scripts rely on --------------------------------------------------------------- *)
Lemma d_get_set_same d k v : d_get (d_set d k v) k = Some v.
Proof.
  induction d as [|[k' v'] r IH]; cbn.
  - rewrite text_eqb_refl. reflexivity.
  - destruct (text_eqb k' k) eqn:E; cbn; rewrite E; [reflexivity|exact IH].
Qed.

Lemma d_get_set_other d k v k' : k' <> k -> d_get (d_set d k v) k' = d_get d k'.
Proof.
  intros N. induction d as [|[k0 v0] r IH]; cbn.
  - destruct (text_eqb k k') eqn:E; [apply text_eqb_eq in E; congruence|reflexivity].
  - destruct (text_eqb k0 k) eqn:E; cbn.
    + apply text_eqb_eq in E; subst k0.
      destruct (text_eqb k k') eqn:E'; [apply text_eqb_eq in E'; congruence|reflexivity].
    + destruct (text_eqb k0 k'); [reflexivity|exact IH].
Qed.

(* an existing key keeps its position, a new key goes to the end *)
Lemma d_set_keys d k v :
  map fst (d_set d k v) = if existsb (text_eqb k) (map fst d) then map fst d else map fst d ++ [k].
Proof.
  induction d as [|[k0 v0] r IH]; cbn; [reflexivity|].
  destruct (text_eqb k0 k) eqn:E; cbn.
  - apply text_eqb_eq in E; subst. rewrite text_eqb_refl. reflexivity.
  - assert (E' : text_eqb k k0 = false).
    { destruct (text_eqb k k0) eqn:X; [apply text_eqb_eq in X; subst; rewrite text_eqb_refl in E; discriminate|reflexivity]. }
    rewrite E'; cbn. rewrite IH. destruct (existsb (text_eqb k) (map fst r)); reflexivity.
Qed.

Lemma d_get_del_other d k k' : k' <> k -> d_get (d_del d k) k' = d_get d k'.
Proof.
  intros N. induction d as [|[k0 v0] r IH]; cbn; [reflexivity|].
  destruct (text_eqb k0 k) eqn:E; cbn.
  - apply text_eqb_eq in E; subst k0.
    destruct (text_eqb k k') eqn:E'; [apply text_eqb_eq in E'; congruence|reflexivity].
  - destruct (text_eqb k0 k'); [reflexivity|exact IH].
Qed.

Lemma d_get_del_same d k : NoDup (map fst d) -> d_get (d_del d k) k = None.
Proof.
  induction d as [|[k0 v0] r IH]; cbn; intros ND; [reflexivity|].
  inversion ND as [|? ? Hn ND']; subst.
  destruct (text_eqb k0 k) eqn:E; cbn.
  - apply text_eqb_eq in E; subst k0.
    clear IH ND ND'. induction r as [|[k1 v1] r IH]; cbn; [reflexivity|].
    destruct (text_eqb k1 k) eqn:E1; [apply text_eqb_eq in E1; subst; exfalso; apply Hn; left; reflexivity|].
    apply IH. intros H; apply Hn; right; exact H.
  - rewrite E. apply IH, ND'.
Qed.

(* a write done by the callback is what every later reader of the dict sees – however the callback ends *)
Theorem cm_last_write_visible body k v r d :
  d_get (after (call_mapper (Some (CB (body ++ [MSet k v]) r)) d)) k = Some v.
Proof.
  rewrite cm_after; cbn. unfold apply_mops. rewrite fold_left_app; cbn. apply d_get_set_same.
Qed.

(* ---- the two deserialising call sites ------------------------------------------------------------------------- *)
(* from_dict reads item["data_id"] AFTER the mapper ran: "mapper may add item['data_id']" *)
Theorem site_from_dict_sees_mapper_id body v r item :
  snd (site_from_dict (Some (CB (body ++ [MSet k_data_id v]) r)) item) = Some v.
Proof. unfold site_from_dict; cbn [snd]. apply cm_last_write_visible. Qed.

(* load reads it BEFORE: whatever the mapper does to the dict cannot change the data_id *)
Theorem site_from_list_ignores_mapper_id fn fn' data :
  snd (site_from_list fn data) = snd (site_from_list fn' data) /\ snd (site_from_list fn data) = d_get data k_data_id.
Proof. split; reflexivity. Qed.

(* both sites use the mapper's value by the same rule *)
Theorem sites_same_value fn d : fst (site_from_dict fn d) = call_mapper fn d /\ fst (site_from_list fn d) = call_mapper fn d.
Proof. split; reflexivity. Qed.

(* ---- non-vacuity ---------------------------------------------------------------------------------------------- *)
Definition falsy_values : list pv :=
  [PInt 0; PStr []; PTuple []; PBool false; PList []; PDict []; POpaque false [48; 46; 48]%Z].

Example ex_falsy_all_used :
  forallb (fun v => negb (truthy v) && negb (is_none v)) falsy_values = true /\
  map (fun v => call_mapper (Some (CB [MSet [107%Z] (PInt 1)] (RVal v))) [([97%Z], PInt 5)]) falsy_values =
  map (fun v => OVal v [([97%Z], PInt 5); ([107%Z], PInt 1)]) falsy_values /\
  map (fun v => call_mapper_or (Some (CB [MSet [107%Z] (PInt 1)] (RVal v))) [([97%Z], PInt 5)]) falsy_values =
  map (fun _ => OData [([97%Z], PInt 5); ([107%Z], PInt 1)]) falsy_values.
Proof. vm_compute. repeat split. Qed.

Example ex_none_uses_mutated :
  call_mapper (Some (CB [MSet [97%Z] (PInt 6); MRename [97%Z] [98%Z]; MSet [99%Z] PNone] RNone)) [([97%Z], PInt 5); ([120%Z], PStr [])] =
  OData [([120%Z], PStr []); ([98%Z], PInt 6); ([99%Z], PNone)].
Proof. reflexivity. Qed.

Example ex_sites_differ :
  snd (site_from_dict (Some (CB [MSet k_data_id (PStr [103%Z])] RNone)) [(k_data_id, PInt 7)]) = Some (PStr [103%Z]) /\
  snd (site_from_list (Some (CB [MSet k_data_id (PStr [103%Z])] RNone)) [(k_data_id, PInt 7)]) = Some (PInt 7).
Proof. split; reflexivity. Qed.
