(* Facts about insertion-ordered dicts and the key/value shortening loops
   (Node._compress_entry, Tree._uncompress_entry) of Serialize.v. *)
From Coq Require Import List ZArith Bool Arith Lia Permutation.
From NT Require Import Sx Rose ListFacts Serialize SerializeSpec.
Import ListNotations.

Notation keys := (map (@fst text jv)).

Lemma text_eqb_neq a b : a <> b -> text_eqb a b = false.
Proof. intros H. destruct (text_eqb a b) eqn:E; [apply text_eqb_eq in E; contradiction|reflexivity]. Qed.

Lemma text_eq_dec (a b : text) : {a = b} + {a <> b}.
Proof. destruct (text_eqb a b) eqn:E; [left; now apply text_eqb_eq|right; intros H; apply text_eqb_eq in H; congruence]. Defined.

(* ------------------------------------------------------------- dget/dset/dpop *)
Lemma dget_app_notin k a b : ~ In k (keys a) -> dget k (a ++ b) = dget k b.
Proof.
  induction a as [|[k' v'] a IH]; cbn; intros H; [reflexivity|].
  rewrite text_eqb_neq by (intros ->; apply H; now left). apply IH. intros Hi; apply H; now right.
Qed.
Lemma dget_head k v b : dget k ((k, v) :: b) = Some v.
Proof. cbn. now rewrite text_eqb_refl. Qed.
Lemma dget_notin k d : ~ In k (keys d) -> dget k d = None.
Proof. intros H. rewrite <- (app_nil_r d). now rewrite dget_app_notin. Qed.
Lemma dget_in k v d : dget k d = Some v -> In (k, v) d.
Proof.
  induction d as [|[k' v'] d IH]; cbn; [discriminate|].
  destruct (text_eqb k k') eqn:E; [apply text_eqb_eq in E; subst; intros [= ->]; now left|intros H; right; auto].
Qed.
Lemma in_dget k v d : NoDup (keys d) -> In (k, v) d -> dget k d = Some v.
Proof.
  induction d as [|[k' v'] d IH]; cbn; intros Hn Hi; [contradiction|].
  inversion Hn as [|x l Hx Hl]; subst. destruct Hi as [[= -> ->]|Hi].
  - now rewrite text_eqb_refl.
  - rewrite text_eqb_neq; [auto|]. intros ->. apply Hx. change k' with (fst (k', v)). now apply in_map.
Qed.

Lemma dpop_app_notin k a b : ~ In k (keys a) -> dpop k (a ++ b) = a ++ dpop k b.
Proof.
  induction a as [|[k' v'] a IH]; cbn; intros H; [reflexivity|].
  rewrite text_eqb_neq by (intros ->; apply H; now left). f_equal. apply IH. intros Hi; apply H; now right.
Qed.
Lemma dpop_head k v b : dpop k ((k, v) :: b) = b.
Proof. cbn. now rewrite text_eqb_refl. Qed.

Lemma dset_app_notin k v a b : ~ In k (keys a) -> dset k v (a ++ b) = a ++ dset k v b.
Proof.
  induction a as [|[k' v'] a IH]; cbn; intros H; [reflexivity|].
  rewrite text_eqb_neq by (intros ->; apply H; now left). f_equal. apply IH. intros Hi; apply H; now right.
Qed.
Lemma dset_head k v v0 b : dset k v ((k, v0) :: b) = (k, v) :: b.
Proof. cbn. now rewrite text_eqb_refl. Qed.
Lemma dset_notin k v d : ~ In k (keys d) -> dset k v d = d ++ [(k, v)].
Proof. intros H. rewrite <- (app_nil_r d) at 1. now rewrite dset_app_notin. Qed.

Lemma dget_perm k d d' : NoDup (keys d) -> Permutation d d' -> dget k d' = dget k d.
Proof.
  intros Hn Hp.
  assert (Hn' : NoDup (keys d')) by (eapply Permutation_NoDup; [apply Permutation_map; exact Hp|exact Hn]).
  destruct (dget k d) as [v|] eqn:E.
  - apply in_dget; [exact Hn'|]. eapply Permutation_in; [exact Hp|]. now apply dget_in.
  - destruct (dget k d') as [v|] eqn:E'; [|reflexivity].
    apply dget_in in E'. apply (Permutation_in _ (Permutation_sym Hp)) in E'.
    apply (in_dget _ _ _ Hn) in E'. congruence.
Qed.

Lemma filter_partition_perm {X} (p : X -> bool) (l : list X) :
  Permutation (filter (fun x => negb (p x)) l ++ filter p l) l.
Proof.
  induction l as [|x l IH]; cbn; [constructor|].
  destruct (p x); cbn.
  - apply Permutation_sym, Permutation_cons_app, Permutation_sym, IH.
  - now constructor.
Qed.

(* ------------------------------------------------------------- the remap loop *)
Section Remap.
  Variable ren : text -> option text.
  Variable conv : text -> text -> jv -> res (option jv).

  Definition nk (k : text) : text := match ren k with Some s => s | None => k end.
  Definition nv (k : text) (v : jv) : jv := match conv k (nk k) v with Ok (Some v') => v' | _ => v end.
  Definition rf (kv : text * jv) : text * jv := (nk (fst kv), nv (fst kv) (snd kv)).
  Definition rmapped (kv : text * jv) : bool := match ren (fst kv) with Some _ => true | None => false end.
  Definition RU (p : dict) : dict := map rf (filter (fun kv => negb (rmapped kv)) p).
  Definition RM (p : dict) : dict := map rf (filter rmapped p).

  Definition remap_ok (d : dict) : Prop :=
    NoDup (keys d) /\
    (forall k v, In (k, v) d -> exists o, conv k (nk k) v = Ok o) /\
    (forall k s, In k (keys d) -> ren k = Some s -> ~ In s (keys d)) /\
    (forall k1 k2 s, In k1 (keys d) -> In k2 (keys d) -> ren k1 = Some s -> ren k2 = Some s -> k1 = k2).

  Lemma keys_RU p x : In x (keys (RU p)) -> In x (keys p) /\ ren x = None.
  Proof.
    unfold RU. rewrite map_map. intros H. apply in_map_iff in H as ([k v] & E & Hi).
    apply filter_In in Hi as [Hi Hm]. cbn in E. unfold rmapped in Hm. cbn in Hm.
    unfold nk in E. destruct (ren k) eqn:Er; [discriminate|]. subst x. split; [|exact Er].
    change k with (fst (k, v)). now apply in_map.
  Qed.
  Lemma keys_RM p x : In x (keys (RM p)) -> exists k, In k (keys p) /\ ren k = Some x.
  Proof.
    unfold RM. rewrite map_map. intros H. apply in_map_iff in H as ([k v] & E & Hi).
    apply filter_In in Hi as [Hi Hm]. cbn in E. unfold rmapped in Hm. cbn in Hm.
    unfold nk in E. destruct (ren k) eqn:Er; [|discriminate]. subst x. exists k. split; [|exact Er].
    change k with (fst (k, v)). now apply in_map.
  Qed.

  Lemma RU_snoc_mapped p k v s : ren k = Some s -> RU (p ++ [(k, v)]) = RU p.
  Proof. intros E. unfold RU. rewrite filter_app. cbn. unfold rmapped. cbn. rewrite E. cbn. now rewrite app_nil_r. Qed.
  Lemma RM_snoc_mapped p k v s : ren k = Some s -> RM (p ++ [(k, v)]) = RM p ++ [rf (k, v)].
  Proof. intros E. unfold RM. rewrite filter_app. cbn. unfold rmapped. cbn. rewrite E. now rewrite map_app. Qed.
  Lemma RU_snoc_unmapped p k v : ren k = None -> RU (p ++ [(k, v)]) = RU p ++ [rf (k, v)].
  Proof. intros E. unfold RU. rewrite filter_app. cbn. unfold rmapped. cbn. rewrite E. cbn. now rewrite map_app. Qed.
  Lemma RM_snoc_unmapped p k v : ren k = None -> RM (p ++ [(k, v)]) = RM p.
  Proof. intros E. unfold RM. rewrite filter_app. cbn. unfold rmapped. cbn. rewrite E. cbn. now rewrite app_nil_r. Qed.

  Lemma remap_fold d : remap_ok d -> forall s p, d = p ++ s ->
    fold_left (remap_step ren conv) s (Ok (RU p ++ s ++ RM p)) = Ok (RU d ++ RM d).
  Proof.
    intros (Hnd & Hconv & Hfresh & Hinj). induction s as [|[k v] s' IH]; intros p E.
    - rewrite app_nil_r in E. subst p. reflexivity.
    - assert (E' : d = (p ++ [(k, v)]) ++ s') by (rewrite E; la).
      cbn [fold_left]. rewrite <- (IH (p ++ [(k, v)]) E'). f_equal.
      (* facts from NoDup *)
      assert (Hkd : In k (keys d)) by (rewrite E, map_app; apply in_or_app; right; now left).
      assert (Hnp : ~ In k (keys p) /\ ~ In k (keys s')).
      { rewrite E, map_app in Hnd. cbn in Hnd. split.
        - intros Hi. eapply NoDup_app_disj; [exact Hnd|exact Hi|now left].
        - apply NoDup_app_r in Hnd. now inversion Hnd. }
      destruct Hnp as [Hnp Hns].
      assert (HkU : ~ In k (keys (RU p))) by (intros Hi; apply keys_RU in Hi as [Hi _]; contradiction).
      destruct (Hconv k v) as [o Ho]; [rewrite E; apply in_or_app; right; now left|].
      change (((k, v) :: s') ++ RM p) with ((k, v) :: s' ++ RM p).
      unfold remap_step. cbn [fst snd]. destruct (ren k) as [sk|] eqn:Er; cbn [fst snd].
      + assert (Enk : nk k = sk) by (unfold nk; now rewrite Er).
        rewrite Enk in Ho.
        rewrite dget_app_notin by exact HkU. rewrite dget_head.
        rewrite dpop_app_notin by exact HkU. rewrite dpop_head.
        assert (Hsk : ~ In sk (keys (RU p ++ s' ++ RM p))).
        { rewrite !map_app. intros Hi. apply in_app_or in Hi as [Hi|Hi]; [|apply in_app_or in Hi as [Hi|Hi]].
          - apply keys_RU in Hi as [Hi _]. apply (Hfresh k sk Hkd Er). rewrite E, map_app. apply in_or_app. now left.
          - apply (Hfresh k sk Hkd Er). rewrite E, map_app. apply in_or_app. right. now right.
          - apply keys_RM in Hi as (k2 & Hk2 & Er2).
            assert (k = k2) as <-.
            { apply (Hinj k k2 sk Hkd); [rewrite E, map_app; apply in_or_app; now left|exact Er|exact Er2]. }
            contradiction. }
        rewrite (dset_notin sk v _ Hsk). rewrite Ho.
        rewrite (RU_snoc_mapped p k v sk Er), (RM_snoc_mapped p k v sk Er).
        unfold rf, nv. cbn [fst snd]. rewrite Enk, Ho.
        destruct o as [v'|].
        * rewrite (dset_app_notin sk v' _ _ Hsk). rewrite dset_head. f_equal. la.
        * f_equal. la.
      + assert (Enk : nk k = k) by (unfold nk; now rewrite Er).
        rewrite Enk in Ho. rewrite Ho.
        rewrite (RU_snoc_unmapped p k v Er), (RM_snoc_unmapped p k v Er).
        unfold rf, nv. cbn [fst snd]. rewrite Enk, Ho.
        destruct o as [v'|].
        * rewrite (dset_app_notin k v' _ _ HkU). cbn [app]. rewrite dset_head. f_equal. la.
        * f_equal. la.
  Qed.

  Lemma remap_dict_ok d : remap_ok d -> remap_dict ren conv d = Ok (RU d ++ RM d).
  Proof.
    intros H. unfold remap_dict. pose proof (remap_fold d H d [] eq_refl) as F.
    cbn in F. rewrite app_nil_r in F. exact F.
  Qed.
End Remap.
