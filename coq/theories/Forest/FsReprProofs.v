(* C19 (surrounding code) -- facts about the model of FileSystemEntry.__repr__ (FsRepr.v):
   the calendar conversion used for the mtime is the inverse of the day count and always
   yields a valid Gregorian date; the ',' format only inserts commas, one after every
   third digit from the right; the repr of a folder determines its name. *)
From Coq Require Import List ZArith Bool Lia.
From NT Require Import Sx Rose FsLoad FsRepr.
Import ListNotations.
Open Scope Z_scope.

(* ---- proleptic Gregorian calendar ---- *)
Definition days_from_civil (y m d : Z) : Z :=
  let y' := if m <=? 2 then y - 1 else y in
  let era := y' / 400 in
  let yoe := y' - era * 400 in
  let doy := (153 * (if 2 <? m then m - 3 else m + 9) + 2) / 5 + d - 1 in
  let doe := yoe * 365 + yoe / 4 - yoe / 100 + doy in
  era * 146097 + doe - 719468.

Lemma days_civil_inverse z : let '(y, m, d) := civil_from_days z in days_from_civil y m d = z.
Proof.
  unfold civil_from_days, days_from_civil.
  set (zz := z + 719468). set (era := zz / 146097). set (doe := zz - era * 146097).
  assert (Hdoe : 0 <= doe <= 146096) by (subst doe era; Z.div_mod_to_equations; lia).
  assert (Hz : z = era * 146097 + doe - 719468) by (subst doe zz; lia).
  clearbody doe era. clear zz. subst z.
  set (yoe := (doe - doe / 1460 + doe / 36524 - doe / 146096) / 365).
  assert (Hyoe : 0 <= yoe <= 399) by (subst yoe; Z.div_mod_to_equations; lia).
  set (doy := doe - (365 * yoe + yoe / 4 - yoe / 100)).
  assert (Hdoy : 0 <= doy <= 365) by (subst doy yoe; Z.div_mod_to_equations; lia).
  assert (Hd : doe = yoe * 365 + yoe / 4 - yoe / 100 + doy) by (subst doy; lia).
  clearbody doy. clearbody yoe.
  set (mp := (5 * doy + 2) / 153).
  assert (Hmp : 0 <= mp <= 11) by (subst mp; Z.div_mod_to_equations; lia).
  destruct (mp <? 10) eqn:E; [apply Z.ltb_lt in E|apply Z.ltb_ge in E].
  - replace (mp + 3 <=? 2) with false by (symmetry; apply Z.leb_gt; lia).
    replace (2 <? mp + 3) with true by (symmetry; apply Z.ltb_lt; lia).
    replace (yoe + era * 400 + 0) with (yoe + era * 400) by lia.
    assert (Ey : (yoe + era * 400) / 400 = era) by (Z.div_mod_to_equations; lia).
    rewrite Ey. replace (mp + 3 - 3) with mp by lia.
    assert (Edoy : (153 * mp + 2) / 5 + (doy - (153 * mp + 2) / 5 + 1) - 1 = doy) by lia.
    rewrite Edoy. replace (yoe + era * 400 - era * 400) with yoe by lia. lia.
  - replace (mp - 9 <=? 2) with true by (symmetry; apply Z.leb_le; lia).
    replace (2 <? mp - 9) with false by (symmetry; apply Z.ltb_ge; lia).
    replace (yoe + era * 400 + 1 - 1) with (yoe + era * 400) by lia.
    assert (Ey : (yoe + era * 400) / 400 = era) by (Z.div_mod_to_equations; lia).
    rewrite Ey. replace (mp - 9 + 9) with mp by lia.
    assert (Edoy : (153 * mp + 2) / 5 + (doy - (153 * mp + 2) / 5 + 1) - 1 = doy) by lia.
    rewrite Edoy. replace (yoe + era * 400 - era * 400) with yoe by lia. lia.
Qed.

Definition leap (y : Z) : bool := (y mod 4 =? 0) && (negb (y mod 100 =? 0) || (y mod 400 =? 0)).
Definition month_len (y m : Z) : Z :=
  if m =? 2 then (if leap y then 29 else 28)
  else if (m =? 4) || (m =? 6) || (m =? 9) || (m =? 11) then 30 else 31.

Lemma civil_valid z : let '(y, m, d) := civil_from_days z in 1 <= m <= 12 /\ 1 <= d <= month_len y m.
Proof.
  unfold civil_from_days.
  set (zz := z + 719468). set (era := zz / 146097). set (doe := zz - era * 146097).
  assert (Hdoe : 0 <= doe <= 146096) by (subst doe era; Z.div_mod_to_equations; lia).
  clearbody doe era. clear zz.
  set (yoe := (doe - doe / 1460 + doe / 36524 - doe / 146096) / 365).
  assert (Hyoe : 0 <= yoe <= 399) by (subst yoe; Z.div_mod_to_equations; lia).
  set (doy := doe - (365 * yoe + yoe / 4 - yoe / 100)).
  assert (Hdoy : 0 <= doy <= 365) by (subst doy yoe; Z.div_mod_to_equations; lia).
  (* day 365 of the shifted year exists only if the following February has 29 days *)
  assert (Hleap : doy = 365 -> leap (yoe + 1 + era * 400) = true).
  { intros H365. unfold leap.
    assert (E4 : (yoe + 1 + era * 400) mod 4 = (yoe + 1) mod 4) by (Z.div_mod_to_equations; lia).
    assert (E100 : (yoe + 1 + era * 400) mod 100 = (yoe + 1) mod 100) by (Z.div_mod_to_equations; lia).
    assert (E400 : (yoe + 1 + era * 400) mod 400 = (yoe + 1) mod 400) by (Z.div_mod_to_equations; lia).
    rewrite E4, E100, E400.
    assert (K : (yoe + 1) mod 4 = 0 /\ ((yoe + 1) mod 100 <> 0 \/ (yoe + 1) mod 400 = 0)).
    { subst doy yoe. Z.div_mod_to_equations. lia. }
    destruct K as [K4 K]. rewrite K4. cbn.
    destruct K as [K|K]; [apply Z.eqb_neq in K; rewrite K; reflexivity|rewrite K; cbn; apply orb_true_r]. }
  clearbody doy. clearbody yoe.
  set (mp := (5 * doy + 2) / 153).
  assert (Hmp : 0 <= mp <= 11) by (subst mp; Z.div_mod_to_equations; lia).
  unfold month_len.
  destruct (mp <? 10) eqn:E; [apply Z.ltb_lt in E|apply Z.ltb_ge in E].
  - split; [lia|].
    replace (mp + 3 =? 2) with false by (symmetry; apply Z.eqb_neq; lia).
    assert (C : mp = 0 \/ mp = 1 \/ mp = 2 \/ mp = 3 \/ mp = 4 \/ mp = 5 \/ mp = 6 \/ mp = 7 \/ mp = 8 \/ mp = 9) by lia.
    destruct C as [C|[C|[C|[C|[C|[C|[C|[C|[C|C]]]]]]]]]; rewrite C; cbn; subst mp; Z.div_mod_to_equations; lia.
  - split; [lia|].
    assert (C : mp = 10 \/ mp = 11) by lia.
    destruct C as [C|C]; rewrite C; cbn [Z.sub Z.eqb Z.leb Z.compare Pos.compare Pos.compare_cont Z.opp Z.add Z.pos_sub Pos.pred_double orb]; cbn.
    + subst mp; Z.div_mod_to_equations; lia.
    + destruct (leap (yoe + era * 400 + 1)) eqn:L.
      * subst mp; Z.div_mod_to_equations; lia.
      * assert (doy <> 365) by (intros H; apply Hleap in H; replace (yoe + 1 + era * 400) with (yoe + era * 400 + 1) in H by lia; congruence).
        subst mp; Z.div_mod_to_equations; lia.
Qed.

Lemma civil_spec z :
  let '(y, m, d) := civil_from_days z in
  1 <= m <= 12 /\ 1 <= d <= month_len y m /\ days_from_civil y m d = z.
Proof.
  pose proof (civil_valid z) as V. pose proof (days_civil_inverse z) as I.
  destruct (civil_from_days z) as [[y m] d]. tauto.
Qed.

(* ---- format(int, ",") ---- *)
Definition not_comma (c : Z) : bool := negb (c =? 44).

Lemma uint_digits_range u : Forall (fun d => 0 <= d <= 9) (uint_digits u).
Proof. induction u; cbn; constructor; try lia; assumption. Qed.

Lemma dec_text_no_comma z : Forall (fun c => not_comma c = true) (dec_text z).
Proof.
  unfold dec_text. apply Forall_forall. intros c Hc. apply in_map_iff in Hc as (d & <- & Hd).
  assert (R : 0 <= d <= 9).
  { destruct z; cbn in Hd.
    - destruct Hd as [<-|[]]; lia.
    - pose proof (uint_digits_range (Pos.to_uint p)) as F. rewrite Forall_forall in F. apply F; exact Hd.
    - pose proof (uint_digits_range (Pos.to_uint p)) as F. rewrite Forall_forall in F. apply F; exact Hd. }
  unfold not_comma. apply negb_true_iff, Z.eqb_neq. lia.
Qed.

Lemma group3_filter l : forall k, Forall (fun c => not_comma c = true) l -> filter not_comma (group3 k l) = l.
Proof.
  induction l as [|x r IH]; intros k H; [reflexivity|].
  inversion H as [|x' r' Hx Hr]; subst. destruct k; cbn; rewrite Hx, IH by exact Hr; reflexivity.
Qed.

Lemma filter_rev' {X} (f : X -> bool) l : filter f (rev l) = rev (filter f l).
Proof.
  induction l as [|x l IH]; [reflexivity|]. cbn. rewrite filter_app, IH. cbn.
  destruct (f x); [reflexivity|apply app_nil_r].
Qed.

(* removing the commas gives back sign and decimal digits *)
Theorem fmt_thousands_digits z :
  filter not_comma (fmt_thousands z) = (if z <? 0 then [45] else []) ++ dec_text z.
Proof.
  unfold fmt_thousands. rewrite filter_app. f_equal.
  - destruct (z <? 0); reflexivity.
  - rewrite filter_rev', group3_filter, rev_involutive; [reflexivity|].
    apply Forall_rev. apply dec_text_no_comma.
Qed.

(* a comma after every third digit from the right, and nowhere else *)
Theorem group3_step a b c r : r <> [] -> group3 3 (a :: b :: c :: r) = a :: b :: c :: 44 :: group3 3 r.
Proof. destruct r as [|x r']; [congruence|reflexivity]. Qed.

Theorem group3_short l : (length l <= 3)%nat -> group3 3 l = l.
Proof. destruct l as [|a [|b [|c [|d r]]]]; cbn; intros H; try reflexivity. lia. Qed.

(* ---- folders: "[name]" ---- *)
Theorem repr_dir p n : repr_entry p (entry_dir n) = Some ([91] ++ n ++ [93]).
Proof. reflexivity. Qed.

Theorem repr_dir_injective p a b : repr_entry p (entry_dir a) = repr_entry p (entry_dir b) -> a = b.
Proof.
  rewrite !repr_dir. intros H. injection H as H. apply app_inv_tail in H. exact H.
Qed.
