(* Theorems about the file writers (model: MiscWriters.v). *)
From Coq Require Import List ZArith Bool Lia.
From NT Require Import Sx Rose Export ExportProofs MiscWriters.
Import ListNotations.

(* ---- lines <-> text ------------------------------------------------------------------------------------------------- *)
Definition no_nl (l : text) : Prop := ~ In 10%Z l.

Lemma split_nl_line cur l r : no_nl l -> split_nl cur (l ++ 10%Z :: r) = (rev cur ++ l) :: split_nl [] r.
Proof.
  revert cur. induction l as [|c l IH]; intros cur N; cbn.
  - rewrite app_nil_r. reflexivity.
  - destruct (Z.eqb c 10) eqn:E; [apply Z.eqb_eq in E; subst; exfalso; apply N; left; reflexivity|].
    rewrite IH by (intros H; apply N; right; exact H). cbn. rewrite <- app_assoc. reflexivity.
Qed.

(* the text determines the lines: nothing is lost or merged by the writer *)
Theorem lines_text_decodes ls : Forall no_nl ls -> split_nl [] (lines_text ls) = ls.
Proof.
  induction 1 as [|l ls Hl _ IH]; [reflexivity|]. unfold lines_text in *. cbn [flat_map].
  rewrite <- app_assoc. cbn [app]. rewrite split_nl_line by exact Hl. cbn. rewrite IH. reflexivity.
Qed.

Corollary lines_text_injective a b : Forall no_nl a -> Forall no_nl b -> lines_text a = lines_text b -> a = b.
Proof. intros Ha Hb E. rewrite <- (lines_text_decodes a Ha), <- (lines_text_decodes b Hb), E. reflexivity. Qed.

(* ---- to_dotfile -------------------------------------------------------------------------------------------------------- *)
Theorem dotfile_cases doc :
  dotfile_write doc TStream false = WStream (lines_text doc) /\
  dotfile_write doc TStream true = WRefused /\
  dotfile_write doc TPath false = WFile false (lines_text doc) /\
  dotfile_write doc TPath true = WFile true (lines_text doc).
Proof. repeat split. Qed.

(* ---- the Mermaid generator ----------------------------------------------------------------------------------------------- *)
Lemma emit_oseq l : forall ls, oseq l = Some ls <-> emit l = (ls, true).
Proof.
  induction l as [|[x|] r IH]; intros ls; cbn.
  - split; intros H; injection H as <-; reflexivity.
  - destruct (oseq r) as [a|] eqn:E; destruct (emit r) as [a' ok] eqn:E'; cbn.
    + pose proof (proj1 (IH a) eq_refl) as X. injection X as -> ->.
      split; intros H; injection H as <-; reflexivity.
    + split; [discriminate|]. intros H. injection H as <- ->.
      pose proof (proj2 (IH a') eq_refl) as X. discriminate X.
  - split; discriminate.
Qed.

Lemma oseq_app {X} (a b : list (option X)) :
  oseq (a ++ b) = match oseq a, oseq b with Some x, Some y => Some (x ++ y) | _, _ => None end.
Proof.
  induction a as [|[x|] a IH]; cbn.
  - destruct (oseq b); reflexivity.
  - rewrite IH. destruct (oseq a), (oseq b); reflexivity.
  - reflexivity.
Qed.

Lemma oseq_somes {X} (l : list X) : oseq (map Some l) = Some l.
Proof. induction l as [|x l IH]; cbn; [reflexivity|]. rewrite IH. reflexivity. Qed.

(* the event stream run to its end is the chart of Export.v *)
Theorem chart_events_chart o s : oseq (chart_events o s) = mer_chart o s.
Proof.
  unfold chart_events, mer_chart. rewrite !oseq_app, !oseq_somes. cbn [oseq option_map].
  destruct (oseq (mer_node_lines o s)) as [ns|]; [|reflexivity].
  destruct (oseq (mer_edge_lines o s)) as [es|]; [|reflexivity]. cbn. reflexivity.
Qed.

(* no mapper fails: the whole chart is written, every line followed by a newline *)
Theorem mermaid_write_complete o s ls : mer_chart o s = Some ls ->
  mermaid_write o s TStream false = WStream (lines_text ls) /\ mermaid_write o s TPath false = WFile false (lines_text ls).
Proof.
  intros H. rewrite <- chart_events_chart in H. apply emit_oseq in H.
  unfold mermaid_write. rewrite H. split; reflexivity.
Qed.

(* a failing mapper: the stream holds exactly the lines before the first failing one *)
Lemma emit_prefix l : forall ls, emit l = (ls, false) ->
  exists k, nth_error l k = Some None /\ map Some ls = firstn k l.
Proof.
  induction l as [|[x|] r IH]; intros ls; cbn.
  - discriminate.
  - destruct (emit r) as [a ok] eqn:E. intros H. injection H as <- ->.
    destruct (IH a eq_refl) as (k & Hk & Hp). exists (S k). split; [exact Hk|]. cbn. rewrite Hp. reflexivity.
  - intros H. injection H as <-. exists 0. split; reflexivity.
Qed.

Theorem mermaid_write_broken o s : mer_chart o s = None ->
  exists ls k, mermaid_write o s TStream false = WBroken TStream false (lines_text ls) /\
               nth_error (chart_events o s) k = Some None /\ map Some ls = firstn k (chart_events o s).
Proof.
  intros H. rewrite <- chart_events_chart in H. unfold mermaid_write.
  destruct (emit (chart_events o s)) as [ls ok] eqn:E. destruct ok.
  - apply emit_oseq in E. congruence.
  - destruct (emit_prefix _ _ E) as (k & Hk & Hp). exists ls, k. repeat split; assumption.
Qed.

(* format=...: a stream is refused before anything is generated; a path gets the chart WITHOUT the markdown fence *)
Theorem mermaid_write_format o s :
  mermaid_write o s TStream true = WRefused /\
  mermaid_write o s TPath true = mermaid_write (no_markdown o) s TPath true /\
  (forall ls, mer_chart (no_markdown o) s = Some ls -> mermaid_write o s TPath true = WFile true (lines_text ls)).
Proof.
  unfold mermaid_write. split; [|split].
  - destruct (emit (chart_events (no_markdown o) s)); reflexivity.
  - reflexivity.
  - intros ls H. rewrite <- chart_events_chart in H. apply emit_oseq in H. rewrite H. reflexivity.
Qed.
