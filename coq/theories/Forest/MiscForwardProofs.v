(* Theorems about attribute forwarding (model: MiscForward.v). *)
From Coq Require Import List ZArith Bool.
From NT Require Import Sx Rose MiscMapper MiscMapperProofs MiscForward.
Import ListNotations.

Lemma mem_text_In n l : mem_text n l = true <-> In n l.
Proof.
  unfold mem_text. rewrite existsb_exists. split.
  - intros (x & Hx & E). apply text_eqb_eq in E. subst. exact Hx.
  - intros H. exists n. split; [exact H|apply text_eqb_refl].
Qed.

(* a name of the node's own data model is never forwarded – whatever the data object has under that name *)
Theorem own_names_shadow own tf attrs name : In name own -> node_getattr own tf attrs name = GOwn.
Proof. intros H. unfold node_getattr. apply mem_text_In in H. rewrite H. reflexivity. Qed.

(* forwarded exactly when: not a native name, the node has a tree with forward_attrs on, and the data object has the attribute *)
Theorem forwarded_iff own tf attrs name v :
  node_getattr own tf attrs name = GData v <-> ~ In name own /\ tf = Some true /\ d_get attrs name = Some v.
Proof.
  unfold node_getattr. destruct (mem_text name own) eqn:M.
  - split; [discriminate|]. intros (N & _). exfalso. apply N, mem_text_In, M.
  - assert (N : ~ In name own) by (intros H; apply mem_text_In in H; congruence).
    destruct tf as [[|]|]; [|split; [discriminate|intros (_ & E & _); discriminate]|split; [discriminate|intros (_ & E & _); discriminate]].
    destruct (d_get attrs name) as [w|]; split.
    + intros E. injection E as ->. repeat split; assumption || reflexivity.
    + intros (_ & _ & E). injection E as ->. reflexivity.
    + discriminate.
    + intros (_ & _ & E). discriminate.
Qed.

(* without forward_attrs (the default), and on a node without a tree, nothing is ever forwarded *)
Theorem no_forwarding own tf attrs name : tf <> Some true -> node_getattr own tf attrs name = GOwn \/ node_getattr own tf attrs name = GAttrErr.
Proof.
  intros H. unfold node_getattr. destruct (mem_text name own); [left; reflexivity|right].
  destruct tf as [[|]|]; [congruence|reflexivity|reflexivity].
Qed.

(* forwarding is read-only by construction: it only answers lookups; and it sees the data object's CURRENT attributes *)
Theorem forwarding_sees_updates own attrs name v :
  ~ In name own -> node_getattr own (Some true) (d_set attrs name v) name = GData v.
Proof. intros N. apply forwarded_iff. repeat split; [exact N|]. apply MiscMapperProofs.d_get_set_same. Qed.
