(* C09 — executable model of the searches and of index access.
     node.py:1147-1250  Node._iter_pre / iterator / _search / find_all / find_first
     tree.py:120-176    Tree.__contains__ / __delitem__ (read side) / __getitem__
     tree.py:451-512    Tree.find_all / find_first
   as repaired by fixes/D26.diff (slice direction, no live list), fixes/D27.diff
   (limit on the data/data_id path of Node.find_all) and fixes/D46.diff
   (`is not None` instead of truthiness for data / data_id in Node.find_all).
   No proofs here.

   The clone index [_nodes_by_data_id] and the registry [_node_by_id] are
   explicit, insertion-ordered state ([t_idx], [t_reg]); they are NOT derived
   from the forest.  A compiled regular expression is a predicate of the node
   name ([MsRe m], [m : text -> bool]); a callback is a predicate of the node. *)
From Coq Require Import List ZArith Bool Arith.
From NT Require Import Sx Rose.
Import ListNotations.

(* error classes, as harness/common.py err_class *)
Definition EAmbiguous := 2.
Definition EValue := 3.
Definition EKey := 4.
Definition ENotImpl := 5.
Definition EAssert := 6.
Definition EType := 7.
Definition EModel := 99.   (* the query names a start node that does not exist: not a public call *)

Inductive res (X : Type) : Type := Ok (x : X) | Err (e : nat).
Arguments Ok {X} x.
Arguments Err {X} e.

(* ---- traversal ------------------------------------------------------- *)
(* Node._iter_pre:  for c in children: yield c; yield from c._iter_pre() *)
Fixpoint iter_pre (t : rt) : list rt :=
  match t with T _ _ ch => flat_map (fun c => c :: iter_pre c) ch end.
(* the same loop over a child list (the system root's children are the forest) *)
Definition iter_pre_ch (ch : list rt) : list rt := flat_map (fun c => c :: iter_pre c) ch.

(* the node a search starts from: the tree's system root or a real node *)
Inductive start := SRoot | SNode (t : rt).

(* Node.iterator(PRE_ORDER, add_self).  The system root is only ever iterated
   with add_self=False (Tree.find_all / find_first do not pass it). *)
Definition iterator (f : forest) (s : start) (add_self : bool) : list rt :=
  match s with
  | SRoot => iter_pre_ch f
  | SNode t => (if add_self then [t] else []) ++ iter_pre t
  end.

(* ---- matching -------------------------------------------------------- *)
(* the [match] argument of Node._search after its isinstance dispatch *)
Inductive matchspec :=
| MsRe (m : text -> bool)      (* str or (str, flags): pattern.fullmatch(node.name) *)
| MsPred (p : rt -> bool)      (* callable(match) *)
| MsIs (o : Z).                (* anything else: node._data is match *)

Definition cb_match (ms : matchspec) (n : rt) : bool :=
  match ms with
  | MsRe m => m (i_name (rinfo n))
  | MsPred p => p n
  | MsIs o => Z.eqb (i_obj (rinfo n)) o
  end.

(* identity of the object None (no node of a generated tree carries it) *)
Definition obj_None : Z := (-1)%Z.

(* the loop of Node._search:
     count = 0
     for node in it: if not cb(node): continue
                     count += 1; yield node
                     if max_results and count >= max_results: break
   max_results: 0 stands for None/0 (both falsy). *)
Fixpoint search_loop (cb : rt -> bool) (k count : nat) (it : list rt) : list rt :=
  match it with
  | [] => []
  | n :: rest =>
      if cb n then
        n :: (if negb (Nat.eqb k 0) && Nat.leb k (S count) then [] else search_loop cb k (S count) rest)
      else search_loop cb k count rest
  end.

(* res[:max_results] if max_results else res *)
Definition py_limit {X} (k : nat) (l : list X) : list X :=
  if Nat.eqb k 0 then l else firstn k l.

Definition did_is (d : did) (n : rt) : bool := did_eqb (rdid n) d.

(* "if data is not None: assert data_id is None; data_id = calc_data_id(data)".
   [data] is None or Some (calc_data_id data), computed by the caller. *)
Definition merge_data (data data_id : option did) : res (option did) :=
  match data with
  | Some c => match data_id with None => Ok (Some c) | Some _ => Err EAssert end
  | None => Ok data_id
  end.

(* Node.find_all(data, match=, data_id=, add_self=, max_results=);
   [it b] is self.iterator(add_self=b) *)
Definition node_find_all (it : bool -> list rt) (data : option did) (mt : option matchspec)
           (data_id : option did) (add_self : bool) (k : nat) : res (list rt) :=
  match merge_data data data_id with
  | Err e => Err e
  | Ok (Some d) =>
      match mt with
      | Some _ => Err EAssert
      | None => Ok (py_limit k (filter (did_is d) (it add_self)))
      end
  | Ok None =>
      let ms := match mt with Some ms => ms | None => MsIs obj_None end in
      Ok (search_loop (cb_match ms) k 0 (it add_self))
  end.

(* Node.find_first(data, match=, data_id=) *)
Definition node_find_first (it : bool -> list rt) (data : option did) (mt : option matchspec)
           (data_id : option did) : res (option rt) :=
  match node_find_all it data mt data_id false 1 with
  | Err e => Err e
  | Ok r => Ok (hd_error r)
  end.

(* ---- tree state ------------------------------------------------------ *)
Record tstate := TS {
  t_forest : forest;
  t_reg : list (Z * nat);            (* _node_by_id: node_id -> node *)
  t_idx : list (did * list nat)      (* _nodes_by_data_id: data_id -> clones *)
}.

Definition reg_get (z : Z) (r : list (Z * nat)) : option nat :=
  option_map snd (find (fun e => Z.eqb (fst e) z) r).
Definition idx_get (d : did) (ix : list (did * list nat)) : option (list nat) :=
  option_map snd (find (fun e => did_eqb (fst e) d) ix).
Definition idx_has (d : did) (ix : list (did * list nat)) : bool :=
  match idx_get d ix with Some _ => true | None => false end.

Definition res_map {X Y} (g : X -> Y) (r : res X) : res Y :=
  match r with Ok x => Ok (g x) | Err e => Err e end.

(* Tree.find_all(data, match=, data_id=, max_results=) *)
Definition tree_find_all (st : tstate) (data : option did) (mt : option matchspec)
           (data_id : option did) (k : nat) : res (list nat) :=
  match merge_data data data_id with
  | Err e => Err e
  | Ok (Some d) =>
      match mt with
      | Some _ => Err EAssert
      | None =>
          match idx_get d (t_idx st) with
          | Some (x :: g) => Ok (py_limit k (x :: g))
          | _ => Ok []
          end
      end
  | Ok None =>
      match mt with
      | Some ms => res_map (map rid)
                     (node_find_all (iterator (t_forest st) SRoot) None (Some ms) None false k)
      | None => Err ENotImpl
      end
  end.

(* Tree.find_first(data, match=, data_id=, node_id=) *)
Definition tree_find_first (st : tstate) (data : option did) (mt : option matchspec)
           (data_id : option did) (node_id : option Z) : res (option nat) :=
  match merge_data data data_id with
  | Err e => Err e
  | Ok (Some d) =>
      match mt, node_id with
      | None, None =>
          match idx_get d (t_idx st) with
          | Some (x :: _) => Ok (Some x)
          | _ => Ok None
          end
      | _, _ => Err EAssert
      end
  | Ok None =>
      match mt with
      | Some ms =>
          match node_id with
          | Some _ => Err EAssert
          | None => res_map (option_map rid)
                      (node_find_first (iterator (t_forest st) SRoot) None (Some ms) None)
          end
      | None =>
          match node_id with
          | Some z => Ok (reg_get z (t_reg st))
          | None => Err ENotImpl
          end
      end
  end.

(* ---- index access ---------------------------------------------------- *)
(* what Tree.__getitem__ / __contains__ read from a key object *)
Inductive key :=
| KNode (calc : option did)     (* a Node instance; calc_data_id(node): None = TypeError (unhashable) *)
| KNone                         (* the object None *)
| KInt (z : Z) (calc : did)     (* isinstance(key, int) *)
| KStr (s : text) (calc : did)  (* isinstance(key, str) *)
| KObj (calc : did).            (* any other hashable object *)

Definition key_calc (k : key) : option did :=
  match k with
  | KNode c => c
  | KNone => None
  | KInt _ c | KStr _ c | KObj c => Some c
  end.
Definition key_as_did (k : key) : option did :=
  match k with
  | KInt z _ => Some (DInt z)
  | KStr s _ => Some (DStr s)
  | _ => None
  end.
Definition key_as_node_id (k : key) : option Z :=
  match k with KInt z _ => Some z | _ => None end.

(* Tree.__getitem__ *)
Definition getitem (st : tstate) (k : key) : res nat :=
  match k with
  | KNode _ => Err EValue
  | _ =>
      match (match key_as_node_id k with Some z => reg_get z (t_reg st) | None => None end) with
      | Some n => Ok n
      | None =>
          let by_did :=
            match key_as_did k with
            | Some d => if idx_has d (t_idx st) then Some d else None
            | None => None
            end in
          let r := match by_did with
                   | Some d => tree_find_all st None None (Some d) 0
                   | None => tree_find_all st (key_calc k) None None 0
                   end in
          match r with
          | Err e => Err e
          | Ok [] => Err EKey
          | Ok [n] => Ok n
          | Ok _ => Err EAmbiguous
          end
      end
  end.

(* Tree.__contains__: bool(self.find_first(data)); a Node is always truthy *)
Definition contains (st : tstate) (k : key) : res bool :=
  match k with
  | KNode None => Err EType
  | _ => res_map (fun o => match o with Some _ => true | None => false end)
           (tree_find_first st (key_calc k) None None None)
  end.

(* Tree.__delitem__, read side: self[data].remove() — the identities that
   leave the tree are those of the resolved node's branch *)
Definition delitem (st : tstate) (k : key) : res (list nat) :=
  match getitem st k with
  | Err e => Err e
  | Ok n => match find_node n (t_forest st) with
            | Some t => Ok (ids_t t)
            | None => Err EModel
            end
  end.

(* ---- clone queries through the index (node.py:413-418, 481-483) ---------- *)
(* Node.is_clone: len(self._tree._nodes_by_data_id.get(self._data_id)) > 1;
   a missing group makes len(None) raise TypeError *)
Definition node_is_clone (st : tstate) (n : rt) : res bool :=
  match idx_get (rdid n) (t_idx st) with
  | Some g => Ok (Nat.ltb 1 (length g))
  | None => Err EType
  end.

(* Node.get_clones(add_self): the group, or [c for c in group if c is not self];
   a missing group is a KeyError *)
Definition node_get_clones (st : tstate) (n : rt) (add_self : bool) : res (list nat) :=
  match idx_get (rdid n) (t_idx st) with
  | Some g => Ok (if add_self then g else filter (fun x => negb (Nat.eqb x (rid n))) g)
  | None => Err EKey
  end.

(* ---- start node resolution (used by the case runner) ------------------ *)
Definition start_of (f : forest) (n : nat) : option start :=
  if Nat.eqb n 0 then Some SRoot else option_map SNode (find_node n f).
