(* C06 — the order relation of every ordered method, stated on Node.iterator /
   Tree.iterator, and the link between the [meth] type and the source's names. *)
From Coq Require Import List ZArith Bool Arith Lia Permutation.
From NT Require Import Sx Rose ListFacts RoseFacts Traverse TraverseProofs TraverseLevelOrd TraverseVisit TraverseSkip TraverseStop TraverseDyn.
Import ListNotations.

(* revert / toggle arguments with which a level method runs _iter_level *)
Definition level_flags (m : meth) : option (bool * bool) :=
  match m with
  | LEVEL => Some (false, false) | LEVEL_RTL => Some (true, false)
  | ZIGZAG => Some (false, true) | ZIGZAG_RTL => Some (true, true)
  | _ => None
  end.

(* documented order of each ordered method as a relation on two different
   identities x, y of the forest below the start node: "x is yielded before y" *)
Definition order_rel (m : meth) (f : forest) (x y : nat) : Prop :=
  match m with
  | PRE => anc_f f x y \/ left_f f x y            (* ancestors first, then earlier sibling sub-trees *)
  | POST => anc_f f y x \/ left_f f x y           (* descendants first, same sibling rule *)
  | LEVEL => level_rel false false f x y          (* (depth, left-to-right) lexicographic *)
  | LEVEL_RTL => level_rel true false f x y       (* every level right-to-left *)
  | ZIGZAG => level_rel false true f x y          (* even depths left-to-right, odd right-to-left *)
  | ZIGZAG_RTL => level_rel true true f x y       (* even depths right-to-left, odd left-to-right *)
  | RANDOM | UNORDERED => False
  end.

Theorem iterator_order s m l x y :
  iterator s m false = Some l ->
  NoDup (ids (rch s)) -> In x (ids (rch s)) -> In y (ids (rch s)) -> x <> y ->
  (before (map rid l) x y <-> order_rel m (rch s) x y).
Proof.
  unfold iterator. destruct m; cbn [iter_handler andb app order_rel]; intros H; inversion H; subst; clear H;
    rewrite app_nil_r.
  - apply iter_pre_order.
  - apply iter_post_order.
  - apply iter_level_order.
  - apply iter_level_order.
  - apply iter_level_order.
  - apply iter_level_order.
Qed.

(* Tree.iterator for the ordered methods = the same relation on the whole forest *)
Theorem tree_iterator_order f reg rnd m l x y :
  m <> RANDOM -> m <> UNORDERED -> tree_iterator f reg rnd m = Some l ->
  NoDup (ids f) -> In x (ids f) -> In y (ids f) -> x <> y ->
  (before (map rid l) x y <-> order_rel m f x y).
Proof.
  intros H1 H2 H. apply (iterator_order (sysroot f) m l x y).
  destruct m; try exact H; congruence.
Qed.

(* the direction of each level *)
Theorem level_direction m rv tg k :
  level_flags m = Some (rv, tg) ->
  level_dir rv tg k = match m with
                      | LEVEL => false | LEVEL_RTL => true
                      | ZIGZAG => Nat.odd k | _ => Nat.even k end.
Proof.
  destruct (level_dir_cases k) as (H1 & H2 & H3 & H4).
  destruct m; cbn [level_flags]; intros E; inversion E; subst; assumption.
Qed.

(* the enum value of each method: the suffix of the handler looked up by getattr *)
Definition meth_value (m : meth) : text :=
  match m with
  | PRE => [112; 114; 101] | POST => [112; 111; 115; 116] | LEVEL => [108; 101; 118; 101; 108]
  | LEVEL_RTL => [108; 101; 118; 101; 108; 95; 114; 116; 108]
  | ZIGZAG => [122; 105; 103; 122; 97; 103] | ZIGZAG_RTL => [122; 105; 103; 122; 97; 103; 95; 114; 116; 108]
  | RANDOM => [114; 97; 110; 100; 111; 109] | UNORDERED => [117; 110; 111; 114; 100; 101; 114; 101; 100]
  end%Z.

Definition text_mem (s : text) (l : list text) : bool := existsb (text_eqb s) l.
Fixpoint text_assoc {V} (s : text) (l : list (text * V)) : option V :=
  match l with [] => None | (k, v) :: r => if text_eqb s k then Some v else text_assoc s r end.

Definition iter_supported (m : meth) : bool :=
  match iter_handler m (T 0 root_info []) with Some _ => true | None => false end.

(* what has to hold of the tables lifted from the source (checked on the generated values) *)
Definition handlers_agree (enum : list (text * text)) (iter_h visit_h : list text)
                          (flags : list (text * (bool * bool))) : bool :=
  forallb (fun p => text_eqb (fst p) (snd p)) (combine (map snd enum) (map meth_value all_meths))
  && Nat.eqb (length enum) (length all_meths)
  && forallb (fun m => Bool.eqb (text_mem (meth_value m) iter_h) (iter_supported m)) all_meths
  && forallb (fun m => Bool.eqb (text_mem (meth_value m) visit_h) (visit_supported m)) all_meths
  && forallb (fun m => match level_flags m, text_assoc (meth_value m) flags with
                       | Some (r, t), Some (r', t') => Bool.eqb r r' && Bool.eqb t t'
                       | None, None => true
                       | _, _ => false end) all_meths.

Theorem stop_shape_iff r v : stop_shape r v <-> call_traversal_cb r = Stop v.
Proof.
  split; [apply stop_shape_stops|].
  destruct r; cbv [call_traversal_cb cb_try_body]; intros E; try discriminate; inversion E; subst; constructor.
Qed.

(* a worked instance of every hypothesis used in Properties/C06.v *)
Lemma nonvacuous_example :
  let i := I 0 0 0 true [] (DInt 0) None [] in
  let s := T 1 i [T 2 i [T 4 i []; T 5 i []]; T 3 i [T 6 i [T 7 i []]]] in
  let ord m a := option_map (map rid) (iterator s m a) in
  let skip2 : cbT := fun _ x => if Nat.eqb x 2 then RaiseSkipCls else RetNone in
  let stop3 : cbT := fun calls _ => if Nat.eqb (length calls) 3 then RetStopIterInst (Some 9%Z) else RetNone in
  NoDup (ids_t s) /\
  ord PRE false = Some [2; 4; 5; 3; 6; 7] /\ ord POST true = Some [4; 5; 2; 7; 6; 3; 1] /\
  ord LEVEL true = Some [1; 2; 3; 4; 5; 6; 7] /\ ord LEVEL_RTL false = Some [3; 2; 6; 5; 4; 7] /\
  ord ZIGZAG false = Some [2; 3; 6; 5; 4; 7] /\ ord ZIGZAG_RTL false = Some [3; 2; 4; 5; 6; 7] /\
  order_rel ZIGZAG (rch s) 6 4 /\
  skip_only skip2 (fun x => Nat.eqb x 2) /\
  visit skip2 s PRE true = ([1; 2; 3; 6; 7], VReturn None) /\
  visit skip2 s LEVEL false = ([2; 3; 6; 7], VReturn None) /\
  visit skip2 s POST false = ([4; 5; 2; 7; 6; 3], VReturn None) /\
  at_call stop3 3 (halt_out (HStop (Some 9%Z))) /\ stop_shape (RetStopIterInst (Some 9%Z)) (Some 9%Z) /\
  visit stop3 s LEVEL false = ([2; 3; 4; 5], VReturn (Some 9%Z)) /\
  visit stop3 s ZIGZAG false = ([], VRaise E_NOTIMPL).
Proof.
  cbv zeta.
  refine (conj _ (conj _ (conj _ (conj _ (conj _ (conj _ (conj _ (conj _ (conj _ (conj _ (conj _ (conj _ (conj _ (conj _ (conj _ _))))))))))))))).
  - vm_compute. repeat constructor; cbn; intuition discriminate.
  - vm_compute; reflexivity.
  - vm_compute; reflexivity.
  - vm_compute; reflexivity.
  - vm_compute; reflexivity.
  - vm_compute; reflexivity.
  - vm_compute; reflexivity.
  - cbn [order_rel rch]. exists 1, 1.
    set (i := I 0 0 0 true [] (DInt 0) None []).
    set (a := T 2 i [T 4 i []; T 5 i []]). set (b := T 3 i [T 6 i [T 7 i []]]).
    refine (conj _ (conj _ _)).
    + exists b. split; [right; now left|]. apply (depth_child b (T 6 i [T 7 i []])); [now left|apply (depth_self (T 6 i [T 7 i []]))].
    + exists a. split; [now left|]. apply (depth_child a (T 4 i [])); [now left|apply (depth_self (T 4 i []))].
    + right. split; [reflexivity|]. change (level_dir false true 1) with true. cbv iota.
      apply (left_here [] a [] b []); vm_compute; tauto.
  - intros calls x. unfold call_cb. destruct (Nat.eqb x 2); reflexivity.
  - vm_compute; reflexivity.
  - vm_compute; reflexivity.
  - vm_compute; reflexivity.
  - intros calls x. unfold call_cb. destruct (Nat.eqb (length calls) 3); reflexivity.
  - constructor.
  - vm_compute; reflexivity.
  - vm_compute; reflexivity.
Qed.

(* a stateful callback: skips at its first call, stops with 5 at its third *)
Lemma nonvacuous_stateful :
  let i := I 0 0 0 true [] (DInt 0) None [] in
  let s := T 1 i [T 2 i [T 4 i []; T 5 i []]; T 3 i [T 6 i [T 7 i []]]] in
  let cb : cbT := fun calls _ => match length calls with 0 => RetSkipInst | 2 => RaiseStopInst (Some 5%Z) | _ => RetNone end in
  never_halts (mute cb) /\ mutes cb (mute cb) /\
  visit (mute cb) s PRE false = ([2; 3; 6; 7], VReturn None) /\
  skipped_dyn (mute cb) s [2; 3; 6; 7] 4 /\
  visit cb s PRE false = ([2; 3; 6], VReturn (Some 5%Z)) /\
  halted cb [] [2; 3; 6] (HStop (Some 5%Z)).
Proof.
  cbv zeta. refine (conj _ (conj _ (conj _ (conj _ (conj _ _))))).
  - eapply mutes_never_halts, mutes_mute.
  - apply mutes_mute.
  - vm_compute; reflexivity.
  - exists 2, 0. refine (conj _ (conj _ _)); [reflexivity|reflexivity|].
    eapply anc_deep; [left; reflexivity|]. apply anc_here. vm_compute. tauto.
  - vm_compute; reflexivity.
  - apply h_cons; [right; reflexivity|]. apply h_cons; [left; reflexivity|]. apply h_here. reflexivity.
Qed.
