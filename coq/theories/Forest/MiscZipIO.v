(* common.py: open_as_compressed_output_stream / open_as_uncompressed_input_stream – the byte transport of save()/load().
   Executable model, no proofs (MiscZipIOProofs.v).

   A file is either plain text or a ZIP container (members in order, each with its compression method).  zipfile, bz2,
   zlib, lzma and the utf-8 codec are the identity on the text (modelled, not verified); reading a ZIP container as plain
   text is outside the model ([RRaw]).

       open_as_compressed_output_stream(path, compression=True):
           compression is False            -> plain file
           compression is True             -> ZIP_BZIP2
           otherwise int(compression)      -> that method (0 = ZIP_STORED is a ZIP container, not a plain file;
                                              an unknown method: zipfile raises NotImplementedError)
           one member, named f"{path.name}.json"
       open_as_uncompressed_input_stream(path, auto_uncompress=True):
           auto_uncompress and zipfile.is_zipfile(path): exactly one member (else ValueError) -> its text
           otherwise the file is opened as text                                                                  *)
From Coq Require Import List ZArith Bool.
From NT Require Import Sx Rose.
Import ListNotations.

Inductive fcontent :=
| FPlain (t : text)
| FZip (members : list (text * Z * text)).      (* (name, compression method, text) *)

Inductive comp := CFalse | CTrue | CInt (z : Z).   (* the `compression` argument: False, True, an int *)

Definition ZIP_STORED : Z := 0%Z.  Definition ZIP_DEFLATED : Z := 8%Z.  Definition ZIP_BZIP2 : Z := 12%Z.  Definition ZIP_LZMA : Z := 14%Z.
Definition known_method (m : Z) : bool := Z.eqb m ZIP_STORED || Z.eqb m ZIP_DEFLATED || Z.eqb m ZIP_BZIP2 || Z.eqb m ZIP_LZMA.

Definition E_VALUE : Z := 3%Z.  Definition E_NOTIMPL : Z := 5%Z.

Definition t_json : text := [46; 106; 115; 111; 110]%Z.   (* ".json" *)

(* what the file holds after `with open_as_compressed_output_stream(path, compression=c) as fp: fp.write(t)` *)
Definition write_file (path_name : text) (c : comp) (t : text) : Z + fcontent :=
  match c with
  | CFalse => inr (FPlain t)
  | _ => let m := match c with CInt z => z | _ => ZIP_BZIP2 end in
         if known_method m then inr (FZip [(path_name ++ t_json, m, t)]) else inl E_NOTIMPL
  end.

Inductive rres := RText (t : text) | RRaw | RErr (code : Z).

(* what `with open_as_uncompressed_input_stream(path, auto_uncompress=a) as fp: fp.read()` gives *)
Definition read_file (f : fcontent) (auto_uncompress : bool) : rres :=
  match f with
  | FPlain t => RText t
  | FZip ms => if auto_uncompress
               then match ms with [(_, _, t)] => RText t | _ => RErr E_VALUE end
               else RRaw
  end.

Definition sx_fcontent (f : fcontent) : sx :=
  match f with
  | FPlain t => L [A 0%Z; sx_text t]
  | FZip ms => L [A 1%Z; L (map (fun m => L [sx_text (fst (fst m)); A (snd (fst m)); sx_text (snd m)]) ms)]
  end.
Definition sx_rres (r : rres) : sx :=
  match r with RText t => L [A 0%Z; sx_text t] | RRaw => L [A 1%Z] | RErr c => L [A (-1)%Z; A c] end.
