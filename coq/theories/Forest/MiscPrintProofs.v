(* Theorems about Tree.print (model: MiscPrint.v). *)
From Coq Require Import List ZArith Bool Lia.
From NT Require Import Sx Rose Format MiscPrint.
Import ListNotations.

Section Print.
  Variable table : list (text * segs).
  Variable default_style : text.
  Variable rend : rt -> text.
  Notation tprint := (tree_print table default_style rend).
  Notation tformat := (tree_format table default_style rend).
  Notation tformat_iter := (tree_format_iter table default_style rend).

  (* print writes exactly format(...) with the same arguments, plus one newline, to the requested stream *)
  Theorem print_ok_iff trepr f a ti j fg s t :
    tprint trepr f a ti j fg = Ok (s, t) <->
    exists t0, tformat trepr f a ti j = Ok t0 /\ t = t0 ++ [10%Z] /\ s = (if fg then SFile else SStdout).
  Proof.
    unfold tree_print. destruct (tformat trepr f a ti j) as [t0|e]; split.
    - intros E. injection E as <- <-. exists t0. repeat split.
    - intros (t1 & E & -> & ->). injection E as ->. reflexivity.
    - discriminate.
    - intros (t1 & E & _). discriminate.
  Qed.

  (* when format raises, print raises the same and writes nothing *)
  Theorem print_err_iff trepr f a ti j fg e :
    tprint trepr f a ti j fg = Err e <-> tformat trepr f a ti j = Err e.
  Proof.
    unfold tree_print. destruct (tformat trepr f a ti j) as [t0|e0]; split; intros H; try discriminate H; injection H as ->; reflexivity.
  Qed.

  (* the stream does not influence the text, the text does not influence the stream *)
  Theorem print_stream_independent trepr f a ti j :
    match tprint trepr f a ti j true, tprint trepr f a ti j false with
    | Ok (s1, t1), Ok (s2, t2) => s1 = SFile /\ s2 = SStdout /\ t1 = t2
    | Err e1, Err e2 => e1 = e2
    | _, _ => False
    end.
  Proof. unfold tree_print. destruct (tformat trepr f a ti j); repeat split. Qed.

  (* the format text is recovered by dropping the last character, which is the newline *)
  Theorem print_decodes trepr f a ti j fg s t :
    tprint trepr f a ti j fg = Ok (s, t) -> tformat trepr f a ti j = Ok (removelast t) /\ last t 0%Z = 10%Z.
  Proof.
    intros E. apply print_ok_iff in E as (t0 & E & -> & _).
    rewrite removelast_last, last_last. split; [exact E|reflexivity].
  Qed.

  (* with the default join "\n": every line of format_iter, each followed by a newline (an empty line list prints one bare newline) *)
  Lemma join_lines ls : ls <> [] -> join_text [10%Z] ls ++ [10%Z] = flat_map (fun l => l ++ [10%Z]) ls.
  Proof.
    induction ls as [|l r IH]; [congruence|]. intros _. destruct r as [|l2 r].
    - cbn. rewrite app_nil_r. reflexivity.
    - change (join_text [10%Z] (l :: l2 :: r)) with (l ++ [10%Z] ++ join_text [10%Z] (l2 :: r)).
      rewrite <- !app_assoc. rewrite IH by discriminate. cbn [flat_map]. rewrite <- !app_assoc. reflexivity.
  Qed.

  Theorem print_default_join_lines trepr f a ti fg ls :
    tformat_iter trepr f a ti = Ok ls ->
    tprint trepr f a ti [10%Z] fg =
      Ok (if fg then SFile else SStdout, match ls with [] => [10%Z] | _ => flat_map (fun l => l ++ [10%Z]) ls end).
  Proof.
    intros E. unfold tree_print, tree_format, res_join. rewrite E. f_equal. f_equal.
    destruct ls as [|l r]; [reflexivity|]. apply join_lines. discriminate.
  Qed.
End Print.
