(* C06 — specification notions and proofs about the traversal model Traverse.v *)
From Coq Require Import List ZArith Bool Arith Lia Permutation.
From NT Require Import Sx Rose ListFacts RoseFacts Traverse.
Import ListNotations.

Ltac la := repeat (rewrite <- app_assoc || rewrite <- app_comm_cons); try reflexivity.

(* ================================================================== *)
(* 1. Every method yields each node of the branch exactly once         *)
(* ================================================================== *)

(* post-order list of the sub-trees, the counterpart of [pre] *)
Fixpoint post (t : rt) : list rt := match t with T _ _ ch => flat_map post ch ++ [t] end.
Notation post_f := (flat_map post).

Lemma post_unfold t : post t = post_f (rch t) ++ [t].
Proof. destruct t; reflexivity. Qed.

Lemma iter_pre_eq : forall t, iter_pre t = pre_f (rch t).
Proof.
  induction t as [id i ch IH] using rt_ind'. cbn [iter_pre rch].
  induction ch as [|c r IHr]; [reflexivity|].
  inversion IH as [|c' r' Hc Hr]; subst. cbn [flat_map]. rewrite Hc, (IHr Hr).
  rewrite (pre_unfold c). reflexivity.
Qed.

Lemma iter_post_eq : forall t, iter_post t = post_f (rch t).
Proof.
  induction t as [id i ch IH] using rt_ind'. cbn [iter_post rch].
  induction ch as [|c r IHr]; [reflexivity|].
  inversion IH as [|c' r' Hc Hr]; subst. cbn [flat_map]. rewrite Hc, (IHr Hr).
  rewrite (post_unfold c). reflexivity.
Qed.

Lemma perm_flat_map {X Y} (g h : X -> list Y) l :
  Forall (fun c => Permutation (g c) (h c)) l -> Permutation (flat_map g l) (flat_map h l).
Proof.
  induction 1 as [|c r Hc Hr IH]; cbn [flat_map]; [constructor|]. now apply Permutation_app.
Qed.

Lemma post_perm_pre : forall t, Permutation (post t) (pre t).
Proof.
  induction t as [id i ch IH] using rt_ind'. cbn [post pre].
  apply Permutation_sym, Permutation_cons_app. rewrite app_nil_r.
  apply Permutation_sym, perm_flat_map. exact IH.
Qed.

Lemma post_f_perm_pre_f f : Permutation (post_f f) (pre_f f).
Proof. apply perm_flat_map, Forall_forall. intros c _. apply post_perm_pre. Qed.

(* the nodes of a forest = its top level + the nodes of the next level's forest *)
Lemma pre_f_levels f : Permutation (pre_f f) (f ++ pre_f (flat_map rch f)).
Proof.
  induction f as [|t r IH]; [constructor|].
  cbn [flat_map]. rewrite (pre_unfold t), flat_map_app. cbn [app].
  constructor. rewrite IH. apply Permutation_app_swap_app.
Qed.

Lemma len_levels f : length (pre_f f) = length f + length (pre_f (flat_map rch f)).
Proof. rewrite (Permutation_length (pre_f_levels f)), app_length. reflexivity. Qed.

Definition dir (rv : bool) (l : list rt) : list rt := if rv then rev l else l.

Lemma dir_perm rv l : Permutation (dir rv l) l.
Proof. destruct rv; cbn [dir]; [apply Permutation_sym, Permutation_rev|reflexivity]. Qed.

Lemma iter_level_unfold k rv tg t r :
  iter_level (S k) rv tg (t :: r) =
  dir rv (t :: r) ++ iter_level k (if tg then negb rv else rv) tg (flat_map rch (t :: r)).
Proof. reflexivity. Qed.

Lemma iter_level_nil fuel rv tg : iter_level fuel rv tg [] = [].
Proof. destruct fuel; reflexivity. Qed.

Lemma iter_level_perm : forall fuel rv tg f,
  length (pre_f f) <= fuel -> Permutation (iter_level fuel rv tg f) (pre_f f).
Proof.
  induction fuel as [|k IH]; intros rv tg f Hlen.
  - destruct (pre_f f) eqn:E; [|cbn in Hlen; lia]. constructor.
  - destruct f as [|t r]; [constructor|].
    rewrite iter_level_unfold, (pre_f_levels (t :: r)).
    apply Permutation_app; [apply dir_perm|]. apply IH.
    pose proof (len_levels (t :: r)) as HL. cbn [length] in HL. lia.
Qed.

Lemma len_pre_children t : length (pre_f (rch t)) < size t.
Proof. rewrite <- size_pre, (pre_unfold t). cbn [length]. lia. Qed.

Lemma iter_level_n_perm t rv tg : Permutation (iter_level_n t rv tg) (pre_f (rch t)).
Proof. apply iter_level_perm. unfold level_fuel. pose proof (len_pre_children t). lia. Qed.

Lemma iter_handler_perm t m l : iter_handler m t = Some l -> Permutation l (pre_f (rch t)).
Proof.
  destruct m; cbn [iter_handler]; intros E; inversion E; subst; clear E;
    try apply iter_level_n_perm.
  - rewrite iter_pre_eq. reflexivity.
  - rewrite iter_post_eq. apply post_f_perm_pre_f.
Qed.

(* the nodes of the branch of start node t, with or without t *)
Definition branch (t : rt) (add_self : bool) : list rt := if add_self then pre t else pre_f (rch t).

Theorem iterator_perm t m a l : iterator t m a = Some l -> Permutation l (branch t a).
Proof.
  unfold iterator. destruct (iter_handler m t) as [body|] eqn:E; [|discriminate].
  intros H; inversion H; subst; clear H. apply iter_handler_perm in E.
  destruct a; cbn [andb branch]; [|rewrite app_nil_r; exact E].
  rewrite (pre_unfold t). destruct (is_post m); cbn [negb app].
  - apply Permutation_sym, Permutation_cons_app. rewrite app_nil_r. now apply Permutation_sym.
  - rewrite app_nil_r. now constructor.
Qed.

Theorem iterator_nodup t m a l :
  NoDup (ids_t t) -> iterator t m a = Some l -> NoDup (map rid l).
Proof.
  intros ND H. apply iterator_perm in H.
  apply (Permutation_NoDup (l := map rid (branch t a))); [apply Permutation_map, Permutation_sym, H|].
  destruct a; cbn [branch]; [exact ND|].
  rewrite ids_t_unfold in ND. apply NoDup_cons_iff in ND as [_ ND]. exact ND.
Qed.

(* add_self: the start node comes first, or last for post-order *)
Theorem iterator_add_self t m l :
  iterator t m true = Some l ->
  exists body, iterator t m false = Some body /\ l = if is_post m then body ++ [t] else t :: body.
Proof.
  unfold iterator. destruct (iter_handler m t) as [body|]; [|discriminate].
  intros H; inversion H; subst; clear H. exists body. cbn [andb app]. rewrite app_nil_r. split; [reflexivity|].
  destruct (is_post m); cbn [negb app]; [reflexivity|now rewrite app_nil_r].
Qed.

Theorem iterator_supported t m a :
  iterator t m a = None <-> (m = RANDOM \/ m = UNORDERED).
Proof.
  unfold iterator. destruct m; cbn [iter_handler]; split; intros H;
    try discriminate; try reflexivity; try (destruct H; discriminate); auto.
Qed.

(* Tree.iterator: UNORDERED / RANDOM *)
Lemma take_nth_perm {X} : forall n (l : list X) y l', take_nth n l = Some (y, l') -> Permutation l (y :: l').
Proof.
  induction n as [|k IH]; intros [|x r] y l' H; cbn [take_nth] in H; try discriminate.
  - inversion H; subst. reflexivity.
  - destruct (take_nth k r) as [[y' r']|] eqn:E; [|discriminate]. inversion H; subst.
    rewrite (IH _ _ _ E). apply perm_swap.
Qed.

Lemma shuffle_perm {X} : forall rnd (l : list X), Permutation (shuffle rnd l) l.
Proof.
  induction rnd as [|r rs IH]; intros l; cbn [shuffle]; [reflexivity|].
  destruct (take_nth (Nat.modulo r (length l)) l) as [[y l']|] eqn:E; [|reflexivity].
  rewrite (take_nth_perm _ _ _ _ E). constructor. apply IH.
Qed.

Theorem tree_iterator_perm f reg rnd m :
  Permutation reg (pre_f f) ->
  exists l, tree_iterator f reg rnd m = Some l /\ Permutation l (pre_f f).
Proof.
  intros HR. destruct m; cbn [tree_iterator];
    try (destruct (iterator (sysroot f) _ false) as [l|] eqn:E;
         [exists l; split; [reflexivity|apply (iterator_perm _ _ _ _ E)]
         |apply iterator_supported in E; destruct E; discriminate]).
  - eexists; split; [reflexivity|]. rewrite shuffle_perm. exact HR.
  - eexists; split; [reflexivity|]. exact HR.
Qed.

(* ================================================================== *)
(* 2. Pre- and post-order as order relations                           *)
(* ================================================================== *)

(* x occurs strictly before y in l *)
Definition before {X} (l : list X) (x y : X) := exists l1 l2 l3, l = l1 ++ x :: l2 ++ y :: l3.

(* x is a proper ancestor of y inside t (by identity) *)
Inductive anc_t : rt -> nat -> nat -> Prop :=
| anc_here id i ch y : In y (ids ch) -> anc_t (T id i ch) id y
| anc_deep id i ch c x y : In c ch -> anc_t c x y -> anc_t (T id i ch) x y.
Definition anc_f (f : forest) (x y : nat) := exists t, In t f /\ anc_t t x y.

(* x lies in an earlier sibling sub-tree than y, somewhere in the forest *)
Inductive left_f : forest -> nat -> nat -> Prop :=
| left_here f1 a f2 b f3 x y :
    In x (ids_t a) -> In y (ids_t b) -> left_f (f1 ++ a :: f2 ++ b :: f3) x y
| left_deep f t x y : In t f -> left_f (rch t) x y -> left_f f x y.

Section Before.
  Context {X : Type}.
  Implicit Types (l : list X) (x y z : X).

  Lemma before_app_l l1 l2 x y : before l1 x y -> before (l1 ++ l2) x y.
  Proof. intros (a & b & c & ->). exists a, b, (c ++ l2). la. Qed.
  Lemma before_app_r l1 l2 x y : before l2 x y -> before (l1 ++ l2) x y.
  Proof. intros (a & b & c & ->). exists (l1 ++ a), b, c. la. Qed.
  Lemma before_app_cross l1 l2 x y : In x l1 -> In y l2 -> before (l1 ++ l2) x y.
  Proof.
    intros Hx Hy. apply in_split in Hx as (a & b & ->). apply in_split in Hy as (c & d & ->).
    exists a, (b ++ c), d. la.
  Qed.
  Lemma before_cons_head x l y : In y l -> before (x :: l) x y.
  Proof. intros Hy. apply in_split in Hy as (c & d & ->). exists [], c, d. reflexivity. Qed.
  Lemma before_cons z l x y : before l x y -> before (z :: l) x y.
  Proof. intros H. change (z :: l) with ([z] ++ l). now apply before_app_r. Qed.
  Lemma before_in l x y : before l x y -> In x l /\ In y l.
  Proof.
    intros (a & b & c & ->). split; apply in_or_app; right; [now left|].
    right. apply in_or_app; right; now left.
  Qed.
  Lemma before_rev l x y : before l x y -> before (rev l) y x.
  Proof.
    intros (a & b & c & ->). exists (rev c), (rev b), (rev a).
    rewrite rev_app_distr. cbn [rev]. rewrite rev_app_distr. cbn [rev]. la.
  Qed.

  Lemma split_unique z : forall p q r s : list X,
    NoDup (p ++ z :: q) -> p ++ z :: q = r ++ z :: s -> length p = length r.
  Proof.
    induction p as [|h p IH]; intros q r s ND E.
    - destruct r as [|h' r]; [reflexivity|]. exfalso. cbn in E. inversion E as [[Eh Et]]. subst h'.
      cbn in ND. apply NoDup_cons_iff in ND as [Hn _]. apply Hn. rewrite Et. apply in_or_app; right; now left.
    - destruct r as [|h' r].
      + exfalso. cbn in E. inversion E as [[Eh Et]]. subst h.
        cbn in ND. apply NoDup_cons_iff in ND as [Hn _]. apply Hn. apply in_or_app; right; now left.
      + cbn in E. inversion E as [[Eh Et]]. cbn. f_equal. cbn in ND. apply NoDup_cons_iff in ND as [_ ND].
        eapply IH; eauto.
  Qed.

  Lemma before_asym l x y : NoDup l -> before l x y -> before l y x -> False.
  Proof.
    intros ND (a & b & c & E1) (a' & b' & c' & E2).
    assert (H1 : length a = length (a' ++ y :: b')).
    { apply (split_unique x a (b ++ y :: c) (a' ++ y :: b') c'); [now rewrite <- E1|].
      rewrite <- E1, E2. la. }
    assert (H2 : length (a ++ x :: b) = length a').
    { apply (split_unique y (a ++ x :: b) c a' (b' ++ x :: c')).
      - replace ((a ++ x :: b) ++ y :: c) with l; [exact ND|]. rewrite E1. la.
      - rewrite <- E2, E1. la. }
    rewrite !app_length in *. cbn [length] in *. lia.
  Qed.

  (* a sound relation that is total on the pair characterises the order of a duplicate-free list *)
  Lemma order_char l (R : X -> X -> Prop) :
    NoDup l -> (forall x y, R x y -> before l x y) ->
    forall x y, R x y \/ R y x -> (before l x y <-> R x y).
  Proof.
    intros ND Sound x y Tot. split; [|apply Sound].
    intros Hb. destruct Tot as [H|H]; [exact H|]. exfalso. eapply before_asym; eauto.
  Qed.
End Before.

Lemma before_map {X Y} (g : X -> Y) l x y : before l x y -> before (map g l) (g x) (g y).
Proof. intros (a & b & c & ->). exists (map g a), (map g b), (map g c). rewrite !map_app; cbn [map]. now rewrite map_app. Qed.

Lemma ids_split f1 a f2 : ids (f1 ++ a :: f2) = ids f1 ++ ids_t a ++ ids f2.
Proof. rewrite ids_app, ids_cons, ids_t_unfold. la. Qed.

(* post-order identities *)
Definition pids (f : forest) : list nat := map rid (post_f f).
Definition pids_t (t : rt) : list nat := map rid (post t).

Lemma pids_t_unfold t : pids_t t = pids (rch t) ++ [rid t].
Proof. unfold pids_t, pids. rewrite post_unfold, map_app. reflexivity. Qed.
Lemma pids_split f1 a f2 : pids (f1 ++ a :: f2) = pids f1 ++ pids_t a ++ pids f2.
Proof. unfold pids, pids_t. rewrite flat_map_app. cbn [flat_map]. now rewrite !map_app. Qed.
Lemma pids_perm f : Permutation (pids f) (ids f).
Proof. apply Permutation_map, post_f_perm_pre_f. Qed.
Lemma pids_t_perm t : Permutation (pids_t t) (ids_t t).
Proof. apply Permutation_map, post_perm_pre. Qed.
Lemma in_pids f x : In x (pids f) <-> In x (ids f).
Proof. split; apply Permutation_in; [|apply Permutation_sym]; apply pids_perm. Qed.
Lemma in_pids_t t x : In x (pids_t t) <-> In x (ids_t t).
Proof. split; apply Permutation_in; [|apply Permutation_sym]; apply pids_t_perm. Qed.

(* soundness: structure => position *)
Lemma anc_before_t : forall t x y, anc_t t x y -> before (ids_t t) x y.
Proof.
  induction t as [id i ch IH] using rt_ind'. intros x y H. rewrite ids_t_unfold. cbn [rid rch].
  inversion H as [id' i' ch' y' Hin | id' i' ch' c x' y' Hc Hanc]; subst.
  - now apply before_cons_head.
  - apply before_cons. rewrite Forall_forall in IH. specialize (IH c Hc _ _ Hanc).
    apply in_split in Hc as (f1 & f2 & ->). rewrite ids_split.
    apply before_app_r, before_app_l. exact IH.
Qed.

Lemma anc_before_f f x y : anc_f f x y -> before (ids f) x y.
Proof.
  intros (t & Ht & H). apply anc_before_t in H.
  apply in_split in Ht as (f1 & f2 & ->). rewrite ids_split. now apply before_app_r, before_app_l.
Qed.

Lemma left_before : forall f x y, left_f f x y -> before (ids f) x y.
Proof.
  intros f x y H. induction H as [f1 a f2 b f3 x y Hx Hy | f t x y Ht H IH].
  - rewrite ids_split. apply before_app_r. rewrite ids_split, app_assoc. apply before_app_cross.
    + apply in_or_app; now left.
    + apply in_or_app; now left.
  - apply in_split in Ht as (f1 & f2 & ->). rewrite ids_split.
    apply before_app_r, before_app_l. rewrite ids_t_unfold. apply before_cons. exact IH.
Qed.

Lemma anc_after_post_t : forall t x y, anc_t t x y -> before (pids_t t) y x.
Proof.
  induction t as [id i ch IH] using rt_ind'. intros x y H. rewrite pids_t_unfold. cbn [rid rch].
  inversion H as [id' i' ch' y' Hin | id' i' ch' c x' y' Hc Hanc]; subst.
  - apply before_app_cross; [now apply in_pids|now left].
  - apply before_app_l. rewrite Forall_forall in IH. specialize (IH c Hc _ _ Hanc).
    apply in_split in Hc as (f1 & f2 & ->). rewrite pids_split.
    apply before_app_r, before_app_l. exact IH.
Qed.

Lemma anc_after_post_f f x y : anc_f f x y -> before (pids f) y x.
Proof.
  intros (t & Ht & H). apply anc_after_post_t in H.
  apply in_split in Ht as (f1 & f2 & ->). rewrite pids_split. now apply before_app_r, before_app_l.
Qed.

Lemma left_before_post : forall f x y, left_f f x y -> before (pids f) x y.
Proof.
  intros f x y H. induction H as [f1 a f2 b f3 x y Hx Hy | f t x y Ht H IH].
  - rewrite pids_split. apply before_app_r. rewrite pids_split, app_assoc. apply before_app_cross.
    + apply in_or_app; left. now apply in_pids_t.
    + apply in_or_app; left. now apply in_pids_t.
  - apply in_split in Ht as (f1 & f2 & ->). rewrite pids_split.
    apply before_app_r, before_app_l. rewrite pids_t_unfold. apply before_app_l. exact IH.
Qed.

(* totality of the structural relations on two different nodes *)
Definition related_f (f : forest) (x y : nat) : Prop :=
  anc_f f x y \/ anc_f f y x \/ left_f f x y \/ left_f f y x.
Definition related_t (t : rt) (x y : nat) : Prop :=
  anc_t t x y \/ anc_t t y x \/ left_f (rch t) x y \/ left_f (rch t) y x.

Lemma in_ids_child f x : In x (ids f) -> exists c, In c f /\ In x (ids_t c).
Proof.
  unfold ids, ids_t. rewrite in_map_iff. intros (n & <- & Hn). apply in_flat_map in Hn as (c & Hc & Hn).
  exists c. split; [exact Hc|]. now apply in_map.
Qed.

Lemma total_f_from_t f :
  (forall c, In c f -> forall x y, In x (ids_t c) -> In y (ids_t c) -> x <> y -> related_t c x y) ->
  forall x y, In x (ids f) -> In y (ids f) -> x <> y -> related_f f x y.
Proof.
  intros IH x y Hx Hy Hne.
  apply in_ids_child in Hx as (cx & Hcx & Hx). apply in_ids_child in Hy as (cy & Hcy & Hy).
  destruct (in_split _ _ Hcx) as (f1 & f2 & E).
  rewrite E in Hcy. apply in_app_or in Hcy as [Hcy | [<- | Hcy]].
  - apply in_split in Hcy as (g1 & g2 & ->).
    right; right; right. rewrite E. rewrite <- app_assoc. cbn [app]. now constructor.
  - destruct (IH cx Hcx x y Hx Hy Hne) as [H|[H|[H|H]]].
    + left. now exists cx.
    + right; left. now exists cx.
    + right; right; left. eapply left_deep; eauto.
    + right; right; right. eapply left_deep; eauto.
  - apply in_split in Hcy as (g1 & g2 & ->).
    right; right; left. rewrite E. now constructor.
Qed.

Lemma struct_total_t : forall t x y, In x (ids_t t) -> In y (ids_t t) -> x <> y -> related_t t x y.
Proof.
  induction t as [id i ch IH] using rt_ind'. intros x y Hx Hy Hne.
  rewrite ids_t_unfold in Hx, Hy. cbn [rid rch] in *.
  destruct Hx as [<-|Hx], Hy as [<-|Hy]; try congruence.
  - left. now constructor.
  - right; left. now constructor.
  - rewrite Forall_forall in IH.
    destruct (total_f_from_t ch IH x y Hx Hy Hne) as [(c & Hc & H)|[(c & Hc & H)|[H|H]]].
    + left. eapply anc_deep; eauto.
    + right; left. eapply anc_deep; eauto.
    + right; right; left. exact H.
    + right; right; right. exact H.
Qed.

Lemma struct_total_f f x y : In x (ids f) -> In y (ids f) -> x <> y -> related_f f x y.
Proof. apply total_f_from_t. intros c _. apply struct_total_t. Qed.

(* pre-order: x before y  iff  x is a proper ancestor of y or lies in an earlier sibling sub-tree *)
Theorem pre_order_char f x y :
  NoDup (ids f) -> In x (ids f) -> In y (ids f) -> x <> y ->
  (before (ids f) x y <-> anc_f f x y \/ left_f f x y).
Proof.
  intros ND Hx Hy Hne.
  apply (order_char (ids f) (fun x y => anc_f f x y \/ left_f f x y) ND).
  - intros a b [H|H]; [now apply anc_before_f|now apply left_before].
  - destruct (struct_total_f f x y Hx Hy Hne) as [H|[H|[H|H]]]; auto.
Qed.

(* post-order: x before y  iff  x is a proper descendant of y or lies in an earlier sibling sub-tree *)
Theorem post_order_char f x y :
  NoDup (ids f) -> In x (ids f) -> In y (ids f) -> x <> y ->
  (before (pids f) x y <-> anc_f f y x \/ left_f f x y).
Proof.
  intros ND Hx Hy Hne.
  assert (ND' : NoDup (pids f)) by (eapply Permutation_NoDup; [apply Permutation_sym, pids_perm|exact ND]).
  apply (order_char (pids f) (fun x y => anc_f f y x \/ left_f f x y) ND').
  - intros a b [H|H]; [now apply anc_after_post_f|now apply left_before_post].
  - destruct (struct_total_f f x y Hx Hy Hne) as [H|[H|[H|H]]]; auto.
Qed.

(* the same, stated for the model's iterators on a start node *)
Theorem iter_pre_order s x y :
  NoDup (ids (rch s)) -> In x (ids (rch s)) -> In y (ids (rch s)) -> x <> y ->
  (before (map rid (iter_pre s)) x y <-> anc_f (rch s) x y \/ left_f (rch s) x y).
Proof. rewrite iter_pre_eq. apply pre_order_char. Qed.

Theorem iter_post_order s x y :
  NoDup (ids (rch s)) -> In x (ids (rch s)) -> In y (ids (rch s)) -> x <> y ->
  (before (map rid (iter_post s)) x y <-> anc_f (rch s) y x \/ left_f (rch s) x y).
Proof. rewrite iter_post_eq. apply post_order_char. Qed.

(* ================================================================== *)
(* 3. Level order = concatenation of the depth levels                  *)
(* ================================================================== *)

(* pre-order annotated with the depth of each node (top level = depth d) *)
Fixpoint dpre (d : nat) (t : rt) : list (nat * rt) :=
  match t with T _ _ ch => (d, t) :: flat_map (dpre (S d)) ch end.
Notation dpre_f d := (flat_map (dpre d)).

Definition at_depth (k : nat) (p : nat * rt) : bool := Nat.eqb (fst p) k.

(* level k of a forest: its nodes of depth k, in pre-order *)
Definition level_of (k : nat) (f : forest) : list rt :=
  map snd (filter (at_depth k) (dpre_f 0 f)).

Lemma dpre_snd : forall t d, map snd (dpre d t) = pre t.
Proof.
  induction t as [id i ch IH] using rt_ind'. intros d. cbn [dpre pre map snd]. f_equal.
  induction ch as [|c r IHr]; [reflexivity|].
  inversion IH as [|c' r' Hc Hr]; subst. cbn [flat_map]. rewrite map_app, Hc, (IHr Hr). reflexivity.
Qed.

Lemma dpre_f_snd f d : map snd (dpre_f d f) = pre_f f.
Proof. induction f as [|t r IH]; [reflexivity|]. cbn [flat_map]. now rewrite map_app, dpre_snd, IH. Qed.

(* nodes of depth k below/at t when t itself has depth d *)
Definition lv (k d : nat) (t : rt) : list rt := map snd (filter (at_depth k) (dpre d t)).

Lemma lv_flat k d f : map snd (filter (at_depth k) (dpre_f d f)) = flat_map (lv k d) f.
Proof.
  induction f as [|t r IH]; [reflexivity|]. cbn [flat_map]. rewrite filter_app, map_app, IH. reflexivity.
Qed.

Lemma lv_unfold k d t :
  lv k d t = (if Nat.eqb d k then [t] else []) ++ flat_map (lv k (S d)) (rch t).
Proof.
  destruct t as [id i ch]. unfold lv at 1. cbn [dpre filter rch].
  change (at_depth k (d, T id i ch)) with (Nat.eqb d k).
  destruct (Nat.eqb d k); cbn [map snd app]; now rewrite lv_flat.
Qed.

Lemma flat_map_ext_in {X Y} (g h : X -> list Y) l :
  Forall (fun c => g c = h c) l -> flat_map g l = flat_map h l.
Proof. induction 1 as [|c r Hc Hr IH]; cbn [flat_map]; [reflexivity|]. now rewrite Hc, IH. Qed.

Lemma flat_map_flat_map {X Y Z} (g : Y -> list Z) (h : X -> list Y) l :
  flat_map g (flat_map h l) = flat_map (fun x => flat_map g (h x)) l.
Proof. induction l as [|x r IH]; [reflexivity|]. cbn [flat_map]. now rewrite flat_map_app, IH. Qed.

Lemma lv_shift : forall t k d, lv (S k) (S d) t = lv k d t.
Proof.
  induction t as [id i ch IH] using rt_ind'. intros k d.
  rewrite (lv_unfold (S k) (S d)), (lv_unfold k d). cbn [rch Nat.eqb]. f_equal.
  apply flat_map_ext_in. eapply Forall_impl; [|exact IH]. intros c Hc. apply Hc.
Qed.

Lemma lv_below : forall t k d, k < d -> lv k d t = [].
Proof.
  induction t as [id i ch IH] using rt_ind'. intros k d Hlt. rewrite lv_unfold. cbn [rch].
  destruct (Nat.eqb_spec d k) as [E|_]; [lia|]. cbn [app].
  induction ch as [|c r IHr]; [reflexivity|].
  inversion IH as [|c' r' Hc Hr]; subst. cbn [flat_map]. rewrite (Hc k (S d)) by lia. now apply IHr.
Qed.

Lemma level_of_flat k f : level_of k f = flat_map (lv k 0) f.
Proof. apply lv_flat. Qed.

Lemma level_of_0 f : level_of 0 f = f.
Proof.
  rewrite level_of_flat. induction f as [|t r IH]; [reflexivity|].
  cbn [flat_map]. rewrite IH, lv_unfold. cbn [Nat.eqb app]. f_equal.
  induction (rch t) as [|c cs IHc]; [reflexivity|]. cbn [flat_map]. rewrite lv_below by lia. exact IHc.
Qed.

Lemma level_of_S k f : level_of (S k) f = level_of k (flat_map rch f).
Proof.
  rewrite !level_of_flat, flat_map_flat_map. apply flat_map_ext_in, Forall_forall. intros t _.
  rewrite lv_unfold. cbn [Nat.eqb app]. apply flat_map_ext_in, Forall_forall. intros c _. apply lv_shift.
Qed.

Lemma level_of_nil k : level_of k [] = [].
Proof. reflexivity. Qed.

(* direction of level k: [rv] = start right-to-left, [tg] = alternate *)
Definition level_dir (rv tg : bool) (k : nat) : bool := xorb rv (tg && Nat.odd k).

Definition levels_spec (rv tg : bool) (f : forest) (n : nat) : list rt :=
  concat (map (fun k => dir (level_dir rv tg k) (level_of k f)) (seq 0 n)).

Lemma concat_map_nil {X Y} (g : X -> list Y) l : (forall x, g x = []) -> concat (map g l) = [].
Proof. intros H. induction l as [|x r IH]; [reflexivity|]. cbn [map concat]. now rewrite H, IH. Qed.

Lemma dir_nil rv : dir rv [] = [].
Proof. destruct rv; reflexivity. Qed.

Theorem iter_level_levels : forall fuel rv tg f,
  iter_level fuel rv tg f = levels_spec rv tg f fuel.
Proof.
  unfold levels_spec.
  induction fuel as [|n IH]; intros rv tg f; [reflexivity|].
  destruct f as [|t r].
  - cbn [iter_level]. symmetry. apply concat_map_nil. intros k. rewrite level_of_nil. apply dir_nil.
  - rewrite iter_level_unfold, IH. cbn [seq map concat]. f_equal.
    + unfold level_dir. cbn [Nat.odd]. rewrite andb_false_r, xorb_false_r, level_of_0. reflexivity.
    + rewrite <- seq_shift, map_map. f_equal. apply map_ext. intros k.
      rewrite level_of_S. f_equal. unfold level_dir. rewrite Nat.odd_succ, <- Nat.negb_odd.
      destruct tg, rv, (Nat.odd k); reflexivity.
Qed.

(* levels from the node count on are empty, so the bound does not matter *)
Lemma dpre_depth_bound : forall t d0 d x, In (d, x) (dpre d0 t) -> d0 <= d < d0 + size t.
Proof.
  induction t as [id i ch IH] using rt_ind'. intros d0 d x H. cbn [dpre size] in *.
  destruct H as [H|H]; [inversion H; subst; lia|].
  apply in_flat_map in H as (c & Hc & H). rewrite Forall_forall in IH. apply (IH c Hc) in H.
  assert (size c <= list_sum (map size ch)).
  { clear -Hc. induction ch as [|a r IHr]; [destruct Hc|].
    change (list_sum (map size (a :: r))) with (size a + list_sum (map size r)). destruct Hc as [->|Hc]; [lia|].
    specialize (IHr Hc). lia. }
  lia.
Qed.

Lemma filter_none {X} (p : X -> bool) l : (forall x, In x l -> p x = false) -> filter p l = [].
Proof.
  induction l as [|x r IH]; intros H; [reflexivity|]. cbn [filter]. rewrite (H x (or_introl eq_refl)).
  apply IH. intros y Hy. apply H. now right.
Qed.

Lemma size_le_pre_f f t : In t f -> size t <= length (pre_f f).
Proof.
  rewrite <- size_pre. induction f as [|a r IHr]; intros Ht; [destruct Ht|]. cbn [flat_map].
  rewrite app_length. destruct Ht as [->|Ht]; [lia|]. specialize (IHr Ht). lia.
Qed.

Lemma level_of_beyond f k : length (pre_f f) <= k -> level_of k f = [].
Proof.
  intros Hk. unfold level_of. rewrite filter_none; [reflexivity|].
  intros [d x] Hin. unfold at_depth. cbn [fst]. apply Nat.eqb_neq.
  apply in_flat_map in Hin as (t & Ht & Hin). apply dpre_depth_bound in Hin.
  pose proof (size_le_pre_f f t Ht). lia.
Qed.

(* Node.iterator(LEVEL_ORDER / LEVEL_ORDER_RTL / ZIGZAG / ZIGZAG_RTL) *)
Theorem iter_level_n_levels t rv tg :
  iter_level_n t rv tg = levels_spec rv tg (rch t) (size t).
Proof. apply iter_level_levels. Qed.
