(* Structural facts about forests: pre-order segments, uniqueness of ids. *)
From Coq Require Import List ZArith Bool Arith Lia Permutation.
From NT Require Import Sx Rose ListFacts.
Import ListNotations.

Lemma pre_unfold t : pre t = t :: pre_f (rch t).
Proof. destruct t; reflexivity. Qed.

Lemma pre_in_self t : In t (pre t).
Proof. rewrite pre_unfold. now left. Qed.

Lemma in_pre_f_top t f : In t f -> In t (pre_f f).
Proof. intros H. apply in_flat_map. exists t. split; [assumption|apply pre_in_self]. Qed.

Lemma ids_app a b : ids (a ++ b) = ids a ++ ids b.
Proof. unfold ids. now rewrite flat_map_app, map_app. Qed.

Lemma ids_cons t f : ids (t :: f) = rid t :: ids (rch t) ++ ids f.
Proof. unfold ids. cbn [flat_map]. rewrite pre_unfold. cbn. now rewrite map_app. Qed.

Lemma ids_t_unfold t : ids_t t = rid t :: ids (rch t).
Proof. unfold ids_t, ids. now rewrite pre_unfold. Qed.

Lemma ids_nil : ids [] = [].
Proof. reflexivity. Qed.

Lemma length_ids f : length (ids f) = length (pre_f f).
Proof. unfold ids. apply map_length. Qed.

(* pre-order is closed under taking children *)
Lemma pre_child_closed : forall t p c, In p (pre t) -> In c (rch p) -> In c (pre t).
Proof.
  induction t as [id i ch IH] using rt_ind'. intros p c Hp Hc.
  cbn [pre] in *. destruct Hp as [<-|Hp].
  - right. cbn [rch] in Hc. now apply in_pre_f_top.
  - right. apply in_flat_map in Hp as (x & Hx & Hp). rewrite Forall_forall in IH.
    apply in_flat_map. exists x. split; [assumption|]. eapply IH; eauto.
Qed.

Lemma pre_f_child_closed f p c : In p (pre_f f) -> In c (rch p) -> In c (pre_f f).
Proof.
  intros Hp Hc. apply in_flat_map in Hp as (x & Hx & Hp). apply in_flat_map.
  exists x. split; [assumption|]. eapply pre_child_closed; eauto.
Qed.

(* the pre-order of a sub-tree is a contiguous segment *)
Lemma pre_segment : forall t p, In p (pre t) -> exists a b, pre t = a ++ pre p ++ b.
Proof.
  induction t as [id i ch IH] using rt_ind'. intros p Hp.
  cbn [pre] in Hp. destruct Hp as [<-|Hp].
  - exists [], []. now rewrite app_nil_r.
  - apply in_flat_map in Hp as (x & Hx & Hp). rewrite Forall_forall in IH.
    destruct (IH x Hx p Hp) as (a & b & E). apply in_split in Hx as (l1 & l2 & ->).
    exists (T id i (l1 ++ x :: l2) :: pre_f l1 ++ a), (b ++ pre_f l2).
    cbn [pre]. rewrite flat_map_in_split, E. cbn. f_equal. la.
Qed.

Lemma pre_f_segment f p : In p (pre_f f) -> exists a b, pre_f f = a ++ pre p ++ b.
Proof.
  intros Hp. apply in_flat_map in Hp as (x & Hx & Hp).
  destruct (pre_segment x p Hp) as (a & b & E). apply in_split in Hx as (l1 & l2 & ->).
  exists (pre_f l1 ++ a), (b ++ pre_f l2). rewrite flat_map_in_split, E. la.
Qed.

Lemma incl_top_ids f : incl (map rid f) (ids f).
Proof.
  intros n Hn. apply in_map_iff in Hn as (t & <- & Ht). unfold ids. apply in_map. now apply in_pre_f_top.
Qed.

Lemma NoDup_ids_top f : NoDup (ids f) -> NoDup (map rid f).
Proof.
  induction f as [|t f IH]; intros H; [constructor|].
  rewrite ids_cons in H. cbn [map]. inversion H as [|x l Hn Hnd]; subst. constructor.
  - intros Hi. apply Hn, in_or_app. right. now apply incl_top_ids.
  - apply IH. eapply NoDup_app_r; eauto.
Qed.

Lemma NoDup_ids_sub f p : NoDup (ids f) -> In p (pre_f f) -> NoDup (ids_t p).
Proof.
  intros H Hp. destruct (pre_f_segment f p Hp) as (a & b & E).
  unfold ids in H. rewrite E, !map_app in H. eapply NoDup_app_l, NoDup_app_r; eauto.
Qed.

Lemma NoDup_ids_children f p : NoDup (ids f) -> In p (pre_f f) -> NoDup (ids (rch p)).
Proof.
  intros H Hp. pose proof (NoDup_ids_sub f p H Hp) as Hs. rewrite ids_t_unfold in Hs. now inversion Hs.
Qed.

Lemma NoDup_map_inj {X Y} (g : X -> Y) (l : list X) x y :
  NoDup (map g l) -> In x l -> In y l -> g x = g y -> x = y.
Proof.
  induction l as [|z l IH]; cbn; intros H Hx Hy E; [contradiction|].
  inversion H as [|? ? Hn Hnd]; subst.
  destruct Hx as [->|Hx], Hy as [->|Hy]; auto.
  - exfalso. apply Hn. rewrite E. now apply in_map.
  - exfalso. apply Hn. rewrite <- E. now apply in_map.
Qed.

Lemma node_unique f x y : NoDup (ids f) -> In x (pre_f f) -> In y (pre_f f) -> rid x = rid y -> x = y.
Proof. intros H. apply (NoDup_map_inj rid). exact H. Qed.

Lemma size_pre : forall t, length (pre t) = size t.
Proof.
  induction t as [id i ch IH] using rt_ind'. cbn [pre size length]. f_equal.
  induction ch as [|c ch IHc]; [reflexivity|]. inversion IH as [|? ? Hc Hch]; subst.
  cbn [flat_map map list_sum]. rewrite app_length, Hc, IHc; auto.
Qed.
