(* C16, decoding side: the prefixes emitted by the pretty-printer determine the
   shape of the rendered branch.

   Independent specification (nothing here follows the recursion of the
   model in Format.v):
   - [sh]/[shape_f]: the bare ordered shape of a forest;
   - [depths_f]: the pre-order list of depths;
   - [shape_of_depths]: a *parser* that rebuilds the shape from a depth list
     (round-trip law [shape_of_depths_depths], proved once, unbounded);
   - [style_okb]: the two ancestor segments share one positive width [wa],
     the own segments share one positive width [ws];
   - [decode_depth]: depth from the LENGTH of a prefix;
   - [decode_anc]/[dec_last]/[dec_hc]: the flags from the characters of a
     prefix, for styles whose segments are distinct;
   - [fpath]/[nctx_ok]: relational (path-style) meaning of "flags of the
     ancestors / own last-flag" by positions in the sibling lists. *)
From Coq Require Import List ZArith Bool Arith Lia.
From NT Require Import Sx Rose ListFacts RoseFacts Format FormatProofs.
Import ListNotations.

(* ------------------------------------------------------------------ *)
(* shapes, depth lists, the parser                                      *)
(* ------------------------------------------------------------------ *)
Inductive sh := Sh (ch : list sh).

Fixpoint shape_t (t : rt) : sh := match t with T _ _ ch => Sh (map shape_t ch) end.
Definition shape_f (f : forest) : list sh := map shape_t f.

Fixpoint depths_t (d : nat) (t : rt) : list nat :=
  match t with T _ _ ch => d :: flat_map (depths_t (S d)) ch end.
Definition depths_f (d : nat) (f : forest) : list nat := flat_map (depths_t d) f.

Lemma depths_t_unfold d t : depths_t d t = d :: depths_f (S d) (rch t).
Proof. destruct t; reflexivity. Qed.
Lemma shape_t_unfold t : shape_t t = Sh (shape_f (rch t)).
Proof. destruct t; reflexivity. Qed.
Lemma depths_f_cons d t f : depths_f d (t :: f) = d :: depths_f (S d) (rch t) ++ depths_f d f.
Proof. unfold depths_f at 1. cbn [flat_map]. rewrite depths_t_unfold. reflexivity. Qed.

(* [parse fuel d l]: the longest forest whose roots have depth [d] at the
   front of [l], and what is left of [l] *)
Fixpoint parse (fuel d : nat) (l : list nat) : list sh * list nat :=
  match fuel with
  | 0 => ([], l)
  | S fuel' =>
      match l with
      | [] => ([], [])
      | x :: l' =>
          if Nat.eqb x d then
            let '(kids, r1) := parse fuel' (S d) l' in
            let '(sibs, r2) := parse fuel' d r1 in
            (Sh kids :: sibs, r2)
          else ([], l)
      end
  end.

Definition shape_of_depths (d : nat) (l : list nat) : list sh := fst (parse (S (length l)) d l).

Definition stops (d : nat) (rest : list nat) : Prop :=
  match rest with [] => True | x :: _ => x < d end.

Lemma stops_sibs d f rest : stops d rest -> stops (S d) (depths_f d f ++ rest).
Proof.
  intros H. destruct f as [|t f].
  - cbn [depths_f flat_map app]. destruct rest as [|x r]; [exact Logic.I|]. cbn [stops] in *. lia.
  - rewrite depths_f_cons. cbn [app stops]. lia.
Qed.

Lemma parse_depths : forall fuel f d rest,
  stops d rest -> length (depths_f d f) < fuel ->
  parse fuel d (depths_f d f ++ rest) = (shape_f f, rest).
Proof.
  induction fuel as [|fuel IH]; intros f d rest Hs Hl; [lia|].
  destruct f as [|t f].
  - cbn [depths_f flat_map app shape_f map parse].
    destruct rest as [|x r]; [reflexivity|]. cbn [stops] in Hs.
    replace (Nat.eqb x d) with false by (symmetry; apply Nat.eqb_neq; lia). reflexivity.
  - rewrite depths_f_cons in *. cbn [app parse length] in *. rewrite Nat.eqb_refl.
    rewrite app_length in Hl. rewrite <- app_assoc.
    rewrite (IH (rch t) (S d) (depths_f d f ++ rest)); [|apply stops_sibs; exact Hs|lia].
    rewrite (IH f d rest); [|exact Hs|lia].
    cbn [shape_f map]. rewrite shape_t_unfold. reflexivity.
Qed.

(* the round-trip law: a pre-order depth list determines the ordered forest *)
Theorem shape_of_depths_depths d f : shape_of_depths d (depths_f d f) = shape_f f.
Proof.
  unfold shape_of_depths. rewrite <- (app_nil_r (depths_f d f)) at 2.
  rewrite parse_depths; [reflexivity|exact Logic.I|lia].
Qed.

(* the base depth need not be known: it is the first entry *)
Theorem shape_of_depths_hd d f :
  shape_of_depths (hd 0 (depths_f d f)) (depths_f d f) = shape_f f.
Proof.
  destruct f as [|t f]; [reflexivity|].
  replace (hd 0 (depths_f d (t :: f))) with d by (rewrite depths_f_cons; reflexivity).
  apply shape_of_depths_depths.
Qed.

Corollary depths_injective d f1 f2 : depths_f d f1 = depths_f d f2 -> shape_f f1 = shape_f f2.
Proof. intros E. rewrite <- (shape_of_depths_depths d f1), E. apply shape_of_depths_depths. Qed.

(* ------------------------------------------------------------------ *)
(* depths of the contexts                                               *)
(* ------------------------------------------------------------------ *)
Lemma ctxs_depths_t k : forall t anc last,
  map (fun c => k + length (n_anc c)) (ctxs_t anc last t) = depths_t (k + length anc) t.
Proof.
  induction t as [id i ch IH] using rt_ind'. intros anc last.
  rewrite ctxs_t_unfold, depths_t_unfold. cbn [map n_anc fst rch]. f_equal.
  replace (S (k + length anc)) with (k + length (anc ++ [last]))
    by (rewrite app_length; cbn [length]; lia).
  generalize (anc ++ [last]) as a. induction IH as [|c l Hc _ IHl]; intros a; [reflexivity|].
  rewrite ctxs_l_cons, map_app, Hc, IHl. reflexivity.
Qed.

Lemma ctxs_depths_l k : forall l anc,
  map (fun c => k + length (n_anc c)) (ctxs_l anc l) = depths_f (k + length anc) l.
Proof.
  induction l as [|c l IH]; intros anc; [reflexivity|].
  rewrite ctxs_l_cons, map_app, ctxs_depths_t, IH. reflexivity.
Qed.

Lemma rdepths_rel top roots :
  map (rdepth top) (ctxs_l [] roots) = depths_f (if top then 1 else 0) roots.
Proof.
  unfold rdepth. rewrite (ctxs_depths_l (if top then 1 else 0) roots []).
  cbn [length]. rewrite Nat.add_0_r. reflexivity.
Qed.

(* ------------------------------------------------------------------ *)
(* styles with decodable widths; depth from the prefix length           *)
(* ------------------------------------------------------------------ *)
Definition wa (g : seg6) : nat := length (g0 g).
Definition ws (g : seg6) : nat := length (g2 g).

Definition style_okb (g : seg6) : bool :=
  (0 <? wa g) && (0 <? ws g) && (length (g1 g) =? wa g)
  && (length (g3 g) =? ws g) && (length (g4 g) =? ws g) && (length (g5 g) =? ws g).

Definition depth_of_len (g : seg6) (n : nat) : nat :=
  if n =? 0 then 0 else (n - ws g) / wa g + 1.
Definition decode_depth (g : seg6) (p : text) : nat := depth_of_len g (length p).

Definition decode_shape (g : seg6) (pfx : list text) : list sh :=
  let ds := map (decode_depth g) pfx in shape_of_depths (hd 0 ds) ds.

Lemma style_ok_inv g : style_okb g = true ->
  0 < wa g /\ 0 < ws g /\ (forall b, length (seg_anc g b) = wa g)
  /\ (forall l h, length (seg_self g l h) = ws g).
Proof.
  unfold style_okb. rewrite !andb_true_iff, !Nat.eqb_eq, !Nat.ltb_lt.
  intros [[[[[A B] C] D] E] F]. refine (conj A (conj B (conj _ _))).
  - intros [|]; cbn [seg_anc]; [reflexivity|exact C].
  - intros [|] [|]; cbn [seg_self]; unfold ws in *; congruence.
Qed.

Lemma length_concat_const {X} (w : nat) (l : list (list X)) :
  (forall x, In x l -> length x = w) -> length (concat l) = length l * w.
Proof.
  induction l as [|x l IH]; intros H; [reflexivity|].
  cbn [concat length]. rewrite app_length.
  rewrite IH by (intros y Hy; apply H; right; exact Hy).
  rewrite (H x) by (left; reflexivity). rewrite Nat.mul_succ_l. lia.
Qed.

Lemma anc_segs_width g fl : style_okb g = true ->
  forall x, In x (map (seg_anc g) fl) -> length x = wa g.
Proof.
  intros OK x Hx. apply in_map_iff in Hx as (b & <- & _).
  apply (proj1 (proj2 (proj2 (style_ok_inv g OK)))).
Qed.

Lemma full_prefix_length g fl last hc : style_okb g = true ->
  length (full_prefix g fl last hc) = length fl * wa g + ws g.
Proof.
  intros OK. unfold full_prefix. rewrite app_length.
  rewrite (length_concat_const (wa g)) by (apply anc_segs_width; exact OK).
  rewrite map_length. destruct (style_ok_inv g OK) as (_ & _ & _ & S). rewrite S. reflexivity.
Qed.

Lemma pfx_rel_length g top c : style_okb g = true ->
  length (pfx_rel g top c)
  = match rdepth top c with 0 => 0 | S k => k * wa g + ws g end.
Proof.
  intros OK. unfold pfx_rel. pose proof (rel_flags_length top c) as L.
  destruct (rdepth top c) as [|k]; [reflexivity|].
  rewrite full_prefix_length by exact OK. rewrite L. f_equal. f_equal. lia.
Qed.

(* depth is recovered from the prefix length *)
Theorem decode_depth_pfx g top c : style_okb g = true ->
  decode_depth g (pfx_rel g top c) = rdepth top c.
Proof.
  intros OK. unfold decode_depth, depth_of_len. rewrite pfx_rel_length by exact OK.
  destruct (style_ok_inv g OK) as (A & B & _).
  destruct (rdepth top c) as [|k]; [reflexivity|].
  replace (k * wa g + ws g =? 0) with false by (symmetry; apply Nat.eqb_neq; lia).
  replace (k * wa g + ws g - ws g) with (k * wa g) by lia.
  rewrite Nat.div_mul by lia. lia.
Qed.

Theorem decode_rel g top roots : style_okb g = true ->
  decode_shape g (rel_prefixes g top roots) = shape_f roots.
Proof.
  intros OK. unfold decode_shape, rel_prefixes. cbv zeta. rewrite map_map.
  rewrite (map_ext _ (rdepth top)) by (intros c; apply decode_depth_pfx; exact OK).
  rewrite rdepths_rel. apply shape_of_depths_hd.
Qed.

Definition node_shape (add_self : bool) (t : rt) : list sh :=
  if add_self then [shape_t t] else shape_f (rch t).

Theorem decode_node g add_self t : style_okb g = true ->
  decode_shape g (node_prefixes g add_self t) = node_shape add_self t.
Proof.
  intros OK. destruct add_self; [|apply decode_rel; exact OK].
  unfold decode_shape, node_prefixes, rel_prefixes, node_shape. cbv zeta. cbn [map].
  rewrite map_map.
  rewrite (map_ext _ (rdepth true)) by (intros c; apply decode_depth_pfx; exact OK).
  rewrite rdepths_rel.
  change (decode_depth g []) with 0. cbn [hd].
  replace (0 :: depths_f 1 (rch t)) with (depths_f 0 [t]).
  - apply (shape_of_depths_depths 0 [t]).
  - rewrite depths_f_cons. cbn [depths_f flat_map]. rewrite app_nil_r. reflexivity.
Qed.

(* two branches printed with the same prefixes have the same shape *)
Corollary prefixes_injective g top f1 f2 : style_okb g = true ->
  rel_prefixes g top f1 = rel_prefixes g top f2 -> shape_f f1 = shape_f f2.
Proof. intros OK E. rewrite <- (decode_rel g top f1 OK), E. apply decode_rel. exact OK. Qed.

(* ------------------------------------------------------------------ *)
(* flags from the characters of the prefix                              *)
(* ------------------------------------------------------------------ *)
Fixpoint chunks (w n : nat) (p : text) : list text :=
  match n with 0 => [] | S n' => firstn w p :: chunks w n' (skipn w p) end.

Definition anc_part (g : seg6) (p : text) : list text := chunks (wa g) (decode_depth g p - 1) p.
Definition own_part (g : seg6) (p : text) : text := skipn ((decode_depth g p - 1) * wa g) p.

Definition dec_anc (g : seg6) (chunk : text) : option bool :=
  if text_eqb chunk (g0 g) then Some true
  else if text_eqb chunk (g1 g) then Some false else None.
Definition decode_anc (g : seg6) (p : text) : list (option bool) := map (dec_anc g) (anc_part g p).

Definition dec_last (g : seg6) (own : text) : option bool :=
  if text_eqb own (g2 g) || text_eqb own (g4 g) then Some true
  else if text_eqb own (g3 g) || text_eqb own (g5 g) then Some false else None.
Definition dec_hc (g : seg6) (own : text) : option bool :=
  if text_eqb own (g4 g) || text_eqb own (g5 g) then Some true
  else if text_eqb own (g2 g) || text_eqb own (g3 g) then Some false else None.

Definition anc_distinct (g : seg6) : bool := negb (text_eqb (g1 g) (g0 g)).
Definition last_distinct (g : seg6) : bool :=
  negb (text_eqb (g3 g) (g2 g)) && negb (text_eqb (g3 g) (g4 g))
  && negb (text_eqb (g5 g) (g2 g)) && negb (text_eqb (g5 g) (g4 g)).
Definition hc_distinct (g : seg6) : bool :=
  negb (text_eqb (g2 g) (g4 g)) && negb (text_eqb (g2 g) (g5 g))
  && negb (text_eqb (g3 g) (g4 g)) && negb (text_eqb (g3 g) (g5 g)).

Lemma chunks_concat w (l : list text) rest :
  (forall x, In x l -> length x = w) -> chunks w (length l) (concat l ++ rest) = l.
Proof.
  induction l as [|x l IH]; intros H; [reflexivity|].
  cbn [length chunks concat]. rewrite <- app_assoc.
  assert (Hx : length x = w) by (apply H; cbn; auto). subst w.
  rewrite firstn_app_len, skipn_app_len. f_equal. apply IH. intros y Hy. apply H. cbn; auto.
Qed.

Lemma skipn_concat w (l : list text) rest :
  (forall x, In x l -> length x = w) -> skipn (length l * w) (concat l ++ rest) = rest.
Proof.
  intros H. replace (length l * w) with (length (concat l)) by (apply length_concat_const; exact H).
  apply skipn_app_len.
Qed.

Lemma dec_anc_seg g b : anc_distinct g = true -> dec_anc g (seg_anc g b) = Some b.
Proof.
  unfold anc_distinct, dec_anc. intros D. apply negb_true_iff in D.
  destruct b; cbn [seg_anc]; [rewrite text_eqb_refl; reflexivity|].
  rewrite D, text_eqb_refl. reflexivity.
Qed.

Lemma dec_last_seg g l h : last_distinct g = true -> dec_last g (seg_self g l h) = Some l.
Proof.
  unfold last_distinct, dec_last. rewrite !andb_true_iff, !negb_true_iff.
  intros [[[A B] C] D].
  destruct l, h; cbn [seg_self]; rewrite ?text_eqb_refl, ?A, ?B, ?C, ?D, ?orb_true_r; reflexivity.
Qed.

Lemma dec_hc_seg g l h : hc_distinct g = true -> dec_hc g (seg_self g l h) = Some h.
Proof.
  unfold hc_distinct, dec_hc. rewrite !andb_true_iff, !negb_true_iff.
  intros [[[A B] C] D].
  destruct l, h; cbn [seg_self]; rewrite ?text_eqb_refl, ?A, ?B, ?C, ?D, ?orb_true_r; reflexivity.
Qed.

Section Flags.
  Variables (g : seg6) (top : bool) (c : nctx).
  Hypothesis OK : style_okb g = true.
  Hypothesis DEEP : 1 <= rdepth top c.       (* the node carries a connector *)

  Lemma pfx_rel_deep :
    pfx_rel g top c = full_prefix g (rel_flags top c) (n_last c) (has_ch (n_node c)).
  Proof. unfold pfx_rel. destruct (rdepth top c); [lia|reflexivity]. Qed.

  Lemma depth_minus_one : decode_depth g (pfx_rel g top c) - 1 = length (map (seg_anc g) (rel_flags top c)).
  Proof. rewrite decode_depth_pfx by exact OK. rewrite map_length, rel_flags_length. reflexivity. Qed.

  (* the ancestor part of the prefix consists of exactly the ancestors' segments *)
  Theorem anc_part_pfx : anc_part g (pfx_rel g top c) = map (seg_anc g) (rel_flags top c).
  Proof.
    unfold anc_part. rewrite depth_minus_one, pfx_rel_deep. unfold full_prefix.
    apply chunks_concat, anc_segs_width, OK.
  Qed.

  (* what follows is exactly the own segment *)
  Theorem own_part_pfx : own_part g (pfx_rel g top c) = seg_self g (n_last c) (has_ch (n_node c)).
  Proof.
    unfold own_part. rewrite depth_minus_one, pfx_rel_deep. unfold full_prefix.
    apply skipn_concat, anc_segs_width, OK.
  Qed.

  Theorem decode_anc_pfx : anc_distinct g = true ->
    decode_anc g (pfx_rel g top c) = map Some (rel_flags top c).
  Proof.
    intros D. unfold decode_anc. rewrite anc_part_pfx, map_map.
    apply map_ext. intros b. apply dec_anc_seg, D.
  Qed.

  Theorem decode_last_pfx : last_distinct g = true ->
    dec_last g (own_part g (pfx_rel g top c)) = Some (n_last c).
  Proof. intros D. rewrite own_part_pfx. apply dec_last_seg, D. Qed.

  Theorem decode_hc_pfx : hc_distinct g = true ->
    dec_hc g (own_part g (pfx_rel g top c)) = Some (has_ch (n_node c)).
  Proof. intros D. rewrite own_part_pfx. apply dec_hc_seg, D. Qed.
End Flags.

(* all nodes at once, for a branch whose roots carry a connector (Tree.format
   with a title, the descendants of a start node): the prefixes give every
   node's ancestors' flags and own flags *)
Theorem flags_decode_all g roots :
  style_okb g = true -> anc_distinct g = true -> last_distinct g = true ->
  map (fun p => (decode_depth g p, decode_anc g p, dec_last g (own_part g p))) (rel_prefixes g true roots)
  = map (fun c => (S (length (n_anc c)), map Some (n_anc c), Some (n_last c))) (ctxs_l [] roots).
Proof.
  intros OK DA DL. unfold rel_prefixes. rewrite map_map. apply map_ext. intros c.
  assert (D : 1 <= rdepth true c) by (unfold rdepth; lia).
  rewrite (decode_depth_pfx g true c OK), (decode_anc_pfx g true c OK D DA),
          (decode_last_pfx g true c OK D DL).
  reflexivity.
Qed.

Theorem hc_decode_all g roots :
  style_okb g = true -> hc_distinct g = true ->
  map (fun p => dec_hc g (own_part g p)) (rel_prefixes g true roots)
  = map (fun c => Some (has_ch (n_node c))) (ctxs_l [] roots).
Proof.
  intros OK DH. unfold rel_prefixes. rewrite map_map. apply map_ext. intros c.
  assert (D : 1 <= rdepth true c) by (unfold rdepth; lia).
  apply (decode_hc_pfx g true c OK D DH).
Qed.

(* ------------------------------------------------------------------ *)
(* what the flags of a context mean: positions in the sibling lists     *)
(* ------------------------------------------------------------------ *)
(* [fpath f anc fl sibs]: [sibs] is the child list of the forest reached from
   the top-level list by descending through the nodes [anc] (nearest first,
   as Nav.ctx) whose "no following sibling" flags are [fl], top-level
   ancestor first (the order of get_parent_list()) *)
Inductive fpath (f : forest) : list rt -> list bool -> list rt -> Prop :=
| fp_top : fpath f [] [] f
| fp_down anc fl sibs l1 p l2 :
    fpath f anc fl sibs -> sibs = l1 ++ p :: l2 -> fpath f (p :: anc) (fl ++ [is_nil l2]) (rch p).

Definition nctx_ok (f : forest) (c : nctx) : Prop :=
  exists anc sibs l1 l2,
    fpath f anc (n_anc c) sibs /\ sibs = l1 ++ n_node c :: l2 /\ n_last c = is_nil l2.

Lemma ctxs_l_ok_of f (l : list rt) :
  Forall (fun t => forall an anc sibs l1 l2, fpath f an anc sibs -> sibs = l1 ++ t :: l2 ->
                   Forall (nctx_ok f) (ctxs_t anc (is_nil l2) t)) l ->
  forall an anc sibs l1, fpath f an anc sibs -> sibs = l1 ++ l -> Forall (nctx_ok f) (ctxs_l anc l).
Proof.
  induction 1 as [|c l Hc _ IHl]; intros an anc sibs l1 P E; [constructor|].
  rewrite ctxs_l_cons. apply Forall_app. split.
  - apply (Hc an anc sibs l1 l P E).
  - apply (IHl an anc sibs (l1 ++ [c]) P). rewrite <- app_assoc. exact E.
Qed.

Lemma ctxs_t_ok f : forall t an anc sibs l1 l2, fpath f an anc sibs -> sibs = l1 ++ t :: l2 ->
  Forall (nctx_ok f) (ctxs_t anc (is_nil l2) t).
Proof.
  induction t as [id i ch IH] using rt_ind'. intros an anc sibs l1 l2 P E.
  rewrite ctxs_t_unfold. constructor.
  - exists an, sibs, l1, l2. cbn [n_anc n_last n_node fst snd]. auto.
  - apply (ctxs_l_ok_of f ch IH (T id i ch :: an) (anc ++ [is_nil l2]) ch []); [|reflexivity].
    apply (fp_down f an anc sibs l1 (T id i ch) l2 P E).
Qed.

Theorem ctxs_ok f : Forall (nctx_ok f) (ctxs_l [] f).
Proof.
  apply (ctxs_l_ok_of f f) with (an := []) (sibs := f) (l1 := []); [|constructor|reflexivity].
  apply Forall_forall. intros t _. apply ctxs_t_ok.
Qed.

Lemma fpath_length f anc fl sibs : fpath f anc fl sibs -> length fl = length anc.
Proof.
  induction 1 as [|anc fl sibs l1 p l2 P IH E]; [reflexivity|].
  rewrite app_length. cbn [length]. lia.
Qed.

(* ------------------------------------------------------------------ *)
(* prefixes of lines when the renderings are known                      *)
(* ------------------------------------------------------------------ *)
Definition strip_rend (line r : text) : text := firstn (length line - length r) line.
Definition prefixes_of_lines (lines rs : list text) : list text :=
  map (fun lr => strip_rend (fst lr) (snd lr)) (combine lines rs).

Lemma strip_rend_app p r : strip_rend (p ++ r) r = p.
Proof.
  unfold strip_rend. rewrite app_length. replace (length p + length r - length r) with (length p) by lia.
  apply firstn_app_len.
Qed.

Lemma prefixes_of_zip (rend : rt -> text) : forall pfx ns, length pfx = length ns ->
  prefixes_of_lines (zip_lines rend pfx ns) (map rend ns) = pfx.
Proof.
  unfold prefixes_of_lines, zip_lines.
  induction pfx as [|p pfx IH]; intros [|n ns] L; try discriminate L; [reflexivity|].
  cbn [combine map fst snd]. rewrite strip_rend_app. f_equal. apply IH. injection L as L. exact L.
Qed.

(* ------------------------------------------------------------------ *)
(* the style table                                                      *)
(* ------------------------------------------------------------------ *)
Definition entry_ok (e : text * segs) : bool :=
  match unpack (snd e) with Some g => style_okb g | None => false end.
Definition table_ok (tbl : list (text * segs)) : bool := forallb entry_ok tbl.

Lemma table_ok_lookup tbl n s : table_ok tbl = true -> lookup_style tbl n = Some s ->
  exists g, unpack s = Some g /\ style_okb g = true.
Proof.
  unfold table_ok, lookup_style. intros T Lk.
  destruct (find (fun e => text_eqb (fst e) n) tbl) as [e|] eqn:F; [|discriminate Lk].
  cbn [option_map] in Lk. injection Lk as <-.
  apply find_some in F as [Hin _]. rewrite forallb_forall in T. specialize (T e Hin).
  unfold entry_ok in T. destruct (unpack (snd e)) as [g|]; [|discriminate T].
  exists g. auto.
Qed.

Definition is_custom (a : style_arg) : bool := match a with StCustom _ => true | _ => false end.

Lemma resolve_named_ok tbl dflt a style : table_ok tbl = true -> is_custom a = false ->
  resolve_style tbl dflt a = Ok style -> exists g, unpack style = Some g /\ style_okb g = true.
Proof.
  intros T NC R. destruct a as [|n|s]; [| |discriminate NC]; cbn [resolve_style] in R.
  - destruct (lookup_style tbl dflt) as [s|] eqn:Lk; [|discriminate R].
    injection R as <-. apply (table_ok_lookup tbl dflt s T Lk).
  - destruct (lookup_style tbl (if is_nil n then dflt else n)) as [s|] eqn:Lk; [|discriminate R].
    injection R as <-. apply (table_ok_lookup tbl _ s T Lk).
Qed.

(* ------------------------------------------------------------------ *)
(* end to end                                                           *)
(* ------------------------------------------------------------------ *)
Section EndToEnd.
  Variable table : list (text * segs).
  Variable default_style : text.
  Variable rend : rt -> text.

  Notation FI := (format_iter table default_style rend).
  Notation TFI := (tree_format_iter table default_style rend).

  (* Tree.format_iter: title, then one line per node in pre-order, and the
     prefixes decode to the shape of the whole forest *)
  Theorem tree_format_decodes a style g trepr f ti :
    is_list_style a = false ->
    resolve_style table default_style a = Ok style -> unpack style = Some g ->
    style_okb g = true ->
    exists pfx,
      TFI trepr f a ti = Ok (title_lines trepr false ti ++ zip_lines rend pfx (pre_f f))
      /\ length pfx = length (pre_f f)
      /\ decode_shape g pfx = shape_f f.
  Proof.
    intros NL R U OK. exists (rel_prefixes g (has_title false ti) f).
    destruct (tree_format_lines table default_style rend a style g trepr f ti NL R U) as [E L].
    refine (conj E (conj L _)). apply decode_rel. exact OK.
  Qed.

  Theorem node_format_decodes a style g f anc last t add_self :
    is_list_style a = false ->
    resolve_style table default_style a = Ok style -> unpack style = Some g ->
    style_okb g = true ->
    exists pfx,
      FI f (SNode (anc, last, t)) a add_self = Ok (zip_lines rend pfx (node_branch add_self t))
      /\ length pfx = length (node_branch add_self t)
      /\ decode_shape g pfx = node_shape add_self t.
  Proof.
    intros NL R U OK. exists (node_prefixes g add_self t).
    destruct (node_format_lines table default_style rend a style g f anc last t add_self NL R U) as [E L].
    refine (conj E (conj L _)). apply decode_node. exact OK.
  Qed.

  (* the same, on the emitted lines: strip the (known) renderings *)
  Theorem tree_lines_decode a style g trepr f ti lines :
    is_list_style a = false ->
    resolve_style table default_style a = Ok style -> unpack style = Some g ->
    style_okb g = true ->
    TFI trepr f a ti = Ok lines ->
    decode_shape g (prefixes_of_lines (skipn (length (title_lines trepr false ti)) lines)
                                      (map rend (pre_f f)))
    = shape_f f.
  Proof.
    intros NL R U OK E.
    destruct (tree_format_decodes a style g trepr f ti NL R U OK) as (pfx & E' & L & D).
    rewrite E' in E. injection E as <-.
    rewrite skipn_app_len, prefixes_of_zip by exact L. exact D.
  Qed.

  Theorem node_lines_decode a style g f anc last t add_self lines :
    is_list_style a = false ->
    resolve_style table default_style a = Ok style -> unpack style = Some g ->
    style_okb g = true ->
    FI f (SNode (anc, last, t)) a add_self = Ok lines ->
    decode_shape g (prefixes_of_lines lines (map rend (node_branch add_self t)))
    = node_shape add_self t.
  Proof.
    intros NL R U OK E.
    destruct (node_format_decodes a style g f anc last t add_self NL R U OK) as (pfx & E' & L & D).
    rewrite E' in E. injection E as <-.
    rewrite prefixes_of_zip by exact L. exact D.
  Qed.

  (* every style NAME that resolves (and the default) is decodable once the table is *)
  Theorem named_style_decodes a trepr f ti lines :
    table_ok table = true -> is_list_style a = false -> is_custom a = false ->
    TFI trepr f a ti = Ok lines ->
    exists style g, resolve_style table default_style a = Ok style /\ unpack style = Some g /\
      decode_shape g (prefixes_of_lines (skipn (length (title_lines trepr false ti)) lines)
                                        (map rend (pre_f f)))
      = shape_f f.
  Proof.
    intros T NL NC E.
    destruct (resolve_style table default_style a) as [style|e] eqn:R.
    - destruct (resolve_named_ok table default_style a style T NC R) as (g & U & OK).
      exists style, g. refine (conj eq_refl (conj U _)).
      apply (tree_lines_decode a style g trepr f ti lines NL R U OK E).
    - exfalso. unfold tree_format_iter, format_iter, render_lines in E. rewrite NL, R in E.
      destruct ti as [| | |[|x r]]; discriminate E.
  Qed.
End EndToEnd.

(* ------------------------------------------------------------------ *)
(* obligations on a style table, and how they reach a looked-up style   *)
(* ------------------------------------------------------------------ *)
Lemma lookup_forallb (P : text * segs -> bool) tbl n s :
  forallb P tbl = true -> lookup_style tbl n = Some s -> P (n, s) = true.
Proof.
  unfold lookup_style. intros T Lk.
  destruct (find (fun e => text_eqb (fst e) n) tbl) as [e|] eqn:F; [|discriminate Lk].
  cbn [option_map] in Lk. injection Lk as <-.
  apply find_some in F as [Hin Hn]. apply text_eqb_eq in Hn. subst n.
  rewrite forallb_forall in T. destruct e as [n s]. exact (T _ Hin).
Qed.

Fixpoint text_prefixb (p s : text) : bool :=
  match p, s with
  | [], _ => true
  | x :: p', y :: s' => Z.eqb x y && text_prefixb p' s'
  | _ :: _, [] => false
  end.

Definition SPACE : text := [115; 112; 97; 99; 101]%Z.              (* "space" *)
Definition is_space_style (n : text) : bool := text_prefixb SPACE n.

(* last-sibling flags of the ancestors and of the node itself are readable *)
Definition flags_entry_ok (e : text * segs) : bool :=
  match unpack (snd e) with
  | Some g => anc_distinct g && last_distinct g
  | None => false
  end.
(* ... and, for 6-segment (compact) styles, the has-children flag *)
Definition hc_entry_ok (e : text * segs) : bool :=
  match unpack (snd e) with
  | Some g => hc_distinct g
  | None => false
  end.
Definition is_six (e : text * segs) : bool := length (snd e) =? 6.

Definition table_flags_ok (tbl : list (text * segs)) : bool :=
  forallb (fun e => is_space_style (fst e) || flags_entry_ok e) tbl
  && forallb (fun e => negb (is_six e) || hc_entry_ok e) tbl.

Theorem table_flags_lookup tbl n s g :
  table_flags_ok tbl = true -> lookup_style tbl n = Some s -> unpack s = Some g ->
  (is_space_style n = false -> anc_distinct g = true /\ last_distinct g = true)
  /\ (length s = 6 -> hc_distinct g = true).
Proof.
  unfold table_flags_ok. rewrite andb_true_iff. intros [A B] Lk U.
  pose proof (lookup_forallb _ tbl n s A Lk) as A'.
  pose proof (lookup_forallb _ tbl n s B Lk) as B'.
  cbn [fst snd] in A', B'. unfold flags_entry_ok, hc_entry_ok, is_six in *. cbn [snd] in *.
  rewrite U in *. split.
  - intros NS. rewrite NS in A'. cbn [orb] in A'. apply andb_true_iff in A'. exact A'.
  - intros L6. rewrite L6 in B'. exact B'.
Qed.

(* ------------------------------------------------------------------ *)
(* format(join="\n"): the text splits back into the lines               *)
(* ------------------------------------------------------------------ *)
Definition NL : Z := 10%Z.

(* str.split(sep) for a one-character separator *)
Fixpoint split_on (sep : Z) (s : text) : list text :=
  match s with
  | [] => [[]]
  | c :: s' =>
      if Z.eqb c sep then [] :: split_on sep s'
      else match split_on sep s' with
           | h :: t => (c :: h) :: t
           | [] => [[c]]
           end
  end.

Lemma split_on_last sep l : ~ In sep l -> split_on sep l = [l].
Proof.
  induction l as [|c l IH]; intros H; [reflexivity|].
  cbn [split_on]. replace (Z.eqb c sep) with false.
  - rewrite IH; [reflexivity|]. intros Hin. apply H. right. exact Hin.
  - symmetry. apply Z.eqb_neq. intros E. apply H. left. exact E.
Qed.

Lemma split_on_line sep l rest : ~ In sep l ->
  split_on sep (l ++ sep :: rest) = l :: split_on sep rest.
Proof.
  induction l as [|c l IH]; intros H.
  - cbn [app split_on]. rewrite Z.eqb_refl. reflexivity.
  - cbn [app split_on]. replace (Z.eqb c sep) with false.
    + rewrite IH; [reflexivity|]. intros Hin. apply H. right. exact Hin.
    + symmetry. apply Z.eqb_neq. intros E. apply H. left. exact E.
Qed.

Lemma join_text_cons2 j l l2 r : join_text j (l :: l2 :: r) = l ++ j ++ join_text j (l2 :: r).
Proof. reflexivity. Qed.

Theorem split_join sep ls : ls <> [] -> Forall (fun l => ~ In sep l) ls ->
  split_on sep (join_text [sep] ls) = ls.
Proof.
  induction ls as [|l ls IH]; intros NE F; [congruence|].
  inversion F as [|a b Hl Hr]; subst. destruct ls as [|l2 r].
  - cbn [join_text]. apply split_on_last. exact Hl.
  - rewrite join_text_cons2. cbn [app]. rewrite split_on_line by exact Hl.
    f_equal. apply IH; [discriminate|exact Hr].
Qed.

Definition text_nl_free (l : text) : bool := forallb (fun c => negb (Z.eqb c NL)) l.
Definition style_nl_free (g : seg6) : bool :=
  forallb text_nl_free [g0 g; g1 g; g2 g; g3 g; g4 g; g5 g].

Lemma text_nl_free_spec l : text_nl_free l = true -> ~ In NL l.
Proof.
  unfold text_nl_free. rewrite forallb_forall. intros H Hin. specialize (H NL Hin).
  rewrite Z.eqb_refl in H. discriminate H.
Qed.

Lemma style_nl_free_inv g : style_nl_free g = true ->
  (forall b, ~ In NL (seg_anc g b)) /\ (forall l h, ~ In NL (seg_self g l h)).
Proof.
  unfold style_nl_free. cbn [forallb]. rewrite !andb_true_iff.
  intros (A & B & C & D & E & F & _). split.
  - intros [|]; cbn [seg_anc]; apply text_nl_free_spec; assumption.
  - intros [|] [|]; cbn [seg_self]; apply text_nl_free_spec; assumption.
Qed.

Lemma pfx_rel_nl_free g top c : style_nl_free g = true -> ~ In NL (pfx_rel g top c).
Proof.
  intros NF. destruct (style_nl_free_inv g NF) as [A S].
  unfold pfx_rel. destruct (rdepth top c); [intros []|].
  unfold full_prefix. intros Hin. apply in_app_or in Hin as [Hin|Hin].
  - apply in_concat in Hin as (x & Hx & Hin). apply in_map_iff in Hx as (b & <- & _).
    exact (A b Hin).
  - exact (S _ _ Hin).
Qed.

Section TextDecode.
  Variable table : list (text * segs).
  Variable default_style : text.
  Variable rend : rt -> text.
  Hypothesis rend_nl_free : forall t, ~ In NL (rend t).

  Lemma rel_lines_nl_free g top roots : style_nl_free g = true ->
    Forall (fun l => ~ In NL l) (zip_lines rend (rel_prefixes g top roots) (pre_f roots)).
  Proof.
    intros NF. rewrite <- lines_rel_zip. unfold lines_rel. apply Forall_forall.
    intros l Hl. apply in_map_iff in Hl as (c & <- & _). intros Hin.
    apply in_app_or in Hin as [Hin|Hin].
    - exact (pfx_rel_nl_free g top c NF Hin).
    - exact (rend_nl_free _ Hin).
  Qed.

  (* Tree.format() with the default join: the text alone, split at the line
     breaks, decodes to the shape (renderings known and free of line breaks) *)
  Theorem tree_text_decodes a style g trepr f ti txt :
    is_list_style a = false ->
    resolve_style table default_style a = Ok style -> unpack style = Some g ->
    style_okb g = true -> style_nl_free g = true ->
    Forall (fun l => ~ In NL l) (title_lines trepr false ti) ->
    tree_format table default_style rend trepr f a ti [NL] = Ok txt ->
    decode_shape g (prefixes_of_lines (skipn (length (title_lines trepr false ti)) (split_on NL txt))
                                      (map rend (pre_f f)))
    = shape_f f.
  Proof.
    intros NL' R U OK NF TF E. unfold tree_format in E.
    destruct (tree_format_lines table default_style rend a style g trepr f ti NL' R U) as [E' L].
    rewrite E' in E. cbn [res_join] in E. injection E as <-.
    set (lines := title_lines trepr false ti ++ zip_lines rend (rel_prefixes g (has_title false ti) f) (pre_f f)).
    destruct lines as [|l0 ls] eqn:EL.
    - (* nothing is printed: no title and an empty forest *)
      apply app_eq_nil in EL as [_ Z]. destruct f as [|t f'].
      + cbn [flat_map map]. unfold prefixes_of_lines. rewrite combine_nil. reflexivity.
      + exfalso. unfold rel_prefixes in Z. rewrite ctxs_l_cons, ctxs_t_unfold in Z.
        cbn [flat_map] in Z. rewrite pre_unfold in Z. cbn [app map] in Z.
        unfold zip_lines in Z. cbn [combine map] in Z. discriminate Z.
    - rewrite <- EL. rewrite split_join.
      + unfold lines. rewrite skipn_app_len, prefixes_of_zip by exact L. apply decode_rel. exact OK.
      + rewrite EL. discriminate.
      + unfold lines. apply Forall_app. split; [exact TF|]. apply rel_lines_nl_free. exact NF.
  Qed.
End TextDecode.

Definition table_nl_free (tbl : list (text * segs)) : bool :=
  forallb (fun e => match unpack (snd e) with Some g => style_nl_free g | None => false end) tbl.

Theorem table_styles_flags tbl : table_ok tbl = true -> table_flags_ok tbl = true ->
  forall n s g, lookup_style tbl n = Some s -> unpack s = Some g ->
  style_okb g = true
  /\ (is_space_style n = false -> anc_distinct g = true /\ last_distinct g = true)
  /\ (length s = 6 -> hc_distinct g = true).
Proof.
  intros T TF n s g Lk U. split.
  - destruct (table_ok_lookup tbl n s T Lk) as (g' & U' & OK).
    rewrite U in U'. injection U' as <-. exact OK.
  - exact (table_flags_lookup tbl n s g TF Lk U).
Qed.
