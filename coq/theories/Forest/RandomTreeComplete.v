(* Converse of the conformance theorem: every forest that conforms to a
   definition is produced by SOME stream.  Together with make_tree_conf this makes
   [Conf] the exact set of possible results – the specification is not weaker than
   the code. *)
From Coq Require Import List ZArith Bool Arith Lia QArith Qreduction Lqa.
From NT Require Import Sx Rose RandomTree RandomTreeProofs.
Import ListNotations.
Open Scope Z_scope.

(* [f] answers [a] after consuming exactly the draws [ds], whatever follows *)
Definition produces {X} (f : stream -> X * stream) (a : X) : Prop :=
  exists ds, forall s, f (ds ++ s) = (a, s).

Lemma produces_ret {X} (f : stream -> X * stream) a : (forall s, f s = (a, s)) -> produces f a.
Proof. intros H. exists []. exact H. Qed.

Lemma produces_bind {X Y} (f : stream -> X * stream) (g : X -> stream -> Y * stream)
      (h : stream -> Y * stream) a b :
  (forall s, h s = let (x, s1) := f s in g x s1) -> produces f a -> produces (g a) b -> produces h b.
Proof.
  intros Hh [ds1 H1] [ds2 H2]. exists (ds1 ++ ds2). intros s.
  rewrite Hh, <- app_assoc, H1. apply H2.
Qed.

(* ------------------------------------------------------------------ draws *)
Lemma Qeq_bool_false p q : ~ (p == q)%Q -> Qeq_bool p q = false.
Proof. intros H. destruct (Qeq_bool p q) eqn:E; [|reflexivity]. exfalso. apply H. apply Qeq_bool_eq. exact E. Qed.

Lemma Qle_bool_false p q : (q < p)%Q -> Qle_bool p q = false.
Proof.
  intros H. destruct (Qle_bool p q) eqn:E; [|reflexivity]. apply Qle_bool_iff in E.
  exfalso. exact (Qlt_not_le _ _ H E).
Qed.

Lemma rand01_exact (q : Q) : (0 <= q)%Q -> (q < 1)%Q -> rand01 (D (Qnum q) (Zpos (Qden q)) []) = q.
Proof.
  intros H0 H1. unfold rand01. cbn [dn dd]. change (Z.to_pos (Zpos (Qden q))) with (Qden q).
  destruct q as [n d]. cbn [Qnum Qden] in *. unfold Qle, Qlt in *. cbn [Qnum Qden] in *.
  rewrite Z.mod_small by lia. reflexivity.
Qed.

Lemma skip_produces p (sk : bool) :
  (0 <= p)%Q -> (p <= 1)%Q -> (sk = false -> ~ (p == 0)%Q) -> (sk = true -> ~ (p == 1)%Q) ->
  produces (skip_value p) sk.
Proof.
  intros H0 H1 Hf Ht. destruct sk.
  - specialize (Ht eq_refl). exists [D (Qnum p) (Zpos (Qden p)) []]. intros s.
    unfold skip_value. rewrite (Qeq_bool_false _ _ Ht). cbn [app next].
    rewrite rand01_exact; [|exact H0|].
    + assert (E : Qle_bool p p = true) by (apply Qle_bool_iff; apply Qle_refl). rewrite E. reflexivity.
    + apply Qle_lt_or_eq in H1. destruct H1 as [H1|H1]; [exact H1 | contradiction].
  - specialize (Hf eq_refl). destruct (Qeq_bool p 1) eqn:E1.
    + exists []. intros s. unfold skip_value. rewrite E1. reflexivity.
    + exists [D 0 1 []]. intros s. unfold skip_value. rewrite E1. cbn [app next].
      rewrite Qle_bool_false; [reflexivity|].
      change (rand01 (D 0 1 [])) with (0 # 1)%Q.
      apply Qle_lt_or_eq in H0. destruct H0 as [H0|H0]; [exact H0|]. exfalso. apply Hf. symmetry. exact H0.
Qed.

(* the part of generate() after the skip test *)
Definition draw_value (r : rnd) (s : stream) : value * stream :=
  match r with
  | RRangeI lo hi _ _ => let (d, s2) := next s in (VInt (randrange lo hi d), s2)
  | RRangeF lo hi _ _ => let (d, s2) := next s in (VFlt (uniform lo hi d), s2)
  | RDate mn days stamp _ =>
      let (d, s2) := next s in
      let res := mn + randrange 0 days d in (if stamp then VFlt (js_stamp res) else VDate res, s2)
  | RValue v _ => (v, s)
  | RSample vals counts _ => let (d, s2) := next s in (sample vals counts d, s2)
  | RText arg _ => let (d, s2) := next s in (VStr (arg ++ dt d), s2)
  end.

Lemma gen_eq r s :
  gen r s = let (sk, s1) := skip_value (prob_of r) s in if sk then (none_of r, s1) else draw_value r s1.
Proof.
  destruct r; cbn [gen prob_of none_of draw_value];
    destruct (skip_value _ s) as [[|] s1]; reflexivity.
Qed.

Lemma pick_inverse : forall vals cnts raw c,
  Forall (fun x => 0 <= x) cnts -> In (raw, c) (combine vals cnts) -> 0 < c ->
  exists k, 0 <= k < total cnts /\ pick vals cnts k = raw.
Proof.
  induction vals as [|v vs IH]; intros [|c0 cs] raw c Hnn Hin Hc; cbn [combine] in Hin; try (destruct Hin; fail).
  inversion Hnn as [|x l Hc0 Hcs]; subst.
  change (total (c0 :: cs)) with (c0 + total cs).
  pose proof (total_nonneg cs Hcs) as Ht.
  destruct Hin as [Hin|Hin].
  - injection Hin as -> ->. exists 0. split; [lia|]. cbn [pick].
    destruct (0 <? c) eqn:E; [reflexivity | apply Z.ltb_ge in E; lia].
  - destruct (IH cs raw c Hcs Hin Hc) as [k [Hk Hp]]. exists (k + c0). split; [lia|].
    cbn [pick]. destruct (k + c0 <? c0) eqn:E; [apply Z.ltb_lt in E; lia|].
    replace (k + c0 - c0) with k by lia. exact Hp.
Qed.

Lemma draw_produces r raw : rnd_wf r -> in_range r raw -> produces (draw_value r) raw.
Proof.
  destruct r as [lo hi p none | lo hi p none | mn days stamp p | v p | vals counts p | arg p];
    cbn [rnd_wf in_range draw_value]; intros Hwf Hin.
  - destruct Hin as [z [-> Hz]]. exists [D (z - lo) 1 []]. intros s. cbn [app next draw_value].
    unfold randrange. cbn [dn]. rewrite Z.mod_small by lia. do 2 f_equal. lia.
  - destruct Hin as [q [-> [Hlo [Hhi Hred]]]].
    set (r0 := ((q - lo) / (hi - lo))%Q).
    assert (Hw : (0 < hi - lo)%Q) by lra.
    assert (Hne : ~ (hi - lo == 0)%Q) by lra.
    assert (H0 : (0 <= r0)%Q).
    { unfold r0. apply Qle_shift_div_l; [exact Hw | lra]. }
    assert (H1 : (r0 < 1)%Q).
    { unfold r0. apply Qlt_shift_div_r; [exact Hw | lra]. }
    exists [D (Qnum r0) (Zpos (Qden r0)) []]. intros s. cbn [app next draw_value].
    unfold uniform. rewrite (rand01_exact r0 H0 H1). do 2 f_equal.
    rewrite <- Hred. apply Qred_complete. unfold r0. field. exact Hne.
  - destruct Hin as [k [Hk ->]]. exists [D k 1 []]. intros s. cbn [app next draw_value].
    unfold randrange. cbn [dn]. rewrite Z.sub_0_r, Z.mod_small by lia. rewrite Z.add_0_l. reflexivity.
  - subst raw. apply produces_ret. intros s. reflexivity.
  - destruct Hin as [c [Hin Hc]]. destruct Hwf as [Hlen [Hnn Htot]].
    destruct (pick_inverse _ _ _ _ Hnn Hin Hc) as [k [Hk Hp]].
    exists [D k 1 []]. intros s. cbn [app next draw_value]. unfold sample. cbn [dn].
    rewrite Z.mod_small by lia. rewrite Hp. reflexivity.
  - destruct Hin as [t ->]. exists [D 0 1 t]. intros s. cbn [app next draw_value]. reflexivity.
Qed.

(* what the constructors assert about the probability *)
Definition prob_ok (r : rnd) : Prop := (0 <= prob_of r)%Q /\ (prob_of r <= 1)%Q.

Lemma gen_produces r raw : rnd_wf r -> prob_ok r -> rnd_may r raw -> produces (gen r) raw.
Proof.
  intros Hwf [P0 P1] [[Hp Hin]|[Hp ->]].
  - apply (produces_bind (skip_value (prob_of r))
                         (fun sk s1 => if sk then (none_of r, s1) else draw_value r s1) (gen r) false raw).
    + intros s. apply gen_eq.
    + apply skip_produces; try assumption; [intros _; exact Hp | discriminate].
    + apply draw_produces; assumption.
  - apply (produces_bind (skip_value (prob_of r))
                         (fun sk s1 => if sk then (none_of r, s1) else draw_value r s1) (gen r) true (none_of r)).
    + intros s. apply gen_eq.
    + apply skip_produces; try assumption; [discriminate | intros _; exact Hp].
    + apply produces_ret. intros s. reflexivity.
Qed.

(* ------------------------------------------------------- dicts and counts *)
Definition sval_wf2 (sv : sval) : Prop := match sv with SV _ => True | SR r => rnd_wf r /\ prob_ok r end.
Definition spec_wf2 (sp : spec) : Prop := Forall (fun kv => sval_wf2 (snd kv)) sp.
Definition def_wf2 (Df : sdef) : Prop :=
  Forall (fun e => spec_wf2 (snd e)) (d_types Df) /\
  Forall (fun e => Forall (fun c => spec_wf2 (snd c)) (snd e)) (d_rels Df).

Lemma getd_wf2 k types : Forall (fun e => spec_wf2 (snd e)) types -> spec_wf2 (getd k types).
Proof.
  intros H. unfold getd. destruct (lookup k types) eqn:E; [|constructor].
  apply lookup_In in E. rewrite Forall_forall in H. exact (H _ E).
Qed.

Lemma merge_wf2 nt sp types :
  Forall (fun e => spec_wf2 (snd e)) types -> spec_wf2 sp -> spec_wf2 (merge_specs nt sp types).
Proof.
  intros Ht Hs. unfold merge_specs, spec_wf2.
  apply Forall_update; [apply Forall_update; apply getd_wf2; exact Ht | exact Hs].
Qed.

Lemma strip_wf2 m : spec_wf2 m -> spec_wf2 (strip m).
Proof. intros H. unfold strip, spec_wf2. do 3 apply Forall_remove_key. exact H. Qed.

Lemma resolve_dict_produces i path : forall d a, spec_wf2 d -> attrs_ok i path d a ->
  produces (resolve_dict d i (dotted path)) a.
Proof.
  intros d a Hwf Ha. induction Ha as [|k sv v m a Hv Ha IH|k sv m a Hs Ha IH].
  - apply produces_ret. intros s. reflexivity.
  - inversion Hwf as [|x xs Hsv Hwf']; subst. cbn [snd] in Hsv. specialize (IH Hwf').
    destruct sv as [v0|r]; cbn [val_ok] in Hv.
    + subst v. destruct IH as [ds H]. exists ds. intros s. cbn [resolve_dict]. rewrite H. reflexivity.
    + destruct Hv as [raw [Hm [Hnn ->]]]. destruct Hsv as [Hr Hp].
      apply (produces_bind (gen r)
               (fun raw0 s1 => let (rest, s2) := resolve_dict m i (dotted path) s1 in
                               (match (match raw0 with VNone => None | _ => Some raw0 end) with
                                | None => rest | Some v => (k, expand i (dotted path) v) :: rest end, s2))
               _ raw).
      * intros s. cbn [resolve_dict]. destruct (gen r s) as [raw0 s1]. reflexivity.
      * apply gen_produces; assumption.
      * destruct IH as [ds H]. exists ds. intros s. rewrite H.
        destruct raw; try reflexivity. exfalso. apply Hnn. reflexivity.
  - inversion Hwf as [|x xs Hsv Hwf']; subst. cbn [snd] in Hsv. specialize (IH Hwf').
    destruct sv as [v0|r]; cbn [may_skip] in Hs; [destruct Hs|]. destruct Hsv as [Hr Hp].
    apply (produces_bind (gen r)
             (fun raw0 s1 => let (rest, s2) := resolve_dict m i (dotted path) s1 in
                             (match (match raw0 with VNone => None | _ => Some raw0 end) with
                              | None => rest | Some v => (k, expand i (dotted path) v) :: rest end, s2))
             _ VNone).
    + intros s. cbn [resolve_dict]. destruct (gen r s) as [raw0 s1]. reflexivity.
    + apply gen_produces; assumption.
    + destruct IH as [ds H]. exists ds. intros s. rewrite H. reflexivity.
Qed.

Lemma resolve_count_produces c n :
  (forall sv, c = Some sv -> sval_wf2 sv) -> count_ok c n -> produces (resolve_count c) n.
Proof.
  intros Hwf Hc. destruct c as [[v|r]|]; cbn [count_ok] in Hc.
  - subst n. apply produces_ret. intros s. reflexivity.
  - destruct Hc as [raw [Hm ->]]. destruct (Hwf _ eq_refl) as [Hr Hp].
    destruct (gen_produces r raw Hr Hp Hm) as [ds H]. exists ds. intros s.
    cbn [resolve_count]. rewrite H. reflexivity.
  - subst n. apply produces_ret. intros s. reflexivity.
Qed.

Lemma smap_produces {X Y} (f : X -> stream -> Y * stream) : forall l ys,
  Forall2 (fun x y => produces (f x) y) l ys -> produces (smap f l) ys.
Proof.
  induction 1 as [|x y l ys Hxy HF IH].
  - apply produces_ret. intros s. reflexivity.
  - destruct Hxy as [ds1 H1]. destruct IH as [ds2 H2]. exists (ds1 ++ ds2). intros s.
    cbn [smap]. rewrite <- app_assoc, H1, H2. reflexivity.
Qed.

(* ------------------------------------------------------------ the theorem *)
Lemma def_wf2_wf Df : def_wf2 Df -> def_wf Df.
Proof.
  assert (S : forall sp, spec_wf2 sp -> spec_wf sp).
  { intros sp H. unfold spec_wf2, spec_wf in *. eapply Forall_impl; [|exact H].
    intros [k [v|r]]; cbn [snd sval_wf sval_wf2]; [trivial | intros [Hr _]; exact Hr]. }
  intros [H1 H2]. split.
  - eapply Forall_impl; [|exact H1]. intros e. apply S.
  - eapply Forall_impl; [|exact H2]. intros e He. eapply Forall_impl; [|exact He]. intros c. apply S.
Qed.

Section Complete.
  Variable Df : sdef.
  Hypothesis Hwf : def_wf2 Df.
  Hypothesis Hcw : counts_wf Df.

  Lemma mspec_wf2 p cs e : lookup p (d_rels Df) = Some cs -> In e cs -> spec_wf2 (mspec Df e).
  Proof.
    intros Hl Hin. destruct Hwf as [Ht Hr]. apply merge_wf2; [exact Ht|].
    apply lookup_In in Hl. rewrite Forall_forall in Hr. specialize (Hr _ Hl). cbn [snd] in Hr.
    rewrite Forall_forall in Hr. exact (Hr _ Hin).
  Qed.

  Lemma count_ok_pos c n : count_ok c n -> (0 < n)%nat -> can_be_pos c = true.
  Proof.
    destruct c as [[v|r]|]; cbn [count_ok can_be_pos]; intros H Hn; try reflexivity.
    subst n. apply Nat.ltb_lt. exact Hn.
  Qed.

  Let Hwf1 : def_wf Df := def_wf2_wf Df Hwf.

  Theorem make_tree_complete (rk : text -> nat) : rank_ok Df rk ->
    forall fuel ptype path f, (rk ptype < fuel)%nat -> Conf Df ptype path f ->
      produces (make_tree Df fuel ptype (dotted path)) f.
  Proof.
    intros Hrk. induction fuel as [|fuel IH]; intros ptype path f Hfuel HC; [lia|].
    inversion HC as [pt pa cs groups Hl HF]; subst.
    assert (HP : produces (smap (make_group Df (make_tree Df fuel) (dotted path)) cs) groups).
    { apply smap_produces.
      assert (HF' : Forall2 (fun e g => In e cs /\
                 exists n, count_ok (lookup K_count (mspec Df e)) n /\
                   Forall2 (fun i t => g_type t = fst e /\ data_ok (mspec Df e) i (path ++ [i]) t /\
                              (mem (fst e) (d_rels Df) = true -> Conf Df (fst e) (path ++ [i]) (g_ch t)) /\
                              (mem (fst e) (d_rels Df) = false -> g_ch t = [])) (seq 1 n) g) cs groups).
      { clear -HF. induction HF as [|e g cs groups He HF IH]; constructor.
        - split; [left; reflexivity | exact He].
        - eapply Forall2_imp; [|exact IH]. cbn beta. intros a b [Hin H]. split; [right; exact Hin | exact H]. }
      eapply Forall2_imp; [|exact HF']. cbn beta. clear HF HF'.
      intros e g [Hin [n [Hc HG]]].
      pose proof (mspec_wf2 _ _ _ Hl Hin) as Hmw.
      apply (produces_bind (resolve_count (lookup K_count (mspec Df e)))
               (fun cnt s1 => smap (make_node Df (make_tree Df fuel) (fst e) (cb_of (lookup K_callback (mspec Df e)))
                                       (fac_of (lookup K_factory (mspec Df e))) (strip (mspec Df e)) (dotted path))
                                   (seq 1 cnt) s1) _ n).
      - intros s. unfold make_group. fold (mspec Df e).
        rewrite (count_err_false _ s (fun sv E => lookup_wf _ _ _ (mspec_wf Df Hwf1 _ _ _ Hl Hin) E) (Hcw _ _ _ Hl Hin)).
        destruct (resolve_count (lookup K_count (mspec Df e)) s) as [cnt s1]. reflexivity.
      - apply resolve_count_produces; [|exact Hc].
        intros sv E. apply lookup_In in E. unfold spec_wf2 in Hmw. rewrite Forall_forall in Hmw. exact (Hmw _ E).
      - apply smap_produces.
        assert (HG' : Forall2 (fun i t => In i (seq 1 n) /\ (g_type t = fst e /\ data_ok (mspec Df e) i (path ++ [i]) t /\
                              (mem (fst e) (d_rels Df) = true -> Conf Df (fst e) (path ++ [i]) (g_ch t)) /\
                              (mem (fst e) (d_rels Df) = false -> g_ch t = []))) (seq 1 n) g).
        { clear -HG. induction HG as [|i t l g Hi HG IH]; constructor.
          - split; [left; reflexivity | exact Hi].
          - eapply Forall2_imp; [|exact IH]. cbn beta. intros a b [Hin H]. split; [right; exact Hin | exact H]. }
        eapply Forall2_imp; [|exact HG']. cbn beta. clear HG HG'.
        intros i t [Hi [Hty [[Hfac [a0 [Ha Hattrs]]] [Hch Hleaf]]]].
        apply in_seq in Hi.
        destruct t as [ty fac attrs ch]. cbn [g_type g_fac g_attrs g_ch] in *. subst ty fac attrs.
        apply (produces_bind (resolve_dict (strip (mspec Df e)) i (dotted (path ++ [i])))
                 (fun data s2 =>
                    let (ch0, s3) := if mem (fst e) (d_rels Df) then make_tree Df fuel (fst e) (dotted (path ++ [i])) s2
                                     else ([], s2) in
                    (G (fst e) (fac_of (lookup K_factory (mspec Df e)))
                       (apply_cb (cb_of (lookup K_callback (mspec Df e))) data) ch0, s3)) _ a0).
        + intros s. unfold make_node. rewrite hier_dotted.
          destruct (resolve_dict (strip (mspec Df e)) i (dotted (path ++ [i])) s) as [data s2]. reflexivity.
        + apply resolve_dict_produces; [apply strip_wf2; exact Hmw | exact Ha].
        + destruct (mem (fst e) (d_rels Df)) eqn:Hm.
          * assert (Hlt : (rk (fst e) < fuel)%nat).
            { assert (rk (fst e) < rk ptype)%nat; [|lia].
              apply (Hrk ptype cs e Hl Hin); [apply (count_ok_pos _ n Hc); lia | exact Hm]. }
            destruct (IH (fst e) (path ++ [i]) ch Hlt (Hch eq_refl)) as [ds H].
            exists ds. intros s. rewrite H. reflexivity.
          * rewrite (Hleaf eq_refl). apply produces_ret. intros s. reflexivity. }
    destruct HP as [ds H]. exists ds. intros s. cbn [make_tree]. rewrite Hl, H. reflexivity.
  Qed.
End Complete.

(* ------------------------------------------------------------------------ *)
(* EXACTNESS: the conforming forests are exactly the possible results *)
Theorem conf_exact Df (rk : text -> nat) : def_wf2 Df -> counts_wf Df -> rank_ok Df rk ->
  forall fuel ptype path f, (rk ptype < fuel)%nat -> mem ptype (d_rels Df) = true ->
    (Conf Df ptype path f <-> exists s, fst (make_tree Df fuel ptype (dotted path) s) = f).
Proof.
  intros Hwf Hcw Hrk fuel ptype path f Hfuel Hmem. split.
  - intros HC. destruct (make_tree_complete Df Hwf Hcw rk Hrk fuel ptype path f Hfuel HC) as [ds H].
    exists (ds ++ []). rewrite H. reflexivity.
  - intros [s <-]. apply (make_tree_conf Df (def_wf2_wf Df Hwf) Hcw rk Hrk); assumption.
Qed.

(* decidable form of def_wf2 *)
Definition sval_wf2b (sv : sval) : bool :=
  match sv with
  | SV _ => true
  | SR r => rnd_wfb r && Qle_bool 0 (prob_of r) && Qle_bool (prob_of r) 1
  end.
Definition spec_wf2b (sp : spec) : bool := forallb (fun kv => sval_wf2b (snd kv)) sp.
Definition def_wf2b (Df : sdef) : bool :=
  forallb (fun e => spec_wf2b (snd e)) (d_types Df) &&
  forallb (fun e => forallb (fun c => spec_wf2b (snd c)) (snd e)) (d_rels Df).

Lemma spec_wf2b_ok sp : spec_wf2b sp = true -> spec_wf2 sp.
Proof.
  unfold spec_wf2b, spec_wf2. rewrite forallb_forall, Forall_forall. intros H kv Hin.
  specialize (H kv Hin). destruct (snd kv) as [v|r]; cbn [sval_wf2b sval_wf2] in *; [exact Logic.I|].
  apply andb_true_iff in H. destruct H as [H H2]. apply andb_true_iff in H. destruct H as [H0 H1].
  split; [exact (rnd_wfb_ok r H0) | split; apply Qle_bool_iff; assumption].
Qed.

Lemma def_wf2b_ok Df : def_wf2b Df = true -> def_wf2 Df.
Proof.
  unfold def_wf2b, def_wf2. intros H. apply andb_true_iff in H. destruct H as [H1 H2]. split.
  - apply Forall_forall. intros e He. rewrite forallb_forall in H1. exact (spec_wf2b_ok _ (H1 e He)).
  - apply Forall_forall. intros e He. rewrite forallb_forall in H2. specialize (H2 e He).
    apply Forall_forall. intros c Hc. rewrite forallb_forall in H2. exact (spec_wf2b_ok _ (H2 c Hc)).
Qed.
