(* C09 — "the name FULLY matches the pattern": denotational semantics of the
   regular expressions of Regex.v, independent of the derivative engine, and the
   proofs that [fullmatchb] decides membership of the whole string, that
   [prefix_matchb] (= re.match) decides membership of some prefix, and that the
   two differ. *)
From Coq Require Import List ZArith Bool Arith Lia.
From NT Require Import Sx Rose ListFacts RoseFacts Search SearchProofs Regex.
Import ListNotations.

(* the language of a pattern: which strings it matches as a whole *)
Inductive matches (ic : bool) : regex -> text -> Prop :=
| M_eps : matches ic REps []
| M_cls neg rs c : cls_match ic neg rs c = true -> matches ic (RCls neg rs) [c]
| M_cat a b s t : matches ic a s -> matches ic b t -> matches ic (RCat a b) (s ++ t)
| M_altl a b s : matches ic a s -> matches ic (RAlt a b) s
| M_altr a b s : matches ic b s -> matches ic (RAlt a b) s
| M_star0 a : matches ic (RStar a) []
| M_star1 a s t : matches ic a s -> matches ic (RStar a) t -> matches ic (RStar a) (s ++ t).

Lemma matches_empty_inv ic w : matches ic REmpty w -> False.
Proof. intros H. inversion H. Qed.
Lemma matches_eps_inv ic w : matches ic REps w -> w = [].
Proof. intros H. inversion H. reflexivity. Qed.
Lemma matches_cls_inv ic neg rs w : matches ic (RCls neg rs) w -> exists c, w = [c] /\ cls_match ic neg rs c = true.
Proof. intros H. inversion H; subst. eauto. Qed.
Lemma matches_cat_inv ic a b w : matches ic (RCat a b) w -> exists s t, w = s ++ t /\ matches ic a s /\ matches ic b t.
Proof. intros H. inversion H; subst. eauto. Qed.
Lemma matches_alt_inv ic a b w : matches ic (RAlt a b) w -> matches ic a w \/ matches ic b w.
Proof. intros H. inversion H; subst; auto. Qed.

Lemma nullable_matches ic r : nullable r = true <-> matches ic r [].
Proof.
  induction r as [| |neg rs|a IHa b IHb|a IHa b IHb|a IHa]; cbn [nullable].
  - split; [discriminate|]. intros H. destruct (matches_empty_inv _ _ H).
  - split; [intros _; constructor|reflexivity].
  - split; [discriminate|]. intros H. apply matches_cls_inv in H as (c & E & _). discriminate E.
  - rewrite andb_true_iff, IHa, IHb. split.
    + intros [Ha Hb]. change (@nil Z) with (@nil Z ++ []). constructor; assumption.
    + intros H. apply matches_cat_inv in H as (s & t & E & Hs & Ht).
      symmetry in E. apply app_eq_nil in E as [-> ->]. split; assumption.
  - rewrite orb_true_iff, IHa, IHb. split.
    + intros [H|H]; [apply M_altl|apply M_altr]; exact H.
    + apply matches_alt_inv.
  - split; [intros _; constructor|reflexivity].
Qed.

Lemma star_cons ic a c s :
  matches ic (RStar a) (c :: s) ->
  exists s1 s2, s = s1 ++ s2 /\ matches ic a (c :: s1) /\ matches ic (RStar a) s2.
Proof.
  intros H. remember (RStar a) as r eqn:Er. remember (c :: s) as w eqn:Ew.
  revert c s Ew. induction H as [|neg rs c0 Hc|a0 b0 s0 t0 H1 IH1 H2 IH2|a0 b0 s0 H1 IH1|a0 b0 s0 H1 IH1|a0|a0 s0 t0 H1 IH1 H2 IH2];
    intros c s Ew; try discriminate Er.
  - discriminate Ew.
  - injection Er as ->. destruct s0 as [|c' s0'].
    + cbn in Ew. exact (IH2 eq_refl c s Ew).
    + cbn in Ew. injection Ew as Ec Es. subst c' s. exists s0', t0. auto.
Qed.

Lemma deriv_matches ic c r : forall s, matches ic (deriv ic c r) s <-> matches ic r (c :: s).
Proof.
  induction r as [| |neg rs|a IHa b IHb|a IHa b IHb|a IHa]; intros s; cbn [deriv].
  - split; intros H; destruct (matches_empty_inv _ _ H).
  - split; intros H; [destruct (matches_empty_inv _ _ H)|apply matches_eps_inv in H; discriminate H].
  - destruct (cls_match ic neg rs c) eqn:E.
    + split.
      * intros H. apply matches_eps_inv in H. subst s. constructor. exact E.
      * intros H. apply matches_cls_inv in H as (c0 & E0 & _). injection E0 as _ ->. constructor.
    + split; intros H; [destruct (matches_empty_inv _ _ H)|].
      apply matches_cls_inv in H as (c0 & E0 & Hc). injection E0 as -> _. congruence.
  - assert (Hcat : forall s, matches ic (RCat (deriv ic c a) b) s -> matches ic (RCat a b) (c :: s)).
    { intros s0 H. apply matches_cat_inv in H as (s1 & s2 & -> & H1 & H2).
      change (c :: s1 ++ s2) with ((c :: s1) ++ s2). constructor; [apply IHa; exact H1|exact H2]. }
    assert (Hback : forall s, matches ic (RCat a b) (c :: s) ->
                    matches ic (RCat (deriv ic c a) b) s \/ (nullable a = true /\ matches ic (deriv ic c b) s)).
    { intros s0 H. apply matches_cat_inv in H as (s1 & s2 & E & H1 & H2). destruct s1 as [|c' s1'].
      - cbn in E. subst s2. right. split; [apply (nullable_matches ic); exact H1|apply IHb; exact H2].
      - cbn in E. injection E as -> ->. left. constructor; [apply IHa; exact H1|exact H2]. }
    destruct (nullable a) eqn:Na.
    + split.
      * intros H. apply matches_alt_inv in H as [H|H]; [apply Hcat; exact H|].
        change (c :: s) with ([] ++ c :: s). constructor; [apply (nullable_matches ic); exact Na|apply IHb; exact H].
      * intros H. destruct (Hback s H) as [H'|[_ H']]; [apply M_altl|apply M_altr]; exact H'.
    + split; [apply Hcat|]. intros H. destruct (Hback s H) as [H'|[E _]]; [exact H'|discriminate E].
  - split.
    + intros H. apply matches_alt_inv in H as [H|H]; [apply M_altl; apply IHa|apply M_altr; apply IHb]; exact H.
    + intros H. apply matches_alt_inv in H as [H|H]; [apply M_altl; apply IHa|apply M_altr; apply IHb]; exact H.
  - split.
    + intros H. apply matches_cat_inv in H as (s1 & s2 & -> & H1 & H2).
      change (c :: s1 ++ s2) with ((c :: s1) ++ s2). constructor; [apply IHa; exact H1|exact H2].
    + intros H. destruct (star_cons ic a c s H) as (s1 & s2 & -> & H1 & H2).
      constructor; [apply IHa; exact H1|exact H2].
Qed.

(* fullmatch: the WHOLE string is in the language of the pattern *)
Theorem fullmatch_iff ic : forall s r, fullmatchb ic r s = true <-> matches ic r s.
Proof.
  induction s as [|c s IH]; intros r; cbn [fullmatchb].
  - apply nullable_matches.
  - rewrite IH. apply deriv_matches.
Qed.

(* re.match: SOME PREFIX of the string is in the language *)
Theorem prefix_match_iff ic : forall s r,
  prefix_matchb ic r s = true <-> exists p q, s = p ++ q /\ matches ic r p.
Proof.
  induction s as [|c s IH]; intros r; cbn [prefix_matchb]; rewrite orb_true_iff.
  - split.
    + intros [H|H]; [|discriminate]. exists [], []. split; [reflexivity|apply nullable_matches; exact H].
    + intros (p & q & E & H). symmetry in E. apply app_eq_nil in E as [-> ->]. left. apply (nullable_matches ic). exact H.
  - split.
    + intros [H|H].
      * exists [], (c :: s). split; [reflexivity|apply nullable_matches; exact H].
      * apply IH in H as (p & q & -> & H). exists (c :: p), q. split; [reflexivity|apply deriv_matches; exact H].
    + intros (p & q & E & H). destruct p as [|c' p'].
      * left. apply (nullable_matches ic). exact H.
      * cbn in E. injection E as <- ->. right. apply IH. exists p', q. split; [reflexivity|apply deriv_matches; exact H].
Qed.

Lemma fullmatch_prefix ic r s : fullmatchb ic r s = true -> prefix_matchb ic r s = true.
Proof.
  intros H. apply prefix_match_iff. exists s, []. split; [symmetry; apply app_nil_r|apply fullmatch_iff; exact H].
Qed.

(* derived forms *)
Lemma matches_plus ic a s :
  matches ic (RPlus a) s <-> exists s1 s2, s = s1 ++ s2 /\ matches ic a s1 /\ matches ic (RStar a) s2.
Proof.
  unfold RPlus. split.
  - intros H. apply matches_cat_inv in H as (s1 & s2 & E & H1 & H2). eauto.
  - intros (s1 & s2 & -> & H1 & H2). constructor; assumption.
Qed.
Lemma matches_opt ic a s : matches ic (ROpt a) s <-> matches ic a s \/ s = [].
Proof.
  unfold ROpt. split.
  - intros H. apply matches_alt_inv in H as [H|H]; [left; exact H|right; apply matches_eps_inv in H; exact H].
  - intros [H| ->]; [apply M_altl; exact H|apply M_altr; constructor].
Qed.
Lemma matches_chr ic c s : matches ic (RChr c) s <-> exists x, s = [x] /\ cls_match ic false [(c, c)] x = true.
Proof.
  unfold RChr. split.
  - apply matches_cls_inv.
  - intros (x & -> & H). constructor. exact H.
Qed.
Lemma chr_exact c x : cls_match false false [(c, c)] x = true <-> x = c.
Proof.
  unfold cls_match. cbn [andb]. rewrite orb_false_r, xorb_false_l.
  unfold in_ranges. cbn [existsb fst snd]. rewrite orb_false_r, andb_true_iff, !Z.leb_le. lia.
Qed.

(* ---- searches by a pattern ------------------------------------------------ *)
Definition name_of (n : rt) : text := i_name (rinfo n).

Lemma dispatch_cases a n :
  cb_match (search_dispatch a) n =
    match a with
    | MaStr r => fullmatchb false r (name_of n)
    | MaSeq r ic => fullmatchb ic r (name_of n)
    | MaCall p => p n
    | MaObj o => Z.eqb (i_obj (rinfo n)) o
    end.
Proof. destruct a; reflexivity. Qed.

Definition pattern_of (a : match_arg) : option (bool * regex) :=
  match a with MaStr r => Some (false, r) | MaSeq r ic => Some (ic, r) | _ => None end.

Lemma node_find_all_pattern f s a ic r add_self k :
  pattern_of a = Some (ic, r) ->
  node_find_all (iterator f s) None (Some (search_dispatch a)) None add_self k
  = Ok (py_limit k (filter (fun n => fullmatchb ic r (name_of n)) (branch f s add_self))).
Proof.
  intros E. rewrite node_find_all_match. do 2 f_equal.
  destruct a; cbn in E; try discriminate; injection E as <- <-; reflexivity.
Qed.

(* without the matcher: exactly the nodes of the branch whose whole name is in the language *)
Lemma node_find_all_pattern_language f s a ic r add_self k res :
  pattern_of a = Some (ic, r) ->
  node_find_all (iterator f s) None (Some (search_dispatch a)) None add_self k = Ok res ->
  (forall x, In x res -> In x (branch f s add_self) /\ matches ic r (name_of x)) /\
  (k = 0 -> forall x, In x (branch f s add_self) -> matches ic r (name_of x) -> In x res) /\
  subseq res (branch f s add_self) /\
  (1 <= k -> length res <= k /\
             exists rest, filter (fun n => fullmatchb ic r (name_of n)) (branch f s add_self) = res ++ rest).
Proof.
  intros E H. rewrite (node_find_all_pattern f s a ic r add_self k E) in H. injection H as <-.
  destruct (limited_filter_props (fun n => fullmatchb ic r (name_of n)) k (branch f s add_self)) as (H1 & H2 & H3 & H4 & H5).
  refine (conj _ (conj _ (conj H3 _))).
  - intros x Hx. destruct (H1 x Hx) as [Hin Hm]. split; [exact Hin|apply fullmatch_iff; exact Hm].
  - intros Hk x Hin Hm. apply (H2 Hk x Hin). apply fullmatch_iff. exact Hm.
  - intros Hk. destruct (H5 Hk) as (_ & Hl & _). split; [exact Hl|exact H4].
Qed.

Lemma node_find_first_pattern f s a ic r :
  pattern_of a = Some (ic, r) ->
  node_find_first (iterator f s) None (Some (search_dispatch a)) None
  = Ok (hd_error (filter (fun n => fullmatchb ic r (name_of n)) (branch f s false))).
Proof.
  intros E. rewrite node_find_first_match. do 2 f_equal.
  destruct a; cbn in E; try discriminate; injection E as <- <-; reflexivity.
Qed.

Lemma tree_find_all_pattern st a ic r k :
  pattern_of a = Some (ic, r) ->
  tree_find_all st None (Some (search_dispatch a)) None k
  = Ok (map rid (py_limit k (filter (fun n => fullmatchb ic r (name_of n)) (pre_f (t_forest st))))).
Proof.
  intros E. rewrite tree_find_all_match. do 3 f_equal.
  destruct a; cbn in E; try discriminate; injection E as <- <-; reflexivity.
Qed.
