(* common.py odds and ends – executable model, no proofs (MiscCommonProofs.v).

     PYTHON_VERSION = ".".join([str(s) for s in sys.version_info[:3]])

     def check_python_version(min_version):
         if sys.version_info < min_version:
             min_ver = ".".join([str(s) for s in min_version[:3]])
             warnings.warn(f"Support for Python version less than `{min_ver}` is deprecated (using {PYTHON_VERSION})", DeprecationWarning, ...)
             return False
         return True

     class TreeError(RuntimeError); class UniqueConstraintError(TreeError); class AmbiguousMatchError(TreeError)

   sys.version_info is (major, minor, micro, 'final', serial): its first three components are ints, the fourth a str –
   a tuple comparison that gets as far as the fourth component against an int raises TypeError. *)
From Coq Require Import List ZArith Bool.
From NT Require Import Sx Rose MiscMapper MiscRepr.
Import ListNotations.

(* Python's tuple `<` on the int prefix: Some r = decided; None = [a] is exhausted while [b] has more components *)
Fixpoint cmp_prefix (a b : list Z) : option bool :=
  match a, b with
  | _, [] => Some false
  | [], _ :: _ => None
  | x :: a', y :: b' => if Z.ltb x y then Some true else if Z.ltb y x then Some false else cmp_prefix a' b'
  end.

Definition E_TYPE : Z := 7%Z.

(* sys.version_info < min_version, for version_info = cur3 ++ ('final', serial) *)
Definition version_lt (cur3 minv : list Z) : Z + bool :=
  match cmp_prefix cur3 minv with Some r => inr r | None => inl E_TYPE end.

Fixpoint join_dot (l : list text) : text :=
  match l with [] => [] | [x] => x | x :: r => x ++ [46%Z] ++ join_dot r end.

Definition python_version (cur3 : list Z) : text := join_dot (map repr_int cur3).

Definition t_warn1 : text :=    (* "Support for Python version less than `" *)
  [83; 117; 112; 112; 111; 114; 116; 32; 102; 111; 114; 32; 80; 121; 116; 104; 111; 110; 32; 118; 101; 114; 115; 105; 111; 110; 32; 108;
   101; 115; 115; 32; 116; 104; 97; 110; 32; 96]%Z.
Definition t_warn2 : text :=    (* "` is deprecated (using " *)
  [96; 32; 105; 115; 32; 100; 101; 112; 114; 101; 99; 97; 116; 101; 100; 32; 40; 117; 115; 105; 110; 103; 32]%Z.

(* result (or TypeError) and the DeprecationWarning message, if one is issued; [real3] is the interpreter the module was
   imported under (PYTHON_VERSION is computed once), [cur3] what sys.version_info says at the call *)
Definition check_python_version (real3 cur3 minv : list Z) : Z + (bool * option text) :=
  match version_lt cur3 minv with
  | inl e => inl e
  | inr true => inr (false, Some (t_warn1 ++ join_dot (map repr_int (firstn 3 minv)) ++ t_warn2 ++ python_version real3 ++ [41%Z]))
  | inr false => inr (true, None)
  end.

(* ---- the exception hierarchy, as a table (class, base) ---------------------------------------------------------------- *)
Fixpoint is_subclass (fuel : nat) (tbl : list (text * text)) (c b : text) : bool :=
  text_eqb c b ||
  match fuel with
  | O => false
  | S k => match find (fun e => text_eqb (fst e) c) tbl with
           | Some e => is_subclass k tbl (snd e) b
           | None => false
           end
  end.
