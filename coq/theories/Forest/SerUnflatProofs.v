(* Rebuilding the forest from the flat list of loaded nodes ([unflat]) gives the
   source forest's shape, with node ids = pre-order positions. *)
From Coq Require Import List ZArith Bool Arith Lia Permutation.
From NT Require Import Sx Rose ListFacts RoseFacts Serialize SerializeSpec SerLayFacts.
Import ListNotations.

Fixpoint root_positions (p0 : nat) (g : forest) : list nat :=
  match g with
  | [] => []
  | c :: r => p0 :: root_positions (p0 + size c) r
  end.

Lemma relabel_unfold infos pos t : relabel infos pos t = T pos (infos pos) (relabel_f infos (S pos) (rch t)).
Proof.
  destruct t as [id i ch]. cbn [relabel rch]. f_equal. generalize (S pos).
  induction ch as [|c ch IH]; intros p; cbn [relabel_f]; [reflexivity|]. now rewrite IH.
Qed.

Lemma find_ln_unique es e : NoDup (map ln_idx es) -> In e es -> find_ln (ln_idx e) es = Some e.
Proof.
  unfold find_ln. induction es as [|x es IH]; intros Hn Hi; [contradiction|].
  cbn [map] in Hn. inversion Hn as [|? ? Hx Hes]; subst. cbn [find]. destruct Hi as [->|Hi].
  - now rewrite Nat.eqb_refl.
  - destruct (Nat.eqb (ln_idx x) (ln_idx e)) eqn:E; [|auto]. apply Nat.eqb_eq in E. exfalso. apply Hx. rewrite E. now apply in_map.
Qed.

Lemma unflat_step es k p : NoDup (map ln_idx es) ->
  unflat (S k) es p = map (fun i => T i (info_at es i) (unflat k es i))
                          (map ln_idx (filter (fun e => Nat.eqb (ln_par e) p) es)).
Proof.
  intros Hn. cbn [unflat]. rewrite map_map. apply map_ext_in. intros e He. apply filter_In in He as [He _].
  unfold info_at. now rewrite (find_ln_unique es e Hn He).
Qed.

Lemma kids_transfer p : forall es (L : list (nat * nat * rt)),
  map ln_idx es = map q_pos L -> map ln_par es = map q_ppos L ->
  map ln_idx (filter (fun e => Nat.eqb (ln_par e) p) es) = map q_pos (filter (fun q => Nat.eqb (q_ppos q) p) L).
Proof.
  induction es as [|e es IH]; intros [|q L] E1 E2; try discriminate; [reflexivity|].
  cbn [map] in E1, E2. injection E1 as Ei E1. injection E2 as Ep E2. cbn [filter]. rewrite Ep.
  destruct (Nat.eqb (q_ppos q) p); cbn [map]; rewrite (IH L E1 E2); [now rewrite Ei|reflexivity].
Qed.

Lemma filter_none {X} (p : X -> bool) l : (forall x, In x l -> p x = false) -> filter p l = [].
Proof.
  induction l as [|x l IH]; intros H; cbn; [reflexivity|]. rewrite (H x (or_introl eq_refl)). apply IH. intros y Hy. apply H. now right.
Qed.

(* children of a given earlier parent inside a forest segment: exactly its roots *)
Lemma kids_roots : forall g pp p0, pp < p0 ->
  map q_pos (filter (fun q => Nat.eqb (q_ppos q) pp) (lay_f pp p0 g)) = root_positions p0 g.
Proof.
  induction g as [|c g IH]; intros pp p0 Hlt; [reflexivity|].
  cbn [lay_f root_positions]. rewrite filter_app, map_app, (IH pp (p0 + size c)) by lia.
  rewrite lay_unfold. cbn [filter q_ppos fst]. rewrite Nat.eqb_refl. cbn [map app q_pos fst snd]. f_equal.
  rewrite filter_none; [reflexivity|]. intros q Hq.
  destruct (lay_f_range (rch c) p0 (S p0) q Hq) as [_ [H|H]]; apply Nat.eqb_neq; lia.
Qed.

Section Unflat.
  Variable L : list (nat * nat * rt).

  Definition outside (A B : list (nat * nat * rt)) (lo hi : nat) : Prop :=
    forall q, In q (A ++ B) -> ~ (lo <= q_ppos q < hi).
  Definition closed (pp p : nat) (t : rt) : Prop :=
    exists A B, L = A ++ lay pp p t ++ B /\ pp < p /\ outside A B p (p + size t).
  Definition closed_f (pp p0 : nat) (g : forest) : Prop :=
    exists A B, L = A ++ lay_f pp p0 g ++ B /\ pp < p0 /\ outside A B p0 (p0 + size_f g).

  Lemma closed_children pp p t : closed pp p t -> closed_f p (S p) (rch t).
  Proof.
    intros (A & B & E & Hlt & Hout). exists (A ++ [(pp, p, t)]), B. rewrite lay_unfold in E. split; [rewrite E; la|]. split; [lia|].
    intros q Hq. rewrite <- app_assoc in Hq. apply in_app_or in Hq as [Hq|Hq].
    - rewrite size_unfold in Hout. intros H. apply (Hout q); [apply in_or_app; now left|lia].
    - cbn [app] in Hq. destruct Hq as [<-|Hq].
      + cbn. lia.
      + rewrite size_unfold in Hout. intros H. apply (Hout q); [apply in_or_app; now right|lia].
  Qed.

  Lemma closed_f_head pp p0 c g : closed_f pp p0 (c :: g) -> closed pp p0 c.
  Proof.
    intros (A & B & E & Hlt & Hout). exists A, (lay_f pp (p0 + size c) g ++ B). cbn [lay_f] in E.
    split; [rewrite E; la|]. split; [exact Hlt|].
    intros q Hq. apply in_app_or in Hq as [Hq|Hq].
    - rewrite size_f_cons in Hout. intros H. apply (Hout q); [apply in_or_app; now left|lia].
    - apply in_app_or in Hq as [Hq|Hq].
      + destruct (lay_f_range g pp (p0 + size c) q Hq) as [_ [H|H]]; lia.
      + rewrite size_f_cons in Hout. intros H. apply (Hout q); [apply in_or_app; now right|lia].
  Qed.

  Lemma closed_f_tail pp p0 c g : closed_f pp p0 (c :: g) -> closed_f pp (p0 + size c) g.
  Proof.
    intros (A & B & E & Hlt & Hout). exists (A ++ lay pp p0 c), B. cbn [lay_f] in E.
    split; [rewrite E; la|]. split; [lia|].
    intros q Hq. rewrite <- app_assoc in Hq. apply in_app_or in Hq as [Hq|Hq].
    - rewrite size_f_cons in Hout. intros H. apply (Hout q); [apply in_or_app; now left|lia].
    - apply in_app_or in Hq as [Hq|Hq].
      + destruct (lay_range c pp p0 q Hq) as [Hr [[H _]|H]]; lia.
      + rewrite size_f_cons in Hout. intros H. apply (Hout q); [apply in_or_app; now right|lia].
  Qed.

  (* the entries naming position p as parent are the roots of t's children *)
  Lemma kids_closed pp p t : closed pp p t ->
    map q_pos (filter (fun q => Nat.eqb (q_ppos q) p) L) = root_positions (S p) (rch t).
  Proof.
    intros (A & B & E & Hlt & Hout). rewrite E, !filter_app, !map_app.
    assert (HA : filter (fun q => Nat.eqb (q_ppos q) p) A = []).
    { apply filter_none. intros q Hq. apply Nat.eqb_neq. intros Hp. apply (Hout q); [apply in_or_app; now left|].
      pose proof (size_unfold t). lia. }
    assert (HB : filter (fun q => Nat.eqb (q_ppos q) p) B = []).
    { apply filter_none. intros q Hq. apply Nat.eqb_neq. intros Hp. apply (Hout q); [apply in_or_app; now right|].
      pose proof (size_unfold t). lia. }
    rewrite HA, HB. cbn [map app]. rewrite app_nil_r, lay_unfold. cbn [filter q_ppos fst].
    replace (Nat.eqb pp p) with false by (symmetry; apply Nat.eqb_neq; lia).
    apply kids_roots. lia.
  Qed.

  Variable es : list lnode.
  Hypothesis Hidx : map ln_idx es = map q_pos L.
  Hypothesis Hpar : map ln_par es = map q_ppos L.
  Hypothesis Hnd : NoDup (map ln_idx es).

  Let infos := info_at es.

  Lemma unflat_closed : forall t pp p fuel, closed pp p t -> size t <= fuel ->
    unflat fuel es p = relabel_f infos (S p) (rch t).
  Proof.
    induction t as [id i ch IH] using rt_ind'. intros pp p fuel Hc Hfuel.
    destruct fuel as [|k]; [rewrite size_unfold in Hfuel; lia|].
    rewrite (unflat_step es k p Hnd), (kids_transfer p es L Hidx Hpar), (kids_closed pp p _ Hc).
    apply closed_children in Hc. cbn [rch] in *. rewrite size_unfold in Hfuel. cbn [rch] in Hfuel.
    assert (Hk : size_f ch <= k) by lia. clear Hfuel.
    revert Hc Hk. generalize (S p) as p0. induction ch as [|c ch IHc]; intros p0 Hc Hk; [reflexivity|].
    inversion IH as [|? ? Hhead Htail]; subst. rewrite size_f_cons in Hk.
    cbn [root_positions map relabel_f]. rewrite relabel_unfold. f_equal.
    - f_equal. apply (Hhead p p0 k); [eapply closed_f_head; exact Hc|lia].
    - apply IHc; [exact Htail|eapply closed_f_tail; exact Hc|lia].
  Qed.
  Lemma unflat_closed_f : forall g pp p0 k, closed_f pp p0 g -> size_f g <= k ->
    map (fun i => T i (infos i) (unflat k es i)) (root_positions p0 g) = relabel_f infos p0 g.
  Proof.
    induction g as [|c g IH]; intros pp p0 k Hc Hk; [reflexivity|]. rewrite size_f_cons in Hk.
    cbn [root_positions map relabel_f]. rewrite relabel_unfold. f_equal.
    - f_equal. apply (unflat_closed c pp p0 k); [eapply closed_f_head; exact Hc|lia].
    - apply (IH pp); [eapply closed_f_tail; exact Hc|lia].
  Qed.
End Unflat.

(* the whole forest *)
Lemma unflat_forest f es :
  map ln_idx es = map q_pos (lay_f 0 1 f) -> map ln_par es = map q_ppos (lay_f 0 1 f) ->
  unflat (S (length es)) es 0 = relabel_f (info_at es) 1 f.
Proof.
  intros Hidx Hpar.
  assert (Hnd : NoDup (map ln_idx es)).
  { rewrite Hidx. rewrite lay_f_positions. apply seq_NoDup. }
  assert (Hlen : length es = size_f f).
  { rewrite <- (map_length ln_idx), Hidx, lay_f_positions, seq_length. reflexivity. }
  rewrite (unflat_step es _ 0 Hnd), (kids_transfer 0 es _ Hidx Hpar). rewrite kids_roots by lia.
  apply (unflat_closed_f (lay_f 0 1 f) es Hidx Hpar Hnd f 0 1).
  - exists [], []. rewrite app_nil_r. split; [reflexivity|]. split; [lia|]. intros q [].
  - lia.
Qed.
