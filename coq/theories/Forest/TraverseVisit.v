(* C06 — visit(): callbacks that continue / skip / stop, against the iterators. *)
From Coq Require Import List ZArith Bool Arith Lia Permutation.
From NT Require Import Sx Rose ListFacts RoseFacts Traverse TraverseProofs TraverseLevelOrd.
Import ListNotations.

(* ------------------------------------------------------------------ *)
(* subsequences                                                        *)
(* ------------------------------------------------------------------ *)

Inductive subseq {X} : list X -> list X -> Prop :=
| ss_nil : subseq [] []
| ss_skip x l m : subseq l m -> subseq l (x :: m)
| ss_keep x l m : subseq l m -> subseq (x :: l) (x :: m).

Section Subseq.
  Context {X : Type}.
  Implicit Types (l m : list X).

  Lemma subseq_refl l : subseq l l.
  Proof. induction l; [constructor|apply ss_keep; auto]. Qed.
  Lemma subseq_nil l : subseq [] l.
  Proof. induction l; constructor; auto. Qed.
  Lemma subseq_app (a b c d : list X) : subseq a b -> subseq c d -> subseq (a ++ c) (b ++ d).
  Proof. induction 1 as [|z l m H1 IH|z l m H1 IH]; intros H2; cbn [app]; [exact H2|apply ss_skip; auto|apply ss_keep; auto]. Qed.
  Lemma subseq_in l m x : subseq l m -> In x l -> In x m.
  Proof. induction 1; cbn; intros H'; auto. destruct H'; auto. Qed.
  Lemma subseq_nodup l m : subseq l m -> NoDup m -> NoDup l.
  Proof.
    induction 1 as [|x l m H IH|x l m H IH]; intros ND; [constructor| |].
    - apply IH. now inversion ND.
    - inversion ND as [|? ? Hn ND']; subst. constructor; [|auto]. intros Hi. apply Hn. eapply subseq_in; eauto.
  Qed.
  Lemma subseq_before l m x y : subseq l m -> before l x y -> before m x y.
  Proof.
    induction 1 as [|z l m H IH|z l m H IH]; intros Hb.
    - destruct Hb as (a & b & c & E). destruct a; discriminate.
    - apply before_cons. auto.
    - destruct Hb as (a & b & c & E). destruct a as [|h a]; cbn in E; inversion E as [[Eh Et]]; subst.
      + apply before_cons_head. eapply subseq_in; eauto. apply in_or_app; right; now left.
      + apply before_cons, IH. now exists a, b, c.
  Qed.
  Lemma subseq_rev l m : subseq l m -> subseq (rev l) (rev m).
  Proof.
    induction 1 as [|x l m H IH|x l m H IH]; cbn [rev]; [constructor| |].
    - rewrite <- (app_nil_r (rev l)). apply subseq_app; [exact IH|apply subseq_nil].
    - apply subseq_app; [exact IH|apply subseq_refl].
  Qed.
  Lemma subseq_length l m : subseq l m -> length l <= length m.
  Proof. induction 1; cbn [length]; lia. Qed.
End Subseq.

Lemma subseq_map {X Y} (g : X -> Y) l m : subseq l m -> subseq (map g l) (map g m).
Proof. induction 1; cbn [map]; [constructor|apply ss_skip; auto|apply ss_keep; auto]. Qed.

Lemma subseq_flat_map2 {X Y} (g h : X -> list Y) l :
  Forall (fun c => subseq (g c) (h c)) l -> subseq (flat_map g l) (flat_map h l).
Proof. induction 1; cbn [flat_map]; [constructor|]. now apply subseq_app. Qed.

Lemma subseq_concat_map {X Y} (g h : X -> list Y) l :
  (forall c, subseq (g c) (h c)) -> subseq (concat (map g l)) (concat (map h l)).
Proof. intros H. induction l; cbn [map concat]; [constructor|]. now apply subseq_app. Qed.

Lemma flat_map_map' {X Y Z} (g : X -> Y) (h : Y -> list Z) l : flat_map h (map g l) = flat_map (fun x => h (g x)) l.
Proof. induction l as [|x r IH]; [reflexivity|]. cbn [map flat_map]. now rewrite IH. Qed.

Lemma ids_flat f : ids f = flat_map ids_t f.
Proof. induction f as [|t r IH]; [reflexivity|]. cbn [flat_map]. rewrite ids_cons, ids_t_unfold, <- IH. reflexivity. Qed.

Lemma pids_flat f : pids f = flat_map pids_t f.
Proof.
  induction f as [|t r IH]; [reflexivity|]. change (t :: r) with ([] ++ t :: r). rewrite pids_split.
  cbn [flat_map app]. now rewrite <- IH.
Qed.

(* ------------------------------------------------------------------ *)
(* classes of callbacks                                                *)
(* ------------------------------------------------------------------ *)

Definition nonhalt (o : outcome) : Prop := o = Continue \/ o = Skip.

(* the callback skips exactly at the nodes selected by [sk] and continues elsewhere *)
Definition skip_only (cb : cbT) (sk : nat -> bool) : Prop :=
  forall calls x, call_cb cb x calls = if sk x then Skip else Continue.
Definition never_halts (cb : cbT) : Prop := forall calls x, nonhalt (call_cb cb x calls).
Definition all_continue (cb : cbT) : Prop := forall calls x, call_cb cb x calls = Continue.

Lemma skip_only_never_halts cb sk : skip_only cb sk -> never_halts cb.
Proof. intros H calls x. rewrite H. destruct (sk x); [now right|now left]. Qed.
Lemma all_continue_skip_only cb : all_continue cb <-> skip_only cb (fun _ => false).
Proof. split; intros H calls x; apply H. Qed.

(* the tree without the descendants of the skipping nodes *)
Fixpoint prune (sk : nat -> bool) (t : rt) : rt :=
  match t with T id i ch => T id i (if sk id then [] else map (prune sk) ch) end.

Lemma rid_prune sk t : rid (prune sk t) = rid t.
Proof. destruct t; reflexivity. Qed.
Lemma rch_prune sk t : rch (prune sk t) = if sk (rid t) then [] else map (prune sk) (rch t).
Proof. destruct t; reflexivity. Qed.
Lemma map_rid_prune sk f : map rid (map (prune sk) f) = map rid f.
Proof. rewrite map_map. apply map_ext. intros t. apply rid_prune. Qed.

Lemma prune_false : forall t, prune (fun _ => false) t = t.
Proof.
  induction t as [id i ch IH] using rt_ind'. cbn [prune]. f_equal.
  induction IH as [|c r Hc Hr IHr]; [reflexivity|]. cbn [map]. now rewrite Hc, IHr.
Qed.
Lemma map_prune_false f : map (prune (fun _ => false)) f = f.
Proof. induction f as [|t r IH]; [reflexivity|]. cbn [map]. now rewrite prune_false, IH. Qed.

(* ------------------------------------------------------------------ *)
(* visit with a continue/skip callback = iterator of the pruned tree   *)
(* ------------------------------------------------------------------ *)

Lemma seq_visit_map_pure {X} (g : X -> visitor) (h : X -> list nat) l :
  Forall (fun c => forall calls, g c calls = (h c, None)) l ->
  forall calls, seq_visit (map g l) calls = (flat_map h l, None).
Proof.
  induction 1 as [|c r Hc Hr IH]; intros calls; cbn [map seq_visit flat_map]; [reflexivity|].
  rewrite Hc, IH. reflexivity.
Qed.

Lemma visit_pre_skip cb sk : skip_only cb sk ->
  forall t calls, visit_pre cb t calls = (ids_t (prune sk t), None).
Proof.
  intros Hcb. induction t as [id i ch IH] using rt_ind'. intros calls.
  cbn [visit_pre prune]. unfold self_call. rewrite Hcb. rewrite ids_t_unfold. cbn [rid rch].
  destruct (sk id); [reflexivity|].
  rewrite (seq_visit_map_pure (visit_pre cb) (fun c => ids_t (prune sk c)) ch IH).
  rewrite ids_flat, flat_map_map'. reflexivity.
Qed.

Lemma visit_pre_f_skip cb sk f calls : skip_only cb sk ->
  seq_visit (map (visit_pre cb) f) calls = (ids (map (prune sk) f), None).
Proof.
  intros Hcb. rewrite (seq_visit_map_pure (visit_pre cb) (fun c => ids_t (prune sk c)) f).
  - now rewrite ids_flat, flat_map_map'.
  - apply Forall_forall. intros c _. now apply visit_pre_skip.
Qed.

Lemma visit_post_quiet cb : never_halts cb ->
  forall t calls, visit_post cb t calls = (pids_t t, None).
Proof.
  intros Hcb. induction t as [id i ch IH] using rt_ind'. intros calls.
  cbn [visit_post]. unfold then_call.
  rewrite (seq_visit_map_pure (visit_post cb) pids_t ch IH), <- pids_flat, pids_t_unfold. cbn [rid rch].
  destruct (Hcb (calls ++ pids ch) id) as [E|E]; rewrite E; reflexivity.
Qed.

Lemma visit_post_f_quiet cb f calls : never_halts cb ->
  seq_visit (map (visit_post cb) f) calls = (pids f, None).
Proof.
  intros Hcb. rewrite (seq_visit_map_pure (visit_post cb) pids_t f).
  - now rewrite pids_flat.
  - apply Forall_forall. intros c _. now apply visit_post_quiet.
Qed.

(* next level of the loop of _visit_level under a continue/skip callback *)
Definition next_kept (sk : nat -> bool) (f : forest) : forest :=
  flat_map (fun c => if sk (rid c) then [] else rch c) f.

Lemma level_row_skip cb sk : skip_only cb sk ->
  forall f calls, level_row cb f calls = (map rid f, next_kept sk f, None).
Proof.
  intros Hcb. induction f as [|c r IH]; intros calls; [reflexivity|].
  cbn [level_row]. rewrite Hcb, IH. unfold next_kept. cbn [flat_map map].
  destruct (sk (rid c)); reflexivity.
Qed.

Lemma next_level_prune sk f : flat_map rch (map (prune sk) f) = map (prune sk) (next_kept sk f).
Proof.
  unfold next_kept. induction f as [|c r IH]; [reflexivity|]. cbn [map flat_map].
  rewrite map_app, IH, rch_prune. destruct (sk (rid c)); reflexivity.
Qed.

Lemma visit_level_skip cb sk : skip_only cb sk ->
  forall fuel f calls,
    visit_level fuel cb f calls = (map rid (iter_level fuel false false (map (prune sk) f)), None).
Proof.
  intros Hcb. induction fuel as [|k IH]; intros f calls; [reflexivity|].
  destruct f as [|t r]; [reflexivity|].
  cbn [visit_level]. rewrite (level_row_skip cb sk Hcb), IH.
  change (map (prune sk) (t :: r)) with (prune sk t :: map (prune sk) r).
  rewrite iter_level_unfold. cbn [dir]. rewrite map_app.
  change (prune sk t :: map (prune sk) r) with (map (prune sk) (t :: r)).
  rewrite map_rid_prune, next_level_prune. reflexivity.
Qed.

Lemma len_pre_prune sk : forall t, length (pre (prune sk t)) <= length (pre t).
Proof.
  induction t as [id i ch IH] using rt_ind'. cbn [prune pre length]. apply le_n_S.
  destruct (sk id); [cbn; lia|].
  induction IH as [|c r Hc Hr IHr]; [cbn; lia|]. cbn [map flat_map]. rewrite !app_length. lia.
Qed.

Lemma len_pre_f_prune sk f : length (pre_f (map (prune sk) f)) <= length (pre_f f).
Proof.
  induction f as [|t r IH]; [cbn; lia|]. cbn [map flat_map]. rewrite !app_length.
  pose proof (len_pre_prune sk t). lia.
Qed.

(* the start node as the traversal sees it: its own skip matters only with add_self *)
Definition prune_start (sk : nat -> bool) (a : bool) (s : rt) : rt :=
  if a then prune sk s else T (rid s) (rinfo s) (map (prune sk) (rch s)).

Lemma prune_start_false a s : prune_start (fun _ => false) a s = s.
Proof. unfold prune_start. destruct a; [apply prune_false|]. rewrite map_prune_false. now destruct s. Qed.

Lemma rid_prune_start sk a s : rid (prune_start sk a s) = rid s.
Proof. unfold prune_start. destruct a; [apply rid_prune|reflexivity]. Qed.

Lemma rch_prune_start sk a s :
  rch (prune_start sk a s) = if a && sk (rid s) then [] else map (prune sk) (rch s).
Proof. unfold prune_start. destruct a; [apply rch_prune|reflexivity]. Qed.

Lemma size_prune_start sk a s : size (prune_start sk a s) <= size s.
Proof.
  rewrite <- !size_pre. unfold prune_start. destruct a; [apply len_pre_prune|].
  rewrite (pre_unfold s). cbn [pre length rch]. apply le_n_S. apply len_pre_f_prune.
Qed.

Definition is_level (m : meth) : bool := match m with LEVEL => true | _ => false end.

Theorem visit_skip_pruned cb sk s m a :
  skip_only cb sk -> m = PRE \/ m = LEVEL ->
  exists l, iterator (prune_start sk a s) m a = Some l /\ visit cb s m a = (map rid l, VReturn None).
Proof.
  intros Hcb Hm. unfold iterator, visit, visit_body.
  destruct Hm as [-> | ->]; cbn [iter_handler is_post andb negb].
  - (* PRE *)
    eexists. split; [reflexivity|]. rewrite iter_pre_eq, rch_prune_start.
    destruct a; cbn [andb app]; rewrite ?app_nil_r; cbn [map].
    + unfold self_call. rewrite Hcb, rid_prune_start. destruct (sk (rid s)); [reflexivity|].
      rewrite (visit_pre_f_skip cb sk) by exact Hcb. reflexivity.
    + rewrite (visit_pre_f_skip cb sk) by exact Hcb. reflexivity.
  - (* LEVEL *)
    eexists. split; [reflexivity|]. unfold iter_level_n, level_fuel.
    rewrite rch_prune_start.
    assert (F : forall n, length (pre_f (map (prune sk) (rch s))) <= n -> a && sk (rid s) = false ->
                map rid (iter_level n false false (map (prune sk) (rch s))) =
                map rid (iter_level (size (prune_start sk a s)) false false (map (prune sk) (rch s)))).
    { intros n Hn E.
      rewrite (iter_level_fuel _ _ _ n) by exact Hn. symmetry. apply f_equal, iter_level_fuel.
      pose proof (len_pre_children (prune_start sk a s)) as H. rewrite rch_prune_start, E in H. lia. }
    assert (Hs : length (pre_f (map (prune sk) (rch s))) <= size s).
    { pose proof (len_pre_f_prune sk (rch s)). pose proof (len_pre_children s). lia. }
    destruct a; cbn [andb app] in *; rewrite ?app_nil_r; cbn [map].
    + unfold self_call. rewrite Hcb, rid_prune_start. destruct (sk (rid s)) eqn:E.
      * rewrite iter_level_nil. reflexivity.
      * rewrite (visit_level_skip cb sk Hcb), (F _ Hs eq_refl). reflexivity.
    + rewrite (visit_level_skip cb sk Hcb), (F _ Hs eq_refl). reflexivity.
Qed.

(* post-order: skipping has no effect *)
Theorem visit_post_quiet_iter cb s a :
  never_halts cb ->
  exists l, iterator s POST a = Some l /\ visit cb s POST a = (map rid l, VReturn None).
Proof.
  intros Hcb. unfold iterator, visit, visit_body. cbn [iter_handler is_post andb negb app].
  eexists. split; [reflexivity|]. rewrite iter_post_eq.
  destruct a; cbn [andb app].
  - unfold then_call. rewrite visit_post_f_quiet by exact Hcb. rewrite map_app. cbn [map finish].
    destruct (Hcb ([] ++ pids (rch s)) (rid s)) as [E|E]; rewrite E; reflexivity.
  - rewrite visit_post_f_quiet by exact Hcb. rewrite app_nil_r. reflexivity.
Qed.

Definition visit_supported (m : meth) : bool := match m with PRE | POST | LEVEL => true | _ => false end.

(* a callback that always continues: visit calls exactly the iterator's sequence *)
Theorem visit_all_continue cb s m a :
  all_continue cb -> visit_supported m = true ->
  exists l, iterator s m a = Some l /\ visit cb s m a = (map rid l, VReturn None).
Proof.
  intros Hcb Hm. pose proof (proj1 (all_continue_skip_only cb) Hcb) as Hsk.
  destruct m; try discriminate.
  - destruct (visit_skip_pruned cb (fun _ => false) s PRE a Hsk (or_introl eq_refl)) as (l & E1 & E2).
    rewrite prune_start_false in E1. eauto.
  - apply visit_post_quiet_iter. intros calls x. left. apply Hcb.
  - destruct (visit_skip_pruned cb (fun _ => false) s LEVEL a Hsk (or_intror eq_refl)) as (l & E1 & E2).
    rewrite prune_start_false in E1. eauto.
Qed.

Theorem visit_unsupported cb s m a :
  visit_supported m = false -> visit cb s m a = ([], VRaise E_NOTIMPL).
Proof. destruct m; try discriminate; reflexivity. Qed.
