(* Executable model of the nested list-of-dicts form (C14):
     Node.to_dict(mapper)            nutree/node.py:1395-1410
     Tree.to_dict_list(mapper)       nutree/tree.py:524-531   (with the D30 repair)
     Node.from_dict(obj, mapper)     nutree/node.py:994-1016
     Tree.from_dict(obj, mapper)     nutree/tree.py:533-543
   No proofs here (see DictListProofs.v). *)
From Coq Require Import List ZArith Bool Arith.
From NT Require Import Sx Rose.
Import ListNotations.
Open Scope Z_scope.

(* ------------------------------------------------------------------ *)
(* JSON-like values: what a dict produced by to_dict may hold, and what
   json.loads can return (no floats: nutree never writes one here).     *)
Inductive jv :=
| JNull
| JBool (b : bool)
| JInt (z : Z)
| JStr (s : text)
| JList (l : list jv)
| JTuple (l : list jv)               (* a Python tuple: a mapper or a calc_data_id hook can put one into
                                        the structure; json.dumps writes it as an array *)
| JDict (d : list (text * jv)).      (* insertion-ordered, as a Python dict *)

Definition jdict := list (text * jv).

Fixpoint jv_eqb (a b : jv) {struct a} : bool :=
  match a, b with
  | JNull, JNull => true
  | JBool x, JBool y => Bool.eqb x y
  | JInt x, JInt y => Z.eqb x y
  | JStr x, JStr y => text_eqb x y
  | JTuple xs, JTuple ys =>
      (fix go (xs ys : list jv) {struct xs} : bool :=
         match xs, ys with
         | [], [] => true
         | x :: xs', y :: ys' => jv_eqb x y && go xs' ys'
         | _, _ => false
         end) xs ys
  | JList xs, JList ys =>
      (fix go (xs ys : list jv) {struct xs} : bool :=
         match xs, ys with
         | [], [] => true
         | x :: xs', y :: ys' => jv_eqb x y && go xs' ys'
         | _, _ => false
         end) xs ys
  | JDict xs, JDict ys =>
      (fix go (xs ys : list (text * jv)) {struct xs} : bool :=
         match xs, ys with
         | [], [] => true
         | (k, x) :: xs', (k', y) :: ys' => text_eqb k k' && jv_eqb x y && go xs' ys'
         | _, _ => false
         end) xs ys
  | _, _ => false
  end.

(* dict access: d.get(k) / d[k] = v (an existing key keeps its position) *)
Fixpoint dget (k : text) (d : jdict) : option jv :=
  match d with
  | [] => None
  | (k', v) :: r => if text_eqb k k' then Some v else dget k r
  end.

Fixpoint dset (k : text) (v : jv) (d : jdict) : jdict :=
  match d with
  | [] => [(k, v)]
  | (k', v') :: r => if text_eqb k k' then (k', v) :: r else (k', v') :: dset k v r
  end.

(* the literal keys of the source: "data", "data_id", "children" *)
Definition k_data : text := [100; 97; 116; 97].
Definition k_data_id : text := [100; 97; 116; 97; 95; 105; 100].
Definition k_children : text := [99; 104; 105; 108; 100; 114; 101; 110].

Definition jv_of_did (d : did) : jv :=
  match d with DInt z => JInt z | DStr s => JStr s end.

(* Results are [inl value] or [inr error-class] with the classes of
   harness/common.py err_class: 1 UniqueConstraintError, 4 KeyError,
   7 TypeError, 8 other.                                                  *)
Definition res (X : Type) := (X + Z)%type.
Definition E_UNIQUE : Z := 1.
Definition E_KEY : Z := 4.
Definition E_TYPE : Z := 7.
Definition E_CRASH : Z := 8.

(* Unhashable data objects (dict, list, non-frozen dataclass; documented use:
   with an explicit data_id or a calc_data_id hook).  CPython's hash() never
   returns -1, so [i_hash = -1] stands for "hash(data) raises TypeError". *)
Definition unhashable (i : info) : bool := Z.eqb (i_hash i) (-1).

(* ------------------------------------------------------------------ *)
(* to_dict.  The serialisation mapper is a function of what it can read
   from the node (its [info]) and of the dict built so far; its value is the
   dict that call_mapper hands back (the mutated argument when the callback
   returns None, else the returned dict).  No mapper = [sm_none].          *)
Definition smapper := info -> jdict -> jdict.
Definition sm_none : smapper := fun _ res => res.

(* Tree.calc_data_id without a hook: hash(data) *)
Definition default_did (i : info) : res did :=
  if unhashable i then inr E_TYPE else inl (DInt (i_hash i)).

(* [try: is_default = self._data_id == hash(self._data) / except TypeError:
   is_default = False] (D30b repaired: unhashable data has no default id) *)
Definition has_custom_did (i : info) : bool :=
  unhashable i || negb (did_eqb (i_did i) (DInt (i_hash i))).

Fixpoint to_dict (sm : smapper) (t : rt) : jv :=
  match t with
  | T _ i ch =>
      let res0 := [(k_data, JStr (i_name i))] in
      let res1 := if has_custom_did i then dset k_data_id (jv_of_did (i_did i)) res0 else res0 in
      let res2 := sm i res1 in
      JDict (match ch with
             | [] => res2
             | _ :: _ => dset k_children (JList (map (to_dict sm) ch)) res2
             end)
  end.

(* Tree.to_dict_list: the top-level nodes ([] for a tree without nodes,
   whether fresh, cleared or emptied by remove() — D30 repaired) *)
Definition to_dict_list (sm : smapper) (f : forest) : list jv := map (to_dict sm) f.

(* ------------------------------------------------------------------ *)
(* from_dict. *)

(* Python truthiness of a JSON value *)
Definition truthy (v : jv) : bool :=
  match v with
  | JNull | JBool false | JInt 0 | JStr [] | JList [] | JTuple [] | JDict [] => false
  | _ => true
  end.

(* item.get("children"): a list is iterated ([if child_items:] skips an empty
   one); a falsy value means no recursion; a truthy value that is not a list
   (str, dict, number, True) makes the recursive call fail with a TypeError in
   its first iteration – exactly what a list holding one non-dict item does,
   so it is rendered as [[JNull]] *)
Definition kids_of (d : jdict) : list jv :=
  match dget k_children d with
  | Some (JList l) => l
  | Some (JTuple l) => l                 (* a tuple of items is iterated like a list *)
  | Some v => if truthy v then [JNull] else []
  | None => []
  end.

(* decoded item: its dict and the decoded child items; [PBad] = not a dict
   (item["data"] / the mapper's item["data"] raises TypeError) *)
Inductive pt := PT (d : jdict) (kids : list pt) | PBad.

(* structural decoding; the inner [find] is [map parse (kids_of d)] spelled so
   that the guard checker sees the recursion (DictListProofs.parse_dict) *)
Fixpoint parse (j : jv) : pt :=
  match j with
  | JDict d =>
      PT d ((fix find (e : list (text * jv)) : list pt :=
               match e with
               | [] => []
               | (k, v) :: r =>
                   if text_eqb k_children k
                   then match v with
                        | JList l => map parse l
                        | JTuple l => map parse l
                        | _ => if truthy v then [PBad] else []
                        end
                   else find r
               end) d)
  | _ => PBad
  end.

(* the data object a deserialisation step yields for an item dict: without a
   mapper item["data"] itself (KeyError when the key is missing; an unhashable
   value is a data object with [i_hash = -1]); with a mapper whatever the mapper
   builds from the item – it may read any entry (the mappers of the pinned suite
   read "type", "name", "data_id").  Both are instances of [dd].          *)
(* The step also yields the item dict as the mapper leaves it: a deserialize
   mapper may add, change or pop entries ("mapper may add item['data_id']" in
   the source) and Node.from_dict reads "data_id" and "node_id" AFTER the mapper
   ran.  ("children" is read after the mapper as well; mappers that touch that
   entry are outside the modelled domain.) *)
Definition dmapper := jdict -> res (info * jdict).

(* a step that leaves the item alone *)
Definition dd_pure (f : jdict -> res info) : dmapper :=
  fun d => match f d with inl i => inl (i, d) | inr e => inr e end.

Definition dd_raw (raw : jv -> res info) : dmapper :=
  dd_pure (fun d => match dget k_data d with None => inr E_KEY | Some v => raw v end).

(* data_id=item.get("data_id"): None -> tree.calc_data_id(data), which raises
   for unhashable data (or when the hook raises) *)
Definition did_for (calc : info -> res did) (o : option jv) (i : info) : res did :=
  match o with
  | None | Some JNull => calc i
  | Some (JInt z) => inl (DInt z)
  | Some (JStr s) => inl (DStr s)
  | Some (JBool b) => inl (DInt (if b then 1 else 0))
  | Some (JTuple _) => inr E_CRASH       (* a tuple id is hashable and Python accepts it, but it is outside
                                            DataIdType = Union[str, int] and not representable in [did]:
                                            outside the model (the JSON theorems name this exclusion) *)
  | Some _ => inr E_TYPE                 (* unhashable key of _nodes_by_data_id *)
  end.

(* node_id=item.get("node_id"): Node.__init__ stores int(node_id).  For a str:
   ASCII digits (the other spellings int() accepts – sign, blanks, underscores,
   non-ASCII digits – are outside the modelled domain). *)
Definition k_node_id : text := [110; 111; 100; 101; 95; 105; 100].
Definition E_VALUE : Z := 3.
Definition E_ASSERT : Z := 6.

Fixpoint digits_val (acc : Z) (s : text) : option Z :=
  match s with
  | [] => Some acc
  | c :: r => if (48 <=? c) && (c <=? 57) then digits_val (acc * 10 + (c - 48)) r else None
  end.

Definition nid_of (o : option jv) : res (option Z) :=
  match o with
  | None | Some JNull => inl None
  | Some (JInt z) => inl (Some z)
  | Some (JBool b) => inl (Some (if b then 1 else 0))
  | Some (JStr []) => inr E_VALUE
  | Some (JStr s) => match digits_val 0 s with Some z => inl (Some z) | None => inr E_VALUE end
  | Some _ => inr E_TYPE
  end.

(* Tree._register: [assert node._node_id and node._node_id not in self._node_by_id];
   [used] = the explicit node ids registered so far (the default id(node) of the
   other nodes is assumed never to coincide with an explicit one) *)
Definition nid_check (o : option jv) (used : list Z) : res (option Z) :=
  match nid_of o with
  | inr e => inr e
  | inl None => inl None
  | inl (Some z) => if Z.eqb z 0 || existsb (Z.eqb z) used then inr E_ASSERT else inl (Some z)
  end.

Definition opt_list {X} (o : option X) : list X := match o with Some x => [x] | None => [] end.

(* calc_data_id(data) runs in Node.__init__ before int(node_id); an explicit
   data_id is only looked at in Tree._register, after the assert *)
Definition did_early (o : option jv) : bool :=
  match o with None | Some JNull => true | _ => false end.

(* an explicit node id is kept in the node's meta slot of the model (the
   payload record has no field for it); kind None, no other meta *)
Definition mk_info (i : info) (d : did) (nid : option Z) : info :=
  I (i_obj i) (i_eqc i) (i_hash i) (i_isstr i) (i_name i) d None
    (match nid with Some z => [(k_node_id, A z)] | None => [] end).

Section FromDict.
  Variable dd : dmapper.
  Variable calc : info -> res did.

  (* the explicit node ids an item and its descendants register, in pre-order *)
  Fixpoint nids (p : pt) : list Z :=
    match p with
    | PBad => []
    | PT d kids =>
        (match dd d with
         | inl (_, d') => match nid_of (dget k_node_id d') with inl (Some z) => [z] | _ => [] end
         | inr _ => []
         end) ++ flat_map nids kids
    end.

  (* one loop iteration of Node.from_dict for item [p]; [seen] = data_ids of
     the children appended to the same parent so far (Tree._register refuses a
     second node with that data_id under one parent); [used] = explicit node
     ids registered so far.  Node identities are assigned afterwards ([renum]):
     they do not influence anything here. *)
  Fixpoint fd_item (p : pt) (seen : list did) (used : list Z) {struct p} : res rt :=
    match p with
    | PBad => inr E_TYPE
    | PT d kids =>
        match dd d with
        | inr e => inr e
        | inl (i0, d') =>
            let dres := did_for calc (dget k_data_id d') i0 in
            match (if did_early (dget k_data_id d') then dres else inl (DInt 0)) with
            | inr e => inr e
            | inl _ =>
                match nid_check (dget k_node_id d') used with
                | inr e => inr e
                | inl nid =>
                    match dres with
                    | inr e => inr e
                    | inl dv =>
                        if existsb (did_eqb dv) seen then inr E_UNIQUE
                        else
                          match (fix loop (l : list pt) (seen' : list did) (used' : list Z) {struct l} : res (list rt) :=
                                   match l with
                                   | [] => inl []
                                   | x :: xs =>
                                       match fd_item x seen' used' with
                                       | inr e => inr e
                                       | inl t =>
                                           match loop xs (seen' ++ [rdid t]) (used' ++ nids x) with
                                           | inr e => inr e
                                           | inl ts => inl (t :: ts)
                                           end
                                       end
                                   end) kids [] (used ++ opt_list nid) with
                          | inr e => inr e
                          | inl ch => inl (T 0%nat (mk_info i0 dv nid) ch)
                          end
                    end
                end
            end
        end
    end.

  (* the [for item in obj] loop of Node.from_dict *)
  Fixpoint fd_loop (l : list pt) (seen : list did) (used : list Z) {struct l} : res (list rt) :=
    match l with
    | [] => inl []
    | x :: xs =>
        match fd_item x seen used with
        | inr e => inr e
        | inl t =>
            match fd_loop xs (seen ++ [rdid t]) (used ++ nids x) with
            | inr e => inr e
            | inl ts => inl (t :: ts)
            end
        end
    end.
End FromDict.

(* node identities in allocation order: Node.from_dict creates a child and
   descends into its items before it creates the next sibling = pre-order *)
Fixpoint renum (n : nat) (t : rt) {struct t} : rt * nat :=
  match t with
  | T _ i ch =>
      let '(ch', n') :=
        (fix go (l : list rt) (m : nat) {struct l} : list rt * nat :=
           match l with
           | [] => ([], m)
           | x :: xs => let '(x', m1) := renum m x in
                        let '(xs', m2) := go xs m1 in (x' :: xs', m2)
           end) ch (S n) in
      (T (S n) i ch', n')
  end.

Fixpoint renum_f (n : nat) (f : forest) {struct f} : forest * nat :=
  match f with
  | [] => ([], n)
  | x :: xs => let '(x', m1) := renum n x in
               let '(xs', m2) := renum_f m1 xs in (x' :: xs', m2)
  end.

(* Tree.from_dict(obj, mapper): a new Tree (default calc_data_id = hash), its
   system root runs Node.from_dict.  [next] = number of nodes allocated before. *)
Definition from_dict (dd : dmapper) (calc : info -> res did) (next : nat) (obj : list jv) : res forest :=
  match fd_loop dd calc (map parse obj) [] [] with
  | inr e => inr e
  | inl f => inl (fst (renum_f next f))
  end.

Definition tree_from_dict (dd : dmapper) (next : nat) (obj : list jv) : res forest :=
  from_dict dd default_did next obj.

(* Node.from_dict(obj, mapper) on a node of an existing tree: [assert not
   self._children], then the same loop with the tree's own calc_data_id; the
   new nodes become the children of the target.  (What a refused call leaves
   behind is not modelled: the result is the error class only.) *)
Fixpoint set_ch (target : nat) (new : list rt) (t : rt) : rt :=
  match t with
  | T id i ch => if Nat.eqb id target then T id i new else T id i (map (set_ch target new) ch)
  end.

Definition node_from_dict (dd : dmapper) (calc : info -> res did) (next : nat)
           (f : forest) (target : nat) (obj : list jv) : res forest :=
  match find_node target f with
  | None => inr E_CRASH
  | Some (T _ _ (_ :: _)) => inr E_ASSERT
  | Some (T _ _ []) =>
      match from_dict dd calc next obj with
      | inr e => inr e
      | inl ch => inl (map (set_ch target ch) f)
      end
  end.

(* ------------------------------------------------------------------ *)
(* JSON transport: what json.loads(json.dumps(v)) is for the value kinds of this
   AST.  None/bool/int/str come back unchanged (ints are exact), arrays and
   objects element-wise (dict keys are str here and keep their order), a tuple
   comes back as a LIST.  json.dumps refuses none of these kinds, so the function
   is total.  (Floats, non-str keys, bytes do not occur in the AST: nutree writes
   none, and the harness's mappers write none.) *)
Fixpoint json_rt (v : jv) : jv :=
  match v with
  | JNull | JBool _ | JInt _ | JStr _ => v
  | JList l => JList (map json_rt l)
  | JTuple l => JList (map json_rt l)
  | JDict d => JDict ((fix go (e : list (text * jv)) : list (text * jv) :=
                         match e with
                         | [] => []
                         | (k, x) :: r => (k, json_rt x) :: go r
                         end) d)
  end.

(* JSON-stable values: no tuple anywhere *)
Fixpoint tuple_free (v : jv) : bool :=
  match v with
  | JNull | JBool _ | JInt _ | JStr _ => true
  | JList l => forallb tuple_free l
  | JTuple _ => false
  | JDict d => (fix go (e : list (text * jv)) : bool :=
                  match e with
                  | [] => true
                  | (_, x) :: r => tuple_free x && go r
                  end) d
  end.

Definition dict_tuple_free (d : jdict) : bool := forallb (fun kv => tuple_free (snd kv)) d.

(* ------------------------------------------------------------------ *)
(* rendering for the correspondence *)
(* the three standard keys are rendered as small numbers (shorter case files) *)
Definition sx_key (k : text) : sx :=
  if text_eqb k k_data then A 0 else if text_eqb k k_data_id then A 1
  else if text_eqb k k_children then A 2 else sx_text k.

Fixpoint sx_jv (j : jv) : sx :=
  match j with
  | JNull => L [A 0]
  | JBool b => L [A 1; sx_bool b]
  | JInt z => L [A 2; A z]
  | JStr s => L [A 3; sx_text s]
  | JList l => L [A 4; L (map sx_jv l)]
  | JTuple l => L [A 6; L (map sx_jv l)]
  | JDict d => L [A 5; L ((fix go (e : list (text * jv)) : list sx :=
                            match e with
                            | [] => []
                            | (k, v) :: r => L [sx_key k; sx_jv v] :: go r
                            end) d)]
  end.

(* a rebuilt node: identity, what is observable of its data object (equality
   class, hash, str-ness, name), data_id, explicit node_id if any, children *)
Fixpoint sx_rebuilt (t : rt) : sx :=
  match t with
  | T id i ch =>
      L [sx_nat id; L [A (i_eqc i); A (i_hash i); sx_bool (i_isstr i); sx_text (i_name i); sx_did (i_did i);
                       L (map snd (i_meta i))];
         L (map sx_rebuilt ch)]
  end.

Definition sx_res {X} (f : X -> sx) (r : res X) : sx :=
  match r with inl x => L [A 0; f x] | inr e => L [A 1; A e] end.
