(* Source tie for C15: lexical facts lifted from nutree/typed_tree.py (section NAVT of Generated.v) related to
   the kind-aware model of Nav.v.  See NavSource.v for the interpretation functions. *)
From Coq Require Import String Ascii.
From Coq Require Import List ZArith Bool Arith Lia.
From NT Require Import Sx Rose ListFacts RoseFacts Nav NavProofs NavSource.
From NTGen Require Import Generated.
Import ListNotations.
Local Open Scope Z_scope.

Definition tsub_lit := sub_lit_in NAVT_SUBSCRIPTS.
Definition tsub_var := sub_var_in NAVT_SUBSCRIPTS.

Definition typed_position_accessors : list text :=
  map tx ["TypedNode.get_index"; "TypedNode.prev_sibling"; "TypedNode.next_sibling"; "TypedNode.is_first_sibling";
          "TypedNode.is_last_sibling"; "TypedNode.get_siblings"]%string.
Definition typed_accessors : list text :=
  typed_position_accessors ++
  map tx ["TypedNode.first_sibling"; "TypedNode.last_sibling"; "TypedNode.first_child"; "TypedNode.last_child";
          "TypedNode.get_children"; "TypedNode.has_children"]%string.

(* typed accessors: the same, and every `==` they contain compares kinds *)
Definition typed_identity_ok : bool :=
  forallb (fun nm => negb (mem_text nm NAVT_EQ_ON_NODES)) typed_accessors &&
  forallb (row_identity_in (NAVT_IDENTITY ++ NAV_IDENTITY)) typed_position_accessors &&
  forallb (reads_children_in NAVT_PARENT_READS) typed_position_accessors &&
  forallb (fun nm => match assoc nm NAVT_VALUE_COMPARES with
                     | Some l => forallb (fun a => mem_text a [tx "_kind"; tx "kind"]) l
                     | None => false
                     end) typed_accessors &&
  (* the kind-filtering accessors do compare kinds *)
  forallb (fun nm => match assoc nm NAVT_VALUE_COMPARES with Some (_ :: _) => true | _ => false end)
          (map tx ["TypedNode.prev_sibling"; "TypedNode.next_sibling"; "TypedNode.get_siblings"; "TypedNode.first_sibling";
                   "TypedNode.last_sibling"; "TypedNode.first_child"; "TypedNode.last_child"; "TypedNode.get_children"]%string).

Lemma typed_identity_holds : GEN_NAV_OK = true /\ GEN_NAVT_OK = true /\ typed_identity_ok = true.
Proof. repeat split; vm_compute; reflexivity. Qed.

(* ---- D. typed_tree.py: has_children, next_sibling, prev_sibling ---- *)
Theorem typed_has_children_agrees (ch : list rt) (k : text) :
  cmp_eval NAV_T_HAS_CHILDREN_OP (Z.of_nat (length (t_get_children ch (Some k)))) NAV_T_HAS_CHILDREN_K
  = Some (t_has_children ch (Some k)).
Proof.
  change (cmp_eval NAV_T_HAS_CHILDREN_OP (Z.of_nat (length (t_get_children ch (Some k)))) NAV_T_HAS_CHILDREN_K)
    with (Some (Z.of_nat (length (t_get_children ch (Some k))) >? 0)).
  unfold t_has_children. f_equal. destruct (length (t_get_children ch (Some k))); reflexivity.
Qed.

Lemma skipn_all' {X} (l : list X) n : (length l <= n)%nat -> skipn n l = [].
Proof. revert n. induction l as [|x l IH]; intros [|n] H; cbn in *; try reflexivity; try lia. apply IH. lia. Qed.

Theorem typed_next_agrees (c : ctx) (any : bool) (i : nat) :
  index_of (rid (c_self c)) (c_sibs c) = Some i ->
  t_next c any =
  match cmp_eval NAV_T_NEXT_GUARD_OP (Z.of_nat i) (Z.of_nat (length (c_sibs c)) + NAV_T_NEXT_GUARD_ADD) with
  | Some true => find (fun t => any || same_kind t (c_self c))
                      (skipn (Z.to_nat (Z.of_nat i + NAV_T_NEXT_RANGE_START)) (c_sibs c))
  | _ => None
  end.
Proof.
  intros Hi. unfold t_next. rewrite Hi.
  change (cmp_eval NAV_T_NEXT_GUARD_OP (Z.of_nat i) (Z.of_nat (length (c_sibs c)) + NAV_T_NEXT_GUARD_ADD))
    with (Some (Z.of_nat i <? Z.of_nat (length (c_sibs c)) + -1)).
  change NAV_T_NEXT_RANGE_START with 1.
  replace (Z.to_nat (Z.of_nat i + 1)) with (S i) by lia.
  destruct (Z.of_nat i <? Z.of_nat (length (c_sibs c)) + -1) eqn:E; [reflexivity|].
  apply Z.ltb_ge in E. rewrite skipn_all' by lia. reflexivity.
Qed.

Theorem typed_prev_agrees (c : ctx) (any : bool) (i : nat) :
  index_of (rid (c_self c)) (c_sibs c) = Some i ->
  t_prev c any =
  match cmp_eval NAV_T_PREV_GUARD_OP (Z.of_nat i) NAV_T_PREV_GUARD_K with
  | Some true => find (fun t => any || same_kind t (c_self c)) (rev (firstn i (c_sibs c)))
  | _ => None
  end /\
  (* range(own_idx - 1, -1, -1) and, in last_child, range(len - 1, -1, -1): downwards to index 0 inclusive *)
  NAV_T_PREV_RANGE = [-1; -1; -1] /\ NAV_T_LAST_CHILD_RANGE = [-1; -1; -1].
Proof.
  intros Hi. split; [|split; reflexivity]. unfold t_prev. rewrite Hi.
  change (cmp_eval NAV_T_PREV_GUARD_OP (Z.of_nat i) NAV_T_PREV_GUARD_K) with (Some (Z.of_nat i >? 0)).
  destruct i; reflexivity.
Qed.

Lemma typed_sub_values :
  tsub_lit "TypedNode.first_child" = 0 /\ tsub_lit "TypedNode.last_child" = -1 /\
  tsub_lit "TypedNode.first_sibling" = 0 /\ tsub_lit "TypedNode.last_sibling" = -1 /\
  tsub_lit "TypedNode.is_first_sibling" = 0 /\ tsub_lit "TypedNode.is_last_sibling" = -1 /\
  tsub_var "TypedNode.prev_sibling" = 0 /\ tsub_var "TypedNode.next_sibling" = 0 /\ tsub_var "TypedNode.last_child" = 0.
Proof. vm_compute. repeat split. Qed.

(* the ANY_KIND / any_kind=True branches index the full list at [0] / [-1] *)
Theorem typed_subscripts_agree (c : ctx) (ch : list rt) :
  t_first_child ch None = py_at ch (tsub_lit "TypedNode.first_child") /\
  t_last_child ch None = py_at ch (tsub_lit "TypedNode.last_child") /\
  t_first_sibling c true = py_at (c_sibs c) (tsub_lit "TypedNode.first_sibling") /\
  t_last_sibling c true = py_at (c_sibs c) (tsub_lit "TypedNode.last_sibling") /\
  t_is_first c true = match py_at (c_sibs c) (tsub_lit "TypedNode.is_first_sibling") with
                      | Some t => is_self (rid (c_self c)) t | None => false end /\
  t_is_last c true = match py_at (c_sibs c) (tsub_lit "TypedNode.is_last_sibling") with
                     | Some t => is_self (rid (c_self c)) t | None => false end /\
  (* the scans read pc[idx] / all_children[i] with no further offset *)
  tsub_var "TypedNode.prev_sibling" = 0 /\ tsub_var "TypedNode.next_sibling" = 0 /\ tsub_var "TypedNode.last_child" = 0.
Proof.
  destruct typed_sub_values as (-> & -> & -> & -> & -> & -> & -> & -> & ->).
  refine (conj _ (conj _ (conj _ (conj _ (conj _ (conj _ (conj eq_refl (conj eq_refl eq_refl)))))))).
  - rewrite typed_first_child_any. apply hd_error_py.
  - rewrite typed_last_child_any. apply last_error_py.
  - unfold t_first_sibling. apply hd_error_py.
  - unfold t_last_sibling. apply last_error_py.
  - unfold t_is_first, t_first_sibling. now rewrite hd_error_py.
  - unfold t_is_last, t_last_sibling. now rewrite last_error_py.
Qed.
