(* Source tie for C10 / C15: the lexical facts lifted from nutree/node.py and
   nutree/typed_tree.py by harness/gen_facts.py (section NAV of Generated.v)
   are interpreted here and related to the model of Nav.v.

   - sibling positions are found BY IDENTITY (`is self`, directly or through
     get_index / is_first_sibling / is_last_sibling), never by `==`,
     `list.index`, `in`;
   - the integer subscripts ([0], [-1], [idx+1], [idx-1]), comparison
     operators and constants (`> 0`, `own_idx < pc_len - 1`, range starts,
     counters of calc_depth / count_descendants / calc_height, `level < 1`)
     are the ones the model computes with.
   Re-introducing `list.index(self)`, `> 1`, `pc_len - 2` ... makes a lemma of
   this file false, so Properties/C10.v and C15.v stop compiling. *)
From Coq Require Import String Ascii.
From Coq Require Import List ZArith Bool Arith Lia.
From NT Require Import Sx Rose ListFacts RoseFacts Nav NavProofs.
From NTGen Require Import Generated.
Import ListNotations.
Local Open Scope Z_scope.

Fixpoint tx (s : string) : text :=
  match s with
  | EmptyString => []
  | String a s' => Z.of_N (N_of_ascii a) :: tx s'
  end.

Fixpoint assoc {V} (k : text) (l : list (text * V)) : option V :=
  match l with
  | [] => None
  | (k', v) :: l' => if text_eqb k k' then Some v else assoc k l'
  end.

Definition mem_text (x : text) (l : list text) : bool := existsb (text_eqb x) l.

(* ---- comparison operators and Python indexing ---- *)
Definition cmp_eval (op : text) (a b : Z) : option bool :=
  if text_eqb op (tx "Lt") then Some (a <? b)
  else if text_eqb op (tx "Gt") then Some (a >? b)
  else if text_eqb op (tx "LtE") then Some (a <=? b)
  else if text_eqb op (tx "GtE") then Some (a >=? b)
  else if text_eqb op (tx "Eq") then Some (a =? b)
  else if text_eqb op (tx "NotEq") then Some (negb (a =? b))
  else None.

(* l[k] for a Python int k (negative = from the end); out of range = None *)
Definition py_at {X} (l : list X) (k : Z) : option X :=
  if k >=? 0 then nth_error l (Z.to_nat k)
  else if Z.of_nat (length l) + k >=? 0 then nth_error l (Z.to_nat (Z.of_nat (length l) + k)) else None.

(* the literal subscript ([] base) / the offset of the name-based subscript of an accessor *)
Definition sub_lit (name : string) : Z :=
  match assoc (tx name) NAV_SUBSCRIPTS with
  | Some subs => match filter (fun bo => match fst bo with [] => true | _ => false end) subs with
                 | [(_, o)] => o
                 | _ => 1000
                 end
  | None => 1000
  end.
Definition sub_var (name : string) : Z :=
  match assoc (tx name) NAV_SUBSCRIPTS with
  | Some subs => match filter (fun bo => match fst bo with [] => false | _ => true end) subs with
                 | [(_, o)] => o
                 | _ => 1000
                 end
  | None => 1000
  end.

(* ---- A. identity, not equality ---- *)
Definition row_identity (nm : text) : bool :=
  match assoc nm NAV_IDENTITY with
  | Some (true, _) => true
  | Some (false, calls) =>
      (mem_text (tx "Node.get_index") calls || mem_text (tx "TypedNode.get_index") calls) &&
      forallb (fun cn => match assoc cn NAV_IDENTITY with Some (true, _) => true | _ => false end) calls
  | None => false
  end.

Definition reads_children (nm : text) : bool :=
  match assoc nm NAV_PARENT_READS with Some l => mem_text (tx "_children") l | None => false end.

Definition node_position_accessors : list text :=
  map tx ["Node.get_index"; "Node.prev_sibling"; "Node.next_sibling"; "Node.is_first_sibling";
          "Node.is_last_sibling"; "Node.get_siblings"]%string.
Definition typed_position_accessors : list text :=
  map tx ["TypedNode.get_index"; "TypedNode.prev_sibling"; "TypedNode.next_sibling"; "TypedNode.is_first_sibling";
          "TypedNode.is_last_sibling"; "TypedNode.get_siblings"]%string.
Definition node_accessors : list text :=
  node_position_accessors ++
  map tx ["Node.first_sibling"; "Node.last_sibling"; "Node.first_child"; "Node.last_child"; "Node.get_top";
          "Node.is_descendant_of"; "Node.get_common_ancestor"; "Node.get_parent_list"]%string.
Definition typed_accessors : list text :=
  typed_position_accessors ++
  map tx ["TypedNode.first_sibling"; "TypedNode.last_sibling"; "TypedNode.first_child"; "TypedNode.last_child";
          "TypedNode.get_children"; "TypedNode.has_children"]%string.

(* no accessor compares nodes by equality; positions are found by identity in self._parent._children;
   the plain accessors contain no `==` at all *)
Definition node_identity_ok : bool :=
  forallb (fun nm => negb (mem_text nm NAV_EQ_ON_NODES)) node_accessors &&
  forallb row_identity node_position_accessors &&
  forallb reads_children node_position_accessors &&
  forallb (fun nm => match assoc nm NAV_N_VALUE_COMPARES with Some [] => true | _ => false end) node_accessors.

(* typed accessors: the same, and every `==` they contain compares kinds *)
Definition typed_identity_ok : bool :=
  forallb (fun nm => negb (mem_text nm NAV_EQ_ON_NODES)) typed_accessors &&
  forallb row_identity typed_position_accessors &&
  forallb reads_children typed_position_accessors &&
  forallb (fun nm => match assoc nm NAV_T_KIND_COMPARES with
                     | Some l => forallb (fun a => mem_text a [tx "_kind"; tx "kind"]) l
                     | None => false
                     end) typed_accessors &&
  (* the kind-filtering accessors do compare kinds *)
  forallb (fun nm => match assoc nm NAV_T_KIND_COMPARES with Some (_ :: _) => true | _ => false end)
          (map tx ["TypedNode.prev_sibling"; "TypedNode.next_sibling"; "TypedNode.get_siblings"; "TypedNode.first_sibling";
                   "TypedNode.last_sibling"; "TypedNode.first_child"; "TypedNode.last_child"; "TypedNode.get_children"]%string).

Lemma node_identity_holds : GEN_NAV_OK = true /\ node_identity_ok = true.
Proof. split; vm_compute; reflexivity. Qed.

Lemma typed_identity_holds : GEN_NAV_OK = true /\ typed_identity_ok = true.
Proof. split; vm_compute; reflexivity. Qed.

(* ---- B. subscripts of node.py = what the model computes ---- *)
Lemma last_error_py {X} (l : list X) : last_error l = py_at l (-1).
Proof.
  unfold py_at, last_error. cbn [Z.geb Z.compare].
  destruct l as [|x l] using rev_ind; [reflexivity|]. clear IHl.
  rewrite rev_app_distr, app_length. cbn [rev app hd_error length].
  replace (Z.of_nat (length l + 1) + -1) with (Z.of_nat (length l)) by lia.
  assert ((Z.of_nat (length l) >=? 0) = true) as -> by (apply Z.geb_le; lia).
  rewrite Nat2Z.id. symmetry. apply nth_error_app_len.
Qed.

Lemma hd_error_py {X} (l : list X) : hd_error l = py_at l 0.
Proof. unfold py_at. cbn. now destruct l. Qed.

Lemma sub_values :
  sub_lit "Node.first_child" = 0 /\ sub_lit "Node.last_child" = -1 /\
  sub_lit "Node.first_sibling" = 0 /\ sub_lit "Node.last_sibling" = -1 /\
  sub_lit "Node.is_first_sibling" = 0 /\ sub_lit "Node.is_last_sibling" = -1 /\
  sub_var "Node.prev_sibling" = -1 /\ sub_var "Node.next_sibling" = 1.
Proof. vm_compute. repeat split. Qed.

Theorem node_subscripts_agree (c : ctx) :
  q_first_child c = py_at (rch (c_self c)) (sub_lit "Node.first_child") /\
  q_last_child c = py_at (rch (c_self c)) (sub_lit "Node.last_child") /\
  q_first_sibling c = py_at (c_sibs c) (sub_lit "Node.first_sibling") /\
  q_last_sibling c = py_at (c_sibs c) (sub_lit "Node.last_sibling") /\
  q_is_first c = match py_at (c_sibs c) (sub_lit "Node.is_first_sibling") with
                 | Some t => is_self (rid (c_self c)) t | None => false end /\
  q_is_last c = match py_at (c_sibs c) (sub_lit "Node.is_last_sibling") with
                | Some t => is_self (rid (c_self c)) t | None => false end /\
  (forall i, q_index c = Some (S i) -> q_is_first c = false ->
     q_prev c = py_at (c_sibs c) (Z.of_nat (S i) + sub_var "Node.prev_sibling")) /\
  (forall i, q_index c = Some i -> q_is_last c = false ->
     q_next c = py_at (c_sibs c) (Z.of_nat i + sub_var "Node.next_sibling")).
Proof.
  destruct sub_values as (-> & -> & -> & -> & -> & -> & -> & ->).
  refine (conj _ (conj _ (conj _ (conj _ (conj _ (conj _ (conj _ _))))))).
  - apply hd_error_py.
  - apply last_error_py.
  - apply hd_error_py.
  - apply last_error_py.
  - unfold q_is_first. now rewrite hd_error_py.
  - unfold q_is_last. now rewrite last_error_py.
  - intros i Hi Hf. unfold q_prev. rewrite Hf, Hi. unfold py_at.
    replace (Z.of_nat (S i) + -1) with (Z.of_nat i) by lia.
    assert ((Z.of_nat i >=? 0) = true) as -> by (apply Z.geb_le; lia). now rewrite Nat2Z.id.
  - intros i Hi Hl. unfold q_next. rewrite Hl, Hi. unfold py_at.
    replace (Z.of_nat i + 1) with (Z.of_nat (S i)) by lia.
    assert ((Z.of_nat (S i) >=? 0) = true) as -> by (apply Z.geb_le; lia). now rewrite Nat2Z.id.
Qed.

(* ---- C. counters of calc_depth / count_descendants / calc_height, guard of up() ---- *)
Theorem node_counters_agree (c : ctx) :
  Z.of_nat (q_depth c) = NAV_DEPTH_INIT + NAV_DEPTH_STEP * Z.of_nat (S (length (c_anc c))) /\
  Z.of_nat (q_count_desc c false) = NAV_COUNT_INIT + NAV_COUNT_STEP * Z.of_nat (length (pre_f (rch (c_self c)))) /\
  (NAV_HEIGHT_INIT = 0 /\ NAV_HEIGHT_START = 0 /\ NAV_HEIGHT_STEP = 1 /\ NAV_HEIGHT_CMP = tx "Gt") /\
  (forall k, cmp_eval NAV_UP_GUARD_OP (Z.of_nat k) NAV_UP_GUARD_K = Some true <-> k = 0%nat) /\
  q_up c 0 = None.
Proof.
  refine (conj _ (conj _ (conj _ (conj _ eq_refl)))).
  - unfold q_depth, NAV_DEPTH_INIT, NAV_DEPTH_STEP. lia.
  - unfold q_count_desc, NAV_COUNT_INIT, NAV_COUNT_STEP. rewrite filter_true. lia.
  - vm_compute. repeat split.
  - intros k. change (cmp_eval NAV_UP_GUARD_OP (Z.of_nat k) NAV_UP_GUARD_K) with (Some (Z.of_nat k <? 1)).
    split.
    + intros E. injection E as E. apply Z.ltb_lt in E. lia.
    + intros ->. reflexivity.
Qed.

(* ---- D. typed_tree.py: has_children, next_sibling, prev_sibling ---- *)
Theorem typed_has_children_agrees (ch : list rt) (k : text) :
  cmp_eval NAV_T_HAS_CHILDREN_OP (Z.of_nat (length (t_get_children ch (Some k)))) NAV_T_HAS_CHILDREN_K
  = Some (t_has_children ch (Some k)).
Proof.
  change (cmp_eval NAV_T_HAS_CHILDREN_OP (Z.of_nat (length (t_get_children ch (Some k)))) NAV_T_HAS_CHILDREN_K)
    with (Some (Z.of_nat (length (t_get_children ch (Some k))) >? 0)).
  unfold t_has_children. f_equal. destruct (length (t_get_children ch (Some k))); reflexivity.
Qed.

Lemma skipn_all' {X} (l : list X) n : (length l <= n)%nat -> skipn n l = [].
Proof. revert n. induction l as [|x l IH]; intros [|n] H; cbn in *; try reflexivity; try lia. apply IH. lia. Qed.

Theorem typed_next_agrees (c : ctx) (any : bool) (i : nat) :
  index_of (rid (c_self c)) (c_sibs c) = Some i ->
  t_next c any =
  match cmp_eval NAV_T_NEXT_GUARD_OP (Z.of_nat i) (Z.of_nat (length (c_sibs c)) + NAV_T_NEXT_GUARD_ADD) with
  | Some true => find (fun t => any || same_kind t (c_self c))
                      (skipn (Z.to_nat (Z.of_nat i + NAV_T_NEXT_RANGE_START)) (c_sibs c))
  | _ => None
  end.
Proof.
  intros Hi. unfold t_next. rewrite Hi.
  change (cmp_eval NAV_T_NEXT_GUARD_OP (Z.of_nat i) (Z.of_nat (length (c_sibs c)) + NAV_T_NEXT_GUARD_ADD))
    with (Some (Z.of_nat i <? Z.of_nat (length (c_sibs c)) + -1)).
  change NAV_T_NEXT_RANGE_START with 1.
  replace (Z.to_nat (Z.of_nat i + 1)) with (S i) by lia.
  destruct (Z.of_nat i <? Z.of_nat (length (c_sibs c)) + -1) eqn:E; [reflexivity|].
  apply Z.ltb_ge in E. rewrite skipn_all' by lia. reflexivity.
Qed.

Theorem typed_prev_agrees (c : ctx) (any : bool) (i : nat) :
  index_of (rid (c_self c)) (c_sibs c) = Some i ->
  t_prev c any =
  match cmp_eval NAV_T_PREV_GUARD_OP (Z.of_nat i) NAV_T_PREV_GUARD_K with
  | Some true => find (fun t => any || same_kind t (c_self c)) (rev (firstn i (c_sibs c)))
  | _ => None
  end /\
  (* range(own_idx - 1, -1, -1) and, in last_child, range(len - 1, -1, -1): downwards to index 0 inclusive *)
  NAV_T_PREV_RANGE = [-1; -1; -1] /\ NAV_T_LAST_CHILD_RANGE = [-1; -1; -1].
Proof.
  intros Hi. split; [|split; reflexivity]. unfold t_prev. rewrite Hi.
  change (cmp_eval NAV_T_PREV_GUARD_OP (Z.of_nat i) NAV_T_PREV_GUARD_K) with (Some (Z.of_nat i >? 0)).
  destruct i; reflexivity.
Qed.

Lemma typed_sub_values :
  sub_lit "TypedNode.first_child" = 0 /\ sub_lit "TypedNode.last_child" = -1 /\
  sub_lit "TypedNode.first_sibling" = 0 /\ sub_lit "TypedNode.last_sibling" = -1 /\
  sub_lit "TypedNode.is_first_sibling" = 0 /\ sub_lit "TypedNode.is_last_sibling" = -1 /\
  sub_var "TypedNode.prev_sibling" = 0 /\ sub_var "TypedNode.next_sibling" = 0 /\ sub_var "TypedNode.last_child" = 0.
Proof. vm_compute. repeat split. Qed.

(* the ANY_KIND / any_kind=True branches index the full list at [0] / [-1] *)
Theorem typed_subscripts_agree (c : ctx) (ch : list rt) :
  t_first_child ch None = py_at ch (sub_lit "TypedNode.first_child") /\
  t_last_child ch None = py_at ch (sub_lit "TypedNode.last_child") /\
  t_first_sibling c true = py_at (c_sibs c) (sub_lit "TypedNode.first_sibling") /\
  t_last_sibling c true = py_at (c_sibs c) (sub_lit "TypedNode.last_sibling") /\
  t_is_first c true = match py_at (c_sibs c) (sub_lit "TypedNode.is_first_sibling") with
                      | Some t => is_self (rid (c_self c)) t | None => false end /\
  t_is_last c true = match py_at (c_sibs c) (sub_lit "TypedNode.is_last_sibling") with
                     | Some t => is_self (rid (c_self c)) t | None => false end /\
  (* the scans read pc[idx] / all_children[i] with no further offset *)
  sub_var "TypedNode.prev_sibling" = 0 /\ sub_var "TypedNode.next_sibling" = 0 /\ sub_var "TypedNode.last_child" = 0.
Proof.
  destruct typed_sub_values as (-> & -> & -> & -> & -> & -> & -> & -> & ->).
  refine (conj _ (conj _ (conj _ (conj _ (conj _ (conj _ (conj eq_refl (conj eq_refl eq_refl)))))))).
  - rewrite typed_first_child_any. apply hd_error_py.
  - rewrite typed_last_child_any. apply last_error_py.
  - unfold t_first_sibling. apply hd_error_py.
  - unfold t_last_sibling. apply last_error_py.
  - unfold t_is_first, t_first_sibling. now rewrite hd_error_py.
  - unfold t_is_last, t_last_sibling. now rewrite last_error_py.
Qed.
