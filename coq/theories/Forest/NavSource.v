(* Source tie for C10 / C15: the lexical facts lifted from nutree/node.py and
   nutree/typed_tree.py by harness/gen_facts.py (section NAV of Generated.v)
   are interpreted here and related to the model of Nav.v.

   - sibling positions are found BY IDENTITY (`is self`, directly or through
     get_index / is_first_sibling / is_last_sibling), never by `==`,
     `list.index`, `in`;
   - the integer subscripts ([0], [-1], [idx+1], [idx-1]), comparison
     operators and constants (`> 0`, `own_idx < pc_len - 1`, range starts,
     counters of calc_depth / count_descendants / calc_height, `level < 1`)
     are the ones the model computes with.
   Re-introducing `list.index(self)`, `> 1`, `pc_len - 2` ... makes a lemma of
   this file false, so Properties/C10.v and C15.v stop compiling. *)
From Coq Require Import String Ascii.
From Coq Require Import List ZArith Bool Arith Lia.
From NT Require Import Sx Rose ListFacts RoseFacts Nav NavProofs.
From NTGen Require Import Generated.
Import ListNotations.
Local Open Scope Z_scope.

Fixpoint tx (s : string) : text :=
  match s with
  | EmptyString => []
  | String a s' => Z.of_N (N_of_ascii a) :: tx s'
  end.

Fixpoint assoc {V} (k : text) (l : list (text * V)) : option V :=
  match l with
  | [] => None
  | (k', v) :: l' => if text_eqb k k' then Some v else assoc k l'
  end.

Definition mem_text (x : text) (l : list text) : bool := existsb (text_eqb x) l.

(* ---- comparison operators and Python indexing ---- *)
Definition cmp_eval (op : text) (a b : Z) : option bool :=
  if text_eqb op (tx "Lt") then Some (a <? b)
  else if text_eqb op (tx "Gt") then Some (a >? b)
  else if text_eqb op (tx "LtE") then Some (a <=? b)
  else if text_eqb op (tx "GtE") then Some (a >=? b)
  else if text_eqb op (tx "Eq") then Some (a =? b)
  else if text_eqb op (tx "NotEq") then Some (negb (a =? b))
  else None.

(* l[k] for a Python int k (negative = from the end); out of range = None *)
Definition py_at {X} (l : list X) (k : Z) : option X :=
  if k >=? 0 then nth_error l (Z.to_nat k)
  else if Z.of_nat (length l) + k >=? 0 then nth_error l (Z.to_nat (Z.of_nat (length l) + k)) else None.

(* the literal subscript ([] base) / the offset of the name-based subscript of an accessor *)
Definition sub_lit_in (tbl : list (text * list (text * Z))) (name : string) : Z :=
  match assoc (tx name) tbl with
  | Some subs => match filter (fun bo => match fst bo with [] => true | _ => false end) subs with
                 | [(_, o)] => o
                 | _ => 1000
                 end
  | None => 1000
  end.
Definition sub_var_in (tbl : list (text * list (text * Z))) (name : string) : Z :=
  match assoc (tx name) tbl with
  | Some subs => match filter (fun bo => match fst bo with [] => false | _ => true end) subs with
                 | [(_, o)] => o
                 | _ => 1000
                 end
  | None => 1000
  end.

Definition sub_lit := sub_lit_in NAV_SUBSCRIPTS.
Definition sub_var := sub_var_in NAV_SUBSCRIPTS.

(* ---- A. identity, not equality ---- *)
Definition row_identity_in (tbl : list (text * (bool * list text))) (nm : text) : bool :=
  match assoc nm tbl with
  | Some (true, _) => true
  | Some (false, calls) =>
      (mem_text (tx "Node.get_index") calls || mem_text (tx "TypedNode.get_index") calls) &&
      forallb (fun cn => match assoc cn tbl with Some (true, _) => true | _ => false end) calls
  | None => false
  end.

Definition reads_children_in (tbl : list (text * list text)) (nm : text) : bool :=
  match assoc nm tbl with Some l => mem_text (tx "_children") l | None => false end.

Definition node_position_accessors : list text :=
  map tx ["Node.get_index"; "Node.prev_sibling"; "Node.next_sibling"; "Node.is_first_sibling";
          "Node.is_last_sibling"; "Node.get_siblings"]%string.
Definition node_accessors : list text :=
  node_position_accessors ++
  map tx ["Node.first_sibling"; "Node.last_sibling"; "Node.first_child"; "Node.last_child"; "Node.get_top";
          "Node.is_descendant_of"; "Node.get_common_ancestor"; "Node.get_parent_list"]%string.
(* no accessor compares nodes by equality; positions are found by identity in self._parent._children;
   the plain accessors contain no `==` at all *)
Definition node_identity_ok : bool :=
  forallb (fun nm => negb (mem_text nm NAV_EQ_ON_NODES)) node_accessors &&
  forallb (row_identity_in NAV_IDENTITY) node_position_accessors &&
  forallb (reads_children_in NAV_PARENT_READS) node_position_accessors &&
  forallb (fun nm => match assoc nm NAV_VALUE_COMPARES with Some [] => true | _ => false end) node_accessors.

Lemma node_identity_holds : GEN_NAV_OK = true /\ node_identity_ok = true.
Proof. split; vm_compute; reflexivity. Qed.

(* ---- B. subscripts of node.py = what the model computes ---- *)
Lemma last_error_py {X} (l : list X) : last_error l = py_at l (-1).
Proof.
  unfold py_at, last_error. cbn [Z.geb Z.compare].
  destruct l as [|x l] using rev_ind; [reflexivity|]. clear IHl.
  rewrite rev_app_distr, app_length. cbn [rev app hd_error length].
  replace (Z.of_nat (length l + 1) + -1) with (Z.of_nat (length l)) by lia.
  assert ((Z.of_nat (length l) >=? 0) = true) as -> by (apply Z.geb_le; lia).
  rewrite Nat2Z.id. symmetry. apply nth_error_app_len.
Qed.

Lemma hd_error_py {X} (l : list X) : hd_error l = py_at l 0.
Proof. unfold py_at. cbn. now destruct l. Qed.

Lemma sub_values :
  sub_lit "Node.first_child" = 0 /\ sub_lit "Node.last_child" = -1 /\
  sub_lit "Node.first_sibling" = 0 /\ sub_lit "Node.last_sibling" = -1 /\
  sub_lit "Node.is_first_sibling" = 0 /\ sub_lit "Node.is_last_sibling" = -1 /\
  sub_var "Node.prev_sibling" = -1 /\ sub_var "Node.next_sibling" = 1.
Proof. vm_compute. repeat split. Qed.

Theorem node_subscripts_agree (c : ctx) :
  q_first_child c = py_at (rch (c_self c)) (sub_lit "Node.first_child") /\
  q_last_child c = py_at (rch (c_self c)) (sub_lit "Node.last_child") /\
  q_first_sibling c = py_at (c_sibs c) (sub_lit "Node.first_sibling") /\
  q_last_sibling c = py_at (c_sibs c) (sub_lit "Node.last_sibling") /\
  q_is_first c = match py_at (c_sibs c) (sub_lit "Node.is_first_sibling") with
                 | Some t => is_self (rid (c_self c)) t | None => false end /\
  q_is_last c = match py_at (c_sibs c) (sub_lit "Node.is_last_sibling") with
                | Some t => is_self (rid (c_self c)) t | None => false end /\
  (forall i, q_index c = Some (S i) -> q_is_first c = false ->
     q_prev c = py_at (c_sibs c) (Z.of_nat (S i) + sub_var "Node.prev_sibling")) /\
  (forall i, q_index c = Some i -> q_is_last c = false ->
     q_next c = py_at (c_sibs c) (Z.of_nat i + sub_var "Node.next_sibling")).
Proof.
  destruct sub_values as (-> & -> & -> & -> & -> & -> & -> & ->).
  refine (conj _ (conj _ (conj _ (conj _ (conj _ (conj _ (conj _ _))))))).
  - apply hd_error_py.
  - apply last_error_py.
  - apply hd_error_py.
  - apply last_error_py.
  - unfold q_is_first. now rewrite hd_error_py.
  - unfold q_is_last. now rewrite last_error_py.
  - intros i Hi Hf. unfold q_prev. rewrite Hf, Hi. unfold py_at.
    replace (Z.of_nat (S i) + -1) with (Z.of_nat i) by lia.
    assert ((Z.of_nat i >=? 0) = true) as -> by (apply Z.geb_le; lia). now rewrite Nat2Z.id.
  - intros i Hi Hl. unfold q_next. rewrite Hl, Hi. unfold py_at.
    replace (Z.of_nat i + 1) with (Z.of_nat (S i)) by lia.
    assert ((Z.of_nat (S i) >=? 0) = true) as -> by (apply Z.geb_le; lia). now rewrite Nat2Z.id.
Qed.

(* ---- C. counters of calc_depth / count_descendants / calc_height, guard of up() ---- *)
Theorem node_counters_agree (c : ctx) :
  Z.of_nat (q_depth c) = NAV_DEPTH_INIT + NAV_DEPTH_STEP * Z.of_nat (S (length (c_anc c))) /\
  Z.of_nat (q_count_desc c false) = NAV_COUNT_INIT + NAV_COUNT_STEP * Z.of_nat (length (pre_f (rch (c_self c)))) /\
  (NAV_HEIGHT_INIT = 0 /\ NAV_HEIGHT_START = 0 /\ NAV_HEIGHT_STEP = 1 /\ NAV_HEIGHT_CMP = tx "Gt") /\
  (forall k, cmp_eval NAV_UP_GUARD_OP (Z.of_nat k) NAV_UP_GUARD_K = Some true <-> k = 0%nat) /\
  q_up c 0 = None.
Proof.
  refine (conj _ (conj _ (conj _ (conj _ eq_refl)))).
  - unfold q_depth, NAV_DEPTH_INIT, NAV_DEPTH_STEP. lia.
  - unfold q_count_desc, NAV_COUNT_INIT, NAV_COUNT_STEP. rewrite filter_true. lia.
  - vm_compute. repeat split.
  - intros k. change (cmp_eval NAV_UP_GUARD_OP (Z.of_nat k) NAV_UP_GUARD_K) with (Some (Z.of_nat k <? 1)).
    split.
    + intros E. injection E as E. apply Z.ltb_lt in E. lia.
    + intros ->. reflexivity.
Qed.

