(* Audit follow-up for C12: an independent, declarative header predicate (equivalent to the reader's test),
   an independent specification of "the maps in use", JSON-level readings of the layout. *)
From Coq Require Import List ZArith Bool Arith Lia Permutation String.
From NT Require Import Sx Rose ListFacts RoseFacts Serialize SerializeSpec SerDictFacts SerCompressProofs
     SerLayFacts SerWriterProofs SerReaderProofs SerializeProofs SerTheorems SerWitness.
From NTGen Require Import Generated.
Import ListNotations.
Open Scope list_scope.

(* ---------------------------------------------------------------- substring, declaratively *)
Lemma is_prefix_iff p : forall s, is_prefix p s = true <-> exists b, s = p ++ b.
Proof.
  induction p as [|x p IH]; intros s; cbn.
  - split; [intros _; exists s; reflexivity|reflexivity].
  - destruct s as [|y s]; [split; [discriminate|intros [b E]; discriminate E]|].
    rewrite andb_true_iff, Z.eqb_eq, IH. split.
    + intros [-> [b ->]]. exists b. reflexivity.
    + intros [b E]. injection E as -> ->. split; [reflexivity|eauto].
Qed.

Lemma is_substr_iff p : forall s, is_substr p s = true <-> exists a b, s = a ++ p ++ b.
Proof.
  induction s as [|y s IH].
  - cbn. rewrite orb_false_r, is_prefix_iff. split.
    + intros [b E]. exists [], b. exact E.
    + intros (a & b & E). destruct a; [exists b; exact E|discriminate E].
  - cbn [is_substr]. rewrite orb_true_iff, is_prefix_iff, IH. split.
    + intros [[b E]|(a & b & E)]; [exists [], b; exact E|exists (y :: a), b; rewrite E; reflexivity].
    + intros (a & b & E). destruct a as [|z a]; [left; exists b; exact E|right]. cbn in E. injection E as _ E. eauto.
Qed.

(* ---------------------------------------------------------------- "the generator mentions nutree/" *)
(* Python: "nutree/" in str(obj["meta"]["$generator"]).  For a string: it contains "nutree/".  str() of a list or
   dict shows its strings, so a container mentions it if a member (or a key) does. *)
Inductive Mentions : jv -> Prop :=
| M_str s a b : s = a ++ s_nutree_slash ++ b -> Mentions (JStr s)
| M_list l x : In x l -> Mentions x -> Mentions (JList l)
| M_key d k v a b : In (k, v) d -> k = a ++ s_nutree_slash ++ b -> Mentions (JDict d)
| M_val d k v : In (k, v) d -> Mentions v -> Mentions (JDict d).

Section JvInd.
  Variable P : jv -> Prop.
  Hypothesis Hnull : P JNull.
  Hypothesis Hbool : forall b, P (JBool b).
  Hypothesis Hint : forall z, P (JInt z).
  Hypothesis Hfloat : forall s, P (JFloat s).
  Hypothesis Hstr : forall s, P (JStr s).
  Hypothesis Hlist : forall l, Forall P l -> P (JList l).
  Hypothesis Hdict : forall d, Forall (fun kv => P (snd kv)) d -> P (JDict d).
  Fixpoint jv_ind' (j : jv) : P j :=
    match j with
    | JNull => Hnull
    | JBool b => Hbool b
    | JInt z => Hint z
    | JFloat s => Hfloat s
    | JStr s => Hstr s
    | JList l => Hlist l ((fix go (l : list jv) : Forall P l :=
                             match l with [] => Forall_nil _ | x :: r => Forall_cons _ (jv_ind' x) (go r) end) l)
    | JDict d => Hdict d ((fix go (d : dict) : Forall (fun kv => P (snd kv)) d :=
                             match d with [] => Forall_nil _ | kv :: r => Forall_cons _ (jv_ind' (snd kv)) (go r) end) d)
    end.
End JvInd.

Lemma mentions_iff : forall g, mentions_nutree g = true <-> Mentions g.
Proof.
  induction g as [| b | z | s | s | l IH | d IH] using jv_ind'; cbn [mentions_nutree];
    try (split; [discriminate|intros H; inversion H]).
  - rewrite is_substr_iff. split; [intros (a & b & E); eapply M_str; eauto|intros H; inversion H; eauto].
  - rewrite existsb_exists. rewrite Forall_forall in IH. split.
    + intros (x & Hx & Hm). eapply M_list; [exact Hx|now apply IH].
    + intros H. inversion H as [|l' x Hx Hm| |]; subst. exists x. split; [exact Hx|now apply IH].
  - rewrite existsb_exists. rewrite Forall_forall in IH. split.
    + intros ([k v] & Hx & Hm). cbn [fst snd] in Hm. apply orb_true_iff in Hm as [Hm|Hm].
      * apply is_substr_iff in Hm as (a & b & E). eapply M_key; eauto.
      * eapply M_val; [exact Hx|]. now apply (IH (k, v) Hx).
    + intros H. inversion H as [| |d' k v a b Hx E Ed|d' k v Hx Hm Ed].
      * exists (k, v). split; [exact Hx|]. cbn [fst snd]. apply orb_true_iff. left. apply is_substr_iff. eauto.
      * exists (k, v). split; [exact Hx|]. cbn [fst snd]. apply orb_true_iff. right. now apply (IH (k, v) Hx).
Qed.

(* ---------------------------------------------------------------- the header, declaratively *)
(* a JSON object with a member "nodes" and a member "meta" that is an object whose "$generator" mentions "nutree/" *)
Definition has_header_decl (j : jv) (md : dict) : Prop :=
  exists o n g, j = JDict o /\ dget k_meta o = Some (JDict md) /\ dget k_nodes o = Some n /\
                dget k_generator md = Some g /\ Mentions g.

Theorem check_header_iff j md : check_header j = Ok md <-> has_header_decl j md.
Proof.
  unfold check_header, has_header_decl. split.
  - destruct j as [| | | | |l|o]; try discriminate.
    destruct (dget k_meta o) as [m|] eqn:Em; [|discriminate]. destruct (dget k_nodes o) as [n|] eqn:En; [|destruct m; discriminate].
    destruct m as [| | | |s|ml|md']; try discriminate.
    + destruct (is_substr k_generator s); discriminate.
    + destruct (existsb (jv_eqb (JStr k_generator)) ml); discriminate.
    + destruct (dget k_generator md') as [g|] eqn:Eg; [|discriminate].
      destruct (mentions_nutree g) eqn:Emn; [|discriminate]. intros [= <-].
      exists o, n, g. repeat split; auto. now apply mentions_iff.
  - intros (o & n & g & -> & Em & En & Eg & Hm). rewrite Em, En, Eg. apply mentions_iff in Hm. now rewrite Hm.
Qed.

Lemma check_header_err j e : check_header j = Err e -> e = EFormat \/ e = EType.
Proof.
  unfold check_header. intros E.
  repeat match type of E with context [match ?x with _ => _ end] => destruct x end;
    try discriminate E; injection E as <-; auto.
Qed.

(* the reader gets past the header test exactly for such values; everything else is rejected *)
Theorem load_rejects_iff_no_header c deser shash j :
  (forall md, ~ has_header_decl j md) -> exists e, load_doc c deser shash j = Err e /\ (e = EFormat \/ e = EType).
Proof.
  intros H. unfold load_doc. destruct (check_header j) as [md|e] eqn:E.
  - exfalso. apply (H md). now apply check_header_iff.
  - exists e. split; [reflexivity|]. now apply check_header_err with j.
Qed.

Lemma has_header_bool_decl j : has_header j = true <-> exists md, has_header_decl j md.
Proof.
  split.
  - unfold has_header. destruct j as [| | | | |l|o]; try discriminate.
    destruct (dget k_meta o) as [m|] eqn:Em; [|discriminate]. destruct m as [| | | | | |md]; try discriminate.
    destruct (dget k_nodes o) as [n|] eqn:En; [|discriminate]. destruct (dget k_generator md) as [g|] eqn:Eg; [|discriminate].
    intros Hm. exists md, o, n, g. repeat split; auto. now apply mentions_iff.
  - intros (md & o & n & g & -> & Em & En & Eg & Hm). unfold has_header. rewrite Em, En, Eg. now apply mentions_iff.
Qed.

(* ---------------------------------------------------------------- the maps in use, independently *)
(* ug_serialize.rst: key_map=True -> {"data_id": "i", "str": "s"} (TypedTree: + "kind": "k"; FileSystemTree: none),
   False -> none, a dict -> itself.  value_map=False -> none; True -> no default; a dict -> itself; a TypedTree adds
   "kind": <distinct kind values> unless the map has a "kind" entry. *)
Definition km_spec (c : cls) (ko : kopt) : list (text * text) :=
  match ko with
  | KFalse => []
  | KCustom m => m
  | KTrue => match c with
             | CPlain => [(t_ "data_id", t_ "i"); (t_ "str", t_ "s")]
             | CTyped => [(t_ "data_id", t_ "i"); (t_ "str", t_ "s"); (t_ "kind", t_ "k")]
             | CFs => []
             end
  end.

(* distinct kinds in order of first occurrence (collections.Counter keys): append a kind when it is new *)
Definition kinds_spec (f : forest) : list text :=
  fold_left (fun acc t => match rkind t with
                          | Some k => if existsb (text_eqb k) acc then acc else acc ++ [k]
                          | None => acc
                          end) (pre_f f) [].

Definition vm_spec (c : cls) (vo : vopt) (f : forest) : list (text * list text) :=
  match vo with
  | VFalse => []
  | VTrue => match c with CTyped => [(t_ "kind", kinds_spec f)] | _ => [] end
  | VCustom m => match c with
                 | CTyped => if existsb (fun kv => text_eqb (fst kv) (t_ "kind")) m then m else m ++ [(t_ "kind", kinds_spec f)]
                 | _ => m
                 end
  end.

Lemma existsb_mem_ext (k : text) (a b : list text) : (forall x, In x a <-> In x b) ->
  existsb (text_eqb k) a = existsb (text_eqb k) b.
Proof.
  intros H. destruct (existsb (text_eqb k) a) eqn:Ea; symmetry.
  - apply existsb_exists in Ea as (x & Hx & E). apply existsb_exists. exists x. split; [now apply H|exact E].
  - destruct (existsb (text_eqb k) b) eqn:Eb; [|reflexivity]. apply existsb_exists in Eb as (x & Hx & E).
    assert (existsb (text_eqb k) a = true) by (apply existsb_exists; exists x; split; [now apply H|exact E]). congruence.
Qed.

Lemma dedup_fold : forall (l : list text) seen acc, (forall x, In x seen <-> In x acc) ->
  fold_left (fun acc k => if existsb (text_eqb k) acc then acc else acc ++ [k]) l acc = acc ++ dedup_text seen l.
Proof.
  induction l as [|k l IH]; intros seen acc H; cbn [fold_left dedup_text]; [now rewrite app_nil_r|].
  rewrite (existsb_mem_ext k seen acc H). destruct (existsb (text_eqb k) acc) eqn:E.
  - now apply IH.
  - rewrite (IH (k :: seen) (acc ++ [k])).
    + now rewrite <- app_assoc.
    + intros x. rewrite in_app_iff. cbn [In]. rewrite (H x). tauto.
Qed.

Lemma kinds_of_is_spec f : kinds_of f = kinds_spec f.
Proof.
  unfold kinds_of, kinds_spec.
  assert (G : forall (l : list rt) acc,
             fold_left (fun acc t => match rkind t with
                                     | Some k => if existsb (text_eqb k) acc then acc else acc ++ [k]
                                     | None => acc end) l acc
             = fold_left (fun acc k => if existsb (text_eqb k) acc then acc else acc ++ [k])
                         (flat_map (fun t => match rkind t with Some k => [k] | None => [] end) l) acc).
  { induction l as [|t l IH]; intros acc; [reflexivity|]. cbn [fold_left flat_map]. rewrite fold_left_app.
    destruct (rkind t); cbn [fold_left]; apply IH. }
  rewrite G. symmetry. apply (dedup_fold _ [] []). tauto.
Qed.

Theorem resolution_is_spec c ko vo f : resolve_km c ko = km_spec c ko /\ resolve_vm c vo f = vm_spec c vo f.
Proof.
  split.
  - destruct ko; [destruct c; reflexivity|reflexivity|reflexivity].
  - unfold resolve_vm, vm_spec. rewrite kinds_of_is_spec. destruct vo as [| |m]; [destruct c; reflexivity|reflexivity|].
    destruct c; cbn [is_typed]; try reflexivity.
    assert (E : forall m : list (text * list text),
               match assoc_t k_kind m with Some _ => true | None => false end = existsb (fun kv => text_eqb (fst kv) (t_ "kind")) m).
    { induction m0 as [|[k v] m0 IHm]; [reflexivity|]. cbn [assoc_t existsb fst].
      replace (text_eqb k (t_ "kind")) with (text_eqb k_kind k).
      - destruct (text_eqb k_kind k); [reflexivity|exact IHm].
      - destruct (text_eqb k_kind k) eqn:E1; symmetry.
        + apply text_eqb_eq in E1. subst k. apply text_eqb_refl.
        + destruct (text_eqb k (t_ "kind")) eqn:E2; [|reflexivity]. apply text_eqb_eq in E2. subst k. rewrite text_eqb_refl in E1. discriminate. }
    specialize (E m). destruct (assoc_t k_kind m); destruct (existsb _ m); try discriminate E; reflexivity.
Qed.

(* the kind list really is: no duplicates, exactly the kinds that occur *)
Lemma kinds_spec_props f : NoDup (kinds_spec f) /\ forall k, In k (kinds_spec f) <-> exists t, In t (pre_f f) /\ rkind t = Some k.
Proof.
  unfold kinds_spec.
  assert (G : forall (l : list rt) acc, NoDup acc ->
             let r := fold_left (fun acc t => match rkind t with
                                     | Some k => if existsb (text_eqb k) acc then acc else acc ++ [k]
                                     | None => acc end) l acc in
             NoDup r /\ forall k, In k r <-> In k acc \/ exists t, In t l /\ rkind t = Some k).
  { induction l as [|t l IH]; intros acc Hn; cbn zeta; cbn [fold_left].
    - split; [exact Hn|]. intros k. split; [auto|intros [H|(t & [] & _)]; exact H].
    - destruct (rkind t) as [k0|] eqn:Ek.
      + destruct (existsb (text_eqb k0) acc) eqn:Ex.
        * destruct (IH acc Hn) as [N M]. split; [exact N|]. intros k. rewrite (M k). split.
          -- intros [H|(x & Hx & E)]; [now left|right; exists x; split; [now right|exact E]].
          -- intros [H|(x & [<-|Hx] & E)]; [now left| |right; eauto].
             left. rewrite Ek in E. injection E as <-. apply existsb_exists in Ex as (y & Hy & Ey). apply text_eqb_eq in Ey. now subst.
        * assert (Hn' : NoDup (acc ++ [k0])).
          { apply NoDup_app_intro; [exact Hn|repeat constructor; intros []|]. intros x Hx [E0|[]]. subst x.
            assert (existsb (text_eqb k0) acc = true); [|congruence]. apply existsb_exists. exists k0. split; [exact Hx|apply text_eqb_refl]. }
          destruct (IH (acc ++ [k0]) Hn') as [N M]. split; [exact N|]. intros k. rewrite (M k), in_app_iff. cbn [In]. split.
          -- intros [[H|[<-|[]]]|(x & Hx & E)]; [now left|right; exists t; split; [now left|exact Ek]|right; exists x; split; [now right|exact E]].
          -- intros [H|(x & [<-|Hx] & E)]; [left; now left| |right; eauto]. rewrite Ek in E. injection E as <-. left. right. now left.
      + destruct (IH acc Hn) as [N M]. split; [exact N|]. intros k. rewrite (M k). split.
        * intros [H|(x & Hx & E)]; [now left|right; exists x; split; [now right|exact E]].
        * intros [H|(x & [<-|Hx] & E)]; [now left|rewrite Ek in E; discriminate E|right; eauto]. }
  destruct (G (pre_f f) [] (NoDup_nil _)) as [N M]. split; [exact N|]. intros k. rewrite (M k). split; [intros [[]|H]; exact H|auto].
Qed.

(* the writer, stated with the independently specified maps *)
Theorem save_doc_is_layout_spec c ser ko vo meta f :
  ids_ok f -> opts_ok c ser ko vo meta f ->
  save_doc c ser ko vo meta f
  = Ok (doc (header_spec (km_spec c ko) (vm_spec c vo f) meta) (layout c ser (km_spec c ko) (vm_spec c vo f) f)).
Proof.
  intros Hi Ho. rewrite (save_doc_is_layout c ser ko vo meta f Hi Ho). unfold layout_doc.
  destruct (resolution_is_spec c ko vo f) as [-> ->]. reflexivity.
Qed.

(* ---------------------------------------------------------------- JSON-level readings of the layout *)
(* entry #k of the node list is [parent position of the k-th node in pre-order, data] *)
Lemma lay_entries_nth c ser km vm : forall l prev k q, nth_error l k = Some q ->
  exists data, nth_error (lay_entries c ser km vm prev l) k = Some (entry (q_ppos q) data).
Proof.
  induction l as [|[[pp p] t] l IH]; intros prev k q H; destruct k; cbn in *; try discriminate.
  - injection H as <-. eexists. reflexivity.
  - apply IH. exact H.
Qed.

Lemma full_entry_not_ref c ser km vm t n : full_entry c ser km vm t <> jnat n.
Proof. unfold full_entry, jnat. destruct (bare_str c (rinfo t)); discriminate. Qed.

(* a data field that is a number j: an EARLIER node at position j has the same data_id and the same kind *)
Lemma lay_entries_ref c ser km vm :
  forall l prev k pp p t, nth_error l k = Some (pp, p, t) ->
  forall j, nth_error (lay_entries c ser km vm prev l) k = Some (entry pp (jnat j)) ->
  exists x, In (j, x) (prev ++ map (fun q => (q_pos q, q_node q)) (firstn k l)) /\ rdid x = rdid t /\ rkind x = rkind t.
Proof.
  induction l as [|[[pp0 p0] t0] l IH]; intros prev k pp p t H j Hj; destruct k; cbn in *; try discriminate.
  - injection H as -> -> ->. injection Hj as Hj.
    destruct (first_same (rdid t) prev) as [[j' x]|] eqn:E.
    + destruct (kind_eqb (rkind t) (rkind x)) eqn:Ek.
      * unfold jnat in Hj. injection Hj as Hj. apply Nat2Z.inj in Hj. subst j'. unfold first_same in E. apply find_some in E as [Hi Hd]. cbn in Hd.
        exists x. rewrite app_nil_r. split; [exact Hi|]. split; [now apply did_eqb_eq|symmetry; now apply kind_eqb_eq].
      * exfalso. eapply full_entry_not_ref. exact Hj.
    + exfalso. eapply full_entry_not_ref. exact Hj.
  - destruct (IH (prev ++ [(p0, t0)]) k pp p t H j Hj) as (x & Hi & Hx). exists x. split; [|exact Hx].
    rewrite <- app_assoc in Hi. exact Hi.
Qed.

Theorem layout_entry_reading c ser km vm f k q :
  nth_error (lay_f 0 1 f) k = Some q ->
  (exists data, nth_error (layout c ser km vm f) k = Some (entry (q_ppos q) data)) /\
  (forall j, nth_error (layout c ser km vm f) k = Some (entry (q_ppos q) (jnat j)) ->
     exists x, In (j, x) (map (fun q => (q_pos q, q_node q)) (firstn k (lay_f 0 1 f))) /\
               rdid x = rdid (q_node q) /\ rkind x = rkind (q_node q)).
Proof.
  intros H. split; [now apply lay_entries_nth|]. intros j Hj. destruct q as [[pp p] t].
  exact (lay_entries_ref c ser km vm (lay_f 0 1 f) [] k pp p t H j Hj).
Qed.

(* kind-differing clone in full, same-kind clone as a reference: the typed witness *)
Lemma f_ty_layout_refs :
  let l := layout CTyped wser (resolve_km CTyped KFalse) (resolve_vm CTyped VFalse f_ty) f_ty in
  List.length l = 5 /\ nth 4 l JNull = entry 4 (jnat 1) /\
  match nth 2 l JNull with JList [p; JDict _] => p = jnat 2 | _ => False end.
Proof. vm_compute. repeat split. Qed.
