(* C06 — arbitrary (stateful) callbacks: the calls of visit() always form a
   subsequence of the iterator's order, and under a callback that never halts
   the suppressed nodes are exactly those below a node whose call answered Skip. *)
From Coq Require Import List ZArith Bool Arith Lia Permutation.
From NT Require Import Sx Rose ListFacts RoseFacts Traverse TraverseProofs TraverseLevelOrd TraverseVisit TraverseSkip TraverseStop.
Import ListNotations.

Lemma subseq_trans {X} : forall (a b c : list X), subseq a b -> subseq b c -> subseq a c.
Proof.
  intros a b c H1 H2. revert a H1. induction H2 as [|x b c H IH|x b c H IH]; intros a H1.
  - exact H1.
  - apply ss_skip. now apply IH.
  - inversion H1 as [|x' a' b' H'|x' a' b' H']; subst.
    + apply ss_skip. now apply IH.
    + apply ss_keep. now apply IH.
Qed.

Lemma subseq_prefix {X} (a b c : list X) : subseq a b -> subseq a (b ++ c).
Proof. intros H. rewrite <- (app_nil_r a). apply subseq_app; [exact H|apply subseq_nil]. Qed.

Lemma subseq_suffix {X} (a b c : list X) : subseq a c -> subseq a (b ++ c).
Proof. intros H. change a with ([] ++ a). apply subseq_app; [apply subseq_nil|exact H]. Qed.

Lemma subseq_flat_map_l {X Y} (g : X -> list Y) l m : subseq l m -> subseq (flat_map g l) (flat_map g m).
Proof.
  induction 1 as [|x l m H IH|x l m H IH]; cbn [flat_map]; [constructor| |].
  - change (flat_map g l) with ([] ++ flat_map g l). apply subseq_app; [apply subseq_nil|exact IH].
  - apply subseq_app; [apply subseq_refl|exact IH].
Qed.

Lemma fst_finish r : fst (finish r) = fst r.
Proof. destruct r as [tr [[v|e]|]]; reflexivity. Qed.

(* ------------------------------------------------------------------ *)
(* 1. any callback: the calls are a subsequence of the iterator's order *)
(* ------------------------------------------------------------------ *)

Section AnyCallback.
  Variable cb : cbT.

  Lemma seq_visit_subseq {X} (g : X -> visitor) (h : X -> list nat) l :
    Forall (fun c => forall calls, subseq (fst (g c calls)) (h c)) l ->
    forall calls, subseq (fst (seq_visit (map g l) calls)) (flat_map h l).
  Proof.
    induction 1 as [|c r Hc Hr IH]; intros calls; cbn [map seq_visit flat_map]; [constructor|].
    specialize (Hc calls). destruct (g c calls) as [tr [hh|]]; cbn [fst] in *.
    - now apply subseq_prefix.
    - specialize (IH (calls ++ tr)). destruct (seq_visit (map g r) (calls ++ tr)) as [tr2 h2]. cbn [fst] in *.
      now apply subseq_app.
  Qed.

  Lemma self_call_subseq id rest (l : list nat) :
    (forall calls, subseq (fst (rest calls)) l) -> forall calls, subseq (fst (self_call cb id rest calls)) (id :: l).
  Proof.
    intros H calls. unfold self_call. destruct (call_cb cb id calls); cbn [fst];
      try (apply ss_keep, subseq_nil).
    specialize (H (calls ++ [id])). destruct (rest (calls ++ [id])) as [tr h]. cbn [fst] in *. now apply ss_keep.
  Qed.

  Lemma then_call_subseq id body (l : list nat) :
    (forall calls, subseq (fst (body calls)) l) -> forall calls, subseq (fst (then_call cb id body calls)) (l ++ [id]).
  Proof.
    intros H calls. unfold then_call. specialize (H calls). destruct (body calls) as [tr [h|]]; cbn [fst] in *.
    - now apply subseq_prefix.
    - destruct (call_cb cb id (calls ++ tr)); cbn [fst]; (apply subseq_app; [exact H|apply subseq_refl]).
  Qed.

  Lemma visit_pre_subseq : forall t calls, subseq (fst (visit_pre cb t calls)) (ids_t t).
  Proof.
    induction t as [id i ch IH] using rt_ind'. intros calls. cbn [visit_pre]. rewrite ids_t_unfold, ids_flat. cbn [rid rch].
    apply self_call_subseq. now apply seq_visit_subseq.
  Qed.

  Lemma visit_post_subseq : forall t calls, subseq (fst (visit_post cb t calls)) (pids_t t).
  Proof.
    induction t as [id i ch IH] using rt_ind'. intros calls. cbn [visit_post]. rewrite pids_t_unfold, pids_flat. cbn [rid rch].
    apply then_call_subseq. now apply seq_visit_subseq.
  Qed.

  Lemma level_row_subseq : forall f calls tr nxt h,
    level_row cb f calls = (tr, nxt, h) -> subseq tr (map rid f) /\ subseq nxt (flat_map rch f).
  Proof.
    induction f as [|c r IH]; intros calls tr nxt h H; cbn [level_row] in H.
    - inversion H; subst. split; constructor.
    - cbn [map flat_map]. destruct (call_cb cb (rid c) calls).
      + destruct (level_row cb r (calls ++ [rid c])) as [[t n] h'] eqn:E. inversion H; subst.
        destruct (IH _ _ _ _ E) as [H1 H2]. split; [now apply ss_keep|]. apply subseq_app; [apply subseq_refl|exact H2].
      + destruct (level_row cb r (calls ++ [rid c])) as [[t n] h'] eqn:E. inversion H; subst.
        destruct (IH _ _ _ _ E) as [H1 H2]. split; [now apply ss_keep|].
        now apply subseq_suffix.
      + inversion H; subst. split; [apply ss_keep, subseq_nil|apply subseq_nil].
      + inversion H; subst. split; [apply ss_keep, subseq_nil|apply subseq_nil].
  Qed.

  Lemma iter_level_mono : forall k (g f : forest), subseq g f ->
    subseq (map rid (iter_level k false false g)) (map rid (iter_level k false false f)).
  Proof.
    induction k as [|k IH]; intros g f H; [constructor|].
    destruct g as [|t r]; [apply subseq_nil|].
    destruct f as [|t' r']; [inversion H|].
    rewrite !iter_level_unfold. cbn [dir]. rewrite !map_app. apply subseq_app; [now apply subseq_map|].
    apply IH. now apply subseq_flat_map_l.
  Qed.

  Lemma visit_level_subseq : forall fuel f calls,
    subseq (fst (visit_level fuel cb f calls)) (map rid (iter_level fuel false false f)).
  Proof.
    induction fuel as [|k IH]; intros f calls; [constructor|].
    destruct f as [|c r]; [constructor|].
    cbn [visit_level]. rewrite iter_level_unfold. cbn [dir]. rewrite map_app.
    destruct (level_row cb (c :: r) calls) as [[tr nxt] h] eqn:E.
    destruct (level_row_subseq _ _ _ _ _ E) as [H1 H2].
    destruct h as [h|]; cbn [fst].
    - now apply subseq_prefix.
    - specialize (IH nxt (calls ++ tr)). destruct (visit_level k cb nxt (calls ++ tr)) as [tr2 h2]. cbn [fst] in *.
      apply subseq_app; [exact H1|]. eapply subseq_trans; [exact IH|]. now apply iter_level_mono.
  Qed.
End AnyCallback.

Lemma iterator_ids_POST t a l :
  iterator t POST a = Some l -> map rid l = if a then pids_t t else pids (rch t).
Proof.
  unfold iterator. cbn [iter_handler is_post]. intros H. inversion H; subst; clear H.
  rewrite iter_post_eq. destruct a; cbn [andb negb app]; [|now rewrite app_nil_r].
  rewrite <- post_unfold. reflexivity.
Qed.

(* for ANY callback: no node is called twice and the calls respect the iterator's order *)
Theorem visit_subseq_any cb s m a l :
  visit_supported m = true -> iterator s m a = Some l -> subseq (fst (visit cb s m a)) (map rid l).
Proof.
  intros Hs Hl. unfold visit. destruct m; try discriminate; cbn [visit_body]; rewrite fst_finish.
  - rewrite (iterator_ids_PRE _ _ _ Hl). destruct a.
    + rewrite ids_t_unfold, ids_flat. apply self_call_subseq. intros calls.
      apply seq_visit_subseq, Forall_forall. intros c _. apply visit_pre_subseq.
    + rewrite ids_flat. apply seq_visit_subseq, Forall_forall. intros c _. apply visit_pre_subseq.
  - rewrite (iterator_ids_POST _ _ _ Hl). destruct a.
    + rewrite pids_t_unfold, pids_flat. apply then_call_subseq. intros calls.
      apply seq_visit_subseq, Forall_forall. intros c _. apply visit_post_subseq.
    + rewrite pids_flat. apply seq_visit_subseq, Forall_forall. intros c _. apply visit_post_subseq.
  - rewrite (iterator_ids_LEVEL _ _ _ Hl). unfold lev_ids. rewrite <- iter_level_levels. destruct a; cbn [app].
    + apply self_call_subseq. intros calls. apply visit_level_subseq.
    + apply visit_level_subseq.
Qed.

Corollary visit_nodup_any cb s m a :
  NoDup (ids_t s) -> NoDup (fst (visit cb s m a)).
Proof.
  intros ND. destruct (visit_supported m) eqn:Hs.
  - destruct (iterator s m a) as [l|] eqn:Hl.
    + eapply subseq_nodup; [eapply visit_subseq_any; eauto|]. eapply iterator_nodup; eauto.
    + apply iterator_supported in Hl. destruct Hl; subst m; discriminate.
  - rewrite visit_unsupported by exact Hs. constructor.
Qed.

(* ------------------------------------------------------------------ *)
(* 2. two callbacks that agree on the calls actually made run alike    *)
(* ------------------------------------------------------------------ *)

(* P holds of every call of [tr] (made after the history [calls]) *)
Inductive along (P : list nat -> nat -> Prop) : list nat -> list nat -> Prop :=
| al_nil calls : along P calls []
| al_cons calls x tr : P calls x -> along P (calls ++ [x]) tr -> along P calls (x :: tr).

Lemma along_app_inv (P : list nat -> nat -> Prop) : forall a calls b, along P calls (a ++ b) -> along P calls a /\ along P (calls ++ a) b.
Proof.
  induction a as [|x a IH]; intros calls b H.
  - split; [constructor|now rewrite app_nil_r].
  - cbn [app] in H. inversion H as [|c' x' tr' HP HA]; subst.
    destruct (IH _ _ HA) as [H1 H2]. split; [now constructor|]. now rewrite <- app_assoc in H2.
Qed.

Lemma along_of_nth (P : list nat -> nat -> Prop) : forall tr calls,
  (forall k x, nth_error tr k = Some x -> P (calls ++ firstn k tr) x) -> along P calls tr.
Proof.
  induction tr as [|y tr IH]; intros calls H; [constructor|].
  constructor.
  - specialize (H 0 y eq_refl). cbn [firstn] in H. now rewrite app_nil_r in H.
  - apply IH. intros k x Hk. specialize (H (S k) x Hk). cbn [firstn] in H. now rewrite <- app_assoc.
Qed.

Section Agree.
  Variables cb1 cb2 : cbT.
  Definition Agr (c : list nat) (x : nat) : Prop := call_cb cb1 x c = call_cb cb2 x c.
  Definition vagree (v1 v2 : visitor) : Prop :=
    forall calls tr h, v1 calls = (tr, h) -> along Agr calls tr -> v2 calls = (tr, h).

  Lemma vagree_seq vs vs' : Forall2 vagree vs vs' -> vagree (seq_visit vs) (seq_visit vs').
  Proof.
    induction 1 as [|v v' r r' Hv Hr IH]; intros calls tr h E A; [exact E|].
    cbn [seq_visit] in *. destruct (v calls) as [t1 [h1|]] eqn:E1.
    - inversion E; subst. now rewrite (Hv _ _ _ E1 A).
    - destruct (seq_visit r (calls ++ t1)) as [t2 h2] eqn:E2. inversion E; subst.
      destruct (along_app_inv _ _ _ _ A) as [A1 A2].
      now rewrite (Hv _ _ _ E1 A1), (IH _ _ _ E2 A2).
  Qed.

  Lemma vagree_self_call id rest rest' :
    vagree rest rest' -> vagree (self_call cb1 id rest) (self_call cb2 id rest').
  Proof.
    intros Hr calls tr h E A. unfold self_call in *.
    destruct (call_cb cb1 id calls) eqn:O.
    - destruct (rest (calls ++ [id])) as [t h'] eqn:Er. inversion E; subst.
      inversion A as [|c' x' tr' HP HA]; subst. unfold Agr in HP. rewrite <- HP, O.
      now rewrite (Hr _ _ _ Er HA).
    - inversion E; subst. inversion A as [|c' x' tr' HP HA]; subst. unfold Agr in HP. now rewrite <- HP, O.
    - inversion E; subst. inversion A as [|c' x' tr' HP HA]; subst. unfold Agr in HP. now rewrite <- HP, O.
    - inversion E; subst. inversion A as [|c' x' tr' HP HA]; subst. unfold Agr in HP. now rewrite <- HP, O.
  Qed.

  Lemma vagree_then_call id body body' :
    vagree body body' -> vagree (then_call cb1 id body) (then_call cb2 id body').
  Proof.
    intros Hb calls tr h E A. unfold then_call in *.
    destruct (body calls) as [t [h'|]] eqn:Eb.
    - inversion E; subst. now rewrite (Hb _ _ _ Eb A).
    - assert (Ht : tr = t ++ [id]) by (destruct (call_cb cb1 id (calls ++ t)); now inversion E).
      subst tr. destruct (along_app_inv _ _ _ _ A) as [A1 A2].
      inversion A2 as [|c' x' tr' HP HA]; subst. unfold Agr in HP.
      rewrite (Hb _ _ _ Eb A1), <- HP. exact E.
  Qed.

  Lemma vagree_visit_pre : forall t, vagree (visit_pre cb1 t) (visit_pre cb2 t).
  Proof.
    induction t as [id i ch IH] using rt_ind'. cbn [visit_pre].
    apply vagree_self_call, vagree_seq. now apply Forall2_map_same.
  Qed.

  Lemma vagree_visit_post : forall t, vagree (visit_post cb1 t) (visit_post cb2 t).
  Proof.
    induction t as [id i ch IH] using rt_ind'. cbn [visit_post].
    apply vagree_then_call, vagree_seq. now apply Forall2_map_same.
  Qed.

  Lemma level_row_agree : forall f calls tr nxt h,
    level_row cb1 f calls = (tr, nxt, h) -> along Agr calls tr -> level_row cb2 f calls = (tr, nxt, h).
  Proof.
    induction f as [|c r IH]; intros calls tr nxt h E A; [exact E|].
    cbn [level_row] in *. destruct (call_cb cb1 (rid c) calls) eqn:O.
    - destruct (level_row cb1 r (calls ++ [rid c])) as [[t n] h'] eqn:Er. inversion E; subst.
      inversion A as [|c' x' tr' HP HA]; subst. unfold Agr in HP. rewrite <- HP, O.
      now rewrite (IH _ _ _ _ Er HA).
    - destruct (level_row cb1 r (calls ++ [rid c])) as [[t n] h'] eqn:Er. inversion E; subst.
      inversion A as [|c' x' tr' HP HA]; subst. unfold Agr in HP. rewrite <- HP, O.
      now rewrite (IH _ _ _ _ Er HA).
    - inversion E; subst. inversion A as [|c' x' tr' HP HA]; subst. unfold Agr in HP. now rewrite <- HP, O.
    - inversion E; subst. inversion A as [|c' x' tr' HP HA]; subst. unfold Agr in HP. now rewrite <- HP, O.
  Qed.

  Lemma vagree_visit_level : forall fuel f, vagree (visit_level fuel cb1 f) (visit_level fuel cb2 f).
  Proof.
    induction fuel as [|k IH]; intros f calls tr h E A; [exact E|].
    destruct f as [|c r]; [exact E|]. cbn [visit_level] in *.
    destruct (level_row cb1 (c :: r) calls) as [[t n] [h'|]] eqn:Er.
    - inversion E; subst. now rewrite (level_row_agree _ _ _ _ _ Er A).
    - destruct (visit_level k cb1 n (calls ++ t)) as [t2 h2] eqn:E2. inversion E; subst.
      destruct (along_app_inv _ _ _ _ A) as [A1 A2].
      now rewrite (level_row_agree _ _ _ _ _ Er A1), (IH _ _ _ _ E2 A2).
  Qed.

  Lemma vagree_visit_body s m a v1 :
    visit_body cb1 s m a = Some v1 -> exists v2, visit_body cb2 s m a = Some v2 /\ vagree v1 v2.
  Proof.
    destruct m; cbn [visit_body]; try discriminate; intros H; inversion H; subst; clear H;
      eexists; (split; [reflexivity|]).
    - assert (B : vagree (seq_visit (map (visit_pre cb1) (rch s))) (seq_visit (map (visit_pre cb2) (rch s)))).
      { apply vagree_seq, Forall2_map_same, Forall_forall. intros c _. apply vagree_visit_pre. }
      destruct a; [now apply vagree_self_call|exact B].
    - assert (B : vagree (seq_visit (map (visit_post cb1) (rch s))) (seq_visit (map (visit_post cb2) (rch s)))).
      { apply vagree_seq, Forall2_map_same, Forall_forall. intros c _. apply vagree_visit_post. }
      destruct a; [now apply vagree_then_call|exact B].
    - destruct a; [apply vagree_self_call|]; apply vagree_visit_level.
  Qed.

  (* the run of visit depends on the callback only through the answers to the calls it makes *)
  Theorem visit_agree s m a :
    along Agr [] (fst (visit cb1 s m a)) -> visit cb2 s m a = visit cb1 s m a.
  Proof.
    unfold visit. destruct (visit_body cb1 s m a) as [v1|] eqn:E1.
    - destruct (vagree_visit_body s m a v1 E1) as (v2 & E2 & Hv). rewrite E2, fst_finish.
      intros A. destruct (v1 []) as [tr h] eqn:Ev. cbn [fst] in A. now rewrite (Hv _ _ _ Ev A).
    - intros _. destruct m; cbn [visit_body] in *; try discriminate; reflexivity.
  Qed.
End Agree.

(* ------------------------------------------------------------------ *)
(* 3. skip under an arbitrary callback that never halts                *)
(* ------------------------------------------------------------------ *)

Definition is_skip (o : outcome) : bool := match o with Skip => true | _ => false end.

(* the nodes whose call, in the run with trace [tr], answered Skip *)
Definition dyn_sk (cb : cbT) (tr : list nat) (x : nat) : bool :=
  existsb (fun k => match nth_error tr k with
                    | Some x' => Nat.eqb x' x && is_skip (call_cb cb x (firstn k tr))
                    | None => false end) (seq 0 (length tr)).

Lemma dyn_sk_spec cb tr x :
  dyn_sk cb tr x = true <-> exists k, nth_error tr k = Some x /\ call_cb cb x (firstn k tr) = Skip.
Proof.
  unfold dyn_sk. rewrite existsb_exists. split.
  - intros (k & _ & H). destruct (nth_error tr k) as [x'|] eqn:E; [|discriminate].
    apply andb_true_iff in H as [H1 H2]. apply Nat.eqb_eq in H1. subst x'. exists k. split; [exact E|].
    destruct (call_cb cb x (firstn k tr)); try discriminate. reflexivity.
  - intros (k & E & H). exists k. split.
    + apply in_seq. split; [lia|]. cbn. apply nth_error_Some. now rewrite E.
    + now rewrite E, Nat.eqb_refl, H.
Qed.

Definition cb_skip (sk : nat -> bool) : cbT := fun _ x => if sk x then RetSkipCls else RetNone.
Lemma cb_skip_only sk : skip_only (cb_skip sk) sk.
Proof. intros calls x. unfold call_cb, cb_skip. destruct (sk x); reflexivity. Qed.

(* y lies below a node whose call answered Skip *)
Definition skipped_dyn (cb : cbT) (s : rt) (tr : list nat) (y : nat) : Prop :=
  exists x k, nth_error tr k = Some x /\ call_cb cb x (firstn k tr) = Skip /\ anc_t s x y.

Theorem visit_dyn_skip cb s m a l :
  never_halts cb -> m = PRE \/ m = LEVEL -> NoDup (ids_t s) -> iterator s m a = Some l ->
  exists tr, visit cb s m a = (tr, VReturn None) /\ subseq tr (map rid l) /\
    forall y, In y tr <-> (In y (map rid l) /\ ~ skipped_dyn cb s tr y).
Proof.
  intros Hcb Hm ND Hl.
  set (tr := fst (visit cb s m a)). set (sk := dyn_sk cb tr).
  assert (NDtr : NoDup tr) by (now apply visit_nodup_any).
  assert (A : along (Agr cb (cb_skip sk)) [] tr).
  { apply along_of_nth. intros k x Hk. unfold Agr. cbn [app].
    rewrite (cb_skip_only sk). destruct (Hcb (firstn k tr) x) as [E|E]; rewrite E.
    - destruct (sk x) eqn:Es; [exfalso|reflexivity].
      apply dyn_sk_spec in Es as (k' & Hk' & E').
      assert (k' = k).
      { apply (proj1 (NoDup_nth_error tr) NDtr); [apply nth_error_Some; now rewrite Hk'|now rewrite Hk, Hk']. }
      subst k'. rewrite E in E'. discriminate.
    - assert (Es : sk x = true) by (apply dyn_sk_spec; eauto). now rewrite Es. }
  pose proof (visit_agree cb (cb_skip sk) s m a A) as Eq.
  destruct (visit_skip_char (cb_skip sk) sk s m a l (cb_skip_only sk) Hm ND Hl) as (tr0 & Ev & Hs & Hmem).
  rewrite Eq in Ev. assert (tr0 = tr) by (unfold tr; now rewrite Ev). subst tr0.
  exists tr. split; [exact Ev|]. split; [exact Hs|].
  intros y. rewrite Hmem. split; intros [Hy Hno]; (split; [exact Hy|]); intros H; apply Hno.
  - destruct H as (x & k & Hk & E & Hanc). exists x. split; [apply dyn_sk_spec; eauto|].
    split; [|exact Hanc]. eapply subseq_in; [exact Hs|]. eapply nth_error_In; eauto.
  - destruct H as (x & Es & _ & Hanc). apply dyn_sk_spec in Es as (k & Hk & E). now exists x, k.
Qed.

(* every callback has a muted form, and a muted form never halts: together with
   [visit_halt_general] and [visit_dyn_skip] this describes the run of ANY callback *)
Definition mute (cb : cbT) : cbT := fun calls x =>
  match call_traversal_cb (cb calls x) with Stop _ | Err _ => RetNone | _ => cb calls x end.

Lemma mutes_mute cb : mutes cb (mute cb).
Proof.
  intros calls x. unfold call_cb, mute. destruct (call_traversal_cb (cb calls x)) eqn:E; cbn [mute_out]; try exact E; reflexivity.
Qed.

Lemma mutes_never_halts cb cb' : mutes cb cb' -> never_halts cb'.
Proof. intros H calls x. rewrite H. destruct (call_cb cb x calls); cbn [mute_out]; [now left|now right|now left|now left]. Qed.

Theorem visit_any_callback cb s m a l :
  m = PRE \/ m = LEVEL -> NoDup (ids_t s) -> iterator s m a = Some l ->
  exists tr tr' r,
    visit cb s m a = (tr, r) /\ visit (mute cb) s m a = (tr', VReturn None) /\
    (* the muted run: iterator order minus the nodes below a call answered Skip *)
    subseq tr' (map rid l) /\
    (forall y, In y tr' <-> (In y (map rid l) /\ ~ skipped_dyn (mute cb) s tr' y)) /\
    (* the real run: the same, cut after the first halting call *)
    ((quiet cb [] tr /\ tr = tr' /\ r = VReturn None) \/
     (exists h, halted cb [] tr h /\ (exists rest, tr' = tr ++ rest) /\ r = vres_of h)).
Proof.
  intros Hm ND Hl.
  assert (Hs : visit_supported m = true) by (destruct Hm; subst m; reflexivity).
  destruct (visit_halt_general cb (mute cb) s m a (mutes_mute cb) Hs) as (tr & tr' & r & E & E' & H).
  destruct (visit_dyn_skip (mute cb) s m a l (mutes_never_halts _ _ (mutes_mute cb)) Hm ND Hl) as (tr0 & E0 & Hsub & Hmem).
  rewrite E' in E0. inversion E0; subst tr0.
  exists tr, tr', r. auto.
Qed.
