(* C06 — arbitrary (stateful) callbacks: the calls of visit() always form a
   subsequence of the iterator's order, and under a callback that never halts
   the suppressed nodes are exactly those below a node whose call answered Skip. *)
From Coq Require Import List ZArith Bool Arith Lia Permutation.
From NT Require Import Sx Rose ListFacts RoseFacts Traverse TraverseProofs TraverseLevelOrd TraverseVisit TraverseSkip TraverseStop.
Import ListNotations.

Lemma subseq_trans {X} : forall (a b c : list X), subseq a b -> subseq b c -> subseq a c.
Proof.
  intros a b c H1 H2. revert a H1. induction H2 as [|x b c H IH|x b c H IH]; intros a H1.
  - exact H1.
  - apply ss_skip. now apply IH.
  - inversion H1 as [|x' a' b' H'|x' a' b' H']; subst.
    + apply ss_skip. now apply IH.
    + apply ss_keep. now apply IH.
Qed.

Lemma subseq_prefix {X} (a b c : list X) : subseq a b -> subseq a (b ++ c).
Proof. intros H. rewrite <- (app_nil_r a). apply subseq_app; [exact H|apply subseq_nil]. Qed.

Lemma subseq_suffix {X} (a b c : list X) : subseq a c -> subseq a (b ++ c).
Proof. intros H. change a with ([] ++ a). apply subseq_app; [apply subseq_nil|exact H]. Qed.

Lemma subseq_flat_map_l {X Y} (g : X -> list Y) l m : subseq l m -> subseq (flat_map g l) (flat_map g m).
Proof.
  induction 1 as [|x l m H IH|x l m H IH]; cbn [flat_map]; [constructor| |].
  - change (flat_map g l) with ([] ++ flat_map g l). apply subseq_app; [apply subseq_nil|exact IH].
  - apply subseq_app; [apply subseq_refl|exact IH].
Qed.

Lemma fst_finish r : fst (finish r) = fst r.
Proof. destruct r as [tr [[v|e]|]]; reflexivity. Qed.

(* ------------------------------------------------------------------ *)
(* 1. any callback: the calls are a subsequence of the iterator's order *)
(* ------------------------------------------------------------------ *)

Section AnyCallback.
  Variable cb : cbT.

  Lemma seq_visit_subseq {X} (g : X -> visitor) (h : X -> list nat) l :
    Forall (fun c => forall calls, subseq (fst (g c calls)) (h c)) l ->
    forall calls, subseq (fst (seq_visit (map g l) calls)) (flat_map h l).
  Proof.
    induction 1 as [|c r Hc Hr IH]; intros calls; cbn [map seq_visit flat_map]; [constructor|].
    specialize (Hc calls). destruct (g c calls) as [tr [hh|]]; cbn [fst] in *.
    - now apply subseq_prefix.
    - specialize (IH (calls ++ tr)). destruct (seq_visit (map g r) (calls ++ tr)) as [tr2 h2]. cbn [fst] in *.
      now apply subseq_app.
  Qed.

  Lemma self_call_subseq id rest (l : list nat) :
    (forall calls, subseq (fst (rest calls)) l) -> forall calls, subseq (fst (self_call cb id rest calls)) (id :: l).
  Proof.
    intros H calls. unfold self_call. destruct (call_cb cb id calls); cbn [fst];
      try (apply ss_keep, subseq_nil).
    specialize (H (calls ++ [id])). destruct (rest (calls ++ [id])) as [tr h]. cbn [fst] in *. now apply ss_keep.
  Qed.

  Lemma then_call_subseq id body (l : list nat) :
    (forall calls, subseq (fst (body calls)) l) -> forall calls, subseq (fst (then_call cb id body calls)) (l ++ [id]).
  Proof.
    intros H calls. unfold then_call. specialize (H calls). destruct (body calls) as [tr [h|]]; cbn [fst] in *.
    - now apply subseq_prefix.
    - destruct (call_cb cb id (calls ++ tr)); cbn [fst]; (apply subseq_app; [exact H|apply subseq_refl]).
  Qed.

  Lemma visit_pre_subseq : forall t calls, subseq (fst (visit_pre cb t calls)) (ids_t t).
  Proof.
    induction t as [id i ch IH] using rt_ind'. intros calls. cbn [visit_pre]. rewrite ids_t_unfold, ids_flat. cbn [rid rch].
    apply self_call_subseq. now apply seq_visit_subseq.
  Qed.

  Lemma visit_post_subseq : forall t calls, subseq (fst (visit_post cb t calls)) (pids_t t).
  Proof.
    induction t as [id i ch IH] using rt_ind'. intros calls. cbn [visit_post]. rewrite pids_t_unfold, pids_flat. cbn [rid rch].
    apply then_call_subseq. now apply seq_visit_subseq.
  Qed.

  Lemma level_row_subseq : forall f calls tr nxt h,
    level_row cb f calls = (tr, nxt, h) -> subseq tr (map rid f) /\ subseq nxt (flat_map rch f).
  Proof.
    induction f as [|c r IH]; intros calls tr nxt h H; cbn [level_row] in H.
    - inversion H; subst. split; constructor.
    - cbn [map flat_map]. destruct (call_cb cb (rid c) calls).
      + destruct (level_row cb r (calls ++ [rid c])) as [[t n] h'] eqn:E. inversion H; subst.
        destruct (IH _ _ _ _ E) as [H1 H2]. split; [now apply ss_keep|]. apply subseq_app; [apply subseq_refl|exact H2].
      + destruct (level_row cb r (calls ++ [rid c])) as [[t n] h'] eqn:E. inversion H; subst.
        destruct (IH _ _ _ _ E) as [H1 H2]. split; [now apply ss_keep|].
        now apply subseq_suffix.
      + inversion H; subst. split; [apply ss_keep, subseq_nil|apply subseq_nil].
      + inversion H; subst. split; [apply ss_keep, subseq_nil|apply subseq_nil].
  Qed.

  Lemma iter_level_mono : forall k (g f : forest), subseq g f ->
    subseq (map rid (iter_level k false false g)) (map rid (iter_level k false false f)).
  Proof.
    induction k as [|k IH]; intros g f H; [constructor|].
    destruct g as [|t r]; [apply subseq_nil|].
    destruct f as [|t' r']; [inversion H|].
    rewrite !iter_level_unfold. cbn [dir]. rewrite !map_app. apply subseq_app; [now apply subseq_map|].
    apply IH. now apply subseq_flat_map_l.
  Qed.

  Lemma visit_level_subseq : forall fuel f calls,
    subseq (fst (visit_level fuel cb f calls)) (map rid (iter_level fuel false false f)).
  Proof.
    induction fuel as [|k IH]; intros f calls; [constructor|].
    destruct f as [|c r]; [constructor|].
    cbn [visit_level]. rewrite iter_level_unfold. cbn [dir]. rewrite map_app.
    destruct (level_row cb (c :: r) calls) as [[tr nxt] h] eqn:E.
    destruct (level_row_subseq _ _ _ _ _ E) as [H1 H2].
    destruct h as [h|]; cbn [fst].
    - now apply subseq_prefix.
    - specialize (IH nxt (calls ++ tr)). destruct (visit_level k cb nxt (calls ++ tr)) as [tr2 h2]. cbn [fst] in *.
      apply subseq_app; [exact H1|]. eapply subseq_trans; [exact IH|]. now apply iter_level_mono.
  Qed.
End AnyCallback.

Lemma iterator_ids_POST t a l :
  iterator t POST a = Some l -> map rid l = if a then pids_t t else pids (rch t).
Proof.
  unfold iterator. cbn [iter_handler is_post]. intros H. inversion H; subst; clear H.
  rewrite iter_post_eq. destruct a; cbn [andb negb app]; [|now rewrite app_nil_r].
  rewrite <- post_unfold. reflexivity.
Qed.

(* for ANY callback: no node is called twice and the calls respect the iterator's order *)
Theorem visit_subseq_any cb s m a l :
  visit_supported m = true -> iterator s m a = Some l -> subseq (fst (visit cb s m a)) (map rid l).
Proof.
  intros Hs Hl. unfold visit. destruct m; try discriminate; cbn [visit_body]; rewrite fst_finish.
  - rewrite (iterator_ids_PRE _ _ _ Hl). destruct a.
    + rewrite ids_t_unfold, ids_flat. apply self_call_subseq. intros calls.
      apply seq_visit_subseq, Forall_forall. intros c _. apply visit_pre_subseq.
    + rewrite ids_flat. apply seq_visit_subseq, Forall_forall. intros c _. apply visit_pre_subseq.
  - rewrite (iterator_ids_POST _ _ _ Hl). destruct a.
    + rewrite pids_t_unfold, pids_flat. apply then_call_subseq. intros calls.
      apply seq_visit_subseq, Forall_forall. intros c _. apply visit_post_subseq.
    + rewrite pids_flat. apply seq_visit_subseq, Forall_forall. intros c _. apply visit_post_subseq.
  - rewrite (iterator_ids_LEVEL _ _ _ Hl). unfold lev_ids. rewrite <- iter_level_levels. destruct a; cbn [app].
    + apply self_call_subseq. intros calls. apply visit_level_subseq.
    + apply visit_level_subseq.
Qed.

Corollary visit_nodup_any cb s m a :
  NoDup (ids_t s) -> NoDup (fst (visit cb s m a)).
Proof.
  intros ND. destruct (visit_supported m) eqn:Hs.
  - destruct (iterator s m a) as [l|] eqn:Hl.
    + eapply subseq_nodup; [eapply visit_subseq_any; eauto|]. eapply iterator_nodup; eauto.
    + apply iterator_supported in Hl. destruct Hl; subst m; discriminate.
  - rewrite visit_unsupported by exact Hs. constructor.
Qed.
