(* C19 -- save + load of a FileSystemTree returns the same tree.

   [to_list] is Node.to_list_iter for a clone-free tree of FileSystemEntry objects,
   [from_list] is Tree._from_list with the deserialize mapper (FsLoad.v).  The proof
   goes through an explicit description of the finished node table:
   [rows_f j f] = the rows (entry, child numbers) of the nodes of [f] numbered from
   [j] in pre-order, [kid_idx j f] = the numbers of the roots of [f]. *)
From Coq Require Import List ZArith Bool Lia Arith.
From NT Require Import Sx Rose FsLoad FsLoadProofs.
Import ListNotations.
Open Scope nat_scope.

Fixpoint fsize_f (l : list ft) : nat :=
  match l with [] => 0 | c :: r => fsize c + fsize_f r end.

Lemma fsize_FN e ch : fsize (FN e ch) = S (fsize_f ch).
Proof.
  cbn [fsize]. f_equal.
Qed.

Lemma fsize_pos t : 1 <= fsize t.
Proof. destruct t as [e ch]. rewrite fsize_FN. lia. Qed.

Lemma to_list_t_FN p i e ch : to_list_t p i (FN e ch) = (p, ser e []) :: to_list_f i (S i) ch.
Proof.
  cbn [to_list_t]. f_equal. generalize (S i) as j.
  induction ch as [|c r IH]; intros j; cbn; [reflexivity|]. rewrite IH. reflexivity.
Qed.

Fixpoint kid_idx (j : nat) (l : list ft) : list nat :=
  match l with [] => [] | c :: r => j :: kid_idx (j + fsize c) r end.

Fixpoint rows_t (i : nat) (t : ft) : ntab :=
  match t with
  | FN e ch =>
      (e, kid_idx (S i) ch) ::
      (fix go (j : nat) (l : list ft) : ntab :=
         match l with [] => [] | c :: r => rows_t j c ++ go (j + fsize c) r end) (S i) ch
  end.
Fixpoint rows_f (j : nat) (l : list ft) : ntab :=
  match l with [] => [] | c :: r => rows_t j c ++ rows_f (j + fsize c) r end.

Lemma rows_t_FN i e ch : rows_t i (FN e ch) = (e, kid_idx (S i) ch) :: rows_f (S i) ch.
Proof.
  reflexivity.
Qed.

Lemma rows_t_length t : forall i, length (rows_t i t) = fsize t.
Proof.
  induction t as [e ch IH] using ft_ind'; intros i. rewrite rows_t_FN, fsize_FN. cbn [length]. f_equal.
  generalize (S i) as j. induction IH as [|c r Hc Hr IHr]; intros j; cbn; [reflexivity|].
  rewrite app_length, Hc, IHr. reflexivity.
Qed.

Lemma rows_f_length l : forall j, length (rows_f j l) = fsize_f l.
Proof.
  induction l as [|c r IH]; intros j; cbn; [reflexivity|]. rewrite app_length, rows_t_length, IH. reflexivity.
Qed.

(* ---- the table operations ---- *)
Lemma tac_nil p c : tab_add_child p c [] = [].
Proof. destruct p; reflexivity. Qed.
Lemma tac_one c e cs r : tab_add_child 1 c ((e, cs) :: r) = (e, cs ++ [c]) :: r.
Proof. reflexivity. Qed.
Lemma tac_more p c x r : tab_add_child (S (S p)) c (x :: r) = x :: tab_add_child (S p) c r.
Proof. destruct x; reflexivity. Qed.
Arguments tab_add_child : simpl never.

Lemma tab_add_child_length p c tab : length (tab_add_child p c tab) = length tab.
Proof.
  revert p; induction tab as [|x r IH]; intros p; [rewrite tac_nil; reflexivity|].
  destruct p as [|[|p']].
  - destruct x; reflexivity.
  - destruct x; reflexivity.
  - rewrite tac_more. cbn [length]. rewrite IH. reflexivity.
Qed.

Lemma tab_add_child_app_l p c A B :
  1 <= p -> p <= length A -> tab_add_child p c (A ++ B) = tab_add_child p c A ++ B.
Proof.
  revert p; induction A as [|x r IH]; intros p H1 H2; cbn [length] in *; [lia|].
  destruct p as [|[|p']]; [lia| |].
  - destruct x. reflexivity.
  - cbn [app]. rewrite !tac_more. cbn [app]. f_equal. apply IH; lia.
Qed.

Lemma tab_add_child_hit A e cs B c :
  tab_add_child (S (length A)) c (A ++ (e, cs) :: B) = A ++ (e, cs ++ [c]) :: B.
Proof.
  induction A as [|x r IH]; [reflexivity|].
  cbn [length app]. rewrite tac_more. f_equal. exact IH.
Qed.

Definition add_kids (q : nat) (ks : list nat) (tab : ntab) : ntab :=
  fold_left (fun tb k => tab_add_child q k tb) ks tab.

Lemma add_kids_app_l q ks A B :
  1 <= q -> q <= length A -> add_kids q ks (A ++ B) = add_kids q ks A ++ B.
Proof.
  revert A; induction ks as [|k ks IH]; intros A H1 H2; unfold add_kids; cbn [fold_left]; [reflexivity|].
  rewrite tab_add_child_app_l by assumption. apply IH; [assumption|]. rewrite tab_add_child_length; assumption.
Qed.

Lemma add_kids_hit A e cs ks :
  add_kids (S (length A)) ks (A ++ [(e, cs)]) = A ++ [(e, cs ++ ks)].
Proof.
  revert cs; induction ks as [|k ks IH]; intros cs; unfold add_kids; cbn [fold_left]; [rewrite app_nil_r; reflexivity|].
  rewrite tab_add_child_hit. unfold add_kids in IH. rewrite IH. rewrite <- app_assoc. reflexivity.
Qed.

Lemma add_kids_hit' i A e cs ks :
  i = S (length A) -> add_kids i ks (A ++ [(e, cs)]) = A ++ [(e, cs ++ ks)].
Proof. intros ->. apply add_kids_hit. Qed.

(* ---- processing the entries of a subtree / a forest ---- *)
Definition flat_e (t : ft) : list fse := map snd (ft_entries [] t).
Definition ok_t (t : ft) : Prop := Forall entry_ok (flat_e t).
Definition ok_f (l : list ft) : Prop := Forall ok_t l.

Lemma ok_t_FN e ch : ok_t (FN e ch) -> entry_ok e /\ ok_f ch.
Proof.
  unfold ok_t, flat_e. cbn [ft_entries map snd]. intros H. inversion H as [|x xs He Hr]; subst. split; [exact He|].
  unfold ok_f. rewrite Forall_forall. intros c Hc.
  unfold ok_t, flat_e. rewrite Forall_forall in *. intros x Hx. apply Hr.
  apply in_map_iff in Hx as ([p e'] & <- & Hin). cbn.
  (* entries of c with any prefix carry the same entry values *)
  assert (G : forall t pre pre' pe, In pe (ft_entries pre t) -> In (snd pe) (map snd (ft_entries pre' t))).
  { clear. induction t as [e ch IH] using ft_ind'; intros pre pre' pe Hin. cbn [ft_entries] in *.
    destruct Hin as [<-|Hin]; [left; reflexivity|]. right. cbn [map].
    apply in_flat_map in Hin as (c & Hc & Hin). rewrite Forall_forall in IH.
    apply in_map_iff. specialize (IH c Hc _ (pre' ++ [e_name e]) _ Hin).
    apply in_map_iff in IH as (pe' & E & Hin'). exists pe'. split; [exact E|].
    apply in_flat_map. exists c. split; assumption. }
  specialize (G c [] ([] ++ [e_name e]) (p, e') Hin). cbn in G.
  apply in_map_iff in G as (pe' & E & Hin'). apply in_map_iff. exists pe'. split; [exact E|].
  apply in_flat_map. exists c. split; assumption.
Qed.

Definition step_ok (t : ft) : Prop :=
  forall p i rest top tab, i = S (length tab) -> p <= length tab -> ok_t t ->
    from_list_go i (to_list_t p i t ++ rest) top tab =
    from_list_go (i + fsize t) rest (if p =? 0 then top ++ [i] else top)
                 ((if p =? 0 then tab else tab_add_child p i tab) ++ rows_t i t).

Lemma forest_step q ch :
  Forall step_ok ch ->
  forall j rest top tab, j = S (length tab) -> 1 <= q -> q <= length tab -> ok_f ch ->
    from_list_go j (to_list_f q j ch ++ rest) top tab =
    from_list_go (j + fsize_f ch) rest top (add_kids q (kid_idx j ch) tab ++ rows_f j ch).
Proof.
  induction 1 as [|c r Hc Hr IH]; intros j rest top tab Hj Hq1 Hq2 Hok.
  - cbn. rewrite Nat.add_0_r, app_nil_r. reflexivity.
  - inversion Hok as [|c' r' Hokc Hokr]; subst c' r'.
    cbn [to_list_f kid_idx rows_f fsize_f add_kids fold_left]. rewrite <- app_assoc.
    rewrite (Hc q j _ top tab Hj Hq2 Hokc).
    assert (Eq : (q =? 0) = false) by (apply Nat.eqb_neq; lia). rewrite Eq.
    rewrite IH; try assumption.
    + rewrite Nat.add_assoc. f_equal.
      fold (add_kids q (kid_idx (j + fsize c) r) (tab_add_child q j tab ++ rows_t j c)).
      rewrite add_kids_app_l; [|assumption|rewrite tab_add_child_length; assumption].
      rewrite <- app_assoc. reflexivity.
    + rewrite app_length, tab_add_child_length, rows_t_length. lia.
    + rewrite app_length, tab_add_child_length. lia.
Qed.

Lemma step_ok_all t : step_ok t.
Proof.
  induction t as [e ch IH] using ft_ind'. intros p i rest top tab Hi Hp Hok.
  apply ok_t_FN in Hok as [He Hch].
  rewrite to_list_t_FN, rows_t_FN, fsize_FN. cbn [app from_list_go].
  rewrite (deser_ser e []) by (reflexivity || exact He).
  destruct (p =? 0) eqn:Ep.
  - rewrite (forest_step i ch IH (S i) rest (top ++ [i]) (tab ++ [(e, [])])); try assumption.
    + f_equal; [lia|]. rewrite (add_kids_hit' i _ _ _ _ Hi). cbn [app]. rewrite <- app_assoc. reflexivity.
    + rewrite app_length. cbn. lia.
    + lia.
    + rewrite app_length. cbn. lia.
  - apply Nat.eqb_neq in Ep.
    assert (Elt : (p <? i) = true) by (apply Nat.ltb_lt; lia). rewrite Elt.
    rewrite (forest_step i ch IH (S i) rest top (tab_add_child p i tab ++ [(e, [])])); try assumption.
    + f_equal; [lia|].
      assert (El : i = S (length (tab_add_child p i tab))) by (rewrite tab_add_child_length; exact Hi).
      rewrite (add_kids_hit' i _ _ _ _ El). cbn [app]. rewrite <- app_assoc. reflexivity.
    + rewrite app_length, tab_add_child_length. cbn. lia.
    + lia.
    + rewrite app_length, tab_add_child_length. cbn. lia.
Qed.

Lemma top_step f : forall j rest top tab, j = S (length tab) -> ok_f f ->
  from_list_go j (to_list_f 0 j f ++ rest) top tab =
  from_list_go (j + fsize_f f) rest (top ++ kid_idx j f) (tab ++ rows_f j f).
Proof.
  induction f as [|c r IH]; intros j rest top tab Hj Hok.
  - cbn. rewrite Nat.add_0_r, !app_nil_r. reflexivity.
  - inversion Hok as [|c' r' Hokc Hokr]; subst c' r'.
    cbn [to_list_f kid_idx rows_f fsize_f]. rewrite <- app_assoc.
    rewrite (step_ok_all c 0 j _ top tab Hj (Nat.le_0_l _) Hokc). cbn [Nat.eqb].
    rewrite IH; [|rewrite app_length, rows_t_length; lia|exact Hokr].
    rewrite Nat.add_assoc, <- !app_assoc. reflexivity.
Qed.

Lemma from_list_go_to_list f : ok_f f ->
  from_list_go 1 (to_list f) [] [] = Some (kid_idx 1 f, rows_f 1 f).
Proof.
  intros Hok. unfold to_list. rewrite <- (app_nil_r (to_list_f 0 1 f)).
  rewrite (top_step f 1 [] [] [] eq_refl Hok). reflexivity.
Qed.

(* ---- reading the finished table back ---- *)
Definition read_ok (t : ft) : Prop :=
  forall fuel A B i, i = S (length A) -> fsize t <= fuel ->
    tab_tree fuel (A ++ rows_t i t ++ B) i = [t].

Lemma read_forest ch :
  Forall read_ok ch ->
  forall fuel A B j, j = S (length A) -> fsize_f ch <= fuel ->
    flat_map (tab_tree fuel (A ++ rows_f j ch ++ B)) (kid_idx j ch) = ch.
Proof.
  induction 1 as [|c r Hc Hr IH]; intros fuel A B j Hj Hfuel; [reflexivity|].
  cbn [kid_idx rows_f flat_map fsize_f] in *.
  rewrite <- app_assoc. rewrite (Hc fuel A _ j Hj) by lia. cbn [app]. f_equal.
  rewrite (app_assoc A). apply IH; [|lia].
  rewrite app_length, rows_t_length. lia.
Qed.

Lemma read_ok_all t : read_ok t.
Proof.
  induction t as [e ch IH] using ft_ind'. intros fuel A B i Hi Hfuel.
  rewrite fsize_FN in Hfuel. destruct fuel as [|fuel]; [lia|].
  rewrite rows_t_FN. cbn [tab_tree].
  assert (En : nth_error (A ++ ((e, kid_idx (S i) ch) :: rows_f (S i) ch) ++ B) (i - 1) = Some (e, kid_idx (S i) ch)).
  { subst i. cbn [Nat.sub]. rewrite Nat.sub_0_r. rewrite nth_error_app2 by lia. rewrite Nat.sub_diag. reflexivity. }
  rewrite En. f_equal. f_equal.
  cbn [app]. change (A ++ (e, kid_idx (S i) ch) :: rows_f (S i) ch ++ B)
    with (A ++ [(e, kid_idx (S i) ch)] ++ rows_f (S i) ch ++ B).
  rewrite app_assoc. apply (read_forest ch IH); [|lia].
  rewrite app_length. cbn. lia.
Qed.

Theorem save_load_roundtrip f : ok_f f -> save_load f = Some f.
Proof.
  intros Hok. unfold save_load, from_list. rewrite (from_list_go_to_list f Hok). f_equal.
  pose proof (read_forest f) as R.
  specialize (R (proj2 (Forall_forall _ _) (fun t _ => read_ok_all t)) (S (length (rows_f 1 f))) [] [] 1 eq_refl).
  rewrite app_nil_r in R. cbn [app] in R. apply R. rewrite rows_f_length. lia.
Qed.

(* every loaded tree satisfies the hypothesis *)
Lemma conv_ok s x : ok_f (conv s x).
Proof.
  unfold ok_f, ok_t, flat_e. rewrite Forall_forall. intros t Ht.
  pose proof (load_entries_ok s [x] []) as H. unfold load in H. cbn [flat_map] in H. rewrite app_nil_r in H.
  rewrite Forall_forall in *. intros e He. apply in_map_iff in He as (pe & <- & Hin).
  apply H. unfold tree_entries. apply in_flat_map.
  assert (Hk : In t (kids s (conv s x))) by (eapply Permutation.Permutation_in; [symmetry; apply kids_perm|exact Ht]).
  exists t. split; assumption.
Qed.

Theorem load_save_load s l : save_load (load s l) = Some (load s l).
Proof.
  apply save_load_roundtrip. unfold ok_f, ok_t, flat_e. rewrite Forall_forall. intros t Ht.
  pose proof (load_entries_ok s l []) as H.
  rewrite Forall_forall in *. intros e He. apply in_map_iff in He as (pe & <- & Hin).
  apply H. unfold tree_entries. apply in_flat_map. exists t. split; assumption.
Qed.
