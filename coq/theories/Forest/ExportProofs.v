(* Specification and proofs for the graph exports (C17).
   Independent notions used by the statements:
     [export a s]      the nodes that are part of an export: the start node (if
                       included) followed by its descendants in pre-order
     tree edge         [In p (pre s) /\ In c (rch p)] : a parent-child link below s
     [parent_in s c]   the parent of c found by SEARCH over the nodes below s
     [first_occ l]     first occurrences, written with the stdlib [nodup]
     [kinv m i]        decoding of a Mermaid index through the node table *)
From Coq Require Import List ZArith Bool Arith Lia Permutation.
From NT Require Import Sx Rose ListFacts RoseFacts Export.
Import ListNotations.

(* ------------------------------------------------------------------ keys *)
Lemma gkey_eqb_eq a b : gkey_eqb a b = true <-> a = b.
Proof.
  destruct a as [x|x], b as [y|y]; cbn; try (split; [discriminate|intros E; discriminate E]).
  - rewrite did_eqb_eq. split; [intros ->; reflexivity|intros E; injection E as ->; reflexivity].
  - rewrite Nat.eqb_eq. split; [intros ->; reflexivity|intros E; injection E as ->; reflexivity].
Qed.

Lemma gkey_eqb_refl a : gkey_eqb a a = true.
Proof. apply gkey_eqb_eq; reflexivity. Qed.

Lemma gkey_eqb_neq a b : gkey_eqb a b = false <-> a <> b.
Proof.
  split.
  - intros E H. apply gkey_eqb_eq in H. congruence.
  - intros H. destruct (gkey_eqb a b) eqn:E; [apply gkey_eqb_eq in E; contradiction|reflexivity].
Qed.

Lemma gkey_eqb_sym a b : gkey_eqb a b = gkey_eqb b a.
Proof.
  destruct (gkey_eqb a b) eqn:E.
  - apply gkey_eqb_eq in E. subst. symmetry. apply gkey_eqb_refl.
  - symmetry. apply gkey_eqb_neq. apply gkey_eqb_neq in E. congruence.
Qed.

Definition gkey_eq_dec (a b : gkey) : {a = b} + {a <> b}.
Proof.
  destruct (gkey_eqb a b) eqn:E; [left; now apply gkey_eqb_eq|right; now apply gkey_eqb_neq].
Defined.

Lemma kmem_in k used : kmem k used = true <-> In k used.
Proof.
  unfold kmem. rewrite existsb_exists. split.
  - intros [x [Hx E]]. apply gkey_eqb_eq in E. now subst.
  - intros H. exists k. split; [exact H|apply gkey_eqb_refl].
Qed.

Lemma kmem_notin k used : kmem k used = false <-> ~ In k used.
Proof.
  split.
  - intros E H. apply kmem_in in H. congruence.
  - intros H. destruct (kmem k used) eqn:E; [apply kmem_in in E; contradiction|reflexivity].
Qed.

(* -------------------------------------------------- exported nodes, edges *)
Definition export (a : bool) (s : rt) : list rt := (if a then [s] else []) ++ pre_f (rch s).

Lemma export_true s : export true s = pre s.
Proof. unfold export. rewrite pre_unfold. reflexivity. Qed.

Lemma desc_p_unfold t : desc_p t = flat_map (fun c => (t, c) :: desc_p c) (rch t).
Proof. destruct t; reflexivity. Qed.

(* one pair per descendant, in pre-order *)
Lemma desc_p_snd : forall t, map snd (desc_p t) = pre_f (rch t).
Proof.
  induction t as [id i ch IH] using rt_ind'.
  rewrite desc_p_unfold. cbn [rch]. generalize (T id i ch) at 1. intros t0.
  induction ch as [|c ch IHc]; [reflexivity|].
  inversion IH as [|? ? Hc Hch]; subst.
  cbn [flat_map]. rewrite map_app. cbn [map snd]. rewrite Hc, (IHc Hch).
  rewrite (pre_unfold c). reflexivity.
Qed.

Lemma desc_p_length t : length (desc_p t) = length (pre_f (rch t)).
Proof. rewrite <- desc_p_snd. now rewrite map_length. Qed.

(* the pairs are exactly the parent-child links below t *)
Lemma desc_p_in : forall t p c, In (p, c) (desc_p t) <-> In p (pre t) /\ In c (rch p).
Proof.
  induction t as [id i ch IH] using rt_ind'. intros p c.
  rewrite desc_p_unfold, pre_unfold. cbn [rch].
  rewrite in_flat_map. split.
  - intros [x [Hx [E|Hin]]].
    + injection E as <- <-. split; [now left|exact Hx].
    + rewrite Forall_forall in IH. apply (IH x Hx) in Hin. destruct Hin as [Hp Hc].
      split; [right; apply in_flat_map; exists x; now split|exact Hc].
  - intros [[<-|Hp] Hc].
    + exists c. split; [exact Hc|now left].
    + apply in_flat_map in Hp. destruct Hp as [x [Hx Hp]].
      exists x. split; [exact Hx|right]. rewrite Forall_forall in IH. apply (IH x Hx). now split.
Qed.

Lemma desc_p_parent_in_pre t p c : In (p, c) (desc_p t) -> In p (pre t).
Proof. intros H. now apply desc_p_in in H. Qed.

Lemma desc_p_child_below t p c : In (p, c) (desc_p t) -> In c (pre_f (rch t)).
Proof. intros H. rewrite <- desc_p_snd. apply (in_map snd) in H. exact H. Qed.

Lemma NoDup_pre_f f : NoDup (ids f) -> NoDup (pre_f f).
Proof. unfold ids. apply NoDup_map_inv. Qed.

Lemma ids_t_ids t : ids_t t = ids [t].
Proof. unfold ids_t, ids. cbn. now rewrite app_nil_r. Qed.

Lemma NoDup_ids_t_children t : NoDup (ids_t t) -> NoDup (ids (rch t)).
Proof. rewrite ids_t_unfold. intros H. now inversion H. Qed.

Lemma below_not_self t x : NoDup (ids_t t) -> In x (pre_f (rch t)) -> rid x <> rid t.
Proof.
  rewrite ids_t_unfold. intros H Hx E. inversion H as [|? ? Hn _]; subst.
  apply Hn. rewrite <- E. unfold ids. now apply in_map.
Qed.

(* with unique identities every descendant has exactly one parent *)
Lemma desc_p_parent_unique t p1 p2 c :
  NoDup (ids_t t) -> In (p1, c) (desc_p t) -> In (p2, c) (desc_p t) -> p1 = p2.
Proof.
  intros H H1 H2.
  assert (Hnd : NoDup (map snd (desc_p t))).
  { rewrite desc_p_snd. apply NoDup_pre_f. now apply NoDup_ids_t_children. }
  pose proof (NoDup_map_inj snd (desc_p t) (p1, c) (p2, c) Hnd H1 H2 eq_refl) as E.
  now injection E.
Qed.

Lemma same_node_true_iff t p : NoDup (ids_t t) -> In p (pre t) -> (same_node p t = true <-> p = t).
Proof.
  intros H Hp. unfold same_node. rewrite Nat.eqb_eq. split; [|now intros ->].
  intros E. apply (node_unique [t]); [now rewrite <- ids_t_ids| | |exact E]; cbn; rewrite app_nil_r; [exact Hp|apply pre_in_self].
Qed.

(* the parent of c as a search: the first node below s that has a child with
   c's identity *)
Definition parent_in (s c : rt) : option rt :=
  find (fun p => existsb (fun x => Nat.eqb (rid x) (rid c)) (rch p)) (pre s).

Lemma parent_in_spec s p c : NoDup (ids_t s) -> In (p, c) (desc_p s) -> parent_in s c = Some p.
Proof.
  intros H Hpc. unfold parent_in.
  pose proof Hpc as Hpc'. apply desc_p_in in Hpc'. destruct Hpc' as [Hp Hc].
  destruct (find _ (pre s)) as [q|] eqn:F.
  - apply find_some in F. destruct F as [Hq Hex].
    apply existsb_exists in Hex. destruct Hex as [c' [Hc' E]]. apply Nat.eqb_eq in E.
    assert (c' = c).
    { apply (node_unique (rch s)); [now apply NoDup_ids_t_children| | |exact E].
      - apply (desc_p_child_below s q). apply desc_p_in. now split.
      - now apply (desc_p_child_below s p). }
    subst c'. f_equal. apply (desc_p_parent_unique s q p c H); [apply desc_p_in; now split|exact Hpc].
  - exfalso. pose proof (find_none _ _ F p Hp) as N. cbn in N.
    assert (T : existsb (fun x => Nat.eqb (rid x) (rid c)) (rch p) = true).
    { apply existsb_exists. exists c. split; [exact Hc|apply Nat.eqb_refl]. }
    congruence.
Qed.

(* tree edges, written from the search: one pair per descendant in pre-order *)
Definition edges_by_search (s : rt) : list (rt * rt) :=
  flat_map (fun c => match parent_in s c with Some p => [(p, c)] | None => [] end) (pre_f (rch s)).

Lemma flat_map_singleton {X Y} (g : X -> Y) (l : list X) : flat_map (fun x => [g x]) l = map g l.
Proof. induction l as [|x l IH]; cbn; [reflexivity|now rewrite IH]. Qed.

Lemma flat_map_ext_in {X Y} (g h : X -> list Y) (l : list X) :
  (forall x, In x l -> g x = h x) -> flat_map g l = flat_map h l.
Proof.
  induction l as [|x l IH]; cbn; intros E; [reflexivity|].
  rewrite (E x (or_introl eq_refl)), IH; [reflexivity|]. intros y Hy. apply E. now right.
Qed.

Lemma desc_p_by_search s : NoDup (ids_t s) -> desc_p s = edges_by_search s.
Proof.
  intros H. unfold edges_by_search. rewrite <- desc_p_snd. rewrite flat_map_concat_map, map_map, <- flat_map_concat_map.
  transitivity (flat_map (fun pc => [pc]) (desc_p s)).
  - rewrite flat_map_singleton. now rewrite map_id.
  - apply flat_map_ext_in. intros [p c] Hpc. cbn [snd]. now rewrite (parent_in_spec s p c H Hpc).
Qed.

(* ------------------------------------------------------ first occurrences *)
Definition first_occ (l : list gkey) : list gkey := rev (nodup gkey_eq_dec (rev l)).

(* de-duplication against a set of keys already used (proof-side helper) *)
Fixpoint dedup (used l : list gkey) : list gkey :=
  match l with
  | [] => []
  | k :: r => if kmem k used then dedup used r else k :: dedup (k :: used) r
  end.

Definition kneq (k x : gkey) : bool := negb (gkey_eqb x k).

Lemma dedup_extra k : forall l used used',
  (forall x, kmem x used' = kmem x used || gkey_eqb x k) ->
  dedup used' l = filter (kneq k) (dedup used l).
Proof.
  induction l as [|k' r IH]; intros used used' HU; [reflexivity|].
  cbn [dedup]. rewrite (HU k').
  destruct (kmem k' used) eqn:M; cbn [orb].
  - now apply IH.
  - destruct (gkey_eqb k' k) eqn:E.
    + cbn [filter]. unfold kneq at 1. rewrite E. cbn [negb].
      apply IH. intros x. rewrite (HU x). cbn [kmem existsb]. fold (kmem x used).
      apply gkey_eqb_eq in E. subst k'. destruct (gkey_eqb x k), (kmem x used); reflexivity.
    + cbn [filter]. unfold kneq at 1. rewrite E. cbn [negb]. f_equal.
      apply IH. intros x. cbn [kmem existsb]. fold (kmem x used') (kmem x used). rewrite (HU x).
      destruct (gkey_eqb x k'), (kmem x used), (gkey_eqb x k); reflexivity.
Qed.

Lemma nodup_snoc (l : list gkey) k :
  nodup gkey_eq_dec (l ++ [k]) = filter (kneq k) (nodup gkey_eq_dec l) ++ [k].
Proof.
  induction l as [|x l IH]; [reflexivity|].
  cbn [app nodup]. destruct (in_dec gkey_eq_dec x (l ++ [k])) as [Hi|Hn].
  - destruct (in_dec gkey_eq_dec x l) as [Hi'|Hn'].
    + exact IH.
    + apply in_app_or in Hi. destruct Hi as [Hi|[<-|[]]]; [contradiction|].
      cbn [filter]. unfold kneq at 1. rewrite gkey_eqb_refl. cbn [negb]. exact IH.
  - destruct (in_dec gkey_eq_dec x l) as [Hi'|Hn'].
    + exfalso. apply Hn. apply in_or_app. now left.
    + cbn [filter]. unfold kneq at 1.
      assert (E : gkey_eqb x k = false).
      { apply gkey_eqb_neq. intros ->. apply Hn. apply in_or_app. right. now left. }
      rewrite E. cbn [negb app]. now rewrite IH.
Qed.

Lemma dedup_first_occ : forall l, dedup [] l = first_occ l.
Proof.
  induction l as [|k r IH]; [reflexivity|].
  cbn [dedup kmem existsb]. unfold first_occ. cbn [rev]. rewrite nodup_snoc, rev_app_distr. cbn [rev app].
  f_equal. rewrite <- filter_rev'. fold (first_occ r). rewrite <- IH.
  apply dedup_extra. intros x. cbn [kmem existsb orb]. now rewrite orb_false_r.
Qed.

Lemma first_occ_NoDup l : NoDup (first_occ l).
Proof. unfold first_occ. apply NoDup_rev. apply NoDup_nodup. Qed.

Lemma first_occ_In l k : In k (first_occ l) <-> In k l.
Proof. unfold first_occ. rewrite <- in_rev, nodup_In, <- in_rev. reflexivity. Qed.

Lemma first_occ_fixed l : NoDup l -> first_occ l = l.
Proof.
  intros H. unfold first_occ. rewrite nodup_fixed_point; [apply rev_involutive|now apply NoDup_rev].
Qed.

Lemma first_occ_cons k l : first_occ (k :: l) = k :: filter (kneq k) (first_occ l).
Proof.
  rewrite <- !dedup_first_occ. cbn [dedup kmem existsb]. f_equal. apply dedup_extra. intros x. cbn [kmem existsb orb]. now rewrite orb_false_r.
Qed.

Lemma dedup_ext : forall l u1 u2, (forall x, kmem x u1 = kmem x u2) -> dedup u1 l = dedup u2 l.
Proof.
  induction l as [|k r IH]; intros u1 u2 E; [reflexivity|].
  cbn [dedup]. rewrite (E k). destruct (kmem k u2); [now apply IH|].
  f_equal. apply IH. intros x. cbn [kmem existsb]. fold (kmem x u1) (kmem x u2). now rewrite E.
Qed.

Lemma dedup_used_notin : forall l used k, In k (dedup used l) -> ~ In k used.
Proof.
  induction l as [|k' r IH]; intros used k; cbn [dedup]; [intros []|].
  destruct (kmem k' used) eqn:M.
  - apply IH.
  - intros [<-|H]; [now apply kmem_notin|].
    apply IH in H. intros Hu. apply H. now right.
Qed.

(* the nodes that receive a definition: first node of every key not yet used *)
Fixpoint firsts (u : bool) (used : list gkey) (l : list rt) : list rt :=
  match l with
  | [] => []
  | n :: r => if kmem (key u n) used then firsts u used r else n :: firsts u (key u n :: used) r
  end.

Lemma firsts_keys u : forall l used, map (key u) (firsts u used l) = dedup used (map (key u) l).
Proof.
  induction l as [|n r IH]; intros used; [reflexivity|].
  cbn [firsts map dedup]. destruct (kmem (key u n) used); [apply IH|]. cbn [map]. f_equal. apply IH.
Qed.

Lemma firsts_ext u : forall l u1 u2, (forall x, kmem x u1 = kmem x u2) -> firsts u u1 l = firsts u u2 l.
Proof.
  induction l as [|n r IH]; intros u1 u2 E; [reflexivity|].
  cbn [firsts]. rewrite (E (key u n)). destruct (kmem (key u n) u2); [now apply IH|].
  f_equal. apply IH. intros x. cbn [kmem existsb]. fold (kmem x u1) (kmem x u2). now rewrite E.
Qed.

Definition has_key (u : bool) (k : gkey) (m : rt) : bool := gkey_eqb (key u m) k.

Lemma firsts_find u : forall l used n,
  In n (firsts u used l) -> kmem (key u n) used = false /\ find (has_key u (key u n)) l = Some n.
Proof.
  induction l as [|m r IH]; intros used n; cbn [firsts]; [intros []|].
  destruct (kmem (key u m) used) eqn:M.
  - intros H. destruct (IH used n H) as [Hk Hf]. split; [exact Hk|].
    cbn [find]. unfold has_key at 1. destruct (gkey_eqb (key u m) (key u n)) eqn:E; [|exact Hf].
    apply gkey_eqb_eq in E. rewrite E in M. congruence.
  - intros [<-|H].
    + split; [exact M|]. cbn [find]. unfold has_key. now rewrite gkey_eqb_refl.
    + destruct (IH (key u m :: used) n H) as [Hk Hf].
      cbn [kmem existsb] in Hk. fold (kmem (key u n) used) in Hk. apply orb_false_iff in Hk. destruct Hk as [E Hk].
      split; [exact Hk|]. cbn [find]. unfold has_key at 1. rewrite gkey_eqb_sym, E. exact Hf.
Qed.

Lemma firsts_incl u : forall l used n, In n (firsts u used l) -> In n l.
Proof.
  induction l as [|m r IH]; intros used n; cbn [firsts]; [intros []|].
  destruct (kmem (key u m) used); [intros H; right; now apply (IH used)|].
  intros [<-|H]; [now left|right; now apply (IH _ _ H)].
Qed.

(* ------------------------------------------------------- list utilities *)
Lemma flat_map_flat_map {X Y Z} (g : Y -> list Z) (h : X -> list Y) (l : list X) :
  flat_map g (flat_map h l) = flat_map (fun x => flat_map g (h x)) l.
Proof. induction l as [|x l IH]; cbn; [reflexivity|]. now rewrite flat_map_app, IH. Qed.

Lemma map_flat_map' {X Y Z} (f : Y -> Z) (g : X -> list Y) (l : list X) :
  map f (flat_map g l) = flat_map (fun x => map f (g x)) l.
Proof. induction l as [|x l IH]; cbn; [reflexivity|]. now rewrite map_app, IH. Qed.

Lemma flat_map_if_filter {X Y} (c : X -> bool) (f : X -> Y) (l : list X) :
  flat_map (fun x => if c x then [] else [f x]) l = map f (filter (fun x => negb (c x)) l).
Proof.
  induction l as [|x l IH]; cbn; [reflexivity|]. destruct (c x); cbn; now rewrite IH.
Qed.

Lemma flat_map_cons_perm {X Y} (e : X -> Y) (f : X -> list Y) (l : list X) :
  Permutation (flat_map (fun x => e x :: f x) l) (map e l ++ flat_map f l).
Proof.
  induction l as [|x l IH]; cbn; [constructor|].
  apply perm_skip. rewrite IH. apply Permutation_app_swap_app.
Qed.

Lemma find_by_id (l : list rt) n : NoDup (map rid l) -> In n l -> find (has_key false (key false n)) l = Some n.
Proof.
  induction l as [|m l IH]; cbn [map find]; intros H Hn; [contradiction|].
  inversion H as [|? ? Hm Hl]; subst. unfold has_key at 1. cbn [key gkey_eqb].
  destruct Hn as [->|Hn]; [now rewrite Nat.eqb_refl|].
  destruct (Nat.eqb (rid m) (rid n)) eqn:E; [|now apply IH].
  apply Nat.eqb_eq in E. exfalso. apply Hm. rewrite E. now apply in_map.
Qed.

Lemma export_ids_NoDup a s : NoDup (ids_t s) -> NoDup (map rid (export a s)).
Proof.
  intros H. destruct a.
  - rewrite export_true. exact H.
  - cbn. now apply NoDup_ids_t_children.
Qed.

Lemma keys_false_NoDup (l : list rt) : NoDup (map rid l) -> NoDup (map (key false) l).
Proof.
  intros H. replace (map (key false) l) with (map KN (map rid l)) by (rewrite map_map; reflexivity).
  apply FinFun.Injective_map_NoDup; [|exact H]. intros x y E. now injection E.
Qed.

Lemma in_export_pre a s n : In n (export a s) -> In n (pre s).
Proof.
  destruct a; [now rewrite export_true|]. cbn. intros H. rewrite pre_unfold. now right.
Qed.

(* ------------------------------------------------------------------ DOT *)
Definition dkey (d : ddef) : gkey := fst (fst d).
Definition node_def (u : bool) (n : rt) : ddef := (key u n, Some (rname n), false).

Lemma dot_loop_unique : forall ns used, dot_loop true ns used = map (node_def true) (firsts true used ns).
Proof.
  induction ns as [|n r IH]; intros used; [reflexivity|].
  cbn [dot_loop firsts key]. destruct (kmem (KD (rdid n)) used); [apply IH|]. cbn [map]. now rewrite IH.
Qed.

Lemma dot_loop_all : forall ns used, dot_loop false ns used = map (node_def false) ns.
Proof. induction ns as [|n r IH]; intros used; [reflexivity|]. cbn [dot_loop map]. now rewrite IH. Qed.

Lemma dkey_node_def u l : map dkey (map (node_def u) l) = map (key u) l.
Proof. rewrite map_map. reflexivity. Qed.

(* defined keys, unique_nodes=True: first occurrences of the exported nodes' data_ids *)
Lemma dot_nodes_keys_unique a isroot tn s :
  map dkey (dot_nodes true true a isroot tn s) = first_occ (map (key true) (export a s)).
Proof.
  unfold dot_nodes. rewrite desc_p_snd. destruct a; cbn [export app].
  - cbn [map]. rewrite dot_loop_unique, dkey_node_def, firsts_keys.
    rewrite <- dedup_first_occ. cbn [dedup kmem existsb]. reflexivity.
  - rewrite dot_loop_unique, dkey_node_def, firsts_keys. apply dedup_first_occ.
Qed.

(* unique_nodes=False: one definition per exported node *)
Lemma dot_nodes_keys_all a isroot tn s :
  map dkey (dot_nodes true false a isroot tn s) = map (key false) (export a s).
Proof.
  unfold dot_nodes. rewrite desc_p_snd. destruct a; cbn [export app map]; rewrite dot_loop_all, dkey_node_def; reflexivity.
Qed.

Lemma dot_nodes_keys u a isroot tn s : NoDup (ids_t s) ->
  map dkey (dot_nodes true u a isroot tn s) = first_occ (map (key u) (export a s)).
Proof.
  intros H. destruct u; [apply dot_nodes_keys_unique|].
  rewrite dot_nodes_keys_all. symmetry. apply first_occ_fixed. apply keys_false_NoDup. now apply export_ids_NoDup.
Qed.

Lemma dot_nodes_keys_NoDup u a isroot tn s : NoDup (ids_t s) -> NoDup (map dkey (dot_nodes true u a isroot tn s)).
Proof. intros H. rewrite dot_nodes_keys by exact H. apply first_occ_NoDup. Qed.

Lemma dot_nodes_keys_In u a isroot tn s k : NoDup (ids_t s) ->
  (In k (map dkey (dot_nodes true u a isroot tn s)) <-> exists n, In n (export a s) /\ key u n = k).
Proof.
  intros H. rewrite dot_nodes_keys by exact H. rewrite first_occ_In, in_map_iff.
  split; intros [n [A B]]; exists n; tauto.
Qed.

(* the start node's own definition comes first *)
Lemma dot_nodes_head u isroot tn s :
  hd_error (dot_nodes true u true isroot tn s) = Some (key u s, if isroot then Some tn else None, isroot).
Proof. reflexivity. Qed.

(* every other definition is labelled with the name of the FIRST exported node
   (in pre-order) that has this key *)
Definition dot_loop_part (a : bool) (l : list ddef) : list ddef := if a then tl l else l.

Lemma dot_nodes_labels u a isroot tn s (d : ddef) : NoDup (ids_t s) ->
  In d (dot_loop_part a (dot_nodes true u a isroot tn s)) ->
  exists n, In n (pre_f (rch s)) /\ find (has_key u (dkey d)) (export a s) = Some n /\ d = node_def u n.
Proof.
  intros H Hd.
  assert (Hd' : In d (dot_loop u (pre_f (rch s)) (if a then [key u s] else []))).
  { unfold dot_loop_part, dot_nodes in Hd. rewrite desc_p_snd in Hd. destruct a; exact Hd. }
  clear Hd. destruct u.
  - rewrite dot_loop_unique in Hd'. apply in_map_iff in Hd'. destruct Hd' as [n [<- Hn]].
    exists n. split; [now apply firsts_incl in Hn|]. split; [|reflexivity].
    apply firsts_find in Hn. destruct Hn as [Hk Hf]. cbn [dkey node_def fst].
    destruct a; cbn [export app]; [|exact Hf].
    cbn [find]. unfold has_key at 1. cbn [kmem existsb] in Hk. rewrite orb_false_r in Hk.
    rewrite gkey_eqb_sym, Hk. exact Hf.
  - rewrite dot_loop_all in Hd'. apply in_map_iff in Hd'. destruct Hd' as [n [<- Hn]].
    exists n. split; [exact Hn|]. split; [|reflexivity].
    cbn [dkey node_def fst]. apply find_by_id; [now apply export_ids_NoDup|].
    unfold export. apply in_or_app. now right.
Qed.

(* edges *)
Lemma dot_edges_with u s : dot_edges u true s = map (dot_edge u) (desc_p s).
Proof. unfold dot_edges. cbn [negb andb]. apply flat_map_singleton. Qed.

Definition in_exportb (a : bool) (s p : rt) : bool := existsb (same_node p) (export a s).

Lemma in_exportb_spec a s p : NoDup (ids_t s) -> In p (pre s) ->
  in_exportb a s p = negb (negb a && same_node p s).
Proof.
  intros H Hp. unfold in_exportb. destruct a; cbn [negb andb].
  - apply existsb_exists. exists p. split; [now rewrite export_true|]. unfold same_node. apply Nat.eqb_refl.
  - cbn [export app]. destruct (same_node p s) eqn:E; cbn [negb].
    + destruct (existsb (same_node p) (pre_f (rch s))) eqn:X; [|reflexivity].
      apply existsb_exists in X. destruct X as [m [Hm Em]]. exfalso.
      apply (below_not_self s m H Hm). unfold same_node in *. apply Nat.eqb_eq in E, Em. congruence.
    + apply existsb_exists. exists p. split; [|unfold same_node; apply Nat.eqb_refl].
      rewrite pre_unfold in Hp. destruct Hp as [<-|Hp]; [|exact Hp].
      unfold same_node in E. rewrite Nat.eqb_refl in E. discriminate.
Qed.

(* exactly one edge (key parent, key n, kind n) per node whose parent is part of
   the export, in pre-order *)
Lemma dot_edges_spec u a s : NoDup (ids_t s) ->
  dot_edges u a s = map (dot_edge u) (filter (fun pn => in_exportb a s (fst pn)) (desc_p s)).
Proof.
  intros H. unfold dot_edges. rewrite flat_map_if_filter. f_equal.
  apply filter_ext_in'. intros [p c] Hpc. cbn [fst]. symmetry. apply in_exportb_spec; [exact H|].
  now apply desc_p_parent_in_pre in Hpc.
Qed.

Lemma dot_edges_with_children u s :
  dot_edges u true s = flat_map (fun c => dot_edge u (s, c) :: dot_edges u true c) (rch s).
Proof.
  rewrite dot_edges_with, desc_p_unfold, map_flat_map'. apply flat_map_ext_in. intros c _.
  cbn [map]. now rewrite dot_edges_with.
Qed.

Lemma dot_edges_without_children u s : NoDup (ids_t s) ->
  dot_edges u false s = flat_map (fun c => dot_edges u true c) (rch s).
Proof.
  intros H. unfold dot_edges at 1. rewrite (desc_p_unfold s), flat_map_flat_map.
  apply flat_map_ext_in. intros c Hc. cbn [flat_map fst negb andb].
  unfold same_node at 1. rewrite Nat.eqb_refl. cbn [app].
  rewrite dot_edges_with, <- flat_map_singleton. apply flat_map_ext_in. intros [p c'] Hpc. cbn [fst].
  assert (E : same_node p s = false).
  { unfold same_node. apply Nat.eqb_neq. apply below_not_self; [exact H|].
    apply in_flat_map. exists c. split; [exact Hc|]. now apply desc_p_parent_in_pre in Hpc. }
  now rewrite E.
Qed.

Lemma dot_edges_exclusion_perm u s : NoDup (ids_t s) ->
  Permutation (dot_edges u true s) (map (fun c => dot_edge u (s, c)) (rch s) ++ dot_edges u false s).
Proof.
  intros H. rewrite dot_edges_with_children, dot_edges_without_children by exact H.
  apply flat_map_cons_perm.
Qed.

(* definitions with / without the start node *)
Lemma dot_nodes_exclusion u isroot tn s : NoDup (ids_t s) ->
  map dkey (dot_nodes true u true isroot tn s)
  = key u s :: filter (kneq (key u s)) (map dkey (dot_nodes true u false isroot tn s)).
Proof.
  intros H. rewrite !dot_nodes_keys by exact H. cbn [export app map]. apply first_occ_cons.
Qed.

(* both ends of every edge are defined nodes *)
Lemma dot_edges_closed u a isroot tn s x y l : NoDup (ids_t s) ->
  In (x, y, l) (dot_edges u a s) ->
  In x (map dkey (dot_nodes true u a isroot tn s)) /\ In y (map dkey (dot_nodes true u a isroot tn s)).
Proof.
  intros H He. unfold dot_edges in He. apply in_flat_map in He. destruct He as [[p c] [Hpc He]].
  cbn [fst] in He. destruct (negb a && same_node p s) eqn:C; [contradiction|].
  destruct He as [E|[]]. unfold dot_edge in E. cbn [fst snd] in E. injection E as <- <- <-.
  rewrite !dot_nodes_keys_In by exact H. split.
  - exists p. split; [|reflexivity]. apply desc_p_parent_in_pre in Hpc.
    destruct a; [now rewrite export_true|]. cbn [negb andb] in C. cbn [export app].
    rewrite pre_unfold in Hpc. destruct Hpc as [<-|Hp]; [|exact Hp].
    unfold same_node in C. rewrite Nat.eqb_refl in C. discriminate.
  - exists c. split; [|reflexivity]. unfold export. apply in_or_app. right. now apply desc_p_child_below in Hpc.
Qed.

(* -------------------------------------------------------------- Mermaid *)
Lemma klookup_none k m : klookup k m = None <-> kmem k (map fst m) = false.
Proof.
  induction m as [|[k' i] m IH]; cbn [klookup map fst kmem existsb]; [tauto|].
  fold (kmem k (map fst m)). destruct (gkey_eqb k k'); cbn [orb]; [split; discriminate|exact IH].
Qed.

Lemma kmem_snoc x l k : kmem x (l ++ [k]) = kmem x (k :: l).
Proof.
  unfold kmem. rewrite existsb_app. cbn [existsb]. rewrite orb_false_r. apply orb_comm.
Qed.

Lemma mer_loop_spec u : forall ns m idx,
  fst (mer_loop u ns m idx)
    = map (fun p => (snd p, rname (fst p), false))
          (combine (firsts u (map fst m) ns) (seq idx (length (firsts u (map fst m) ns)))) /\
  snd (mer_loop u ns m idx)
    = m ++ combine (map (key u) (firsts u (map fst m) ns)) (seq idx (length (firsts u (map fst m) ns))).
Proof.
  induction ns as [|n r IH]; intros m idx.
  - cbn. now rewrite app_nil_r.
  - cbn [mer_loop firsts]. destruct (klookup (key u n) m) as [j|] eqn:Lk.
    + assert (M : kmem (key u n) (map fst m) = true).
      { destruct (kmem (key u n) (map fst m)) eqn:M; [reflexivity|]. apply klookup_none in M. congruence. }
      rewrite M. apply IH.
    + pose proof Lk as M. apply klookup_none in M. rewrite M.
      destruct (IH (m ++ [(key u n, idx)]) (S idx)) as [I1 I2].
      assert (E : firsts u (map fst (m ++ [(key u n, idx)])) r = firsts u (key u n :: map fst m) r).
      { apply firsts_ext. intros x. rewrite map_app. cbn [map fst]. apply kmem_snoc. }
      rewrite E in I1, I2. cbn [fst snd]. rewrite I1, I2. cbn [length seq combine map fst snd].
      split; [reflexivity|]. now rewrite <- app_assoc.
Qed.

Definition moff (a : bool) : nat := if a then 0 else 1.

(* the nodes that get a Mermaid node line, in order *)
Definition mer_firsts (u a : bool) (s : rt) : list rt := firsts u [] (export a s).

Lemma mer_firsts_keys u a s : map (key u) (mer_firsts u a s) = first_occ (map (key u) (export a s)).
Proof. unfold mer_firsts. rewrite firsts_keys. apply dedup_first_occ. Qed.

Lemma mer_map_firsts u a s :
  mer_map u a s = combine (map (key u) (mer_firsts u a s)) (seq (moff a) (length (mer_firsts u a s))).
Proof.
  unfold mer_map, mer_firsts. rewrite desc_p_snd.
  destruct a; cbn [export app moff].
  - destruct (mer_loop_spec u (pre_f (rch s)) [(key u s, 0)] 1) as [_ I2]. rewrite I2.
    cbn [firsts kmem existsb map fst length seq combine app]. reflexivity.
  - destruct (mer_loop_spec u (pre_f (rch s)) [] 1) as [_ I2]. rewrite I2. reflexivity.
Qed.

Lemma mer_nodes_firsts u a s :
  mer_nodes u a s = map (fun p => (snd p, rname (fst p), Nat.eqb (snd p) 0))
                        (combine (mer_firsts u a s) (seq (moff a) (length (mer_firsts u a s)))).
Proof.
  unfold mer_nodes, mer_firsts. rewrite desc_p_snd.
  assert (G : forall (F : list rt) k, map (fun p : rt * nat => (snd p, rname (fst p), false)) (combine F (seq (S k) (length F)))
                         = map (fun p => (snd p, rname (fst p), Nat.eqb (snd p) 0)) (combine F (seq (S k) (length F)))).
  { intros F k. apply map_ext_in. intros [n i] Hi. apply in_combine_r in Hi. apply in_seq in Hi. cbn [fst snd].
    destruct i; [lia|reflexivity]. }
  destruct a; cbn [export app moff].
  - destruct (mer_loop_spec u (pre_f (rch s)) [(key u s, 0)] 1) as [I1 _]. rewrite I1.
    cbn [firsts kmem existsb map fst length seq combine app snd Nat.eqb]. f_equal. apply G.
  - destruct (mer_loop_spec u (pre_f (rch s)) [] 1) as [I1 _]. rewrite I1. cbn [app map]. apply G.
Qed.

Lemma map_fst_combine_seq {X} (K : list X) : forall o, map fst (combine K (seq o (length K))) = K.
Proof. induction K as [|k K IH]; intros o; cbn; [reflexivity|]. now rewrite IH. Qed.

Lemma map_snd_combine_seq {X} (K : list X) : forall o, map snd (combine K (seq o (length K))) = seq o (length K).
Proof. induction K as [|k K IH]; intros o; cbn; [reflexivity|]. now rewrite IH. Qed.

(* id_to_idx: distinct keys in first-occurrence order, numbered consecutively *)
Lemma mer_map_keys u a s : map fst (mer_map u a s) = first_occ (map (key u) (export a s)).
Proof.
  rewrite mer_map_firsts. rewrite <- (map_length (key u)). rewrite map_fst_combine_seq. apply mer_firsts_keys.
Qed.

Lemma mer_map_indices u a s :
  map snd (mer_map u a s) = seq (moff a) (length (first_occ (map (key u) (export a s)))).
Proof.
  rewrite mer_map_firsts. rewrite <- mer_firsts_keys, <- (map_length (key u)). apply map_snd_combine_seq.
Qed.

Lemma mer_nodes_indices u a s :
  map (fun d : mnode => fst (fst d)) (mer_nodes u a s) = seq (moff a) (length (first_occ (map (key u) (export a s)))).
Proof.
  rewrite mer_nodes_firsts, map_map. cbn [fst].
  change (fun x : rt * nat => snd x) with (@snd rt nat).
  rewrite map_snd_combine_seq. now rewrite <- mer_firsts_keys, map_length.
Qed.

Lemma in_combine_map {X Y Z} (f : X -> Y) (l : list X) : forall (r : list Z) x z,
  In (x, z) (combine l r) -> In (f x, z) (combine (map f l) r).
Proof.
  induction l as [|a l IH]; intros [|b r] x z; cbn; try tauto.
  intros [E|H]; [left; injection E as -> ->; reflexivity|right; now apply IH].
Qed.

(* every node line: index i is the number given to the key of some exported node
   n, n is the first exported node with that key, the line shows n's name; the
   hexagon shape is used for index 0 only *)
Lemma mer_nodes_lines u a s i nm r : In (i, nm, r) (mer_nodes u a s) ->
  exists n, In (key u n, i) (mer_map u a s) /\ find (has_key u (key u n)) (export a s) = Some n /\
            nm = rname n /\ r = Nat.eqb i 0.
Proof.
  rewrite mer_nodes_firsts, mer_map_firsts. intros H. apply in_map_iff in H. destruct H as [[n j] [E H]].
  cbn [fst snd] in E. injection E as <- <- <-. exists n.
  split; [now apply in_combine_map|]. split; [|split; reflexivity].
  apply in_combine_l in H. unfold mer_firsts in H. now apply firsts_find in H.
Qed.

(* decoding an index through the node table *)
Definition kinv (m : list (gkey * nat)) (i : nat) : option gkey :=
  option_map fst (find (fun p => Nat.eqb (snd p) i) m).

Definition obind {X Y} (o : option X) (f : X -> option Y) : option Y :=
  match o with Some x => f x | None => None end.

Definition mer_decode (m : list (gkey * nat)) (e : medge) : option gkey * option gkey * option text :=
  match e with (oi, oj, l) => (obind oi (kinv m), obind oj (kinv m), l) end.

Lemma klookup_in : forall m k i, NoDup (map fst m) -> In (k, i) m -> klookup k m = Some i.
Proof.
  induction m as [|[k' j] m IH]; intros k i H Hi; [contradiction|].
  cbn [map fst] in H. inversion H as [|? ? Hn Hm]; subst. cbn [klookup].
  destruct Hi as [E|Hi].
  - injection E as -> ->. now rewrite gkey_eqb_refl.
  - destruct (gkey_eqb k k') eqn:E; [|now apply IH].
    apply gkey_eqb_eq in E. subst k'. exfalso. apply Hn. apply (in_map fst) in Hi. exact Hi.
Qed.

Lemma kinv_in : forall m k i, NoDup (map snd m) -> In (k, i) m -> kinv m i = Some k.
Proof.
  unfold kinv. induction m as [|[k' j] m IH]; intros k i H Hi; [contradiction|].
  cbn [map snd] in H. inversion H as [|? ? Hn Hm]; subst. cbn [find snd].
  destruct Hi as [E|Hi].
  - injection E as -> ->. now rewrite Nat.eqb_refl.
  - destruct (Nat.eqb j i) eqn:E; [|now apply IH].
    apply Nat.eqb_eq in E. subst j. exfalso. apply Hn. apply (in_map snd) in Hi. exact Hi.
Qed.

Lemma mer_map_roundtrip u a s n : In n (export a s) ->
  exists i, klookup (key u n) (mer_map u a s) = Some i /\ kinv (mer_map u a s) i = Some (key u n).
Proof.
  intros Hn.
  assert (Hk : In (key u n) (map fst (mer_map u a s))).
  { rewrite mer_map_keys, first_occ_In. now apply in_map. }
  apply in_map_iff in Hk. destruct Hk as [[k i] [E Hi]]. cbn [fst] in E. subst k.
  exists i. split.
  - apply klookup_in; [rewrite mer_map_keys; apply first_occ_NoDup|exact Hi].
  - apply kinv_in; [rewrite mer_map_indices; apply seq_NoDup|exact Hi].
Qed.

(* no lookup fails, and every Mermaid edge line, decoded through the node
   table, is the DOT edge of the same tree node *)
Lemma mer_edges_decode u a s :
  map (mer_decode (mer_map u a s)) (mer_edges u a s)
  = map (fun e : dedge => (Some (fst (fst e)), Some (snd (fst e)), mer_label (snd e))) (dot_edges u a s).
Proof.
  unfold mer_edges, dot_edges. rewrite !map_flat_map'. apply flat_map_ext_in. intros [p c] Hpc. cbn [fst].
  destruct (negb a && same_node p s) eqn:C; [reflexivity|]. cbn [map]. f_equal.
  unfold mer_edge, dot_edge, mer_decode. cbn [fst snd].
  assert (Hp : In p (export a s)).
  { apply desc_p_parent_in_pre in Hpc. destruct a; [now rewrite export_true|]. cbn [negb andb] in C. cbn [export app].
    rewrite pre_unfold in Hpc. destruct Hpc as [<-|Hp]; [|exact Hp].
    unfold same_node in C. rewrite Nat.eqb_refl in C. discriminate. }
  assert (Hc : In c (export a s)).
  { unfold export. apply in_or_app. right. now apply desc_p_child_below in Hpc. }
  destruct (mer_map_roundtrip u a s p Hp) as [i [L1 K1]].
  destruct (mer_map_roundtrip u a s c Hc) as [j [L2 K2]].
  rewrite L1, L2. cbn [obind]. now rewrite K1, K2.
Qed.

Lemma mer_edges_length u a s : length (mer_edges u a s) = length (dot_edges u a s).
Proof.
  pose proof (f_equal (@length _) (mer_edges_decode u a s)) as E. now rewrite !map_length in E.
Qed.

(* ------------------------------------------------------------------ RDF *)
Lemma mapi_cat_in {X Y} (g : nat -> X -> list Y) : forall l i0 y,
  In y (mapi_cat g l i0) <-> exists k x, nth_error l k = Some x /\ In y (g (i0 + k) x).
Proof.
  induction l as [|x l IH]; intros i0 y; cbn [mapi_cat].
  - split; [intros []|]. intros [k [x [H _]]]. destruct k; discriminate.
  - rewrite in_app_iff, IH. split.
    + intros [H|[k [x' [Hk H]]]].
      * exists 0, x. rewrite Nat.add_0_r. now split.
      * exists (S k), x'. rewrite Nat.add_succ_r. now split.
    + intros [[|k] [x' [Hk H]]].
      * cbn in Hk. injection Hk as <-. rewrite Nat.add_0_r in H. now left.
      * right. exists k, x'. rewrite Nat.add_succ_r in H. now split.
Qed.

Lemma rdf_children_unfold fx sk pg t :
  rdf_children fx sk pg t
  = mapi_cat (fun i c => rdf_node fx (negb (sk c)) pg c (Some i) ++ rdf_children fx sk (Some (RLit (rdid c))) c) (rch t) 0.
Proof. destruct t; reflexivity. Qed.

Definition lit (n : rt) : rnode := RLit (rdid n).

(* every triple comes from one _add_child_node call: for a child of the start
   node with the start node's graph node as parent, for a deeper node with its
   parent's Literal(data_id) *)
Lemma rdf_children_in fx sk : forall t og tr,
  In tr (rdf_children fx sk og t) <->
  (exists i c, nth_error (rch t) i = Some c /\ In tr (rdf_node fx (negb (sk c)) og c (Some i))) \/
  (exists c0 p i c, In c0 (rch t) /\ In p (pre c0) /\ nth_error (rch p) i = Some c /\
                    In tr (rdf_node fx (negb (sk c)) (Some (lit p)) c (Some i))).
Proof.
  induction t as [id inf ch IH] using rt_ind'. intros og tr.
  rewrite rdf_children_unfold, mapi_cat_in. cbn [rch Nat.add]. rewrite Forall_forall in IH. split.
  - intros [k [c [Hk H]]]. apply in_app_or in H. destruct H as [H|H].
    + left. exists k, c. now split.
    + right. pose proof (nth_error_In _ _ Hk) as Hc. apply (IH c Hc) in H. destruct H as [[i [c' [Hi H]]]|[c0 [p [i [c' [Hc0 [Hp [Hi H]]]]]]]].
      * exists c, c, i, c'. repeat split; try assumption. apply pre_in_self.
      * exists c, p, i, c'. repeat split; try assumption. rewrite pre_unfold. right. apply in_flat_map. exists c0. now split.
  - intros [[i [c [Hi H]]]|[c0 [p [i [c [Hc0 [Hp [Hi H]]]]]]]].
    + exists i, c. split; [exact Hi|]. apply in_or_app. now left.
    + destruct (In_nth_error _ _ Hc0) as [k Hk]. exists k, c0. split; [exact Hk|]. apply in_or_app. right.
      apply (IH c0 Hc0). rewrite pre_unfold in Hp. destruct Hp as [<-|Hp].
      * left. exists i, c. now split.
      * right. apply in_flat_map in Hp. destruct Hp as [c1 [Hc1 Hp]]. exists c1, p, i, c. now repeat split.
Qed.

(* what one _add_child_node call contributes *)
Lemma rdf_node_has_child std pg n idx x y :
  In (THasChild x y) (rdf_node true std pg n idx) <-> pg = Some x /\ y = lit n.
Proof.
  unfold rdf_node, lit. rewrite !in_app_iff. cbn [orb].
  destruct std, pg as [g|], (rkind n) as [k|], idx as [i|]; cbn [In app];
    (split; [intros H; decompose [or] H; try discriminate; try contradiction;
             match goal with E : THasChild _ _ = THasChild _ _ |- _ => injection E as -> ->; split; reflexivity end
            | intros [E ->]; try discriminate; injection E as ->; left; left; reflexivity ]).
Qed.

Lemma rdf_node_name fx std pg n idx g nm :
  In (TName g nm) (rdf_node fx std pg n idx) <-> std = true /\ g = lit n /\ nm = rname n.
Proof.
  unfold rdf_node, lit. rewrite !in_app_iff.
  destruct std; (destruct pg as [p|]; [destruct (fx || rnode_truthy p)|]); destruct (rkind n) as [k|], idx as [i|]; cbn [In app];
    (split; [intros H; decompose [or] H; try discriminate; try contradiction;
             match goal with E : TName _ _ = TName _ _ |- _ => injection E as <- <-; repeat split; reflexivity end
            | intros [E [-> ->]]; try discriminate; tauto ]).
Qed.

Lemma rdf_node_kind fx std pg n idx g k :
  In (TKind g k) (rdf_node fx std pg n idx) <-> std = true /\ g = lit n /\ rkind n = Some k.
Proof.
  unfold rdf_node, lit. rewrite !in_app_iff.
  destruct std; (destruct pg as [p|]; [destruct (fx || rnode_truthy p)|]); destruct (rkind n) as [k'|], idx as [i|]; cbn [In app];
    (split; [intros H; decompose [or] H; try discriminate; try contradiction;
             match goal with E : TKind _ _ = TKind _ _ |- _ => injection E as <- <-; repeat split; reflexivity end
            | intros [E0 [-> E]]; try discriminate; injection E as ->; tauto ]).
Qed.

Lemma rdf_node_index fx std pg n idx g i :
  In (TIndex g i) (rdf_node fx std pg n idx) <-> std = true /\ g = lit n /\ idx = Some i.
Proof.
  unfold rdf_node, lit. rewrite !in_app_iff.
  destruct std; (destruct pg as [p|]; [destruct (fx || rnode_truthy p)|]); destruct (rkind n) as [k'|], idx as [i'|]; cbn [In app];
    (split; [intros H; decompose [or] H; try discriminate; try contradiction;
             match goal with E : TIndex _ _ = TIndex _ _ |- _ => injection E as <- <-; repeat split; reflexivity end
            | intros [E0 [-> E]]; try discriminate; injection E as ->; tauto ]).
Qed.

Lemma in_pre_f_split (f : list rt) p : In p (pre_f f) <-> exists c0, In c0 f /\ In p (pre c0).
Proof. apply in_flat_map. Qed.

(* has_child triples = image of the tree edges whose parent is exported,
   whatever the node_mapper answers *)
Lemma rdf_children_has_child sk t og x y :
  In (THasChild x y) (rdf_children true sk og t) <->
  (og = Some x /\ exists c, In c (rch t) /\ y = lit c) \/
  (exists p c, In p (pre_f (rch t)) /\ In c (rch p) /\ x = lit p /\ y = lit c).
Proof.
  rewrite rdf_children_in. split.
  - intros [[i [c [Hi H]]]|[c0 [p [i [c [Hc0 [Hp [Hi H]]]]]]]]; apply rdf_node_has_child in H; destruct H as [E ->].
    + left. split; [exact E|]. exists c. split; [now apply nth_error_In in Hi|reflexivity].
    + right. injection E as <-. exists p, c. split; [apply in_pre_f_split; now exists c0|].
      split; [now apply nth_error_In in Hi|split; reflexivity].
  - intros [[E [c [Hc ->]]]|[p [c [Hp [Hc [-> ->]]]]]].
    + left. destruct (In_nth_error _ _ Hc) as [i Hi]. exists i, c. split; [exact Hi|]. now apply rdf_node_has_child.
    + right. apply in_pre_f_split in Hp. destruct Hp as [c0 [Hc0 Hp]].
      destruct (In_nth_error _ _ Hc) as [i Hi]. exists c0, p, i, c. repeat split; try assumption.
      now apply rdf_node_has_child.
Qed.

Lemma rdf_of_node_has_child sk a s x y :
  In (THasChild x y) (rdf_of_node true sk a s) <->
  exists p c, In p (export a s) /\ In c (rch p) /\ x = lit p /\ y = lit c.
Proof.
  unfold rdf_of_node. destruct a; cbn [export app].
  - rewrite in_app_iff, rdf_node_has_child, rdf_children_has_child. split.
    + intros [[E _]|[[E [c [Hc ->]]]|[p [c [Hp [Hc [-> ->]]]]]]]; [discriminate| |].
      * injection E as <-. exists s, c. repeat split; [now left|exact Hc].
      * exists p, c. repeat split; [now right|exact Hc].
    + intros [p [c [[<-|Hp] [Hc [-> ->]]]]].
      * right. left. split; [reflexivity|]. now exists c.
      * right. right. now exists p, c.
  - rewrite rdf_children_has_child. split.
    + intros [[E _]|H]; [discriminate|exact H].
    + intros H. now right.
Qed.

Lemma rdf_of_tree_has_child tn root x y :
  In (THasChild x y) (rdf_of_tree true tn root) <->
  (x = RSys /\ exists c, In c (rch root) /\ y = lit c) \/
  (exists p c, In p (pre_f (rch root)) /\ In c (rch p) /\ x = lit p /\ y = lit c).
Proof.
  unfold rdf_of_tree. cbn [In]. rewrite rdf_children_has_child. split.
  - intros [E|[[E H]|H]]; [discriminate| |now right]. injection E as <-. now left.
  - intros [[-> H]|H]; right; [left; now split|now right].
Qed.

(* every proper descendant has a parent below (or at) the start *)
Lemma below_has_parent : forall t n, In n (pre_f (rch t)) -> exists p i, In p (pre t) /\ nth_error (rch p) i = Some n.
Proof.
  induction t as [id inf ch IH] using rt_ind'. cbn [rch]. intros n Hn.
  apply in_flat_map in Hn. destruct Hn as [c1 [Hc1 Hn]]. rewrite pre_unfold in Hn. destruct Hn as [<-|Hn].
  - destruct (In_nth_error _ _ Hc1) as [i Hi]. exists (T id inf ch), i. split; [apply pre_in_self|exact Hi].
  - rewrite Forall_forall in IH. destruct (IH c1 Hc1 n Hn) as [p [i [Hp Hi]]]. exists p, i. split; [|exact Hi].
    rewrite pre_unfold. right. apply in_flat_map. exists c1. now split.
Qed.

Lemma rdf_children_attr fx sk t og tr (Q : rt -> option nat -> Prop) :
  (forall pg n idx, In tr (rdf_node fx (negb (sk n)) pg n idx) <-> Q n idx) ->
  (In tr (rdf_children fx sk og t) <-> exists p i c, In p (pre t) /\ nth_error (rch p) i = Some c /\ Q c (Some i)).
Proof.
  intros HQ. rewrite rdf_children_in. split.
  - intros [[i [c [Hi H]]]|[c0 [p [i [c [Hc0 [Hp [Hi H]]]]]]]]; apply HQ in H.
    + exists t, i, c. split; [apply pre_in_self|now split].
    + exists p, i, c. split; [|now split]. rewrite pre_unfold. right. apply in_pre_f_split. now exists c0.
  - intros [p [i [c [Hp [Hi H]]]]]. rewrite pre_unfold in Hp. destruct Hp as [<-|Hp].
    + left. exists i, c. split; [exact Hi|]. now apply HQ.
    + right. apply in_pre_f_split in Hp. destruct Hp as [c0 [Hc0 Hp]]. exists c0, p, i, c. repeat split; try assumption. now apply HQ.
Qed.

Lemma negb_true_false b : negb b = true <-> b = false.
Proof. destruct b; split; intros H; try reflexivity; discriminate. Qed.

(* attribute triples: one name (kind, index) triple per exported node for
   which the mapper did not answer False *)
Lemma rdf_children_index fx sk t og g i :
  In (TIndex g i) (rdf_children fx sk og t) <->
  exists p c, In p (pre t) /\ nth_error (rch p) i = Some c /\ sk c = false /\ g = lit c.
Proof.
  rewrite (rdf_children_attr fx sk t og _ (fun n idx => negb (sk n) = true /\ g = lit n /\ idx = Some i)); [|intros; apply rdf_node_index].
  split.
  - intros [p [j [c [Hp [Hj [S [-> E]]]]]]]. injection E as ->. apply negb_true_false in S. now exists p, c.
  - intros [p [c [Hp [Hi [S ->]]]]]. exists p, i, c. apply negb_true_false in S. repeat split; assumption.
Qed.

Lemma rdf_children_kind fx sk t og g k :
  In (TKind g k) (rdf_children fx sk og t) <->
  exists n, In n (pre_f (rch t)) /\ sk n = false /\ g = lit n /\ rkind n = Some k.
Proof.
  rewrite (rdf_children_attr fx sk t og _ (fun n idx => negb (sk n) = true /\ g = lit n /\ rkind n = Some k)); [|intros; apply rdf_node_kind].
  split.
  - intros [p [j [c [Hp [Hj [S [-> E]]]]]]]. apply negb_true_false in S. exists c. split; [|now repeat split].
    rewrite <- desc_p_snd. change c with (snd (p, c)). apply in_map. apply desc_p_in. split; [exact Hp|now apply nth_error_In in Hj].
  - intros [n [Hn [S [-> E]]]]. destruct (below_has_parent t n Hn) as [p [i [Hp Hi]]]. exists p, i, n.
    apply negb_true_false in S. repeat split; assumption.
Qed.

Lemma rdf_children_name fx sk t og g nm :
  In (TName g nm) (rdf_children fx sk og t) <->
  exists n, In n (pre_f (rch t)) /\ sk n = false /\ g = lit n /\ nm = rname n.
Proof.
  rewrite (rdf_children_attr fx sk t og _ (fun n idx => negb (sk n) = true /\ g = lit n /\ nm = rname n)); [|intros; apply rdf_node_name].
  split.
  - intros [p [j [c [Hp [Hj [S [-> ->]]]]]]]. apply negb_true_false in S. exists c. split; [|now repeat split].
    rewrite <- desc_p_snd. change c with (snd (p, c)). apply in_map. apply desc_p_in. split; [exact Hp|now apply nth_error_In in Hj].
  - intros [n [Hn [S [-> ->]]]]. destruct (below_has_parent t n Hn) as [p [i [Hp Hi]]]. exists p, i, n.
    apply negb_true_false in S. repeat split; assumption.
Qed.

Lemma rdf_of_node_name fx sk a s g nm :
  In (TName g nm) (rdf_of_node fx sk a s) <-> exists n, In n (export a s) /\ sk n = false /\ g = lit n /\ nm = rname n.
Proof.
  unfold rdf_of_node. destruct a; cbn [export app].
  - rewrite in_app_iff, rdf_node_name, rdf_children_name. split.
    + intros [[S [-> ->]]|[n [Hn H]]]; [exists s; apply negb_true_false in S; split; [now left|now repeat split]|exists n; split; [now right|exact H]].
    + intros [n [[<-|Hn] [S H]]]; [left; split; [now apply negb_true_false|exact H]|right; now exists n].
  - apply rdf_children_name.
Qed.

Lemma rdf_of_node_kind fx sk a s g k :
  In (TKind g k) (rdf_of_node fx sk a s) <-> exists n, In n (export a s) /\ sk n = false /\ g = lit n /\ rkind n = Some k.
Proof.
  unfold rdf_of_node. destruct a; cbn [export app].
  - rewrite in_app_iff, rdf_node_kind, rdf_children_kind. split.
    + intros [[S [-> E]]|[n [Hn H]]]; [exists s; apply negb_true_false in S; split; [now left|now repeat split]|exists n; split; [now right|exact H]].
    + intros [n [[<-|Hn] [S H]]]; [left; split; [now apply negb_true_false|exact H]|right; now exists n].
  - apply rdf_children_kind.
Qed.

Lemma rdf_of_node_index fx sk a s g i :
  In (TIndex g i) (rdf_of_node fx sk a s) <->
  exists p c, In p (pre s) /\ nth_error (rch p) i = Some c /\ sk c = false /\ g = lit c.
Proof.
  unfold rdf_of_node. destruct a.
  - rewrite in_app_iff, rdf_node_index, rdf_children_index. split; [intros [[_ [_ E]]|H]; [discriminate|exact H]|intros H; now right].
  - apply rdf_children_index.
Qed.

Lemma rdf_of_tree_name fx tn root g nm :
  In (TName g nm) (rdf_of_tree fx tn root) <->
  (g = RSys /\ nm = tn) \/ exists n, In n (pre_f (rch root)) /\ g = lit n /\ nm = rname n.
Proof.
  unfold rdf_of_tree. cbn [In]. rewrite rdf_children_name. split.
  - intros [E|[n [Hn [_ H]]]]; [injection E as <- <-; now left|right; now exists n].
  - intros [[-> ->]|[n [Hn H]]]; [now left|right; exists n; split; [exact Hn|split; [reflexivity|exact H]]].
Qed.

Lemma rdf_of_tree_kind fx tn root g k :
  In (TKind g k) (rdf_of_tree fx tn root) <-> exists n, In n (pre_f (rch root)) /\ g = lit n /\ rkind n = Some k.
Proof.
  unfold rdf_of_tree. cbn [In]. rewrite rdf_children_kind. split.
  - intros [E|[n [Hn [_ H]]]]; [discriminate|now exists n].
  - intros [n [Hn H]]. right. exists n. split; [exact Hn|split; [reflexivity|exact H]].
Qed.

Lemma rdf_of_tree_index fx tn root g i :
  In (TIndex g i) (rdf_of_tree fx tn root) <-> exists p c, In p (pre root) /\ nth_error (rch p) i = Some c /\ g = lit c.
Proof.
  unfold rdf_of_tree. cbn [In]. rewrite rdf_children_index. split.
  - intros [E|[p [c [Hp [Hi [_ H]]]]]]; [discriminate|now exists p, c].
  - intros [p [c [Hp [Hi H]]]]. right. exists p, c. split; [exact Hp|split; [exact Hi|split; [reflexivity|exact H]]].
Qed.

(* ---------------------------------------------- Mermaid lines as text *)
From NTGen Require Import Generated.
From Coq Require DecimalNat DecimalZ.

Definition S_arrow : text := [32; 45; 45; 62; 32]%Z.            (* space dash dash gt space *)
Definition S_tarrow1 : text := [45; 45; 32; 34]%Z.              (* dash dash space quote *)
Definition S_tarrow2 : text := [34; 32; 45; 45; 62]%Z.          (* quote space dash dash gt *)

(* obligations on the values generated from nutree/mermaid.py *)
Lemma edge_template_tokens :
  tokenize MERMAID_DEFAULT_EDGE_TEMPLATE = Some [TField F_from_id; TLit S_arrow; TField F_to_id].
Proof. vm_compute. reflexivity. Qed.

Lemma typed_edge_template_tokens :
  tokenize MERMAID_DEFAULT_EDGE_TEMPLATE_TYPED
  = Some [TField F_from_id; TLit S_tarrow1; TField F_kind; TLit S_tarrow2; TField F_to_id].
Proof. vm_compute. reflexivity. Qed.

Lemma node_template_tokens : tokenize MERMAID_DEFAULT_NODE_TEMPLATE = Some [TField F_node_name].
Proof. vm_compute. reflexivity. Qed.

Lemma mer_edge_text_plain i j : mer_edge_text (Some i, Some j, None) = Some (dec i ++ S_arrow ++ dec j).
Proof.
  unfold mer_edge_text, format_with. rewrite edge_template_tokens.
  cbn. now rewrite app_nil_r.
Qed.

Lemma mer_edge_text_typed i j k :
  mer_edge_text (Some i, Some j, Some k) = Some (dec i ++ S_tarrow1 ++ k ++ S_tarrow2 ++ dec j).
Proof.
  unfold mer_edge_text, format_with. rewrite typed_edge_template_tokens.
  cbn. now rewrite app_nil_r.
Qed.

Lemma mer_node_text_plain i nm :
  mer_node_text (i, nm, false) = Some (dec i ++ [40; 34]%Z ++ nm ++ [34; 41]%Z).
Proof.
  unfold mer_node_text, format_with. rewrite node_template_tokens. cbn. now rewrite app_nil_r.
Qed.

(* decimal rendering can be read back *)
Fixpoint text_uint (t : text) : option Decimal.uint :=
  match t with
  | [] => Some Decimal.Nil
  | c :: r =>
      match text_uint r with
      | None => None
      | Some d =>
          if Z.eqb c 48 then Some (Decimal.D0 d) else if Z.eqb c 49 then Some (Decimal.D1 d)
          else if Z.eqb c 50 then Some (Decimal.D2 d) else if Z.eqb c 51 then Some (Decimal.D3 d)
          else if Z.eqb c 52 then Some (Decimal.D4 d) else if Z.eqb c 53 then Some (Decimal.D5 d)
          else if Z.eqb c 54 then Some (Decimal.D6 d) else if Z.eqb c 55 then Some (Decimal.D7 d)
          else if Z.eqb c 56 then Some (Decimal.D8 d) else if Z.eqb c 57 then Some (Decimal.D9 d)
          else None
      end
  end.
Definition undec (t : text) : option nat := option_map Nat.of_uint (text_uint t).

Lemma text_uint_text d : text_uint (uint_text d) = Some d.
Proof. induction d; cbn [uint_text text_uint]; try reflexivity; rewrite IHd; reflexivity. Qed.

Lemma undec_dec n : undec (dec n) = Some n.
Proof. unfold undec, dec. rewrite text_uint_text. cbn. f_equal. apply DecimalNat.Unsigned.of_to. Qed.

Lemma dec_inj a b : dec a = dec b -> a = b.
Proof. intros E. pose proof (undec_dec a) as A. rewrite E, undec_dec in A. now injection A. Qed.

(* every line of the edge section is well-formed text (no KeyError, no
   unknown field) *)
Lemma mer_edge_text_defined u a s e : In e (mer_edges u a s) -> mer_edge_text e <> None.
Proof.
  intros He. pose proof (mer_edges_decode u a s) as D.
  assert (H : In (mer_decode (mer_map u a s) e) (map (mer_decode (mer_map u a s)) (mer_edges u a s))) by now apply in_map.
  rewrite D in H. apply in_map_iff in H. destruct H as [[[x y] l] [E _]]. cbn [fst snd] in E.
  destruct e as [[[i|] [j|]] l']; cbn [mer_decode obind] in E; try discriminate.
  destruct l' as [k|]; [rewrite mer_edge_text_typed|rewrite mer_edge_text_plain]; discriminate.
Qed.

(* ---------------------------------------------------- the whole chart *)
Lemma oseq_length {X} : forall (l : list (option X)) l', oseq l = Some l' -> map Some l' = l.
Proof.
  induction l as [|[x|] l IH]; intros l' H; cbn [oseq] in H.
  - injection H as <-. reflexivity.
  - destruct (oseq l) as [r|] eqn:E; [|discriminate]. cbn in H. injection H as <-. cbn [map]. f_equal. now apply IH.
  - discriminate.
Qed.

Lemma oseq_defined {X} : forall (l : list (option X)), (forall x, In x l -> x <> None) -> exists l', oseq l = Some l'.
Proof.
  induction l as [|[x|] l IH]; intros H.
  - now exists [].
  - destruct IH as [r E]; [intros y Hy; apply H; now right|]. exists (x :: r). cbn [oseq]. now rewrite E.
  - exfalso. apply (H None); [now left|reflexivity].
Qed.

Lemma mer_node_line_default d : mer_node_line None d = mer_node_text d.
Proof. destruct d as [[i nm] [|]]; reflexivity. Qed.

Lemma edge_format_plain i j k fn tn :
  format_with MERMAID_DEFAULT_EDGE_TEMPLATE (edge_env i j k fn tn) = Some (dec i ++ S_arrow ++ dec j).
Proof. unfold format_with. rewrite edge_template_tokens. cbn. now rewrite app_nil_r. Qed.

Lemma edge_format_typed i j k fn tn :
  format_with MERMAID_DEFAULT_EDGE_TEMPLATE_TYPED (edge_env i j (Some k) fn tn)
  = Some (dec i ++ S_tarrow1 ++ k ++ S_tarrow2 ++ dec j).
Proof. unfold format_with. rewrite typed_edge_template_tokens. cbn. now rewrite app_nil_r. Qed.

Lemma mer_edge_line_default u m pn : mer_edge_line None u m pn = mer_edge_text (mer_edge u m pn).
Proof.
  unfold mer_edge_line, mer_edge, mer_edge_text.
  destruct (klookup (key u (fst pn)) m) as [i|]; [|reflexivity].
  destruct (klookup (key u (snd pn)) m) as [j|]; [|reflexivity].
  destruct (mer_label (rkind (snd pn))) as [k|].
  - now rewrite !edge_format_typed.
  - now rewrite !edge_format_plain.
Qed.

Lemma mer_node_text_defined d : mer_node_text d <> None.
Proof. destruct d as [[i nm] [|]]; [discriminate|]. rewrite mer_node_text_plain. discriminate. Qed.

Lemma mer_edge_lines_default o s : mo_edge_templ o = None ->
  mer_edge_lines o s = map mer_edge_text (mer_edges (mo_unique o) (mo_add_root o) s).
Proof.
  intros E. unfold mer_edge_lines, mer_edges. rewrite E, map_flat_map'. apply flat_map_ext_in. intros pn _.
  destruct (negb (mo_add_root o) && same_node (fst pn) s); [reflexivity|]. cbn [map]. now rewrite mer_edge_line_default.
Qed.

Lemma length_flat_map_ext {X Y Z} (g : X -> list Y) (h : X -> list Z) (l : list X) :
  (forall x, length (g x) = length (h x)) -> length (flat_map g l) = length (flat_map h l).
Proof. intros H. induction l as [|x l IH]; cbn; [reflexivity|]. now rewrite !app_length, H, IH. Qed.

Definition mer_tail (o : mopts) : list text := if mo_markdown o then [L_md_close] else [].

(* default mappers: the export never raises, and the chart is the header for
   the options, one line per node definition, the edge heading, one line per
   edge and the closing fence *)
Lemma mer_chart_default o s : mo_node_templ o = None -> mo_edge_templ o = None ->
  exists N E,
    mer_chart o s = Some (mer_head o s ++ N ++ [[]; L_edges] ++ E ++ mer_tail o) /\
    map Some N = map mer_node_text (mer_nodes (mo_unique o) (mo_add_root o) s) /\
    map Some E = map mer_edge_text (mer_edges (mo_unique o) (mo_add_root o) s).
Proof.
  intros En Ee. unfold mer_chart. rewrite (mer_edge_lines_default o s Ee).
  unfold mer_node_lines. rewrite En.
  rewrite (map_ext _ _ mer_node_line_default).
  destruct (oseq_defined (map mer_node_text (mer_nodes (mo_unique o) (mo_add_root o) s))) as [N HN].
  { intros x Hx. apply in_map_iff in Hx. destruct Hx as [d [<- _]]. apply mer_node_text_defined. }
  destruct (oseq_defined (map mer_edge_text (mer_edges (mo_unique o) (mo_add_root o) s))) as [E HE].
  { intros x Hx. apply in_map_iff in Hx. destruct Hx as [e [<- He]]. now apply mer_edge_text_defined in He. }
  exists N, E. rewrite HN, HE. split; [reflexivity|]. split; now apply oseq_length.
Qed.

(* any templates: when the export does not raise, the chart has exactly one
   node line per distinct key and one edge line per exported edge *)
Lemma mer_chart_shape o s ls : mer_chart o s = Some ls ->
  exists N E,
    ls = mer_head o s ++ N ++ [[]; L_edges] ++ E ++ mer_tail o /\
    length N = length (first_occ (map (key (mo_unique o)) (export (mo_add_root o) s))) /\
    length E = length (dot_edges (mo_unique o) (mo_add_root o) s).
Proof.
  unfold mer_chart. intros H.
  destruct (oseq (mer_node_lines o s)) as [N|] eqn:HN; [|discriminate].
  destruct (oseq (mer_edge_lines o s)) as [E|] eqn:HE; [|discriminate].
  injection H as <-. exists N, E. split; [reflexivity|].
  apply oseq_length in HN, HE. split.
  - assert (LN : length N = length (mer_node_lines o s)) by (rewrite <- HN; now rewrite map_length).
    transitivity (length (mer_node_lines o s)); [exact LN|]. unfold mer_node_lines.
    rewrite map_length. rewrite <- (map_length (fun d : mnode => fst (fst d))), mer_nodes_indices. apply seq_length.
  - assert (LE : length E = length (mer_edge_lines o s)) by (rewrite <- HE; now rewrite map_length).
    transitivity (length (mer_edge_lines o s)); [exact LE|].
    unfold mer_edge_lines, dot_edges. apply length_flat_map_ext.
    intros pn. destruct (negb (mo_add_root o) && same_node (fst pn) s); reflexivity.
Qed.

(* edge counts *)
Lemma dot_edges_counts u s : NoDup (ids_t s) ->
  length (dot_edges u true s) = length (pre_f (rch s)) /\
  length (dot_edges u true s) = length (rch s) + length (dot_edges u false s).
Proof.
  intros H. split.
  - rewrite dot_edges_with, map_length. apply desc_p_length.
  - rewrite (Permutation_length (dot_edges_exclusion_perm u s H)), app_length, map_length. reflexivity.
Qed.

(* ------------------------------------------- DOT text: dicts and keys *)
Fixpoint aget (k : text) (d : attrs) : option text :=
  match d with
  | [] => None
  | (k', v) :: r => if text_eqb k k' then Some v else aget k r
  end.

(* [dset] is the Python dict assignment: the key gets the value, other keys
   keep theirs, the insertion order is kept and a new key goes last *)
Lemma dset_get_same k v d : aget k (dset k v d) = Some v.
Proof.
  induction d as [|[k' v'] d IH]; cbn [dset aget].
  - now rewrite text_eqb_refl.
  - destruct (text_eqb k k') eqn:E; cbn [aget]; [now rewrite text_eqb_refl|]. now rewrite E.
Qed.

Lemma dset_get_other k v d k2 : k2 <> k -> aget k2 (dset k v d) = aget k2 d.
Proof.
  intros N. assert (E2 : text_eqb k2 k = false).
  { destruct (text_eqb k2 k) eqn:E; [apply text_eqb_eq in E; contradiction|reflexivity]. }
  induction d as [|[k' v'] d IH]; cbn [dset aget].
  - now rewrite E2.
  - destruct (text_eqb k k') eqn:E; cbn [aget].
    + apply text_eqb_eq in E. subst k'. now rewrite E2.
    + now rewrite IH.
Qed.

Lemma dset_keys k v d :
  map fst (dset k v d) = if existsb (text_eqb k) (map fst d) then map fst d else map fst d ++ [k].
Proof.
  induction d as [|[k' v'] d IH]; cbn [dset map fst existsb app]; [reflexivity|].
  destruct (text_eqb k k') eqn:E; cbn [orb map fst].
  - apply text_eqb_eq in E. now subst.
  - rewrite IH. now destruct (existsb (text_eqb k) (map fst d)).
Qed.

(* str(int) can be read back: two int data_ids never print alike *)
Definition text_int (t : text) : option Decimal.int :=
  match t with
  | c :: r => if Z.eqb c 45 then option_map Decimal.Neg (text_uint r) else option_map Decimal.Pos (text_uint t)
  | [] => option_map Decimal.Pos (text_uint t)
  end.

Lemma text_int_pos u : text_int (uint_text u) = Some (Decimal.Pos u).
Proof.
  pose proof (text_uint_text u) as H.
  destruct u; cbn [uint_text] in *; unfold text_int; [reflexivity|..];
    (cbn [Z.eqb Pos.eqb]; rewrite H; reflexivity).
Qed.

Lemma text_int_text i : text_int (int_text i) = Some i.
Proof.
  destruct i as [u|u]; cbn [int_text]; [apply text_int_pos|].
  unfold text_int. cbn [Z.eqb Pos.eqb]. now rewrite text_uint_text.
Qed.

Lemma key_text_int_inj a b : key_text (KD (DInt a)) = key_text (KD (DInt b)) -> a = b.
Proof.
  cbn [key_text]. intros E.
  pose proof (text_int_text (Z.to_int a)) as A. rewrite E, text_int_text in A. injection A as A.
  rewrite <- (DecimalZ.of_to a), <- (DecimalZ.of_to b). now rewrite A.
Qed.

(* ------------------------------ conjunctions stated in Properties/C17.v *)
Lemma all_first_occ_set : forall l, NoDup (first_occ l) /\ (forall k, In k (first_occ l) <-> In k l).
Proof. intros l. split; [apply first_occ_NoDup|intros k; apply first_occ_In]. Qed.

Lemma all_dot_exclusion_edges : forall u s, NoDup (ids_t s) ->
  dot_edges u true s = flat_map (fun c => dot_edge u (s, c) :: dot_edges u true c) (rch s) /\
  dot_edges u false s = flat_map (fun c => dot_edges u true c) (rch s) /\
  Permutation (dot_edges u true s) (map (fun c => dot_edge u (s, c)) (rch s) ++ dot_edges u false s).
Proof.
  intros u s H. exact (conj (dot_edges_with_children u s)
                            (conj (dot_edges_without_children u s H) (dot_edges_exclusion_perm u s H))).
Qed.

Lemma all_mermaid_table : forall u a s,
  map fst (mer_map u a s) = first_occ (map (key u) (export a s)) /\
  map snd (mer_map u a s) = seq (if a then 0 else 1) (length (first_occ (map (key u) (export a s)))).
Proof. intros u a s. exact (conj (mer_map_keys u a s) (mer_map_indices u a s)). Qed.

Lemma all_mermaid_node_lines : forall u a s,
  map (fun d : mnode => fst (fst d)) (mer_nodes u a s) = map snd (mer_map u a s) /\
  (forall i nm r, In (i, nm, r) (mer_nodes u a s) ->
     exists n, In (key u n, i) (mer_map u a s) /\ find (has_key u (key u n)) (export a s) = Some n /\
               nm = rname n /\ r = Nat.eqb i 0).
Proof.
  intros u a s. split.
  - rewrite mer_nodes_indices, mer_map_indices. reflexivity.
  - exact (mer_nodes_lines u a s).
Qed.

Lemma all_mermaid_templates :
  tokenize MERMAID_DEFAULT_EDGE_TEMPLATE = Some [TField F_from_id; TLit S_arrow; TField F_to_id] /\
  tokenize MERMAID_DEFAULT_EDGE_TEMPLATE_TYPED
    = Some [TField F_from_id; TLit S_tarrow1; TField F_kind; TLit S_tarrow2; TField F_to_id] /\
  tokenize MERMAID_DEFAULT_NODE_TEMPLATE = Some [TField F_node_name].
Proof. exact (conj edge_template_tokens (conj typed_edge_template_tokens node_template_tokens)). Qed.

Lemma all_mermaid_line_text : forall i j k nm,
  mer_edge_text (Some i, Some j, None) = Some (dec i ++ S_arrow ++ dec j) /\
  mer_edge_text (Some i, Some j, Some k) = Some (dec i ++ S_tarrow1 ++ k ++ S_tarrow2 ++ dec j) /\
  mer_node_text (i, nm, false) = Some (dec i ++ [40; 34]%Z ++ nm ++ [34; 41]%Z) /\
  undec (dec i) = Some i.
Proof.
  intros i j k nm.
  exact (conj (mer_edge_text_plain i j) (conj (mer_edge_text_typed i j k) (conj (mer_node_text_plain i nm) (undec_dec i)))).
Qed.

Lemma all_rdf_attributes_of_node : forall fx sk a s g,
  (forall nm, In (TName g nm) (rdf_of_node fx sk a s) <->
              exists n, In n (export a s) /\ sk n = false /\ g = RLit (rdid n) /\ nm = rname n) /\
  (forall k, In (TKind g k) (rdf_of_node fx sk a s) <->
             exists n, In n (export a s) /\ sk n = false /\ g = RLit (rdid n) /\ rkind n = Some k) /\
  (forall i, In (TIndex g i) (rdf_of_node fx sk a s) <->
             exists p c, In p (pre s) /\ nth_error (rch p) i = Some c /\ sk c = false /\ g = RLit (rdid c)).
Proof.
  intros fx sk a s g. split; [|split].
  - intros nm. apply rdf_of_node_name.
  - intros k. apply rdf_of_node_kind.
  - intros i. apply rdf_of_node_index.
Qed.

Lemma all_rdf_attributes_of_tree : forall fx tn root g,
  (forall nm, In (TName g nm) (rdf_of_tree fx tn root) <->
              (g = RSys /\ nm = tn) \/ exists n, In n (pre_f (rch root)) /\ g = RLit (rdid n) /\ nm = rname n) /\
  (forall k, In (TKind g k) (rdf_of_tree fx tn root) <->
             exists n, In n (pre_f (rch root)) /\ g = RLit (rdid n) /\ rkind n = Some k) /\
  (forall i, In (TIndex g i) (rdf_of_tree fx tn root) <->
             exists p c, In p (pre root) /\ nth_error (rch p) i = Some c /\ g = RLit (rdid c)).
Proof.
  intros fx tn root g. split; [|split].
  - intros nm. apply rdf_of_tree_name.
  - intros k. apply rdf_of_tree_kind.
  - intros i. apply rdf_of_tree_index.
Qed.

Lemma all_dot_mapper_sets_one_attribute : forall k v d,
  aget k (dset k v d) = Some v /\
  (forall k2, k2 <> k -> aget k2 (dset k v d) = aget k2 d) /\
  map fst (dset k v d) = (if existsb (text_eqb k) (map fst d) then map fst d else map fst d ++ [k]).
Proof.
  intros k v d. exact (conj (dset_get_same k v d) (conj (fun k2 => dset_get_other k v d k2) (dset_keys k v d))).
Qed.

(* ------------- the edges agree with the parent query of Nav.v (C10) *)
From NT Require Nav NavProofs.

Lemma edges_agree_with_parent_query root p c : NoDup (ids_t root) -> In (p, c) (desc_p root) ->
  exists cx, Nav.locate_f (rid c) (rch root) = Some cx /\ Nav.c_self cx = c /\
             Nav.q_parent cx = if same_node p root then None else Some p.
Proof.
  intros H Hpc.
  pose proof (NoDup_ids_t_children root H) as Hf.
  pose proof (desc_p_child_below root p c Hpc) as Hc.
  destruct (NavProofs.locate_f_self (rch root) c Hf Hc) as [cx [Hl [Hs Hok]]].
  exists cx. split; [exact Hl|]. split; [exact Hs|].
  pose proof (NavProofs.parent_child (rch root) cx Hok) as PC.
  destruct Hok as [Hchain Hin].
  unfold Nav.q_parent in *. destruct (hd_error (Nav.c_anc cx)) as [p'|] eqn:Hd.
  - destruct PC as [Hcp _]. rewrite Hs in Hcp.
    assert (Hp' : In p' (pre_f (rch root))).
    { apply (NavProofs.chain_anc_in_pre (rch root) _ _ Hchain). destruct (Nav.c_anc cx); [discriminate|]. injection Hd as ->. now left. }
    assert (E : p' = p).
    { apply (desc_p_parent_unique root p' p c H); [|exact Hpc]. apply desc_p_in. split; [|exact Hcp].
      rewrite pre_unfold. now right. }
    subst p'. assert (N : same_node p root = false).
    { unfold same_node. apply Nat.eqb_neq. now apply below_not_self. }
    now rewrite N.
  - destruct PC as [Hcf _]. rewrite Hs in Hcf.
    assert (E : root = p).
    { apply (desc_p_parent_unique root root p c H); [|exact Hpc]. apply desc_p_in. split; [apply pre_in_self|exact Hcf]. }
    subst p. unfold same_node. now rewrite Nat.eqb_refl.
Qed.

(* --------- the literal lines of the two generators, lifted from the source *)
(* [MERMAID_YIELDS] / [DOT_YIELDS] (generated): every [yield] of
   _node_to_mermaid_flowchart_iter / node_to_dot in source order, literals
   verbatim, each {placeholder} as code point 0, other expressions as [1].
   The obligations say that the model's constants ARE these literals, in this
   order. *)
Definition HOLE : text := [0%Z].

Lemma mermaid_source_lines :
  MERMAID_YIELDS =
  [ L_md_open; L_dashes; L_title ++ HOLE; L_dashes; []; L_generator; []; L_flowchart ++ HOLE;
    []; L_headers; []; L_nodes;
    [48; 123; 123; 34]%Z ++ HOLE ++ [34; 125; 125]%Z;
    HOLE ++ [40; 34]%Z ++ HOLE ++ [34; 41]%Z;
    []; L_edges; [1%Z]; L_md_close ].
Proof. vm_compute. reflexivity. Qed.

Lemma dot_source_lines :
  DOT_INDENT = D_indent /\
  DOT_YIELDS =
  [ D_generator; D_digraph ++ HOLE ++ D_open; [];
    HOLE ++ skipn 2 D_defaults; HOLE ++ skipn 2 D_graph ++ HOLE; HOLE ++ skipn 2 D_node ++ HOLE;
    HOLE ++ skipn 2 D_edge ++ HOLE; [];
    HOLE ++ skipn 2 D_nodes; HOLE ++ HOLE ++ HOLE; HOLE ++ HOLE ++ HOLE; [];
    HOLE ++ skipn 2 D_edges; HOLE ++ HOLE ++ D_arrow ++ HOLE ++ HOLE; [125%Z] ].
Proof. vm_compute. split; reflexivity. Qed.

(* ------------------------------------------------ the empty tree *)
(* whatever history led to it (clear(), remove_children() on the root, a filter
   that keeps nothing): an empty tree exports its root alone *)
Lemma empty_tree_exports id i fx tn u a isroot :
  rdf_of_tree fx tn (T id i []) = [TName RSys tn] /\
  dot_edges u a (T id i []) = [] /\
  mer_edges u a (T id i []) = [] /\
  map dkey (dot_nodes true u a isroot tn (T id i [])) = (if a then [key u (T id i [])] else []) /\
  map (fun d : mnode => fst (fst d)) (mer_nodes u a (T id i [])) = (if a then [0] else []).
Proof. destruct u, a; repeat split; reflexivity. Qed.
