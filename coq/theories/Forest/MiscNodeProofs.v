(* Theorems about the node / tree miscellany (model: MiscNode.v). *)
From Coq Require Import List ZArith Bool Arith Lia Permutation.
From NT Require Import Sx Rose Nav FsRepr FsReprDecode MiscMapper MiscRepr MiscNode.
Import ListNotations.
Local Open Scope nat_scope.

(* ---- the system root ---------------------------------------------------------------------------------------------- *)
Lemma is_system_root_iff e : is_system_root e = true <-> e = ERoot.
Proof. destruct e; cbn; split; intros H; try reflexivity; discriminate. Qed.

Lemma is_system_root_node c : is_system_root (ENode c) = false.
Proof. reflexivity. Qed.

Lemma is_system_root_root : is_system_root system_root = true.
Proof. reflexivity. Qed.

(* a top-level node hangs directly below the root object; any other node below its parent node *)
Lemma top_parent_is_root c : q_is_top c = true -> raw_parent (ENode c) = Some 0.
Proof. unfold q_is_top, raw_parent, q_parent. destruct (c_anc c); [reflexivity|discriminate]. Qed.

Lemma inner_parent_is_node c : q_is_top c = false -> exists p, q_parent c = Some p /\ raw_parent (ENode c) = Some (rid p).
Proof. unfold q_is_top, raw_parent, q_parent. destruct (c_anc c) as [|p r]; [discriminate|]. intros _. exists p. split; reflexivity. Qed.

Lemma root_children f :
  ent_children f system_root = tr_children f /\ tree_first_child f = tr_first_child f /\ tree_last_child f = tr_last_child f.
Proof. repeat split. Qed.

Lemma node_children c f : ent_children f (ENode c) = q_children c /\ node_get_children c = q_children c.
Proof. split; reflexivity. Qed.

Lemma node_path_default c : node_path c = q_path c true.
Proof. reflexivity. Qed.

(* ---- Node.__eq__ ------------------------------------------------------------------------------------------------------ *)
Lemma node_eq_equivalence :
  (forall a, node_eq a a = true) /\ (forall a b, node_eq a b = node_eq b a) /\
  (forall a b c, node_eq a b = true -> node_eq b c = true -> node_eq a c = true).
Proof.
  unfold node_eq. repeat split.
  - intros a. apply Z.eqb_refl.
  - intros a b. apply Z.eqb_sym.
  - intros a b c H1 H2. apply Z.eqb_eq in H1, H2. apply Z.eqb_eq. congruence.
Qed.

(* == is about the data alone: nodes with equal data are equal whatever their identity, kind, data_id, meta, children *)
Lemma node_eq_data_only id1 id2 i1 i2 ch1 ch2 : i_eqc i1 = i_eqc i2 -> node_eq (T id1 i1 ch1) (T id2 i2 ch2) = true.
Proof. intros E. unfold node_eq; cbn. rewrite E. apply Z.eqb_refl. Qed.

Lemma node_eq_own_data a : node_eq_obj a (i_eqc (rinfo a)) = true.
Proof. apply Z.eqb_refl. Qed.

Lemma node_hash_always_raises : forall (X : Type) (n : X), node_hash n = inl E_TYPE.
Proof. reflexivity. Qed.

(* ---- Tree.__eq__ ---------------------------------------------------------------------------------------------------- *)
Lemma tree_eq_always_raises : forall (X : Type) (other : X), tree_eq other = inl E_NOTIMPL.
Proof. reflexivity. Qed.

(* ---- counting --------------------------------------------------------------------------------------------------------- *)
(* the registry holds exactly the nodes of the forest (clause of the C01 invariant) *)
Definition reg_ok (f : forest) (reg : list nat) : Prop := Permutation reg (ids f).

Lemma pre_f_nil f : pre_f f = [] <-> f = [].
Proof. destruct f as [|[id i ch] r]; cbn; split; intros H; try reflexivity; discriminate. Qed.

Lemma count_consistent f reg : reg_ok f reg ->
  tree_len reg = tree_count reg /\ tree_count reg = tr_count f /\ (tree_bool reg = true <-> f <> []).
Proof.
  intros P. unfold tree_len, tree_count, tr_count, tree_bool.
  assert (E : length reg = length (pre_f f)).
  { rewrite (Permutation_length P). unfold ids. apply map_length. }
  refine (conj eq_refl (conj E _)). unfold tree_len, tree_count. rewrite E.
  clear E P. destruct f as [|[id i ch] r]; cbn.
  - split; [discriminate|intros H; exfalso; apply H; reflexivity].
  - split; [|reflexivity]. intros _. discriminate.
Qed.

(* ---- get_random_node --------------------------------------------------------------------------------------------------- *)
Lemma mod_index (d : Z) (n : nat) : n <> 0 -> Z.to_nat (d mod Z.of_nat n) < n.
Proof. intros N. pose proof (Z.mod_pos_bound d (Z.of_nat n)). lia. Qed.

Lemma grn_position reg d : reg <> [] ->
  get_random_node reg d = inr (nth (Z.to_nat (d mod Z.of_nat (length reg))) reg 0).
Proof.
  intros N. unfold get_random_node, choice. destruct reg as [|x r]; [congruence|].
  set (l := x :: r) in *. set (k := Z.to_nat (d mod Z.of_nat (length l))).
  assert (K : k < length l) by (apply mod_index; subst l; cbn; lia).
  destruct (nth_error l k) eqn:E.
  - f_equal. symmetry. apply nth_error_nth with (d := 0) in E. exact E.
  - apply nth_error_None in E. lia.
Qed.

Lemma grn_empty reg d : get_random_node reg d = inl E_INDEX <-> reg = [].
Proof.
  split; [|intros ->; reflexivity].
  destruct reg as [|x r]; [reflexivity|]. rewrite grn_position by discriminate. discriminate.
Qed.

Lemma grn_in_registry reg d n : get_random_node reg d = inr n -> In n reg.
Proof.
  destruct reg as [|x r]; [discriminate|]. assert (N : x :: r <> []) by discriminate. assert (M : length (x :: r) <> 0) by (cbn; lia).
  revert N M. generalize (x :: r). intros l N M. rewrite grn_position by exact N. intros E. injection E as E. subst n.
  apply nth_In. apply mod_index, M.
Qed.

(* the result is a node of the tree *)
Lemma grn_member f reg d n : reg_ok f reg -> get_random_node reg d = inr n -> In n (ids f).
Proof. intros P E. apply (Permutation_in _ P). eapply grn_in_registry, E. Qed.

(* the draws 0 .. count-1 deliver the registry in its order: every node comes, and exactly as often as it is registered *)
Lemma grn_enumerates reg :
  map (fun k => get_random_node reg (Z.of_nat k)) (seq 0 (length reg)) = map inr reg.
Proof.
  destruct reg as [|x r]; [reflexivity|]. set (l := x :: r).
  apply nth_ext with (d := inl 0%Z) (d' := inl 0%Z); [rewrite !map_length, seq_length; reflexivity|].
  intros k Hk. rewrite map_length, seq_length in Hk.
  rewrite (nth_indep _ _ (get_random_node l (Z.of_nat 0)) ) by (rewrite map_length, seq_length; exact Hk).
  rewrite (map_nth (fun k => get_random_node l (Z.of_nat k))). rewrite seq_nth by exact Hk. cbn [plus].
  rewrite grn_position by discriminate.
  rewrite Z.mod_small by lia. rewrite Nat2Z.id.
  rewrite (nth_indep _ (inl 0%Z) (inr 0)) by (rewrite map_length; exact Hk).
  rewrite (map_nth (@inr Z nat)). reflexivity.
Qed.

(* every node can be drawn *)
Lemma grn_surjective f reg n : reg_ok f reg -> In n (ids f) ->
  exists d, (0 <= d < Z.of_nat (tree_count reg))%Z /\ get_random_node reg d = inr n.
Proof.
  intros P Hn. apply (Permutation_in _ (Permutation_sym P)) in Hn.
  apply In_nth with (d := 0) in Hn as (k & Hk & E).
  exists (Z.of_nat k). split; [unfold tree_count; lia|].
  rewrite grn_position by (intros ->; cbn in Hk; lia).
  rewrite Z.mod_small by lia. rewrite Nat2Z.id, E. reflexivity.
Qed.

(* only the draw modulo the count matters *)
Lemma grn_periodic reg d k : get_random_node reg (d + k * Z.of_nat (length reg)) = get_random_node reg d.
Proof.
  destruct reg as [|x r]; [reflexivity|]. rewrite !grn_position by discriminate.
  rewrite Z.mod_add by (cbn [length]; lia). reflexivity.
Qed.

(* an empty tree: IndexError, and that is the only way to fail *)
Lemma grn_fails_iff_empty f reg d : reg_ok f reg -> (get_random_node reg d = inl E_INDEX <-> f = []).
Proof.
  intros P. rewrite grn_empty. split.
  - intros ->. apply Permutation_nil in P. unfold ids in P. apply map_eq_nil in P. apply pre_f_nil, P.
  - intros ->. apply Permutation_sym, Permutation_nil in P. exact P.
Qed.

(* ---- __repr__ ------------------------------------------------------------------------------------------------------------ *)
Lemma node_repr_fields cls t : node_repr cls t = repr_of cls (i_name (rinfo t)) (rdid t) (rkind t).
Proof. reflexivity. Qed.

(* a plain node QUOTES its name and prints the data_id bare; a typed node prints kind and name bare and QUOTES a str data_id *)
Lemma repr_plain cls name d :
  repr_of cls name d None = cls ++ [60%Z] ++ repr_text name ++ t_data_id_eq ++ did_str d ++ [62%Z].
Proof. reflexivity. Qed.

Lemma repr_typed cls name d k :
  repr_of cls name d (Some k) = cls ++ t_kind_eq ++ k ++ t_sep ++ name ++ t_data_id_eq ++ did_repr d ++ [62%Z].
Proof. reflexivity. Qed.

Lemma int_ids_print_alike z : did_str (DInt z) = did_repr (DInt z).
Proof. reflexivity. Qed.

(* with class and data_id fixed, the text determines the name (any code points) *)
Lemma repr_plain_name_injective cls a b d :
  Forall cp_ok a -> Forall cp_ok b -> repr_of cls a d None = repr_of cls b d None -> a = b.
Proof.
  intros Ha Hb E. rewrite !repr_plain in E.
  apply app_inv_head in E. apply app_inv_head in E.
  rewrite !app_assoc in E. apply app_inv_tail in E. apply app_inv_tail in E. apply app_inv_tail in E.
  exact (repr_str_injective no_print a b Ha Hb E).
Qed.

Lemma repr_typed_name_injective cls a b d k : repr_of cls a d (Some k) = repr_of cls b d (Some k) -> a = b.
Proof.
  intros E. rewrite !repr_typed in E.
  do 4 apply app_inv_head in E.
  rewrite !app_assoc in E. do 3 apply app_inv_tail in E. exact E.
Qed.

Lemma tree_repr_name_injective cls a b : Forall cp_ok a -> Forall cp_ok b -> tree_repr cls a = tree_repr cls b -> a = b.
Proof.
  intros Ha Hb E. unfold tree_repr in E. do 2 apply app_inv_head in E. apply app_inv_tail in E.
  exact (repr_str_injective no_print a b Ha Hb E).
Qed.

(* a name made of letters, digits, blanks and the usual punctuation – no quote, no backslash – is printed between two apostrophes as it is *)
Definition plain_char (c : Z) : bool := (32 <=? c)%Z && (c <? 127)%Z && negb (c =? 39)%Z && negb (c =? 92)%Z.

Lemma repr_text_plain s : forallb plain_char s = true -> repr_text s = [39%Z] ++ s ++ [39%Z].
Proof.
  intros H. unfold repr_text, repr_str.
  assert (Q : repr_quote s = 39%Z).
  { unfold repr_quote. replace (existsb (Z.eqb 39) s) with false; [reflexivity|].
    symmetry. induction s as [|c r IH]; [reflexivity|]. cbn [existsb forallb] in *. apply andb_true_iff in H as [Hc Hr].
    rewrite (IH Hr), orb_false_r. unfold plain_char in Hc. rewrite !andb_true_iff, !negb_true_iff in Hc.
    destruct Hc as [[_ N] _]. rewrite Z.eqb_sym. exact N. }
  rewrite Q. clear Q. f_equal. f_equal.
  induction s as [|c r IH]; [reflexivity|]. cbn [flat_map forallb] in *. apply andb_true_iff in H as [Hc Hr].
  rewrite (IH Hr). unfold plain_char in Hc. rewrite !andb_true_iff, !negb_true_iff, Z.leb_le, Z.ltb_lt in Hc.
  destruct Hc as [[[L1 L2] N1] N2]. unfold repr_char. rewrite N1, N2. cbn [orb].
  replace (c =? 9)%Z with false by (symmetry; apply Z.eqb_neq; lia).
  replace (c =? 10)%Z with false by (symmetry; apply Z.eqb_neq; lia).
  replace (c =? 13)%Z with false by (symmetry; apply Z.eqb_neq; lia).
  replace (c <? 32)%Z with false by (symmetry; apply Z.ltb_ge; lia).
  replace (c =? 127)%Z with false by (symmetry; apply Z.eqb_neq; lia).
  cbn [orb]. replace (c <? 127)%Z with true by (symmetry; apply Z.ltb_lt; lia). reflexivity.
Qed.

(* ---- non-vacuity ------------------------------------------------------------------------------------------------------------ *)
Definition ex_i (name : text) (d : did) (k : kind) : info := I 0 0 0 true name d k [].
Definition ex_forest : forest :=
  [T 1 (ex_i [97] (DInt (-7)) None) [T 2 (ex_i [105; 116; 39; 115] (DStr [105; 100]) None) []]; T 3 (ex_i [98] (DInt 5) None) []]%Z.

Example ex_random_nodes :
  map (get_random_node [3; 1; 2]) [0; 1; 2; 3; -1; 1000003]%Z = [inr 3; inr 1; inr 2; inr 3; inr 2; inr 1] /\
  get_random_node [] 0%Z = inl E_INDEX /\ reg_ok ex_forest [3; 1; 2].
Proof.
  repeat split. unfold reg_ok; cbn.
  change [1; 2; 3] with ([1; 2] ++ 3 :: []). apply Permutation_cons_app. cbn. apply Permutation_refl.
Qed.

Example ex_reprs :
  map (node_repr [78; 111; 100; 101]%Z) (pre_f ex_forest) =
  [ [78; 111; 100; 101; 60; 39; 97; 39; 44; 32; 100; 97; 116; 97; 95; 105; 100; 61; 45; 55; 62];                (* Node<'a', data_id=-7> *)
    [78; 111; 100; 101; 60; 34; 105; 116; 39; 115; 34; 44; 32; 100; 97; 116; 97; 95; 105; 100; 61; 105; 100; 62];   (* Node<"it's", data_id=id> *)
    [78; 111; 100; 101; 60; 39; 98; 39; 44; 32; 100; 97; 116; 97; 95; 105; 100; 61; 53; 62] ]%Z /\
  repr_of [84]%Z [110]%Z (DStr [105; 100]%Z) (Some [107]%Z) =
    [84; 60; 107; 105; 110; 100; 61; 107; 44; 32; 110; 44; 32; 100; 97; 116; 97; 95; 105; 100; 61; 39; 105; 100; 39; 62]%Z.   (* T<kind=k, n, data_id='id'> *)
Proof. vm_compute. split; reflexivity. Qed.
