(* C08 — the tie to the source text of the two scans.
   harness/gen_facts.py lifts the loop skeleton of Node.filter._visit and
   Node._add_filtered._visit (tests on [res] in source order, the statements of
   each arm, the statements around the chain) into gen/Generated.v.  Here the
   skeleton is *interpreted*: first matching test, the arm's statements decoded
   to the verdict whose behaviour the model (Filter.v: ip_node / af_node)
   implements.  The obligations say that this agrees with [classify_ip] /
   [classify_cp] for every canonical predicate result, and that the statements
   around the chain are the ones the model mirrors.  A change of the source that
   re-orders tests harmlessly still passes; one that changes what an answer
   does breaks the obligation (in addition to the correspondence check). *)
From Coq Require Import List ZArith Bool.
From NT Require Import Sx Rose Filter.
From NTGen Require Import Generated.
Import ListNotations.

Definition test_matches (t : ftest) (r : pres) : bool :=
  match t, r with
  | FtNoneFalse, PNone => true                       (* res in (None, False) *)
  | FtNoneFalse, PBool false => true
  | FtIsTrue, PBool true => true                     (* res is True *)
  | FtSelect, PCtl CSelect => true                   (* isinstance(res, SelectBranch) *)
  | FtSkip, PCtl (CSkip _) => true                   (* isinstance(res, SkipBranch), not split *)
  | FtSkipKeepSelf, PCtl (CSkip (Some false)) => true   (* ... and res.and_self is False *)
  | FtSkipOther, PCtl (CSkip None) => true              (* ... else *)
  | FtSkipOther, PCtl (CSkip (Some true)) => true
  | FtStop, PCtl CStop => true                       (* isinstance(res, StopTraversal) *)
  | _, _ => false
  end.

Fixpoint first_arm (chain : list (ftest * list fact)) (r : pres) : option (list fact) :=
  match chain with
  | [] => None
  | (t, a) :: rest => if test_matches t r then Some a else first_arm rest r
  end.

Definition fact_eqb (a b : fact) : bool :=
  match a, b with
  | FaVisit, FaVisit | FaKeep, FaKeep | FaRemove, FaRemove | FaRemoveChildren, FaRemoveChildren
  | FaStop, FaStop | FaRaise, FaRaise | FaParents, FaParents | FaAddChild, FaAddChild | FaAddFrom, FaAddFrom
  | FaCallPredicate, FaCallPredicate | FaPush, FaPush | FaPop, FaPop | FaReturnMustKeep, FaReturnMustKeep
  | FaReturn, FaReturn | FaInitRemove, FaInitRemove | FaInitKeep, FaInitKeep | FaNonlocal, FaNonlocal
  | FaVisitKeepOrRemove, FaVisitKeepOrRemove | FaGuardStopped, FaGuardStopped | FaRemoveCollected, FaRemoveCollected => true
  | _, _ => false     (* FaOther equals nothing, not even itself *)
  end.

Fixpoint facts_eqb (a b : list fact) : bool :=
  match a, b with
  | [], [] => true
  | x :: a', y :: b' => fact_eqb x y && facts_eqb a' b'
  | _, _ => false
  end.

(* what the statements of an arm do, as the verdict the model implements *)
Definition decode (table : list (list fact * verdict)) (a : list fact) : option verdict :=
  match find (fun p => facts_eqb (fst p) a) table with Some p => Some (snd p) | None => None end.

(* Node.filter._visit (ip_node): *)
Definition ip_table : list (list fact * verdict) :=
  [ ([FaVisitKeepOrRemove], VFalse);            (* if _visit(n): must_keep = True else: remove_nodes.append(n) *)
    ([FaVisit; FaKeep], VTrue);                 (* _visit(n); must_keep = True *)
    ([FaKeep], VSelect);                        (* must_keep = True *)
    ([FaRemoveChildren; FaKeep], VSkipKeepSelf);(* n.remove_children(); must_keep = True      (D05 repaired) *)
    ([FaRemove], VSkip);                        (* remove_nodes.append(n) *)
    ([FaStop; FaRemove], VStop) ].              (* stopped = True; remove_nodes.append(n)     (D25 repaired) *)

(* Node._add_filtered._visit (af_node): *)
Definition cp_table : list (list fact * verdict) :=
  [ ([FaVisit], VFalse);                        (* _visit(n) *)
    ([FaParents; FaAddChild; FaVisit], VTrue);  (* p = _create_parents(); p.add_child(n); _visit(n)   (D24) *)
    ([FaParents; FaAddFrom], VSelect);          (* p = _create_parents(); p._add_from(n) *)
    ([FaParents; FaAddChild], VSkipKeepSelf);   (* p = _create_parents(); p.add_child(n)              (D24) *)
    ([], VSkip);                                (* nothing *)
    ([FaRaise], VStop) ].                       (* raise res *)

Definition chain_verdict (table : list (list fact * verdict)) (chain : list (ftest * list fact)) (r : pres) : option verdict :=
  match first_arm chain r with Some a => decode table a | None => None end.

Lemma inplace_chain_is_classify_ip : forall r, chain_verdict ip_table FILTER_INPLACE_CHAIN r = Some (classify_ip r).
Proof. intros [[|]| |[[[|]|]| |]]; vm_compute; reflexivity. Qed.

Lemma copy_chain_is_classify_cp : forall r, chain_verdict cp_table FILTER_COPY_CHAIN r = Some (classify_cp r).
Proof. intros [[|]| |[[[|]|]| |]]; vm_compute; reflexivity. Qed.

(* the statements around the chain that the model mirrors:
   in place: no call once stopped ([if s then (t, true, false, true)]), one call per child, the collected removals
             applied after the loop ([remove_ids]), must_keep returned;
   copying:  push (False, n), one call per child, pop after the chain, the stop propagates by the raised signal *)
Lemma loop_frames_are_modelled :
  facts_eqb FILTER_INPLACE_PRELOOP [FaNonlocal; FaInitRemove; FaInitKeep] = true /\
  facts_eqb FILTER_INPLACE_PROLOGUE [FaGuardStopped; FaCallPredicate] = true /\
  facts_eqb FILTER_INPLACE_EPILOGUE [] = true /\
  facts_eqb FILTER_INPLACE_POSTLOOP [FaRemoveCollected; FaReturnMustKeep] = true /\
  facts_eqb FILTER_COPY_PRELOOP [] = true /\
  facts_eqb FILTER_COPY_PROLOGUE [FaPush; FaCallPredicate] = true /\
  facts_eqb FILTER_COPY_EPILOGUE [FaPop] = true /\
  facts_eqb FILTER_COPY_POSTLOOP [FaReturn] = true.
Proof. vm_compute. repeat split. Qed.
