(* nutree/common.py: call_mapper — the rule "a mapper may return a new value, or None meaning: use the
   (possibly mutated) dict".  Executable model, no proofs (MiscMapperProofs.v).

       def call_mapper(fn, node, data):
           if fn is None:
               return data
           res = fn(node, data)
           if res is None:
               return data
           return res

   Python values are [pv]; the dict handed to the mapper is a mutable object: its content is an association list in
   insertion order, the callback is a SCRIPT (mutations of the dict in program order, then what it returns or raises),
   interpreted here with CPython's dict semantics, and built as a real closure by the harness (parts_misc.py). *)
From Coq Require Import List ZArith Bool.
From NT Require Import Sx Rose.
Import ListNotations.

(* ---- Python values the mappers of the correspondence return --------------------------------------------------- *)
Inductive pv :=
| PNone
| PBool (b : bool)
| PInt (z : Z)
| PStr (s : text)
| PTuple (l : list pv)
| PList (l : list pv)
| PDict (kv : list (text * pv))
| POpaque (truth : bool) (tag : text).   (* any other object: only bool(obj) and an identifying tag are known *)

(* bool(v) *)
Definition truthy (v : pv) : bool :=
  match v with
  | PNone => false
  | PBool b => b
  | PInt z => negb (Z.eqb z 0)
  | PStr s => match s with [] => false | _ => true end
  | PTuple l => match l with [] => false | _ => true end
  | PList l => match l with [] => false | _ => true end
  | PDict kv => match kv with [] => false | _ => true end
  | POpaque t _ => t
  end.

(* `v is None` *)
Definition is_none (v : pv) : bool := match v with PNone => true | _ => false end.

Fixpoint sx_pv (v : pv) : sx :=
  match v with
  | PNone => L [A 0%Z]
  | PBool b => L [A 1%Z; sx_bool b]
  | PInt z => L [A 2%Z; A z]
  | PStr s => L [A 3%Z; sx_text s]
  | PTuple l => L [A 4%Z; L ((fix go (l : list pv) : list sx := match l with [] => [] | x :: r => sx_pv x :: go r end) l)]
  | PList l => L [A 5%Z; L ((fix go (l : list pv) : list sx := match l with [] => [] | x :: r => sx_pv x :: go r end) l)]
  | PDict kv => L [A 6%Z; L ((fix go (l : list (text * pv)) : list sx :=
                              match l with [] => [] | (k, x) :: r => L [sx_text k; sx_pv x] :: go r end) kv)]
  | POpaque t tag => L [A 7%Z; sx_bool t; sx_text tag]
  end.

(* ---- the dict object handed to the mapper: CPython dict semantics on string keys ------------------------------- *)
Definition dict := list (text * pv).

Fixpoint d_get (d : dict) (k : text) : option pv :=
  match d with
  | [] => None
  | (k', v) :: r => if text_eqb k' k then Some v else d_get r k
  end.

(* d[k] = v : an existing key keeps its position, a new key is appended *)
Fixpoint d_set (d : dict) (k : text) (v : pv) : dict :=
  match d with
  | [] => [(k, v)]
  | (k', v') :: r => if text_eqb k' k then (k', v) :: r else (k', v') :: d_set r k v
  end.

(* d.pop(k, None) *)
Fixpoint d_del (d : dict) (k : text) : dict :=
  match d with
  | [] => []
  | (k', v') :: r => if text_eqb k' k then r else (k', v') :: d_del r k
  end.

(* one statement of a callback body *)
Inductive mop :=
| MSet (k : text) (v : pv)      (* data[k] = v                       *)
| MDel (k : text)               (* data.pop(k, None)                 *)
| MClear                        (* data.clear()                      *)
| MRename (k k' : text).        (* if k in data: data[k'] = data.pop(k) *)

Definition apply_mop (d : dict) (m : mop) : dict :=
  match m with
  | MSet k v => d_set d k v
  | MDel k => d_del d k
  | MClear => []
  | MRename k k' => match d_get d k with
                    | None => d
                    | Some v => d_set (d_del d k) k' v
                    end
  end.

Definition apply_mops (d : dict) (ms : list mop) : dict := fold_left apply_mop ms d.

(* how a callback ends *)
Inductive ret :=
| RNone                 (* falls off the end / `return None`             *)
| RSame                 (* `return data` – the very dict it was handed   *)
| RVal (v : pv)         (* returns another object with value v           *)
| RRaise (code : Z).    (* raises (error class as harness/common.py:err_class) *)

Record callback := CB { cb_body : list mop; cb_ret : ret }.

(* what the caller of call_mapper holds afterwards *)
Inductive outcome :=
| OData (d : dict)          (* the `data` object itself (identity), with its content now *)
| OVal (v : pv) (d : dict)  (* another object of value v; the data dict's content now    *)
| OErr (code : Z) (d : dict).  (* the callback's exception propagates; the dict's content now *)

(* res = fn(node, data) *)
Definition call_fn (cb : callback) (d : dict) : dict * ret := (apply_mops d (cb_body cb), cb_ret cb).

Definition call_mapper (fn : option callback) (data : dict) : outcome :=
  match fn with
  | None => OData data                                   (* if fn is None: return data *)
  | Some cb =>
      let '(d', r) := call_fn cb data in                 (* res = fn(node, data)       *)
      match r with
      | RRaise c => OErr c d'
      | RNone => OData d'                                (* if res is None: return data *)
      | RSame => OData d'                                (* return res  (res is data)   *)
      | RVal v => if is_none v then OData d' else OVal v d'   (* return res              *)
      end
  end.

(* the defective variant `return fn(node, data) or data` (kept to STATE what the rule excludes) *)
Definition call_mapper_or (fn : option callback) (data : dict) : outcome :=
  match fn with
  | None => OData data
  | Some cb =>
      let '(d', r) := call_fn cb data in
      match r with
      | RRaise c => OErr c d'
      | RNone => OData d'
      | RSame => OData d'
      | RVal v => if truthy v then OVal v d' else OData d'
      end
  end.

Definition sx_dict (d : dict) : sx := L (map (fun kv => L [sx_text (fst kv); sx_pv (snd kv)]) d).

(* observation: [is_data; value; content of the data dict afterwards] or [-1; class; content] *)
Definition sx_outcome (o : outcome) : sx :=
  match o with
  | OData d => L [A 1%Z; sx_pv (PDict d); sx_dict d]
  | OVal v d => L [A 0%Z; sx_pv v; sx_dict d]
  | OErr c d => L [A (-1)%Z; A c; sx_dict d]
  end.

(* ---- the two deserialising call sites differ in WHEN they read item["data_id"] -------------------------------- *)
Definition k_data_id : text := [100; 97; 116; 97; 95; 105; 100]%Z.   (* "data_id" *)

Definition after (o : outcome) : dict :=
  match o with OData d => d | OVal _ d => d | OErr _ d => d end.

(* Node.from_dict:   data_obj = call_mapper(mapper, self, item); append_child(data_obj, data_id=item.get("data_id")) *)
Definition site_from_dict (fn : option callback) (item : dict) : outcome * option pv :=
  let o := call_mapper fn item in (o, d_get (after o) k_data_id).

(* Tree._from_list:  data_id = data.get("data_id"); data = call_mapper(mapper, parent, data); parent.add(data, data_id=data_id) *)
Definition site_from_list (fn : option callback) (data : dict) : outcome * option pv :=
  let did := d_get data k_data_id in (call_mapper fn data, did).

(* sites 0 direct call, 2 Node.to_dict (leaf), 3 Node.to_list_iter: the value is used, nothing else is read *)
Definition run_site (site : Z) (fn : option callback) (d : dict) : sx :=
  if Z.eqb site 1 then let '(o, did) := site_from_dict fn d in L [sx_outcome o; sx_opt sx_pv did]
  else if Z.eqb site 4 then let '(o, did) := site_from_list fn d in L [sx_outcome o; sx_opt sx_pv did]
  else L [sx_outcome (call_mapper fn d); L []].
