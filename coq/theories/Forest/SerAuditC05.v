(* Audit follow-up for C05: renamed-ids versions of option independence / file meta, a primitive
   sufficient condition for [ids_renamed], the library's own default mappers, the region excluded by
   [clones_consistent], the bridge from the mutation machine's WF. *)
From Coq Require Import List ZArith Bool Arith Lia Permutation String.
From NT Require Import Sx Rose ListFacts RoseFacts Serialize SerializeSpec SerDictFacts SerCompressProofs
     SerLayFacts SerWriterProofs SerReaderProofs SerUnflatProofs SerIsoProofs SerializeProofs SerTheorems
     SerWitness SerIsoRenamed SerWitness2.
From NT Require Machine WF.
From NTGen Require Import Generated.
Import ListNotations.
Open Scope list_scope.

(* ---------------------------------------------------------------- renamed ids: options, meta *)
Section RenamedOptions.
  Variable c : cls.
  Variable ser : info -> dict -> dict.
  Variable deser : nat -> dict -> res dval.
  Variable shash : text -> Z.
  Variable f : forest.
  Variable rho : did -> did.

  Lemma layout_loads_renamed ko vo meta :
    tree_ok c f -> opts_ok c ser ko vo meta f -> mapper_ok c ser deser f ->
    ids_renamed c ser deser shash f rho -> rho_inj f rho ->
    load_doc c deser shash (layout_doc c ser ko vo meta f)
    = Ok (header_spec (resolve_km c ko) (resolve_vm c vo f) meta, described c ser deser shash f).
  Proof.
    intros (Hids & Hsib & Hk & Hcc) (Hkm & Hent & Hmeta) (Hm & Hmr) Hr Hi.
    unfold layout_doc. apply load_layout_described; auto. now apply (described_unique_renamed c ser deser shash f rho).
  Qed.

  (* key_map / value_map / meta do not change the loaded tree, also when ids do not survive a rebuild *)
  Theorem option_independent_renamed ko1 vo1 ko2 vo2 meta1 meta2 :
    tree_ok c f -> opts_ok c ser ko1 vo1 meta1 f -> opts_ok c ser ko2 vo2 meta2 f -> mapper_ok c ser deser f ->
    ids_renamed c ser deser shash f rho -> rho_inj f rho ->
    exists j1 j2 md1 md2 f', save_doc c ser ko1 vo1 meta1 f = Ok j1 /\ save_doc c ser ko2 vo2 meta2 f = Ok j2 /\
                             load_doc c deser shash j1 = Ok (md1, f') /\ load_doc c deser shash j2 = Ok (md2, f') /\
                             iso_upto rho f f'.
  Proof.
    intros Ht Ho1 Ho2 Hm Hr Hi.
    exists (layout_doc c ser ko1 vo1 meta1 f), (layout_doc c ser ko2 vo2 meta2 f). do 2 eexists. exists (described c ser deser shash f).
    split; [apply save_doc_is_layout; [apply Ht|exact Ho1]|]. split; [apply save_doc_is_layout; [apply Ht|exact Ho2]|].
    split; [now apply layout_loads_renamed|]. split; [now apply layout_loads_renamed|].
    destruct Ht as (_ & _ & Hk & Hcc). destruct Hm as (_ & Hmr). now apply described_iso_renamed.
  Qed.

  Theorem file_meta_back_renamed ko vo meta :
    tree_ok c f -> opts_ok c ser ko vo meta f -> mapper_ok c ser deser f ->
    ids_renamed c ser deser shash f rho -> rho_inj f rho ->
    exists j md f', save_doc c ser ko vo meta f = Ok j /\ load_doc c deser shash j = Ok (md, f') /\
      (forall k v, In (k, v) meta -> dget k md = Some v) /\
      dget k_generator md = Some (JStr (s_nutree_slash ++ NUTREE_VERSION)) /\
      dget k_format_version md = Some (JStr FILE_FORMAT_VERSION) /\
      dget k_key_map md = (if is_nil (resolve_km c ko) then None else Some (jv_key_map (resolve_km c ko))) /\
      dget k_value_map md = (if is_nil (resolve_vm c vo f) then None else Some (jv_value_map (resolve_vm c vo f))).
  Proof.
    intros Ht Ho Hm Hr Hi. pose proof Ho as (_ & _ & Hmeta).
    exists (layout_doc c ser ko vo meta f), (header_spec (resolve_km c ko) (resolve_vm c vo f) meta), (described c ser deser shash f).
    split; [apply save_doc_is_layout; [apply Ht|exact Ho]|]. split; [now apply layout_loads_renamed|].
    destruct (header_spec_get (resolve_km c ko) (resolve_vm c vo f) meta Hmeta) as (G1 & G2 & G3).
    split; [intros k v Hin; now apply header_spec_user_meta|]. split; [exact G1|]. split; [reflexivity|]. split; assumption.
  Qed.
End RenamedOptions.

(* ---------------------------------------------------------------- a primitive condition for ids_renamed *)
Section Mixed.
  Variable c : cls.
  Variable ser : info -> dict -> dict.
  Variable deser : nat -> dict -> res dval.
  Variable shash : text -> Z.
  Variable f : forest.
  Notation RB := (rb_info c ser deser shash).

  (* a later occurrence of a data_id whose kind differs from the first one's is written in full; the tree is
     fine if for THOSE data_ids the rebuilt id is the stored one (value-hashed data, strings, explicit ids);
     all other data (identity-hashed, same-kind clones) may get fresh ids *)
  Definition kind_differing_stable : Prop := forall A q B x j, lay_f 0 1 f = A ++ q :: B ->
    first_same (rdid (q_node q)) (prev3 A) = Some (j, x) -> rkind (q_node q) <> rkind x ->
    i_did (RB (q_pos q) (q_node q)) = rdid (q_node q) /\ i_did (RB j x) = rdid x.

  Lemma ids_renamed_mixed : kind_differing_stable -> ids_renamed c ser deser shash f (rho_of c ser deser shash f).
  Proof.
    intros Hk A q B E. unfold rho_of, src_at, src_of. rewrite E.
    assert (Ep : prev3 (A ++ q :: B) = prev3 A ++ (q_pos q, q_node q) :: prev3 B) by (unfold prev3; now rewrite map_app).
    rewrite Ep. clear Ep. destruct q as [[ppos pos] t]. cbn [q_pos q_node fst snd] in *.
    destruct (first_same (rdid t) (prev3 A)) as [[j x]|] eqn:Ef.
    - unfold first_same in *. rewrite (find_app_some _ _ _ _ Ef).
      destruct (kind_eqb (rkind t) (rkind x)) eqn:Eke; [reflexivity|]. cbn [fst snd].
      assert (Hne : rkind t <> rkind x) by (intros H; apply kind_eqb_eq in H; congruence).
      destruct (Hk A (ppos, pos, t) B x j E Ef Hne) as [H1 H2]. cbn [q_pos q_node fst snd] in H1.
      rewrite H1, H2. apply find_some in Ef as [_ Hd]. cbn in Hd. apply did_eqb_eq in Hd. now symmetry.
    - cbn [fst snd]. unfold first_same in *. rewrite (find_app_none _ _ _ Ef). cbn [find snd]. now rewrite did_eqb_refl.
  Qed.

  Theorem roundtrip_mixed ko vo meta :
    tree_ok c f -> opts_ok c ser ko vo meta f -> mapper_ok c ser deser f ->
    kind_differing_stable -> rho_inj f (rho_of c ser deser shash f) ->
    exists j f', save_doc c ser ko vo meta f = Ok j /\
                 load_doc c deser shash j = Ok (header_spec (resolve_km c ko) (resolve_vm c vo f) meta, f') /\
                 iso_upto (rho_of c ser deser shash f) f f' /\
                 map rdid (pre_f f') = map (rho_of c ser deser shash f) (map rdid (pre_f f)) /\ ids f' = seq 1 (size_f f).
  Proof. intros Ht Ho Hm Hk Hi. apply roundtrip_renamed; auto. now apply ids_renamed_mixed. Qed.
End Mixed.

(* ---------------------------------------------------------------- the library's own default mappers *)
Lemma forallb_perm {X} (p : X -> bool) l l' : Permutation l l' -> forallb p l = forallb p l'.
Proof.
  induction 1; cbn; try congruence.
  - destruct (p x), (p y); reflexivity.
Qed.

Definition all_str (f : forest) : Prop := forall t, In t (pre_f f) -> i_isstr (rinfo t) = true.
Definition all_bare (c : cls) (f : forest) : Prop := forall t, In t (pre_f f) -> bare_str c (rinfo t) = true.

Lemma default_typed_entry shash idx i : i_isstr i = true ->
  default_deser_typed shash idx (entry_dict CTyped i) = Ok (DV true (i_name i) (shash (i_name i))).
Proof.
  intros Hs. unfold default_deser_typed, entry_dict. rewrite Hs. cbn [app dget]. rewrite text_eqb_refl.
  destruct (custom_id i); destruct (i_kind i); reflexivity.
Qed.

(* TypedTree without any mapper, str data (also with explicit ids, D50 repaired) *)
Lemma default_typed_mapper_ok shash f : all_str f ->
  mapper_ok CTyped default_ser (default_deser CTyped shash) f.
Proof.
  intros Hs. split; [split; [|split]|].
  - intros t Ht. cbn zeta. unfold default_ser. split; [apply entry_dict_keys|split; reflexivity].
  - intros idx t Ht _. unfold default_ser, default_deser. cbn [is_typed]. rewrite (default_typed_entry shash idx _ (Hs t Ht)). eauto.
  - intros idx t d' Ht Hp. unfold default_ser in *. unfold default_deser. cbn [is_typed]. unfold default_deser_typed.
    destruct (entry_dict_keys CTyped (rinfo t)) as [Hn _].
    rewrite (dget_perm _ _ _ Hn (Permutation_sym Hp)). now rewrite (forallb_perm _ _ _ Hp).
  - intros p t Ht _. cbn zeta. unfold default_ser, default_deser. cbn [is_typed].
    rewrite (default_typed_entry shash p _ (Hs t Ht)). cbn. rewrite (Hs t Ht). split; reflexivity.
Qed.

Lemma default_plain_entry shash idx i : i_isstr i = true ->
  default_deser_plain shash idx (entry_dict CPlain i) = Ok (DV true (i_name i) (shash (i_name i))).
Proof.
  intros Hs. unfold default_deser_plain, entry_dict. rewrite Hs. cbn [app dget is_typed]. rewrite text_eqb_refl.
  destruct (custom_id i); reflexivity.
Qed.

(* plain Tree without any mapper, str data (also with explicit ids, D92 repaired) *)
Lemma default_plain_mapper_ok shash f : all_str f ->
  mapper_ok CPlain default_ser (default_deser CPlain shash) f.
Proof.
  intros Hs. split; [split; [|split]|].
  - intros t Ht. cbn zeta. unfold default_ser. split; [apply entry_dict_keys|split; reflexivity].
  - intros idx t Ht _. unfold default_ser, default_deser. cbn [is_typed]. rewrite (default_plain_entry shash idx _ (Hs t Ht)). eauto.
  - intros idx t d' Ht Hp. unfold default_ser in *. unfold default_deser. cbn [is_typed]. unfold default_deser_plain.
    destruct (entry_dict_keys CPlain (rinfo t)) as [Hn _].
    rewrite (dget_perm _ _ _ Hn (Permutation_sym Hp)). now rewrite (forallb_perm _ _ _ Hp).
  - intros p t Ht _. cbn zeta. unfold default_ser, default_deser. cbn [is_typed].
    rewrite (default_plain_entry shash p _ (Hs t Ht)). cbn. rewrite (Hs t Ht). split; reflexivity.
Qed.

Lemma default_entries_ok c ko vo f : (ko = KTrue \/ ko = KFalse) -> (vo = VTrue \/ vo = VFalse) ->
  entries_ok c default_ser (resolve_km c ko) (resolve_vm c vo f) f.
Proof.
  intros Hko Hvo t Ht _. unfold default_ser. destruct (entry_dict_keys c (rinfo t)) as [Hn Hk]. split; [exact Hn|]. split.
  - destruct Hko as [-> | ->]; cbn [resolve_km]; [|intros k _ []].
    intros k Hin Hs. destruct (default_km_ok c) as [_ Hno].
    assert (Hk5 : In k [k_str; k_data_id; k_kind; k_n; k_h]) by (destruct (Hk k Hin) as [-> | [-> | ->]]; cbn [In]; auto).
    specialize (Hno k Hk5). assert (existsb (text_eqb k) (map snd (default_key_map c)) = true); [|congruence].
    apply existsb_exists. exists k. split; [exact Hs|apply text_eqb_refl].
  - intros k v a Hi Ha.
    assert (Hvm : resolve_vm c vo f = [] \/ resolve_vm c vo f = [(k_kind, kinds_of f)]).
    { destruct Hvo as [-> | ->]; [|now left]. destruct c; vm_compute; auto. }
    destruct Hvm as [E|E]; rewrite E in Ha; [discriminate Ha|]. cbn [assoc_t] in Ha.
    destruct (text_eqb k k_kind) eqn:Ek; [|discriminate Ha]. injection Ha as <-. apply text_eqb_eq in Ek. subst k.
    apply (in_dget _ _ _ Hn) in Hi. rewrite entry_dict_kind in Hi.
    destruct (is_typed c); [|discriminate Hi]. destruct (i_kind (rinfo t)) as [kd|] eqn:Ekd; [|discriminate Hi].
    injection Hi as <-. destruct (kinds_covered f t kd Ht Ekd) as [n Hn']. eauto.
Qed.

Definition str_hash_fn (shash : text -> Z) (f : forest) : Prop :=
  forall t, In t (pre_f f) -> i_isstr (rinfo t) = true -> i_hash (rinfo t) = shash (i_name (rinfo t)).

Theorem roundtrip_default_mappers c shash ko vo meta f :
  (c = CTyped \/ c = CPlain) -> all_str f ->
  (ko = KTrue \/ ko = KFalse) -> (vo = VTrue \/ vo = VFalse) -> meta_ok meta ->
  tree_ok c f -> str_hash_fn shash f ->
  exists j f', save_doc c default_ser ko vo meta f = Ok j /\
               load_doc c (default_deser c shash) shash j = Ok (header_spec (resolve_km c ko) (resolve_vm c vo f) meta, f') /\
               iso f f' /\ map rdid (pre_f f') = map rdid (pre_f f) /\ ids f' = seq 1 (size_f f).
Proof.
  intros Hc Hs Hko Hvo Hm Ht Hsh.
  assert (Hmap : mapper_ok c default_ser (default_deser c shash) f).
  { destruct Hc as [-> | ->]; [now apply default_typed_mapper_ok|now apply default_plain_mapper_ok]. }
  assert (Hopts : opts_ok c default_ser ko vo meta f).
  { split; [|split; [now apply default_entries_ok|exact Hm]].
    destruct Hko as [-> | ->]; cbn [resolve_km]; [apply default_km_ok|split; constructor]. }
  assert (Hst : id_stable c default_ser (default_deser c shash) shash f).
  { split.
    - intros t Hin Hb. symmetry. apply Hsh; [exact Hin|]. now apply Hs.
    - intros p t Hin Hb _. unfold default_ser, default_deser.
      destruct Hc as [-> | ->]; cbn [is_typed];
        [rewrite (default_typed_entry shash p _ (Hs t Hin))|rewrite (default_plain_entry shash p _ (Hs t Hin))];
        cbn [dv_or dv_hash]; symmetry; (apply Hsh; [exact Hin|now apply Hs]). }
  exact (roundtrip c default_ser (default_deser c shash) shash f ko vo meta Ht Hopts Hmap Hst).
Qed.

(* D92 (FIXED): plain Tree, str node with an explicit data_id, no mapper: the entry {"str", "data_id"} is written
   natively and -- since the repair of Tree.deserialize_mapper -- read natively, as by a TypedTree.  Regression example;
   the pre-repair mapper (always NotImplementedError) is kept to show what failed. *)
Definition f_d92 : forest := [ T 1 (set_did_i (DStr (t_ "k")) (si (t_ "a") None)) [] ].
Definition default_deser_plain_prerepair : nat -> dict -> res dval := fun _ _ => Err ENotImpl.
Lemma d92_witness :
  exists j, save_doc CPlain default_ser KTrue VTrue [] f_d92 = Ok j /\
            (exists md f', load_doc CPlain (default_deser CPlain whash) whash j = Ok (md, f') /\ iso f_d92 f') /\
            (exists md f', load_doc CTyped (default_deser CTyped whash) whash j = Ok (md, f')) /\
            load_doc CPlain default_deser_plain_prerepair whash j = Err ENotImpl.
Proof.
  eexists. split; [vm_compute; reflexivity|]. split; [do 2 eexists; split; [vm_compute; reflexivity|vm_compute; reflexivity]|].
  split; [do 2 eexists; vm_compute; reflexivity|vm_compute; reflexivity].
Qed.

(* ---------------------------------------------------------------- the region excluded by clones_consistent *)
(* By the library's clone semantics one data_id stands for one data object; an explicit data_id is the caller's
   statement that two nodes carry the SAME data.  Two nodes with one explicit data_id and DIFFERENT data are
   accepted by the library; the second is written as a reference and comes back with the first one's data.
   This state is OUTSIDE the quantifier of C05 ("clones" = same data); the statement without the hypothesis is false. *)
Definition f_cc : forest :=
  [ T 1 (set_did_i (DInt 1) (si (t_ "a") None)) [];
    T 2 (si (t_ "x") None) [ T 3 (set_did_i (DInt 1) (si (t_ "b") None)) [] ] ].

Definition roundtrip_without_clones_consistent : Prop :=
  forall c ser deser shash ko vo meta f,
    ids_ok f -> sib_unique f -> kinds_ok c f -> opts_ok c ser ko vo meta f -> mapper_ok c ser deser f ->
    id_stable c ser deser shash f ->
    exists j md f', save_doc c ser ko vo meta f = Ok j /\ load_doc c deser shash j = Ok (md, f') /\ iso f f'.

Lemma f_cc_outside :
  ~ clones_consistent f_cc /\
  match save_doc CPlain wser KTrue VTrue [] f_cc with
  | Ok j => match load_doc CPlain (wdeser true) whash j with
            | Ok (_, f') => map (fun t => i_name (rinfo t)) (pre_f f') = [t_ "a"; t_ "x"; t_ "a"] /\
                            map rdid (pre_f f') = map rdid (pre_f f_cc)
            | Err _ => False
            end
  | Err _ => False
  end.
Proof.
  split.
  - intros H. specialize (H (T 1 (set_did_i (DInt 1) (si (t_ "a") None)) []) (T 3 (set_did_i (DInt 1) (si (t_ "b") None)) [])).
    destruct H as [_ H]; [cbn; auto|cbn; auto|reflexivity|]. vm_compute in H. discriminate H.
  - vm_compute. split; reflexivity.
Qed.

Theorem roundtrip_without_clones_consistent_refuted : ~ roundtrip_without_clones_consistent.
Proof.
  intros H.
  assert (Hm : meta_ok []) by (split; [constructor|intros k []]).
  assert (Hids : ids_ok f_cc) by (apply (nodupb_sound Nat.eqb Nat.eqb_refl); vm_compute; reflexivity).
  assert (Hsib : sib_unique f_cc).
  { split; [apply (nodupb_sound did_eqb did_eqb_refl); vm_compute; reflexivity|].
    intros t Ht. apply (nodupb_sound did_eqb did_eqb_refl). cbn in Ht.
    repeat (destruct Ht as [<-|Ht]; [vm_compute; reflexivity|]). contradiction. }
  assert (Hk : kinds_ok CPlain f_cc).
  { intros t Ht. cbn in Ht. repeat (destruct Ht as [<-|Ht]; [reflexivity|]). contradiction. }
  assert (Hsh : str_hash_ok f_cc).
  { intros t Ht _. cbn in Ht. repeat (destruct Ht as [<-|Ht]; [reflexivity|]). contradiction. }
  destruct (H CPlain wser (wdeser true) whash KTrue VTrue [] f_cc Hids Hsib Hk
              (wopts_ok CPlain KTrue VTrue [] f_cc (or_introl eq_refl) (or_introl eq_refl) Hm)
              (conj (wmappers_ok CPlain true f_cc) (wmapper_rebuilds CPlain true f_cc))
              (wid_stable CPlain f_cc Hsh)) as (j & md & f' & Hs & Hl & Hiso).
  vm_compute in Hs. injection Hs as <-. vm_compute in Hl. injection Hl as _ <-.
  unfold iso in Hiso. vm_compute in Hiso. discriminate Hiso.
Qed.

(* ---------------------------------------------------------------- bridge from the mutation machine *)
Theorem WF_tree_side_conditions t : WF.WF t -> ids_ok (Machine.forest_of t) /\ SerIsoProofs.sib_unique (Machine.forest_of t).
Proof.
  intros H. destruct (WF.WF_spelled t H) as (H1 & _ & _ & _ & _ & _ & H7). split; [|exact H7].
  unfold ids_ok. constructor; [apply (WF.wf_pos t H)|exact H1].
Qed.

(* every reachable tree state round-trips as soon as the two data-level conditions hold *)
Theorem roundtrip_of_WF c ser deser shash ko vo meta t :
  WF.WF t -> kinds_ok c (Machine.forest_of t) -> clones_consistent (Machine.forest_of t) ->
  opts_ok c ser ko vo meta (Machine.forest_of t) -> mapper_ok c ser deser (Machine.forest_of t) -> id_stable c ser deser shash (Machine.forest_of t) ->
  exists j f', save_doc c ser ko vo meta (Machine.forest_of t) = Ok j /\
               load_doc c deser shash j
               = Ok (header_spec (resolve_km c ko) (resolve_vm c vo (Machine.forest_of t)) meta, f') /\
               iso (Machine.forest_of t) f' /\ map rdid (pre_f f') = map rdid (pre_f (Machine.forest_of t)) /\
               ids f' = seq 1 (size_f (Machine.forest_of t)).
Proof.
  intros Hwf Hk Hcc Ho Hm Hst. destruct (WF_tree_side_conditions t Hwf) as [Hi Hs].
  apply roundtrip; auto. unfold tree_ok. auto.
Qed.
