(* Independent, declarative description of nutree's native file format (C12) and
   of the tree a document describes (C05).  Written from docs/sphinx/ug_serialize.rst,
   in a different style than the model in Serialize.v: positions are computed
   from sub-tree sizes (no id maps), the clone rule looks at the list of earlier
   nodes, key/value shortening is a [map] (no in-place dict surgery), the header
   is a concatenation.  No proofs in this file. *)
From Coq Require Import List ZArith Bool Arith.
From NT Require Import Sx Rose Serialize.
From NTGen Require Import Generated.
Import ListNotations.

(* ---------------------------------------------------------------- positions *)
(* pre-order numbering: (position of the parent entry, own position, node);
   positions start at [pos]; a sub-tree occupies [size] consecutive positions *)
Fixpoint lay (ppos pos : nat) (t : rt) {struct t} : list (nat * nat * rt) :=
  match t with
  | T _ _ ch =>
      (ppos, pos, t) ::
      (fix go (l : list rt) (p : nat) {struct l} : list (nat * nat * rt) :=
         match l with
         | [] => []
         | c :: r => lay pos p c ++ go r (p + size c)
         end) ch (S pos)
  end.
Fixpoint lay_f (ppos pos : nat) (f : forest) : list (nat * nat * rt) :=
  match f with
  | [] => []
  | c :: r => lay ppos pos c ++ lay_f ppos (pos + size c) r
  end.

(* ---------------------------------------------------------------- one entry *)
(* the members of a full entry before the mapper sees it *)
Definition entry_dict (c : cls) (i : info) : dict :=
  (if i_isstr i then [(k_str, JStr (i_name i))] else []) ++
  (if custom_id i then [(k_data_id, jv_did (i_did i))] else []) ++
  (if is_typed c then match i_kind i with Some k => [(k_kind, JStr k)] | None => [] end else []).

(* a plain tree stores a str without custom id as the bare string *)
Definition bare_str (c : cls) (i : info) : bool := negb (is_typed c) && i_isstr i && negb (custom_id i).

(* shortening as declared by the header maps *)
Definition short_key (km : list (text * text)) (k : text) : text :=
  match assoc_t k km with Some s => s | None => k end.
Definition short_val (vm : list (text * list text)) (k : text) (v : jv) : jv :=
  match assoc_t k vm with
  | Some a => match v with
              | JStr s => match last_index s a with Some n => JInt (Z.of_nat n) | None => v end
              | _ => v
              end
  | None => v
  end.
Definition is_mapped (km : list (text * text)) (kv : text * jv) : bool :=
  match assoc_t (fst kv) km with Some _ => true | None => false end.
Definition short_kv km vm (kv : text * jv) : text * jv :=
  (short_key km (fst kv), short_val vm (fst kv) (snd kv)).
(* JSON objects are unordered; the writer happens to emit the members whose key
   is not renamed first *)
Definition short_dict km vm (d : dict) : dict :=
  map (short_kv km vm) (filter (fun kv => negb (is_mapped km kv)) d) ++
  map (short_kv km vm) (filter (is_mapped km) d).

Section Layout.
  Variable c : cls.
  Variable ser : info -> dict -> dict.
  Variable km : list (text * text).
  Variable vm : list (text * list text).

  Definition full_entry (t : rt) : jv :=
    let i := rinfo t in
    if bare_str c i then JStr (i_name i) else JDict (short_dict km vm (ser i (entry_dict c i))).

  (* the first earlier node with the same data_id *)
  Definition first_same (d : did) (prev : list (nat * rt)) : option (nat * rt) :=
    find (fun e => did_eqb (rdid (snd e)) d) prev.

  (* entry = [parent position, data]; data = position of the first occurrence iff
     an earlier node has the same data_id and that first one has the same kind *)
  Fixpoint lay_entries (prev : list (nat * rt)) (l : list (nat * nat * rt)) : list jv :=
    match l with
    | [] => []
    | (ppos, pos, t) :: r =>
        entry ppos (match first_same (rdid t) prev with
                    | Some (j, x) => if kind_eqb (rkind t) (rkind x) then jnat j else full_entry t
                    | None => full_entry t
                    end)
        :: lay_entries (prev ++ [(pos, t)]) r
    end.

  Definition layout (f : forest) : list jv := lay_entries [] (lay_f 0 1 f).
End Layout.

(* ---------------------------------------------------------------- header *)
Definition header_spec (km : list (text * text)) (vm : list (text * list text)) (meta : dict) : dict :=
  [(k_generator, JStr (s_nutree_slash ++ NUTREE_VERSION)); (k_format_version, JStr FILE_FORMAT_VERSION)]
  ++ (if is_nil km then [] else [(k_key_map, jv_key_map km)])
  ++ (if is_nil vm then [] else [(k_value_map, jv_value_map vm)])
  ++ meta.

Definition doc (hdr : dict) (nodes : list jv) : jv := JDict [(k_meta, JDict hdr); (k_nodes, JList nodes)].

Definition layout_doc (c : cls) (ser : info -> dict -> dict) (ko : kopt) (vo : vopt) (meta : dict) (f : forest) : jv :=
  let km := resolve_km c ko in
  let vm := resolve_vm c vo f in
  doc (header_spec km vm meta) (layout c ser km vm f).

(* a JSON value carries the nutree header *)
Definition has_header (j : jv) : bool :=
  match j with
  | JDict o =>
      match dget k_meta o, dget k_nodes o with
      | Some (JDict md), Some _ =>
          match dget k_generator md with Some g => mentions_nutree g | None => false end
      | _, _ => false
      end
  | _ => false
  end.

(* ---------------------------------------------------------------- the described tree *)
Section Described.
  Variable c : cls.
  Variable ser : info -> dict -> dict.
  Variable deser : nat -> dict -> res dval.
  Variable shash : text -> Z.

  Definition dv_or (r : res dval) : dval := match r with Ok dv => dv | Err _ => DV false [] 0%Z end.

  (* payload of the node created for entry #p when it is a full entry of node t *)
  Definition rb_info (p : nat) (t : rt) : info :=
    let i := rinfo t in
    if bare_str c i then
      I (Z.of_nat p) (Z.of_nat p) (shash (i_name i)) true (i_name i) (DInt (shash (i_name i))) (default_kind c) []
    else
      let dv := dv_or (deser p (ser i (entry_dict c i))) in
      I (Z.of_nat p) (Z.of_nat p) (dv_hash dv) (dv_isstr dv) (dv_name dv)
        (if custom_id i then i_did i else DInt (dv_hash dv))
        (if is_typed c then match i_kind i with Some k => Some k | None => default_kind c end else None) [].

  (* the entry that is materialised for the node at position p: itself, or the
     first occurrence it refers to *)
  Definition src_of (prev : list (nat * rt)) (p : nat) (t : rt) : nat * rt :=
    match first_same (rdid t) prev with
    | Some (j, x) => if kind_eqb (rkind t) (rkind x) then (j, x) else (p, t)
    | None => (p, t)
    end.

  (* loaded nodes (position, parent position, payload) in creation order *)
  Fixpoint described_nodes (prev : list (nat * rt)) (l : list (nat * nat * rt)) : list lnode :=
    match l with
    | [] => []
    | (ppos, pos, t) :: r =>
        let s := src_of prev pos t in
        (pos, ppos, rb_info (fst s) (snd s)) :: described_nodes (prev ++ [(pos, t)]) r
    end.

  (* same shape and order, node ids = pre-order positions, payloads from [infos] *)
  Fixpoint relabel (infos : nat -> info) (pos : nat) (t : rt) {struct t} : rt :=
    match t with
    | T _ _ ch =>
        T pos (infos pos)
          ((fix go (l : list rt) (p : nat) {struct l} : list rt :=
              match l with
              | [] => []
              | x :: r => relabel infos p x :: go r (p + size x)
              end) ch (S pos))
    end.
  Fixpoint relabel_f (infos : nat -> info) (pos : nat) (f : forest) : forest :=
    match f with
    | [] => []
    | x :: r => relabel infos pos x :: relabel_f infos (pos + size x) r
    end.

  Definition info_at (es : list lnode) (p : nat) : info :=
    match find_ln p es with Some e => ln_info e | None => I 0 0 0 false [] (DInt 0) None [] end.

  Definition described (f : forest) : forest :=
    relabel_f (info_at (described_nodes [] (lay_f 0 1 f))) 1 f.
End Described.
