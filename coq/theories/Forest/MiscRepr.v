(* repr() / str() of the Python values of MiscMapper.pv, as CPython prints them: None, True/False, ints, str (FsRepr.repr_str:
   quote choice and escapes), tuples (trailing comma for one element), lists, dicts in insertion order; an opaque object prints its tag
   (the harness uses the object's repr() as the tag).  Outside the model: which non-ASCII code points are printable
   (the Unicode database) – [py_repr] is exact for texts whose non-ASCII code points are all non-printable, in particular
   for ASCII texts; the correspondence only uses ASCII.  No proofs here. *)
From Coq Require Import List ZArith Bool.
From NT Require Import Sx Rose FsRepr MiscMapper.
Import ListNotations.
Local Open Scope Z_scope.

Definition no_print (c : Z) : bool := false.

Definition repr_int (z : Z) : text := (if z <? 0 then [45] else []) ++ dec_text z.
Definition repr_text (s : text) : text := repr_str no_print s.

Definition t_None : text := [78; 111; 110; 101].
Definition t_True : text := [84; 114; 117; 101].
Definition t_False : text := [70; 97; 108; 115; 101].
Definition t_sep : text := [44; 32].      (* ", " *)
Definition t_colon : text := [58; 32].    (* ": " *)

Fixpoint py_repr (v : pv) : text :=
  match v with
  | PNone => t_None
  | PBool b => if b then t_True else t_False
  | PInt z => repr_int z
  | PStr s => repr_text s
  | PTuple l =>
      [40] ++ match l with
              | [x] => py_repr x ++ [44]
              | _ => (fix go (l : list pv) : text :=
                        match l with
                        | [] => []
                        | x :: r => py_repr x ++ match r with [] => [] | _ => t_sep ++ go r end
                        end) l
              end ++ [41]
  | PList l =>
      [91] ++ (fix go (l : list pv) : text :=
                 match l with
                 | [] => []
                 | x :: r => py_repr x ++ match r with [] => [] | _ => t_sep ++ go r end
                 end) l ++ [93]
  | PDict kv =>
      [123] ++ (fix go (l : list (text * pv)) : text :=
                  match l with
                  | [] => []
                  | (k, x) :: r => repr_text k ++ t_colon ++ py_repr x ++ match r with [] => [] | _ => t_sep ++ go r end
                  end) kv ++ [125]
  | POpaque _ tag => tag
  end.

(* str(v): a str prints itself, everything else its repr *)
Definition py_str (v : pv) : text := match v with PStr s => s | _ => py_repr v end.
