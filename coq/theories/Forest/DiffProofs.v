(* Proofs about the model of diff.py (Diff.v): specification relations written
   independently of the recursion of [compare] and the theorems connecting them. *)
From Coq Require Import List ZArith Bool Arith Lia Permutation.
From NT Require Import Sx Rose ListFacts RoseFacts Diff.
Import ListNotations.

(* ------------------------------------------------------------------ *)
(* vocabulary of the specification                                     *)
(* ------------------------------------------------------------------ *)
Definition key (t : rt) : Z := i_eqc (rinfo t).          (* the data object's == class *)
Notation keys := (map key).

Definition gone_i (i : info) : bool := info_has_dc i REMOVED || info_has_dc i MOVED_TO.
Definition new_i (i : info) : bool := info_has_dc i ADDED || info_has_dc i MOVED_HERE.
Definition gone (t : rt) : bool := gone_i (rinfo t).     (* REMOVED / MOVED_TO *)
Definition new (t : rt) : bool := new_i (rinfo t).       (* ADDED / MOVED_HERE *)

(* ------------------------------------------------------------------ *)
(* metadata                                                            *)
(* ------------------------------------------------------------------ *)
Lemma get_set_same k v m : get_meta k (set_meta k v m) = Some v.
Proof.
  induction m as [|[k' v'] m IH]; cbn.
  - now rewrite text_eqb_refl.
  - destruct (text_eqb k' k) eqn:E; cbn; [now rewrite text_eqb_refl | now rewrite E].
Qed.

Lemma dc_sx_inj c c' : sx_eqb (dc_sx c) (dc_sx c') = true -> c = c'.
Proof. destruct c, c'; cbn; congruence. Qed.

Lemma dc_sx_refl c : sx_eqb (dc_sx c) (dc_sx c) = true.
Proof. destruct c; reflexivity. Qed.

Lemma info_has_dc_set c c' i : info_has_dc (set_dc c i) c' = true <-> c = c'.
Proof.
  unfold info_has_dc, set_dc; cbn. rewrite get_set_same. split.
  - apply dc_sx_inj.
  - intros ->. apply dc_sx_refl.
Qed.

Lemma info_has_dc_set_b c c' i : info_has_dc (set_dc c i) c' = sx_eqb (dc_sx c) (dc_sx c').
Proof. unfold info_has_dc, set_dc; cbn. now rewrite get_set_same. Qed.

Lemma info_has_dc_unique i c c' : info_has_dc i c = true -> info_has_dc i c' = true -> c = c'.
Proof.
  unfold info_has_dc. destruct (get_meta k_dc (i_meta i)) as [v|]; [|discriminate].
  intros H1 H2. apply sx_eqb_eq in H1. subst v. now apply dc_sx_inj.
Qed.

Lemma set_dc_eqc c i : i_eqc (set_dc c i) = i_eqc i. Proof. reflexivity. Qed.
Lemma set_dc_did c i : i_did (set_dc c i) = i_did i. Proof. reflexivity. Qed.

Lemma gone_new_excl i : gone_i i = true -> new_i i = false.
Proof.
  unfold gone_i, new_i. intros H. apply orb_true_iff in H.
  apply orb_false_iff. split.
  - destruct (info_has_dc i ADDED) eqn:E; [|reflexivity].
    destruct H as [H|H]; pose proof (info_has_dc_unique _ _ _ E H); discriminate.
  - destruct (info_has_dc i MOVED_HERE) eqn:E; [|reflexivity].
    destruct H as [H|H]; pose proof (info_has_dc_unique _ _ _ E H); discriminate.
Qed.

(* ------------------------------------------------------------------ *)
(* find_child, mapi_from                                               *)
(* ------------------------------------------------------------------ *)
Lemma find_child_from_some : forall arr i e j c,
  find_child_from i arr e = Some (j, c) ->
  exists k, j = i + k /\ nth_error arr k = Some c /\ key c = e /\
            (forall k' c', k' < k -> nth_error arr k' = Some c' -> key c' <> e).
Proof.
  induction arr as [|x r IH]; intros i e j c H; cbn in H; [discriminate|].
  destruct (Z.eqb (i_eqc (rinfo x)) e) eqn:E.
  - injection H as <- <-. exists 0. apply Z.eqb_eq in E.
    refine (conj _ (conj _ (conj _ _))); [lia|reflexivity|exact E|intros k' c' Hk; lia].
  - destruct (IH _ _ _ _ H) as [k [-> [Hn [Hk Hlt]]]].
    exists (S k). refine (conj _ (conj _ (conj _ _))); [lia|exact Hn|exact Hk|].
    intros [|k'] c' Hlt' Hn'; cbn in Hn'.
    + injection Hn' as <-. apply Z.eqb_neq in E. exact E.
    + apply (Hlt k'); [lia|exact Hn'].
Qed.

Lemma find_child_from_none : forall arr i e,
  find_child_from i arr e = None -> forall c, In c arr -> key c <> e.
Proof.
  induction arr as [|x r IH]; intros i e H c Hc; [destruct Hc|].
  cbn in H. destruct (Z.eqb (i_eqc (rinfo x)) e) eqn:E; [discriminate|].
  destruct Hc as [Hc|Hc].
  - subst. now apply Z.eqb_neq in E.
  - eapply IH; eauto.
Qed.

Lemma find_child_some arr e j c : find_child arr e = Some (j, c) ->
  nth_error arr j = Some c /\ key c = e /\ In c arr /\
  (forall k' c', k' < j -> nth_error arr k' = Some c' -> key c' <> e).
Proof.
  intros H. destruct (find_child_from_some _ _ _ _ _ H) as [k [-> [Hn [Hk Hlt]]]].
  cbn. refine (conj Hn (conj Hk (conj _ Hlt))). eapply nth_error_In; eauto.
Qed.

Lemma find_child_none arr e : find_child arr e = None -> ~ In e (keys arr).
Proof.
  intros H Hin. apply in_map_iff in Hin. destruct Hin as [c [Hk Hc]].
  exact (find_child_from_none _ _ _ H c Hc Hk).
Qed.

(* with unique keys the first match is the only match *)
Lemma find_child_unique arr c : NoDup (keys arr) -> In c arr ->
  exists j, find_child arr (key c) = Some (j, c) /\ nth_error arr j = Some c.
Proof.
  intros Hnd Hc. destruct (find_child arr (key c)) as [[j c']|] eqn:F.
  - destruct (find_child_some _ _ _ _ F) as [Hn [Hk [Hin _]]].
    assert (c' = c) by (eapply NoDup_map_inj; eauto). subst. eauto.
  - exfalso. apply (find_child_none _ _ F). now apply in_map.
Qed.

Lemma mapi_from_length {X Y} (f : nat -> X -> Y) l : forall i, length (mapi_from f i l) = length l.
Proof. induction l as [|x r IH]; intros i; cbn; [reflexivity|now rewrite IH]. Qed.

Lemma mapi_from_nth {X Y} (f : nat -> X -> Y) l : forall i k,
  nth_error (mapi_from f i l) k = option_map (f (i + k)) (nth_error l k).
Proof.
  induction l as [|x r IH]; intros i [|k]; cbn; try reflexivity.
  - now rewrite Nat.add_0_r.
  - rewrite IH. now replace (S i + k) with (i + S k) by lia.
Qed.

Lemma mapi_from_in {X Y} (f : nat -> X -> Y) l : forall i y,
  In y (mapi_from f i l) <-> exists k x, nth_error l k = Some x /\ y = f (i + k) x.
Proof.
  intros i y. split.
  - intros H. apply In_nth_error in H. destruct H as [k Hk].
    rewrite mapi_from_nth in Hk. destruct (nth_error l k) as [x|] eqn:E; [|discriminate].
    injection Hk as <-. eauto.
  - intros [k [x [Hk ->]]]. apply (nth_error_In _ k). rewrite mapi_from_nth, Hk. reflexivity.
Qed.

Lemma mapi_from_ext {X Y} (f g : nat -> X -> Y) l : forall i,
  (forall k x, nth_error l k = Some x -> f (i + k) x = g (i + k) x) -> mapi_from f i l = mapi_from g i l.
Proof.
  induction l as [|x r IH]; intros i H; cbn; [reflexivity|]. f_equal.
  - specialize (H 0 x eq_refl). now rewrite Nat.add_0_r in H.
  - apply IH. intros k y Hk. specialize (H (S k) y Hk). now replace (S i + k) with (i + S k) by lia.
Qed.

(* cmp at one child, folded back to compare *)
Definition order_meta (ordered : bool) (i0 i1 : nat) : meta :=
  if negb (Nat.eqb i0 i1) && ordered then [(k_dc, order_sx i0 i1)] else [].

Lemma cmp_unfold ordered ch1 i0 c0 :
  cmp ordered ch1 i0 c0 =
  match find_child ch1 (key c0) with
  | Some (i1, c1) =>
      let r := compare ordered (rch c0) (rch c1) in
      (T (id0 (rid c0)) (res_info (rinfo c0) (order_meta ordered i0 i1 ++ root_meta (snd r))) (fst r),
       negb (Nat.eqb i0 i1) && ordered)
  | None => (T (id0 (rid c0)) (res_info (rinfo c0) m_removed) [], false)
  end.
Proof. destruct c0 as [n0 inf0 ch0]. reflexivity. Qed.

(* ------------------------------------------------------------------ *)
(* small list facts                                                    *)
(* ------------------------------------------------------------------ *)
Lemma NoDup_map_filter {X Y} (g : X -> Y) (p : X -> bool) l : NoDup (map g l) -> NoDup (map g (filter p l)).
Proof.
  induction l as [|x l IH]; cbn; intros H; [constructor|]. inversion H as [|? ? Hn Hnd]; subst.
  destruct (p x); cbn; auto. constructor; auto.
  intros Hi. apply Hn. apply in_map_iff in Hi. destruct Hi as [y [E Hy]]. apply filter_In in Hy.
  rewrite <- E. apply in_map. tauto.
Qed.

Lemma NoDup_keys_nth l i j a b : NoDup (keys l) -> nth_error l i = Some a -> nth_error l j = Some b ->
  key a = key b -> i = j /\ a = b.
Proof.
  intros Hnd Hi Hj E.
  assert (Hi' : nth_error (keys l) i = Some (key a)) by (now apply map_nth_error).
  assert (Hj' : nth_error (keys l) j = Some (key b)) by (now apply map_nth_error).
  rewrite <- E in Hj'.
  assert (i = j).
  { apply (proj1 (NoDup_nth_error (keys l)) Hnd); [|congruence].
    apply nth_error_Some. congruence. }
  subst. split; congruence.
Qed.

Lemma existsb_map_fst_snd {X} (p : X -> bool) (l : list (X * bool)) :
  (forall y, In y l -> p (fst y) = snd y) -> existsb p (map fst l) = existsb snd l.
Proof.
  induction l as [|y l IH]; cbn; intros H; [reflexivity|]. rewrite H by now left. f_equal. apply IH. intros; apply H; now right.
Qed.

Lemma existsb_false {X} (p : X -> bool) l : (forall x, In x l -> p x = false) -> existsb p l = false.
Proof. induction l as [|x l IH]; cbn; intros H; [reflexivity|]. rewrite H by now left. apply IH. intros; apply H; now right. Qed.

(* ------------------------------------------------------------------ *)
(* the domain of the theorems                                          *)
(* ------------------------------------------------------------------ *)
(* exactly what the recursion of compare needs: unique keys among the
   siblings of both sides, == and data_id agree between the two child lists,
   recursively for the pairs that are matched *)
Inductive dom : list rt -> list rt -> Prop :=
| dom_intro ch0 ch1 :
    NoDup (keys ch0) -> NoDup (keys ch1) ->
    (forall c0 c1, In c0 ch0 -> In c1 ch1 -> (key c0 = key c1 <-> rdid c0 = rdid c1)) ->
    (forall c0 c1, In c0 ch0 -> In c1 ch1 -> key c0 = key c1 -> dom (rch c0) (rch c1)) ->
    dom ch0 ch1.

(* the readable, global form: no two siblings with equal data anywhere, and
   equality of data objects coincides with equality of data_ids across both trees *)
Definition sib_unique (f : forest) : Prop :=
  NoDup (keys f) /\ forall x, In x (pre_f f) -> NoDup (keys (rch x)).
Definition eq_agree (f0 f1 : forest) : Prop :=
  forall x y, In x (pre_f f0) -> In y (pre_f f1) -> (key x = key y <-> rdid x = rdid y).

Lemma pre_f_sub f c x : In c f -> In x (pre_f (rch c)) -> In x (pre_f f).
Proof.
  intros Hc Hx. apply in_flat_map. exists c. split; [exact Hc|]. rewrite pre_unfold. now right.
Qed.

Lemma dom_of_global : forall f0 f1, sib_unique f0 -> sib_unique f1 -> eq_agree f0 f1 -> dom f0 f1.
Proof.
  assert (G : forall c0, forall f0 f1, In c0 f0 -> sib_unique f0 -> forall c1, In c1 f1 -> sib_unique f1 -> eq_agree f0 f1 ->
              dom (rch c0) (rch c1)).
  { induction c0 as [n0 i0 ch0 IH] using rt_ind'. intros f0 f1 H0 [U0 V0] c1 H1 [U1 V1] Ag. cbn [rch].
    assert (S0 : sib_unique ch0).
    { split; [apply (V0 (T n0 i0 ch0)); now apply in_pre_f_top|].
      intros x Hx. apply V0. eapply pre_f_sub; eauto. }
    assert (S1 : sib_unique (rch c1)).
    { split; [apply V1; now apply in_pre_f_top|]. intros x Hx. apply V1. eapply pre_f_sub; eauto. }
    assert (Ag' : eq_agree ch0 (rch c1)).
    { intros x y Hx Hy. apply Ag; [eapply (pre_f_sub f0 (T n0 i0 ch0)); eauto | eapply pre_f_sub; eauto]. }
    constructor; [exact (proj1 S0)|exact (proj1 S1)| |].
    - intros a b Ha Hb. apply Ag'; now apply in_pre_f_top.
    - intros a b Ha Hb _. rewrite Forall_forall in IH. eapply (IH a Ha ch0 (rch c1)); eauto. }
  intros f0 f1 S0 S1 Ag. constructor; [exact (proj1 S0)|exact (proj1 S1)| |].
  - intros a b Ha Hb. apply Ag; now apply in_pre_f_top.
  - intros a b Ha Hb _. eapply G; eauto.
Qed.

(* ------------------------------------------------------------------ *)
(* the master relation between a result child list and the two source   *)
(* child lists of a node present in both trees                          *)
(* ------------------------------------------------------------------ *)
(* x is a copy of the whole t1 branch c: same labelled paths, every node
   copied from t1 (odd identity) and none marked REMOVED/MOVED_TO *)
Fixpoint paths (t : rt) : list (list Z) :=
  match t with T _ i ch => [i_eqc i] :: map (cons (i_eqc i)) (flat_map paths ch) end.
Notation paths_f := (flat_map paths).

(* the mark rule of _copy_children inside an added branch (the top itself is
   [new]): every node of the first level carries ADDED or MOVED_HERE, every
   deeper node carries no mark or MOVED_HERE (the re-classification can only
   turn a node of the branch into MOVED_HERE) *)
Definition deep_mark_ok (z : rt) : Prop := mark z = None \/ has_dc z MOVED_HERE = true.
Definition branch_marks (x : rt) : Prop :=
  Forall (fun y => new y = true /\ Forall deep_mark_ok (pre_f (rch y))) (rch x).

Definition copy1 (x c : rt) : Prop :=
  paths x = paths c /\ Forall (fun y => Nat.odd (rid y) = true /\ gone y = false) (pre x) /\
  ids_t x = map id1 (ids_t c) /\ branch_marks x.

Definition is_some {X} (o : option X) : bool := match o with Some _ => true | None => false end.
Definition order_mark (x : rt) : bool := negb (new x) && negb (gone x) && is_some (mark x).
Definition ren_of (b : bool) : option sx := if b then Some (A 1%Z) else None.
Definition raw_mark (ordered : bool) (i0 i1 : nat) : option sx :=
  if negb (Nat.eqb i0 i1) && ordered then Some (order_sx i0 i1) else None.

Inductive lvl (ordered : bool) : option sx -> list rt -> list rt -> list rt -> Prop :=
| lvl_intro ren r ch0 ch1 :
    NoDup (keys ch0) -> NoDup (keys ch1) ->
    keys (filter (fun x => negb (new x)) r) = keys ch0 ->
    NoDup (keys r) ->
    (forall x, In x r -> Nat.odd (rid x) = new x) ->
    (forall x, In x r -> new x = true ->
       ~ In (key x) (keys ch0) /\ exists c1, In c1 ch1 /\ key c1 = key x /\ copy1 x c1) ->
    (forall x, In x r -> new x = false -> (gone x = true <-> ~ In (key x) (keys ch1))) ->
    (forall c1, In c1 ch1 -> In (key c1) (keys r)) ->
    (forall x, In x r -> gone x = true -> rch x = []) ->
    (forall x i0 i1 c0 c1, In x r -> new x = false -> nth_error ch0 i0 = Some c0 -> nth_error ch1 i1 = Some c1 ->
       key c0 = key x -> key c1 = key x -> mark x = raw_mark ordered i0 i1) ->
    (forall x c0 c1, In x r -> new x = false -> In c0 ch0 -> In c1 ch1 ->
       key c0 = key x -> key c1 = key x -> lvl ordered (get_meta k_ren (rmeta x)) (rch x) (rch c0) (rch c1)) ->
    ren = ren_of (existsb order_mark r) ->
    lvl ordered ren r ch0 ch1.

(* ---- facts about the pieces of compare's result -------------------- *)
Lemma odd_id0 n : Nat.odd (id0 n) = false.
Proof. unfold id0. rewrite Nat.odd_mul. reflexivity. Qed.
Lemma odd_id1 n : Nat.odd (id1 n) = true.
Proof. unfold id1. rewrite Nat.odd_add, Nat.odd_mul. reflexivity. Qed.

Lemma order_not_dc i0 i1 c : sx_eqb (order_sx i0 i1) (dc_sx c) = false.
Proof. destruct c; reflexivity. Qed.

Lemma get_dc_raw ordered i0 i1 b : get_meta k_dc (order_meta ordered i0 i1 ++ root_meta b) = raw_mark ordered i0 i1.
Proof. unfold order_meta, raw_mark. destruct (negb (Nat.eqb i0 i1) && ordered), b; reflexivity. Qed.
Lemma get_ren_raw ordered i0 i1 b : get_meta k_ren (order_meta ordered i0 i1 ++ root_meta b) = ren_of b.
Proof. unfold order_meta. destruct (negb (Nat.eqb i0 i1) && ordered), b; reflexivity. Qed.

Lemma raw_mark_has_dc ordered i0 i1 b inf c :
  info_has_dc (res_info inf (order_meta ordered i0 i1 ++ root_meta b)) c = false.
Proof.
  unfold info_has_dc. cbn [i_meta res_info]. rewrite get_dc_raw. unfold raw_mark.
  destruct (negb (Nat.eqb i0 i1) && ordered); [apply order_not_dc|reflexivity].
Qed.

(* the copies of t1 branches *)
Lemma copy_child_paths : forall n m, paths (copy_child m n) = paths n.
Proof.
  induction n as [id i ch IH] using rt_ind'. intros m. cbn [copy_child paths res_info i_eqc]. do 2 f_equal.
  rewrite flat_map_concat_map, map_map, <- flat_map_concat_map.
  induction ch as [|c ch IHc]; [reflexivity|]. inversion IH as [|? ? Hc Hch]; subst. cbn. now rewrite Hc, IHc.
Qed.

Definition ok1 (y : rt) : Prop := Nat.odd (rid y) = true /\ gone y = false.

Lemma copy_child_ok : forall n m, (m = [] \/ m = m_added) -> Forall ok1 (pre (copy_child m n)).
Proof.
  induction n as [id i ch IH] using rt_ind'. intros m Hm. cbn [copy_child pre]. constructor.
  - split; [apply odd_id1|]. destruct Hm as [->| ->]; reflexivity.
  - apply Forall_forall. intros y Hy. apply in_flat_map in Hy. destruct Hy as [c' [Hc' Hy]].
    apply in_map_iff in Hc'. destruct Hc' as [c [<- Hc]]. rewrite Forall_forall in IH.
    specialize (IH c Hc [] (or_introl eq_refl)). rewrite Forall_forall in IH. auto.
Qed.

Lemma copy_child_ids : forall n m, ids_t (copy_child m n) = map id1 (ids_t n).
Proof.
  induction n as [id i ch IH] using rt_ind'. intros m. unfold ids_t. cbn [copy_child pre map rid]. f_equal.
  induction ch as [|c ch IHc]; [reflexivity|]. inversion IH as [|? ? Hc Hch]; subst.
  cbn [map flat_map]. rewrite !map_app. unfold ids_t in Hc. now rewrite Hc, IHc.
Qed.

Lemma add_top_ids c1 : ids_t (add_top c1) = map id1 (ids_t c1).
Proof.
  destruct c1 as [id i ch]. unfold add_top, ids_t, copy_children. cbn [rid rinfo rch pre map]. f_equal.
  induction ch as [|c ch IHc]; [reflexivity|]. cbn [map flat_map]. rewrite !map_app.
  pose proof (copy_child_ids c m_added) as Hc. unfold ids_t in Hc. now rewrite Hc, IHc.
Qed.

Lemma copy_child_nil_marks : forall n, Forall (fun z => mark z = None) (pre (copy_child [] n)).
Proof.
  induction n as [id i ch IH] using rt_ind'. cbn [copy_child pre]. constructor; [reflexivity|].
  apply Forall_forall. intros z Hz. apply in_flat_map in Hz. destruct Hz as [c' [Hc' Hz]].
  apply in_map_iff in Hc'. destruct Hc' as [c [<- Hc]]. rewrite Forall_forall in IH.
  specialize (IH c Hc). rewrite Forall_forall in IH. auto.
Qed.

Lemma add_top_branch_marks c1 : branch_marks (add_top c1).
Proof.
  destruct c1 as [id i ch]. unfold branch_marks, add_top, copy_children. cbn [rid rinfo rch].
  apply Forall_forall. intros y Hy. apply in_map_iff in Hy. destruct Hy as [c [<- Hc]]. split.
  - now destruct c.
  - destruct c as [idc ic chc]. cbn [copy_child rch]. apply Forall_forall. intros z Hz.
    apply in_flat_map in Hz. destruct Hz as [c' [Hc' Hz]]. apply in_map_iff in Hc'. destruct Hc' as [c2 [<- Hc2]].
    left. pose proof (copy_child_nil_marks c2) as H. rewrite Forall_forall in H. auto.
Qed.

Lemma add_top_copy1 c1 : copy1 (add_top c1) c1.
Proof.
  refine ((fun H => conj (proj1 H) (conj (proj2 H) (conj (add_top_ids c1) (add_top_branch_marks c1)))) _).
  destruct c1 as [id i ch]. split.
  - unfold add_top. cbn [rid rinfo rch].
    change (paths (T (id1 id) (res_info i m_added) (copy_children m_added ch)) = paths (T id i ch)).
    cbn [paths res_info i_eqc]. do 2 f_equal. unfold copy_children.
    rewrite flat_map_concat_map, map_map, <- flat_map_concat_map.
    induction ch as [|c ch IHc]; [reflexivity|]. cbn. now rewrite copy_child_paths, IHc.
  - unfold add_top. cbn [rid rinfo rch pre]. constructor.
    + split; [apply odd_id1|reflexivity].
    + apply Forall_forall. intros y Hy. apply in_flat_map in Hy. destruct Hy as [c' [Hc' Hy]].
      unfold copy_children in Hc'. apply in_map_iff in Hc'. destruct Hc' as [c [<- Hc]].
      pose proof (copy_child_ok c m_added (or_intror eq_refl)) as H. rewrite Forall_forall in H. exact (H y Hy).
Qed.

Lemma add_top_facts c1 : key (add_top c1) = key c1 /\ Nat.odd (rid (add_top c1)) = true /\
  new (add_top c1) = true /\ gone (add_top c1) = false.
Proof. destruct c1 as [id i ch]. unfold add_top. cbn [rid rinfo rch]. repeat split. apply odd_id1. Qed.

Lemma in_dids_false d l : in_dids d l = false <-> ~ In d (map rdid l).
Proof.
  unfold in_dids. split.
  - intros H Hi. apply in_map_iff in Hi. destruct Hi as [c [E Hc]].
    assert (existsb (fun c => did_eqb (rdid c) d) l = true); [|congruence].
    apply existsb_exists. exists c. split; [exact Hc|]. rewrite E. apply did_eqb_refl.
  - intros H. apply existsb_false. intros c Hc. destruct (did_eqb (rdid c) d) eqn:E; [|reflexivity].
    exfalso. apply H. apply did_eqb_eq in E. rewrite <- E. now apply in_map.
Qed.

(* under [dom] the data_id test of the second loop is a key test *)
Lemma in_dids_key ch0 ch1 c1 :
  (forall c0 c1, In c0 ch0 -> In c1 ch1 -> (key c0 = key c1 <-> rdid c0 = rdid c1)) -> In c1 ch1 ->
  (in_dids (rdid c1) ch0 = false <-> ~ In (key c1) (keys ch0)).
Proof.
  intros Ag H1. rewrite in_dids_false. split; intros H Hi; apply H; apply in_map_iff in Hi; destruct Hi as [c0 [E H0]].
  - apply in_map_iff. exists c0. split; [|exact H0]. now apply Ag.
  - apply in_map_iff. exists c0. split; [|exact H0]. now apply Ag.
Qed.

Lemma added_part_in ch0 ch1 x :
  In x (added_part ch0 ch1) <-> exists c1, In c1 ch1 /\ in_dids (rdid c1) ch0 = false /\ x = add_top c1.
Proof.
  unfold added_part. rewrite in_map_iff. split.
  - intros [c1 [<- H]]. apply filter_In in H. destruct H as [H1 H2]. exists c1. apply negb_true_iff in H2. auto.
  - intros [c1 [H1 [H2 ->]]]. exists c1. split; [reflexivity|]. apply filter_In. split; [exact H1|]. now rewrite H2.
Qed.

(* the copies of the t0 children *)
Definition r0_of ordered ch1 ch0 := map fst (mapi_from (cmp ordered ch1) 0 ch0).

Lemma r0_in ordered ch1 ch0 x : In x (r0_of ordered ch1 ch0) <->
  exists i0 c0, nth_error ch0 i0 = Some c0 /\ x = fst (cmp ordered ch1 i0 c0).
Proof.
  unfold r0_of. rewrite in_map_iff. split.
  - intros [y [<- Hy]]. apply mapi_from_in in Hy. destruct Hy as [k [c0 [Hk ->]]]. eauto.
  - intros [i0 [c0 [Hk ->]]]. eexists. split; [reflexivity|]. apply mapi_from_in. exists i0, c0. auto.
Qed.

Lemma cmp_basic ordered ch1 i0 c0 : let x := fst (cmp ordered ch1 i0 c0) in
  key x = key c0 /\ rid x = id0 (rid c0) /\ new x = false.
Proof.
  rewrite cmp_unfold. destruct (find_child ch1 (key c0)) as [[i1 c1]|]; cbn [fst]; repeat split.
  unfold new, new_i. cbn [rinfo]. now rewrite !raw_mark_has_dc.
Qed.

Lemma r0_keys ordered ch1 ch0 : keys (r0_of ordered ch1 ch0) = keys ch0.
Proof.
  unfold r0_of. generalize 0. induction ch0 as [|c ch0 IH]; intros i; cbn; [reflexivity|].
  rewrite IH. f_equal. apply cmp_basic.
Qed.

Lemma compare_split ordered ch0 ch1 :
  fst (compare ordered ch0 ch1) = r0_of ordered ch1 ch0 ++ added_part ch0 ch1.
Proof. reflexivity. Qed.

Lemma cmp_cases ordered ch1 i0 c0 : let x := fst (cmp ordered ch1 i0 c0) in
  (exists i1 c1, nth_error ch1 i1 = Some c1 /\ In c1 ch1 /\ key c1 = key c0 /\
     (forall k' c', k' < i1 -> nth_error ch1 k' = Some c' -> key c' <> key c0) /\
     gone x = false /\ mark x = raw_mark ordered i0 i1 /\
     rch x = fst (compare ordered (rch c0) (rch c1)) /\
     get_meta k_ren (rmeta x) = ren_of (snd (compare ordered (rch c0) (rch c1))) /\
     order_mark x = negb (Nat.eqb i0 i1) && ordered /\
     snd (cmp ordered ch1 i0 c0) = negb (Nat.eqb i0 i1) && ordered) \/
  (~ In (key c0) (keys ch1) /\ gone x = true /\ has_dc x REMOVED = true /\ rch x = [] /\ order_mark x = false /\
     snd (cmp ordered ch1 i0 c0) = false).
Proof.
  rewrite cmp_unfold. destruct (find_child ch1 (key c0)) as [[i1 c1]|] eqn:F; cbn [fst snd].
  - left. destruct (find_child_some _ _ _ _ F) as [Hn [Hk [Hin Hlt]]].
    exists i1, c1. refine (conj Hn (conj Hin (conj Hk (conj Hlt _)))).
    assert (G : gone (T (id0 (rid c0)) (res_info (rinfo c0)
                 (order_meta ordered i0 i1 ++ root_meta (snd (compare ordered (rch c0) (rch c1)))))
                 (fst (compare ordered (rch c0) (rch c1)))) = false).
    { unfold gone, gone_i. cbn [rinfo]. now rewrite !raw_mark_has_dc. }
    refine (conj G (conj _ (conj eq_refl (conj _ (conj _ eq_refl))))).
    + unfold mark, rmeta. cbn [rinfo res_info i_meta]. apply get_dc_raw.
    + unfold rmeta. cbn [rinfo res_info i_meta]. apply get_ren_raw.
    + unfold order_mark. rewrite G. unfold new, new_i. cbn [rinfo]. rewrite !raw_mark_has_dc.
      unfold mark, rmeta. cbn [rinfo res_info i_meta]. rewrite get_dc_raw. unfold raw_mark.
      destruct (negb (Nat.eqb i0 i1) && ordered); reflexivity.
  - right. refine (conj (find_child_none _ _ F) _). repeat split.
Qed.

Lemma filter_none {X} (p : X -> bool) l : (forall x, In x l -> p x = false) -> filter p l = [].
Proof. induction l as [|x l IH]; cbn; intros H; [reflexivity|]. rewrite H by now left. apply IH. intros; apply H; now right. Qed.

Lemma keys_map_add_top l : keys (map add_top l) = keys l.
Proof. rewrite map_map. apply map_ext. intros c. apply add_top_facts. Qed.

(* the raw result of compare satisfies the master relation *)
Lemma compare_lvl ordered : forall ch0 ch1, dom ch0 ch1 ->
  lvl ordered (ren_of (snd (compare ordered ch0 ch1))) (fst (compare ordered ch0 ch1)) ch0 ch1.
Proof.
  induction 1 as [ch0 ch1 N0 N1 Ag Hsub IH].
  rewrite compare_split.
  set (r0 := r0_of ordered ch1 ch0). set (ra := added_part ch0 ch1).
  assert (R0new : forall x, In x r0 -> new x = false).
  { intros x Hx. apply r0_in in Hx. destruct Hx as [i0 [c0 [_ ->]]]. apply cmp_basic. }
  assert (RA : forall x, In x ra -> exists c1, In c1 ch1 /\ ~ In (key c1) (keys ch0) /\ x = add_top c1).
  { intros x Hx. apply added_part_in in Hx. destruct Hx as [c1 [H1 [H2 ->]]]. exists c1.
    refine (conj H1 (conj _ eq_refl)). now apply (in_dids_key ch0 ch1 c1 Ag H1). }
  assert (RAnew : forall x, In x ra -> new x = true).
  { intros x Hx. destruct (RA x Hx) as [c1 [_ [_ ->]]]. apply add_top_facts. }
  assert (InR0 : forall x, In x (r0 ++ ra) -> new x = false -> In x r0).
  { intros x Hx Hn. apply in_app_or in Hx. destruct Hx as [Hx|Hx]; [exact Hx|]. rewrite (RAnew x Hx) in Hn. discriminate. }
  assert (Ident : forall x c0 c1, In x (r0 ++ ra) -> new x = false -> In c0 ch0 -> In c1 ch1 ->
            key c0 = key x -> key c1 = key x ->
            exists i0 i1, nth_error ch0 i0 = Some c0 /\ nth_error ch1 i1 = Some c1 /\
              gone x = false /\ mark x = raw_mark ordered i0 i1 /\
              rch x = fst (compare ordered (rch c0) (rch c1)) /\
              get_meta k_ren (rmeta x) = ren_of (snd (compare ordered (rch c0) (rch c1)))).
  { intros x c0 c1 Hx Hn H0 H1 K0 K1. apply InR0 in Hx; [|exact Hn].
    apply r0_in in Hx. destruct Hx as [j [c0' [Hj ->]]].
    destruct (cmp_basic ordered ch1 j c0') as [Kx _]. cbv zeta in Kx.
    destruct (In_nth_error _ _ H0) as [i0 Hi0].
    destruct (NoDup_keys_nth ch0 j i0 c0' c0 N0 Hj Hi0) as [-> ->]; [congruence|].
    destruct (cmp_cases ordered ch1 i0 c0) as [[i1 [c1' [Hi1 [Hin1 [Kc1 [_ [G [M [C [Rn _]]]]]]]]]]|[Hno _]].
    - assert (c1' = c1) by (apply (NoDup_map_inj key ch1); auto; congruence). subst c1'.
      exists i0, i1. auto 10.
    - exfalso. apply Hno. rewrite K0, <- K1. now apply in_map. }
  constructor; [exact N0|exact N1|..].
  - (* t0's child list, in order *)
    rewrite filter_app, (filter_all_true _ r0), (filter_none _ ra), app_nil_r.
    + apply r0_keys.
    + intros x Hx. now rewrite (RAnew x Hx).
    + intros x Hx. now rewrite (R0new x Hx).
  - rewrite map_app. unfold r0 at 1. rewrite r0_keys. apply NoDup_app_intro; [exact N0| |].
    + unfold ra, added_part. rewrite keys_map_add_top. now apply NoDup_map_filter.
    + intros k H0 Ha. apply in_map_iff in Ha. destruct Ha as [x [<- Hx]].
      destruct (RA x Hx) as [c1 [_ [Hno ->]]]. apply Hno.
      destruct (add_top_facts c1) as [K _]. rewrite K in H0. exact H0.
  - intros x Hx. apply in_app_or in Hx. destruct Hx as [Hx|Hx].
    + rewrite (R0new x Hx). apply r0_in in Hx. destruct Hx as [i0 [c0 [_ ->]]].
      destruct (cmp_basic ordered ch1 i0 c0) as [_ [-> _]]. apply odd_id0.
    + rewrite (RAnew x Hx). destruct (RA x Hx) as [c1 [_ [_ ->]]]. apply add_top_facts.
  - intros x Hx Hn. apply in_app_or in Hx. destruct Hx as [Hx|Hx]; [rewrite (R0new x Hx) in Hn; discriminate|].
    destruct (RA x Hx) as [c1 [H1 [Hno ->]]]. destruct (add_top_facts c1) as [K _]. rewrite K. split; [exact Hno|].
    exists c1. refine (conj H1 (conj eq_refl (add_top_copy1 c1))).
  - intros x Hx Hn. apply InR0 in Hx; [|exact Hn]. apply r0_in in Hx. destruct Hx as [i0 [c0 [Hi0 ->]]].
    destruct (cmp_basic ordered ch1 i0 c0) as [Kx _]. cbv zeta in Kx. rewrite Kx.
    destruct (cmp_cases ordered ch1 i0 c0) as [[i1 [c1 [Hi1 [Hin1 [Kc1 [_ [G _]]]]]]]|[Hno [G _]]]; rewrite G.
    + split; [discriminate|]. intros Hno. exfalso. apply Hno. rewrite <- Kc1. now apply in_map.
    + split; auto.
  - intros c1 H1. rewrite map_app. apply in_or_app.
    destruct (in_dec Z.eq_dec (key c1) (keys ch0)) as [Hi|Hno].
    + left. unfold r0. now rewrite r0_keys.
    + right. apply in_map_iff. exists (add_top c1). split; [apply add_top_facts|].
      apply added_part_in. exists c1. refine (conj H1 (conj _ eq_refl)). now apply (in_dids_key ch0 ch1 c1 Ag H1).
  - intros x Hx G. apply in_app_or in Hx. destruct Hx as [Hx|Hx].
    + apply r0_in in Hx. destruct Hx as [i0 [c0 [Hi0 ->]]].
      destruct (cmp_cases ordered ch1 i0 c0) as [[i1 [c1 [_ [_ [_ [_ [G' _]]]]]]]|[_ [_ [_ [C _]]]]]; [congruence|exact C].
    + destruct (RA x Hx) as [c1 [_ [_ ->]]]. destruct (add_top_facts c1) as [_ [_ [_ G']]]. congruence.
  - intros x i0 i1 c0 c1 Hx Hn Hi0 Hi1 K0 K1.
    destruct (Ident x c0 c1 Hx Hn (nth_error_In _ _ Hi0) (nth_error_In _ _ Hi1) K0 K1)
      as [j0 [j1 [Hj0 [Hj1 [_ [M _]]]]]].
    destruct (NoDup_keys_nth ch0 j0 i0 c0 c0 N0 Hj0 Hi0 eq_refl) as [-> _].
    destruct (NoDup_keys_nth ch1 j1 i1 c1 c1 N1 Hj1 Hi1 eq_refl) as [-> _]. exact M.
  - intros x c0 c1 Hx Hn H0 H1 K0 K1.
    destruct (Ident x c0 c1 Hx Hn H0 H1 K0 K1) as [j0 [j1 [_ [_ [_ [_ [C Rn]]]]]]].
    rewrite C, Rn. apply IH; auto. congruence.
  - f_equal. rewrite existsb_app, (existsb_false order_mark ra), orb_false_r.
    + unfold compare. cbn [snd]. unfold r0, r0_of. symmetry. apply existsb_map_fst_snd.
      intros y Hy. apply mapi_from_in in Hy. destruct Hy as [k [c0 [_ ->]]].
      destruct (cmp_cases ordered ch1 (0 + k) c0) as [[i1 [c1 [_ [_ [_ [_ [_ [_ [_ [_ [Ho Hs]]]]]]]]]]]|[_ [_ [_ [_ [Ho Hs]]]]]];
        congruence.
    + intros x Hx. unfold order_mark. now rewrite (RAnew x Hx).
Qed.

(* ------------------------------------------------------------------ *)
(* re-classification steps preserve the master relation                *)
(* ------------------------------------------------------------------ *)
(* what one iteration of the loop can do to a node: nothing, MOVED_HERE on
   a node copied from t1, or REMOVED -> MOVED_TO *)
Definition step_ok (g : nat -> info -> info) : Prop := forall id inf,
  g id inf = inf \/
  (Nat.odd id = true /\ g id inf = set_dc MOVED_HERE inf) \/
  (info_has_dc inf REMOVED = true /\ g id inf = set_dc MOVED_TO inf).

Lemma get_set_other k k' v m : text_eqb k k' = false -> get_meta k' (set_meta k v m) = get_meta k' m.
Proof.
  intros Hk. induction m as [|[k2 v2] m IH]; cbn.
  - now rewrite Hk.
  - destruct (text_eqb k2 k) eqn:E; cbn.
    + apply text_eqb_eq in E. subst k2. now rewrite Hk.
    + now rewrite IH.
Qed.

Lemma map_info_pre g : forall x, pre (map_info g x) = map (map_info g) (pre x).
Proof.
  induction x as [id i ch IH] using rt_ind'. cbn [map_info pre map]. f_equal.
  induction ch as [|c ch IHc]; [reflexivity|]. inversion IH as [|? ? Hc Hch]; subst.
  cbn [map flat_map]. rewrite map_app, Hc, IHc; auto.
Qed.

Lemma map_info_pre_f g f : pre_f (map (map_info g) f) = map (map_info g) (pre_f f).
Proof. induction f as [|c f IH]; [reflexivity|]. cbn [map flat_map]. now rewrite map_app, map_info_pre, IH. Qed.

Lemma map_info_paths g : (forall id i, i_eqc (g id i) = i_eqc i) -> forall x, paths (map_info g x) = paths x.
Proof.
  intros Hg. induction x as [id i ch IH] using rt_ind'. cbn [map_info paths]. rewrite Hg. do 2 f_equal.
  induction ch as [|c ch IHc]; [reflexivity|]. inversion IH as [|? ? Hc Hch]; subst. cbn. now rewrite Hc, IHc.
Qed.

Lemma step_ok_eqc g : step_ok g -> forall id i, i_eqc (g id i) = i_eqc i.
Proof. intros H id i. destruct (H id i) as [-> |[[_ ->]|[_ ->]]]; reflexivity. Qed.
Lemma step_ok_did g : step_ok g -> forall id i, i_did (g id i) = i_did i.
Proof. intros H id i. destruct (H id i) as [-> |[[_ ->]|[_ ->]]]; reflexivity. Qed.

Lemma map_info_rid g x : rid (map_info g x) = rid x. Proof. now destruct x. Qed.
Lemma map_info_rch g x : rch (map_info g x) = map (map_info g) (rch x). Proof. now destruct x. Qed.
Lemma map_info_rinfo g x : rinfo (map_info g x) = g (rid x) (rinfo x). Proof. now destruct x. Qed.

Lemma removed_gone i : info_has_dc i REMOVED = true -> gone_i i = true.
Proof. intros H. unfold gone_i. now rewrite H. Qed.

Lemma step_node g x : step_ok g -> let x' := map_info g x in
  rid x' = rid x /\ key x' = key x /\ rdid x' = rdid x /\ rch x' = map (map_info g) (rch x) /\
  get_meta k_ren (rmeta x') = get_meta k_ren (rmeta x) /\
  (Nat.odd (rid x) = new x -> new x' = new x /\
     (new x = false -> gone x' = gone x /\ (gone x = false -> rinfo x' = rinfo x))) /\
  (ok1 x -> ok1 x').
Proof.
  intros Hg x'. subst x'. unfold ok1. unfold key, rdid, rmeta, new, gone.
  rewrite map_info_rid, map_info_rch, map_info_rinfo, (step_ok_eqc g Hg), (step_ok_did g Hg).
  refine (conj eq_refl (conj eq_refl (conj eq_refl (conj eq_refl _)))).
  destruct (Hg (rid x) (rinfo x)) as [E|[[Ho E]|[Hr E]]]; rewrite E; clear E.
  - repeat split; auto; tauto.
  - split; [unfold set_dc; cbn; apply get_set_other; reflexivity|]. split.
    + intros Hn. rewrite Ho in Hn. rewrite <- Hn. split; [|discriminate].
      unfold new_i. rewrite !info_has_dc_set_b. reflexivity.
    + intros [_ G]. split; [exact Ho|]. unfold gone_i. rewrite !info_has_dc_set_b. reflexivity.
  - split; [unfold set_dc; cbn; apply get_set_other; reflexivity|].
    pose proof (removed_gone _ Hr) as G. pose proof (gone_new_excl _ G) as N. split.
    + intros _. rewrite N. split.
      * unfold new_i. rewrite !info_has_dc_set_b. reflexivity.
      * intros _. rewrite G. split; [|discriminate]. unfold gone_i. rewrite !info_has_dc_set_b. reflexivity.
    + intros [_ G']. congruence.
Qed.

Lemma filter_map_comm {X} (p : X -> bool) (F : X -> X) l :
  (forall x, In x l -> p (F x) = p x) -> filter p (map F l) = map F (filter p l).
Proof.
  induction l as [|x l IH]; cbn; intros H; [reflexivity|]. rewrite H by now left.
  destruct (p x); cbn; rewrite IH; auto; intros; apply H; now right.
Qed.

Lemma existsb_map_comp' {X Y} (p : Y -> bool) (F : X -> Y) l : existsb p (map F l) = existsb (fun x => p (F x)) l.
Proof. induction l as [|x l IH]; cbn; [reflexivity|now rewrite IH]. Qed.
Lemma existsb_ext_in' {X} (p q : X -> bool) l : (forall x, In x l -> p x = q x) -> existsb p l = existsb q l.
Proof. induction l as [|x l IH]; cbn; intros H; [reflexivity|]. rewrite H by now left. f_equal. apply IH. intros; apply H; now right. Qed.

Lemma map_ext_in' {X Y} (f g : X -> Y) l : (forall x, In x l -> f x = g x) -> map f l = map g l.
Proof. apply map_ext_in. Qed.

Lemma has_dc_info' x c : has_dc x c = info_has_dc (rinfo x) c.
Proof. reflexivity. Qed.

Lemma new_step g y : step_ok g -> new y = true -> new (map_info g y) = true.
Proof.
  intros Hg Hn. unfold new in *. rewrite map_info_rinfo.
  destruct (Hg (rid y) (rinfo y)) as [-> |[[_ ->]|[Hr _]]]; [exact Hn| |].
  - unfold new_i. rewrite !info_has_dc_set_b. reflexivity.
  - pose proof (gone_new_excl _ (removed_gone _ Hr)). congruence.
Qed.

Lemma deep_mark_step g z : step_ok g -> deep_mark_ok z -> deep_mark_ok (map_info g z).
Proof.
  intros Hg H. unfold deep_mark_ok in *. rewrite has_dc_info' , map_info_rinfo. unfold mark, rmeta. rewrite map_info_rinfo.
  destruct (Hg (rid z) (rinfo z)) as [-> |[[_ ->]|[Hr _]]]; [exact H| |].
  - right. now apply info_has_dc_set.
  - exfalso. destruct H as [H|H].
    + unfold info_has_dc in Hr. unfold mark, rmeta in H. now rewrite H in Hr.
    + pose proof (info_has_dc_unique _ _ _ Hr H). discriminate.
Qed.

Lemma branch_marks_step g x : step_ok g -> branch_marks x -> branch_marks (map_info g x).
Proof.
  intros Hg H. unfold branch_marks in *. rewrite map_info_rch. apply Forall_forall. intros y' Hy'.
  apply in_map_iff in Hy'. destruct Hy' as [y [<- Hy]]. rewrite Forall_forall in H. destruct (H y Hy) as [N D]. split.
  - now apply new_step.
  - rewrite map_info_rch, map_info_pre_f. apply Forall_forall. intros z' Hz'. apply in_map_iff in Hz'.
    destruct Hz' as [z [<- Hz]]. rewrite Forall_forall in D. apply deep_mark_step; auto.
Qed.

Lemma lvl_step ordered g : step_ok g -> forall ren r ch0 ch1,
  lvl ordered ren r ch0 ch1 -> lvl ordered ren (map (map_info g) r) ch0 ch1.
Proof.
  intros Hg ren r ch0 ch1 H.
  induction H as [ren r ch0 ch1 N0 N1 L1 L2 L3 L4 L5 L6 L7 L8 L9 IH L10].
  assert (KN : forall x, In x r -> key (map_info g x) = key x /\ new (map_info g x) = new x).
  { intros x Hx. destruct (step_node g x Hg) as [_ [K [_ [_ [_ [N _]]]]]]. split; [exact K|]. apply N. now apply L3. }
  assert (Keys : keys (map (map_info g) r) = keys r).
  { rewrite map_map. apply map_ext_in. intros x Hx. apply KN, Hx. }
  constructor; [exact N0|exact N1|..].
  - rewrite filter_map_comm.
    + rewrite map_map. rewrite <- L1. apply map_ext_in. intros x Hx. apply filter_In in Hx. apply KN, Hx.
    + intros x Hx. f_equal. apply KN, Hx.
  - now rewrite Keys.
  - intros x' Hx'. apply in_map_iff in Hx'. destruct Hx' as [x [<- Hx]].
    rewrite map_info_rid. rewrite (proj2 (KN x Hx)). now apply L3.
  - intros x' Hx' Hn'. apply in_map_iff in Hx'. destruct Hx' as [x [<- Hx]].
    destruct (KN x Hx) as [K N]. rewrite N in Hn'. rewrite K.
    destruct (L4 x Hx Hn') as [Hno [c1 [H1 [K1 [P [O [I BM]]]]]]]. split; [exact Hno|]. exists c1.
    refine (conj H1 (conj K1 (conj _ (conj _ (conj _ (branch_marks_step g x Hg BM)))))).
    + rewrite map_info_paths; [exact P|apply step_ok_eqc, Hg].
    + rewrite map_info_pre. apply Forall_forall. intros y' Hy'. apply in_map_iff in Hy'. destruct Hy' as [y [<- Hy]].
      rewrite Forall_forall in O. apply (step_node g y Hg). apply O, Hy.
    + rewrite <- I. unfold ids_t. rewrite map_info_pre, map_map. apply map_ext. intros y. apply map_info_rid.
  - intros x' Hx' Hn'. apply in_map_iff in Hx'. destruct Hx' as [x [<- Hx]].
    destruct (KN x Hx) as [K N]. rewrite N in Hn'. rewrite K.
    destruct (step_node g x Hg) as [_ [_ [_ [_ [_ [S _]]]]]]. destruct (S (L3 x Hx)) as [_ S']. destruct (S' Hn') as [G _].
    rewrite G. now apply L5.
  - intros c1 H1. rewrite Keys. now apply L6.
  - intros x' Hx' G'. apply in_map_iff in Hx'. destruct Hx' as [x [<- Hx]].
    rewrite map_info_rch.
    destruct (step_node g x Hg) as [_ [_ [_ [_ [_ [S _]]]]]]. destruct (S (L3 x Hx)) as [N S'].
    destruct (new x) eqn:Nx.
    + exfalso. pose proof (gone_new_excl _ G') as Z. unfold new in N. congruence.
    + destruct (S' eq_refl) as [G _]. rewrite G in G'. now rewrite (L7 x Hx G').
  - intros x' i0 i1 c0 c1 Hx' Hn' Hi0 Hi1 K0 K1. apply in_map_iff in Hx'. destruct Hx' as [x [<- Hx]].
    destruct (KN x Hx) as [K N]. rewrite N in Hn'. rewrite K in K0, K1.
    rewrite <- (L8 x i0 i1 c0 c1 Hx Hn' Hi0 Hi1 K0 K1).
    destruct (step_node g x Hg) as [_ [_ [_ [_ [_ [S _]]]]]]. destruct (S (L3 x Hx)) as [_ S']. destruct (S' Hn') as [G I].
    assert (Gx : gone x = false).
    { destruct (gone x) eqn:Gx; [|reflexivity]. exfalso. apply (proj1 (L5 x Hx Hn')); [exact Gx|].
      rewrite <- K1. apply in_map. eapply nth_error_In; eauto. }
    unfold mark, rmeta. now rewrite (I Gx).
  - intros x' c0 c1 Hx' Hn' H0 H1 K0 K1. apply in_map_iff in Hx'. destruct Hx' as [x [<- Hx]].
    destruct (KN x Hx) as [K N]. rewrite N in Hn'. rewrite K in K0, K1.
    destruct (step_node g x Hg) as [_ [_ [_ [C [Rn _]]]]]. rewrite C, Rn. now apply (IH x c0 c1).
  - rewrite L10. f_equal. rewrite existsb_map_comp'.
    apply existsb_ext_in'. intros x Hx. symmetry.
    destruct (KN x Hx) as [K N].
    destruct (step_node g x Hg) as [_ [_ [_ [_ [_ [S _]]]]]]. destruct (S (L3 x Hx)) as [_ S'].
    unfold order_mark. rewrite N. destruct (new x) eqn:Nx; [reflexivity|]. destruct (S' eq_refl) as [G I].
    rewrite G. destruct (gone x) eqn:Gx; [reflexivity|]. unfold mark, rmeta. now rewrite (I eq_refl).
Qed.

Lemma reclass_fn_ok a d : Nat.odd a = true -> step_ok (reclass_fn a d).
Proof.
  intros Ha id inf. unfold reclass_fn.
  destruct (Nat.eqb id a && did_eqb (i_did inf) d) eqn:E.
  - right; left. apply andb_true_iff in E. destruct E as [E _]. apply Nat.eqb_eq in E. subst. auto.
  - destruct (did_eqb (i_did inf) d && info_has_dc inf REMOVED) eqn:E2; [|now left].
    right; right. apply andb_true_iff in E2. tauto.
Qed.

Lemma reclass_step_cases f a :
  reclass_step f a = f \/ exists g, step_ok g /\ reclass_step f a = map (map_info g) f.
Proof.
  unfold reclass_step. destruct (Nat.odd a) eqn:Ha; [|now left].
  destruct (find_node a f) as [n|]; [|now left].
  match goal with |- context [if ?b then _ else _] => destruct b end; [|now left].
  right. exists (reclass_fn a (rdid n)). split; [now apply reclass_fn_ok|reflexivity].
Qed.

Lemma reclass_preserves (P : forest -> Prop) :
  (forall g f, step_ok g -> P f -> P (map (map_info g) f)) ->
  forall order f, P f -> P (reclass order f).
Proof.
  intros HP order. unfold reclass. induction order as [|a order IH]; intros f Hf; [exact Hf|].
  cbn [fold_left]. apply IH. destruct (reclass_step_cases f a) as [-> |[g [Hg ->]]]; auto.
Qed.

Lemma get_ren_root b : get_meta k_ren (root_meta b) = ren_of b.
Proof. now destruct b. Qed.

(* the master relation holds for the final (unreduced) result, for EVERY
   iteration order of the re-classification *)
Theorem diff_lvl order ordered t0 t1 : dom t0 t1 ->
  let r := diff_with order ordered false t0 t1 in
  lvl ordered (get_meta k_ren (fst r)) (snd r) t0 t1.
Proof.
  intros Hd. cbn. rewrite get_ren_root.
  apply (reclass_preserves (fun f => lvl ordered _ f t0 t1)).
  - intros g f Hg. now apply lvl_step.
  - now apply compare_lvl.
Qed.

(* ------------------------------------------------------------------ *)
(* readable consequences of the master relation                        *)
(* ------------------------------------------------------------------ *)
Lemma lvl_in_keys ordered ren r ch0 ch1 : lvl ordered ren r ch0 ch1 ->
  forall x, In x r ->
    (new x = false -> In (key x) (keys ch0)) /\
    (gone x = false -> In (key x) (keys ch1)) /\
    (In (key x) (keys ch0) -> new x = false).
Proof.
  intros H. inversion H as [? ? ? ? N0 N1 L1 L2 L3 L4 L5 L6 L7 L8 L9 L10]; subst. intros x Hx.
  refine (conj _ (conj _ _)).
  - intros Hn. rewrite <- L1. apply in_map. apply filter_In. split; [exact Hx|]. now rewrite Hn.
  - intros G. destruct (new x) eqn:Hn.
    + destruct (L4 x Hx Hn) as [_ [c1 [H1 [K1 _]]]]. rewrite <- K1. now apply in_map.
    + destruct (in_dec Z.eq_dec (key x) (keys ch1)) as [Hi|Hno]; [exact Hi|].
      apply (L5 x Hx Hn) in Hno. congruence.
  - intros Hi. destruct (new x) eqn:Hn; [|reflexivity]. destruct (L4 x Hx Hn) as [Hno _]. contradiction.
Qed.

Lemma in_keys_ex l k : In k (keys l) -> exists c, In c l /\ key c = k.
Proof. intros H. apply in_map_iff in H. destruct H as [c [E Hc]]. eauto. Qed.

(* (A) projection to t0: dropping ADDED/MOVED_HERE children gives t0's child
   list, in order, below every node present in both trees (a REMOVED /
   MOVED_TO child is not present in both: nothing is claimed below it) *)
Inductive proj0 : list rt -> list rt -> Prop :=
| p0_nil : proj0 [] []
| p0_new x r l0 : new x = true -> proj0 r l0 -> proj0 (x :: r) l0
| p0_gone x r c0 l0 : new x = false -> gone x = true -> key x = key c0 -> proj0 r l0 -> proj0 (x :: r) (c0 :: l0)
| p0_both x r c0 l0 : new x = false -> gone x = false -> key x = key c0 ->
    proj0 (rch x) (rch c0) -> proj0 r l0 -> proj0 (x :: r) (c0 :: l0).

Lemma proj0_build : forall r l0,
  keys (filter (fun x => negb (new x)) r) = keys l0 ->
  (forall x c0, In x r -> In c0 l0 -> new x = false -> gone x = false -> key c0 = key x -> proj0 (rch x) (rch c0)) ->
  proj0 r l0.
Proof.
  induction r as [|x r IH]; intros l0 HK HR.
  - destruct l0; [constructor|discriminate].
  - cbn [filter] in HK. destruct (new x) eqn:Hn; cbn [negb] in HK.
    + apply p0_new; [exact Hn|]. apply IH; [exact HK|]. intros y c0 Hy. apply HR. now right.
    + destruct l0 as [|c0 l0]; [discriminate|]. cbn [map] in HK. injection HK as K HK.
      assert (P : proj0 r l0).
      { apply IH; [exact HK|]. intros y c Hy Hc. apply HR; now right. }
      destruct (gone x) eqn:G.
      * now apply p0_gone.
      * apply p0_both; auto. apply HR; auto; now left.
Qed.

Lemma lvl_proj0 ordered : forall ren r ch0 ch1, lvl ordered ren r ch0 ch1 -> proj0 r ch0.
Proof.
  intros ren r ch0 ch1 H. pose proof (lvl_in_keys _ _ _ _ _ H) as IK.
  induction H as [ren r ch0 ch1 N0 N1 L1 L2 L3 L4 L5 L6 L7 L8 L9 IH L10].
  apply proj0_build; [exact L1|]. intros x c0 Hx H0 Hn G K.
  destruct (IK x Hx) as [_ [I1 _]]. destruct (in_keys_ex _ _ (I1 G)) as [c1 [H1 K1]].
  apply (IH x c0 c1 Hx Hn H0 H1 K K1). eapply lvl_in_keys. eauto.
Qed.

(* (B) the marks sit exactly on the children present on one side only *)
Inductive marks_exact : list rt -> list rt -> list rt -> Prop :=
| marks_exact_intro r ch0 ch1 :
    (forall x, In x r -> (new x = true <-> (~ In (key x) (keys ch0) /\ In (key x) (keys ch1)))) ->
    (forall x, In x r -> (gone x = true <-> (In (key x) (keys ch0) /\ ~ In (key x) (keys ch1)))) ->
    (forall x, In x r -> In (key x) (keys ch0) \/ In (key x) (keys ch1)) ->
    (forall c, In c ch0 \/ In c ch1 -> In (key c) (keys r)) ->
    (forall x c0 c1, In x r -> In c0 ch0 -> In c1 ch1 -> key c0 = key x -> key c1 = key x ->
       marks_exact (rch x) (rch c0) (rch c1)) ->
    marks_exact r ch0 ch1.

Lemma lvl_marks_exact ordered : forall ren r ch0 ch1, lvl ordered ren r ch0 ch1 -> marks_exact r ch0 ch1.
Proof.
  intros ren r ch0 ch1 H. pose proof (lvl_in_keys _ _ _ _ _ H) as IK.
  induction H as [ren r ch0 ch1 N0 N1 L1 L2 L3 L4 L5 L6 L7 L8 L9 IH L10].
  constructor.
  - intros x Hx. destruct (IK x Hx) as [I0 [I1 I2]]. split.
    + intros Hn. split; [apply (L4 x Hx Hn)|]. apply I1. destruct (gone x) eqn:G; [|reflexivity].
      pose proof (gone_new_excl _ G) as Z. unfold new in Hn. congruence.
    + intros [Hno _]. destruct (new x) eqn:Hn; [reflexivity|]. exfalso. now apply Hno, I0.
  - intros x Hx. destruct (IK x Hx) as [I0 [I1 I2]]. split.
    + intros G. pose proof (gone_new_excl _ G) as Hn. fold (new x) in Hn. split; [now apply I0|]. now apply (L5 x Hx Hn).
    + intros [Hi Hno]. apply (L5 x Hx (I2 Hi)). exact Hno.
  - intros x Hx. destruct (IK x Hx) as [I0 [I1 I2]]. destruct (new x) eqn:Hn.
    + right. apply I1. destruct (gone x) eqn:G; [|reflexivity].
      pose proof (gone_new_excl _ G) as Z. unfold new in Hn. congruence.
    + left. now apply I0.
  - intros c [H0|H1]; [|now apply L6].
    assert (In (key c) (keys (filter (fun x => negb (new x)) r))) by (rewrite L1; now apply in_map).
    apply in_map_iff in H. destruct H as [x [E Hx]]. apply filter_In in Hx. rewrite <- E. apply in_map. tauto.
  - intros x c0 c1 Hx H0 H1 K0 K1. destruct (IK x Hx) as [_ [_ I2]].
    assert (Hn : new x = false) by (apply I2; rewrite <- K0; now apply in_map).
    apply (IH x c0 c1 Hx Hn H0 H1 K0 K1). eapply lvl_in_keys. eauto.
Qed.

(* (D) order marks: a child present in both trees carries (i0, i1) = its true
   index in t0's and in t1's child list iff [ordered] and they differ, and no
   mark otherwise; the parent carries dc_renumbered iff one of its children
   carries an order mark *)
Inductive order_exact (ordered : bool) : option sx -> list rt -> list rt -> list rt -> Prop :=
| order_exact_intro ren r ch0 ch1 :
    (forall x i0 i1 c0 c1, In x r -> nth_error ch0 i0 = Some c0 -> nth_error ch1 i1 = Some c1 ->
       key c0 = key x -> key c1 = key x ->
       mark x = (if negb (Nat.eqb i0 i1) && ordered then Some (order_sx i0 i1) else None)) ->
    ren = (if existsb order_mark r then Some (A 1%Z) else None) ->
    (forall x c0 c1, In x r -> In c0 ch0 -> In c1 ch1 -> key c0 = key x -> key c1 = key x ->
       order_exact ordered (get_meta k_ren (rmeta x)) (rch x) (rch c0) (rch c1)) ->
    order_exact ordered ren r ch0 ch1.

Lemma lvl_order_exact ordered : forall ren r ch0 ch1, lvl ordered ren r ch0 ch1 -> order_exact ordered ren r ch0 ch1.
Proof.
  intros ren r ch0 ch1 H. pose proof (lvl_in_keys _ _ _ _ _ H) as IK.
  induction H as [ren r ch0 ch1 N0 N1 L1 L2 L3 L4 L5 L6 L7 L8 L9 IH L10].
  constructor.
  - intros x i0 i1 c0 c1 Hx Hi0 Hi1 K0 K1. destruct (IK x Hx) as [_ [_ I2]].
    assert (Hn : new x = false) by (apply I2; rewrite <- K0; apply in_map; eapply nth_error_In; eauto).
    exact (L8 x i0 i1 c0 c1 Hx Hn Hi0 Hi1 K0 K1).
  - exact L10.
  - intros x c0 c1 Hx H0 H1 K0 K1. destruct (IK x Hx) as [_ [_ I2]].
    assert (Hn : new x = false) by (apply I2; rewrite <- K0; now apply in_map).
    apply (IH x c0 c1 Hx Hn H0 H1 K0 K1). eapply lvl_in_keys. eauto.
Qed.

(* without [ordered] there is no order mark and no dc_renumbered anywhere
   below nodes present in both trees *)
Lemma order_exact_unordered : forall ren r ch0 ch1, order_exact false ren r ch0 ch1 ->
  forall x c0 c1, In x r -> In c0 ch0 -> In c1 ch1 -> key c0 = key x -> key c1 = key x -> mark x = None.
Proof.
  intros ren r ch0 ch1 H. inversion H as [? ? ? ? M _ _]; subst. intros x c0 c1 Hx H0 H1 K0 K1.
  destruct (In_nth_error _ _ H0) as [i0 Hi0]. destruct (In_nth_error _ _ H1) as [i1 Hi1].
  rewrite (M x i0 i1 c0 c1 Hx Hi0 Hi1 K0 K1). now rewrite andb_false_r.
Qed.

(* (C) projection to t1: dropping the REMOVED/MOVED_TO nodes gives t1's
   parent-child relation.  A node is identified by the path of data objects
   leading to it (unique under sibling uniqueness); the paths of the projected
   result are a permutation of t1's paths (the order of siblings is t0's for
   the common children, followed by the added ones). *)
Fixpoint drop10 (t : rt) : list rt :=
  match t with T id i ch => if gone_i i then [] else [T id i (flat_map drop10 ch)] end.

Lemma perm_flat_by_key {X Y W} (kx : X -> Z) (ky : Y -> Z) (F : X -> list W) (G : Y -> list W) :
  forall l l', NoDup (map kx l) -> NoDup (map ky l') ->
  (forall x, In x l -> In (kx x) (map ky l')) ->
  (forall y, In y l' -> In (ky y) (map kx l)) ->
  (forall x y, In x l -> In y l' -> kx x = ky y -> Permutation (F x) (G y)) ->
  Permutation (flat_map F l) (flat_map G l').
Proof.
  induction l as [|x l IH]; intros l' Nx Ny Hxy Hyx HP.
  - destruct l' as [|y l']; [constructor|]. exfalso. exact (Hyx y (or_introl eq_refl)).
  - assert (Hx : In (kx x) (map ky l')) by (apply Hxy; now left).
    apply in_map_iff in Hx. destruct Hx as [y [Ky Hy]].
    destruct (in_split _ _ Hy) as [a [b ->]].
    rewrite flat_map_app. cbn [flat_map].
    rewrite map_app in Ny. cbn [map] in Ny. pose proof (NoDup_remove _ _ _ Ny) as [Nab Nny].
    inversion Nx as [|? ? Nnx Nl]; subst.
    eapply Permutation_trans; [|apply Permutation_app_comm].
    rewrite <- app_assoc. apply Permutation_app.
    + apply HP; [now left|apply in_or_app; right; now left|auto].
    + eapply Permutation_trans; [|apply Permutation_app_comm]. rewrite <- flat_map_app.
      apply IH.
      * exact Nl.
      * now rewrite map_app.
      * intros x' Hx'. assert (H : In (kx x') (map ky (a ++ y :: b))) by (apply Hxy; now right).
        rewrite map_app in H |- *. cbn [map] in H. apply in_app_or in H. apply in_or_app.
        destruct H as [H|[H|H]]; auto. exfalso. apply Nnx. rewrite <- Ky, H. now apply in_map.
      * intros y' Hy'. assert (H : In (ky y') (map kx (x :: l))).
        { apply Hyx. apply in_app_or in Hy'. apply in_or_app. destruct Hy'; [now left|right; now right]. }
        destruct H as [H|H]; [|exact H]. exfalso. apply Nny. rewrite Ky, H, <- map_app. now apply in_map.
      * intros x' y' Hx' Hy'. apply HP; [now right|]. apply in_app_or in Hy'. apply in_or_app.
        destruct Hy'; [now left|right; now right].
Qed.

Lemma flat_map_flat_map {X Y W} (f : X -> list Y) (g : Y -> list W) l :
  flat_map g (flat_map f l) = flat_map (fun x => flat_map g (f x)) l.
Proof. induction l as [|x l IH]; [reflexivity|]. cbn. now rewrite flat_map_app, IH. Qed.

Lemma flat_map_filter_nil {X W} (p : X -> bool) (F : X -> list W) l :
  (forall x, In x l -> p x = false -> F x = []) -> flat_map F l = flat_map F (filter p l).
Proof.
  induction l as [|x l IH]; intros H; [reflexivity|]. cbn. destruct (p x) eqn:E; cbn.
  - f_equal. apply IH. intros; apply H; auto. now right.
  - rewrite (H x); auto; [|now left]. apply IH. intros; apply H; auto. now right.
Qed.

Lemma drop10_id : forall x, Forall (fun y => gone y = false) (pre x) -> drop10 x = [x].
Proof.
  induction x as [id i ch IH] using rt_ind'. intros H. cbn [pre] in H. inversion H as [|? ? G Hch]; subst.
  cbn [drop10]. unfold gone in G. cbn [rinfo] in G. rewrite G. do 2 f_equal. clear H.
  induction ch as [|c ch IHc]; [reflexivity|]. inversion IH as [|? ? Hc Hcs]; subst.
  cbn [flat_map] in Hch |- *. apply Forall_app in Hch. destruct Hch as [H1 H2].
  rewrite (Hc H1), IHc; auto.
Qed.

Lemma drop10_paths x : paths_f (drop10 x) =
  if gone x then [] else [key x] :: map (cons (key x)) (paths_f (flat_map drop10 (rch x))).
Proof.
  destruct x as [id i ch]. unfold gone, key. cbn [drop10 rinfo rch]. destruct (gone_i i); [reflexivity|].
  cbn [flat_map paths]. now rewrite app_nil_r.
Qed.

Lemma paths_unfold x : paths x = [key x] :: map (cons (key x)) (paths_f (rch x)).
Proof. now destruct x. Qed.

Lemma lvl_proj1 ordered : forall ren r ch0 ch1, lvl ordered ren r ch0 ch1 ->
  Permutation (paths_f (flat_map drop10 r)) (paths_f ch1).
Proof.
  intros ren r ch0 ch1 H. pose proof (lvl_in_keys _ _ _ _ _ H) as IK.
  induction H as [ren r ch0 ch1 N0 N1 L1 L2 L3 L4 L5 L6 L7 L8 L9 IH L10].
  rewrite flat_map_flat_map.
  rewrite (flat_map_filter_nil (fun x => negb (gone x))).
  2:{ intros x _ G. apply negb_false_iff in G. now rewrite drop10_paths, G. }
  apply (perm_flat_by_key key key).
  - now apply NoDup_map_filter.
  - exact N1.
  - intros x Hx. apply filter_In in Hx. destruct Hx as [Hx G]. apply negb_true_iff in G. now apply (IK x Hx).
  - intros y Hy. destruct (in_keys_ex _ _ (L6 y Hy)) as [x [Hx K]]. rewrite <- K. apply in_map.
    apply filter_In. split; [exact Hx|]. apply negb_true_iff. destruct (gone x) eqn:G; [|reflexivity]. exfalso.
    pose proof (gone_new_excl _ G) as Hn. apply (proj1 (L5 x Hx Hn) G). rewrite K. now apply in_map.
  - intros x y Hx Hy K. apply filter_In in Hx. destruct Hx as [Hx G]. apply negb_true_iff in G.
    destruct (new x) eqn:Hn.
    + destruct (L4 x Hx Hn) as [_ [c1 [H1 [K1 [P [O _]]]]]].
      assert (c1 = y) by (apply (NoDup_map_inj key ch1); auto; congruence). subst c1.
      rewrite drop10_id.
      * cbn [flat_map]. rewrite app_nil_r, P. apply Permutation_refl.
      * eapply Forall_impl; [|exact O]. intros z Hz. apply Hz.
    + rewrite drop10_paths, G, paths_unfold, K. apply perm_skip. apply Permutation_map.
      destruct (IK x Hx) as [I0 _]. destruct (in_keys_ex _ _ (I0 Hn)) as [c0 [H0 K0]].
      apply (IH x c0 y Hx Hn H0 Hy K0 (eq_sym K)). eapply lvl_in_keys. eauto.
Qed.

(* ------------------------------------------------------------------ *)
(* MOVED_HERE / MOVED_TO come in pairs (no hypothesis on the inputs)   *)
(* ------------------------------------------------------------------ *)
Definition rawQ (y : rt) : Prop :=
  has_dc y MOVED_HERE = false /\ has_dc y MOVED_TO = false /\ (Nat.odd (rid y) = true -> gone y = false).

Lemma copy_child_all (P : rt -> Prop) :
  (forall id i ch m, (m = [] \/ m = m_added) -> P (T (id1 id) (res_info i m) ch)) ->
  forall n m, (m = [] \/ m = m_added) -> Forall P (pre (copy_child m n)).
Proof.
  intros HP. induction n as [id i ch IH] using rt_ind'. intros m Hm. cbn [copy_child pre]. constructor.
  - now apply HP.
  - apply Forall_forall. intros y Hy. apply in_flat_map in Hy. destruct Hy as [c' [Hc' Hy]].
    apply in_map_iff in Hc'. destruct Hc' as [c [<- Hc]]. rewrite Forall_forall in IH.
    specialize (IH c Hc [] (or_introl eq_refl)). rewrite Forall_forall in IH. auto.
Qed.

Lemma add_top_all (P : rt -> Prop) :
  (forall id i ch m, (m = [] \/ m = m_added) -> P (T (id1 id) (res_info i m) ch)) ->
  forall c1, Forall P (pre (add_top c1)).
Proof.
  intros HP c1. unfold add_top. cbn [pre]. constructor; [apply HP; now right|].
  apply Forall_forall. intros y Hy. apply in_flat_map in Hy. destruct Hy as [c' [Hc' Hy]].
  unfold copy_children in Hc'. apply in_map_iff in Hc'. destruct Hc' as [c [<- Hc]].
  pose proof (copy_child_all P HP c m_added (or_intror eq_refl)) as H. rewrite Forall_forall in H. auto.
Qed.

Lemma Forall_flat_map {X Y} (P : Y -> Prop) (F : X -> list Y) l :
  (forall x, In x l -> Forall P (F x)) -> Forall P (flat_map F l).
Proof.
  intros H. apply Forall_forall. intros y Hy. apply in_flat_map in Hy. destruct Hy as [x [Hx Hy]].
  specialize (H x Hx). rewrite Forall_forall in H. auto.
Qed.

(* a property of single nodes that holds for every node compare creates *)
Section RawAll.
  Variable P : rt -> Prop.
  Hypothesis P_copy : forall id i ch m, (m = [] \/ m = m_added) -> P (T (id1 id) (res_info i m) ch).
  Hypothesis P_both : forall id i ch ordered i0 i1 b, P (T (id0 id) (res_info i (order_meta ordered i0 i1 ++ root_meta b)) ch).
  Hypothesis P_removed : forall id i, P (T (id0 id) (res_info i m_removed) []).

  Lemma compare_all_aux ordered ch0 :
    Forall (fun c => forall ch1 i0, Forall P (pre (fst (cmp ordered ch1 i0 c)))) ch0 ->
    forall ch1, Forall P (pre_f (fst (compare ordered ch0 ch1))).
  Proof.
    intros H ch1. rewrite compare_split, flat_map_app. apply Forall_app. split.
    - apply Forall_flat_map. intros x Hx. apply r0_in in Hx. destruct Hx as [i0 [c0 [Hi ->]]].
      rewrite Forall_forall in H. apply H. eapply nth_error_In; eauto.
    - apply Forall_flat_map. intros x Hx. apply added_part_in in Hx. destruct Hx as [c1 [_ [_ ->]]].
      now apply add_top_all.
  Qed.

  Lemma cmp_all ordered : forall c0 ch1 i0, Forall P (pre (fst (cmp ordered ch1 i0 c0))).
  Proof.
    induction c0 as [n0 inf0 ch0 IH] using rt_ind'. intros ch1 i0. rewrite cmp_unfold.
    destruct (find_child ch1 (key (T n0 inf0 ch0))) as [[i1 c1]|]; cbn [fst rch rid rinfo pre].
    - constructor; [apply P_both|]. now apply compare_all_aux.
    - constructor; [apply P_removed|constructor].
  Qed.

  Lemma compare_all ordered ch0 ch1 : Forall P (pre_f (fst (compare ordered ch0 ch1))).
  Proof. apply compare_all_aux. apply Forall_forall. intros c _. apply cmp_all. Qed.
End RawAll.

Lemma compare_rawQ ordered ch0 ch1 : Forall rawQ (pre_f (fst (compare ordered ch0 ch1))).
Proof.
  apply compare_all.
  - intros id i ch m [-> | ->]; repeat split.
  - intros id i ch o i0 i1 b. unfold rawQ, has_dc, mark, rmeta. cbn [rinfo rid res_info i_meta].
    rewrite get_dc_raw. unfold raw_mark. rewrite odd_id0.
    destruct (negb (Nat.eqb i0 i1) && o); repeat split; discriminate.
  - intros id i. unfold rawQ. cbn [rid]. rewrite odd_id0. repeat split; discriminate.
Qed.

Definition moved_inv (f : forest) : Prop :=
  (forall x, In x (pre_f f) -> Nat.odd (rid x) = true -> gone x = false) /\
  (forall x, In x (pre_f f) -> has_dc x MOVED_HERE = true ->
     Nat.odd (rid x) = true /\ exists y, In y (pre_f f) /\ has_dc y MOVED_TO = true /\ rdid y = rdid x) /\
  (forall y, In y (pre_f f) -> has_dc y MOVED_TO = true ->
     exists x, In x (pre_f f) /\ has_dc x MOVED_HERE = true /\ rdid x = rdid y).

Lemma has_dc_info x c : has_dc x c = info_has_dc (rinfo x) c.
Proof. reflexivity. Qed.

Lemma has_dc_map_info g x c : has_dc (map_info g x) c = info_has_dc (g (rid x) (rinfo x)) c.
Proof. now rewrite has_dc_info, map_info_rinfo. Qed.

Lemma moved_inv_step f a : moved_inv f -> moved_inv (reclass_step f a).
Proof.
  intros Inv0. pose proof Inv0 as [G1 [MH MT]]. unfold reclass_step.
  destruct (Nat.odd a) eqn:Ha; [|exact Inv0].
  destruct (find_node a f) as [n|] eqn:Fn; [|exact Inv0].
  match goal with |- context [if ?b then _ else _] => destruct b eqn:Ex end; [|exact Inv0].
  clear Inv0.
  apply find_some in Fn. destruct Fn as [Hn Rn]. apply Nat.eqb_eq in Rn.
  apply existsb_exists in Ex. destruct Ex as [x0 [Hx0 Ex]].
  apply andb_true_iff in Ex. destruct Ex as [Ex R0]. apply andb_true_iff in Ex. destruct Ex as [Na D0].
  apply negb_true_iff, Nat.eqb_neq in Na. apply did_eqb_eq in D0.
  set (d := rdid n) in *. set (g := reclass_fn a d).
  assert (Hg : step_ok g) by now apply reclass_fn_ok.
  assert (Pre : forall z', In z' (pre_f (map (map_info g) f)) <-> exists z, In z (pre_f f) /\ z' = map_info g z).
  { intros z'. rewrite map_info_pre_f, in_map_iff. split; intros [z [A B]]; exists z; auto. }
  assert (Did : forall z, rdid (map_info g z) = rdid z) by (intros z; apply (step_node g z Hg)).
  (* the three behaviours of g on a node z *)
  assert (Cases : forall z,
     (rid z = a /\ rdid z = d /\ rinfo (map_info g z) = set_dc MOVED_HERE (rinfo z)) \/
     (~ (rid z = a /\ rdid z = d) /\ rdid z = d /\ has_dc z REMOVED = true /\ rinfo (map_info g z) = set_dc MOVED_TO (rinfo z)) \/
     (~ (rid z = a /\ rdid z = d) /\ ~ (rdid z = d /\ has_dc z REMOVED = true) /\ rinfo (map_info g z) = rinfo z)).
  { intros z. rewrite map_info_rinfo. unfold g, reclass_fn. fold (rdid z).
    destruct (Nat.eqb (rid z) a && did_eqb (rdid z) d) eqn:E1.
    - left. apply andb_true_iff in E1. destruct E1 as [A B]. apply Nat.eqb_eq in A. apply did_eqb_eq in B. auto.
    - right. assert (N1 : ~ (rid z = a /\ rdid z = d)).
      { intros [A B]. rewrite A, B, Nat.eqb_refl, did_eqb_refl in E1. discriminate. }
      destruct (did_eqb (rdid z) d && info_has_dc (rinfo z) REMOVED) eqn:E2.
      + left. apply andb_true_iff in E2. destruct E2 as [B C]. apply did_eqb_eq in B. auto.
      + right. refine (conj N1 (conj _ eq_refl)). intros [B C]. rewrite B, did_eqb_refl in E2.
        rewrite has_dc_info in C. rewrite C in E2. discriminate. }
  assert (n_here : has_dc (map_info g n) MOVED_HERE = true).
  { destruct (Cases n) as [[_ [_ E]]|[[N _]|[N _]]]; [|exfalso; apply N; auto..].
    rewrite has_dc_info, E. now apply info_has_dc_set. }
  assert (x0_to : has_dc (map_info g x0) MOVED_TO = true).
  { destruct (Cases x0) as [[A _]|[[_ [_ [_ E]]]|[_ [N _]]]]; [contradiction| |exfalso; apply N; auto].
    rewrite has_dc_info, E. now apply info_has_dc_set. }
  refine (conj _ (conj _ _)).
  - intros z' Hz' Ho. apply Pre in Hz'. destruct Hz' as [z [Hz ->]].
    destruct (step_node g z Hg) as [Rz [_ [_ [_ [_ [_ Ok]]]]]]. rewrite Rz in Ho. apply Ok. split; auto.
  - intros z' Hz' Hh. apply Pre in Hz'. destruct Hz' as [z [Hz ->]]. rewrite map_info_rid, Did.
    destruct (Cases z) as [[A [B E]]|[[_ [_ [_ E]]]|[N1 [N2 E]]]].
    + split; [now rewrite A|]. exists (map_info g x0). refine (conj _ (conj x0_to _)).
      * apply Pre. eauto.
      * rewrite Did. congruence.
    + rewrite has_dc_info, E, info_has_dc_set_b in Hh. discriminate.
    + rewrite has_dc_info, E in Hh. destruct (MH z Hz Hh) as [Oz [y [Hy [Ty Dy]]]]. split; [exact Oz|].
      exists (map_info g y). refine (conj _ (conj _ _)); [apply Pre; eauto| |now rewrite Did].
      destruct (Cases y) as [[A _]|[[_ [_ [Ry _]]]|[_ [_ Ey]]]].
      * exfalso. assert (gone y = false) by (apply G1; auto; now rewrite A).
        unfold gone, gone_i in H. rewrite has_dc_info in Ty. rewrite Ty, orb_true_r in H. discriminate.
      * pose proof (info_has_dc_unique _ _ _ Ry Ty). discriminate.
      * now rewrite has_dc_info, Ey.
  - intros z' Hz' Ht. apply Pre in Hz'. destruct Hz' as [z [Hz ->]]. rewrite Did.
    destruct (Cases z) as [[A [B E]]|[[_ [B [_ E]]]|[N1 [N2 E]]]].
    + rewrite has_dc_info, E, info_has_dc_set_b in Ht. discriminate.
    + exists (map_info g n). refine (conj _ (conj n_here _)); [apply Pre; eauto|]. rewrite Did. now rewrite B.
    + rewrite has_dc_info, E in Ht. destruct (MT z Hz Ht) as [x [Hx [Hh Dx]]].
      exists (map_info g x). refine (conj _ (conj _ _)); [apply Pre; eauto| |now rewrite Did].
      destruct (Cases x) as [[_ [_ Ex]]|[[_ [_ [Rx _]]]|[_ [_ Ex]]]].
      * rewrite has_dc_info, Ex. now apply info_has_dc_set.
      * pose proof (info_has_dc_unique _ _ _ Rx Hh). discriminate.
      * now rewrite has_dc_info, Ex.
Qed.

Lemma moved_inv_raw ordered ch0 ch1 : moved_inv (fst (compare ordered ch0 ch1)).
Proof.
  pose proof (compare_rawQ ordered ch0 ch1) as H. rewrite Forall_forall in H.
  refine (conj _ (conj _ _)).
  - intros x Hx. apply (H x Hx).
  - intros x Hx Hh. destruct (H x Hx) as [E _]. congruence.
  - intros x Hx Hh. destruct (H x Hx) as [_ [E _]]. congruence.
Qed.

(* for EVERY order and ANY two input forests *)
Theorem moved_pairs order ordered t0 t1 :
  let f := snd (diff_with order ordered false t0 t1) in
  (forall x, In x (pre_f f) -> has_dc x MOVED_HERE = true ->
     exists y, In y (pre_f f) /\ has_dc y MOVED_TO = true /\ rdid y = rdid x /\ Nat.odd (rid x) = true /\ Nat.even (rid y) = true) /\
  (forall y, In y (pre_f f) -> has_dc y MOVED_TO = true ->
     exists x, In x (pre_f f) /\ has_dc x MOVED_HERE = true /\ rdid x = rdid y).
Proof.
  cbn. assert (I : moved_inv (reclass order (fst (compare ordered t0 t1)))).
  { unfold reclass. generalize (moved_inv_raw ordered t0 t1). generalize (fst (compare ordered t0 t1)).
    induction order as [|a order IH]; intros f Hf; [exact Hf|]. cbn [fold_left]. apply IH. now apply moved_inv_step. }
  destruct I as [G1 [MH MT]]. split; [|exact MT].
  intros x Hx Hh. destruct (MH x Hx Hh) as [Ox [y [Hy [Ty Dy]]]]. exists y. repeat split; auto.
  rewrite <- Nat.negb_odd. destruct (Nat.odd (rid y)) eqn:Oy; [|reflexivity]. exfalso.
  pose proof (G1 y Hy Oy) as G. unfold gone, gone_i in G. rewrite has_dc_info in Ty. rewrite Ty, orb_true_r in G. discriminate.
Qed.

(* ------------------------------------------------------------------ *)
(* reduce = the marked nodes and their ancestors                       *)
(* ------------------------------------------------------------------ *)
(* pre-order with depths: determines the shape of a forest *)
Fixpoint pre_d (d : nat) (t : rt) : list (nat * rt) :=
  match t with T _ _ ch => (d, t) :: flat_map (pre_d (S d)) ch end.
Definition obs_d (p : nat * rt) : nat * nat * info := (fst p, rid (snd p), rinfo (snd p)).
(* x is marked or has a marked descendant, i.e. x is a marked node or an ancestor of one *)
Definition keepb (x : rt) : bool := existsb pred_dc (pre x).

Lemma existsb_flat_map {X Y} (p : Y -> bool) (F : X -> list Y) l :
  existsb p (flat_map F l) = existsb (fun x => existsb p (F x)) l.
Proof. induction l as [|x l IH]; [reflexivity|]. cbn. now rewrite existsb_app, IH. Qed.

Lemma visit_snd : forall n, snd (visit n) = keepb n.
Proof.
  induction n as [id i ch IH] using rt_ind'. cbn [visit snd]. unfold keepb. cbn [pre existsb]. f_equal.
  rewrite existsb_flat_map, existsb_map_comp'. apply existsb_ext_in'. intros c Hc.
  rewrite Forall_forall in IH. now apply IH.
Qed.

Lemma visit_fst_unfold n : fst (visit n) = T (rid n) (rinfo n) (reduce_f (rch n)).
Proof. now destruct n. Qed.

Lemma pre_d_snd : forall t d, map snd (pre_d d t) = pre t.
Proof.
  induction t as [id i ch IH] using rt_ind'. intros d. cbn [pre_d pre map snd]. f_equal.
  induction ch as [|c ch IHc]; [reflexivity|]. inversion IH as [|? ? Hc Hch]; subst.
  cbn [flat_map]. now rewrite map_app, Hc, IHc.
Qed.

Lemma keepb_false_sub n y : keepb n = false -> In y (pre n) -> keepb y = false.
Proof.
  unfold keepb. intros H Hy. destruct (pre_segment n y Hy) as [a [b E]]. rewrite E, !existsb_app in H.
  apply orb_false_iff in H. destruct H as [_ H]. apply orb_false_iff in H. apply H.
Qed.

Lemma reduce_node_forest d f :
  Forall (fun n => forall d, map obs_d (flat_map (pre_d d) (reduce_f [n])) = map obs_d (filter (fun p => keepb (snd p)) (pre_d d n))) f ->
  map obs_d (flat_map (pre_d d) (reduce_f f)) = map obs_d (filter (fun p => keepb (snd p)) (flat_map (pre_d d) f)).
Proof.
  induction f as [|c f IHf]; intros H; [reflexivity|]. inversion H as [|? ? Hc Hf]; subst.
  specialize (Hc d). unfold reduce_f in *. cbn [map filter flat_map] in *.
  rewrite filter_app, map_app, <- (IHf Hf), <- Hc.
  destruct (snd (visit c)); cbn [map flat_map]; now rewrite ?app_nil_r, ?map_app.
Qed.

Theorem reduce_exact : forall f d,
  map obs_d (flat_map (pre_d d) (reduce_f f)) = map obs_d (filter (fun p => keepb (snd p)) (flat_map (pre_d d) f)).
Proof.
  assert (N : forall n d, map obs_d (flat_map (pre_d d) (reduce_f [n])) =
                          map obs_d (filter (fun p => keepb (snd p)) (pre_d d n))).
  { induction n as [id i ch IH] using rt_ind'. intros d.
    unfold reduce_f at 1. cbn [map filter]. rewrite visit_snd.
    destruct (keepb (T id i ch)) eqn:K.
    - cbn [map flat_map]. rewrite app_nil_r, visit_fst_unfold. cbn [rid rinfo rch pre_d filter snd]. rewrite K.
      cbn [map]. f_equal. now apply reduce_node_forest.
    - cbn [map flat_map]. rewrite filter_none; [reflexivity|].
      intros p Hp. apply (keepb_false_sub _ _ K). rewrite <- (pre_d_snd _ d). now apply in_map. }
  intros f d. apply reduce_node_forest. apply Forall_forall. intros n _. apply N.
Qed.

(* kept nodes keep identity, payload (marks included) and children order; a
   corollary without depths *)
Corollary reduce_nodes f :
  map (fun x => (rid x, rinfo x)) (pre_f (reduce_f f)) = map (fun x => (rid x, rinfo x)) (filter keepb (pre_f f)).
Proof.
  pose proof (reduce_exact f 0) as H.
  apply (f_equal (map (fun t : nat * nat * info => (snd (fst t), snd t)))) in H.
  rewrite !map_map in H. cbn in H.
  assert (E : forall g, flat_map pre g = map snd (flat_map (pre_d 0) g)).
  { induction g as [|c g IHg]; [reflexivity|]. cbn [flat_map]. now rewrite map_app, pre_d_snd, IHg. }
  rewrite !E, map_map.
  etransitivity; [exact H|]. clear. generalize (flat_map (pre_d 0) f). intros l.
  induction l as [|p l IH]; [reflexivity|]. cbn. destruct (keepb (snd p)); cbn; now rewrite IH.
Qed.

(* ------------------------------------------------------------------ *)
(* identical inputs: the result is an unmarked copy of t0              *)
(* ------------------------------------------------------------------ *)
Inductive same : rt -> rt -> Prop :=
| same_T a b : key a = key b -> rdid a = rdid b -> Forall2 same (rch a) (rch b) -> same a b.

Fixpoint plain0 (t : rt) : rt := match t with T id i ch => T (id0 id) (res_info i []) (map plain0 ch) end.

Lemma mapi_from_map {X Y} (f : nat -> X -> Y) (g : X -> Y) l : forall i,
  (forall k x, nth_error l k = Some x -> f (i + k) x = g x) -> mapi_from f i l = map g l.
Proof.
  induction l as [|x r IH]; intros i H; cbn; [reflexivity|]. f_equal.
  - specialize (H 0 x eq_refl). now rewrite Nat.add_0_r in H.
  - apply IH. intros k y Hk. specialize (H (S k) y Hk). now replace (S i + k) with (i + S k) by lia.
Qed.

Lemma Forall2_nth {X Y} (R : X -> Y -> Prop) l l' : Forall2 R l l' ->
  forall k x, nth_error l k = Some x -> exists y, nth_error l' k = Some y /\ R x y.
Proof.
  induction 1 as [|a b l l' Hab H IH]; intros [|k] x Hk; cbn in Hk; try discriminate.
  - injection Hk as <-. exists b. auto.
  - now apply IH.
Qed.

Lemma same_keys l l' : Forall2 same l l' -> keys l = keys l' /\ map rdid l = map rdid l'.
Proof.
  induction 1 as [|a b l l' Hab H [IH1 IH2]]; [auto|]. inversion Hab as [? ? K D _]; subst. cbn. now rewrite K, D, IH1, IH2.
Qed.

Lemma sib_unique_sub f c : sib_unique f -> In c f -> sib_unique (rch c).
Proof.
  intros [U V] Hc. split; [apply V; now apply in_pre_f_top|]. intros x Hx. apply V. eapply pre_f_sub; eauto.
Qed.

Definition identP ordered (c0 : rt) : Prop := forall c1, sib_unique (rch c0) -> same c0 c1 ->
  compare ordered (rch c0) (rch c1) = (map plain0 (rch c0), false).

Lemma identical_list ordered ch0 : Forall (identP ordered) ch0 -> forall ch1, sib_unique ch0 -> Forall2 same ch0 ch1 ->
  compare ordered ch0 ch1 = (map plain0 ch0, false).
Proof.
  intros IH ch1 SU HS. destruct (same_keys _ _ HS) as [EK ED].
  assert (N1 : NoDup (keys ch1)) by (rewrite <- EK; apply SU).
  assert (M : mapi_from (cmp ordered ch1) 0 ch0 = map (fun c => (plain0 c, false)) ch0).
  { apply mapi_from_map. intros k c0 Hk. cbn [Nat.add].
    destruct (Forall2_nth _ _ _ HS k c0 Hk) as [c1 [Hk1 S01]].
    pose proof S01 as S01'. inversion S01' as [? ? K D HCh]; subst.
    destruct (find_child_unique ch1 c1 N1 (nth_error_In _ _ Hk1)) as [j [F Hj]].
    destruct (NoDup_keys_nth ch1 j k c1 c1 N1 Hj Hk1 eq_refl) as [-> _].
    rewrite cmp_unfold, K, F. cbv zeta.
    rewrite Forall_forall in IH. rewrite (IH c0 (nth_error_In _ _ Hk) c1); auto.
    - cbn [fst snd]. unfold order_meta. rewrite Nat.eqb_refl. cbn. destruct c0 as [id i ch]. reflexivity.
    - eapply sib_unique_sub; eauto. eapply nth_error_In; eauto. }
  unfold compare. rewrite M. f_equal.
  - rewrite map_map. cbn [fst]. replace (added_part ch0 ch1) with (@nil rt); [now rewrite app_nil_r|].
    symmetry. unfold added_part. rewrite filter_none; [reflexivity|].
    intros c1 H1. apply negb_false_iff. destruct (in_dids (rdid c1) ch0) eqn:E; [reflexivity|].
    exfalso. apply in_dids_false in E. apply E. rewrite ED. now apply in_map.
  - rewrite existsb_map_comp'. now apply existsb_false.
Qed.

Lemma identical_all ordered : forall c0, identP ordered c0.
Proof.
  induction c0 as [id i ch IH] using rt_ind'. intros c1 SU HS. inversion HS as [? ? _ _ HCh]; subst.
  cbn [rch] in *. now apply identical_list.
Qed.

Lemma plain0_meta : forall t, Forall (fun x => rmeta x = []) (pre (plain0 t)).
Proof.
  induction t as [id i ch IH] using rt_ind'. cbn [plain0 pre]. constructor; [reflexivity|].
  apply Forall_flat_map. intros c' Hc'. apply in_map_iff in Hc'. destruct Hc' as [c [<- Hc]].
  rewrite Forall_forall in IH. now apply IH.
Qed.

Lemma reclass_step_no_removed f a : (forall x, In x (pre_f f) -> has_dc x REMOVED = false) -> reclass_step f a = f.
Proof.
  intros H. unfold reclass_step. destruct (Nat.odd a); [|reflexivity]. destruct (find_node a f); [|reflexivity].
  rewrite existsb_false; [reflexivity|]. intros x Hx. rewrite (H x Hx). apply andb_false_r.
Qed.

Lemma reclass_no_removed order f : (forall x, In x (pre_f f) -> has_dc x REMOVED = false) -> reclass order f = f.
Proof.
  intros H. unfold reclass. induction order as [|a order IH]; [reflexivity|]. cbn [fold_left].
  now rewrite reclass_step_no_removed.
Qed.

Lemma reduce_unmarked f : (forall x, In x (pre_f f) -> pred_dc x = false) -> reduce_f f = [].
Proof.
  intros H. unfold reduce_f. rewrite filter_none; [reflexivity|].
  intros p Hp. apply in_map_iff in Hp. destruct Hp as [c [<- Hc]]. rewrite visit_snd. unfold keepb.
  apply existsb_false. intros y Hy. apply H. apply in_flat_map. eauto.
Qed.

Theorem identical_no_marks order ordered t0 t1 : sib_unique t0 -> Forall2 same t0 t1 ->
  diff_with order ordered false t0 t1 = ([], map plain0 t0) /\
  diff_with order ordered true t0 t1 = ([], []).
Proof.
  intros SU HS. unfold diff_with.
  rewrite (identical_list ordered t0 (proj2 (Forall_forall _ _) (fun c _ => identical_all ordered c)) t1 SU HS).
  cbn [fst snd root_meta].
  assert (M : forall x, In x (pre_f (map plain0 t0)) -> rmeta x = []).
  { intros x Hx. apply in_flat_map in Hx. destruct Hx as [c' [Hc' Hx]]. apply in_map_iff in Hc'.
    destruct Hc' as [c [<- Hc]]. pose proof (plain0_meta c) as H. rewrite Forall_forall in H. auto. }
  rewrite reclass_no_removed.
  - split; [reflexivity|]. f_equal. apply reduce_unmarked. intros x Hx. unfold pred_dc, mark. now rewrite (M x Hx).
  - intros x Hx. unfold has_dc, mark. now rewrite (M x Hx).
Qed.

(* ------------------------------------------------------------------ *)
(* the literal branch structure of diff.py computes the same function  *)
(* ------------------------------------------------------------------ *)
Lemma cmp_lit_eq ordered : forall c0 ch1 i0, cmp_lit ordered ch1 i0 c0 = cmp ordered ch1 i0 c0.
Proof.
  induction c0 as [n0 inf0 ch0 IH] using rt_ind'. intros ch1 i0. cbn [cmp_lit cmp].
  destruct (find_child ch1 (i_eqc inf0)) as [[i1 c1]|]; [|reflexivity].
  assert (E : mapi_from (cmp_lit ordered (rch c1)) 0 ch0 = mapi_from (cmp ordered (rch c1)) 0 ch0).
  { apply mapi_from_ext. intros k x Hk. rewrite Forall_forall in IH. apply IH. eapply nth_error_In; eauto. }
  destruct ch0 as [|c ch0].
  - destruct (rch c1) as [|d ch1'] eqn:R; [|now rewrite E].
    cbn. now rewrite app_nil_r.
  - now rewrite E.
Qed.

Lemma compare_lit_eq ordered ch0 ch1 : compare_lit ordered ch0 ch1 = compare ordered ch0 ch1.
Proof.
  unfold compare_lit, compare.
  assert (E : mapi_from (cmp_lit ordered ch1) 0 ch0 = mapi_from (cmp ordered ch1) 0 ch0).
  { apply mapi_from_ext. intros k x _. apply cmp_lit_eq. }
  now rewrite E.
Qed.

Theorem diff_tree_lit_eq hints ordered reduce t0 t1 :
  diff_tree_lit hints ordered reduce t0 t1 = diff_tree hints ordered reduce t0 t1.
Proof. unfold diff_tree_lit, diff_tree, diff_gen. now rewrite compare_lit_eq. Qed.

(* what the correspondence runs is diff_with for one particular order *)
Theorem diff_tree_is_diff_with hints ordered reduce t0 t1 r :
  diff_tree hints ordered reduce t0 t1 = Some r ->
  r = diff_with (eff_order hints (fst (compare ordered t0 t1))) ordered reduce t0 t1.
Proof.
  unfold diff_tree, diff_gen, diff_with. destruct (sibs_ok_f (fst (compare ordered t0 t1))); [|discriminate].
  now intros [= <-].
Qed.

(* ------------------------------------------------------------------ *)
(* the executable domain test is sound                                 *)
(* ------------------------------------------------------------------ *)
Lemma nodupb_sound l : nodupb l = true -> NoDup l.
Proof.
  induction l as [|x l IH]; cbn; intros H; [constructor|]. apply andb_true_iff in H. destruct H as [H1 H2].
  constructor; [|auto]. intros Hi. apply negb_true_iff in H1.
  assert (existsb (Z.eqb x) l = true); [|congruence]. apply existsb_exists. exists x. split; [exact Hi|apply Z.eqb_refl].
Qed.

Lemma dom_t_sound : forall c0 ch1, dom_t c0 ch1 = true -> forall c1, In c1 ch1 ->
  (key c0 = key c1 <-> rdid c0 = rdid c1) /\ (key c0 = key c1 -> dom (rch c0) (rch c1)).
Proof.
  induction c0 as [n0 i0 ch0 IH] using rt_ind'. intros ch1 H c1 H1. cbn [dom_t] in H.
  rewrite forallb_forall in H. specialize (H c1 H1). apply andb_true_iff in H. destruct H as [HA HB].
  unfold key, rdid. cbn [rinfo rch]. split.
  - apply Bool.eqb_prop in HA. rewrite <- Z.eqb_eq, <- did_eqb_eq. fold (rdid c1). rewrite HA. tauto.
  - intros K. apply Z.eqb_eq in K. rewrite K in HB. apply andb_true_iff in HB. destruct HB as [HB H3].
    apply andb_true_iff in HB. destruct HB as [N0 N1]. rewrite forallb_forall in H3. rewrite Forall_forall in IH.
    constructor; [now apply nodupb_sound|now apply nodupb_sound| |].
    + intros a b Ha Hb. apply (IH a Ha (rch c1) (H3 a Ha) b Hb).
    + intros a b Ha Hb. apply (IH a Ha (rch c1) (H3 a Ha) b Hb).
Qed.

Theorem dom_b_sound ch0 ch1 : dom_b ch0 ch1 = true -> dom ch0 ch1.
Proof.
  unfold dom_b. intros H. apply andb_true_iff in H. destruct H as [H H3]. apply andb_true_iff in H. destruct H as [N0 N1].
  rewrite forallb_forall in H3.
  constructor; [now apply nodupb_sound|now apply nodupb_sound| |].
  - intros a b Ha Hb. apply (dom_t_sound a ch1 (H3 a Ha) b Hb).
  - intros a b Ha Hb. apply (dom_t_sound a ch1 (H3 a Ha) b Hb).
Qed.
