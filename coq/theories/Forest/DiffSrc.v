(* Every node of a diff result wraps the data object of a node of t0 or t1;
   with its data_id; consequently "equal data_id in the result" means "equal
   data" whenever equal data_ids imply equal data in the two inputs. *)
From Coq Require Import List ZArith Bool Arith Lia Permutation.
From NT Require Import Sx Rose ListFacts RoseFacts Diff DiffProofs DiffMore.
Import ListNotations.

Definition has_src (srcs : list rt) (x : rt) : Prop := exists s, In s srcs /\ src_of x s.

Lemma has_src_incl l l' x : incl l l' -> has_src l x -> has_src l' x.
Proof. intros I [s [Hs H]]. exists s. split; auto. Qed.

Lemma copy_child_src : forall n m, Forall (has_src (pre n)) (pre (copy_child m n)).
Proof.
  induction n as [id i ch IH] using rt_ind'. intros m. cbn [copy_child pre]. constructor.
  - exists (T id i ch). split; [now left|]. split; reflexivity.
  - apply Forall_flat_map. intros c' Hc'. apply in_map_iff in Hc'. destruct Hc' as [c [<- Hc]].
    rewrite Forall_forall in IH. eapply Forall_impl; [|apply (IH c Hc)].
    intros x. apply has_src_incl. intros s Hs. right. apply in_flat_map. eauto.
Qed.

Lemma add_top_src c1 : Forall (has_src (pre c1)) (pre (add_top c1)).
Proof.
  destruct c1 as [id i ch]. unfold add_top. cbn [rid rinfo rch pre]. constructor.
  - exists (T id i ch). split; [now left|]. split; reflexivity.
  - apply Forall_flat_map. intros c' Hc'. unfold copy_children in Hc'. apply in_map_iff in Hc'.
    destruct Hc' as [c [<- Hc]]. eapply Forall_impl; [|apply copy_child_src].
    intros x. apply has_src_incl. intros s Hs. right. apply in_flat_map. eauto.
Qed.

Lemma compare_src_aux ordered ch0 :
  Forall (fun c => forall ch1 i0, Forall (has_src (pre c ++ pre_f ch1)) (pre (fst (cmp ordered ch1 i0 c)))) ch0 ->
  forall ch1, Forall (has_src (pre_f ch0 ++ pre_f ch1)) (pre_f (fst (compare ordered ch0 ch1))).
Proof.
  intros H ch1. rewrite compare_split, flat_map_app. apply Forall_app. split.
  - apply Forall_flat_map. intros x Hx. apply r0_in in Hx. destruct Hx as [i0 [c0 [Hi ->]]].
    rewrite Forall_forall in H. pose proof (nth_error_In _ _ Hi) as H0.
    eapply Forall_impl; [|apply (H c0 H0 ch1 i0)].
    intros x. apply has_src_incl. intros s Hs. apply in_app_or in Hs. apply in_or_app.
    destruct Hs as [Hs|Hs]; [left; apply in_flat_map; eauto|now right].
  - apply Forall_flat_map. intros x Hx. apply added_part_in in Hx. destruct Hx as [c1 [H1 [_ ->]]].
    eapply Forall_impl; [|apply add_top_src].
    intros x. apply has_src_incl. intros s Hs. apply in_or_app. right. apply in_flat_map. eauto.
Qed.

Lemma cmp_src ordered : forall c0 ch1 i0, Forall (has_src (pre c0 ++ pre_f ch1)) (pre (fst (cmp ordered ch1 i0 c0))).
Proof.
  induction c0 as [n0 inf0 ch0 IH] using rt_ind'. intros ch1 i0. rewrite cmp_unfold.
  destruct (find_child ch1 (key (T n0 inf0 ch0))) as [[i1 c1]|] eqn:F; cbn [fst rch rid rinfo pre].
  - constructor.
    + exists (T n0 inf0 ch0). split; [now left|]. split; reflexivity.
    + destruct (find_child_some _ _ _ _ F) as [_ [_ [H1 _]]].
      eapply Forall_impl; [|apply (compare_src_aux ordered ch0 IH (rch c1))].
      intros x. apply has_src_incl. intros s Hs. apply in_app_or in Hs.
      destruct Hs as [Hs|Hs]; [right; apply in_or_app; now left|].
      right. apply in_or_app. right. apply in_flat_map. exists c1. split; [exact H1|]. rewrite pre_unfold. now right.
  - constructor; [|constructor]. exists (T n0 inf0 ch0). split; [now left|]. split; reflexivity.
Qed.

Lemma compare_src ordered ch0 ch1 : Forall (has_src (pre_f ch0 ++ pre_f ch1)) (pre_f (fst (compare ordered ch0 ch1))).
Proof. apply compare_src_aux. apply Forall_forall. intros c _. apply cmp_src. Qed.

Lemma reclass_src order srcs : forall f, Forall (has_src srcs) (pre_f f) -> Forall (has_src srcs) (pre_f (reclass order f)).
Proof.
  apply (reclass_preserves (fun f => Forall (has_src srcs) (pre_f f))).
  intros g f Hg H. rewrite map_info_pre_f. apply Forall_forall. intros x' Hx'. apply in_map_iff in Hx'.
  destruct Hx' as [x [<- Hx]]. rewrite Forall_forall in H. destruct (H x Hx) as [s [Hs [K D]]].
  destruct (step_node g x Hg) as [_ [K' [D' _]]]. exists s. split; [exact Hs|]. split; congruence.
Qed.

(* every node of the (unreduced) result has a source in t0 or t1 *)
Theorem result_nodes_have_sources order ordered t0 t1 :
  Forall (has_src (pre_f t0 ++ pre_f t1)) (pre_f (snd (diff_with order ordered false t0 t1))).
Proof. cbn. apply reclass_src, compare_src. Qed.

(* equal data_id in the result = equal data, when hashes do not collide *)
Theorem result_did_is_data order ordered t0 t1 : did_inj (pre_f t0 ++ pre_f t1) ->
  forall x y, In x (pre_f (snd (diff_with order ordered false t0 t1))) ->
              In y (pre_f (snd (diff_with order ordered false t0 t1))) ->
              rdid x = rdid y -> key x = key y.
Proof.
  intros HH x y Hx Hy E. pose proof (result_nodes_have_sources order ordered t0 t1) as H. rewrite Forall_forall in H.
  destruct (H x Hx) as [sx [Hsx [Kx Dx]]]. destruct (H y Hy) as [sy [Hsy [Ky Dy]]].
  rewrite Kx, Ky. apply HH; auto. congruence.
Qed.

(* the move pairs, in terms of the data objects *)
Theorem moved_pairs_same_data order ordered t0 t1 : did_inj (pre_f t0 ++ pre_f t1) ->
  let f := snd (diff_with order ordered false t0 t1) in
  (forall x, In x (pre_f f) -> has_dc x MOVED_HERE = true ->
     exists y, In y (pre_f f) /\ has_dc y MOVED_TO = true /\ key y = key x) /\
  (forall y, In y (pre_f f) -> has_dc y MOVED_TO = true ->
     exists x, In x (pre_f f) /\ has_dc x MOVED_HERE = true /\ key x = key y).
Proof.
  intros HH f. destruct (moved_pairs order ordered t0 t1) as [A B]. split.
  - intros x Hx Hh. destruct (A x Hx Hh) as [y [Hy [Ty [D _]]]]. exists y. refine (conj Hy (conj Ty _)).
    now apply (result_did_is_data order ordered t0 t1 HH).
  - intros y Hy Ty. destruct (B y Hy Ty) as [x [Hx [Hh D]]]. exists x. refine (conj Hx (conj Hh _)).
    now apply (result_did_is_data order ordered t0 t1 HH).
Qed.

(* ------------------------------------------------------------------ *)
(* the property's own wording of the domain: default-id trees over a   *)
(* shared alphabet on which == and data_id agree                        *)
(* ------------------------------------------------------------------ *)
Definition default_ids (l : list rt) : Prop := forall x, In x l -> rdid x = DInt (i_hash (rinfo x)).
Definition did_is_data (l : list rt) : Prop := forall x y, In x l -> In y l -> (key x = key y <-> rdid x = rdid y).

Lemma sib_unique_dsu f : sib_unique f -> did_is_data (pre_f f) -> dsu f.
Proof.
  intros [U V] Ha. split.
  - apply (NoDup_map_transfer key rdid); [exact U|]. intros x y Hx Hy E. apply Ha; auto; now apply in_pre_f_top.
  - intros p Hp. apply (NoDup_map_transfer key rdid); [now apply V|].
    intros x y Hx Hy E. apply Ha; auto; eapply pre_f_child_closed; eauto.
Qed.

Theorem default_id_domain t0 t1 :
  sib_unique t0 -> sib_unique t1 -> did_is_data (pre_f t0 ++ pre_f t1) ->
  dom t0 t1 /\ did_inj (pre_f t0 ++ pre_f t1) /\ dsu t0 /\ dsu t1.
Proof.
  intros S0 S1 Ha. refine (conj _ (conj _ (conj _ _))).
  - apply dom_of_global; auto. intros x y Hx Hy. apply Ha; apply in_or_app; auto.
  - intros x y Hx Hy E. now apply Ha.
  - apply sib_unique_dsu; auto. intros x y Hx Hy. apply Ha; apply in_or_app; auto.
  - apply sib_unique_dsu; auto. intros x y Hx Hy. apply Ha; apply in_or_app; auto.
Qed.
