(* Model of the pretty-printer (C16): node.py [_get_prefix], [_render_lines],
   [format_iter], [format]; tree.py [Tree.format_iter], [Tree.format].
   Executable definitions only; proofs are in FormatProofs.v.

   The implementation walks [_parent] pointers for every rendered node
   ([get_parent_list], [p is p._parent._children[-1]]).  The model first
   annotates every node of the forest value with its *context*
   - the is-last-sibling flags of its ancestors, top-level ancestor first
     (the order of [get_parent_list()]), the system root excluded,
   - its own is-last-sibling flag,
   and then computes the prefix from that context with the loop of the Python
   code.  "is last sibling" is positional (no following sibling); this equals
   the identity test of the code whenever a node object occurs once in its
   parent's child list (property C01). *)
From Coq Require Import List ZArith Bool Arith.
From NT Require Import Sx Rose.
Import ListNotations.

Definition segs := list text.                 (* a connector style: 4 or 6 segments *)

Inductive res (X : Type) := Ok (x : X) | Err (e : Z).
Arguments Ok {X} x.
Arguments Err {X} e.
Definition EValue : Z := 3%Z.                 (* ValueError, as harness/common.py err_class *)

(* ------------------------------------------------------------------ *)
(* nodes with their context, in iteration (pre-)order                   *)
(* ------------------------------------------------------------------ *)
Definition nctx := (list bool * bool * rt)%type.
Definition n_anc (c : nctx) : list bool := fst (fst c).
Definition n_last (c : nctx) : bool := snd (fst c).
Definition n_node (c : nctx) : rt := snd c.

Definition is_nil {X} (l : list X) : bool := match l with [] => true | _ => false end.

Fixpoint ctxs_t (anc : list bool) (last : bool) (t : rt) {struct t} : list nctx :=
  match t with
  | T _ _ ch =>
      (anc, last, t) ::
      (fix go (l : list rt) : list nctx :=
         match l with
         | [] => []
         | c :: l' => ctxs_t (anc ++ [last]) (is_nil l') c ++ go l'
         end) ch
  end.

Fixpoint ctxs_l (anc : list bool) (l : list rt) : list nctx :=
  match l with
  | [] => []
  | c :: l' => ctxs_t anc (is_nil l') c ++ ctxs_l anc l'
  end.

Definition has_ch (t : rt) : bool := negb (is_nil (rch t)).     (* bool(self._children) *)

(* ------------------------------------------------------------------ *)
(* Node._get_prefix(style, lstrip)                                      *)
(* ------------------------------------------------------------------ *)
Record seg6 := Sg { g0 : text; g1 : text; g2 : text; g3 : text; g4 : text; g5 : text }.

Definition unpack (style : segs) : option seg6 :=
  match style with
  | [s0; s1; s2; s3] => Some (Sg s0 s1 s2 s3 s2 s3)
  | [s0; s1; s2; s3; s4; s5] => Some (Sg s0 s1 s2 s3 s4 s5)
  | _ => None                                       (* raise ValueError *)
  end.

(* for p in self.get_parent_list(): depth += 1; if depth <= lstrip: continue; parts.append(s0 if last else s1) *)
Fixpoint prefix_loop (g : seg6) (lstrip depth : nat) (parts : list text) (ps : list bool)
  : nat * list text :=
  match ps with
  | [] => (depth, parts)
  | p :: ps' =>
      let depth := S depth in
      if depth <=? lstrip then prefix_loop g lstrip depth parts ps'
      else prefix_loop g lstrip depth (parts ++ [if p then g0 g else g1 g]) ps'
  end.

Definition get_prefix (style : segs) (lstrip : nat) (c : nctx) : option text :=
  match unpack style with
  | None => None
  | Some g =>
      let '(depth, parts) := prefix_loop g lstrip 0 [] (n_anc c) in
      let parts :=
        if lstrip <=? depth then
          parts ++ [ if has_ch (n_node c)
                     then (if n_last c then g4 g else g5 g)
                     else (if n_last c then g2 g else g3 g) ]
        else parts in
      Some (concat parts)
  end.

(* ------------------------------------------------------------------ *)
(* style argument, start node                                           *)
(* ------------------------------------------------------------------ *)
Inductive style_arg :=
| StDefault                      (* style=None *)
| StName (n : text)              (* a str *)
| StCustom (s : segs).           (* a list/tuple of segments *)

Definition LIST_STYLE : text := [108; 105; 115; 116]%Z.   (* "list" *)
Definition is_list_style (a : style_arg) : bool :=
  match a with StName n => text_eqb n LIST_STYLE | _ => false end.

(* the node format() is called on: the system root of the tree (never
   rendered itself, depth 0) or a node of the forest, given by its context *)
Inductive start := SRoot | SNode (c : nctx).

(* Tree.format(title=...): None, False, True, a str *)
Inductive title_arg := TiDefault | TiFalse | TiTrue | TiText (t : text).

Definition start_depth (st : start) : nat :=
  match st with SRoot => 0 | SNode c => S (length (n_anc c)) end.

(* self.iterator(add_self=...) for a start node that is not the system root;
   for the system root the callers below force add_self=False *)
Definition iter_ctxs (f : forest) (st : start) (add_self : bool) : list nctx :=
  match st with
  | SRoot => ctxs_l [] f
  | SNode c =>
      if add_self then ctxs_t (n_anc c) (n_last c) (n_node c)
      else ctxs_l (n_anc c ++ [n_last c]) (rch (n_node c))
  end.

Fixpoint collect {X} (l : list (option X)) : res (list X) :=
  match l with
  | [] => Ok []
  | None :: _ => Err EValue
  | Some x :: l' => match collect l' with Ok r => Ok (x :: r) | Err e => Err e end
  end.

Fixpoint join_text (j : text) (ls : list text) : text :=
  match ls with
  | [] => []
  | [l] => l
  | l :: ls' => l ++ j ++ join_text j ls'
  end.

Section Fmt.
  Variable table : list (text * segs).      (* common.CONNECTORS *)
  Variable default_style : text.            (* Tree.DEFAULT_CONNECTOR_STYLE *)
  Variable rend : rt -> text.               (* repr(n) / repr.format(node=n) *)

  Definition lookup_style (n : text) : option segs :=
    option_map snd (find (fun e => text_eqb (fst e) n) table).

  (* CONNECTORS[style or DEFAULT_CONNECTOR_STYLE], KeyError -> ValueError *)
  Definition resolve_style (a : style_arg) : res segs :=
    match a with
    | StCustom s => Ok s
    | StDefault => match lookup_style default_style with Some s => Ok s | None => Err EValue end
    | StName n =>
        match lookup_style (if is_nil n then default_style else n) with
        | Some s => Ok s
        | None => Err EValue
        end
    end.

  (* Node._render_lines *)
  Definition render_lines (f : forest) (st : start) (a : style_arg) (add_self : bool)
    : res (list text) :=
    match resolve_style a with
    | Err e => Err e
    | Ok style =>
        let lstrip := start_depth st + (if add_self then 0 else 1) in
        let add_self := match st with SRoot => false | SNode _ => add_self end in
        collect (map (fun c => option_map (fun p => p ++ rend (n_node c)) (get_prefix style lstrip c))
                     (iter_ctxs f st add_self))
    end.

  (* Node.format_iter (with the repair of D35: the system root is not a line
     of the list style either) *)
  Definition format_iter (f : forest) (st : start) (a : style_arg) (add_self : bool)
    : res (list text) :=
    if is_list_style a then
      let add_self := match st with SRoot => false | SNode _ => add_self end in
      Ok (map (fun c => rend (n_node c)) (iter_ctxs f st add_self))
    else render_lines f st a add_self.

  (* Tree.format_iter *)
  Definition tree_format_iter (trepr : text) (f : forest) (a : style_arg) (title : title_arg)
    : res (list text) :=
    let title := match title with
                 | TiDefault => if is_list_style a then TiFalse else TiTrue
                 | t => t
                 end in
    let tl := match title with
              | TiTrue => [trepr]                   (* f"{self}" *)
              | TiText (x :: r) => [x :: r]         (* truthy text *)
              | _ => []
              end in
    let has_title := match title with TiFalse => false | _ => true end in
    match format_iter f SRoot a has_title with
    | Ok ls => Ok (tl ++ ls)
    | Err e => Err e
    end.

  (* format(join=j) = j.join(format_iter(...)) *)
  Definition res_join (j : text) (r : res (list text)) : res text :=
    match r with Ok ls => Ok (join_text j ls) | Err e => Err e end.
  Definition format (f : forest) (st : start) (a : style_arg) (add_self : bool) (j : text) : res text :=
    res_join j (format_iter f st a add_self).
  Definition tree_format (trepr : text) (f : forest) (a : style_arg) (title : title_arg) (j : text) : res text :=
    res_join j (tree_format_iter trepr f a title).
End Fmt.

(* f"{tree}" for a tree whose name needs no escaping *)
Definition tree_repr (cls name : text) : text :=
  cls ++ [60; 39]%Z ++ name ++ [39; 62]%Z.          (* Cls<'name'> *)
