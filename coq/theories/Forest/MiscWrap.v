(* nutree/common.py: class DictWrapper – executable model, no proofs (MiscWrapProofs.v).

   A world is the list of dict OBJECTS allocated so far (index = identity, value = content in insertion order) and the
   list of DictWrapper objects (index = identity, value = index of the dict it holds in `_dict`).  [addr] gives the
   CPython id() of every dict object (an input: the harness reads the real id() values; all objects are kept alive, so
   ids are distinct – the theorems that need it say [NoDup]).

       def __init__(self, dict_inst=None, /, ** values):
           if dict_inst is not None:
               if not isinstance(dict_inst, dict): self._dict = None; raise TypeError
               if values:                          self._dict = None; raise ValueError
               self._dict = dict_inst
           else:
               self._dict = values
       __repr__ = f"{cls}<{self._dict}>"      __hash__ = id(self._dict)
       __eq__(other) = isinstance(other, DictWrapper) and self._dict is other._dict
       __setitem__/__getitem__ forward to self._dict
       serialize_mapper(node, data) = node.data._dict.copy()       deserialize_mapper(node, data) = cls( **data)      *)
From Coq Require Import List ZArith Bool Arith.
From NT Require Import Sx Rose MiscMapper MiscRepr.
Import ListNotations.

Record world := W { w_dicts : list dict; w_wraps : list nat }.
Definition empty_world : world := W [] [].

Definition dict_at (w : world) (di : nat) : dict := nth di (w_dicts w) [].
Definition dict_of (w : world) (wi : nat) : nat := nth wi (w_wraps w) 0%nat.      (* wrapper -> identity of its _dict *)
Definition content_of (w : world) (wi : nat) : dict := dict_at w (dict_of w wi).

Fixpoint set_nth {X} (l : list X) (n : nat) (x : X) : list X :=
  match l, n with
  | [], _ => []
  | _ :: r, O => x :: r
  | y :: r, S n' => y :: set_nth r n' x
  end.

(* first positional argument of the constructor *)
Inductive ctor_arg :=
| CNone                (* omitted or None                          *)
| CDict (di : nat)     (* an existing dict object                  *)
| COther.              (* something that is not a dict (list, str, DictWrapper, int 0 ...) *)

Inductive op :=
| ONewDict (d : dict)                       (* d = {...}: a fresh dict object                          *)
| OWrap (a : ctor_arg) (kv : dict)          (* DictWrapper(a, ** kv)                                     *)
| OSet (wi : nat) (k : text) (v : pv)       (* w[k] = v                                                 *)
| OGet (wi : nat) (k : text)                (* w[k]                                                     *)
| OSetDirect (di : nat) (k : text) (v : pv) (* d[k] = v on the dict itself, behind the wrappers' back   *)
| OEq (wi wj : nat)                         (* w_i == w_j                                               *)
| OEqDict (wi : nat)                        (* w_i == w_i._dict   (not a DictWrapper)                   *)
| OHash (wi : nat)                          (* hash(w_i)                                                *)
| ORepr (wi : nat)                          (* repr(w_i)                                                *)
| OSer (wi : nat)                           (* DictWrapper.serialize_mapper(node holding w_i, {...})    *)
| ODeser (di : nat).                        (* DictWrapper.deserialize_mapper(node, d_i)                *)

Inductive res :=
| RDict (di : nat) | RWrap (wi : nat) | RUnit | RGot (v : pv) | RBool (b : bool) | RInt (z : Z) | RText (t : text) | RErr (code : Z).

Definition E_VALUE : Z := 3.  Definition E_KEY : Z := 4.  Definition E_TYPE : Z := 7.

Definition t_DictWrapper_lt : text := [68; 105; 99; 116; 87; 114; 97; 112; 112; 101; 114; 60]%Z.   (* "DictWrapper<" *)

Section Addr.
  Variable addr : nat -> Z.     (* id() of the dict object with identity di *)

  Definition w_eq (w : world) (wi wj : nat) : bool := Nat.eqb (dict_of w wi) (dict_of w wj).    (* `is` on the dicts *)
  Definition w_hash (w : world) (wi : nat) : Z := addr (dict_of w wi).
  Definition w_repr (w : world) (wi : nat) : text := t_DictWrapper_lt ++ py_repr (PDict (content_of w wi)) ++ [62%Z].

  Definition step (w : world) (o : op) : world * res :=
    let nd := length (w_dicts w) in
    let nw := length (w_wraps w) in
    match o with
    | ONewDict d => (W (w_dicts w ++ [d]) (w_wraps w), RDict nd)
    | OWrap a kv =>
        match a with
        | CNone => (W (w_dicts w ++ [kv]) (w_wraps w ++ [nd]), RWrap nw)          (* self._dict = values *)
        | COther => (w, RErr E_TYPE)
        | CDict di => match kv with
                      | [] => (W (w_dicts w) (w_wraps w ++ [di]), RWrap nw)        (* a reference to that instance *)
                      | _ :: _ => (w, RErr E_VALUE)
                      end
        end
    | OSet wi k v => let di := dict_of w wi in (W (set_nth (w_dicts w) di (d_set (dict_at w di) k v)) (w_wraps w), RUnit)
    | OGet wi k => (w, match d_get (content_of w wi) k with Some v => RGot v | None => RErr E_KEY end)
    | OSetDirect di k v => (W (set_nth (w_dicts w) di (d_set (dict_at w di) k v)) (w_wraps w), RUnit)
    | OEq wi wj => (w, RBool (w_eq w wi wj))
    | OEqDict wi => (w, RBool false)
    | OHash wi => (w, RInt (w_hash w wi))
    | ORepr wi => (w, RText (w_repr w wi))
    | OSer wi => (W (w_dicts w ++ [content_of w wi]) (w_wraps w), RDict nd)                 (* ._dict.copy() *)
    | ODeser di => (W (w_dicts w ++ [dict_at w di]) (w_wraps w ++ [nd]), RWrap nw)          (* cls( **data)   *)
    end.

  Fixpoint run (w : world) (ops : list op) : world * list res :=
    match ops with
    | [] => (w, [])
    | o :: r => let '(w1, x) := step w o in let '(w2, xs) := run w1 r in (w2, x :: xs)
    end.

  (* a node holding wrapper wi: Tree.calc_data_id = hash(data) *)
  Definition node_data_id (w : world) (wi : nat) : Z := w_hash w wi.
  (* the nodes (one per wrapper, each below its own parent) that are clones of the node holding wi, itself included *)
  Definition clones_of (w : world) (wi : nat) : list nat :=
    filter (fun wj => Z.eqb (node_data_id w wj) (node_data_id w wi)) (seq 0 (length (w_wraps w))).

  Definition sx_res (r : res) : sx :=
    match r with
    | RDict di => L [A 0%Z; sx_nat di]
    | RWrap wi => L [A 1%Z; sx_nat wi]
    | RUnit => L [A 2%Z]
    | RGot v => L [A 3%Z; sx_pv v]
    | RBool b => L [A 4%Z; sx_bool b]
    | RInt z => L [A 5%Z; A z]
    | RText t => L [A 6%Z; sx_text t]
    | RErr c => L [A (-1)%Z; A c]
    end.

  Definition sx_world (w : world) : sx :=
    let ws := seq 0 (length (w_wraps w)) in
    L [ L (map sx_dict (w_dicts w));
        L (map sx_nat (w_wraps w));
        L (map (fun i => L (map (fun j => sx_bool (w_eq w i j)) ws)) ws);
        L (map (fun i => A (w_hash w i)) ws);
        L (map (fun i => A (node_data_id w i)) ws);
        L (map (fun i => L (map sx_nat (clones_of w i))) ws) ].
End Addr.

Definition run_wrap (addrs : list Z) (ops : list op) : sx :=
  let addr := fun di => nth di addrs (-1)%Z in
  let '(w, rs) := run addr empty_world ops in
  L [ L (map sx_res rs); sx_world addr w ].
