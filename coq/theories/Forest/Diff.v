(* Model of nutree/diff.py (C11): [Tree.diff(other, ordered=, reduce=)].
   Executable definitions only; proofs are in DiffProofs.v.

   The Python code builds a fresh tree t2 while walking t0 and t1 in parallel
   ([compare]), collects the node ids of everything copied from t1
   ([added_nodes]) and of the t0 copies without a peer ([removed_nodes]),
   re-classifies ADDED/REMOVED pairs with equal data_id as MOVED_HERE /
   MOVED_TO by iterating the *set* [added_nodes] (genuinely unordered: the
   iteration order is the parameter [order] here) and finally, for
   [reduce=True], runs the in-place filter with the predicate "has a dc mark".

   Result nodes get the identity [2*n] when copied from the t0 node n and
   [2*n+1] when copied from the t1 node n (every source node is copied at most
   once), so [added_nodes] = the odd identities of the result. *)
From Coq Require Import List ZArith Bool Arith.
From NT Require Import Sx Rose.
Import ListNotations.

(* ---- metadata: a Python dict (insertion ordered) ------------------------ *)
Definition meta := list (text * sx).

Fixpoint get_meta (k : text) (m : meta) : option sx :=
  match m with
  | [] => None
  | (k', v) :: r => if text_eqb k' k then Some v else get_meta k r
  end.

(* Node.set_meta(key, value) for value != None: replace in place or append *)
Fixpoint set_meta (k : text) (v : sx) (m : meta) : meta :=
  match m with
  | [] => [(k, v)]
  | (k', v') :: r => if text_eqb k' k then (k, v) :: r else (k', v') :: set_meta k v r
  end.

Definition k_dc : text := [100; 99]%Z.                                           (* "dc" *)
Definition k_ren : text := [100; 99; 95; 114; 101; 110; 117; 109; 98; 101; 114; 101; 100]%Z.  (* "dc_renumbered" *)

(* DiffClassification; values as in diff.py:17-21 (tied to the source by the
   generated DIFF_CLASSES, see Properties/C11.v) *)
Inductive dcl := ADDED | REMOVED | MOVED_HERE | MOVED_TO.
Definition dc_val (c : dcl) : Z :=
  match c with ADDED => 1 | REMOVED => 2 | MOVED_HERE => 3 | MOVED_TO => 4 end%Z.
(* the harness renders an Enum member as [9, value] *)
Definition dc_sx (c : dcl) : sx := L [A 9%Z; A (dc_val c)].
(* the tuple (i0, i1); C11's harness renders a tuple as [7, i0, i1] so that it
   can never be confused with an enum member *)
Definition order_sx (i0 i1 : nat) : sx := L [A 7%Z; sx_nat i0; sx_nat i1].

Definition rmeta (t : rt) : meta := i_meta (rinfo t).
Definition mark (t : rt) : option sx := get_meta k_dc (rmeta t).
Definition has_dc (t : rt) (c : dcl) : bool :=
  match mark t with Some v => sx_eqb v (dc_sx c) | None => false end.

(* ---- nodes of the result tree ------------------------------------------- *)
Definition id0 (n : nat) : nat := 2 * n.
Definition id1 (n : nat) : nat := 2 * n + 1.

(* _add_copy(p2, c): a new node in t2 around the same data object; the copy
   keeps the source node's data_id (repair D20: add_child(node) no longer
   recomputes it) and the kind of a typed node (repair D62); t2 is a fresh tree
   of t0's class; meta is not copied *)
Definition res_info (i : info) (m : meta) : info :=
  I (i_obj i) (i_eqc i) (i_hash i) (i_isstr i) (i_name i) (i_did i) (i_kind i) m.

(* diff.py:28-32  _find_child(arr, child): first element with [c == child]
   (Node.__eq__ compares the data objects), with its index *)
Fixpoint find_child_from (i : nat) (arr : list rt) (e : Z) : option (nat * rt) :=
  match arr with
  | [] => None
  | c :: r => if Z.eqb (i_eqc (rinfo c)) e then Some (i, c) else find_child_from (S i) r e
  end.
Definition find_child (arr : list rt) (e : Z) : option (nat * rt) := find_child_from 0 arr e.

(* diff.py:35-45  _copy_children(source, dest, add_set, meta): [meta] is set
   on the direct children only, the recursion passes meta=None *)
Fixpoint copy_child (m : meta) (n : rt) : rt :=
  match n with T id i ch => T (id1 id) (res_info i m) (map (copy_child []) ch) end.
Definition copy_children (m : meta) (src : list rt) : list rt := map (copy_child m) src.

Definition m_added : meta := [(k_dc, dc_sx ADDED)].
Definition m_removed : meta := [(k_dc, dc_sx REMOVED)].

(* diff.py:138-152: the t1 children whose data_id is not among p0's children *)
Definition in_dids (d : did) (l : list rt) : bool := existsb (fun c => did_eqb (rdid c) d) l.
Definition add_top (c1 : rt) : rt :=
  T (id1 (rid c1)) (res_info (rinfo c1) m_added) (copy_children m_added (rch c1)).
Definition added_part (ch0 ch1 : list rt) : list rt :=
  map add_top (filter (fun c1 => negb (in_dids (rdid c1) ch0)) ch1).

Definition mapi_from {X Y} (f : nat -> X -> Y) : nat -> list X -> list Y :=
  fix go (i : nat) (l : list X) : list Y :=
    match l with [] => [] | x :: r => f i x :: go (S i) r end.

(* diff.py:92-153, one iteration of the first loop of compare(p0, p1, p2) for
   the child c0 at index i0, including the recursive call for the pair
   (c0, c1).  Returns the new child c2 of p2 and whether p2 gets
   dc_renumbered from this child.
   The source calls compare(c0, c1, c2) iff c1 exists and c0 or c1 has
   children; a call with two empty child lists does nothing, so the model
   calls it whenever c1 exists ([cmp_lit] below keeps the literal branches
   and is proved equal in DiffProofs.v). *)
Fixpoint cmp (ordered : bool) (ch1 : list rt) (i0 : nat) (c0 : rt) {struct c0} : rt * bool :=
  match c0 with
  | T n0 inf0 ch0 =>
      match find_child ch1 (i_eqc inf0) with
      | Some (i1, c1) =>
          let shifted := negb (Nat.eqb i0 i1) && ordered in
          let sub := mapi_from (cmp ordered (rch c1)) 0 ch0 in
          let m := (if shifted then [(k_dc, order_sx i0 i1)] else [])
                   ++ (if existsb snd sub then [(k_ren, A 1%Z)] else []) in
          (T (id0 n0) (res_info inf0 m) (map fst sub ++ added_part ch0 (rch c1)), shifted)
      | None => (T (id0 n0) (res_info inf0 m_removed) [], false)
      end
  end.

(* compare(p0, p1, p2): children of p2 and whether p2 gets dc_renumbered *)
Definition compare (ordered : bool) (ch0 ch1 : list rt) : list rt * bool :=
  let sub := mapi_from (cmp ordered ch1) 0 ch0 in
  (map fst sub ++ added_part ch0 ch1, existsb snd sub).

(* literal branch structure of diff.py:113-134 *)
Fixpoint cmp_lit (ordered : bool) (ch1 : list rt) (i0 : nat) (c0 : rt) {struct c0} : rt * bool :=
  match c0 with
  | T n0 inf0 ch0 =>
      match find_child ch1 (i_eqc inf0) with
      | Some (i1, c1) =>
          let shifted := negb (Nat.eqb i0 i1) && ordered in
          let rec := match ch0 with
                     | _ :: _ => true                                  (* if c0._children: if c1: compare *)
                     | [] => match rch c1 with _ :: _ => true | [] => false end   (* elif c1: if c1._children *)
                     end in
          if rec then
            let sub := mapi_from (cmp_lit ordered (rch c1)) 0 ch0 in
            let m := (if shifted then [(k_dc, order_sx i0 i1)] else [])
                     ++ (if existsb snd sub then [(k_ren, A 1%Z)] else []) in
            (T (id0 n0) (res_info inf0 m) (map fst sub ++ added_part ch0 (rch c1)), shifted)
          else
            (T (id0 n0) (res_info inf0 (if shifted then [(k_dc, order_sx i0 i1)] else [])) [], shifted)
      | None => (T (id0 n0) (res_info inf0 m_removed) [], false)
      end
  end.
Definition compare_lit (ordered : bool) (ch0 ch1 : list rt) : list rt * bool :=
  let sub := mapi_from (cmp_lit ordered ch1) 0 ch0 in
  (map fst sub ++ added_part ch0 ch1, existsb snd sub).

(* ---- re-classification (diff.py:157-169) -------------------------------- *)
Fixpoint map_info (g : nat -> info -> info) (t : rt) : rt :=
  match t with T id i ch => T id (g id i) (map (map_info g) ch) end.

Definition set_dc (c : dcl) (i : info) : info := set_meta_i (set_meta k_dc (dc_sx c) (i_meta i)) i.
Definition info_has_dc (i : info) (c : dcl) : bool :=
  match get_meta k_dc (i_meta i) with Some v => sx_eqb v (dc_sx c) | None => false end.

(* one iteration for the added node with identity [a]:
   removed_clones = the other nodes of t2 with the same data_id and dc == REMOVED *)
(* (t2._node_by_id[nid] is ONE node, whose data_id is d; the test on d makes
   the step well-behaved also on forests with repeated identities) *)
Definition reclass_fn (a : nat) (d : did) (id : nat) (i : info) : info :=
  if Nat.eqb id a && did_eqb (i_did i) d then set_dc MOVED_HERE i
  else if did_eqb (i_did i) d && info_has_dc i REMOVED then set_dc MOVED_TO i
  else i.
Definition reclass_step (f : forest) (a : nat) : forest :=
  if Nat.odd a then
    match find_node a f with
    | Some n =>
        if existsb (fun x => negb (Nat.eqb (rid x) a) && did_eqb (rdid x) (rdid n) && has_dc x REMOVED) (pre_f f)
        then map (map_info (reclass_fn a (rdid n))) f
        else f
    | None => f
    end
  else f.
Definition reclass (order : list nat) (f : forest) : forest := fold_left reclass_step order f.

(* ---- reduce (diff.py:171-177 + Node.filter with a boolean predicate) ---- *)
Definition pred_dc (t : rt) : bool := match mark t with Some _ => true | None => false end.

(* node.py filter._visit for predicates answering True/False only: returns the
   node with its surviving children and whether the parent must keep it
   (predicate true, or some descendant kept) *)
Fixpoint visit (n : rt) : rt * bool :=
  match n with
  | T id i ch =>
      let rs := map visit ch in
      (T id i (map fst (filter snd rs)), pred_dc n || existsb snd rs)
  end.
Definition reduce_f (f : forest) : forest := map fst (filter snd (map visit f)).

(* ---- Tree.diff ---------------------------------------------------------- *)
(* the iteration order of the set: the hinted identities first, then the
   remaining added nodes in pre-order; any list of hints gives a permutation
   of added_nodes *)
Definition added_ids (f : forest) : list nat := filter Nat.odd (ids f).
Definition mem (n : nat) (l : list nat) : bool := existsb (Nat.eqb n) l.
Definition eff_order (hints : list nat) (f : forest) : list nat :=
  let added := added_ids f in
  nodup Nat.eq_dec (filter (fun h => mem h added) hints) ++ filter (fun a => negb (mem a hints)) added.

Definition root_meta (ren : bool) : meta := if ren then [(k_ren, A 1%Z)] else [].

(* Tree._register refuses a second child with the same data_id below one
   parent (UniqueConstraintError); t2's nodes carry the data_ids of their
   sources, so this cannot happen for inputs that are themselves well-formed
   trees (no two siblings with one data_id: DiffMore.diff_no_error).  The model
   keeps the check because its inputs are arbitrary forest values.
   The exception leaves diff_tree, t2 is lost: only "raised" is observable. *)
Fixpoint dids_nodup (l : list did) : bool :=
  match l with
  | [] => true
  | d :: r => negb (existsb (did_eqb d) r) && dids_nodup r
  end.
Fixpoint sibs_ok (t : rt) : bool :=
  match t with T _ _ ch => dids_nodup (map rdid ch) && forallb sibs_ok ch end.
Definition sibs_ok_f (f : forest) : bool := dids_nodup (map rdid f) && forallb sibs_ok f.

(* result: meta of t2's system root and the forest below it *)
Definition diff_with (order : list nat) (ordered reduce : bool) (t0 t1 : forest) : meta * forest :=
  let r := compare ordered t0 t1 in
  let f := reclass order (fst r) in
  (root_meta (snd r), if reduce then reduce_f f else f).

(* the function the correspondence runs: literal branch structure, set order
   from the hints, None = UniqueConstraintError *)
Definition diff_gen (C : bool -> list rt -> list rt -> list rt * bool)
           (hints : list nat) (ordered reduce : bool) (t0 t1 : forest) : option (meta * forest) :=
  let r := C ordered t0 t1 in
  if sibs_ok_f (fst r) then
    let f := reclass (eff_order hints (fst r)) (fst r) in
    Some (root_meta (snd r), if reduce then reduce_f f else f)
  else None.
Definition diff_tree := diff_gen compare.
Definition diff_tree_lit := diff_gen compare_lit.

(* ---- executable form of the theorems' domain (DiffProofs.dom) ------------ *)
Fixpoint nodupb (l : list Z) : bool :=
  match l with [] => true | x :: r => negb (existsb (Z.eqb x) r) && nodupb r end.
Definition keys_of (l : list rt) : list Z := map (fun t => i_eqc (rinfo t)) l.
Fixpoint dom_t (c0 : rt) (ch1 : list rt) {struct c0} : bool :=
  match c0 with
  | T _ i0 ch0 =>
      forallb (fun c1 =>
        Bool.eqb (Z.eqb (i_eqc i0) (i_eqc (rinfo c1))) (did_eqb (i_did i0) (rdid c1)) &&
        (if Z.eqb (i_eqc i0) (i_eqc (rinfo c1))
         then nodupb (keys_of ch0) && nodupb (keys_of (rch c1)) && forallb (fun c => dom_t c (rch c1)) ch0
         else true)) ch1
  end.
Definition dom_b (ch0 ch1 : list rt) : bool :=
  nodupb (keys_of ch0) && nodupb (keys_of ch1) && forallb (fun c0 => dom_t c0 ch1) ch0.

(* executable form of the hypothesis of the no-error theorem
   (DiffMore.diff_no_error): no two siblings with one data_id, anywhere in
   both inputs (what Tree._register guarantees for every real tree) *)
Definition dsu_b (f : forest) : bool :=
  dids_nodup (map rdid f) && forallb (fun x => dids_nodup (map rdid (rch x))) (pre_f f).
Definition no_raise_b (t0 t1 : forest) : bool := dsu_b t0 && dsu_b t1.
