(* C19 (surrounding code) -- executable model of FileSystemEntry.__repr__ (fs.py:34-39),
   which is what [node.name] and [tree.format()] show for a FileSystemTree:

     directories:  f"[{self.name}]"
     files:        f"{self.name!r}, {self.size:,} bytes, {mdt}"   with
                   mdt = datetime.fromtimestamp(self.mdate).isoformat(sep=" ", timespec="seconds")

   Modelled: repr() of a str (CPython unicode_repr: quote choice, escapes), the ','
   thousands format of an int, the proleptic Gregorian calendar.  Outside the model:
   the Unicode database (which non-ASCII code points are printable is an input,
   [isprint]) and the time zone (the harness runs with TZ=UTC).  No proofs here. *)
From Coq Require Import List ZArith Bool.
From NT Require Import Sx Rose FsLoad.
Import ListNotations.
Open Scope Z_scope.

(* ---- decimal and hexadecimal digits ---- *)
Fixpoint uint_digits (u : Decimal.uint) : list Z :=
  match u with
  | Decimal.Nil => []
  | Decimal.D0 r => 0 :: uint_digits r | Decimal.D1 r => 1 :: uint_digits r
  | Decimal.D2 r => 2 :: uint_digits r | Decimal.D3 r => 3 :: uint_digits r
  | Decimal.D4 r => 4 :: uint_digits r | Decimal.D5 r => 5 :: uint_digits r
  | Decimal.D6 r => 6 :: uint_digits r | Decimal.D7 r => 7 :: uint_digits r
  | Decimal.D8 r => 8 :: uint_digits r | Decimal.D9 r => 9 :: uint_digits r
  end.

Definition dec_digits (z : Z) : list Z :=       (* of |z|, most significant first *)
  match z with
  | Z0 => [0]
  | Zpos p => uint_digits (Pos.to_uint p)
  | Zneg p => uint_digits (Pos.to_uint p)
  end.
Definition dec_text (z : Z) : text := map (fun d => 48 + d) (dec_digits z).

Definition pad_left (w : nat) (t : text) : text :=    (* zero padding to width w *)
  repeat 48 (w - length t)%nat ++ t.

Definition hex_char (d : Z) : Z := if d <? 10 then 48 + d else 87 + d.   (* 0-9 a-f *)
Fixpoint hex_fixed (w : nat) (z : Z) : text :=
  match w with
  | O => []
  | S w' => hex_fixed w' (z / 16) ++ [hex_char (z mod 16)]
  end.

(* ---- format(int, ",") ---- *)
Fixpoint group3 (k : nat) (l : list Z) : list Z :=    (* l = characters, least significant first *)
  match l with
  | [] => []
  | x :: r => match k with
              | O => 44 :: x :: group3 2 r
              | S k' => x :: group3 k' r
              end
  end.
Definition fmt_thousands (z : Z) : text :=
  (if z <? 0 then [45] else []) ++ rev (group3 3 (rev (dec_text z))).

(* ---- repr(str) ---- *)
Definition repr_char (isprint : Z -> bool) (q c : Z) : text :=
  if (c =? q) || (c =? 92) then [92; c]
  else if c =? 9 then [92; 116]
  else if c =? 10 then [92; 110]
  else if c =? 13 then [92; 114]
  else if (c <? 32) || (c =? 127) then [92; 120] ++ hex_fixed 2 c
  else if c <? 127 then [c]
  else if isprint c then [c]
  else if c <=? 255 then [92; 120] ++ hex_fixed 2 c
  else if c <=? 65535 then [92; 117] ++ hex_fixed 4 c
  else [92; 85] ++ hex_fixed 8 c.

Definition repr_quote (s : text) : Z :=
  if existsb (Z.eqb 39) s && negb (existsb (Z.eqb 34) s) then 34 else 39.

Definition repr_str (isprint : Z -> bool) (s : text) : text :=
  let q := repr_quote s in [q] ++ flat_map (repr_char isprint q) s ++ [q].

(* ---- datetime.fromtimestamp(t).isoformat(sep=" ", timespec="seconds"), TZ=UTC ---- *)
(* days since 1970-01-01 -> (year, month, day), proleptic Gregorian *)
Definition civil_from_days (z0 : Z) : Z * Z * Z :=
  let z := z0 + 719468 in
  let era := z / 146097 in
  let doe := z - era * 146097 in
  let yoe := (doe - doe / 1460 + doe / 36524 - doe / 146096) / 365 in
  let doy := doe - (365 * yoe + yoe / 4 - yoe / 100) in
  let mp := (5 * doy + 2) / 153 in
  let d := doy - (153 * mp + 2) / 5 + 1 in
  let m := if mp <? 10 then mp + 3 else mp - 9 in
  let y := yoe + era * 400 + (if m <=? 2 then 1 else 0) in
  (y, m, d).

Definition p2 (z : Z) : text := pad_left 2 (dec_text z).

Definition fmt_mdt (m : mtime) : option text :=
  let t := fst m / snd m in                       (* whole seconds: floor *)
  let '(y, mo, d) := civil_from_days (t / 86400) in
  let sod := t mod 86400 in
  if (y <? 1) || (9999 <? y) then None            (* ValueError: year out of range *)
  else Some (pad_left 4 (dec_text y) ++ [45] ++ p2 mo ++ [45] ++ p2 d ++ [32] ++
             p2 (sod / 3600) ++ [58] ++ p2 (sod mod 3600 / 60) ++ [58] ++ p2 (sod mod 60)).

(* ---- FileSystemEntry.__repr__ ; [None] = AssertionError / ValueError ---- *)
Definition repr_entry (isprint : Z -> bool) (e : fse) : option text :=
  if e_isdir e then Some ([91] ++ e_name e ++ [93])
  else
    match e_mdate e with
    | None => None                                 (* assert self.mdate is not None *)
    | Some m =>
        match fmt_mdt m with
        | None => None
        | Some d => Some (repr_str isprint (e_name e) ++ [44; 32] ++ fmt_thousands (e_size e) ++
                          [32; 98; 121; 116; 101; 115; 44; 32] ++ d)
        end
    end.
