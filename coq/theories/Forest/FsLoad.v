(* C19 -- executable model of nutree/fs.py: [FileSystemEntry], the two mappers of
   [FileSystemTree] and [load_tree_from_fs].  No proofs here (FsLoadProofs.v).

   A directory is an abstract value [fsn]; the ORDER of a [Dir]'s list stands for
   the (arbitrary) order in which [Path.iterdir()] returns the entries.  The OS,
   pathlib, symlinks are outside the model; entries that are neither [is_dir()]
   nor [is_file()] (FIFOs, dangling symlinks, ...) are [Other] and are skipped by
   the code (fs.py:79-85, 96-103: `if c.is_dir() ... elif c.is_file()`).

   mtime: the code stores [float(stat.st_mtime)].  A float is represented exactly
   by the pair (numerator, denominator) of [float.as_integer_ratio()], so equality
   of pairs is equality of floats and no float arithmetic is modelled. *)
From Coq Require Import List ZArith Bool.
From NT Require Import Sx Rose.
Import ListNotations.
Open Scope Z_scope.

(* ------------------------------------------------------------------ *)
(* Python [str] order: lexicographic on code points                    *)
Fixpoint text_ltb (a b : text) : bool :=
  match a, b with
  | _, [] => false
  | [], _ :: _ => true
  | x :: a', y :: b' => if x <? y then true else if x =? y then text_ltb a' b' else false
  end.

(* ------------------------------------------------------------------ *)
(* [list.sort(key=)] / [sorted(key=)]: a STABLE sort that only uses [<] on the
   keys (modelled, not verified: CPython's timsort).  Insertion from the right:
   [x] stood before every element of [l], so it is placed before the first
   element that is not strictly smaller. *)
Section StableSort.
  Context {X : Type} (key : X -> text).
  Fixpoint ins (x : X) (l : list X) : list X :=
    match l with
    | [] => [x]
    | y :: r => if text_ltb (key y) (key x) then y :: ins x r else x :: y :: r
    end.
  Definition sort_by (l : list X) : list X := fold_right ins [] l.
End StableSort.

(* ------------------------------------------------------------------ *)
(* the scanned directory                                                *)
Definition mtime := (Z * Z)%type.

Inductive fsn :=
| File (name : text) (size : Z) (mt : mtime)
| Dir (name : text) (listing : list fsn)
| Other (name : text).

Definition fsn_name (x : fsn) : text :=
  match x with File n _ _ => n | Dir n _ => n | Other n => n end.

(* ------------------------------------------------------------------ *)
(* class FileSystemEntry  (fs.py:15-39)                                 *)
Record fse := E { e_name : text; e_isdir : bool; e_size : Z; e_mdate : option mtime }.

(* __init__(name, *, is_dir=False, size=None, mdate=None); [None] = AssertionError *)
Definition mk_entry (name : text) (is_dir : bool) (size : option Z) (mdate : option mtime) : option fse :=
  if is_dir then
    match size with
    | None => Some (E name true 0 mdate)          (* assert size is None; size = 0 *)
    | Some _ => None
    end
  else
    match size with
    | Some s => Some (E name false s mdate)       (* assert size is not None *)
    | None => None
    end.

(* the two constructor calls of load_tree_from_fs *)
Definition entry_dir (n : text) : fse := E n true 0 None.                 (* FileSystemEntry(f"{c.name}", is_dir=True) *)
Definition entry_file (n : text) (s : Z) (m : mtime) : fse := E n false s (Some m).  (* ...(c.name, size=st_size, mdate=st_mtime) *)

(* the tree that is built: nodes carry a FileSystemEntry *)
Inductive ft := FN (e : fse) (ch : list ft).
Definition ft_entry (t : ft) : fse := match t with FN e _ => e end.
Definition ft_children (t : ft) : list ft := match t with FN _ ch => ch end.
Definition ft_name (t : ft) : text := e_name (ft_entry t).
Definition ft_isdir (t : ft) : bool := e_isdir (ft_entry t).

(* ------------------------------------------------------------------ *)
(* load_tree_from_fs  (fs.py:64-106)

   [visit(node, pth)] adds below [node] what [kids sort] returns for the nodes
   created for the entries of [pth.iterdir()] (in that order):
     sort=False: every entry in listing order, directories recursively;
     sort=True : `files` sorted by o.name, then `dirs` sorted by their path [c]
                 (itemgetter(0)); all paths of one listing share the parent, so
                 on a POSIX flavour the order of the paths is the order of the
                 last component = o.name.
   The recursion into a sub-directory happens in the code after sorting and here
   before it (the guard checker wants a structural call); the functions are pure,
   so the value is the same. *)
Definition kids (sort : bool) (ts : list ft) : list ft :=
  if sort then
    sort_by ft_name (filter (fun t => negb (ft_isdir t)) ts) ++ sort_by ft_name (filter ft_isdir ts)
  else ts.

Fixpoint conv (sort : bool) (x : fsn) : list ft :=      (* the node created for one entry: 0 or 1 *)
  match x with
  | File n s m => [FN (entry_file n s m) []]
  | Other _ => []
  | Dir n l => [FN (entry_dir n) (kids sort (flat_map (conv sort) l))]
  end.

(* the root directory itself does not become a node: visit(tree._root, path) *)
Definition load (sort : bool) (listing : list fsn) : list ft :=
  kids sort (flat_map (conv sort) listing).

(* ------------------------------------------------------------------ *)
(* The same function written with the loop structure of the source (fs.py:74-103),
   proved equal to [load] in FsVisitProofs.v; the correspondence check runs THIS one.

   - a [Path] object is its list of components (PurePosixPath._parts_normcase; the
     flavour is POSIX: no case folding) together with what iterdir() on it returns;
     `c = pth / name` has the components [pth ++ [name]];
   - `sorted(dirs, key=itemgetter(0))` compares the Path objects: Python list
     comparison of the components ([path_ltb]: first differing component decides,
     a proper prefix is smaller);
   - the recursion `visit(pn, c)` happens after sorting, on the listing of [c];
     [fuel] bounds the nesting depth (Python: the recursion limit). *)
Section StableSortGen.
  Context {X : Type} (ltb : X -> X -> bool).
  Fixpoint ins_g (x : X) (l : list X) : list X :=
    match l with
    | [] => [x]
    | y :: r => if ltb y x then y :: ins_g x r else x :: y :: r
    end.
  Definition sort_g (l : list X) : list X := fold_right ins_g [] l.
End StableSortGen.

Definition path := list text.
Fixpoint path_ltb (a b : path) : bool :=
  match a, b with
  | _, [] => false
  | [], _ :: _ => true
  | x :: a', y :: b' => if text_eqb x y then path_ltb a' b' else text_ltb x y
  end.

Definition pathobj := (path * list fsn)%type.

Fixpoint visit (fuel : nat) (sort : bool) (pth : path) (listing : list fsn) : list ft :=
  match fuel with
  | O => []
  | S fuel' =>
      if sort then
        let dirs : list (pathobj * fse) :=
          flat_map (fun c => match c with Dir n l => [((pth ++ [n], l), entry_dir n)] | _ => [] end) listing in
        let files : list fse :=
          flat_map (fun c => match c with File n s m => [entry_file n s m] | _ => [] end) listing in
        (* for o in sorted(files, key=attrgetter("name")): node.add(o) *)
        map (fun o => FN o []) (sort_by e_name files) ++
        (* for c, o in sorted(dirs, key=itemgetter(0)): pn = node.add(o); visit(pn, c) *)
        map (fun co => FN (snd co) (visit fuel' sort (fst (fst co)) (snd (fst co))))
            (sort_g (fun a b => path_ltb (fst (fst a)) (fst (fst b))) dirs)
      else
        flat_map (fun c => match c with
                           | Dir n l => [FN (entry_dir n) (visit fuel' sort (pth ++ [n]) l)]
                           | File n s m => [FN (entry_file n s m) []]
                           | Other _ => []
                           end) listing
  end.

(* The same on a case-folding path flavour (PureWindowsPath: _str_normcase = str(self).lower()):
   the Path objects of `dirs` compare by their LOWER-CASED components, the names of `files`
   are still compared as they are.  Only ASCII letters are folded here (the harness uses
   ASCII names for this flavour; str.lower() of other letters needs the Unicode database).
   This flavour cannot be run through load_tree_from_fs on this platform; its Path order is
   exercised with PureWindowsPath (case kind CPathSortW).  See C19_windows_flavour_*. *)
Definition fold_char (c : Z) : Z := if (65 <=? c) && (c <=? 90) then c + 32 else c.
Definition fold_text (t : text) : text := map fold_char t.
Definition path_ltb_win (a b : path) : bool := path_ltb (map fold_text a) (map fold_text b).

Fixpoint visit_win (fuel : nat) (pth : path) (listing : list fsn) : list ft :=     (* sort=True *)
  match fuel with
  | O => []
  | S fuel' =>
      let dirs : list (pathobj * fse) :=
        flat_map (fun c => match c with Dir n l => [((pth ++ [n], l), entry_dir n)] | _ => [] end) listing in
      let files : list fse :=
        flat_map (fun c => match c with File n s m => [entry_file n s m] | _ => [] end) listing in
      map (fun o => FN o []) (sort_by e_name files) ++
      map (fun co => FN (snd co) (visit_win fuel' (fst (fst co)) (snd (fst co))))
          (sort_g (fun a b => path_ltb_win (fst (fst a)) (fst (fst b))) dirs)
  end.

Fixpoint fdepth (x : fsn) : nat :=
  match x with
  | Dir _ l => S (fold_right (fun c a => Nat.max (fdepth c) a) 0%nat l)
  | _ => 0%nat
  end.
Definition depth_l (l : list fsn) : nat := fold_right (fun c a => Nat.max (fdepth c) a) 0%nat l.

(* load_tree_from_fs(path, sort=sort): [root] = the components of [path] *)
Definition load_tree_from_fs (sort : bool) (root : path) (listing : list fsn) : list ft :=
  visit (S (depth_l listing)) sort root listing.

(* ------------------------------------------------------------------ *)
(* JSON-able dict values and the FS mappers (fs.py:42-61)               *)
Inductive jv := JNull | JBool (b : bool) | JInt (z : Z) | JFloat (m : mtime) | JStr (t : text).
Definition dict := list (text * jv).          (* insertion ordered *)

Fixpoint dict_get (k : text) (d : dict) : option jv :=
  match d with
  | [] => None
  | (k', v) :: r => if text_eqb k k' then Some v else dict_get k r
  end.
Fixpoint dict_set (k : text) (v : jv) (d : dict) : dict :=
  match d with
  | [] => [(k, v)]
  | (k', v') :: r => if text_eqb k k' then (k', v) :: r else (k', v') :: dict_set k v r
  end.
Definition dict_update (d : dict) (kvs : dict) : dict :=
  fold_left (fun d kv => dict_set (fst kv) (snd kv) d) kvs d.

Definition k_n : text := [110].   (* "n" *)
Definition k_d : text := [100].   (* "d" *)
Definition k_s : text := [115].   (* "s" *)
Definition k_m : text := [109].   (* "m" *)

Definition jv_mdate (o : option mtime) : jv := match o with None => JNull | Some m => JFloat m end.

(* serialize_mapper(cls, node, data): inst = node.data *)
Definition ser (inst : fse) (data : dict) : dict :=
  if e_isdir inst then dict_update data [(k_n, JStr (e_name inst)); (k_d, JBool true)]
  else dict_update data [(k_n, JStr (e_name inst)); (k_s, JInt (e_size inst)); (k_m, jv_mdate (e_mdate inst))].

(* deserialize_mapper(cls, parent, data); [None] = an exception (KeyError,
   AssertionError, TypeError) or a value outside the model (name not a str) *)
Definition arg_size (v : jv) : option (option Z) :=       (* size=data["s"]; int(size) *)
  match v with
  | JNull => Some None
  | JInt z => Some (Some z)
  | JBool b => Some (Some (if b then 1 else 0))
  | JFloat m => Some (Some (Z.quot (fst m) (snd m)))      (* int(float) truncates towards zero *)
  | JStr _ => None                                        (* int("t"): ValueError (digit strings are not generated) *)
  end.
Definition arg_mdate (v : jv) : option (option mtime) :=  (* mdate=data["m"]; float(mdate) *)
  match v with
  | JNull => Some None
  | JFloat m => Some (Some m)
  | JInt z => Some (Some (z, 1))
  | JBool b => Some (Some ((if b then 1 else 0), 1))
  | JStr _ => None
  end.
Definition deser (data : dict) : option fse :=
  match dict_get k_d data with
  | Some _ =>                                                     (* if "d" in data *)
      match dict_get k_n data with
      | Some (JStr n) => mk_entry n true None None
      | _ => None
      end
  | None =>
      match dict_get k_n data, dict_get k_s data, dict_get k_m data with
      | Some (JStr n), Some sv, Some mv =>
          match arg_size sv, arg_mdate mv with
          | Some s, Some m => mk_entry n false s m
          | _, _ => None
          end
      | _, _, _ => None
      end
  end.

(* ------------------------------------------------------------------ *)
(* Node.to_list_iter (node.py:1453-1530) for a tree of FileSystemEntry objects:
   data is not a str, data_id is the default hash, there are no clones (every
   entry is its own object with identity hash), so every node yields
   (parent_idx, mapper(node, {})); indices count from 1 in pre-order, 0 = root. *)
Fixpoint fsize (t : ft) : nat :=
  match t with FN _ ch => S (fold_right (fun c a => (fsize c + a)%nat) 0%nat ch) end.

Fixpoint to_list_t (p i : nat) (t : ft) : list (nat * dict) :=
  match t with
  | FN e ch =>
      (p, ser e []) ::
      (fix go (j : nat) (l : list ft) : list (nat * dict) :=
         match l with
         | [] => []
         | c :: r => to_list_t i j c ++ go (j + fsize c)%nat r
         end) (S i) ch
  end.
Fixpoint to_list_f (p j : nat) (l : list ft) : list (nat * dict) :=
  match l with
  | [] => []
  | c :: r => to_list_t p j c ++ to_list_f p (j + fsize c)%nat r
  end.
Definition to_list (f : list ft) : list (nat * dict) := to_list_f 0 1 f.

(* Tree._from_list (tree.py:652-681) with mapper = deserialize_mapper: entry
   number idx (from 1) is appended as the LAST child of node number parent_idx.
   The tree under construction is kept as the list of its nodes in creation
   order, each with the creation numbers of its children (= the node_idx_map
   plus the child lists); [None] = KeyError (unknown parent) or mapper error. *)
Definition ntab := list (fse * list nat).        (* node idx-1  |->  entry, child numbers *)

Fixpoint tab_add_child (p : nat) (c : nat) (tab : ntab) : ntab :=   (* p counts from 1 *)
  match tab, p with
  | [], _ => []
  | (e, cs) :: r, S O => (e, cs ++ [c]) :: r
  | x :: r, S p' => x :: tab_add_child p' c r
  | x :: r, O => x :: r
  end.

Fixpoint from_list_go (idx : nat) (l : list (nat * dict)) (top : list nat) (tab : ntab)
  : option (list nat * ntab) :=
  match l with
  | [] => Some (top, tab)
  | (p, d) :: r =>
      match deser d with
      | None => None
      | Some e =>
          if (p =? 0)%nat then from_list_go (S idx) r (top ++ [idx]) (tab ++ [(e, [])])
          else if (p <? idx)%nat then from_list_go (S idx) r top (tab_add_child p idx tab ++ [(e, [])])
          else None
      end
  end.

(* read the finished table back as a forest; fuel = number of nodes *)
Fixpoint tab_tree (fuel : nat) (tab : ntab) (i : nat) : list ft :=
  match fuel with
  | O => []
  | S fuel' =>
      match nth_error tab (i - 1) with
      | Some (e, cs) => [FN e (flat_map (tab_tree fuel' tab) cs)]
      | None => []
      end
  end.
Definition from_list (l : list (nat * dict)) : option (list ft) :=
  match from_list_go 1 l [] [] with
  | None => None
  | Some (top, tab) => Some (flat_map (tab_tree (S (length tab)) tab) top)
  end.

(* save + load of a FileSystemTree, byte transport (json, zip) being the identity *)
Definition save_load (f : list ft) : option (list ft) := from_list (to_list f).

(* ------------------------------------------------------------------ *)
(* observation terms                                                    *)
Definition sx_mt (m : mtime) : sx := L [A (fst m); A (snd m)].
Definition sx_fse (e : fse) : sx :=
  L [sx_text (e_name e); sx_bool (e_isdir e); A (e_size e); sx_opt sx_mt (e_mdate e)].
Fixpoint sx_ft (t : ft) : sx :=
  match t with FN e ch => L [sx_fse e; L (map sx_ft ch)] end.
Definition sx_forest (f : list ft) : sx := L (map sx_ft f).
Definition sx_jv (v : jv) : sx :=
  match v with
  | JNull => L [A 3]
  | JBool b => L [A 2; sx_bool b]
  | JInt z => L [A 0; A z]
  | JFloat m => L [A 1; A (fst m); A (snd m)]
  | JStr t => L [A 4; sx_text t]
  end.
Definition sx_dict (d : dict) : sx := L (map (fun kv => L [sx_text (fst kv); sx_jv (snd kv)]) d).
Definition sx_entries (l : list (nat * dict)) : sx :=
  L (map (fun pd => L [sx_nat (fst pd); sx_dict (snd pd)]) l).
