(* Theorems about removed nodes (model: MiscRemoved.v; pointer clearing of Mut/Heap.v reused). *)
From Coq Require Import List ZArith Bool Arith Lia.
From NT Require Import Sx Rose MiscMapper MiscRepr MiscRemoved.
From NT Require Heap.
Import ListNotations.

(* ---- what _unregister leaves behind -------------------------------------------------------------------------------- *)
Definition cleared (tag : text) (s : slots) : Prop :=
  s_parent s = None /\ s_tree s = None /\ s_children s = None /\ s_data s = tag /\
  s_data_id s = None /\ s_node_id s = None /\ s_meta s = None.

Lemma clear_slots_cleared tag s : cleared tag (clear_slots tag true s).
Proof. repeat split. Qed.

(* with either value of the flag: no parent, no tree, the kind is kept *)
Lemma clear_slots_pointers tag b s :
  s_parent (clear_slots tag b s) = None /\ s_tree (clear_slots tag b s) = None /\ s_kind (clear_slots tag b s) = s_kind s.
Proof. destruct b; repeat split. Qed.

(* clear=False keeps the payload (no call site of the library asks for it: generated fact UNREGISTER_CALLS_PASSING_CLEAR) *)
Lemma clear_slots_false_keeps tag s :
  let s' := clear_slots tag false s in
  s_children s' = s_children s /\ s_data s' = s_data s /\ s_data_id s' = s_data_id s /\ s_node_id s' = s_node_id s /\ s_meta s' = s_meta s.
Proof. repeat split. Qed.

(* the assignments as (attribute, value) pairs, for the tie to the source *)
Definition model_always : list (text * text) :=
  [([95; 116; 114; 101; 101], [78; 111; 110; 101]); ([95; 112; 97; 114; 101; 110; 116], [78; 111; 110; 101])]%Z.
Definition model_if_clear : list (text * text) :=
  [([95; 100; 97; 116; 97], [84; 65; 71]); ([95; 100; 97; 116; 97; 95; 105; 100], [78; 111; 110; 101]);
   ([95; 110; 111; 100; 101; 95; 105; 100], [78; 111; 110; 101]); ([95; 99; 104; 105; 108; 100; 114; 101; 110], [78; 111; 110; 101]);
   ([95; 109; 101; 116; 97], [78; 111; 110; 101])]%Z.

(* ---- the accessor table of a removed node -------------------------------------------------------------------------- *)
Definition removed_repr (tag cls : text) (k : kind) : text :=
  match k with
  | None => cls ++ [60%Z] ++ repr_text tag ++ [44; 32; 100; 97; 116; 97; 95; 105; 100; 61]%Z ++ t_None ++ [62%Z]
  | Some kt => cls ++ [60; 107; 105; 110; 100; 61]%Z ++ kt ++ t_sep ++ tag ++ [44; 32; 100; 97; 116; 97; 95; 105; 100; 61]%Z ++ t_None ++ [62%Z]
  end.

Definition removed_table (tag : text) (n : nat) (k : kind) (a : acc) : ans :=
  match a with
  | AName | AData => QText tag
  | ADataId | ANodeId | AMeta | ATree | AFirstChild | ALastChild | AGetMeta _ | ACommonAncestor _ => QNone
  | AKind => match k with Some kt => QText kt | None => QNone end
  | AParent | AIsTop | AIsClone | AGetClones _ | AIsFirstSibling | AIsLastSibling | ASiblings _ | AFirstSibling | ALastSibling
  | APrevSibling | ANextSibling | AGetIndex | AGetTop => QErr E_ATTR
  | AChildren | AGetChildren | AIterator false | AParentList _ _ => QNodes []
  | AIterator true => QNodes [n]
  | AIsSystemRoot | AIsLeaf => QBool true
  | AHasChildren | AIsDescendantOf _ | AIsAncestorOf _ => QBool false
  | ADepth | ACalcDepth | ACalcHeight | ACountDescendants _ => QInt 0
  | APath | AGetPath _ => QText [47%Z]
  | AUp _ => QErr E_VALUE
  | ARepr cls => QText (removed_repr tag cls k)
  end.

Section Inert.
  Variable h : sheap.
  Variable fuel : nat.
  Variable tag : text.

  Lemma chain_none k : parent_chain h k None = [].
  Proof. destruct k; reflexivity. Qed.

  Lemma chain_of_parentless k x : s_parent (h x) = None -> parent_chain h k (Some x) = [].
  Proof. intros P. destruct k; cbn; [reflexivity|]. rewrite P. reflexivity. Qed.

  (* every member of a parent chain has a parent: a removed node is on nobody's chain *)
  Lemma chain_members_have_parent k p x : In x (parent_chain h k p) -> s_parent (h x) <> None.
  Proof.
    revert p; induction k as [|k IH]; intros p; cbn; [intros []|].
    destruct p as [y|]; [|intros []]. destruct (s_parent (h y)) eqn:E; [|intros []].
    intros [<-|H]; [congruence|]. eapply IH, H.
  Qed.

  Lemma not_on_any_chain k p n : s_parent (h n) = None -> existsb (Nat.eqb n) (parent_chain h k p) = false.
  Proof.
    intros P. destruct (existsb (Nat.eqb n) (parent_chain h k p)) eqn:E; [|reflexivity].
    apply existsb_exists in E as (x & Hx & Ex). apply Nat.eqb_eq in Ex; subst x.
    exfalso. exact (chain_members_have_parent k p n Hx P).
  Qed.

  Lemma chain_len_none k : chain_len h k None = 0.
  Proof. destruct k; reflexivity. Qed.

  Lemma iter_pre_childless k n : s_children (h n) = None -> iter_pre h k n = [].
  Proof. intros C. destruct k; cbn; [reflexivity|]. rewrite C. reflexivity. Qed.

  Lemma height_childless k n : s_children (h n) = None -> height_at h k n 0 = 0.
  Proof. intros C. destruct k; cbn; [reflexivity|]. rewrite C. reflexivity. Qed.

  (* every accessor of a removed node answers what the table says – whatever the rest of the heap looks like *)
  Theorem removed_answers n a : cleared tag (h n) -> eval h fuel n a = removed_table tag n (s_kind (h n)) a.
  Proof.
    intros (P & T & C & D & DI & NI & M).
    destruct a; cbn [eval removed_table]; unfold sib_list, no_children;
      rewrite ?P, ?T, ?C, ?D, ?DI, ?NI, ?M, ?chain_none, ?(chain_of_parentless fuel n P), ?(iter_pre_childless fuel n C),
              ?(height_childless fuel n C); try reflexivity.
    all: try (rewrite chain_len_none; reflexivity).
    all: try (destruct add_self; try destruct bottom_up; rewrite ?chain_none, ?(chain_of_parentless fuel n P); reflexivity).
    - destruct (level <? 1)%Z eqn:L; [reflexivity|]. apply Z.ltb_ge in L.
      destruct (Z.to_nat level) eqn:Z; [lia|]. rewrite P. reflexivity.
    - unfold is_desc. rewrite (not_on_any_chain fuel (s_parent (h other)) n P). reflexivity.
    - destruct (match s_tree (h other) with None => true | Some _ => false end); reflexivity.
  Qed.

  (* a removed node is inert: no accessor hands out any node but (for iterator(add_self=True)) the removed node itself *)
  Theorem removed_inert n a m : cleared tag (h n) -> In m (nodes_of (eval h fuel n a)) -> m = n.
  Proof.
    intros C. rewrite (removed_answers n a C).
    destruct a; cbn; try tauto; try (destruct (s_kind (h n)); cbn; tauto).
    - destruct add_self; cbn; [intros [<-|[]]; reflexivity|tauto].
  Qed.

  (* in particular never a node that is still in a tree *)
  Corollary removed_returns_no_live_node (live : nat -> Prop) n a :
    cleared tag (h n) -> ~ live n -> forall m, In m (nodes_of (eval h fuel n a)) -> ~ live m.
  Proof. intros C NL m Hm. rewrite (removed_inert n a m C Hm). exact NL. Qed.

  (* and no live node's accessor walks into it: it is on nobody's parent chain *)
  Theorem removed_on_no_chain n o : cleared tag (h n) ->
    eval h fuel o (AIsDescendantOf n) = QBool false /\ eval h fuel n (AIsAncestorOf o) = QBool false.
  Proof.
    intros (P & _). split; cbn [eval]; [|unfold is_desc]; rewrite (not_on_any_chain fuel _ n P); reflexivity.
  Qed.
End Inert.

(* ---- the pointer part is what Mut/Heap.v's h_unregister does --------------------------------------------------------- *)
Definition ptr_view (s : slots) : option nat * bool * list nat :=
  (s_parent s, match s_tree s with Some _ => true | None => false end, match s_children s with Some l => l | None => [] end).
Definition heap_view (hs : Heap.hstate) (n : nat) : option nat * bool * list nat := (Heap.hpar hs n, Heap.htr hs n, Heap.hch hs n).

Lemma upd_same {X} (f : nat -> X) k v : Heap.upd f k v k = v.
Proof. unfold Heap.upd. rewrite Nat.eqb_refl. reflexivity. Qed.

Lemma upd_other {X} (f : nat -> X) k v n : n <> k -> Heap.upd f k v n = f n.
Proof. intros N. unfold Heap.upd. apply Nat.eqb_neq in N. rewrite N. reflexivity. Qed.

Lemma heap_unregister_agrees hs m tag b s :
  heap_view (Heap.h_unregister hs m) m = (None, false, []) /\
  ptr_view (clear_slots tag true s) = heap_view (Heap.h_unregister hs m) m /\
  fst (ptr_view (clear_slots tag b s)) = fst (heap_view (Heap.h_unregister hs m) m).
Proof.
  assert (E : heap_view (Heap.h_unregister hs m) m = (None, false, [])).
  { unfold heap_view, Heap.h_unregister; cbn. rewrite !upd_same. reflexivity. }
  rewrite E. repeat split. destruct b; reflexivity.
Qed.

Lemma heap_unregister_frame hs m n : n <> m -> heap_view (Heap.h_unregister hs m) n = heap_view hs n.
Proof. intros N. unfold heap_view, Heap.h_unregister; cbn. rewrite !upd_other by exact N. reflexivity. Qed.

(* remove_children / remove / clear unregister a list of nodes one after the other: every one of them ends up cleared,
   and stays so *)
Definition ptr_cleared (hs : Heap.hstate) (m : nat) : Prop := heap_view hs m = (None, false, []).

Lemma unregister_keeps_cleared hs x m : ptr_cleared hs m -> ptr_cleared (Heap.h_unregister hs x) m.
Proof.
  intros C. destruct (Nat.eq_dec m x) as [->|N].
  - apply (heap_unregister_agrees hs x [] true (SL None None None [] None None None None)).
  - unfold ptr_cleared. rewrite heap_unregister_frame by exact N. exact C.
Qed.

Lemma fold_keeps_cleared l : forall hs m, ptr_cleared hs m -> ptr_cleared (fold_left Heap.h_unregister l hs) m.
Proof. induction l as [|x r IH]; intros hs m C; cbn [fold_left]; [exact C|]. apply IH, unregister_keeps_cleared, C. Qed.

Lemma heap_unregister_all l : forall hs m, In m l -> ptr_cleared (fold_left Heap.h_unregister l hs) m.
Proof.
  induction l as [|x r IH]; intros hs m; [intros []|]. cbn [fold_left]. intros [->|H].
  - apply fold_keeps_cleared. apply (heap_unregister_agrees hs m [] true (SL None None None [] None None None None)).
  - apply IH, H.
Qed.

(* ---- non-vacuity ------------------------------------------------------------------------------------------------------- *)
Definition ex_tag : text := [60; 100; 101; 108; 101; 116; 101; 100; 62]%Z.
(* node 2 (child of live node 1, with child 3) was removed together with 3 *)
Definition ex_heap : sheap := fun x =>
  match x with
  | 1 => SL (Some 0) (Some 1) None [97%Z] (Some (DInt 5)) (Some 11%Z) None None
  | 2 => clear_slots ex_tag true (SL (Some 1) (Some 1) (Some [3]) [98%Z] (Some (DInt 6)) (Some 12%Z) (Some [([107%Z], A 5%Z)]) (Some [107%Z]))
  | 3 => clear_slots ex_tag true (SL (Some 2) (Some 1) None [99%Z] (Some (DStr [105%Z])) (Some 13%Z) None (Some [107%Z]))
  | _ => SL None (Some 1) (Some [1]) [] None None None None
  end.

Example ex_removed :
  cleared ex_tag (ex_heap 2) /\
  map (eval ex_heap 5 2) [AName; AParent; AChildren; AIsSystemRoot; AKind; AIterator true; AGetMeta [107%Z]; AUp 1%Z; APath; AIsAncestorOf 1; ACommonAncestor 3] =
  [QText ex_tag; QErr E_ATTR; QNodes []; QBool true; QText [107%Z]; QNodes [2]; QNone; QErr E_VALUE; QText [47%Z]; QBool false; QNone] /\
  (* the same accessors on the live node 1 *)
  map (eval ex_heap 5 1) [AParent; AIsSystemRoot; AIsTop; ADepth; AGetTop; APath; AUp 1%Z; AUp 2%Z] =
  [QNone; QBool false; QBool true; QInt 1%Z; QNode 1; QText [47; 97]%Z; QNode 0; QErr E_VALUE].
Proof. split; [apply clear_slots_cleared|]. vm_compute. split; reflexivity. Qed.
