(* C06 — Tree.visit (the model's [tree_visit], executed by run06): what is stated for
   Node.visit, stated for the tree-level wrapper.  Tree.visit passes add_self=False and
   the system root as start node, so the callback never sees the root and only the
   identities of the forest matter (hypothesis NoDup (ids f); nothing is asked of the
   root's own identity).  Also: the start-node-free forms (add_self = false) of the
   no-repetition and skip theorems, which need uniqueness only BELOW the start node. *)
From Coq Require Import List ZArith Bool Arith Lia Permutation.
From NT Require Import Sx Rose ListFacts RoseFacts Traverse TraverseProofs TraverseLevelOrd TraverseVisit TraverseSkip TraverseStop TraverseDyn.
Import ListNotations.

(* ------------------------------------------------------------------ *)
(* add_self = false: uniqueness is needed only below the start node     *)
(* ------------------------------------------------------------------ *)

Theorem iterator_nodup_noself t m l :
  NoDup (ids (rch t)) -> iterator t m false = Some l -> NoDup (map rid l).
Proof.
  intros ND H. apply iterator_perm in H. cbn [branch] in H.
  eapply Permutation_NoDup; [apply Permutation_map, Permutation_sym, H|exact ND].
Qed.

Theorem visit_skip_char_noself cb sk s m l :
  skip_only cb sk -> m = PRE \/ m = LEVEL -> NoDup (ids (rch s)) -> iterator s m false = Some l ->
  exists tr, visit cb s m false = (tr, VReturn None) /\ subseq tr (map rid l) /\
    forall y, In y tr <-> (In y (map rid l) /\ ~ exists x, sk x = true /\ anc_f (rch s) x y).
Proof.
  intros Hcb Hm ND Hl.
  destruct (visit_skip_pruned cb sk s m false Hcb Hm) as (l' & Hl' & Hv).
  exists (map rid l'). split; [exact Hv|].
  assert (Rch : rch (prune_start sk false s) = map (prune sk) (rch s)) by (rewrite rch_prune_start; reflexivity).
  split.
  - destruct Hm as [-> | ->].
    + rewrite (iterator_ids_PRE _ _ _ Hl), (iterator_ids_PRE _ _ _ Hl'), Rch. apply ids_prune_f_subseq.
    + rewrite (iterator_ids_LEVEL _ _ _ Hl), (iterator_ids_LEVEL _ _ _ Hl'), Rch. cbn [app].
      rewrite (lev_ids_fuel _ _ _ _ (size s)).
      * apply lev_ids_prune_subseq.
      * pose proof (len_pre_children (prune_start sk false s)) as H. rewrite Rch in H. lia.
      * pose proof (len_pre_f_prune sk (rch s)). pose proof (len_pre_children s). lia.
  - pose proof (Permutation_map rid (iterator_perm _ _ _ _ Hl)) as P. rewrite branch_ids in P.
    pose proof (Permutation_map rid (iterator_perm _ _ _ _ Hl')) as P'. rewrite branch_ids, Rch in P'.
    intros y. split.
    + intros Hy. apply (Permutation_in _ P') in Hy. split.
      * apply (Permutation_in _ (Permutation_sym P)). eapply subseq_in; [apply ids_prune_f_subseq|exact Hy].
      * intros (x & Hx & Hanc). eapply prune_mem_f; eauto.
    + intros [Hy Hno]. apply (Permutation_in _ (Permutation_sym P')).
      apply prune_mem_f_conv; [now apply (Permutation_in _ P)|]. intros x Hx Hanc. apply Hno. eauto.
Qed.

(* y lies below a node (of the forest below the start node) whose call answered Skip *)
Definition skipped_dyn_f (cb : cbT) (f : forest) (tr : list nat) (y : nat) : Prop :=
  exists x k, nth_error tr k = Some x /\ call_cb cb x (firstn k tr) = Skip /\ anc_f f x y.

Theorem visit_dyn_skip_noself cb s m l :
  never_halts cb -> m = PRE \/ m = LEVEL -> NoDup (ids (rch s)) -> iterator s m false = Some l ->
  exists tr, visit cb s m false = (tr, VReturn None) /\ subseq tr (map rid l) /\
    forall y, In y tr <-> (In y (map rid l) /\ ~ skipped_dyn_f cb (rch s) tr y).
Proof.
  intros Hcb Hm ND Hl.
  assert (Hs : visit_supported m = true) by (destruct Hm; subst m; reflexivity).
  set (tr := fst (visit cb s m false)). set (sk := dyn_sk cb tr).
  assert (NDtr : NoDup tr).
  { eapply subseq_nodup; [eapply visit_subseq_any; eauto|]. eapply iterator_nodup_noself; eauto. }
  assert (A : along (Agr cb (cb_skip sk)) [] tr).
  { apply along_of_nth. intros k x Hk. unfold Agr. cbn [app].
    rewrite (cb_skip_only sk). destruct (Hcb (firstn k tr) x) as [E|E]; rewrite E.
    - destruct (sk x) eqn:Es; [exfalso|reflexivity].
      apply dyn_sk_spec in Es as (k' & Hk' & E').
      assert (k' = k).
      { apply (proj1 (NoDup_nth_error tr) NDtr); [apply nth_error_Some; now rewrite Hk'|now rewrite Hk, Hk']. }
      subst k'. rewrite E in E'. discriminate.
    - assert (Es : sk x = true) by (apply dyn_sk_spec; eauto). now rewrite Es. }
  pose proof (visit_agree cb (cb_skip sk) s m false A) as Eq.
  destruct (visit_skip_char_noself (cb_skip sk) sk s m l (cb_skip_only sk) Hm ND Hl) as (tr0 & Ev & Hsub & Hmem).
  rewrite Eq in Ev. assert (tr0 = tr) by (unfold tr; now rewrite Ev). subst tr0.
  exists tr. split; [exact Ev|]. split; [exact Hsub|].
  intros y. rewrite Hmem. split; intros [Hy Hno]; (split; [exact Hy|]); intros H; apply Hno.
  - destruct H as (x & k & Hk & E & Hanc). exists x. split; [apply dyn_sk_spec; eauto|exact Hanc].
  - destruct H as (x & Es & Hanc). apply dyn_sk_spec in Es as (k & Hk & E). now exists x, k.
Qed.

(* ------------------------------------------------------------------ *)
(* Tree.visit                                                          *)
(* ------------------------------------------------------------------ *)

(* what the wrapper passes: the system root as start node, add_self = False *)
Theorem tree_visit_unfold cb f m : tree_visit cb f m = visit cb (sysroot f) m false.
Proof. reflexivity. Qed.

Lemma tree_iterator_ordered f reg rnd m l :
  visit_supported m = true -> tree_iterator f reg rnd m = Some l -> iterator (sysroot f) m false = Some l.
Proof. destruct m; try discriminate; intros _ H; exact H. Qed.

Lemma tree_iterator_ordered_ex f reg rnd m :
  visit_supported m = true -> exists l, tree_iterator f reg rnd m = Some l /\ iterator (sysroot f) m false = Some l.
Proof. destruct m; try discriminate; intros _; cbn [tree_iterator]; unfold iterator; cbn [iter_handler]; eauto. Qed.

(* Tree.visit knows pre, post and level order; anything else raises before any call *)
Theorem tree_visit_unsupported cb f m :
  visit_supported m = false -> tree_visit cb f m = ([], VRaise E_NOTIMPL).
Proof. apply visit_unsupported. Qed.

(* order: a callback that never signals is called with exactly Tree.iterator's sequence (the system root
   is not among the calls), and Tree.visit returns None *)
Theorem tree_visit_all_continue cb f reg rnd m :
  all_continue cb -> visit_supported m = true ->
  exists l, tree_iterator f reg rnd m = Some l /\ tree_visit cb f m = (map rid l, VReturn None).
Proof.
  intros Hcb Hs. destruct (tree_iterator_ordered_ex f reg rnd m Hs) as (l & E1 & E2).
  destruct (visit_all_continue cb (sysroot f) m false Hcb Hs) as (l0 & E0 & Hv).
  rewrite E2 in E0. inversion E0; subst l0. eauto.
Qed.

(* the calls are nodes of the forest only: the root is never handed to the callback *)
Theorem tree_visit_calls_in_forest cb f m x : In x (fst (tree_visit cb f m)) -> In x (ids f).
Proof.
  intros H. destruct (visit_supported m) eqn:Hs.
  - destruct (tree_iterator_ordered_ex f [] [] m Hs) as (l & _ & E).
    pose proof (visit_subseq_any cb (sysroot f) m false l Hs E) as S.
    apply (subseq_in _ _ _ S) in H.
    pose proof (Permutation_map rid (iterator_perm _ _ _ _ E)) as P. rewrite branch_ids in P.
    apply (Permutation_in _ P) in H. exact H.
  - rewrite tree_visit_unsupported in H by exact Hs. destruct H.
Qed.

(* skip (pre-order and level order) *)
Theorem tree_visit_skip cb sk f reg rnd m l :
  skip_only cb sk -> m = PRE \/ m = LEVEL -> NoDup (ids f) -> tree_iterator f reg rnd m = Some l ->
  exists tr, tree_visit cb f m = (tr, VReturn None) /\ subseq tr (map rid l) /\
    forall y, In y tr <-> (In y (map rid l) /\ ~ exists x, sk x = true /\ anc_f f x y).
Proof.
  intros Hcb Hm ND Hl. apply (visit_skip_char_noself cb sk (sysroot f) m l Hcb Hm ND).
  apply (tree_iterator_ordered f reg rnd); [destruct Hm; subst m; reflexivity|exact Hl].
Qed.

(* skip under a stateful callback that never halts *)
Theorem tree_visit_skip_any_callback cb f reg rnd m l :
  never_halts cb -> m = PRE \/ m = LEVEL -> NoDup (ids f) -> tree_iterator f reg rnd m = Some l ->
  exists tr, tree_visit cb f m = (tr, VReturn None) /\ subseq tr (map rid l) /\
    forall y, In y tr <-> (In y (map rid l) /\ ~ skipped_dyn_f cb f tr y).
Proof.
  intros Hcb Hm ND Hl. apply (visit_dyn_skip_noself cb (sysroot f) m l Hcb Hm ND).
  apply (tree_iterator_ordered f reg rnd); [destruct Hm; subst m; reflexivity|exact Hl].
Qed.

(* post-order: a skip signal suppresses nothing *)
Theorem tree_visit_post_ignores_skip cb f reg rnd :
  never_halts cb ->
  exists l, tree_iterator f reg rnd POST = Some l /\ tree_visit cb f POST = (map rid l, VReturn None).
Proof. intros Hcb. apply (visit_post_quiet_iter cb (sysroot f) false Hcb). Qed.

(* stop at the k-th call, every stop shape: first k+1 nodes of Tree.iterator's order, carried value returned *)
Theorem tree_visit_stop_every_shape (r : raw) (v : option Z) f reg rnd m k l :
  stop_shape r v -> visit_supported m = true -> tree_iterator f reg rnd m = Some l -> k < length l ->
  tree_visit (fun calls _ => if Nat.eqb (length calls) k then r else RetNone) f m
  = (firstn (S k) (map rid l), VReturn v).
Proof.
  intros Hr Hs Hl Hk. apply (visit_stop_every_shape r v (sysroot f) m false k l Hr Hs); [|exact Hk].
  now apply (tree_iterator_ordered f reg rnd).
Qed.

Theorem tree_visit_stop_at_call cb f reg rnd m k h l :
  at_call cb k (halt_out h) -> visit_supported m = true -> tree_iterator f reg rnd m = Some l ->
  tree_visit cb f m = if k <? length l then (firstn (S k) (map rid l), vres_of h) else (map rid l, VReturn None).
Proof.
  intros Hcb Hs Hl. apply (visit_stop_at_call cb (sysroot f) m false k h l Hcb Hs).
  now apply (tree_iterator_ordered f reg rnd).
Qed.

Theorem tree_visit_stop_at_node cb f reg rnd m n h l :
  at_node cb n (halt_out h) -> visit_supported m = true -> tree_iterator f reg rnd m = Some l ->
  (~ In n (map rid l) /\ tree_visit cb f m = (map rid l, VReturn None)) \/
  (exists l1 l2, map rid l = l1 ++ n :: l2 /\ ~ In n l1 /\ tree_visit cb f m = (l1 ++ [n], vres_of h)).
Proof.
  intros Hcb Hs Hl. apply (visit_stop_at_node cb (sysroot f) m false n h l Hcb Hs).
  now apply (tree_iterator_ordered f reg rnd).
Qed.

(* any stateful callback: calls = duplicate-free subsequence of Tree.iterator's order, cut after the first
   halting call, whose carried value (error) is returned (raised) *)
Theorem tree_visit_any_callback cb f reg rnd m l :
  visit_supported m = true -> tree_iterator f reg rnd m = Some l ->
  subseq (fst (tree_visit cb f m)) (map rid l) /\
  exists tr tr' r, tree_visit cb f m = (tr, r) /\ tree_visit (mute cb) f m = (tr', VReturn None) /\
    ((quiet cb [] tr /\ tr = tr' /\ r = VReturn None) \/
     (exists h, halted cb [] tr h /\ (exists rest, tr' = tr ++ rest) /\ r = vres_of h)).
Proof.
  intros Hs Hl. split.
  - exact (visit_subseq_any cb (sysroot f) m false l Hs (tree_iterator_ordered f reg rnd m l Hs Hl)).
  - apply (visit_halt_general cb (mute cb) (sysroot f) m false (mutes_mute cb) Hs).
Qed.

Theorem tree_visit_nodup cb f m : NoDup (ids f) -> NoDup (fst (tree_visit cb f m)).
Proof.
  intros ND. destruct (visit_supported m) eqn:Hs.
  - destruct (tree_iterator_ordered_ex f [] [] m Hs) as (l & _ & E).
    eapply subseq_nodup; [apply (visit_subseq_any cb (sysroot f) m false l Hs E)|].
    apply (iterator_nodup_noself (sysroot f) m l ND E).
  - rewrite tree_visit_unsupported by exact Hs. constructor.
Qed.

(* worked instance; a wrapper that passed add_self = True would call the root (identity 0) first *)
Lemma tree_visit_example :
  let i := I 0 0 0 true [] (DInt 0) None [] in
  let f := [T 2 i [T 4 i []; T 5 i []]; T 3 i [T 6 i [T 7 i []]]] in
  let skip2 : cbT := fun _ x => if Nat.eqb x 2 then RetSkipCls else RetNone in
  let stop3 : cbT := fun calls _ => if Nat.eqb (length calls) 3 then RetFalse else RetNone in
  NoDup (ids f) /\
  option_map (map rid) (tree_iterator f [] [] LEVEL) = Some [2; 3; 4; 5; 6; 7] /\
  tree_visit cb_continue f LEVEL = ([2; 3; 4; 5; 6; 7], VReturn None) /\
  tree_visit cb_continue f LEVEL <> visit cb_continue (sysroot f) LEVEL true /\
  tree_visit skip2 f PRE = ([2; 3; 6; 7], VReturn None) /\
  tree_visit stop3 f POST = ([4; 5; 2; 7], VReturn None) /\
  tree_visit (fun calls _ => if Nat.eqb (length calls) 1 then RaiseStopInst (Some 8%Z) else RetNone) f PRE
    = ([2; 4], VReturn (Some 8%Z)) /\
  tree_visit cb_continue f ZIGZAG = ([], VRaise E_NOTIMPL).
Proof.
  cbv zeta. refine (conj _ (conj _ (conj _ (conj _ (conj _ (conj _ (conj _ _))))))).
  - vm_compute. repeat constructor; cbn; intuition discriminate.
  - vm_compute; reflexivity.
  - vm_compute; reflexivity.
  - vm_compute. discriminate.
  - vm_compute; reflexivity.
  - vm_compute; reflexivity.
  - vm_compute; reflexivity.
  - vm_compute; reflexivity.
Qed.

(* ------------------------------------------------------------------ *)
(* the registry as the harness hands it in: a list of identities        *)
(* ------------------------------------------------------------------ *)

(* run06 resolves the registry's identities to nodes with exactly this expression *)
Definition reg_nodes (f : forest) (reg : list nat) : list rt :=
  flat_map (fun n => match find_node n f with Some t => [t] | None => [] end) reg.

Lemma find_by_key {X} (g : X -> nat) : forall (l : list X) t,
  NoDup (map g l) -> In t l -> find (fun x => Nat.eqb (g x) (g t)) l = Some t.
Proof.
  induction l as [|x l IH]; intros t ND Ht; [destruct Ht|]. cbn [find].
  destruct (Nat.eqb_spec (g x) (g t)) as [E|E].
  - f_equal. eapply (NoDup_map_inj g (x :: l)); eauto. now left.
  - destruct Ht as [->|Ht]; [congruence|]. apply IH; [|exact Ht]. cbn [map] in ND. now inversion ND.
Qed.

Lemma find_node_self f t : NoDup (ids f) -> In t (pre_f f) -> find_node (rid t) f = Some t.
Proof. intros ND Ht. unfold find_node. now apply (find_by_key rid). Qed.

(* if the registry's identities are a permutation of the forest's, its nodes are a permutation of the nodes:
   the hypothesis of the UNORDERED / RANDOM theorem follows from what run06's last flag compares *)
Theorem reg_bridge f reg :
  NoDup (ids f) -> Permutation reg (ids f) -> Permutation (reg_nodes f reg) (pre_f f).
Proof.
  intros ND P. unfold reg_nodes. rewrite (Permutation_flat_map _ P). unfold ids. rewrite flat_map_map'.
  assert (H : forall l, (forall t, In t l -> In t (pre_f f)) ->
              flat_map (fun x => match find_node (rid x) f with Some t => [t] | None => [] end) l = l).
  { induction l as [|x l IH]; intros Hin; [reflexivity|]. cbn [flat_map].
    rewrite (find_node_self f x ND) by (apply Hin; now left). cbn [app]. f_equal. apply IH.
    intros t Ht. apply Hin. now right. }
  rewrite H; [reflexivity|auto].
Qed.

Theorem tree_iterator_perm_ids f reg rnd m :
  NoDup (ids f) -> Permutation reg (ids f) ->
  exists l, tree_iterator f (reg_nodes f reg) rnd m = Some l /\ Permutation l (pre_f f).
Proof. intros ND P. apply tree_iterator_perm. now apply reg_bridge. Qed.
