(* JSON objects are unordered: the reader accepts a document of the declared layout whose
   objects (top level, header, every entry) list their members in ANY order. *)
From Coq Require Import List ZArith Bool Arith Lia Permutation.
From NT Require Import Sx Rose ListFacts RoseFacts Serialize SerializeSpec SerDictFacts SerCompressProofs
     SerLayFacts SerWriterProofs SerReaderProofs SerUnflatProofs SerIsoProofs SerializeProofs SerTheorems.
From NTGen Require Import Generated.
Import ListNotations.

(* an entry of the document vs. the entry of the layout: the same, or the same object with its members permuted *)
Inductive ent_perm : jv -> jv -> Prop :=
| EP_same e : ent_perm e e
| EP_dict p d d' : Permutation d' d -> ent_perm (entry p (JDict d)) (entry p (JDict d')).

(* a document that renders [doc hdr nodes] with members in any order *)
Definition doc_like (hdr : dict) (nodes : list jv) (j : jv) : Prop :=
  exists hdr' nodes', Permutation hdr' hdr /\ Forall2 ent_perm nodes nodes' /\
    (j = JDict [(k_meta, JDict hdr'); (k_nodes, JList nodes')] \/ j = JDict [(k_nodes, JList nodes'); (k_meta, JDict hdr')]).

Definition full_long (c : cls) (ser : info -> dict -> dict) (t : rt) : jv :=
  let i := rinfo t in if bare_str c i then JStr (i_name i) else JDict (ser i (entry_dict c i)).

(* ---- permutation invariance of the remap loop's precondition and of its result *)
Lemma remap_ok_perm ren conv d d' : Permutation d' d -> remap_ok ren conv d -> remap_ok ren conv d'.
Proof.
  intros Hp (Hn & Hc & Hf & Hi).
  assert (Hk : Permutation (keys d') (keys d)) by now apply Permutation_map.
  refine (conj _ (conj _ (conj _ _))).
  - eapply Permutation_NoDup; [apply Permutation_sym; exact Hk|exact Hn].
  - intros k v Hin. apply Hc. eapply Permutation_in; eauto.
  - intros k s Hin Er Hs. apply (Hf k s); [eapply Permutation_in; eauto|exact Er|eapply Permutation_in; eauto].
  - intros k1 k2 s H1 H2. apply Hi; eapply Permutation_in; eauto.
Qed.

Lemma RURM_perm ren conv d : Permutation (RU ren conv d ++ RM ren conv d) (map (rf ren conv) d).
Proof. unfold RU, RM. rewrite <- map_app. apply Permutation_map, filter_partition_perm. Qed.

Lemma uncompress_perm km vm (Hkm : km_ok km) d d2 :
  dict_ok km vm d -> Permutation d2 (short_dict km vm d) ->
  exists d3, uncompress_dict (ikm_of km) (vmj_of vm) d2 = Ok d3 /\ Permutation d3 d.
Proof.
  intros Hd Hp. pose proof (uncompress_remap_ok km vm Hkm d Hd) as Hok.
  pose proof (remap_ok_perm _ _ _ _ Hp Hok) as Hok2.
  unfold uncompress_dict. rewrite (remap_dict_ok _ _ _ Hok2). eexists. split; [reflexivity|].
  eapply Permutation_trans; [apply RURM_perm|].
  eapply Permutation_trans; [apply Permutation_map; exact Hp|].
  (* map rf over the short dict restores d, up to order *)
  pose proof (uncompress_short km vm Hkm d Hd) as Hs. unfold uncompress_dict in Hs. rewrite (remap_dict_ok _ _ _ Hok) in Hs.
  injection Hs as Hs. eapply Permutation_trans; [apply Permutation_sym, RURM_perm|]. rewrite Hs. apply canon_perm.
Qed.

Lemma ent_perm_entry_inv p x e' : ent_perm (entry p x) e' ->
  e' = entry p x \/ exists d d', x = JDict d /\ e' = entry p (JDict d') /\ Permutation d' d.
Proof.
  intros H. inversion H as [e E1 E2|p0 d d' Hp E1 E2]; subst; [now left|].
  apply Nat2Z.inj in E1. subst. right. eauto.
Qed.

Lemma uncompress_nodes_perm c ser km vm (Hkm : km_ok km) : forall l prev es',
  (forall q, In q l -> bare_str c (rinfo (q_node q)) = false ->
             dict_ok km vm (ser (rinfo (q_node q)) (entry_dict c (rinfo (q_node q))))) ->
  Forall2 ent_perm (gen_entries (full_entry c ser km vm) prev l) es' ->
  exists es'', uncompress_nodes (ikm_of km) (vmj_of vm) es' = Ok es'' /\
               Forall2 ent_perm (gen_entries (full_long c ser) prev l) es''.
Proof.
  induction l as [|[[ppos pos] t] l IH]; intros prev es' Hok H2.
  - inversion H2; subst. exists []. split; [reflexivity|constructor].
  - cbn [gen_entries] in H2. inversion H2 as [|e0 e' r0 r' He Hr]; subst.
    destruct (IH (prev ++ [(pos, t)]) r' (fun q Hq => Hok q (or_intror Hq)) Hr) as (r'' & Hu & Hr'').
    cbn [gen_entries].
    (* the data field *)
    assert (Hfull : ent_perm (entry ppos (full_entry c ser km vm t)) e' ->
              exists e'', (forall rest rest', uncompress_nodes (ikm_of km) (vmj_of vm) rest = Ok rest' ->
                             uncompress_nodes (ikm_of km) (vmj_of vm) (e' :: rest) = Ok (e'' :: rest')) /\
                          ent_perm (entry ppos (full_long c ser t)) e'').
    { intros Hep. unfold full_entry, full_long in *. destruct (bare_str c (rinfo t)) eqn:Eb.
      - apply ent_perm_entry_inv in Hep as [->|(d & d' & Ed & _)]; [|discriminate Ed].
        eexists. split; [|constructor]. intros rest rest' E. unfold entry. cbn [uncompress_nodes]. now rewrite E.
      - pose proof (Hok (ppos, pos, t) (or_introl eq_refl) Eb) as Hd. cbn [q_node snd] in Hd.
        assert (Hp : exists d', e' = entry ppos (JDict d') /\ Permutation d' (short_dict km vm (ser (rinfo t) (entry_dict c (rinfo t))))).
        { apply ent_perm_entry_inv in Hep as [->|(d & d' & Ed & -> & Hp)]; [eexists; split; [reflexivity|apply Permutation_refl]|].
          injection Ed as <-. eauto. }
        destruct Hp as (d' & -> & Hp). destruct (uncompress_perm km vm Hkm _ d' Hd Hp) as (d3 & Hu3 & Hp3).
        exists (entry ppos (JDict d3)). split; [|now constructor].
        intros rest rest' E. unfold entry. cbn [uncompress_nodes]. now rewrite Hu3, E. }
    destruct (first_same (rdid t) prev) as [[j x]|].
    + destruct (kind_eqb (rkind t) (rkind x)).
      * apply ent_perm_entry_inv in He as [->|(d & d' & Ed & _)]; [|discriminate Ed].
        exists (entry ppos (jnat j) :: r''). split; [unfold entry, jnat; cbn [uncompress_nodes]; now rewrite Hu|].
        constructor; [constructor|exact Hr''].
      * destruct (Hfull He) as (e'' & Hun & Hep). exists (e'' :: r''). split; [now apply Hun|now constructor].
    + destruct (Hfull He) as (e'' & Hun & Hep). exists (e'' :: r''). split; [now apply Hun|now constructor].
Qed.

Section ReaderPerm.
  Variable c : cls.
  Variable ser : info -> dict -> dict.
  Variable deser : nat -> dict -> res dval.
  Variable shash : text -> Z.
  Variable f : forest.

  Let L := lay_f 0 1 f.
  Let DN := described_nodes c ser deser shash.
  Notation RB := (rb_info c ser deser shash).

  Hypothesis Hkeeps : ser_keeps c ser f.
  Hypothesis Htotal : deser_total c ser deser f.
  Hypothesis Hperm : deser_perm c ser deser f.
  Hypothesis Huniq : described_unique c ser deser shash f.

  Lemma dict_step_perm es idx p t d' :
    In t (pre_f f) -> bare_str c (rinfo t) = false -> Permutation d' (ser (rinfo t) (entry_dict c (rinfo t))) ->
    from_list_step c deser shash es idx (entry p (JDict d'))
    = (if negb (parent_ok es p) then Err EKey else add_node es idx p (RB idx t)).
  Proof.
    intros Ht Eb Hp. unfold from_list_step, entry, jnat. cbn [is_intlike].
    replace (Z.of_nat p <? 0)%Z with false by (symmetry; apply Z.ltb_ge; lia). rewrite Nat2Z.id.
    destruct (negb (parent_ok es p)); [reflexivity|].
    unfold rb_info. rewrite Eb. cbn zeta.
    set (i := rinfo t) in *. set (d := ser i (entry_dict c i)) in *.
    destruct (Hkeeps t Ht) as (Hnd & Hk & Hdid). fold i in Hnd, Hk, Hdid. fold d in Hnd, Hk, Hdid.
    rewrite (dget_perm k_kind d d' Hnd (Permutation_sym Hp)), Hk, (entry_dict_kind c).
    rewrite (dget_perm k_data_id d d' Hnd (Permutation_sym Hp)), Hdid, (entry_dict_did c).
    rewrite (Hperm idx t d' Ht Hp). fold i. fold d.
    destruct (Htotal idx t Ht Eb) as [dv Hdv]. fold i in Hdv. fold d in Hdv. rewrite Hdv. cbn [dv_or].
    unfold default_kind.
    destruct (is_typed c) eqn:Ety; destruct (custom_id i) eqn:Ecu; cbn [jv_did].
    - destruct (i_kind i); destruct (i_did i); reflexivity.
    - destruct (i_kind i); reflexivity.
    - destruct (i_did i); reflexivity.
    - reflexivity.
  Qed.

  Lemma from_list_go_perm : forall L2 L1 es2, L = L1 ++ L2 ->
    Forall2 ent_perm (gen_entries (full_long c ser) (prev3 L1) L2) es2 ->
    Finv c ser deser shash L1 (DN [] L1) ->
    from_list_go c deser shash es2 (S (length L1)) (DN [] L1) = Ok (DN [] L).
  Proof.
    induction L2 as [|[[ppos pos] t] L2 IH]; intros L1 es2 E H2 HF.
    - inversion H2; subst. rewrite app_nil_r in E. subst L1. reflexivity.
    - set (q := (ppos, pos, t)) in *.
      cbn [gen_entries] in H2. inversion H2 as [|e0 e' r0 r' He Hr]; subst.
      assert (Epos : pos = S (length L1)).
      { pose proof (lay_f_positions f 0 1) as P. fold L in P. rewrite E, map_app in P. cbn [map] in P.
        symmetry in P. apply seq_split_pos in P. rewrite map_length in P. exact P. }
      assert (Ht : In t (pre_f f)).
      { rewrite <- (lay_f_nodes f 0 1). fold L. rewrite E, map_app. apply in_or_app. right. now left. }
      assert (Hrange : ppos = 0 \/ (1 <= ppos /\ ppos < pos)).
      { assert (Hq : In q L) by (rewrite E; apply in_or_app; right; now left).
        destruct (lay_f_range f 0 1 q Hq) as [_ [H|H]]; [now left|right; exact H]. }
      assert (Hidx : map ln_idx (DN [] L1) = seq 1 (length L1)).
      { unfold DN. rewrite (DN_idx c ser deser shash). pose proof (lay_f_positions f 0 1) as P. fold L in P. rewrite E, map_app in P.
        symmetry in P. apply seq_prefix in P. now rewrite map_length in P. }
      assert (Hpok : parent_ok (DN [] L1) ppos = true).
      { unfold parent_ok. destruct Hrange as [->|[H1 H2']]; [reflexivity|]. apply orb_true_iff. right.
        destruct (find_ln ppos (DN [] L1)) eqn:Ef; [reflexivity|]. exfalso.
        assert (Hin : In ppos (map ln_idx (DN [] L1))) by (rewrite Hidx; apply in_seq; lia).
        apply in_map_iff in Hin as (e & He' & Hi). unfold find_ln in Ef.
        apply (find_none _ _ Ef) in Hi. rewrite He', Nat.eqb_refl in Hi. discriminate. }
      set (s := src_of (prev3 L1) pos t).
      assert (Hstep : from_list_step c deser shash (DN [] L1) (S (length L1)) e'
                      = add_node (DN [] L1) (S (length L1)) ppos (RB (fst s) (snd s))).
      { assert (Hfullstep : ent_perm (entry ppos (full_long c ser t)) e' ->
                  from_list_step c deser shash (DN [] L1) (S (length L1)) e'
                  = add_node (DN [] L1) (S (length L1)) ppos (RB pos t)).
        { intros Hep. rewrite Epos. unfold full_long in Hep. destruct (bare_str c (rinfo t)) eqn:Eb.
          - apply ent_perm_entry_inv in Hep as [->|(d & d' & Ed & _)]; [|discriminate Ed].
            pose proof (bare_step c ser deser shash [] (DN [] L1) (S (length L1)) ppos t Eb) as B.
            unfold full_canon in B. rewrite Eb in B. rewrite B, Hpok. reflexivity.
          - assert (Hp : exists d', e' = entry ppos (JDict d') /\ Permutation d' (ser (rinfo t) (entry_dict c (rinfo t)))).
            { apply ent_perm_entry_inv in Hep as [->|(d & d' & Ed & -> & Hp)]; [eexists; split; [reflexivity|apply Permutation_refl]|].
              injection Ed as <-. eauto. }
            destruct Hp as (d' & -> & Hp). rewrite (dict_step_perm _ _ _ _ _ Ht Eb Hp), Hpok. reflexivity. }
        unfold s, src_of. destruct (first_same (rdid t) (prev3 L1)) as [[j x]|] eqn:Ef; [|now apply Hfullstep].
        destruct (kind_eqb (rkind t) (rkind x)); [|now apply Hfullstep].
        apply ent_perm_entry_inv in He as [->|(d & d' & Ed & _)]; [|discriminate Ed].
        destruct (HF _ _ _ Ef) as (e & Hfe & Hie). cbn [fst snd].
        assert (Hj : 1 <= j).
        { destruct (first_same_in _ _ _ _ Ef) as [Hi _]. unfold prev3 in Hi. apply in_map_iff in Hi as (y & [= <- _] & Hy).
          assert (Hy' : In y L) by (rewrite E; apply in_or_app; now left).
          destruct (lay_f_range f 0 1 y Hy') as [H _]. lia. }
        rewrite (ref_step c deser shash _ _ _ _ _ Hj Hfe), Hpok, Hie. reflexivity. }
      cbn [from_list_go]. rewrite Hstep.
      assert (EDN : DN [] (L1 ++ [q]) = DN [] L1 ++ [(pos, ppos, RB (fst s) (snd s))]).
      { unfold DN. rewrite (DN_app c ser deser shash). cbn [app]. reflexivity. }
      assert (Hadd : add_node (DN [] L1) (S (length L1)) ppos (RB (fst s) (snd s)) = Ok (DN [] (L1 ++ [q]))).
      { unfold add_node. rewrite EDN, <- Epos.
        destruct (existsb _ (DN [] L1)) eqn:Eex; [|reflexivity]. exfalso.
        apply existsb_exists in Eex as (e & He' & Hc). apply andb_true_iff in Hc as [Hc1 Hc2].
        apply Nat.eqb_eq in Hc1. apply did_eqb_eq in Hc2.
        pose proof Huniq as Hu. unfold described_unique in Hu. fold L in Hu. rewrite E in Hu.
        assert (E2 : L1 ++ q :: L2 = (L1 ++ [q]) ++ L2) by la. rewrite E2, (DN_app c ser deser shash), map_app in Hu.
        apply NoDup_app_l in Hu. fold DN in Hu. rewrite EDN, map_app in Hu. cbn [map] in Hu.
        eapply NoDup_app_disj; [exact Hu| |now left].
        apply in_map_iff. exists e. split; [|exact He']. cbn [ln_par ln_info fst snd]. now rewrite Hc1, Hc2. }
      rewrite Hadd.
      assert (E' : L = (L1 ++ [q]) ++ L2) by (rewrite E; la).
      assert (Eprev : prev3 (L1 ++ [q]) = prev3 L1 ++ [(pos, t)]) by (unfold prev3; rewrite map_app; reflexivity).
      assert (Elen : S (S (length L1)) = S (length (L1 ++ [q]))) by (rewrite app_length; cbn; lia).
      rewrite Elen. apply IH; [exact E'|rewrite Eprev; exact Hr|].
      intros d j x Hfs. rewrite Eprev in Hfs. rewrite EDN.
      assert (Hnotin : ~ In pos (map ln_idx (DN [] L1))) by (rewrite Hidx, in_seq; lia).
      unfold first_same in Hfs.
      destruct (find (fun e => did_eqb (rdid (snd e)) d) (prev3 L1)) as [[j' x']|] eqn:Ef.
      + rewrite (find_app_some _ _ _ _ Ef) in Hfs. injection Hfs as <- <-.
        destruct (HF d j' x' Ef) as (e & Hfe & Hie). exists e. split; [|exact Hie].
        unfold find_ln in *. now apply find_app_some.
      + rewrite (find_app_none _ _ _ Ef) in Hfs. cbn [find snd] in Hfs.
        destruct (did_eqb (rdid t) d) eqn:Ed; [|discriminate]. injection Hfs as <- <-.
        apply did_eqb_eq in Ed. subst d.
        exists (pos, ppos, RB (fst s) (snd s)). split.
        * rewrite (find_ln_app_notin _ _ _ Hnotin). cbn [ln_idx fst]. now rewrite Nat.eqb_refl.
        * cbn [ln_info snd]. unfold s, src_of, first_same. rewrite Ef. reflexivity.
  Qed.
End ReaderPerm.

(* ---- the whole document *)
Lemma header_spec_nodup km vm meta : meta_ok meta -> NoDup (keys (header_spec km vm meta)).
Proof.
  intros [Hn Hr]. unfold header_spec. rewrite !map_app.
  assert (Hm : forall k, In k (keys meta) -> k <> k_generator /\ k <> k_format_version /\ k <> k_key_map /\ k <> k_value_map).
  { intros k Hk. pose proof (Hr k Hk) as H. unfold reserved in H. cbn [In] in H. repeat split; intros ->; apply H; tauto. }
  assert (N12 : k_generator <> k_format_version) by (intros H; vm_compute in H; discriminate H).
  assert (N13 : k_generator <> k_key_map) by (intros H; vm_compute in H; discriminate H).
  assert (N14 : k_generator <> k_value_map) by (intros H; vm_compute in H; discriminate H).
  assert (N23 : k_format_version <> k_key_map) by (intros H; vm_compute in H; discriminate H).
  assert (N24 : k_format_version <> k_value_map) by (intros H; vm_compute in H; discriminate H).
  assert (N34 : k_key_map <> k_value_map) by (intros H; vm_compute in H; discriminate H).
  destruct (is_nil km); destruct (is_nil vm); cbn [map fst app].
  all: repeat (constructor; [cbn [In]; intros Hin; repeat (destruct Hin as [Hin|Hin]; [congruence|]);
                             try (apply in_app_or in Hin as [Hin|Hin]; [cbn [In] in Hin; intuition congruence|]);
                             try (destruct (Hm _ Hin) as (M1 & M2 & M3 & M4); congruence); try contradiction|]).
  all: exact Hn.
Qed.

Theorem load_doc_like c ser deser shash f km vm meta j :
  km_ok km -> entries_ok c ser km vm f -> meta_ok meta -> mappers_ok c ser deser f ->
  described_unique c ser deser shash f ->
  doc_like (header_spec km vm meta) (layout c ser km vm f) j ->
  exists hdr', load_doc c deser shash j = Ok (hdr', described c ser deser shash f) /\
               Permutation hdr' (header_spec km vm meta).
Proof.
  intros Hkm Hent Hmeta (Hkeeps & Htotal & Hperm) Huniq (hdr' & nodes' & Hph & Hnodes & Hj).
  exists hdr'. split; [|exact Hph].
  pose proof (header_spec_nodup km vm meta Hmeta) as Hnd.
  destruct (header_spec_get km vm meta Hmeta) as (Hg & Hk & Hv).
  rewrite <- (dget_perm k_generator _ _ Hnd (Permutation_sym Hph)) in Hg.
  rewrite <- (dget_perm k_key_map _ _ Hnd (Permutation_sym Hph)) in Hk.
  rewrite <- (dget_perm k_value_map _ _ Hnd (Permutation_sym Hph)) in Hv.
  assert (Hun : exists es'', uncompress_nodes
                    (inverse_key_map (if is_nil km then [] else match jv_key_map km with JDict m => m | _ => [] end))
                    (if is_nil vm then [] else vmj_of vm) nodes' = Ok es'' /\
                  Forall2 ent_perm (gen_entries (full_long c ser) [] (lay_f 0 1 f)) es'').
  { assert (E1 : inverse_key_map (if is_nil km then [] else match jv_key_map km with JDict m => m | _ => [] end) = ikm_of km).
    { destruct km; [reflexivity|]. cbn [is_nil]. apply inverse_key_map_spec. }
    assert (E2 : (if is_nil vm then [] else vmj_of vm) = vmj_of vm) by (destruct vm; reflexivity).
    rewrite E1, E2. apply (uncompress_nodes_perm c ser km vm Hkm).
    - intros q Hq. apply Hent. rewrite <- (lay_f_nodes f 0 1). now apply in_map.
    - unfold layout in Hnodes. now rewrite lay_entries_gen in Hnodes. }
  destruct Hun as (es'' & Hun & Hes).
  assert (Hfl : from_list c deser shash es'' = Ok (described c ser deser shash f)).
  { unfold from_list.
    pose proof (from_list_go_perm c ser deser shash f Hkeeps Htotal Hperm Huniq (lay_f 0 1 f) [] es'' eq_refl) as G.
    cbn [prev3 map length described_nodes] in G. rewrite G.
    - f_equal. unfold described. apply unflat_forest.
      + apply (DN_idx c ser deser shash).
      + apply (DN_par c ser deser shash).
    - exact Hes.
    - intros d j0 x Hfs. discriminate. }
  unfold load_doc, check_header.
  destruct Hj as [-> | ->]; cbn [dget]; rewrite ?text_eqb_refl, ?K_nodes_meta;
    (replace (text_eqb k_meta k_nodes) with false by reflexivity); rewrite ?text_eqb_refl;
    rewrite Hg; cbn [mentions_nutree]; rewrite is_substr_prefix, Hk, Hv;
    destruct km as [|kv km']; destruct vm as [|vv vm']; cbn [is_nil] in *; unfold jv_key_map in *; rewrite ?jv_value_map_vmj;
    rewrite Hun, Hfl; reflexivity.
Qed.

(* combined with iso *)
Theorem layout_like_loads c ser deser shash f ko vo meta j :
  tree_ok c f -> opts_ok c ser ko vo meta f -> mapper_ok c ser deser f -> id_stable c ser deser shash f ->
  doc_like (header_spec (resolve_km c ko) (resolve_vm c vo f) meta)
           (layout c ser (resolve_km c ko) (resolve_vm c vo f) f) j ->
  exists hdr' f', load_doc c deser shash j = Ok (hdr', f') /\
                  Permutation hdr' (header_spec (resolve_km c ko) (resolve_vm c vo f) meta) /\
                  iso f f' /\ ids f' = seq 1 (size_f f).
Proof.
  intros (Hids & Hsib & Hk & Hcc) (Hkm & Hent & Hmeta) (Hm & Hmr) Hst Hlike.
  pose proof (id_stable_ids_stable c ser deser shash f Hst) as Hst'.
  destruct (load_doc_like c ser deser shash f _ _ meta j Hkm Hent Hmeta Hm
              (described_unique_of_source c ser deser shash f Hst' Hsib) Hlike) as (hdr' & Hl & Hp).
  exists hdr', (described c ser deser shash f). split; [exact Hl|]. split; [exact Hp|].
  split; [now apply described_iso|apply ids_relabel_f].
Qed.

(* a rendering with every object's members in reverse order is such a document *)
Definition rev_entry (e : jv) : jv :=
  match e with
  | JList [a; JDict d] => JList [a; JDict (rev d)]
  | _ => e
  end.
Definition rev_doc (hdr : dict) (nodes : list jv) : jv :=
  JDict [(k_nodes, JList (map rev_entry nodes)); (k_meta, JDict (rev hdr))].

Lemma rev_entry_perm p x : ent_perm (entry p x) (rev_entry (entry p x)).
Proof.
  unfold entry, rev_entry. destruct x; try constructor.
  exact (Permutation_sym (Permutation_rev d)).
Qed.

Lemma rev_doc_like c ser km vm hdr f : doc_like hdr (layout c ser km vm f) (rev_doc hdr (layout c ser km vm f)).
Proof.
  exists (rev hdr), (map rev_entry (layout c ser km vm f)). split; [apply Permutation_sym, Permutation_rev|]. split; [|now right].
  unfold layout. generalize (@nil (nat * rt)). induction (lay_f 0 1 f) as [|[[ppos pos] t] l IH]; intros prev; [constructor|].
  cbn [lay_entries map]. constructor; [apply rev_entry_perm|apply IH].
Qed.
