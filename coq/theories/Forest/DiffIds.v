(* Every source node is copied at most once: the nodes of a diff result have
   pairwise different identities (given that the inputs have). *)
From Coq Require Import List ZArith Bool Arith Lia Permutation.
From NT Require Import Sx Rose ListFacts RoseFacts Diff DiffProofs DiffMore.
Import ListNotations.

Definition evens_t (x : rt) : list nat := filter Nat.even (ids_t x).

Lemma even_id0 n : Nat.even (id0 n) = true.
Proof. rewrite <- Nat.negb_odd, odd_id0. reflexivity. Qed.
Lemma even_id1 n : Nat.even (id1 n) = false.
Proof. rewrite <- Nat.negb_odd, odd_id1. reflexivity. Qed.

Lemma evens_flat f : filter Nat.even (ids f) = flat_map evens_t f.
Proof.
  unfold ids, evens_t, ids_t. induction f as [|c f IH]; [reflexivity|].
  cbn [flat_map]. now rewrite map_app, filter_app, IH.
Qed.

Lemma evens_add_top c1 : evens_t (add_top c1) = [].
Proof.
  unfold evens_t. rewrite add_top_ids. apply filter_none. intros x Hx. apply in_map_iff in Hx.
  destruct Hx as [n [<- _]]. apply even_id1.
Qed.

Lemma SubP_nil {X} (b : list X) : SubP [] b.
Proof. exists b. reflexivity. Qed.

Lemma SubP_cons {X} (x : X) a b : SubP a b -> SubP (x :: a) (x :: b).
Proof. intros [r Hr]. exists r. cbn. now apply perm_skip. Qed.

Lemma evens_r0_aux ordered ch1 : forall ch0 i,
  Forall (fun c => forall ch1 i0, SubP (evens_t (fst (cmp ordered ch1 i0 c))) (map id0 (ids_t c))) ch0 ->
  SubP (flat_map evens_t (map fst (mapi_from (cmp ordered ch1) i ch0))) (map id0 (ids ch0)).
Proof.
  induction ch0 as [|c ch0 IH]; intros i H; [apply SubP_nil|].
  inversion H as [|? ? Hc Hch]; subst. cbn [mapi_from map flat_map].
  rewrite ids_cons. change (rid c :: ids (rch c)) with (rid c :: ids (rch c)).
  replace (map id0 (rid c :: ids (rch c) ++ ids ch0)) with (map id0 (ids_t c) ++ map id0 (ids ch0)).
  - apply SubP_app; [apply Hc|apply IH, Hch].
  - rewrite ids_t_unfold. cbn [map]. now rewrite map_app.
Qed.

Lemma compare_evens_aux ordered ch0 :
  Forall (fun c => forall ch1 i0, SubP (evens_t (fst (cmp ordered ch1 i0 c))) (map id0 (ids_t c))) ch0 ->
  forall ch1, SubP (filter Nat.even (ids (fst (compare ordered ch0 ch1)))) (map id0 (ids ch0)).
Proof.
  intros H ch1. rewrite evens_flat, compare_split, flat_map_app.
  replace (flat_map evens_t (added_part ch0 ch1)) with (@nil nat).
  - rewrite app_nil_r. unfold r0_of. now apply evens_r0_aux.
  - symmetry. unfold added_part. induction (filter (fun c1 => negb (in_dids (rdid c1) ch0)) ch1) as [|c l IHl]; [reflexivity|].
    cbn [map flat_map]. now rewrite evens_add_top, IHl.
Qed.

Lemma cmp_evens ordered : forall c0 ch1 i0, SubP (evens_t (fst (cmp ordered ch1 i0 c0))) (map id0 (ids_t c0)).
Proof.
  induction c0 as [n0 inf0 ch0 IH] using rt_ind'. intros ch1 i0. rewrite cmp_unfold.
  destruct (find_child ch1 (key (T n0 inf0 ch0))) as [[i1 c1]|]; cbn [fst rch rid rinfo].
  - unfold evens_t. rewrite !ids_t_unfold. cbn [rid rch map filter]. rewrite even_id0.
    apply SubP_cons. now apply compare_evens_aux.
  - unfold evens_t. rewrite !ids_t_unfold. cbn [rid rch map filter ids flat_map]. rewrite even_id0.
    apply SubP_cons. apply SubP_nil.
Qed.

Lemma compare_evens ordered ch0 ch1 : SubP (filter Nat.even (ids (fst (compare ordered ch0 ch1)))) (map id0 (ids ch0)).
Proof. apply compare_evens_aux. apply Forall_forall. intros c _. apply cmp_evens. Qed.

Lemma NoDup_map_id0 l : NoDup l -> NoDup (map id0 l).
Proof.
  induction 1 as [|x l Hn Hnd IH]; cbn; constructor; auto.
  intros Hi. apply in_map_iff in Hi. destruct Hi as [y [E Hy]]. unfold id0 in E. assert (y = x) by lia. now subst.
Qed.

Lemma NoDup_parity l : NoDup (filter Nat.odd l) -> NoDup (filter Nat.even l) -> NoDup l.
Proof.
  induction l as [|x l IH]; cbn [filter]; intros Ho He; [constructor|].
  rewrite <- Nat.negb_odd in He. destruct (Nat.odd x) eqn:Ox; cbn [negb] in He.
  - inversion Ho as [|? ? Hn Hnd]; subst. constructor.
    + intros Hi. apply Hn. apply filter_In. auto.
    + apply IH; auto.
  - inversion He as [|? ? Hn Hnd]; subst. constructor.
    + intros Hi. apply Hn. apply filter_In. split; [exact Hi|]. now rewrite <- Nat.negb_odd, Ox.
    + apply IH; auto.
Qed.

Lemma reclass_ids order : forall f, ids (reclass order f) = ids f.
Proof.
  unfold reclass. induction order as [|a order IH]; intros f; [reflexivity|]. cbn [fold_left]. rewrite IH.
  destruct (reclass_step_cases f a) as [-> |[g [_ ->]]]; [reflexivity|].
  unfold ids. rewrite map_info_pre_f, map_map. apply map_ext. intros z. apply map_info_rid.
Qed.

Theorem result_ids_nodup order ordered t0 t1 : dom t0 t1 -> NoDup (ids t0) -> NoDup (ids t1) ->
  NoDup (ids (snd (diff_with order ordered false t0 t1))).
Proof.
  intros Hd N0 N1. unfold diff_with. cbn [snd]. rewrite reclass_ids. apply NoDup_parity.
  - now apply added_ids_nodup.
  - eapply SubP_NoDup; [apply compare_evens|now apply NoDup_map_id0].
Qed.
