(* C06 — executable model of the traversal code of nutree (no proofs here).
   node.py : _iter_pre/_iter_post/_iter_level(revert,toggle)/_iter_level_rtl/
             _iter_zigzag/_iter_zigzag_rtl/iterator, _visit_pre/_visit_post/
             _visit_level/visit
   common.py : call_traversal_cb
   tree.py : Tree.iterator, Tree.visit
   A start node is an [rt]; the system root of a tree is the pseudo node
   [sysroot f] whose children are the top-level nodes. *)
From Coq Require Import List ZArith Bool Arith.
From NT Require Import Sx Rose.
Import ListNotations.

Inductive meth := PRE | POST | LEVEL | LEVEL_RTL | ZIGZAG | ZIGZAG_RTL | RANDOM | UNORDERED.

Definition all_meths : list meth := [PRE; POST; LEVEL; LEVEL_RTL; ZIGZAG; ZIGZAG_RTL; RANDOM; UNORDERED].

(* ---- iterators ---- *)

(* Node._iter_pre:  for c in children: yield c; yield from c._iter_pre() *)
Fixpoint iter_pre (t : rt) : list rt :=
  match t with T _ _ ch => flat_map (fun c => c :: iter_pre c) ch end.

(* Node._iter_post: for c in children: yield from c._iter_post(); yield c *)
Fixpoint iter_post (t : rt) : list rt :=
  match t with T _ _ ch => flat_map (fun c => iter_post c ++ [c]) ch end.

(* Node._iter_level: the while loop; one unit of fuel per loop iteration *)
Fixpoint iter_level (fuel : nat) (revert toggle : bool) (children : list rt) : list rt :=
  match fuel with
  | 0 => []
  | S k =>
      match children with
      | [] => []                                         (* while children: *)
      | _ =>
          let next_level := flat_map rch children in     (* next_level.extend(c._children) *)
          (if revert then rev children else children)    (* yield from reversed(children) / children *)
          ++ iter_level k (if toggle then negb revert else revert) toggle next_level
      end
  end.

(* every loop iteration consumes at least one node, so [size t] iterations are enough *)
Definition level_fuel (t : rt) : nat := size t.

Definition iter_level_n (t : rt) (revert toggle : bool) : list rt :=
  iter_level (level_fuel t) revert toggle (rch t).

(* getattr(self, f"_iter_{method.value}"); None = AttributeError -> NotImplementedError *)
Definition iter_handler (m : meth) (t : rt) : option (list rt) :=
  match m with
  | PRE => Some (iter_pre t)
  | POST => Some (iter_post t)
  | LEVEL => Some (iter_level_n t false false)
  | LEVEL_RTL => Some (iter_level_n t true false)
  | ZIGZAG => Some (iter_level_n t false true)
  | ZIGZAG_RTL => Some (iter_level_n t true true)
  | RANDOM | UNORDERED => None
  end.

Definition is_post (m : meth) : bool := match m with POST => true | _ => false end.

(* Node.iterator(method, add_self) *)
Definition iterator (t : rt) (m : meth) (add_self : bool) : option (list rt) :=
  match iter_handler m t with
  | None => None
  | Some body =>
      Some ((if add_self && negb (is_post m) then [t] else [])
            ++ body
            ++ (if add_self && is_post m then [t] else []))
  end.

(* the system root as a pseudo node (identity 0, as the harness numbers it) *)
Definition root_info : info := I 0 0 0 false [] (DInt 0) None [].
Definition sysroot (f : forest) : rt := T 0 root_info f.

(* random.shuffle abstracted: any sequence of draws [rnd] selects the next element *)
Fixpoint take_nth {X} (n : nat) (l : list X) : option (X * list X) :=
  match l with
  | [] => None
  | x :: r =>
      match n with
      | 0 => Some (x, r)
      | S k => match take_nth k r with Some (y, r') => Some (y, x :: r') | None => None end
      end
  end.

Fixpoint shuffle {X} (rnd : list nat) (l : list X) : list X :=
  match rnd with
  | [] => l
  | r :: rs =>
      match take_nth (Nat.modulo r (length l)) l with
      | Some (y, l') => y :: shuffle rs l'
      | None => l
      end
  end.

(* Tree.iterator(method); [reg] = list(self._node_by_id.values()) *)
Definition tree_iterator (f : forest) (reg : list rt) (rnd : list nat) (m : meth) : option (list rt) :=
  match m with
  | UNORDERED => Some reg
  | RANDOM => Some (shuffle rnd reg)
  | _ => iterator (sysroot f) m false
  end.

(* ---- callbacks ---- *)

(* what a callback does when called: the value it returns or the exception it raises *)
Inductive raw :=
| RetNone
| RetSkipCls | RetSkipInst                       (* return SkipBranch / SkipBranch() *)
| RetStopCls | RetStopInst (v : option Z)        (* return StopTraversal / StopTraversal(v) *)
| RetFalse
| RetStopIterCls | RetStopIterInst (v : option Z)  (* return StopIteration / StopIteration(v) *)
| RetOther                                       (* True, 0, "x", ... *)
| RaiseSkipCls | RaiseSkipInst
| RaiseStopCls | RaiseStopInst (v : option Z)
| RaiseStopIterCls | RaiseStopIterInst (v : option Z)
| RaiseOther (e : nat).                          (* any other exception, by error class *)

Inductive exc := XSkip | XStop (v : option Z) | XStopIter (v : option Z) | XValue | XOther (e : nat).
Inductive tryres := TRet (is_false : bool) | TRaise (x : exc).

(* the body of the try block of call_traversal_cb *)
Definition cb_try_body (r : raw) : tryres :=
  match r with
  | RetNone => TRet false                           (* if res is None: return None *)
  | RetSkipCls | RetSkipInst => TRet true           (* return False *)
  | RetStopCls => TRaise (XStop None)               (* raise res  (class: instantiated without value) *)
  | RetStopInst v => TRaise (XStop v)
  | RetFalse => TRaise (XStop None)                 (* raise StopTraversal *)
  | RetStopIterCls => TRaise (XStopIter None)       (* raise res *)
  | RetStopIterInst v => TRaise (XStopIter v)
  | RetOther => TRaise XValue                       (* raise ValueError *)
  | RaiseSkipCls | RaiseSkipInst => TRaise XSkip
  | RaiseStopCls => TRaise (XStop None)
  | RaiseStopInst v => TRaise (XStop v)
  | RaiseStopIterCls => TRaise (XStopIter None)
  | RaiseStopIterInst v => TRaise (XStopIter v)
  | RaiseOther e => TRaise (XOther e)
  end.

Inductive outcome := Continue | Skip | Stop (v : option Z) | Err (e : nat).

Definition E_VALUE : nat := 3.     (* harness error class of ValueError *)
Definition E_NOTIMPL : nat := 5.

(* call_traversal_cb: the except clauses.  Continue = returns None, Skip =
   returns False, Stop v = StopTraversal(v) propagates, Err = other exception *)
Definition call_traversal_cb (r : raw) : outcome :=
  match cb_try_body r with
  | TRet false => Continue
  | TRet true => Skip
  | TRaise XSkip => Skip                            (* except SkipBranch: return False *)
  | TRaise (XStopIter v) => Stop v                  (* except StopIteration as e: raise StopTraversal(e.value) *)
  | TRaise (XStop v) => Stop v
  | TRaise XValue => Err E_VALUE
  | TRaise (XOther e) => Err e
  end.

(* a (stateful) callback: ids it was called with so far (oldest first) -> node id -> behaviour *)
Definition cbT := list nat -> nat -> raw.

Definition call_cb (cb : cbT) (id : nat) (calls : list nat) : outcome :=
  call_traversal_cb (cb calls id).

(* ---- visit ---- *)

Inductive halt := HStop (v : option Z) | HErr (e : nat).

(* a piece of traversal code: calls made so far -> (new calls, propagating exception) *)
Definition visitor := list nat -> list nat * option halt.

(* for v in vs: v()   -- an exception ends the loop *)
Fixpoint seq_visit (vs : list visitor) (calls : list nat) : list nat * option halt :=
  match vs with
  | [] => ([], None)
  | v :: r =>
      match v calls with
      | (tr, None) => let (tr2, h) := seq_visit r (calls ++ tr) in (tr ++ tr2, h)
      | (tr, Some h) => (tr, Some h)
      end
  end.

(* if call_traversal_cb(callback, node, memo) is False: return ; <rest> *)
Definition self_call (cb : cbT) (id : nat) (rest : visitor) : visitor := fun calls =>
  match call_cb cb id calls with
  | Continue => let (tr, h) := rest (calls ++ [id]) in (id :: tr, h)
  | Skip => ([id], None)
  | Stop v => ([id], Some (HStop v))
  | Err e => ([id], Some (HErr e))
  end.

(* <body> ; call_traversal_cb(callback, node, memo)   -- result ignored *)
Definition then_call (cb : cbT) (id : nat) (body : visitor) : visitor := fun calls =>
  match body calls with
  | (tr, Some h) => (tr, Some h)
  | (tr, None) =>
      match call_cb cb id (calls ++ tr) with
      | Stop v => (tr ++ [id], Some (HStop v))
      | Err e => (tr ++ [id], Some (HErr e))
      | Continue | Skip => (tr ++ [id], None)
      end
  end.

(* Node._visit_pre *)
Fixpoint visit_pre (cb : cbT) (t : rt) {struct t} : visitor :=
  match t with
  | T id _ ch => self_call cb id (seq_visit (map (visit_pre cb) ch))
  end.

(* Node._visit_post *)
Fixpoint visit_post (cb : cbT) (t : rt) {struct t} : visitor :=
  match t with
  | T id _ ch => then_call cb id (seq_visit (map (visit_post cb) ch))
  end.

(* the for loop of Node._visit_level over one level: (calls, next_level, exception) *)
Fixpoint level_row (cb : cbT) (children : list rt) (calls : list nat)
  : list nat * list rt * option halt :=
  match children with
  | [] => ([], [], None)
  | c :: r =>
      match call_cb cb (rid c) calls with
      | Stop v => ([rid c], [], Some (HStop v))
      | Err e => ([rid c], [], Some (HErr e))
      | Skip =>                                                  (* continue *)
          let '(tr, nxt, h) := level_row cb r (calls ++ [rid c]) in (rid c :: tr, nxt, h)
      | Continue =>                                              (* next_level.extend(c._children) *)
          let '(tr, nxt, h) := level_row cb r (calls ++ [rid c]) in (rid c :: tr, rch c ++ nxt, h)
      end
  end.

(* Node._visit_level: the while loop *)
Fixpoint visit_level (fuel : nat) (cb : cbT) (children : list rt) (calls : list nat)
  : list nat * option halt :=
  match fuel with
  | 0 => ([], None)
  | S k =>
      match children with
      | [] => ([], None)
      | _ =>
          match level_row cb children calls with
          | (tr, _, Some h) => (tr, Some h)
          | (tr, nxt, None) => let (tr2, h) := visit_level k cb nxt (calls ++ tr) in (tr ++ tr2, h)
          end
      end
  end.

(* the try block of Node.visit; None = NotImplementedError (no _visit_<method>) *)
Definition visit_body (cb : cbT) (t : rt) (m : meth) (add_self : bool) : option visitor :=
  match m with
  | LEVEL =>
      let body := visit_level (level_fuel t) cb (rch t) in
      Some (if add_self then self_call cb (rid t) body else body)
  | PRE =>
      let body := seq_visit (map (visit_pre cb) (rch t)) in
      Some (if add_self then self_call cb (rid t) body else body)
  | POST =>
      let body := seq_visit (map (visit_post cb) (rch t)) in
      Some (if add_self then then_call cb (rid t) body else body)
  | _ => None
  end.

(* what Node.visit does: returns a value (None or the value carried by the
   stop signal) or lets an exception escape *)
Inductive vres := VReturn (v : option Z) | VRaise (e : nat).

Definition finish (r : list nat * option halt) : list nat * vres :=
  match r with
  | (tr, None) => (tr, VReturn None)
  | (tr, Some (HStop v)) => (tr, VReturn v)            (* except StopTraversal as e: return e.value *)
  | (tr, Some (HErr e)) => (tr, VRaise e)
  end.

(* Node.visit(callback, add_self, method): (sequence of callback calls, outcome) *)
Definition visit (cb : cbT) (t : rt) (m : meth) (add_self : bool) : list nat * vres :=
  match visit_body cb t m add_self with
  | None => ([], VRaise E_NOTIMPL)
  | Some v => finish (v [])
  end.

(* Tree.visit(callback, method) *)
Definition tree_visit (cb : cbT) (f : forest) (m : meth) : list nat * vres :=
  visit cb (sysroot f) m false.
