(* Model of diff.py:48-82 [diff_node_formatter(node)]: the label used when a
   diff result is printed (name, then the change flags in brackets).
   Executable definitions only. *)
From Coq Require Import List ZArith Bool Arith.
From NT Require Import Sx Rose Diff.
Import ListNotations.

Definition s_added : text := [65; 100; 100; 101; 100]%Z.
Definition s_removed : text := [82; 101; 109; 111; 118; 101; 100]%Z.
Definition s_moved_here : text := [77; 111; 118; 101; 100; 32; 104; 101; 114; 101]%Z.
Definition s_moved_away : text := [77; 111; 118; 101; 100; 32; 97; 119; 97; 121]%Z.
Definition s_order : text := [79; 114; 100; 101; 114; 32]%Z.
Definition s_renumbered : text := [82; 101; 110; 117; 109; 98; 101; 114; 101; 100]%Z.
Definition s_cleared : text := [67; 104; 105; 108; 100; 114; 101; 110; 32; 99; 108; 101; 97; 114; 101; 100]%Z.
Definition s_dash : text := [32; 45; 32]%Z.            (* " - " *)
Definition s_sep : text := [93; 44; 32; 91]%Z.         (* "], [" *)
Definition k_cleared : text := [100; 99; 95; 99; 108; 101; 97; 114; 101; 100]%Z.   (* "dc_cleared" *)

(* decimal digits of a natural number *)
Fixpoint dec_fuel (fuel n : nat) (acc : text) : text :=
  match fuel with
  | 0 => acc
  | S f => let acc' := (48 + Z.of_nat (n mod 10))%Z :: acc in
           if Nat.eqb (n / 10) 0 then acc' else dec_fuel f (n / 10) acc'
  end.
Definition dec (n : nat) : text := dec_fuel (S n) n [].

(* f"{ofs:+d}" *)
Definition signed (z : Z) : text :=
  (if Z.ltb z 0 then 45 else 43)%Z :: dec (Z.abs_nat z).

Fixpoint join (sep : text) (l : list text) : text :=
  match l with
  | [] => []
  | [x] => x
  | x :: r => x ++ sep ++ join sep r
  end.

(* bool(value) of a metadata value as the harness encodes it *)
Definition truthy (v : sx) : bool :=
  match v with
  | A z => negb (Z.eqb z 0)
  | L [] => false
  | L _ => true
  end.

Definition dc_flag (v : sx) : list text :=
  match v with
  | L [A 9%Z; A 1%Z] => [s_added]
  | L [A 9%Z; A 2%Z] => [s_removed]
  | L [A 9%Z; A 3%Z] => [s_moved_here]
  | L [A 9%Z; A 4%Z] => [s_moved_away]
  | L [A 7%Z; A i0; A i1] => [s_order ++ signed (i1 - i0)]     (* isinstance(dc, tuple) *)
  | _ => []       (* other truthy values are rendered with str(); diff never writes one *)
  end.

Definition fmt_node (t : rt) : text :=
  let m := rmeta t in
  i_name (rinfo t) ++
  match m with
  | [] => []                                                  (* if meta: *)
  | _ =>
      let f1 := match get_meta k_dc m with Some v => dc_flag v | None => [] end in
      let f2 := match get_meta k_ren m with Some v => if truthy v then [s_renumbered] else [] | None => [] end in
      let f3 := match get_meta k_cleared m with Some v => if truthy v then [s_cleared] else [] | None => [] end in
      s_dash ++ [91%Z] ++ join s_sep (f1 ++ f2 ++ f3) ++ [93%Z]
  end.
