(* Theorems about check_python_version and the exception hierarchy (model: MiscCommon.v). *)
From Coq Require Import List ZArith Bool Lia.
From NT Require Import Sx Rose MiscMapper MiscRepr MiscCommon.
Import ListNotations.

(* tuple `<` is the lexicographic order: decided "less" exactly at a first differing position with a smaller component *)
Theorem cmp_prefix_lt_iff a b :
  cmp_prefix a b = Some true <->
  exists p x y a' b', a = p ++ x :: a' /\ b = p ++ y :: b' /\ (x < y)%Z.
Proof.
  revert b. induction a as [|x a IH]; intros [|y b]; cbn.
  - split; [discriminate|]. intros (p & x & y & a' & b' & E & _). destruct p; discriminate.
  - split; [discriminate|]. intros (p & x & y0 & a' & b' & E & _). destruct p; discriminate.
  - split; [discriminate|]. intros (p & x0 & y & a' & b' & _ & E & _). destruct p; discriminate.
  - destruct (Z.ltb x y) eqn:L1.
    + split; [|reflexivity]. intros _. exists [], x, y, a, b. apply Z.ltb_lt in L1. repeat split; assumption.
    + destruct (Z.ltb y x) eqn:L2.
      * split; [discriminate|]. intros (p & x0 & y0 & a' & b' & E1 & E2 & L).
        apply Z.ltb_lt in L2. apply Z.ltb_ge in L1.
        destruct p as [|q p]; cbn in E1, E2; injection E1 as -> _; injection E2 as -> _; lia.
      * apply Z.ltb_ge in L1. apply Z.ltb_ge in L2. assert (x = y) by lia. subst y. rewrite IH. split.
        -- intros (p & x0 & y0 & a' & b' & -> & -> & L). exists (x :: p), x0, y0, a', b'. repeat split; assumption.
        -- intros (p & x0 & y0 & a' & b' & E1 & E2 & L). destruct p as [|q p]; cbn in E1, E2.
           ++ injection E1 as -> _. injection E2 as -> _. lia.
           ++ injection E1 as _ ->. injection E2 as _ ->. exists p, x0, y0, a', b'. repeat split; assumption.
Qed.

Lemma cmp_prefix_refl a : cmp_prefix a a = Some false.
Proof. induction a as [|x a IH]; cbn; [reflexivity|]. rewrite Z.ltb_irrefl. exact IH. Qed.

(* True exactly when the running version is not less; a warning exactly when the answer is False *)
Theorem check_python_version_spec real3 cur3 minv :
  match check_python_version real3 cur3 minv with
  | inl e => version_lt cur3 minv = inl e
  | inr (r, w) => version_lt cur3 minv = inr (negb r) /\ (w = None <-> r = true)
  end.
Proof.
  unfold check_python_version. destruct (version_lt cur3 minv) as [e|[|]]; [reflexivity| |]; split; try reflexivity; split; discriminate || reflexivity.
Qed.

(* a minimum of at most three components never raises, whatever the interpreter *)
Theorem check_python_version_total cur3 minv : length cur3 = 3 -> length minv <= 3 -> exists r, version_lt cur3 minv = inr r.
Proof.
  intros Hc Hm. unfold version_lt.
  destruct cur3 as [|a [|b [|c [|? ?]]]]; try discriminate.
  destruct minv as [|x [|y [|z [|? ?]]]]; cbn in *; try lia; repeat (match goal with |- context [if ?t then _ else _] => destruct t end); eexists; reflexivity.
Qed.

(* an interpreter at or above the minimum [maj; mnr]: True, no warning; one below: False with the warning naming both versions *)
Theorem check_python_version_supported real3 maj mnr c2 c3 :
  (mnr <= c2)%Z -> check_python_version real3 [maj; c2; c3] [maj; mnr] = inr (true, None).
Proof.
  intros L. unfold check_python_version, version_lt; cbn. rewrite Z.ltb_irrefl.
  destruct (Z.ltb c2 mnr) eqn:E; [apply Z.ltb_lt in E; lia|]. destruct (Z.ltb mnr c2); reflexivity.
Qed.

Theorem check_python_version_deprecated real3 maj mnr c2 c3 :
  (c2 < mnr)%Z ->
  check_python_version real3 [maj; c2; c3] [maj; mnr] =
  inr (false, Some (t_warn1 ++ (repr_int maj ++ [46%Z] ++ repr_int mnr) ++ t_warn2 ++ python_version real3 ++ [41%Z])).
Proof.
  intros L. unfold check_python_version, version_lt; cbn. rewrite Z.ltb_irrefl.
  apply Z.ltb_lt in L. rewrite L. reflexivity.
Qed.

(* ---- hierarchy ---------------------------------------------------------------------------------------------------------- *)
Lemma is_subclass_refl fuel tbl c : is_subclass fuel tbl c c = true.
Proof. destruct fuel; cbn; rewrite text_eqb_refl; reflexivity. Qed.
