(* C08 — audit follow-up: the exact size of the D24 region, the precise form of
   "kept nodes appear once each" for the copying form, payload sequence of the copy. *)
From Coq Require Import List ZArith Bool Arith Lia.
From NT Require Import Sx Rose ListFacts RoseFacts Filter FilterProofs.
Import ListNotations.

(* the answers for which the copying scan calls p.add_child(n) after _create_parents() already
   materialised n: True and SkipBranch(and_self=False) *)
Definition doubled (x : verdict) : bool := match x with VTrue | VSkipKeepSelf => true | _ => false end.

Section A.
Variable v : nat -> verdict.
Variable mk : info -> info.

(* the identities of the nodes of g that [dbl] gives an extra leaf copy (source identities, pre-order) *)
Fixpoint d24_ids_t (t : rt) : list nat :=
  match t with
  | T id _ ch =>
      match v id with
      | VSelect => []
      | VTrue | VSkipKeepSelf => id :: flat_map d24_ids_t ch
      | _ => flat_map d24_ids_t ch
      end
  end.
Definition d24_ids (g : forest) : list nat := flat_map d24_ids_t g.

Notation dblf := (fun n => doubled (v n)).

Lemma d24_ids_ocons o r : d24_ids (ocons o r) = d24_ids (ocons o []) ++ d24_ids r.
Proof. destruct o as [t|]; cbn [ocons]; [|reflexivity]. unfold d24_ids. cbn [flat_map]. rewrite app_nil_r. reflexivity. Qed.

(* in F's output they are exactly the visited nodes answered True / SkipBranch(and_self=False) *)
Definition d24_ok (t : rt) : Prop := forall s,
  d24_ids (ocons (fst (F_t v s t)) []) = if s then [] else filter dblf (before_stop v (reach_t v t)).

Lemma d24_F_f_of l : Forall d24_ok l -> forall s,
  d24_ids (fst (F_f v s l)) = if s then [] else filter dblf (before_stop v (reach v l)).
Proof.
  induction 1 as [|x l Hx _ IH]; intros s; [destruct s; reflexivity|].
  rewrite F_f_cons. cbn [fst]. rewrite d24_ids_ocons, Hx, IH, F_t_stop, reach_cons, before_stop_app.
  destruct s; [reflexivity|]. cbn [orb].
  destruct (has_stop v (reach_t v x)) eqn:E; [apply app_nil_r|].
  rewrite (before_stop_nostop v _ E), filter_app. reflexivity.
Qed.

Lemma d24_F_t : forall t, d24_ok t.
Proof.
  induction t as [id i ch IH] using rt_ind'. intros s. rewrite F_t_unfold, reach_t_unfold.
  destruct s; [reflexivity|]. cbv zeta. pose proof (d24_F_f_of ch IH false) as Hk. cbv beta iota in Hk.
  cbn [before_stop].
  destruct (v id) eqn:Ev; cbn [fst ocons is_stop opens filter]; unfold d24_ids; cbn [flat_map d24_ids_t]; rewrite ?Ev; cbn [doubled app].
  - rewrite app_nil_r. fold (d24_ids (fst (F_f v false ch))). rewrite Hk. reflexivity.
  - destruct (fst (F_f v false ch)) as [|y ys] eqn:Ek; cbn [is_nil ocons flat_map d24_ids_t].
    + exact Hk.
    + rewrite Ev, app_nil_r. exact Hk.
  - reflexivity.
  - reflexivity.
  - reflexivity.
  - reflexivity.
Qed.

Theorem d24_ids_F f : d24_ids (F v f) = filter dblf (visited v f).
Proof.
  unfold F, visited. rewrite (d24_F_f_of f); [reflexivity|]. apply Forall_forall. intros t _. apply d24_F_t.
Qed.

(* occurrences of a source identity in g with the D24 leaves = occurrences in g + one per doubled node *)
Section Count.
Variable n : nat.
Notation c := (fun l => count_occ Nat.eq_dec l n).

Lemma c_cons x l : c (x :: l) = (if Nat.eq_dec x n then 1 else 0) + c l.
Proof. cbn [count_occ]. destruct (Nat.eq_dec x n); reflexivity. Qed.

Lemma count_dbl_f_of l : Forall (fun t => c (ids_t (dbl_t v mk t)) = c (ids_t t) + c (d24_ids_t t)) l ->
  c (ids (map (dbl_t v mk) l)) = c (ids l) + c (flat_map d24_ids_t l).
Proof.
  induction 1 as [|x l Hx _ IH]; [reflexivity|]. cbn [map flat_map].
  rewrite !ids_cons', !count_occ_app, Hx, IH. lia.
Qed.

Lemma count_dbl_t : forall t, c (ids_t (dbl_t v mk t)) = c (ids_t t) + c (d24_ids_t t).
Proof.
  induction t as [id i ch IH] using rt_ind'. pose proof (count_dbl_f_of ch IH) as Hk.
  cbn [dbl_t d24_ids_t]. destruct (v id); rewrite !ids_t_unfold; cbn [rid rch]; rewrite ?ids_cons', ?ids_t_unfold; cbn [rid rch];
    rewrite ?ids_nil; cbn [app]; rewrite ?c_cons; try rewrite Hk; cbn [count_occ]; lia.
Qed.

Lemma count_dbl g : c (ids (dbl v mk g)) = c (ids g) + c (d24_ids g).
Proof. apply count_dbl_f_of. apply Forall_forall. intros t _. apply count_dbl_t. Qed.
End Count.

Lemma length_dbl_f_of l : Forall (fun t => length (ids_t (dbl_t v mk t)) = length (ids_t t) + length (d24_ids_t t)) l ->
  length (ids (map (dbl_t v mk) l)) = length (ids l) + length (flat_map d24_ids_t l).
Proof.
  induction 1 as [|x l Hx _ IH]; [reflexivity|]. cbn [map flat_map].
  rewrite !ids_cons', !app_length, Hx, IH. lia.
Qed.

Lemma length_dbl_t : forall t, length (ids_t (dbl_t v mk t)) = length (ids_t t) + length (d24_ids_t t).
Proof.
  induction t as [id i ch IH] using rt_ind'. pose proof (length_dbl_f_of ch IH) as Hk.
  cbn [dbl_t d24_ids_t]. destruct (v id); rewrite !ids_t_unfold; cbn [rid rch]; rewrite ?ids_cons', ?ids_t_unfold; cbn [rid rch];
    rewrite ?ids_nil; cbn [app length]; try rewrite Hk; lia.
Qed.

Lemma length_dbl g : length (ids (dbl v mk g)) = length (ids g) + length (d24_ids g).
Proof. apply length_dbl_f_of. apply Forall_forall. intros t _. apply length_dbl_t. Qed.

End A.

(* erasing identities keeps sizes and the pre-order sequence of payloads *)
Lemma erase_pre_f_of l : Forall (fun t => map rinfo (pre (erase t)) = map rinfo (pre t)) l ->
  map rinfo (pre_f (map erase l)) = map rinfo (pre_f l).
Proof.
  induction 1 as [|x l Hx _ IH]; [reflexivity|]. cbn [map flat_map]. rewrite !map_app, Hx, IH. reflexivity.
Qed.

Lemma erase_pre_t : forall t, map rinfo (pre (erase t)) = map rinfo (pre t).
Proof.
  induction t as [id i ch IH] using rt_ind'. cbn [erase pre map rinfo]. f_equal. exact (erase_pre_f_of ch IH).
Qed.

Lemma erase_pre_f l : map rinfo (pre_f (map erase l)) = map rinfo (pre_f l).
Proof. apply erase_pre_f_of. apply Forall_forall. intros t _. apply erase_pre_t. Qed.

Lemma same_modulo_payloads a b : same_modulo_ids a b -> map rinfo (pre_f a) = map rinfo (pre_f b).
Proof. unfold same_modulo_ids. intros H. rewrite <- (erase_pre_f a), H. apply erase_pre_f. Qed.

Lemma same_modulo_size a b : same_modulo_ids a b -> length (ids a) = length (ids b).
Proof.
  intros H. apply same_modulo_payloads in H. unfold ids. rewrite !map_length.
  rewrite <- (map_length rinfo (pre_f a)), H. apply map_length.
Qed.

Section B.
Variable v : nat -> verdict.
Notation dblf := (fun n => doubled (v n)).

(* no doubled node: [dbl] (plain tree) is the identity *)
Lemma dbl_id_f_of l : Forall (fun t => d24_ids_t v t = [] -> dbl_t v (fun i => i) t = t) l ->
  flat_map (d24_ids_t v) l = [] -> map (dbl_t v (fun i => i)) l = l.
Proof.
  induction 1 as [|x l Hx _ IH]; intros H; [reflexivity|]. cbn [flat_map] in H. apply app_eq_nil in H.
  cbn [map]. rewrite (Hx (proj1 H)), (IH (proj2 H)). reflexivity.
Qed.

Lemma dbl_id_t : forall t, d24_ids_t v t = [] -> dbl_t v (fun i => i) t = t.
Proof.
  induction t as [id i ch IH] using rt_ind'. cbn [d24_ids_t dbl_t]. pose proof (dbl_id_f_of ch IH) as Hk.
  destruct (v id); intros H; try discriminate H; try reflexivity; rewrite (Hk H); reflexivity.
Qed.

Lemma dbl_id g : d24_ids v g = [] -> dbl v (fun i => i) g = g.
Proof. apply dbl_id_f_of. apply Forall_forall. intros t _. apply dbl_id_t. Qed.

Lemma filter_nil_iff {X} (p : X -> bool) l : filter p l = [] <-> forall x, In x l -> p x = false.
Proof.
  induction l as [|y l IH]; cbn [filter]; [split; [intros _ x []|reflexivity]|].
  destruct (p y) eqn:E; split.
  - discriminate.
  - intros H. rewrite (H y (or_introl eq_refl)) in E. discriminate E.
  - intros H x [<-|Hx]; [exact E|]. apply IH; assumption.
  - intros H. apply IH. intros x Hx. apply H. right. exact Hx.
Qed.

(* the copying form contains exactly one node more than F per visited node answered True / SkipBranch(and_self=False) *)
Theorem copy_size mk f nx :
  length (ids (fst (add_filtered v mk f nx))) = length (ids (F v f)) + length (filter dblf (visited v f)).
Proof.
  rewrite (same_modulo_size _ _ (add_filtered_is_dbl_F v mk f nx)), length_dbl, d24_ids_F. reflexivity.
Qed.

(* THE EXACT D24 REGION (plain tree): in place = copying, as the property says it, iff no VISITED node is
   answered True or SkipBranch(and_self=False) *)
Theorem copy_is_F_iff f :
  same_modulo_ids (filtered v (fun i => i) f) (F v f) <-> (forall n, In n (visited v f) -> doubled (v n) = false).
Proof.
  rewrite <- (filter_nil_iff dblf). split.
  - intros H. apply same_modulo_size in H. unfold filtered in H. rewrite copy_size in H.
    destruct (filter dblf (visited v f)); [reflexivity|]. cbn [length] in H. lia.
  - intros H. pose proof (filtered_is_dbl_F v (fun i => i) f) as E.
    rewrite (dbl_id (F v f)) in E; [exact E|]. rewrite d24_ids_F. exact H.
Qed.

(* for a predicate that only answers True / False (any bool-valued predicate): iff nothing at all is kept *)
Theorem copy_is_F_bool f : NoDup (ids f) -> (forall n, v n = VTrue \/ v n = VFalse) ->
  (same_modulo_ids (filtered v (fun i => i) f) (F v f) <-> F v f = []).
Proof.
  intros ND Hb. rewrite copy_is_F_iff. split.
  - intros H. destruct (F v f) as [|y ys] eqn:E; [reflexivity|]. exfalso.
    assert (Hin : In (rid y) (ids (F v f))) by (rewrite E, ids_cons; left; reflexivity).
    apply (F_ids_kept v f ND) in Hin. destruct Hin as [t [_ [Hv [Ha _]]]].
    specialize (H _ Hv). destruct (Hb (rid t)) as [Ev|Ev]; rewrite Ev in *; discriminate.
  - intros E n Hn. destruct (Hb n) as [Ev|Ev]; rewrite Ev; [|reflexivity]. exfalso.
    assert (Hk : In n (ids (F v f))).
    { apply (F_ids_kept v f ND). pose proof (visited_incl v f n Hn) as Hin. unfold ids in Hin. apply in_map_iff in Hin.
      destruct Hin as [t [Et Ht]]. subst n. exists t. rewrite Ev. refine (conj Ht (conj Hn (conj eq_refl (or_introl eq_refl)))). }
    rewrite E in Hk. exact Hk.
Qed.

(* "kept nodes appear once each" for the copying form, precisely.  The copy is dbl v mk (F v f) up to the
   new identities (same shape, same payloads position by position); in dbl v mk (F v f), which still
   carries the source identities: a source node that is not kept does not occur; a kept one occurs once
   (the occurrence that carries its kept children); a visited one answered True / SkipBranch(and_self=
   False) occurs twice -- the second occurrence is the leaf [T id (mk i) []] that [dbl_t] puts first
   among the children of the first *)
Lemma before_stop_sublist l : sublist (before_stop v l) l.
Proof.
  induction l as [|x l IH]; cbn [before_stop]; [constructor|].
  destruct (is_stop (v x)); [constructor|apply sub_keep; exact IH].
Qed.

Lemma visited_NoDup f : NoDup (ids f) -> NoDup (visited v f).
Proof.
  intros ND. apply (sublist_NoDup _ (reach v f)); [apply before_stop_sublist|].
  exact (sublist_NoDup _ _ (reach_order v f) ND).
Qed.

Lemma count_NoDup l n : NoDup l -> count_occ Nat.eq_dec l n = if in_dec Nat.eq_dec n l then 1 else 0.
Proof.
  intros ND. destruct (in_dec Nat.eq_dec n l) as [Hin|Hnot].
  - pose proof (proj1 (NoDup_count_occ Nat.eq_dec l) ND n) as H1.
    pose proof (proj1 (count_occ_In Nat.eq_dec l n) Hin) as H2. lia.
  - apply count_occ_not_In. exact Hnot.
Qed.

Theorem copy_occurrences mk f n : NoDup (ids f) ->
  let k := count_occ Nat.eq_dec (ids (dbl v mk (F v f))) n in
  (~ kept v f n -> k = 0) /\
  (kept v f n -> ~ (In n (visited v f) /\ doubled (v n) = true) -> k = 1) /\
  (In n (visited v f) -> doubled (v n) = true -> k = 2).
Proof.
  intros ND k. unfold k. rewrite count_dbl, d24_ids_F.
  rewrite (count_NoDup _ n (F_NoDup v f ND)), (count_NoDup _ n (NoDup_filter dblf (visited_NoDup f ND))).
  assert (Hk : In n (ids (F v f)) <-> kept v f n) by (apply F_ids_kept; exact ND).
  assert (Hd : In n (filter dblf (visited v f)) <-> In n (visited v f) /\ doubled (v n) = true) by apply filter_In.
  assert (Hdk : In n (visited v f) -> doubled (v n) = true -> kept v f n).
  { intros Hv Hdb. pose proof (visited_incl v f n Hv) as Hin. unfold ids in Hin. apply in_map_iff in Hin.
    destruct Hin as [t [Et Ht]]. subst n. exists t. refine (conj Ht (conj Hv (conj _ (or_introl eq_refl)))).
    destruct (v (rid t)); try discriminate Hdb; reflexivity. }
  destruct (in_dec Nat.eq_dec n (ids (F v f))) as [H1|H1], (in_dec Nat.eq_dec n (filter dblf (visited v f))) as [H2|H2];
    refine (conj _ (conj _ _)); intros; try reflexivity; try tauto; exfalso; tauto.
Qed.

Theorem copy_payloads mk f nx :
  map rinfo (pre_f (fst (add_filtered v mk f nx))) = map rinfo (pre_f (dbl v mk (F v f))).
Proof. apply same_modulo_payloads, add_filtered_is_dbl_F. Qed.

End B.

(* ------------------------------------------------------------------ *)
(* A second pass with the SAME answers on the SAME (already filtered) forest changes nothing and meets no
   stop.  This is all the truth there is in "filtering is idempotent": it says nothing once the tree or the
   answers have changed between the calls -- every call is F of the forest as it is at call time. *)
Section Idem.
Variable v : nat -> verdict.

Definition idem_ok (t : rt) : Prop := forall s,
  match fst (F_t v s t) with None => True | Some t' => F_t v false t' = (Some t', false) end.

Lemma F_f_idem_of l : Forall idem_ok l -> forall s, F_f v false (fst (F_f v s l)) = (fst (F_f v s l), false).
Proof.
  induction 1 as [|x l Hx _ IH]; intros s; [reflexivity|].
  rewrite (F_f_cons v s x l). cbn [fst]. specialize (Hx s). specialize (IH (snd (F_t v s x))).
  destruct (fst (F_t v s x)) as [x'|]; cbn [ocons]; [|exact IH].
  rewrite F_f_cons, Hx. cbn [fst snd ocons]. rewrite IH. reflexivity.
Qed.

Lemma F_t_idem : forall t, idem_ok t.
Proof.
  induction t as [id i ch IH] using rt_ind'. intros s. rewrite F_t_unfold. destruct s; [exact Logic.I|].
  cbv zeta. pose proof (F_f_idem_of ch IH false) as Hk.
  destruct (v id) eqn:Ev; cbn [fst]; try exact Logic.I.
  - rewrite F_t_unfold, Ev. cbv zeta. rewrite Hk. reflexivity.
  - destruct (fst (F_f v false ch)) as [|y ys] eqn:Ek; cbn [is_nil]; [exact Logic.I|].
    rewrite F_t_unfold, Ev. cbv zeta. rewrite Hk. reflexivity.
  - rewrite F_t_unfold, Ev. reflexivity.
  - rewrite F_t_unfold, Ev. reflexivity.
Qed.

Theorem F_idempotent f : F v (F v f) = F v f /\ snd (F_f v false (F v f)) = false.
Proof.
  unfold F. rewrite (F_f_idem_of f); [split; reflexivity|]. apply Forall_forall. intros t _. apply F_t_idem.
Qed.
End Idem.

Theorem inplace_second_pass v f : NoDup (ids f) ->
  filter_inplace v (filter_inplace v f) = filter_inplace v f.
Proof.
  intros ND. rewrite (filter_inplace_is_F v f ND), (filter_inplace_is_F v (F v f) (F_NoDup v f ND)).
  apply F_idempotent.
Qed.
