(* The file writers around the two text exporters – executable model, no proofs (MiscWritersProofs.v).

   dot.tree_to_dotfile(tree, target, format=None, ...)             (Tree.to_dotfile)
       target a path:  dot_path = target.with_suffix(".gv") if format else target; the lines are written there
                       (recursive call with the open file); if format: Graphviz is run on it (outside the model)
       target a stream: if format: raise RuntimeError;  for line in tree.to_dot(...): target.write(line + "\n")

   mermaid.node_to_mermaid_flowchart(node, target, format=None, ...)   (Node/Tree.to_mermaid_flowchart)
       if format: as_markdown = False
       _write(fp): for line in _node_to_mermaid_flowchart_iter(...): fp.write(line + "\n")       -- a GENERATOR: when a
                   mapper raises at some line, the lines before it have already been written
       target a path:  mm_path = target.with_suffix(".tmp") if format else target; _write there; if format: mmdc (outside)
       target a stream: if format: raise RuntimeError (nothing written); _write(target)                                  *)
From Coq Require Import List ZArith Bool.
From NT Require Import Sx Rose Export.
Import ListNotations.

Inductive target := TStream | TPath.

Inductive wres :=
| WStream (t : text)                         (* the stream the caller passed received t                                         *)
| WFile (other_suffix : bool) (t : text)     (* a file received t: the path itself, or the path with the suffix replaced; when    *)
                                             (* other_suffix, an external converter is then run on it (outside the model)       *)
| WRefused                                   (* RuntimeError before anything is written                                          *)
| WBroken (where_ : target) (other_suffix : bool) (t : text).  (* a mapper raised: t is what had been written by then            *)

(* every line is followed by a newline *)
Definition lines_text (ls : list text) : text := flat_map (fun l => l ++ [10%Z]) ls.

(* the inverse on texts whose lines contain no newline: split at every newline *)
Fixpoint split_nl (cur : text) (t : text) : list text :=
  match t with
  | [] => []
  | c :: r => if Z.eqb c 10 then rev cur :: split_nl [] r else split_nl (c :: cur) r
  end.

Definition dotfile_write (doc : list text) (tgt : target) (format : bool) : wres :=
  match tgt with
  | TPath => WFile format (lines_text doc)
  | TStream => if format then WRefused else WStream (lines_text doc)
  end.

(* what a generator hands out before it raises: the lines up to the first failing one, and whether it ran to its end *)
Fixpoint emit (ls : list (option text)) : list text * bool :=
  match ls with
  | [] => ([], true)
  | None :: _ => ([], false)
  | Some l :: r => let '(a, ok) := emit r in (l :: a, ok)
  end.

(* the yields of _node_to_mermaid_flowchart_iter in program order *)
Definition chart_events (o : mopts) (s : rt) : list (option text) :=
  map Some (mer_head o s) ++ mer_node_lines o s ++ [Some []; Some L_edges] ++ mer_edge_lines o s
  ++ map Some (if mo_markdown o then [L_md_close] else []).

Definition no_markdown (o : mopts) : mopts :=
  MO false (mo_direction o) (mo_title o) (mo_headers o) (mo_add_root o) (mo_unique o) (mo_node_templ o) (mo_edge_templ o).

Definition mermaid_write (o : mopts) (s : rt) (tgt : target) (format : bool) : wres :=
  let o' := if format then no_markdown o else o in            (* if format: as_markdown = False *)
  let '(ls, ok) := emit (chart_events o' s) in
  match tgt with
  | TPath => if ok then WFile format (lines_text ls) else WBroken TPath format (lines_text ls)
  | TStream => if format then WRefused
               else if ok then WStream (lines_text ls) else WBroken TStream false (lines_text ls)
  end.

Definition sx_wres (r : wres) : sx :=
  match r with
  | WStream t => L [A 0%Z; sx_text t]
  | WFile b t => L [A 1%Z; sx_bool b; sx_text t]
  | WRefused => L [A 2%Z]
  | WBroken w b t => L [A 3%Z; A (match w with TStream => 0 | TPath => 1 end)%Z; sx_bool b; sx_text t]
  end.
