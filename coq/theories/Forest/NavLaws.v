(* Laws of the relationship queries (C10), derived from PRE-ORDER MEMBERSHIP.

   Foundation: in a forest with unique identities the ancestor chain of a
   structural context is exactly the list of nodes whose branch contains the
   node, in pre-order ([anc_filter]); hence a node has exactly one structural
   context ([ctx_unique]).  Everything else (converse of the descendant test,
   nearest common ancestor of BOTH nodes, children/parent inverse, depth,
   height, counts, path, up, get_top) follows. *)
From Coq Require Import List ZArith Bool Arith Lia Permutation.
From NT Require Import Sx Rose ListFacts RoseFacts Nav NavProofs.
Import ListNotations.

(* ------------------------------------------------------------------ *)
(* pre-order containment                                                *)
(* ------------------------------------------------------------------ *)
Lemma pre_incl_f l b : In b (pre_f l) -> incl (pre b) (pre_f l).
Proof.
  intros H x Hx. destruct (pre_f_segment l b H) as (a & z & E). rewrite E.
  apply in_or_app; right; apply in_or_app; now left.
Qed.

Lemma branch_incl_pre a : incl (pre_f (rch a)) (pre a).
Proof. intros x Hx. rewrite pre_unfold. now right. Qed.

Lemma pre_trans a b x : In b (pre a) -> In x (pre b) -> In x (pre a).
Proof.
  intros Hb Hx. destruct (pre_segment a b Hb) as (u & v & E). rewrite E.
  apply in_or_app; right; apply in_or_app; now left.
Qed.

Lemma pre_cases a x : In x (pre a) -> x = a \/ In x (pre_f (rch a)).
Proof. rewrite pre_unfold. intros [H|H]; [left; now symmetry|now right]. Qed.

Lemma branch_trans a b x : In b (pre_f (rch a)) -> In x (pre_f (rch b)) -> In x (pre_f (rch a)).
Proof. intros Hb Hx. apply (pre_incl_f _ b Hb). now apply branch_incl_pre. Qed.

Lemma ids_t_incl l a : In a (pre_f l) -> incl (ids_t a) (ids l).
Proof.
  intros Ha n Hn. unfold ids_t in Hn. apply in_map_iff in Hn as (x & <- & Hx).
  unfold ids. apply in_map. now apply (pre_incl_f l a).
Qed.

Lemma ids_rch_incl l a : In a (pre_f l) -> incl (ids (rch a)) (ids l).
Proof.
  intros Ha n Hn. apply (ids_t_incl l a Ha). rewrite ids_t_unfold. now right.
Qed.

Lemma ids_in_pre l x : In x (pre_f l) -> In (rid x) (ids l).
Proof. intros H. unfold ids. now apply in_map. Qed.

Lemma ids_split l1 y l2 : ids (l1 ++ y :: l2) = ids l1 ++ ids_t y ++ ids l2.
Proof. rewrite ids_app, ids_cons, ids_t_unfold. reflexivity. Qed.

Lemma nodup3 {X} (a b c : list X) : NoDup (a ++ b ++ c) ->
  NoDup b /\ (forall x, In x a -> In x b -> False) /\ (forall x, In x b -> In x c -> False).
Proof.
  intros H. refine (conj _ (conj _ _)).
  - eapply NoDup_app_l, NoDup_app_r; eauto.
  - intros x Ha Hb. eapply (NoDup_app_disj a (b ++ c)); eauto. apply in_or_app. now left.
  - apply NoDup_app_r in H. intros x Hb Hc. eapply (NoDup_app_disj b c); eauto.
Qed.

(* membership of an identity in a node's branch, as a boolean *)
Definition has (n : nat) (a : rt) : bool := existsb (Nat.eqb n) (ids (rch a)).

Lemma has_iff n a : has n a = true <-> In n (ids (rch a)).
Proof.
  unfold has. rewrite existsb_exists. split.
  - intros (x & Hx & E). apply Nat.eqb_eq in E. now subst.
  - intros H. exists n. split; [assumption|apply Nat.eqb_refl].
Qed.

Lemma filter_nil {X} (p : X -> bool) l : (forall x, In x l -> p x = false) -> filter p l = [].
Proof.
  induction l as [|x l IH]; intros H; cbn; [reflexivity|].
  rewrite (H x (or_introl eq_refl)). apply IH. intros y Hy. apply H. now right.
Qed.

(* a top-level node is in nobody's branch *)
Lemma top_not_inside f t a : NoDup (ids f) -> In t f -> In a (pre_f f) -> ~ In (rid t) (ids (rch a)).
Proof.
  intros Hnd Ht Ha Hin. apply in_flat_map in Ha as (y & Hy & Ha).
  assert (Hy' : In (rid t) (ids (rch y))).
  { apply pre_cases in Ha as [->|Ha]; [assumption|]. now apply (ids_rch_incl (rch y) a). }
  apply in_split in Hy as (l1 & l2 & ->). rewrite ids_split in Hnd.
  destruct (nodup3 _ _ _ Hnd) as (Hy & H1 & H2).
  apply in_app_or in Ht as [Ht|[<-|Ht]].
  - apply (H1 (rid t)); [apply ids_in_pre; now apply in_pre_f_top|]. rewrite ids_t_unfold. now right.
  - rewrite ids_t_unfold in Hy. inversion Hy as [|? ? Hn _]; subst. now apply Hn.
  - apply (H2 (rid t)); [rewrite ids_t_unfold; now right|apply ids_in_pre; now apply in_pre_f_top].
Qed.

(* ------------------------------------------------------------------ *)
(* chains, peeled from the top                                          *)
(* ------------------------------------------------------------------ *)
Lemma chain_snoc f x anc sibs : In x f -> chain (rch x) anc sibs -> chain f (anc ++ [x]) sibs.
Proof.
  intros Hx Hc. induction Hc as [|p anc sibs Hc IH Hp].
  - cbn. apply (chain_down f x [] f); [constructor|assumption].
  - cbn. apply (chain_down f p (anc ++ [x]) sibs); assumption.
Qed.

Lemma chain_inv f anc sibs : chain f anc sibs ->
  (anc = [] /\ sibs = f) \/ exists x anc', anc = anc' ++ [x] /\ In x f /\ chain (rch x) anc' sibs.
Proof.
  induction 1 as [|p anc sibs Hc IH Hp]; [left; split; reflexivity|]. right.
  destruct IH as [[-> ->]|(x & anc' & -> & Hx & Hc')].
  - exists p, []. split; [reflexivity|]. split; [assumption|constructor].
  - exists x, (p :: anc'). split; [reflexivity|]. split; [assumption|].
    apply (chain_down (rch x) p anc' sibs); assumption.
Qed.

Lemma chain_suffix f l : forall p anc sibs, chain f (l ++ p :: anc) sibs -> exists sibs', chain f anc sibs' /\ In p sibs'.
Proof.
  induction l as [|y l IH]; intros p anc sibs H; cbn [app] in H.
  - inversion H as [|p' anc' sibs' Hc Hp]; subst. eauto.
  - inversion H as [|p' anc' sibs' Hc Hp]; subst. eapply IH; eauto.
Qed.

(* THE characterisation: the ancestors of t (top first) are the nodes whose
   branch contains t's identity, in pre-order *)
Definition Qf (f : forest) : Prop := NoDup (ids f) ->
  forall anc sibs t, chain f anc sibs -> In t sibs -> rev anc = filter (has (rid t)) (pre_f f).

Lemma Qf_step f : (forall y, In y f -> Qf (rch y)) -> Qf f.
Proof.
  intros IH Hnd anc sibs t Hc Ht. destruct (chain_inv f anc sibs Hc) as [[-> ->]|(x & anc' & -> & Hx & Hc')].
  - cbn. symmetry. apply filter_nil. intros a Ha. destruct (has (rid t) a) eqn:E; [|reflexivity].
    apply has_iff in E. exfalso. eapply top_not_inside; eauto.
  - rewrite rev_app_distr. cbn [rev app].
    assert (Htx : In t (pre_f (rch x))) by (eapply chain_sibs_in_pre; eauto).
    pose proof (ids_in_pre _ _ Htx) as Hidx.
    apply in_split in Hx as (l1 & l2 & ->). rewrite ids_split in Hnd.
    destruct (nodup3 _ _ _ Hnd) as (Hy & H1 & H2).
    rewrite flat_map_in_split, !filter_app, pre_unfold. cbn [filter].
    assert (has (rid t) x = true) as -> by now apply has_iff.
    rewrite (filter_nil _ (pre_f l1)), (filter_nil _ (pre_f l2)).
    + cbn [app]. rewrite app_nil_r. f_equal.
      assert (Hq : Qf (rch x)) by (apply IH; apply in_or_app; right; now left).
      unfold Qf in Hq. apply (Hq) with (sibs := sibs); [|assumption|assumption].
      rewrite ids_t_unfold in Hy. now inversion Hy.
    + intros a Ha. destruct (has (rid t) a) eqn:E; [|reflexivity]. apply has_iff in E. exfalso.
      apply (H2 (rid t)); [rewrite ids_t_unfold; now right|]. now apply (ids_rch_incl l2 a).
    + intros a Ha. destruct (has (rid t) a) eqn:E; [|reflexivity]. apply has_iff in E. exfalso.
      apply (H1 (rid t)); [|rewrite ids_t_unfold; now right]. now apply (ids_rch_incl l1 a).
Qed.

Lemma Qf_all f : Qf f.
Proof.
  assert (H : forall x, Qf (rch x)).
  { induction x as [id i ch IH] using rt_ind'. cbn [rch]. apply Qf_step. now apply Forall_forall. }
  apply Qf_step. intros y _. apply H.
Qed.

Theorem anc_filter f c : NoDup (ids f) -> ctx_ok f c ->
  rev (c_anc c) = filter (has (rid (c_self c))) (pre_f f).
Proof. intros H [Hc Hs]. eapply Qf_all; eauto. Qed.

Theorem ctx_unique f c c' : NoDup (ids f) -> ctx_ok f c -> ctx_ok f c' ->
  rid (c_self c) = rid (c_self c') -> c = c'.
Proof.
  intros H Hok Hok' E.
  assert (Ea : c_anc c = c_anc c').
  { rewrite <- (rev_involutive (c_anc c)), <- (rev_involutive (c_anc c')).
    now rewrite (anc_filter f c H Hok), (anc_filter f c' H Hok'), E. }
  assert (Es : c_sibs c = c_sibs c') by now rewrite (ctx_sibs f c Hok), (ctx_sibs f c' Hok'), Ea.
  assert (Et : c_self c = c_self c') by (eapply node_unique; eauto using ctx_self_in_pre).
  destruct c as [[a s] t], c' as [[a' s'] t']. unfold c_anc, c_sibs, c_self in *. cbn [fst snd] in *. congruence.
Qed.

Theorem located_unique f n c c' : NoDup (ids f) -> locate_f n f = Some c -> ctx_ok f c' ->
  rid (c_self c') = n -> c' = c.
Proof.
  intros H Hl Hok E. destruct (locate_f_ok f n c Hl) as [Hok0 E0]. eapply ctx_unique; eauto. congruence.
Qed.

(* ------------------------------------------------------------------ *)
(* ancestor / descendant tests, from pre-order membership               *)
(* ------------------------------------------------------------------ *)
Lemma aos_in_pre f c a : ctx_ok f c -> In a (c_self c :: c_anc c) -> In a (pre_f f).
Proof.
  intros Hok [<-|Ha]; [now apply (ctx_self_in_pre f)|]. destruct Hok as [Hc _]. eapply chain_anc_in_pre; eauto.
Qed.

(* ancestor-or-self chain = the nodes whose sub-tree contains the node *)
Theorem aos_iff f c b : NoDup (ids f) -> ctx_ok f c -> In b (pre_f f) ->
  (In b (c_self c :: c_anc c) <-> In (c_self c) (pre b)).
Proof.
  intros H Hok Hb. split.
  - intros [<-|Ha]; [apply pre_in_self|]. apply branch_incl_pre.
    eapply path_in_branch; [apply ctx_path; eassumption|assumption].
  - intros Hin. apply pre_cases in Hin as [E|Hin]; [left; now symmetry|]. right.
    apply in_rev. rewrite (anc_filter f c H Hok). apply filter_In. split; [assumption|].
    apply has_iff. now apply ids_in_pre.
Qed.

Theorem anc_iff f c b : NoDup (ids f) -> ctx_ok f c -> In b (pre_f f) ->
  (In b (c_anc c) <-> In (c_self c) (pre_f (rch b))).
Proof.
  intros H Hok Hb. split.
  - intros Ha. eapply path_in_branch; [apply ctx_path; eassumption|assumption].
  - intros Hin. apply in_rev. rewrite (anc_filter f c H Hok). apply filter_In. split; [assumption|].
    apply has_iff. now apply ids_in_pre.
Qed.

(* is_descendant_of, both directions: the CONVERSE of descendant_sound included *)
Theorem descendant_iff f n c a : NoDup (ids f) -> locate_f n f = Some c -> In a (pre_f f) ->
  (q_is_descendant_of c (rid a) = true <-> In (c_self c) (pre_f (rch a))).
Proof.
  intros H Hl Ha. destruct (locate_f_ok f n c Hl) as [Hok _]. split.
  - intros E. destruct (descendant_sound f c _ Hok E) as (a' & Ha' & Hid & Hin).
    assert (a' = a) as <-; [|assumption].
    eapply node_unique; eauto. destruct Hok as [Hc _]. eapply chain_anc_in_pre; eauto.
  - intros Hin. apply (anc_iff f c a H Hok Ha) in Hin. unfold q_is_descendant_of.
    apply existsb_exists. exists a. split; [assumption|]. unfold is_self. apply Nat.eqb_refl.
Qed.

Theorem descendant_complete f n c a : NoDup (ids f) -> locate_f n f = Some c -> In a (pre_f f) ->
  In (c_self c) (pre_f (rch a)) -> q_is_descendant_of c (rid a) = true.
Proof. intros H Hl Ha. apply (descendant_iff f n c a H Hl Ha). Qed.

(* a.is_ancestor_of(b) = b.is_descendant_of(a): b lies in a's branch *)
Theorem ancestor_iff f n m c o : NoDup (ids f) -> locate_f n f = Some c -> locate_f m f = Some o ->
  (q_is_ancestor_of o (rid (c_self c)) = true <-> In (c_self o) (pre_f (rch (c_self c)))) /\
  (q_is_ancestor_of o (rid (c_self c)) = q_is_descendant_of o (rid (c_self c))).
Proof.
  intros H Hc Ho. split; [|reflexivity]. unfold q_is_ancestor_of.
  apply (descendant_iff f m o (c_self c) H Ho). apply (ctx_self_in_pre f). now apply (locate_f_ok f n c).
Qed.

Theorem descendant_trans f n m c b a : NoDup (ids f) -> locate_f n f = Some c -> locate_f m f = Some b ->
  In a (pre_f f) ->
  q_is_descendant_of c (rid (c_self b)) = true -> q_is_descendant_of b (rid a) = true ->
  q_is_descendant_of c (rid a) = true.
Proof.
  intros H Hc Hb Ha E1 E2.
  assert (Hbp : In (c_self b) (pre_f f)) by (apply (ctx_self_in_pre f); now apply (locate_f_ok f m b)).
  apply (descendant_iff f n c _ H Hc Hbp) in E1. apply (descendant_iff f m b a H Hb Ha) in E2.
  apply (descendant_iff f n c a H Hc Ha). eapply branch_trans; eauto.
Qed.

Theorem descendant_asym f n m c b : NoDup (ids f) -> locate_f n f = Some c -> locate_f m f = Some b ->
  q_is_descendant_of c (rid (c_self b)) = true -> q_is_descendant_of b (rid (c_self c)) = false.
Proof.
  intros H Hc Hb E1. destruct (q_is_descendant_of b (rid (c_self c))) eqn:E2; [exfalso|reflexivity].
  assert (Hcp : In (c_self c) (pre_f f)) by (apply (ctx_self_in_pre f); now apply (locate_f_ok f n c)).
  pose proof (descendant_trans f n m c b (c_self c) H Hc Hb Hcp E1 E2) as E3.
  rewrite (not_own_ancestor f c H) in E3; [discriminate|]. now apply (locate_f_ok f n c).
Qed.

(* ancestor list = pre-order filter (top first) *)
Theorem parent_list_filter f n c : NoDup (ids f) -> locate_f n f = Some c ->
  q_parent_list c false false = filter (has n) (pre_f f).
Proof.
  intros H Hl. destruct (locate_f_ok f n c Hl) as [Hok E]. unfold q_parent_list.
  rewrite (anc_filter f c H Hok). now rewrite E.
Qed.

(* ------------------------------------------------------------------ *)
(* nearest common ancestor of BOTH nodes                                *)
(* ------------------------------------------------------------------ *)
Lemma is_path_suffix f l : forall t a l2, is_path f t (l ++ a :: l2) -> is_path f a l2.
Proof.
  induction l as [|y l IH]; intros t a l2 Hp; cbn [app] in Hp.
  - now inversion Hp.
  - inversion Hp as [|? ? ? Ht Hp']; subst. eapply IH; eauto.
Qed.

Lemma pre_antisym f a b : NoDup (ids f) -> In b (pre_f f) -> In a (pre b) -> In b (pre a) -> a = b.
Proof.
  intros H Hb Ha Hb'. apply pre_cases in Ha as [E|Ha]; [assumption|].
  apply pre_cases in Hb' as [E|Hb']; [now symmetry|]. exfalso.
  apply (branch_ids_not_self f b H Hb). apply ids_in_pre. eapply branch_trans; eauto.
Qed.

Definition common_spec (f : forest) (c o : ctx) (r : option rt) : Prop :=
  match r with
  | Some a => In a (pre_f f) /\ In (c_self c) (pre a) /\ In (c_self o) (pre a) /\
              forall b, In b (pre_f f) -> In (c_self c) (pre b) -> In (c_self o) (pre b) -> In a (pre b)
  | None => forall b, In b (pre_f f) -> In (c_self c) (pre b) -> In (c_self o) (pre b) -> False
  end.

Theorem common_ancestor_full f n m c o : NoDup (ids f) -> locate_f n f = Some c -> locate_f m f = Some o ->
  common_spec f c o (q_common_ancestor c o).
Proof.
  intros H Hc Ho. destruct (locate_f_ok f n c Hc) as [Hokc _]. destruct (locate_f_ok f m o Ho) as [Hoko _].
  assert (Hidin : forall b, In b (pre_f f) -> In (rid b) (map rid (c_self o :: c_anc o)) -> In b (c_self o :: c_anc o)).
  { intros b Hb Hi. apply in_map_iff in Hi as (b' & E & Hb'). assert (b' = b) as <-; [|assumption].
    eapply node_unique; eauto. eapply aos_in_pre; eauto. }
  unfold common_spec. destruct (q_common_ancestor c o) as [a|] eqn:E.
  - destruct (common_ancestor_spec c o a E) as (Hac & Hao & l1 & l2 & Es & Hn).
    assert (Hap : In a (pre_f f)) by exact (aos_in_pre f c a Hokc Hac).
    refine (conj Hap (conj _ (conj _ _))).
    + now apply (aos_iff f c a H Hokc Hap).
    + apply (aos_iff f o a H Hoko Hap). now apply Hidin.
    + intros b Hb Hbc Hbo. apply (aos_iff f c b H Hokc Hb) in Hbc. apply (aos_iff f o b H Hoko Hb) in Hbo.
      rewrite Es in Hbc. apply in_app_or in Hbc as [Hb1|[<-|Hb2]].
      * exfalso. apply (Hn b Hb1). now apply in_map.
      * apply pre_in_self.
      * apply branch_incl_pre.
        assert (Hp : is_path f a l2).
        { pose proof (ctx_path f c Hokc) as Hp. destruct l1 as [|s l1]; cbn [app] in Es.
          - injection Es as <- <-. exact Hp.
          - injection Es as <- Ea. rewrite Ea in Hp. eapply is_path_suffix; eauto. }
        eapply path_in_branch; eauto.
  - intros b Hb Hbc Hbo. apply (aos_iff f c b H Hokc Hb) in Hbc. apply (aos_iff f o b H Hoko Hb) in Hbo.
    apply (common_ancestor_none c o E b Hbc). now apply in_map.
Qed.

Theorem common_ancestor_sym f n m c o : NoDup (ids f) -> locate_f n f = Some c -> locate_f m f = Some o ->
  q_common_ancestor c o = q_common_ancestor o c.
Proof.
  intros H Hc Ho. pose proof (common_ancestor_full f n m c o H Hc Ho) as S1.
  pose proof (common_ancestor_full f m n o c H Ho Hc) as S2. unfold common_spec in S1, S2.
  destruct (q_common_ancestor c o) as [a1|], (q_common_ancestor o c) as [a2|]; try reflexivity.
  - destruct S1 as (P1 & C1 & O1 & N1). destruct S2 as (P2 & O2 & C2 & N2). f_equal.
    apply (pre_antisym f a1 a2 H P2); [apply N1|apply N2]; assumption.
  - exfalso. destruct S1 as (P1 & C1 & O1 & N1). eapply S2; eauto.
  - exfalso. destruct S2 as (P2 & O2 & C2 & N2). eapply S1; eauto.
Qed.

(* the answer is [self] exactly when other is self or a descendant; [other] when self is one *)
Theorem common_ancestor_self f n c : NoDup (ids f) -> locate_f n f = Some c ->
  q_common_ancestor c c = Some (c_self c).
Proof.
  intros H Hc. unfold q_common_ancestor. cbn [find map existsb]. now rewrite Nat.eqb_refl.
Qed.

(* ------------------------------------------------------------------ *)
(* children / parent are inverse; what a child inherits                 *)
(* ------------------------------------------------------------------ *)
Lemma child_ctx f c x : ctx_ok f c -> In x (rch (c_self c)) ->
  ctx_ok f (c_self c :: c_anc c, rch (c_self c), x).
Proof.
  intros [Hc Hs] Hx. split; [|exact Hx]. unfold c_anc, c_sibs; cbn [fst snd].
  apply (chain_down f (c_self c) (c_anc c) (c_sibs c)); assumption.
Qed.

Theorem child_context f n m c cx : NoDup (ids f) -> locate_f n f = Some c -> locate_f m f = Some cx ->
  In (c_self cx) (q_children c) ->
  c_anc cx = c_self c :: c_anc c /\ c_sibs cx = rch (c_self c).
Proof.
  intros H Hc Hx Hin. destruct (locate_f_ok f n c Hc) as [Hok _]. destruct (locate_f_ok f m cx Hx) as [_ Em].
  pose proof (located_unique f m cx _ H Hx (child_ctx f c (c_self cx) Hok Hin) Em) as E.
  split; [exact (eq_sym (f_equal c_anc E))|exact (eq_sym (f_equal c_sibs E))].
Qed.

Theorem children_parent_inverse f n m c cx : NoDup (ids f) -> locate_f n f = Some c -> locate_f m f = Some cx ->
  (In (c_self cx) (q_children c) <-> q_parent cx = Some (c_self c)).
Proof.
  intros H Hc Hx. split.
  - intros Hin. destruct (child_context f n m c cx H Hc Hx Hin) as [Ea _]. unfold q_parent. now rewrite Ea.
  - intros E. destruct (locate_f_ok f m cx Hx) as [Hok _]. pose proof (parent_child f cx Hok) as P.
    rewrite E in P. unfold q_children. apply P.
Qed.

Lemma flat_map_snoc {X Y} (g : X -> list Y) l x : flat_map g (l ++ [x]) = flat_map g l ++ g x.
Proof. rewrite flat_map_app. cbn. now rewrite app_nil_r. Qed.

Lemma last_error_cons {X} (x : X) l : last_error (x :: l) = match last_error l with Some t => Some t | None => Some x end.
Proof. unfold last_error. cbn [rev]. rewrite hd_error_app. now destruct (rev l). Qed.

Lemma q_path_self c : q_path c true = flat_map (fun t => 47%Z :: i_name (rinfo t)) (rev (c_self c :: c_anc c)).
Proof.
  unfold q_path, q_parent_list. destruct (rev (c_self c :: c_anc c)) eqn:E; [|reflexivity].
  cbn [rev] in E. symmetry in E. now apply app_cons_not_nil in E.
Qed.

Definition node_name (t : rt) : text := i_name (rinfo t).

(* every query of a child, from its parent's *)
Theorem child_laws f n m c cx : NoDup (ids f) -> locate_f n f = Some c -> locate_f m f = Some cx ->
  In (c_self cx) (q_children c) ->
  q_parent cx = Some (c_self c) /\
  q_is_top cx = false /\
  q_depth cx = S (q_depth c) /\
  q_siblings cx true = q_children c /\
  q_first_sibling cx = q_first_child c /\
  q_last_sibling cx = q_last_child c /\
  (q_is_first cx = true <-> q_first_child c = Some (c_self cx)) /\
  (q_is_last cx = true <-> q_last_child c = Some (c_self cx)) /\
  q_parent_list cx false false = q_parent_list c true false /\
  q_path cx false = q_path c true /\
  q_path cx true = q_path c true ++ 47%Z :: node_name (c_self cx) /\
  q_top cx = q_top c /\
  q_up cx 1 = Some (Some (c_self c)) /\
  (forall k, q_up cx (S (S k)) = q_up c (S k)).
Proof.
  intros H Hc Hx Hin. destruct (child_context f n m c cx H Hc Hx Hin) as [Ea Es].
  assert (Hfl : forall t, In t (rch (c_self c)) -> (is_self (rid (c_self cx)) t = true <-> t = c_self cx)).
  { intros t Ht. unfold is_self. rewrite Nat.eqb_eq. split; [|now intros ->].
    destruct (locate_f_ok f n c Hc) as [Hok _]. destruct (locate_f_ok f m cx Hx) as [Hokx _].
    apply (node_unique f); [assumption| |now apply (ctx_self_in_pre f)].
    eapply pre_f_child_closed; [apply (ctx_self_in_pre f c Hok)|assumption]. }
  refine (conj _ (conj _ (conj _ (conj _ (conj _ (conj _ (conj _ (conj _ (conj _ (conj _ (conj _ (conj _ (conj _ _))))))))))))).
  - unfold q_parent. now rewrite Ea.
  - unfold q_is_top. now rewrite Ea.
  - unfold q_depth. now rewrite Ea.
  - unfold q_siblings, q_children. exact Es.
  - unfold q_first_sibling, q_first_child. now rewrite Es.
  - unfold q_last_sibling, q_last_child. now rewrite Es.
  - unfold q_is_first, q_first_child. rewrite Es. destruct (rch (c_self c)) as [|y l] eqn:El; cbn [hd_error].
    + split; discriminate.
    + rewrite (Hfl y (or_introl eq_refl)). split; [now intros ->|intros E; now injection E].
  - unfold q_is_last, q_last_child. rewrite Es. destruct (last_error (rch (c_self c))) as [y|] eqn:El.
    + assert (Hy : In y (rch (c_self c))).
      { unfold last_error in El. apply in_rev. destruct (rev (rch (c_self c))); [discriminate|]. injection El as ->. now left. }
      rewrite (Hfl y Hy). split; [now intros ->|intros E; now injection E].
    + split; discriminate.
  - unfold q_parent_list. now rewrite Ea.
  - unfold q_path, q_parent_list. now rewrite Ea.
  - rewrite !q_path_self, Ea. cbn [rev]. rewrite flat_map_snoc. reflexivity.
  - unfold q_top. rewrite Ea, last_error_cons. now destruct (last_error (c_anc c)).
  - unfold q_up. now rewrite Ea.
  - intros k. unfold q_up. rewrite Ea. reflexivity.
Qed.

(* top-level nodes: the forest itself plays the role of the parent's child list *)
Theorem top_level_laws f m cx : NoDup (ids f) -> locate_f m f = Some cx ->
  (In (c_self cx) f <-> q_parent cx = None) /\
  (q_parent cx = None ->
     q_is_top cx = true /\ q_depth cx = 1 /\ q_siblings cx true = f /\
     q_first_sibling cx = hd_error f /\ q_last_sibling cx = last_error f /\
     q_parent_list cx false false = [] /\ q_path cx false = [47%Z] /\
     q_path cx true = 47%Z :: node_name (c_self cx) /\ q_top cx = c_self cx /\ q_up cx 1 = Some None).
Proof.
  intros H Hx. destruct (locate_f_ok f m cx Hx) as [Hok Em].
  assert (G : q_parent cx = None -> c_anc cx = [] /\ c_sibs cx = f).
  { unfold q_parent. intros E. destruct (c_anc cx) eqn:Ea; [|discriminate]. split; [reflexivity|].
    rewrite (ctx_sibs f cx Hok). now rewrite Ea. }
  split; [split|].
  - intros Hin. assert (Hok' : ctx_ok f ([], f, c_self cx)) by (split; [constructor|exact Hin]).
    pose proof (located_unique f m cx _ H Hx Hok' Em) as E. unfold q_parent. now rewrite <- (f_equal c_anc E).
  - intros E. pose proof (parent_child f cx Hok) as P. rewrite E in P. apply P.
  - intros E. destruct (G E) as [Ea Es].
    refine (conj _ (conj _ (conj _ (conj _ (conj _ (conj _ (conj _ (conj _ (conj _ _))))))))).
    + unfold q_is_top. now rewrite Ea.
    + unfold q_depth. now rewrite Ea.
    + exact Es.
    + unfold q_first_sibling. now rewrite Es.
    + unfold q_last_sibling. now rewrite Es.
    + unfold q_parent_list. now rewrite Ea.
    + unfold q_path, q_parent_list. now rewrite Ea.
    + rewrite q_path_self, Ea. cbn. now rewrite app_nil_r.
    + unfold q_top. now rewrite Ea.
    + unfold q_up. now rewrite Ea.
Qed.

(* leaf / children / first / last child *)
Theorem leaf_laws c :
  (q_is_leaf c = true <-> q_children c = []) /\
  (q_is_leaf c = true <-> q_height c = 0) /\
  (q_is_leaf c = true <-> q_first_child c = None) /\
  q_has_children c = negb (q_is_leaf c) /\
  q_first_child c = hd_error (q_children c) /\
  q_last_child c = last_error (q_children c) /\
  (forall x, q_first_child c = Some x -> In x (q_children c)) /\
  (forall x, q_last_child c = Some x -> In x (q_children c)).
Proof.
  unfold q_is_leaf, q_children, q_height, q_first_child, q_last_child, q_has_children.
  refine (conj _ (conj _ (conj _ (conj eq_refl (conj eq_refl (conj eq_refl (conj _ _))))))).
  - destruct (rch (c_self c)); split; intros; try reflexivity; discriminate.
  - destruct (c_self c) as [id i [|y l]]; cbn [rch height]; split; intros; try reflexivity; discriminate.
  - destruct (rch (c_self c)); split; intros; try reflexivity; discriminate.
  - intros x E. destruct (rch (c_self c)); [discriminate|]. injection E as ->. now left.
  - intros x E. unfold last_error in E. apply in_rev. destruct (rev (rch (c_self c))); [discriminate|]. injection E as ->. now left.
Qed.

(* ------------------------------------------------------------------ *)
(* height = depth of the deepest descendant, relative to the node       *)
(* ------------------------------------------------------------------ *)
Lemma branch_depth f : forall t anc sibs, chain f anc sibs -> In t sibs -> forall d, In d (pre t) ->
  exists l sibs', chain f (l ++ anc) sibs' /\ In d sibs' /\ length l <= height t.
Proof.
  induction t as [id i ch IH] using rt_ind'. intros anc sibs Hc Ht d Hd.
  apply pre_cases in Hd as [->|Hd].
  - exists [], sibs. cbn. split; [assumption|]. split; [assumption|lia].
  - cbn [rch] in Hd. apply in_flat_map in Hd as (x & Hx & Hd). rewrite Forall_forall in IH.
    assert (Hc' : chain f (T id i ch :: anc) ch) by (apply (chain_down f (T id i ch) anc sibs); assumption).
    destruct (IH x Hx _ _ Hc' Hx d Hd) as (l & sibs' & Hl & Hds & Hle).
    exists (l ++ [T id i ch]), sibs'. rewrite <- app_assoc. cbn [app]. split; [assumption|]. split; [assumption|].
    rewrite app_length. cbn [length].
    pose proof (proj1 (proj2 (height_spec (T id i ch))) x Hx). lia.
Qed.

Lemma deepest f : forall t, exists d l, In d (pre t) /\ length l = height t /\
  forall anc sibs, chain f anc sibs -> In t sibs -> exists sibs', chain f (l ++ anc) sibs' /\ In d sibs'.
Proof.
  induction t as [id i ch IH] using rt_ind'.
  destruct ch as [|y ch'] eqn:Ech.
  - exists (T id i []), []. split; [apply pre_in_self|]. split; [reflexivity|]. intros anc sibs Hc Ht. eauto.
  - rewrite <- Ech in *. assert (Hne : rch (T id i ch) <> []) by (cbn [rch]; rewrite Ech; discriminate).
    destruct (proj2 (proj2 (height_spec (T id i ch))) Hne) as (x & Hx & Eh). cbn [rch] in Hx.
    rewrite Forall_forall in IH. destruct (IH x Hx) as (d & l & Hd & El & Hl).
    exists d, (l ++ [T id i ch]). split; [|split].
    + rewrite pre_unfold. right. cbn [rch]. apply in_flat_map. eauto.
    + rewrite app_length. cbn [length]. lia.
    + intros anc sibs Hc Ht. rewrite <- app_assoc. cbn [app]. apply (Hl (T id i ch :: anc) ch); [|assumption].
      apply (chain_down f (T id i ch) anc sibs); assumption.
Qed.

Theorem height_depth f n c : NoDup (ids f) -> locate_f n f = Some c ->
  (forall m cd, locate_f m f = Some cd -> In (c_self cd) (pre (c_self c)) ->
     q_depth c <= q_depth cd <= q_depth c + q_height c) /\
  (exists m cd, locate_f m f = Some cd /\ In (c_self cd) (pre (c_self c)) /\
     q_depth cd = q_depth c + q_height c).
Proof.
  intros H Hc. destruct (locate_f_ok f n c Hc) as [[Hch Hs] _]. split.
  - intros m cd Hd Hin. destruct (locate_f_ok f m cd Hd) as [_ Em].
    destruct (branch_depth f _ _ _ Hch Hs _ Hin) as (l & sibs' & Hl & Hds & Hle).
    assert (Hok' : ctx_ok f (l ++ c_anc c, sibs', c_self cd)) by (split; assumption).
    pose proof (located_unique f m cd _ H Hd Hok' Em) as E.
    assert (Ea : c_anc cd = l ++ c_anc c) by (rewrite <- E; reflexivity).
    unfold q_depth, q_height. rewrite Ea, app_length. lia.
  - destruct (deepest f (c_self c)) as (d & l & Hd & El & Hl). destruct (Hl _ _ Hch Hs) as (sibs' & Hc' & Hds).
    assert (Hok' : ctx_ok f (l ++ c_anc c, sibs', d)) by (split; assumption).
    destruct (locate_f_self f d H (ctx_self_in_pre f _ Hok')) as (cd & Hld & Esd & Hokd).
    assert (E : cd = (l ++ c_anc c, sibs', d)) by (eapply ctx_unique; eauto; now rewrite Esd).
    exists (rid d), cd. split; [assumption|]. split; [now rewrite Esd|].
    assert (Ea : c_anc cd = l ++ c_anc c) by (rewrite E; reflexivity).
    unfold q_depth, q_height. rewrite Ea, app_length. lia.
Qed.

Lemma list_max_witness {X} (g : X -> nat) l : l <> [] -> exists x, In x l /\ list_max (map g l) = g x.
Proof.
  induction l as [|z l IH]; [congruence|]. intros _. destruct l as [|z' l].
  - exists z. split; [now left|]. cbn. lia.
  - destruct (IH ltac:(discriminate)) as (x & Hx & Ex).
    replace (list_max (map g (z :: z' :: l))) with (Nat.max (g z) (list_max (map g (z' :: l)))) by reflexivity.
    rewrite Ex. destruct (Nat.le_ge_cases (g z) (g x)) as [Hle|Hge].
    + exists x. split; [now right|]. lia.
    + exists z. split; [now left|]. lia.
Qed.

(* Tree.calc_height = the largest depth of any node (0 for the empty tree) *)
Theorem tree_height_max_depth f : NoDup (ids f) ->
  (forall m cd, locate_f m f = Some cd -> q_depth cd <= tree_height f) /\
  (f <> [] -> exists m cd, locate_f m f = Some cd /\ q_depth cd = tree_height f) /\
  (f = [] -> tree_height f = 0).
Proof.
  intros H. refine (conj _ (conj _ _)).
  - intros m cd Hd. destruct (locate_f_ok f m cd Hd) as [Hok Em].
    pose proof (ctx_self_in_pre f cd Hok) as Hp. apply in_flat_map in Hp as (x & Hx & Hp).
    destruct (branch_depth f x [] f (chain_top f) Hx _ Hp) as (l & sibs' & Hl & Hds & Hle).
    assert (Hok' : ctx_ok f (l ++ [], sibs', c_self cd)) by (split; assumption).
    pose proof (located_unique f m cd _ H Hd Hok' Em) as E.
    assert (Ea : c_anc cd = l) by (rewrite <- E; unfold c_anc; cbn [fst snd]; apply app_nil_r).
    unfold q_depth. rewrite Ea.
    assert (height x <= list_max (map height f)) by (apply list_max_ge; now apply in_map).
    unfold tree_height. destruct f; [contradiction|]. lia.
  - intros Hne. destruct (list_max_witness height f Hne) as (x & Hx & Ex).
    destruct (deepest f x) as (d & l & Hd & El & Hl). destruct (Hl [] f (chain_top f) Hx) as (sibs' & Hc' & Hds).
    assert (Hok' : ctx_ok f (l ++ [], sibs', d)) by (split; assumption).
    destruct (locate_f_self f d H (ctx_self_in_pre f _ Hok')) as (cd & Hld & Esd & Hokd).
    assert (E : cd = (l ++ [], sibs', d)) by (eapply ctx_unique; eauto; now rewrite Esd).
    assert (Ea : c_anc cd = l) by (rewrite E; unfold c_anc; cbn [fst snd]; apply app_nil_r).
    exists (rid d), cd. split; [assumption|]. unfold q_depth. rewrite Ea. unfold tree_height. destruct f; [contradiction|]. lia.
  - intros ->. reflexivity.
Qed.

(* ------------------------------------------------------------------ *)
(* descendant counts                                                    *)
(* ------------------------------------------------------------------ *)
Definition is_leaf_t (t : rt) : bool := match rch t with [] => true | _ => false end.

Lemma count_all_sum l : length (pre_f l) = list_sum (map (fun x => S (length (pre_f (rch x)))) l).
Proof.
  induction l as [|x l IH]; [reflexivity|]. cbn [flat_map map list_sum]. rewrite app_length, IH, pre_unfold. reflexivity.
Qed.

Lemma count_leaves_sum l : length (filter is_leaf_t (pre_f l)) =
  list_sum (map (fun x => if is_leaf_t x then 1 else length (filter is_leaf_t (pre_f (rch x)))) l).
Proof.
  induction l as [|x l IH]; [reflexivity|].
  change (pre_f (x :: l)) with (pre x ++ pre_f l). rewrite filter_app, app_length, IH.
  cbn [map list_sum]. f_equal. rewrite pre_unfold. cbn [filter]. destruct (is_leaf_t x) eqn:El; [|reflexivity].
  unfold is_leaf_t in El. destruct (rch x); [reflexivity|discriminate].
Qed.

Lemma filter_len_le {X} (p : X -> bool) l : length (filter p l) <= length l.
Proof. induction l as [|x l IH]; cbn; [lia|]. destruct (p x); cbn; lia. Qed.

Lemma some_leaf : forall t, exists d, In d (pre t) /\ is_leaf_t d = true.
Proof.
  induction t as [id i ch IH] using rt_ind'. destruct ch as [|y ch'].
  - exists (T id i []). split; [apply pre_in_self|reflexivity].
  - inversion IH as [|? ? Hy _]; subst. destruct Hy as (d & Hd & Hl). exists d. split; [|assumption].
    rewrite pre_unfold. right. cbn [rch flat_map]. apply in_or_app. now left.
Qed.

Theorem count_laws c :
  q_count_desc c false = length (pre_f (rch (c_self c))) /\
  S (q_count_desc c false) = length (pre (c_self c)) /\
  (forall cs, map c_self cs = q_children c ->
     q_count_desc c false = list_sum (map (fun cx => S (q_count_desc cx false)) cs) /\
     q_count_desc c true = list_sum (map (fun cx => if q_is_leaf cx then 1 else q_count_desc cx true) cs)) /\
  q_count_desc c true <= q_count_desc c false /\
  (q_is_leaf c = true -> q_count_desc c true = 0 /\ q_count_desc c false = 0) /\
  (q_is_leaf c = false -> 1 <= q_count_desc c true) /\
  q_count_desc c true = length (filter is_leaf_t (pre_f (rch (c_self c)))).
Proof.
  assert (E0 : forall d, q_count_desc d false = length (pre_f (rch (c_self d)))).
  { intros d. unfold q_count_desc. now rewrite filter_true. }
  assert (E1 : forall d, q_count_desc d true = length (filter is_leaf_t (pre_f (rch (c_self d))))) by reflexivity.
  refine (conj (E0 c) (conj _ (conj _ (conj _ (conj _ (conj _ (E1 c))))))).
  - rewrite E0, pre_unfold. reflexivity.
  - intros cs Hcs. unfold q_children in Hcs. split.
    + rewrite E0, count_all_sum, <- Hcs, map_map. f_equal. apply map_ext. intros d. now rewrite E0.
    + rewrite E1, count_leaves_sum, <- Hcs, map_map. reflexivity.
  - rewrite E0, E1. apply filter_len_le.
  - unfold q_is_leaf. rewrite E0, E1. destruct (rch (c_self c)); [split; reflexivity|discriminate].
  - unfold q_is_leaf. rewrite E1. destruct (rch (c_self c)) as [|y l]; [discriminate|]. intros _.
    destruct (some_leaf y) as (d & Hd & Hl).
    assert (Hin : In d (filter is_leaf_t (pre_f (y :: l)))).
    { apply filter_In. split; [|assumption]. cbn [flat_map]. apply in_or_app. now left. }
    destruct (filter is_leaf_t (pre_f (y :: l))); [contradiction|]. cbn [length]. lia.
Qed.

(* ------------------------------------------------------------------ *)
(* path = names of the ancestor chain, top first, joined by "/"         *)
(* ------------------------------------------------------------------ *)
Fixpoint join (sep : text) (l : list text) : text :=
  match l with
  | [] => []
  | x :: l' => match l' with [] => x | _ => x ++ sep ++ join sep l' end
  end.

Lemma flat_map_join (l : list rt) :
  flat_map (fun t => 47%Z :: node_name t) l = match l with [] => [] | _ => 47%Z :: join [47%Z] (map node_name l) end.
Proof.
  induction l as [|x l IH]; [reflexivity|]. cbn [flat_map]. rewrite IH. destruct l as [|y l]; cbn [map join].
  - now rewrite app_nil_r.
  - reflexivity.
Qed.

Theorem path_spec c a : q_path c a = 47%Z :: join [47%Z] (map node_name (q_parent_list c a false)).
Proof.
  unfold q_path. destruct (q_parent_list c a false) as [|x l] eqn:E; [reflexivity|].
  change (fun t : rt => 47%Z :: i_name (rinfo t)) with (fun t : rt => 47%Z :: node_name t).
  now rewrite flat_map_join.
Qed.

(* ------------------------------------------------------------------ *)
(* up(k): composes; up(1) is the parent                                 *)
(* ------------------------------------------------------------------ *)
Theorem up_one c : q_up c 1 = Some (q_parent c).
Proof. unfold q_up, q_parent. destruct (c_anc c); reflexivity. Qed.

Theorem up_compose f n c k p cp j : NoDup (ids f) -> locate_f n f = Some c ->
  q_up c k = Some (Some p) -> locate_f (rid p) f = Some cp -> 1 <= j ->
  q_up c (j + k) = q_up cp j.
Proof.
  intros H Hc Hk Hp Hj. destruct (locate_f_ok f n c Hc) as [[Hch Hs] _].
  destruct k as [|k]; [discriminate|]. unfold q_up in Hk.
  destruct (nth_error (c_anc c) k) as [p'|] eqn:En.
  2:{ destruct (Nat.eqb k (length (c_anc c))); discriminate. }
  injection Hk as ->. apply nth_error_split in En as (l & anc' & Ea & El).
  rewrite Ea in Hch. destruct (chain_suffix f l p anc' _ Hch) as (sibs' & Hc' & Hps).
  assert (Hok' : ctx_ok f (anc', sibs', p)) by (split; assumption).
  pose proof (located_unique f (rid p) cp _ H Hp Hok' eq_refl) as E. apply (f_equal c_anc) in E.
  unfold c_anc at 1 in E; cbn [fst snd] in E.
  destruct j as [|j]; [lia|]. unfold q_up. cbn [Nat.add]. rewrite <- E, Ea.
  replace (j + S k) with (length (l ++ [p]) + j) by (rewrite app_length; cbn [length]; lia).
  replace (l ++ p :: anc') with ((l ++ [p]) ++ anc') by (rewrite <- app_assoc; reflexivity).
  rewrite nth_error_app2 by lia. replace (length (l ++ [p]) + j - length (l ++ [p])) with j by lia.
  destruct (nth_error anc' j); [reflexivity|]. rewrite (app_length (l ++ [p]) anc').
  destruct (Nat.eqb j (length anc')) eqn:Ej.
  - apply Nat.eqb_eq in Ej. rewrite Ej, Nat.eqb_refl. reflexivity.
  - apply Nat.eqb_neq in Ej. destruct (Nat.eqb (length (l ++ [p]) + j) (length (l ++ [p]) + length anc')) eqn:Ej'; [|reflexivity].
    apply Nat.eqb_eq in Ej'. lia.
Qed.

(* ------------------------------------------------------------------ *)
(* get_top: THE top-level node whose sub-tree contains the node          *)
(* ------------------------------------------------------------------ *)
Lemma top_disjoint f x y n : NoDup (ids f) -> In x f -> In y f -> In n (ids_t x) -> In n (ids_t y) -> x = y.
Proof.
  intros H Hx Hy Hnx Hny. apply in_split in Hx as (l1 & l2 & ->). rewrite ids_split in H.
  destruct (nodup3 _ _ _ H) as (_ & H1 & H2).
  apply in_app_or in Hy as [Hy|[Hy|Hy]]; [exfalso|now symmetry|exfalso].
  - apply (H1 n); [|assumption]. apply (ids_t_incl l1 y); [now apply in_pre_f_top|assumption].
  - apply (H2 n); [assumption|]. apply (ids_t_incl l2 y); [now apply in_pre_f_top|assumption].
Qed.

Theorem top_unique f n c : NoDup (ids f) -> locate_f n f = Some c ->
  In (q_top c) f /\ In (c_self c) (pre (q_top c)) /\
  (forall x, In x f -> In (c_self c) (pre x) -> x = q_top c) /\
  (q_top c = c_self c <-> q_is_top c = true).
Proof.
  intros H Hc. destruct (locate_f_ok f n c Hc) as [Hok _].
  destruct (top_is_last_ancestor f c Hok) as [Hin Hor].
  assert (Hpre : In (c_self c) (pre (q_top c))).
  { apply (aos_iff f c (q_top c) H Hok); [now apply in_pre_f_top|]. destruct Hor as [->|Ha]; [now left|now right]. }
  refine (conj Hin (conj Hpre (conj _ _))).
  - intros x Hx Hp. apply (top_disjoint f x (q_top c) (rid (c_self c)) H Hx Hin); unfold ids_t; now apply in_map.
  - split.
    + intros E. pose proof (top_level_laws f n c H Hc) as [[P _] _]. rewrite E in Hin. apply P in Hin.
      unfold q_is_top. unfold q_parent in Hin. now destruct (c_anc c).
    + unfold q_is_top, q_top. destruct (c_anc c); [reflexivity|discriminate].
Qed.

(* ------------------------------------------------------------------ *)
(* previous / next sibling are inverse; index = position                 *)
(* ------------------------------------------------------------------ *)
Lemma sibling_ctx f c y : ctx_ok f c -> In y (c_sibs c) -> ctx_ok f (c_anc c, c_sibs c, y).
Proof. intros [Hc _] Hy. split; assumption. Qed.

Theorem next_prev_inverse f n m c cy : NoDup (ids f) -> locate_f n f = Some c -> locate_f m f = Some cy ->
  (q_next c = Some (c_self cy) <-> q_prev cy = Some (c_self c)) /\
  (q_next c = Some (c_self cy) -> q_index cy = option_map S (q_index c) /\ q_parent cy = q_parent c).
Proof.
  intros H Hc Hy. destruct (locate_f_ok f n c Hc) as [Hok En]. destruct (locate_f_ok f m cy Hy) as [Hoky Em].
  destruct (ctx_ok_split f c H Hok) as (l1 & l2 & E & H1 & H2).
  destruct (ctx_ok_split f cy H Hoky) as (k1 & k2 & Ey & K1 & K2).
  pose proof (sibling_positions c l1 l2 E H1 H2) as (Pi & Pp & Pn & _).
  pose proof (sibling_positions cy k1 k2 Ey K1 K2) as (Qi & Qp & Qn & _).
  assert (Hnd : NoDup (map rid (c_sibs c))) by (destruct Hok as [Hch _]; eapply chain_sibs_nodup; eauto).
  assert (Fwd : q_next c = Some (c_self cy) -> cy = (c_anc c, c_sibs c, c_self cy) /\ k1 = l1 ++ [c_self c]).
  { intros Hn. rewrite Pn in Hn. destruct l2 as [|y l2]; [discriminate|]. injection Hn as ->.
    assert (Hin : In (c_self cy) (c_sibs c)) by (rewrite E; apply in_or_app; right; right; now left).
    pose proof (located_unique f m cy _ H Hy (sibling_ctx f c _ Hok Hin) Em) as Ec. split; [now symmetry|].
    assert (Es : c_sibs cy = c_sibs c) by (rewrite <- Ec at 1; reflexivity).
    rewrite Es, E in Ey. replace (l1 ++ c_self c :: c_self cy :: l2) with ((l1 ++ [c_self c]) ++ c_self cy :: l2) in Ey
      by (rewrite <- app_assoc; reflexivity).
    assert (Ei : index_of (rid (c_self cy)) ((l1 ++ [c_self c]) ++ c_self cy :: l2) = Some (length (l1 ++ [c_self c]))).
    { apply index_of_split; [reflexivity|]. intros x Hx Heq. rewrite E in Hnd.
      replace (l1 ++ c_self c :: c_self cy :: l2) with ((l1 ++ [c_self c]) ++ c_self cy :: l2) in Hnd
        by (rewrite <- app_assoc; reflexivity).
      rewrite map_app in Hnd. cbn [map] in Hnd. eapply (NoDup_app_disj (map rid (l1 ++ [c_self c]))); [exact Hnd| |now left].
      rewrite <- Heq. now apply in_map. }
    rewrite Ey in Ei. rewrite (index_of_split _ k1 _ k2 eq_refl K1) in Ei. injection Ei as El.
    assert (Ef : firstn (length k1) (k1 ++ c_self cy :: k2) = firstn (length k1) ((l1 ++ [c_self c]) ++ c_self cy :: l2)) by now rewrite Ey.
    rewrite firstn_app_len, El, firstn_app_len in Ef. exact Ef. }
  split; [split|].
  - intros Hn. destruct (Fwd Hn) as [_ ->]. rewrite Qp. unfold last_error. now rewrite rev_app_distr.
  - intros Hpv. rewrite Qp in Hpv.
    assert (Ek : exists k0, k1 = k0 ++ [c_self c]).
    { unfold last_error in Hpv. destruct k1 as [|z k1] using rev_ind; [discriminate|]. rewrite rev_app_distr in Hpv.
      injection Hpv as ->. eauto. }
    destruct Ek as (k0 & ->).
    assert (Hin : In (c_self c) (c_sibs cy)) by (rewrite Ey; apply in_or_app; left; apply in_or_app; right; now left).
    pose proof (located_unique f n c _ H Hc (sibling_ctx f cy _ Hoky Hin) En) as Ec.
    assert (Es : c_sibs c = c_sibs cy) by (rewrite <- Ec at 1; reflexivity).
    assert (Hsp : c_sibs c = k0 ++ c_self c :: c_self cy :: k2) by (rewrite Es, Ey, <- app_assoc; reflexivity).
    assert (Hk0 : forall x, In x k0 -> rid x <> rid (c_self c)).
    { intros x Hx Heq. rewrite Hsp, map_app in Hnd. cbn [map] in Hnd.
      eapply (NoDup_app_disj (map rid k0)); [exact Hnd| |now left]. rewrite <- Heq. now apply in_map. }
    assert (Hk2 : forall x, In x (c_self cy :: k2) -> rid x <> rid (c_self c)).
    { intros x Hx Heq. rewrite Hsp, map_app in Hnd. apply NoDup_app_r in Hnd. cbn [map] in Hnd.
      inversion Hnd as [|? ? Hni _]; subst. apply Hni. rewrite <- Heq. change (In (rid x) (map rid (c_self cy :: k2))). now apply in_map. }
    rewrite (q_next_split c k0 (c_self cy :: k2) Hsp Hk0 Hk2). reflexivity.
  - intros Hn. destruct (Fwd Hn) as [Ec ->]. split.
    + rewrite Qi, Pi, app_length. cbn. f_equal. lia.
    + unfold q_parent. rewrite Ec at 1. reflexivity.
Qed.

(* ------------------------------------------------------------------ *)
(* index = THE position of the node in its sibling list                 *)
(* ------------------------------------------------------------------ *)
Theorem index_is_position f n c : NoDup (ids f) -> locate_f n f = Some c ->
  exists k, q_index c = Some k /\ nth_error (q_siblings c true) k = Some (c_self c) /\
    forall j x, nth_error (q_siblings c true) j = Some x -> rid x = rid (c_self c) -> j = k.
Proof.
  intros H Hc. destruct (locate_f_ok f n c Hc) as [Hok _].
  destruct (ctx_ok_split f c H Hok) as (l1 & l2 & E & H1 & H2).
  exists (length l1). unfold q_index, q_siblings. rewrite E. refine (conj _ (conj _ _)).
  - now apply index_of_split.
  - apply nth_error_app_len.
  - intros j x Hj Hx. destruct (Nat.lt_trichotomy j (length l1)) as [Hlt|[->|Hgt]]; [exfalso| reflexivity |exfalso].
    + rewrite nth_error_app1 in Hj by assumption. apply nth_error_In in Hj. now apply (H1 x).
    + rewrite nth_error_app2 in Hj by lia. destruct (j - length l1) as [|d] eqn:Ed; [lia|].
      cbn [nth_error] in Hj. apply nth_error_In in Hj. now apply (H2 x).
Qed.

(* ------------------------------------------------------------------ *)
(* C15 in positional form: the kind-aware sibling queries are positions *)
(* in the sibling list FILTERED by the node's kind                      *)
(* ------------------------------------------------------------------ *)
Theorem typed_positions f n c k : NoDup (ids f) -> locate_f n f = Some c -> rkind (c_self c) = Some k ->
  exists l1 l2,
    filter (fun t => same_kind t (c_self c)) (c_sibs c) = l1 ++ c_self c :: l2 /\
    (forall x, In x (l1 ++ l2) -> rkind x = Some k /\ In x (c_sibs c) /\ rid x <> rid (c_self c)) /\
    t_index c false = Some (length l1) /\
    t_prev c false = last_error l1 /\
    t_next c false = hd_error l2 /\
    t_first_sibling c false = hd_error (l1 ++ [c_self c]) /\
    t_last_sibling c false = last_error (c_self c :: l2) /\
    (t_is_first c false = true <-> l1 = []) /\
    (t_is_last c false = true <-> l2 = []) /\
    t_siblings c false false = l1 ++ l2 /\
    t_siblings c false true = l1 ++ c_self c :: l2.
Proof.
  intros H Hc Hk. destruct (locate_f_ok f n c Hc) as [Hok _].
  pose proof (ctx_ok_split f c H Hok) as Hs.
  destruct (fctx_split c Hs) as (l1 & l2 & E & H1 & H2).
  destruct (typed_sibling_queries f n c k H Hc Hk) as (Qs & Qf & Ql & Qp & Qn & Qi & Qif & Qil).
  pose proof (sibling_positions (fctx c) l1 l2 E H1 H2) as (Pi & Pp & Pn & Pf & Pl & Pif & Pil & Ps).
  change (c_self (fctx c)) with (c_self c) in *. change (c_sibs (fctx c)) with (filter (sk (c_self c)) (c_sibs c)) in E.
  exists l1, l2. refine (conj E (conj _ (conj _ (conj _ (conj _ (conj _ (conj _ (conj _ (conj _ (conj _ _)))))))))).
  - intros x Hx.
    assert (Hin : In x (filter (sk (c_self c)) (c_sibs c))).
    { rewrite E. apply in_app_or in Hx as [Hx|Hx]; apply in_or_app; [now left|right; now right]. }
    apply filter_In in Hin as [Hin Hsk]. unfold sk, same_kind in Hsk. apply kind_eqb_eq in Hsk.
    split; [congruence|]. split; [assumption|]. apply in_app_or in Hx as [Hx|Hx]; [now apply H1|now apply H2].
  - now rewrite Qi.
  - now rewrite Qp.
  - now rewrite Qn.
  - now rewrite Qf.
  - now rewrite Ql.
  - now rewrite Qif.
  - now rewrite Qil.
  - now rewrite Qs.
  - rewrite Qs. unfold q_siblings. exact E.
Qed.

(* ------------------------------------------------------------------ *)
(* Tree-level accessors                                                 *)
(* ------------------------------------------------------------------ *)
Theorem tree_level_laws f : NoDup (ids f) ->
  (forall m cx, locate_f m f = Some cx -> q_is_top cx = true ->
     q_siblings cx true = tr_children f /\ q_first_sibling cx = tr_first_child f /\
     q_last_sibling cx = tr_last_child f /\ In (c_self cx) (tr_children f)) /\
  (forall x, In x (tr_children f) -> exists cx, locate_f (rid x) f = Some cx /\ c_self cx = x /\ q_is_top cx = true) /\
  tr_count f = length (ids f) /\
  tr_count f = tr_count_desc f false /\
  (forall cs, map c_self cs = tr_children f ->
     tr_count f = list_sum (map (fun c => S (q_count_desc c false)) cs) /\
     tr_count_desc f true = list_sum (map (fun c => if q_is_leaf c then 1 else q_count_desc c true) cs)) /\
  (tr_children f = [] <-> tr_count f = 0) /\
  (f <> [] -> 1 <= tr_count_desc f true <= tr_count f).
Proof.
  intros H. refine (conj _ (conj _ (conj _ (conj _ (conj _ (conj _ _)))))).
  - intros m cx Hx Ht. destruct (top_level_laws f m cx H Hx) as [[P1 P2] L].
    assert (Hp : q_parent cx = None) by (unfold q_parent; unfold q_is_top in Ht; now destruct (c_anc cx)).
    destruct (L Hp) as (_ & _ & Es & Ef & El & _). unfold tr_children, tr_first_child, tr_last_child.
    refine (conj Es (conj Ef (conj El _))). now apply P2.
  - intros x Hx. destruct (locate_f_self f x H (in_pre_f_top x f Hx)) as (cx & Hl & Es & Hok).
    exists cx. split; [assumption|]. split; [assumption|].
    destruct (top_level_laws f (rid x) cx H Hl) as [[P1 _] L]. rewrite <- Es in Hx. now destruct (L (P1 Hx)) as (Ht & _).
  - unfold tr_count. now rewrite length_ids.
  - unfold tr_count, tr_count_desc. now rewrite filter_true.
  - intros cs Hcs. unfold tr_children in Hcs. unfold tr_count, tr_count_desc. split.
    + rewrite count_all_sum, <- Hcs, map_map. f_equal. apply map_ext. intros d. unfold q_count_desc. now rewrite filter_true.
    + change (fun t : rt => match rch t with [] => true | _ :: _ => false end) with is_leaf_t.
      rewrite count_leaves_sum, <- Hcs, map_map. reflexivity.
  - unfold tr_children, tr_count. split; [now intros ->|]. destruct f as [|x f']; [reflexivity|].
    cbn [flat_map]. rewrite pre_unfold. discriminate.
  - intros Hne. unfold tr_count, tr_count_desc. split; [|apply filter_len_le].
    destruct f as [|y l]; [congruence|]. destruct (some_leaf y) as (d & Hd & Hl).
    assert (Hin : In d (filter is_leaf_t (pre_f (y :: l)))).
    { apply filter_In. split; [|assumption]. cbn [flat_map]. apply in_or_app. now left. }
    change (fun t : rt => match rch t with [] => true | _ :: _ => false end) with is_leaf_t.
    destruct (filter is_leaf_t (pre_f (y :: l))); [contradiction|]. cbn [length]. lia.
Qed.
