(* Laws of the relationship queries (C10), derived from PRE-ORDER MEMBERSHIP.

   Foundation: in a forest with unique identities the ancestor chain of a
   structural context is exactly the list of nodes whose branch contains the
   node, in pre-order ([anc_filter]); hence a node has exactly one structural
   context ([ctx_unique]).  Everything else (converse of the descendant test,
   nearest common ancestor of BOTH nodes, children/parent inverse, depth,
   height, counts, path, up, get_top) follows. *)
From Coq Require Import List ZArith Bool Arith Lia Permutation.
From NT Require Import Sx Rose ListFacts RoseFacts Nav NavProofs.
Import ListNotations.

(* ------------------------------------------------------------------ *)
(* pre-order containment                                                *)
(* ------------------------------------------------------------------ *)
Lemma pre_incl_f l b : In b (pre_f l) -> incl (pre b) (pre_f l).
Proof.
  intros H x Hx. destruct (pre_f_segment l b H) as (a & z & E). rewrite E.
  apply in_or_app; right; apply in_or_app; now left.
Qed.

Lemma branch_incl_pre a : incl (pre_f (rch a)) (pre a).
Proof. intros x Hx. rewrite pre_unfold. now right. Qed.

Lemma pre_trans a b x : In b (pre a) -> In x (pre b) -> In x (pre a).
Proof.
  intros Hb Hx. destruct (pre_segment a b Hb) as (u & v & E). rewrite E.
  apply in_or_app; right; apply in_or_app; now left.
Qed.

Lemma pre_cases a x : In x (pre a) -> x = a \/ In x (pre_f (rch a)).
Proof. rewrite pre_unfold. intros [H|H]; [left; now symmetry|now right]. Qed.

Lemma branch_trans a b x : In b (pre_f (rch a)) -> In x (pre_f (rch b)) -> In x (pre_f (rch a)).
Proof. intros Hb Hx. apply (pre_incl_f _ b Hb). now apply branch_incl_pre. Qed.

Lemma ids_t_incl l a : In a (pre_f l) -> incl (ids_t a) (ids l).
Proof.
  intros Ha n Hn. unfold ids_t in Hn. apply in_map_iff in Hn as (x & <- & Hx).
  unfold ids. apply in_map. now apply (pre_incl_f l a).
Qed.

Lemma ids_rch_incl l a : In a (pre_f l) -> incl (ids (rch a)) (ids l).
Proof.
  intros Ha n Hn. apply (ids_t_incl l a Ha). rewrite ids_t_unfold. now right.
Qed.

Lemma ids_in_pre l x : In x (pre_f l) -> In (rid x) (ids l).
Proof. intros H. unfold ids. now apply in_map. Qed.

Lemma ids_split l1 y l2 : ids (l1 ++ y :: l2) = ids l1 ++ ids_t y ++ ids l2.
Proof. rewrite ids_app, ids_cons, ids_t_unfold. reflexivity. Qed.

Lemma nodup3 {X} (a b c : list X) : NoDup (a ++ b ++ c) ->
  NoDup b /\ (forall x, In x a -> In x b -> False) /\ (forall x, In x b -> In x c -> False).
Proof.
  intros H. refine (conj _ (conj _ _)).
  - eapply NoDup_app_l, NoDup_app_r; eauto.
  - intros x Ha Hb. eapply (NoDup_app_disj a (b ++ c)); eauto. apply in_or_app. now left.
  - apply NoDup_app_r in H. intros x Hb Hc. eapply (NoDup_app_disj b c); eauto.
Qed.

(* membership of an identity in a node's branch, as a boolean *)
Definition has (n : nat) (a : rt) : bool := existsb (Nat.eqb n) (ids (rch a)).

Lemma has_iff n a : has n a = true <-> In n (ids (rch a)).
Proof.
  unfold has. rewrite existsb_exists. split.
  - intros (x & Hx & E). apply Nat.eqb_eq in E. now subst.
  - intros H. exists n. split; [assumption|apply Nat.eqb_refl].
Qed.

Lemma filter_nil {X} (p : X -> bool) l : (forall x, In x l -> p x = false) -> filter p l = [].
Proof.
  induction l as [|x l IH]; intros H; cbn; [reflexivity|].
  rewrite (H x (or_introl eq_refl)). apply IH. intros y Hy. apply H. now right.
Qed.

(* a top-level node is in nobody's branch *)
Lemma top_not_inside f t a : NoDup (ids f) -> In t f -> In a (pre_f f) -> ~ In (rid t) (ids (rch a)).
Proof.
  intros Hnd Ht Ha Hin. apply in_flat_map in Ha as (y & Hy & Ha).
  assert (Hy' : In (rid t) (ids (rch y))).
  { apply pre_cases in Ha as [->|Ha]; [assumption|]. now apply (ids_rch_incl (rch y) a). }
  apply in_split in Hy as (l1 & l2 & ->). rewrite ids_split in Hnd.
  destruct (nodup3 _ _ _ Hnd) as (Hy & H1 & H2).
  apply in_app_or in Ht as [Ht|[<-|Ht]].
  - apply (H1 (rid t)); [apply ids_in_pre; now apply in_pre_f_top|]. rewrite ids_t_unfold. now right.
  - rewrite ids_t_unfold in Hy. inversion Hy as [|? ? Hn _]; subst. now apply Hn.
  - apply (H2 (rid t)); [rewrite ids_t_unfold; now right|apply ids_in_pre; now apply in_pre_f_top].
Qed.

(* ------------------------------------------------------------------ *)
(* chains, peeled from the top                                          *)
(* ------------------------------------------------------------------ *)
Lemma chain_snoc f x anc sibs : In x f -> chain (rch x) anc sibs -> chain f (anc ++ [x]) sibs.
Proof.
  intros Hx Hc. induction Hc as [|p anc sibs Hc IH Hp].
  - cbn. apply (chain_down f x [] f); [constructor|assumption].
  - cbn. apply (chain_down f p (anc ++ [x]) sibs); assumption.
Qed.

Lemma chain_inv f anc sibs : chain f anc sibs ->
  (anc = [] /\ sibs = f) \/ exists x anc', anc = anc' ++ [x] /\ In x f /\ chain (rch x) anc' sibs.
Proof.
  induction 1 as [|p anc sibs Hc IH Hp]; [left; split; reflexivity|]. right.
  destruct IH as [[-> ->]|(x & anc' & -> & Hx & Hc')].
  - exists p, []. split; [reflexivity|]. split; [assumption|constructor].
  - exists x, (p :: anc'). split; [reflexivity|]. split; [assumption|].
    apply (chain_down (rch x) p anc' sibs); assumption.
Qed.

Lemma chain_suffix f l : forall p anc sibs, chain f (l ++ p :: anc) sibs -> exists sibs', chain f anc sibs' /\ In p sibs'.
Proof.
  induction l as [|y l IH]; intros p anc sibs H; cbn [app] in H.
  - inversion H as [|p' anc' sibs' Hc Hp]; subst. eauto.
  - inversion H as [|p' anc' sibs' Hc Hp]; subst. eapply IH; eauto.
Qed.

(* THE characterisation: the ancestors of t (top first) are the nodes whose
   branch contains t's identity, in pre-order *)
Definition Qf (f : forest) : Prop := NoDup (ids f) ->
  forall anc sibs t, chain f anc sibs -> In t sibs -> rev anc = filter (has (rid t)) (pre_f f).

Lemma Qf_step f : (forall y, In y f -> Qf (rch y)) -> Qf f.
Proof.
  intros IH Hnd anc sibs t Hc Ht. destruct (chain_inv f anc sibs Hc) as [[-> ->]|(x & anc' & -> & Hx & Hc')].
  - cbn. symmetry. apply filter_nil. intros a Ha. destruct (has (rid t) a) eqn:E; [|reflexivity].
    apply has_iff in E. exfalso. eapply top_not_inside; eauto.
  - rewrite rev_app_distr. cbn [rev app].
    assert (Htx : In t (pre_f (rch x))) by (eapply chain_sibs_in_pre; eauto).
    pose proof (ids_in_pre _ _ Htx) as Hidx.
    apply in_split in Hx as (l1 & l2 & ->). rewrite ids_split in Hnd.
    destruct (nodup3 _ _ _ Hnd) as (Hy & H1 & H2).
    rewrite flat_map_in_split, !filter_app, pre_unfold. cbn [filter].
    assert (has (rid t) x = true) as -> by now apply has_iff.
    rewrite (filter_nil _ (pre_f l1)), (filter_nil _ (pre_f l2)).
    + cbn [app]. rewrite app_nil_r. f_equal.
      assert (Hq : Qf (rch x)) by (apply IH; apply in_or_app; right; now left).
      unfold Qf in Hq. apply (Hq) with (sibs := sibs); [|assumption|assumption].
      rewrite ids_t_unfold in Hy. now inversion Hy.
    + intros a Ha. destruct (has (rid t) a) eqn:E; [|reflexivity]. apply has_iff in E. exfalso.
      apply (H2 (rid t)); [rewrite ids_t_unfold; now right|]. now apply (ids_rch_incl l2 a).
    + intros a Ha. destruct (has (rid t) a) eqn:E; [|reflexivity]. apply has_iff in E. exfalso.
      apply (H1 (rid t)); [|rewrite ids_t_unfold; now right]. now apply (ids_rch_incl l1 a).
Qed.

Lemma Qf_all f : Qf f.
Proof.
  assert (H : forall x, Qf (rch x)).
  { induction x as [id i ch IH] using rt_ind'. cbn [rch]. apply Qf_step. now apply Forall_forall. }
  apply Qf_step. intros y _. apply H.
Qed.

Theorem anc_filter f c : NoDup (ids f) -> ctx_ok f c ->
  rev (c_anc c) = filter (has (rid (c_self c))) (pre_f f).
Proof. intros H [Hc Hs]. eapply Qf_all; eauto. Qed.

Theorem ctx_unique f c c' : NoDup (ids f) -> ctx_ok f c -> ctx_ok f c' ->
  rid (c_self c) = rid (c_self c') -> c = c'.
Proof.
  intros H Hok Hok' E.
  assert (Ea : c_anc c = c_anc c').
  { rewrite <- (rev_involutive (c_anc c)), <- (rev_involutive (c_anc c')).
    now rewrite (anc_filter f c H Hok), (anc_filter f c' H Hok'), E. }
  assert (Es : c_sibs c = c_sibs c') by now rewrite (ctx_sibs f c Hok), (ctx_sibs f c' Hok'), Ea.
  assert (Et : c_self c = c_self c') by (eapply node_unique; eauto using ctx_self_in_pre).
  destruct c as [[a s] t], c' as [[a' s'] t']. unfold c_anc, c_sibs, c_self in *. cbn [fst snd] in *. congruence.
Qed.

Theorem located_unique f n c c' : NoDup (ids f) -> locate_f n f = Some c -> ctx_ok f c' ->
  rid (c_self c') = n -> c' = c.
Proof.
  intros H Hl Hok E. destruct (locate_f_ok f n c Hl) as [Hok0 E0]. eapply ctx_unique; eauto. congruence.
Qed.

(* ------------------------------------------------------------------ *)
(* ancestor / descendant tests, from pre-order membership               *)
(* ------------------------------------------------------------------ *)
Lemma aos_in_pre f c a : ctx_ok f c -> In a (c_self c :: c_anc c) -> In a (pre_f f).
Proof.
  intros Hok [<-|Ha]; [now apply (ctx_self_in_pre f)|]. destruct Hok as [Hc _]. eapply chain_anc_in_pre; eauto.
Qed.

(* ancestor-or-self chain = the nodes whose sub-tree contains the node *)
Theorem aos_iff f c b : NoDup (ids f) -> ctx_ok f c -> In b (pre_f f) ->
  (In b (c_self c :: c_anc c) <-> In (c_self c) (pre b)).
Proof.
  intros H Hok Hb. split.
  - intros [<-|Ha]; [apply pre_in_self|]. apply branch_incl_pre.
    eapply path_in_branch; [apply ctx_path; eassumption|assumption].
  - intros Hin. apply pre_cases in Hin as [E|Hin]; [left; now symmetry|]. right.
    apply in_rev. rewrite (anc_filter f c H Hok). apply filter_In. split; [assumption|].
    apply has_iff. now apply ids_in_pre.
Qed.

Theorem anc_iff f c b : NoDup (ids f) -> ctx_ok f c -> In b (pre_f f) ->
  (In b (c_anc c) <-> In (c_self c) (pre_f (rch b))).
Proof.
  intros H Hok Hb. split.
  - intros Ha. eapply path_in_branch; [apply ctx_path; eassumption|assumption].
  - intros Hin. apply in_rev. rewrite (anc_filter f c H Hok). apply filter_In. split; [assumption|].
    apply has_iff. now apply ids_in_pre.
Qed.

(* is_descendant_of, both directions: the CONVERSE of descendant_sound included *)
Theorem descendant_iff f n c a : NoDup (ids f) -> locate_f n f = Some c -> In a (pre_f f) ->
  (q_is_descendant_of c (rid a) = true <-> In (c_self c) (pre_f (rch a))).
Proof.
  intros H Hl Ha. destruct (locate_f_ok f n c Hl) as [Hok _]. split.
  - intros E. destruct (descendant_sound f c _ Hok E) as (a' & Ha' & Hid & Hin).
    assert (a' = a) as <-; [|assumption].
    eapply node_unique; eauto. destruct Hok as [Hc _]. eapply chain_anc_in_pre; eauto.
  - intros Hin. apply (anc_iff f c a H Hok Ha) in Hin. unfold q_is_descendant_of.
    apply existsb_exists. exists a. split; [assumption|]. unfold is_self. apply Nat.eqb_refl.
Qed.

Theorem descendant_complete f n c a : NoDup (ids f) -> locate_f n f = Some c -> In a (pre_f f) ->
  In (c_self c) (pre_f (rch a)) -> q_is_descendant_of c (rid a) = true.
Proof. intros H Hl Ha. apply (descendant_iff f n c a H Hl Ha). Qed.

(* a.is_ancestor_of(b) = b.is_descendant_of(a): b lies in a's branch *)
Theorem ancestor_iff f n m c o : NoDup (ids f) -> locate_f n f = Some c -> locate_f m f = Some o ->
  (q_is_ancestor_of o (rid (c_self c)) = true <-> In (c_self o) (pre_f (rch (c_self c)))) /\
  (q_is_ancestor_of o (rid (c_self c)) = q_is_descendant_of o (rid (c_self c))).
Proof.
  intros H Hc Ho. split; [|reflexivity]. unfold q_is_ancestor_of.
  apply (descendant_iff f m o (c_self c) H Ho). apply (ctx_self_in_pre f). now apply (locate_f_ok f n c).
Qed.

Theorem descendant_trans f n m c b a : NoDup (ids f) -> locate_f n f = Some c -> locate_f m f = Some b ->
  In a (pre_f f) ->
  q_is_descendant_of c (rid (c_self b)) = true -> q_is_descendant_of b (rid a) = true ->
  q_is_descendant_of c (rid a) = true.
Proof.
  intros H Hc Hb Ha E1 E2.
  assert (Hbp : In (c_self b) (pre_f f)) by (apply (ctx_self_in_pre f); now apply (locate_f_ok f m b)).
  apply (descendant_iff f n c _ H Hc Hbp) in E1. apply (descendant_iff f m b a H Hb Ha) in E2.
  apply (descendant_iff f n c a H Hc Ha). eapply branch_trans; eauto.
Qed.

Theorem descendant_asym f n m c b : NoDup (ids f) -> locate_f n f = Some c -> locate_f m f = Some b ->
  q_is_descendant_of c (rid (c_self b)) = true -> q_is_descendant_of b (rid (c_self c)) = false.
Proof.
  intros H Hc Hb E1. destruct (q_is_descendant_of b (rid (c_self c))) eqn:E2; [exfalso|reflexivity].
  assert (Hcp : In (c_self c) (pre_f f)) by (apply (ctx_self_in_pre f); now apply (locate_f_ok f n c)).
  pose proof (descendant_trans f n m c b (c_self c) H Hc Hb Hcp E1 E2) as E3.
  rewrite (not_own_ancestor f c H) in E3; [discriminate|]. now apply (locate_f_ok f n c).
Qed.

(* ancestor list = pre-order filter (top first) *)
Theorem parent_list_filter f n c : NoDup (ids f) -> locate_f n f = Some c ->
  q_parent_list c false false = filter (has n) (pre_f f).
Proof.
  intros H Hl. destruct (locate_f_ok f n c Hl) as [Hok E]. unfold q_parent_list.
  rewrite (anc_filter f c H Hok). now rewrite E.
Qed.

(* ------------------------------------------------------------------ *)
(* nearest common ancestor of BOTH nodes                                *)
(* ------------------------------------------------------------------ *)
Lemma is_path_suffix f l : forall t a l2, is_path f t (l ++ a :: l2) -> is_path f a l2.
Proof.
  induction l as [|y l IH]; intros t a l2 Hp; cbn [app] in Hp.
  - now inversion Hp.
  - inversion Hp as [|? ? ? Ht Hp']; subst. eapply IH; eauto.
Qed.

Lemma pre_antisym f a b : NoDup (ids f) -> In b (pre_f f) -> In a (pre b) -> In b (pre a) -> a = b.
Proof.
  intros H Hb Ha Hb'. apply pre_cases in Ha as [E|Ha]; [assumption|].
  apply pre_cases in Hb' as [E|Hb']; [now symmetry|]. exfalso.
  apply (branch_ids_not_self f b H Hb). apply ids_in_pre. eapply branch_trans; eauto.
Qed.

Definition common_spec (f : forest) (c o : ctx) (r : option rt) : Prop :=
  match r with
  | Some a => In a (pre_f f) /\ In (c_self c) (pre a) /\ In (c_self o) (pre a) /\
              forall b, In b (pre_f f) -> In (c_self c) (pre b) -> In (c_self o) (pre b) -> In a (pre b)
  | None => forall b, In b (pre_f f) -> In (c_self c) (pre b) -> In (c_self o) (pre b) -> False
  end.

Theorem common_ancestor_full f n m c o : NoDup (ids f) -> locate_f n f = Some c -> locate_f m f = Some o ->
  common_spec f c o (q_common_ancestor c o).
Proof.
  intros H Hc Ho. destruct (locate_f_ok f n c Hc) as [Hokc _]. destruct (locate_f_ok f m o Ho) as [Hoko _].
  assert (Hidin : forall b, In b (pre_f f) -> In (rid b) (map rid (c_self o :: c_anc o)) -> In b (c_self o :: c_anc o)).
  { intros b Hb Hi. apply in_map_iff in Hi as (b' & E & Hb'). assert (b' = b) as <-; [|assumption].
    eapply node_unique; eauto. eapply aos_in_pre; eauto. }
  unfold common_spec. destruct (q_common_ancestor c o) as [a|] eqn:E.
  - destruct (common_ancestor_spec c o a E) as (Hac & Hao & l1 & l2 & Es & Hn).
    assert (Hap : In a (pre_f f)) by exact (aos_in_pre f c a Hokc Hac).
    refine (conj Hap (conj _ (conj _ _))).
    + now apply (aos_iff f c a H Hokc Hap).
    + apply (aos_iff f o a H Hoko Hap). now apply Hidin.
    + intros b Hb Hbc Hbo. apply (aos_iff f c b H Hokc Hb) in Hbc. apply (aos_iff f o b H Hoko Hb) in Hbo.
      rewrite Es in Hbc. apply in_app_or in Hbc as [Hb1|[<-|Hb2]].
      * exfalso. apply (Hn b Hb1). now apply in_map.
      * apply pre_in_self.
      * apply branch_incl_pre.
        assert (Hp : is_path f a l2).
        { pose proof (ctx_path f c Hokc) as Hp. destruct l1 as [|s l1]; cbn [app] in Es.
          - injection Es as <- <-. exact Hp.
          - injection Es as <- Ea. rewrite Ea in Hp. eapply is_path_suffix; eauto. }
        eapply path_in_branch; eauto.
  - intros b Hb Hbc Hbo. apply (aos_iff f c b H Hokc Hb) in Hbc. apply (aos_iff f o b H Hoko Hb) in Hbo.
    apply (common_ancestor_none c o E b Hbc). now apply in_map.
Qed.

Theorem common_ancestor_sym f n m c o : NoDup (ids f) -> locate_f n f = Some c -> locate_f m f = Some o ->
  q_common_ancestor c o = q_common_ancestor o c.
Proof.
  intros H Hc Ho. pose proof (common_ancestor_full f n m c o H Hc Ho) as S1.
  pose proof (common_ancestor_full f m n o c H Ho Hc) as S2. unfold common_spec in S1, S2.
  destruct (q_common_ancestor c o) as [a1|], (q_common_ancestor o c) as [a2|]; try reflexivity.
  - destruct S1 as (P1 & C1 & O1 & N1). destruct S2 as (P2 & O2 & C2 & N2). f_equal.
    apply (pre_antisym f a1 a2 H P2); [apply N1|apply N2]; assumption.
  - exfalso. destruct S1 as (P1 & C1 & O1 & N1). eapply S2; eauto.
  - exfalso. destruct S2 as (P2 & O2 & C2 & N2). eapply S1; eauto.
Qed.

(* the answer is [self] exactly when other is self or a descendant; [other] when self is one *)
Theorem common_ancestor_self f n c : NoDup (ids f) -> locate_f n f = Some c ->
  q_common_ancestor c c = Some (c_self c).
Proof.
  intros H Hc. unfold q_common_ancestor. cbn [find map existsb]. now rewrite Nat.eqb_refl.
Qed.

(* ------------------------------------------------------------------ *)
(* children / parent are inverse; what a child inherits                 *)
(* ------------------------------------------------------------------ *)
Lemma child_ctx f c x : ctx_ok f c -> In x (rch (c_self c)) ->
  ctx_ok f (c_self c :: c_anc c, rch (c_self c), x).
Proof.
  intros [Hc Hs] Hx. split; [|exact Hx]. unfold c_anc, c_sibs; cbn [fst snd].
  apply (chain_down f (c_self c) (c_anc c) (c_sibs c)); assumption.
Qed.

Theorem child_context f n m c cx : NoDup (ids f) -> locate_f n f = Some c -> locate_f m f = Some cx ->
  In (c_self cx) (q_children c) ->
  c_anc cx = c_self c :: c_anc c /\ c_sibs cx = rch (c_self c).
Proof.
  intros H Hc Hx Hin. destruct (locate_f_ok f n c Hc) as [Hok _]. destruct (locate_f_ok f m cx Hx) as [_ Em].
  pose proof (located_unique f m cx _ H Hx (child_ctx f c (c_self cx) Hok Hin) Em) as E.
  split; [exact (eq_sym (f_equal c_anc E))|exact (eq_sym (f_equal c_sibs E))].
Qed.

Theorem children_parent_inverse f n m c cx : NoDup (ids f) -> locate_f n f = Some c -> locate_f m f = Some cx ->
  (In (c_self cx) (q_children c) <-> q_parent cx = Some (c_self c)).
Proof.
  intros H Hc Hx. split.
  - intros Hin. destruct (child_context f n m c cx H Hc Hx Hin) as [Ea _]. unfold q_parent. now rewrite Ea.
  - intros E. destruct (locate_f_ok f m cx Hx) as [Hok _]. pose proof (parent_child f cx Hok) as P.
    rewrite E in P. unfold q_children. apply P.
Qed.

Lemma flat_map_snoc {X Y} (g : X -> list Y) l x : flat_map g (l ++ [x]) = flat_map g l ++ g x.
Proof. rewrite flat_map_app. cbn. now rewrite app_nil_r. Qed.

Lemma last_error_cons {X} (x : X) l : last_error (x :: l) = match last_error l with Some t => Some t | None => Some x end.
Proof. unfold last_error. cbn [rev]. rewrite hd_error_app. now destruct (rev l). Qed.

Lemma q_path_self c : q_path c true = flat_map (fun t => 47%Z :: i_name (rinfo t)) (rev (c_self c :: c_anc c)).
Proof.
  unfold q_path, q_parent_list. destruct (rev (c_self c :: c_anc c)) eqn:E; [|reflexivity].
  cbn [rev] in E. symmetry in E. now apply app_cons_not_nil in E.
Qed.

Definition node_name (t : rt) : text := i_name (rinfo t).

(* every query of a child, from its parent's *)
Theorem child_laws f n m c cx : NoDup (ids f) -> locate_f n f = Some c -> locate_f m f = Some cx ->
  In (c_self cx) (q_children c) ->
  q_parent cx = Some (c_self c) /\
  q_is_top cx = false /\
  q_depth cx = S (q_depth c) /\
  q_siblings cx true = q_children c /\
  q_first_sibling cx = q_first_child c /\
  q_last_sibling cx = q_last_child c /\
  (q_is_first cx = true <-> q_first_child c = Some (c_self cx)) /\
  (q_is_last cx = true <-> q_last_child c = Some (c_self cx)) /\
  q_parent_list cx false false = q_parent_list c true false /\
  q_path cx false = q_path c true /\
  q_path cx true = q_path c true ++ 47%Z :: node_name (c_self cx) /\
  q_top cx = q_top c /\
  q_up cx 1 = Some (Some (c_self c)) /\
  (forall k, q_up cx (S (S k)) = q_up c (S k)).
Proof.
  intros H Hc Hx Hin. destruct (child_context f n m c cx H Hc Hx Hin) as [Ea Es].
  assert (Hfl : forall t, In t (rch (c_self c)) -> (is_self (rid (c_self cx)) t = true <-> t = c_self cx)).
  { intros t Ht. unfold is_self. rewrite Nat.eqb_eq. split; [|now intros ->].
    destruct (locate_f_ok f n c Hc) as [Hok _]. destruct (locate_f_ok f m cx Hx) as [Hokx _].
    apply (node_unique f); [assumption| |now apply (ctx_self_in_pre f)].
    eapply pre_f_child_closed; [apply (ctx_self_in_pre f c Hok)|assumption]. }
  refine (conj _ (conj _ (conj _ (conj _ (conj _ (conj _ (conj _ (conj _ (conj _ (conj _ (conj _ (conj _ (conj _ _))))))))))))).
  - unfold q_parent. now rewrite Ea.
  - unfold q_is_top. now rewrite Ea.
  - unfold q_depth. now rewrite Ea.
  - unfold q_siblings, q_children. exact Es.
  - unfold q_first_sibling, q_first_child. now rewrite Es.
  - unfold q_last_sibling, q_last_child. now rewrite Es.
  - unfold q_is_first, q_first_child. rewrite Es. destruct (rch (c_self c)) as [|y l] eqn:El; cbn [hd_error].
    + split; discriminate.
    + rewrite (Hfl y (or_introl eq_refl)). split; [now intros ->|intros E; now injection E].
  - unfold q_is_last, q_last_child. rewrite Es. destruct (last_error (rch (c_self c))) as [y|] eqn:El.
    + assert (Hy : In y (rch (c_self c))).
      { unfold last_error in El. apply in_rev. destruct (rev (rch (c_self c))); [discriminate|]. injection El as ->. now left. }
      rewrite (Hfl y Hy). split; [now intros ->|intros E; now injection E].
    + split; discriminate.
  - unfold q_parent_list. now rewrite Ea.
  - unfold q_path, q_parent_list. now rewrite Ea.
  - rewrite !q_path_self, Ea. cbn [rev]. rewrite flat_map_snoc. reflexivity.
  - unfold q_top. rewrite Ea, last_error_cons. now destruct (last_error (c_anc c)).
  - unfold q_up. now rewrite Ea.
  - intros k. unfold q_up. rewrite Ea. reflexivity.
Qed.

(* top-level nodes: the forest itself plays the role of the parent's child list *)
Theorem top_level_laws f m cx : NoDup (ids f) -> locate_f m f = Some cx ->
  (In (c_self cx) f <-> q_parent cx = None) /\
  (q_parent cx = None ->
     q_is_top cx = true /\ q_depth cx = 1 /\ q_siblings cx true = f /\
     q_first_sibling cx = hd_error f /\ q_last_sibling cx = last_error f /\
     q_parent_list cx false false = [] /\ q_path cx false = [47%Z] /\
     q_path cx true = 47%Z :: node_name (c_self cx) /\ q_top cx = c_self cx /\ q_up cx 1 = Some None).
Proof.
  intros H Hx. destruct (locate_f_ok f m cx Hx) as [Hok Em].
  assert (G : q_parent cx = None -> c_anc cx = [] /\ c_sibs cx = f).
  { unfold q_parent. intros E. destruct (c_anc cx) eqn:Ea; [|discriminate]. split; [reflexivity|].
    rewrite (ctx_sibs f cx Hok). now rewrite Ea. }
  split; [split|].
  - intros Hin. assert (Hok' : ctx_ok f ([], f, c_self cx)) by (split; [constructor|exact Hin]).
    pose proof (located_unique f m cx _ H Hx Hok' Em) as E. unfold q_parent. now rewrite <- (f_equal c_anc E).
  - intros E. pose proof (parent_child f cx Hok) as P. rewrite E in P. apply P.
  - intros E. destruct (G E) as [Ea Es].
    refine (conj _ (conj _ (conj _ (conj _ (conj _ (conj _ (conj _ (conj _ (conj _ _))))))))).
    + unfold q_is_top. now rewrite Ea.
    + unfold q_depth. now rewrite Ea.
    + exact Es.
    + unfold q_first_sibling. now rewrite Es.
    + unfold q_last_sibling. now rewrite Es.
    + unfold q_parent_list. now rewrite Ea.
    + unfold q_path, q_parent_list. now rewrite Ea.
    + rewrite q_path_self, Ea. cbn. now rewrite app_nil_r.
    + unfold q_top. now rewrite Ea.
    + unfold q_up. now rewrite Ea.
Qed.

(* leaf / children / first / last child *)
Theorem leaf_laws c :
  (q_is_leaf c = true <-> q_children c = []) /\
  (q_is_leaf c = true <-> q_height c = 0) /\
  (q_is_leaf c = true <-> q_first_child c = None) /\
  q_has_children c = negb (q_is_leaf c) /\
  q_first_child c = hd_error (q_children c) /\
  q_last_child c = last_error (q_children c) /\
  (forall x, q_first_child c = Some x -> In x (q_children c)) /\
  (forall x, q_last_child c = Some x -> In x (q_children c)).
Proof.
  unfold q_is_leaf, q_children, q_height, q_first_child, q_last_child, q_has_children.
  refine (conj _ (conj _ (conj _ (conj eq_refl (conj eq_refl (conj eq_refl (conj _ _))))))).
  - destruct (rch (c_self c)); split; intros; try reflexivity; discriminate.
  - destruct (c_self c) as [id i [|y l]]; cbn [rch height]; split; intros; try reflexivity; discriminate.
  - destruct (rch (c_self c)); split; intros; try reflexivity; discriminate.
  - intros x E. destruct (rch (c_self c)); [discriminate|]. injection E as ->. now left.
  - intros x E. unfold last_error in E. apply in_rev. destruct (rev (rch (c_self c))); [discriminate|]. injection E as ->. now left.
Qed.
