(* Non-vacuity of the renamed-ids round trip: identity-hashed data in a plain tree. *)
From Coq Require Import List ZArith Bool Arith Lia Permutation String.
From NT Require Import Sx Rose ListFacts RoseFacts Serialize SerializeSpec SerDictFacts SerCompressProofs
     SerLayFacts SerWriterProofs SerReaderProofs SerUnflatProofs SerIsoProofs SerializeProofs SerTheorems SerWitness SerIsoRenamed.
From NTGen Require Import Generated.
Import ListNotations.
Open Scope list_scope.

Definition rho_injb (f : forest) (rho : did -> did) : bool :=
  forallb (fun x => forallb (fun y => implb (did_eqb (rho (rdid x)) (rho (rdid y))) (did_eqb (rdid x) (rdid y))) (pre_f f)) (pre_f f).
Lemma rho_injb_sound f rho : rho_injb f rho = true -> rho_inj f rho.
Proof.
  unfold rho_injb. intros H x y Hx Hy E. rewrite forallb_forall in H. specialize (H x Hx). rewrite forallb_forall in H.
  specialize (H y Hy). rewrite E, did_eqb_refl in H. cbn in H. now apply did_eqb_eq.
Qed.

(* plain tree; one identity-hashed object (#1, #3: a clone pair) and another one (#4); rebuilt objects get
   fresh hashes (wdeser false) *)
Definition f_id : forest :=
  [ T 1 (oi 1 77 (t_ "O1") None) [];
    T 2 (si (t_ "y") None) [ T 3 (oi 1 77 (t_ "O1") None) []; T 4 (oi 2 88 (t_ "O2") None) [] ] ].

Lemma f_id_ok : tree_okb CPlain f_id = true. Proof. vm_compute. reflexivity. Qed.
Lemma f_id_rho_inj : rho_injb f_id (rho_of CPlain wser (wdeser false) whash f_id) = true.
Proof. vm_compute. reflexivity. Qed.

(* the ids really change, and the pair stays a pair *)
Lemma f_id_roundtrip :
  match save_doc CPlain wser KTrue VTrue [] f_id with
  | Ok j => match load_doc CPlain (wdeser false) whash j with
            | Ok (_, f') => let ds := map rdid (pre_f f') in
                            nth 0 ds (DInt 0) = nth 2 ds (DInt 1) /\ nth 0 ds (DInt 0) <> DInt 77 /\
                            nth 0 ds (DInt 0) <> nth 3 ds (DInt 0)
            | Err _ => False
            end
  | Err _ => False
  end.
Proof. vm_compute. repeat split; discriminate. Qed.

Lemma f_id_hypotheses :
  tree_ok CPlain f_id /\ opts_ok CPlain wser KTrue VTrue ex_meta f_id /\ mapper_ok CPlain wser (wdeser false) f_id /\
  clones_same_kind f_id /\ rho_inj f_id (rho_of CPlain wser (wdeser false) whash f_id) /\
  ~ id_stable CPlain wser (wdeser false) whash f_id.
Proof.
  destruct (tree_okb_sound CPlain f_id f_id_ok) as (A1 & A2 & A3 & A4 & A5).
  split; [unfold tree_ok; auto|]. split; [apply wopts_ok; auto; apply ex_meta_ok|].
  split; [split; [apply wmappers_ok|apply wmapper_rebuilds]|].
  split; [apply (plain_clones_same_kind CPlain f_id eq_refl A4)|].
  split; [apply rho_injb_sound, f_id_rho_inj|].
  intros [_ H]. specialize (H 1 (T 1 (oi 1 77 (t_ "O1") None) [])).
  assert (Hin : In (T 1 (oi 1 77 (t_ "O1") None) []) (pre_f f_id)) by (cbn; auto).
  specialize (H Hin eq_refl eq_refl). vm_compute in H. discriminate H.
Qed.

(* for the concrete mappers, any data: only conditions on the tree and on the renaming remain *)
Theorem wroundtrip_any_data c b ko vo meta f :
  (ko = KTrue \/ ko = KFalse) -> (vo = VTrue \/ vo = VFalse) -> meta_ok meta ->
  tree_ok c f -> clones_same_kind f -> rho_inj f (rho_of c wser (wdeser b) whash f) ->
  exists j f', save_doc c wser ko vo meta f = Ok j /\
               load_doc c (wdeser b) whash j = Ok (header_spec (resolve_km c ko) (resolve_vm c vo f) meta, f') /\
               iso_upto (rho_of c wser (wdeser b) whash f) f f'.
Proof.
  intros Hko Hvo Hm Ht Hk Hi.
  destruct (roundtrip_any_data c wser (wdeser b) whash f ko vo meta Ht (wopts_ok c ko vo meta f Hko Hvo Hm)
              (conj (wmappers_ok c b f) (wmapper_rebuilds c b f)) Hk Hi) as (j & f' & H1 & H2 & H3 & _).
  eauto.
Qed.

(* ---- side condition "no entry key is a short name of the key map" is necessary (finding D51):
   the reader renames EVERY key that equals a short name, also one the mapper wrote itself.
   Witness: a mapper that stores the hash under "s" (as FileSystemTree's mapper stores the size),
   default key_map of Tree = {"data_id": "i", "str": "s"}. *)
Definition k_s' : text := t_ "s".
Definition sser (i : info) (d : dict) : dict := d ++ [(k_n, JStr (i_name i)); (k_s', JInt (i_hash i))].
Definition sdeser (idx : nat) (d : dict) : res dval :=
  match dget k_n d, dget k_s' d with
  | Some (JStr n), Some (JInt h) => Ok (DV false n h)
  | _, _ => Err EKey
  end.
Definition f_s : forest := [ T 1 (oi 1 77 (t_ "O1") None) [] ].

(* opts_ok without the short-name clause *)
Definition opts_ok_weak (c : cls) (ser : info -> dict -> dict) (ko : kopt) (vo : vopt) (meta : dict) (f : forest) : Prop :=
  km_ok (resolve_km c ko) /\
  (forall t, In t (pre_f f) -> bare_str c (rinfo t) = false ->
     NoDup (keys (ser (rinfo t) (entry_dict c (rinfo t)))) /\
     (forall k v a, In (k, v) (ser (rinfo t) (entry_dict c (rinfo t))) -> assoc_t k (resolve_vm c vo f) = Some a ->
                    exists s n, v = JStr s /\ last_index s a = Some n)) /\
  meta_ok meta.

Definition roundtrip_without_short_name_clause : Prop :=
  forall c ser deser shash ko vo meta f,
    tree_ok c f -> opts_ok_weak c ser ko vo meta f -> mapper_ok c ser deser f -> id_stable c ser deser shash f ->
    exists j md f', save_doc c ser ko vo meta f = Ok j /\ load_doc c deser shash j = Ok (md, f').

Lemma f_s_ok : tree_okb CPlain f_s = true. Proof. vm_compute. reflexivity. Qed.

Theorem roundtrip_without_short_name_clause_refuted : ~ roundtrip_without_short_name_clause.
Proof.
  intros H. destruct (tree_okb_sound CPlain f_s f_s_ok) as (A1 & A2 & A3 & A4 & A5).
  assert (Hm : meta_ok []) by (split; [constructor|intros k []]).
  assert (Hin : forall t, In t (pre_f f_s) -> t = T 1 (oi 1 77 (t_ "O1") None) []).
  { intros t [<-|[]]. reflexivity. }
  assert (Hnd : NoDup (keys (sser (oi 1 77 (t_ "O1") None) (entry_dict CPlain (oi 1 77 (t_ "O1") None))))).
  { apply (nodupb_sound text_eqb text_eqb_refl). vm_compute. reflexivity. }
  destruct (H CPlain sser sdeser whash KTrue VTrue [] f_s) as (j & md & f' & Hs & Hl).
  - unfold tree_ok; auto.
  - split; [apply default_km_ok|]. split; [|exact Hm]. intros t Ht _. rewrite (Hin t Ht). split; [exact Hnd|].
    intros k v a _ E. vm_compute in E. discriminate E.
  - split; [split; [|split]|].
    + intros t Ht. rewrite (Hin t Ht). cbn zeta. split; [exact Hnd|]. split; vm_compute; reflexivity.
    + intros idx t Ht _. rewrite (Hin t Ht). eexists. vm_compute. reflexivity.
    + intros idx t d' Ht Hp. rewrite (Hin t Ht) in *. unfold sdeser.
      now rewrite !(dget_perm _ _ _ Hnd (Permutation_sym Hp)).
    + intros p t Ht _. rewrite (Hin t Ht). cbn zeta. vm_compute. split; reflexivity.
  - split.
    + intros t Ht Hb. rewrite (Hin t Ht) in Hb. vm_compute in Hb. discriminate Hb.
    + intros p t Ht _ _. rewrite (Hin t Ht). vm_compute. reflexivity.
  - vm_compute in Hs. injection Hs as <-. vm_compute in Hl. discriminate Hl.
Qed.

(* what happens: the document is written, the reader turns the mapper's "s" into "str" *)
Lemma d51_witness :
  exists j, save_doc CPlain sser KTrue VTrue [] f_s = Ok j /\ load_doc CPlain sdeser whash j = Err EKey.
Proof. eexists. split; vm_compute; reflexivity. Qed.

(* ---- statements used verbatim by Properties/C12.v and C05.v *)
Lemma to_list_iter_layout_ok c ser km vm f :
  ids_ok f -> km_ok km -> entries_ok c ser km vm f ->
  to_list_iter c ser km vm f = Ok (layout c ser km vm f).
Proof.
  intros Hids Hkm Hent. apply SerWriterProofs.to_list_iter_layout; [exact Hids|].
  intros t Ht. apply SerWriterProofs.full_data_spec; [exact Hkm|]. intros Eb. now apply Hent.
Qed.

Lemma shortening_as_declared km vm d :
  km_ok km -> dict_ok km vm d ->
  compress_dict km vm d = Ok (short_dict km vm d) /\
  uncompress_dict (ikm_of km) (vmj_of vm) (short_dict km vm d) = Ok (canon_dict km d) /\
  Permutation (canon_dict km d) d.
Proof.
  intros Hkm Hd. split; [now apply compress_dict_short|]. split; [now apply uncompress_short|apply canon_perm].
Qed.

Lemma generated_tables :
  FILE_FORMAT_VERSION = t_ "1.0" /\
  TREE_KEY_MAP = [(t_ "data_id", t_ "i"); (t_ "str", t_ "s")] /\
  TYPED_KEY_MAP = [(t_ "data_id", t_ "i"); (t_ "str", t_ "s"); (t_ "kind", t_ "k")] /\
  FS_KEY_MAP = [] /\ TREE_VALUE_MAP = [] /\ TYPED_VALUE_MAP = [] /\
  DEFAULT_CHILD_TYPE = t_ "child" /\
  (forall c, km_ok (default_key_map c)).
Proof. repeat split; try reflexivity; apply default_km_ok. Qed.

Lemma iso_meaning f f' : iso f f' -> map erase f = map erase f' /\ map rdid (pre_f f) = map rdid (pre_f f').
Proof. intros H. split; [exact H|now apply iso_dids]. Qed.
