(* C09 — the regular expressions of Node._search, as syntax.
     node.py  _search:  isinstance(match, str)          -> re.compile(match).fullmatch(node.name)
                        isinstance(match, (list,tuple)) -> re.compile(match[0], flags=match[1]).fullmatch(node.name)
                        callable(match)                 -> match(node)
                        otherwise                       -> node._data is match
   The pattern is an abstract syntax tree (what `re`'s parser makes of the pattern
   string; the harness renders the string FROM this tree and hands it to the real
   `re`).  [fullmatchb] decides whether the WHOLE name is in the language of the
   pattern, by Brzozowski derivatives; [prefix_matchb] is `re.match` (some prefix).
   Executable definitions only; the denotational semantics and the proofs are in
   RegexProofs.v.
   Covered syntax: literals, `.`, sets / ranges / negated sets, \d (ASCII digits),
   concatenation, `|`, `*`, `+`, `?`, (?:...) grouping.  Flags: IGNORECASE on ASCII
   letters.  Outside: other flags, anchors, counted repetition, lazy / possessive
   operators, back-references, look-around, Unicode case folding and digit classes
   (such patterns stay on the truth-table path [MsRe m]). *)
From Coq Require Import List ZArith Bool.
From NT Require Import Sx Rose Search.
Import ListNotations.
Local Open Scope Z_scope.

Inductive regex :=
| REmpty                                     (* no string (arises from derivatives only) *)
| REps                                       (* the empty pattern *)
| RCls (neg : bool) (ranges : list (Z * Z))  (* one character: [..], [^..], a literal, \d, `.` *)
| RCat (a b : regex)
| RAlt (a b : regex)
| RStar (a : regex).

Definition RChr (c : Z) : regex := RCls false [(c, c)].
Definition RAny : regex := RCls true [(10, 10)].          (* `.`: anything but a newline *)
Definition RDigit : regex := RCls false [(48, 57)].       (* \d on ASCII *)
Definition RPlus (a : regex) : regex := RCat a (RStar a). (* a+ *)
Definition ROpt (a : regex) : regex := RAlt a REps.       (* a? *)

Definition in_ranges (c : Z) (rs : list (Z * Z)) : bool :=
  existsb (fun r => (fst r <=? c) && (c <=? snd r)) rs.
Definition lower (c : Z) : Z := if (65 <=? c) && (c <=? 90) then c + 32 else c.
Definition upper (c : Z) : Z := if (97 <=? c) && (c <=? 122) then c - 32 else c.

(* does character c match the class, under IGNORECASE (ic) or not *)
Definition cls_match (ic neg : bool) (rs : list (Z * Z)) (c : Z) : bool :=
  xorb neg (in_ranges c rs || (ic && (in_ranges (lower c) rs || in_ranges (upper c) rs))).

Fixpoint nullable (r : regex) : bool :=
  match r with
  | REmpty => false
  | REps => true
  | RCls _ _ => false
  | RCat a b => nullable a && nullable b
  | RAlt a b => nullable a || nullable b
  | RStar _ => true
  end.

Fixpoint deriv (ic : bool) (c : Z) (r : regex) : regex :=
  match r with
  | REmpty | REps => REmpty
  | RCls neg rs => if cls_match ic neg rs c then REps else REmpty
  | RCat a b => if nullable a then RAlt (RCat (deriv ic c a) b) (deriv ic c b) else RCat (deriv ic c a) b
  | RAlt a b => RAlt (deriv ic c a) (deriv ic c b)
  | RStar a => RCat (deriv ic c a) (RStar a)
  end.

(* pattern.fullmatch(s) is not None *)
Fixpoint fullmatchb (ic : bool) (r : regex) (s : text) : bool :=
  match s with
  | [] => nullable r
  | c :: s' => fullmatchb ic (deriv ic c r) s'
  end.

(* pattern.match(s) is not None: some prefix of s is matched *)
Fixpoint prefix_matchb (ic : bool) (r : regex) (s : text) : bool :=
  nullable r || match s with [] => false | c :: s' => prefix_matchb ic (deriv ic c r) s' end.

(* ---- the isinstance dispatch of Node._search ------------------------------ *)
Inductive match_arg :=
| MaStr (r : regex)                       (* a str: compiled without flags *)
| MaSeq (r : regex) (ignorecase : bool)   (* (str, flags) or [str, flags] *)
| MaCall (p : rt -> bool)                 (* a callable *)
| MaObj (o : Z).                          (* any other object: identity of the data *)

Definition search_dispatch (a : match_arg) : matchspec :=
  match a with
  | MaStr r => MsRe (fullmatchb false r)
  | MaSeq r ic => MsRe (fullmatchb ic r)
  | MaCall p => MsPred p
  | MaObj o => MsIs o
  end.
