(* Executable model of nutree/tree_generator.py (build_random_tree).

   Mirrors the Python code function by function:
     Randomizer._skip_value, <X>Randomizer.generate      -> skip_value, gen
     _resolve_random, _resolve_random_dict               -> resolve_count, resolve_dict
     :callback / :factory                                -> cb_of, apply_cb, fac_of
     the asserts of the Randomizer constructors          -> ctor_ok
     _merge_specs                                        -> merge_specs
     _make_tree                                          -> make_tree (explicit fuel)
     build_random_tree                                   -> build_random_tree

   The global [random] module is an explicit STREAM of draws, consumed in the
   same order as the code calls random.random / randrange / uniform / sample
   (and fabulist, an oracle that returns arbitrary text).  One stream element
   serves one call, whatever the call is:
     random()          = (dn mod dd) / dd                      in [0,1)
     randrange(a, b)   = a + dn mod (b - a)                    in [a,b)
     uniform(a, b)     = a + (b - a) * random()                (CPython's formula)
     sample(l,1,counts)= element at index dn mod total of the expanded population
     fab.get_quote / get_lorem_paragraph = dt (arbitrary text, may contain macros)
   An exhausted stream answers the default draw, so every function is total and
   the theorems quantify over EVERY stream.

   Python strings are templates [Lit s | Idx | HierIdx] (the harness tokenises
   the real strings with string.Formatter); floats are exact rationals.
   No proofs here. *)
From Coq Require Import List ZArith Bool Arith QArith Qreduction.
From NT Require Import Sx Rose.
Import ListNotations.
Open Scope Z_scope.

(* ------------------------------------------------------------------ values *)
Inductive tok := Lit (s : text) | Idx | HierIdx | IdxPad (w : nat).   (* "{idx:0<w>d}" *)
Definition tmpl := list tok.

Inductive value :=
| VNone
| VBool (b : bool)
| VInt (z : Z)
| VFlt (q : Q)          (* float, exact rational *)
| VStr (t : tmpl)       (* str; a resolved string is [VStr [Lit s]] *)
| VDate (ord : Z)       (* datetime.date, proleptic ordinal *)
| VFac (n : Z)          (* a node-data class: 0 = DictWrapper, n > 0 = classes of the harness *)
| VCbSet (k : text) (z : Z)   (* a callback: lambda data: data.__setitem__(k, z) *)
| VCbDel (k : text).          (* a callback: lambda data: data.pop(k, None) *)

Definition mkQ (n d : Z) : Q := Qmake n (Z.to_pos d).

(* ------------------------------------------------------------- randomizers *)
Inductive rnd :=
| RRangeI (lo hi : Z) (p : Q) (none : value)       (* RangeRandomizer on ints   *)
| RRangeF (lo hi : Q) (p : Q) (none : value)       (* RangeRandomizer on floats *)
| RDate (min days : Z) (stamp : bool) (p : Q)      (* DateRangeRandomizer       *)
| RValue (v : value) (p : Q)                       (* Value-/SparseBoolRandomizer *)
| RSample (vals : list value) (counts : option (list Z)) (p : Q)
| RText (arg : tmpl) (p : Q).
    (* Text-/BlindTextRandomizer.  [arg] = the declared arguments (template / sentence_count, dialect,
       entropy, keep_first, words_per_sentence) as the call to fabulist carries them.  fabulist itself
       is an ORACLE: it answers its arguments' echo followed by arbitrary text taken from the stream
       (the harness's stand-in, and its wrapper around the real fabulist, prefix the answer with the
       arguments they were called with), so passing other arguments than the declared ones is visible *)

Inductive sval := SV (v : value) | SR (r : rnd).
Definition spec := list (text * sval).              (* a Python dict, insertion order *)

Record sdef := SD {
  d_name  : option text;
  d_types : list (text * spec);
  d_rels  : list (text * list (text * spec)) }.

(* ------------------------------------------------------------------ stream *)
Record draw := D { dn : Z; dd : Z; dt : tmpl }.
Definition stream := list draw.
Definition default_draw : draw := D 0 1 [].

Definition next (s : stream) : draw * stream :=
  match s with [] => (default_draw, []) | d :: s' => (d, s') end.

Definition rand01 (d : draw) : Q :=
  let den := Z.to_pos (dd d) in Qmake (dn d mod Zpos den) den.
Definition randrange (lo hi : Z) (d : draw) : Z := lo + dn d mod (hi - lo).
Definition uniform (lo hi : Q) (d : draw) : Q := Qred (lo + (hi - lo) * rand01 d)%Q.

Fixpoint pick (vals : list value) (cnts : list Z) (k : Z) : value :=
  match vals, cnts with
  | v :: vs, c :: cs => if k <? c then v else pick vs cs (k - c)
  | _, _ => VNone
  end.
Definition counts_of (vals : list value) (counts : option (list Z)) : list Z :=
  match counts with Some c => c | None => map (fun _ => 1) vals end.
Definition total (cnts : list Z) : Z := fold_right Z.add 0 cnts.
Definition sample (vals : list value) (counts : option (list Z)) (d : draw) : value :=
  let cnts := counts_of vals counts in pick vals cnts (dn d mod total cnts).

(* Randomizer._skip_value (after repair D60: [<] instead of [<=], so that
   probability 0.0 never generates):
     use = self.probability == 1.0 or random.random() < self.probability
     return not use *)
Definition skip_value (p : Q) (s : stream) : bool * stream :=
  if Qeq_bool p 1%Q then (false, s)
  else let (d, s1) := next s in (Qle_bool p (rand01 d), s1).

Definition EPOCH_ORD : Z := 719163.          (* date(1970,1,1).toordinal() *)
Definition MS_PER_DAY : Z := 86400000.
(* stamp_ms = (dt_utc.timestamp() + ONE_DAY_SEC) * 1000.0 *)
Definition js_stamp (ord : Z) : Q := inject_Z ((ord - EPOCH_ORD + 1) * MS_PER_DAY).

(* <X>Randomizer.generate *)
Definition gen (r : rnd) (s : stream) : value * stream :=
  match r with
  | RRangeI lo hi p none =>
      let (sk, s1) := skip_value p s in
      if sk then (none, s1) else let (d, s2) := next s1 in (VInt (randrange lo hi d), s2)
  | RRangeF lo hi p none =>
      let (sk, s1) := skip_value p s in
      if sk then (none, s1) else let (d, s2) := next s1 in (VFlt (uniform lo hi d), s2)
  | RDate mn days stamp p =>
      let (sk, s1) := skip_value p s in
      if sk then (VNone, s1)
      else let (d, s2) := next s1 in
           let res := mn + randrange 0 days d in
           (if stamp then VFlt (js_stamp res) else VDate res, s2)
  | RValue v p =>
      let (sk, s1) := skip_value p s in if sk then (VNone, s1) else (v, s1)
  | RSample vals counts p =>
      let (sk, s1) := skip_value p s in
      if sk then (VNone, s1) else let (d, s2) := next s1 in (sample vals counts d, s2)
  | RText arg p =>
      let (sk, s1) := skip_value p s in
      if sk then (VNone, s1) else let (d, s2) := next s1 in (VStr (arg ++ dt d), s2)
  end.

(* ------------------------------------------------------ str(int), format() *)
Fixpoint dec_aux (fuel n : nat) (acc : text) : text :=
  match fuel with
  | O => acc
  | S f => let d := (Z.of_nat (Nat.modulo n 10) + 48)%Z in
           if (n <? 10)%nat then d :: acc else dec_aux f (Nat.div n 10) (d :: acc)
  end.
Definition dec (n : nat) : text := dec_aux (S n) n [].

Definition DOT : Z := 46.
(* p = f"{prefix}.{i}" if prefix else f"{i}" *)
Definition hier (prefix : text) (i : nat) : text :=
  match prefix with [] => dec i | _ => prefix ++ DOT :: dec i end.

(* val.format(idx=i, hier_idx=p) *)
(* format(i, "0<w>d"): zero-padded to width w *)
Definition pad (w : nat) (t : text) : text := repeat 48 (w - length t)%nat ++ t.
Definition render (t : tmpl) (i : nat) (p : text) : text :=
  flat_map (fun k => match k with Lit s => s | Idx => dec i | HierIdx => p | IdxPad w => pad w (dec i) end) t.
Definition expand (i : nat) (p : text) (v : value) : value :=
  match v with VStr t => VStr [Lit (render t i p)] | _ => v end.

(* ------------------------------------------------------------ dictionaries *)
Fixpoint lookup {X} (k : text) (l : list (text * X)) : option X :=
  match l with
  | [] => None
  | (k', x) :: l' => if text_eqb k k' then Some x else lookup k l'
  end.
Definition mem {X} (k : text) (l : list (text * X)) : bool :=
  match lookup k l with Some _ => true | None => false end.
(* d[k] = v *)
Fixpoint upd {X} (l : list (text * X)) (k : text) (v : X) : list (text * X) :=
  match l with
  | [] => [(k, v)]
  | (k', v') :: l' => if text_eqb k k' then (k', v) :: l' else (k', v') :: upd l' k v
  end.
(* a.update(b) *)
Definition update {X} (a b : list (text * X)) : list (text * X) :=
  fold_left (fun acc kv => upd acc (fst kv) (snd kv)) b a.
(* d.pop(k, default) – the remaining dict *)
Definition remove_key {X} (k : text) (l : list (text * X)) : list (text * X) :=
  filter (fun kv => negb (text_eqb k (fst kv))) l.

Definition K_count : text := [58; 99; 111; 117; 110; 116].                (* ":count"    *)
Definition K_callback : text := [58; 99; 97; 108; 108; 98; 97; 99; 107].  (* ":callback" *)
Definition K_factory : text := [58; 102; 97; 99; 116; 111; 114; 121].     (* ":factory"  *)
Definition K_star : text := [42].                                         (* "*"         *)
Definition K_root : text := [95; 95; 114; 111; 111; 116; 95; 95].         (* "__root__"  *)

Definition getd (k : text) (l : list (text * spec)) : spec :=
  match lookup k l with Some x => x | None => [] end.

(* def _merge_specs(node_type, spec, types):
       res = types.get("*", {}).copy(); res.update(types.get(node_type, {})); res.update(spec) *)
Definition merge_specs (nt : text) (sp : spec) (types : list (text * spec)) : spec :=
  update (update (getd K_star types) (getd nt types)) sp.

(* the three pops *)
Definition strip (m : spec) : spec :=
  remove_key K_factory (remove_key K_callback (remove_key K_count m)).

(* range(count): ints (negative = empty), True = 1; everything falsy is 0
   ([count = _resolve_random(count) or 0]).  Other types raise TypeError in
   range() – outside the modelled domain. *)
Definition count_of (v : value) : nat :=
  match v with VInt z => Z.to_nat z | VBool true => 1%nat | _ => 0%nat end.

(* callback = spec.pop(":callback", None) ... if callback: callback(data) *)
Inductive callback := CbNone | CbSet (k : text) (z : Z) | CbDel (k : text).
Definition cb_of (c : option sval) : callback :=
  match c with
  | Some (SV (VCbSet k z)) => CbSet k z
  | Some (SV (VCbDel k)) => CbDel k
  | _ => CbNone                       (* absent / None; other values are outside the domain *)
  end.
Definition apply_cb (cb : callback) (data : list (text * value)) : list (text * value) :=
  match cb with
  | CbNone => data
  | CbSet k z => upd data k (VInt z)
  | CbDel k => remove_key k data
  end.
(* factory = spec.pop(":factory", DictWrapper) *)
Definition fac_of (c : option sval) : Z :=
  match c with Some (SV (VFac n)) => n | _ => 0 end.

(* range(count) accepts ints and bools; everything falsy became 0 before ([... or 0]: None, 0.0, "");
   any other value – a non-zero float, a non-empty str, a date, a class, a function – makes
   range() raise TypeError *)
Definition countable (v : value) : bool :=
  match v with
  | VNone | VBool _ | VInt _ => true
  | VFlt q => Qeq_bool q 0%Q
  | VStr t => forallb (fun k => match k with Lit [] => true | _ => false end) t
  | _ => false
  end.
Definition count_err (c : option sval) (s : stream) : bool :=
  match c with
  | None => false
  | Some (SV v) => negb (countable v)
  | Some (SR r) => negb (countable (fst (gen r s)))
  end.

(* count = spec.pop(":count", 1); count = _resolve_random(count) or 0 *)
Definition resolve_count (c : option sval) (s : stream) : nat * stream :=
  match c with
  | None => (1%nat, s)
  | Some (SV v) => (count_of v, s)
  | Some (SR r) => let (v, s1) := gen r s in (count_of v, s1)
  end.

(* def _resolve_random_dict(d, *, macros): in key order: generate, drop on None,
   then format() every str (generated ones as well) *)
Fixpoint resolve_dict (d : spec) (i : nat) (p : text) (s : stream)
  : list (text * value) * stream :=
  match d with
  | [] => ([], s)
  | (k, sv) :: d' =>
      let (ov, s1) := match sv with
                      | SV v => (Some v, s)
                      | SR r => let (v, s1) := gen r s in
                                (match v with VNone => None | _ => Some v end, s1)
                      end in
      let (rest, s2) := resolve_dict d' i p s1 in
      (match ov with None => rest | Some v => (k, expand i p v) :: rest end, s2)
  end.

(* ------------------------------------------------------------- the builder *)
(* a generated node: its type (the relation key = kind in a TypedTree), the
   content of its DictWrapper, its children *)
Inductive gt := G (ty : text) (fac : Z) (attrs : list (text * value)) (ch : list gt).
Definition g_type (t : gt) := match t with G ty _ _ _ => ty end.
Definition g_fac (t : gt) := match t with G _ f _ _ => f end.
Definition g_attrs (t : gt) := match t with G _ _ a _ => a end.
Definition g_ch (t : gt) := match t with G _ _ _ ch => ch end.

(* a [for] loop threading the stream *)
Fixpoint smap {X Y} (f : X -> stream -> Y * stream) (l : list X) (s : stream)
  : list Y * stream :=
  match l with
  | [] => ([], s)
  | x :: l' => let (y, s1) := f x s in let (ys, s2) := smap f l' s1 in (y :: ys, s2)
  end.

Section Build.
  Variable Df : sdef.
  Let types := d_types Df.
  Let rels := d_rels Df.

  (* one child of relation [nt] (merged, stripped spec [attrs]) with 1-based index i *)
  Definition make_node (rec : text -> text -> stream -> list gt * stream)
             (nt : text) (cb : callback) (fac : Z) (attrs : spec) (prefix : text) (i : nat) (s : stream)
    : gt * stream :=
    let p := hier prefix i in
    let (data, s2) := resolve_dict attrs i p s in
    let data := apply_cb cb data in                      (* if callback: callback(data) *)
    let (ch, s3) := if mem nt rels then rec nt p s2 else ([], s2) in
    (G nt fac data ch, s3).                              (* node_data = factory(data as keywords) *)

  (* the trace of a TypeError raised by range(count): the whole build fails (see [raised]) *)
  Definition err_node (nt : text) : gt := G nt (-1) [] [].

  (* one relation: for node_type, spec in child_specs.items() *)
  Definition make_group (rec : text -> text -> stream -> list gt * stream)
             (prefix : text) (e : text * spec) (s : stream) : list gt * stream :=
    let m := merge_specs (fst e) (snd e) types in
    if count_err (lookup K_count m) s then ([err_node (fst e)], s)      (* for i in range(count): TypeError *)
    else
    let (cnt, s1) := resolve_count (lookup K_count m) s in
    smap (make_node rec (fst e) (cb_of (lookup K_callback m)) (fac_of (lookup K_factory m)) (strip m) prefix)
         (seq 1%nat cnt) s1.

  Fixpoint make_tree (fuel : nat) (ptype : text) (prefix : text) (s : stream)
    : list gt * stream :=
    match fuel with
    | O => ([], s)
    | S fuel' =>
        match lookup ptype rels with
        | None => ([], s)                          (* KeyError: never reached *)
        | Some cs =>
            let (groups, s') := smap (make_group (make_tree fuel') prefix) cs s in
            (concat groups, s')
        end
    end.

  (* build_random_tree(tree_class, structure_def): class, name, top nodes *)
  Definition build_random_tree (typed : bool) (fuel : nat) (s : stream)
    : bool * option text * list gt :=
    (typed, d_name Df, fst (make_tree fuel K_root [] s)).

  (* tree_class(name=name, forward_attrs=True) *)
  Definition forward_attrs : bool := true.

  (* assert "__root__" in relations *)
  Definition def_accepted : bool := mem K_root rels.
End Build.

(* did range(count) raise somewhere?  (then build_random_tree raises TypeError and returns nothing) *)
Fixpoint raised (t : gt) : bool :=
  match t with G _ fac _ ch => (fac =? -1) || existsb raised ch end.

(* node.kind of the generated nodes: the type name in a TypedTree, none in a Tree *)
Definition kind_of (typed : bool) (t : gt) : option text :=
  if typed then Some (g_type t) else None.

Fixpoint g_size (t : gt) : nat := match t with G _ _ _ ch => S (list_sum (map g_size ch)) end.
Fixpoint g_height (t : gt) : nat :=
  match t with G _ _ _ ch => S (list_max (map g_height ch)) end.

(* what the Randomizer constructors accept (their asserts):
     0.0 <= probability <= 1.0; RangeRandomizer: max > min; DateRangeRandomizer: max_dt > min_dt *)
Definition ctor_ok (r : rnd) : bool :=
  let pok p := Qle_bool 0%Q p && Qle_bool p 1%Q in
  match r with
  | RRangeI lo hi p _ => pok p && (lo <? hi)
  | RRangeF lo hi p _ => pok p && negb (Qle_bool hi lo)
  | RDate _ days _ p => pok p && (0 <? days)
  | RValue _ p | RSample _ _ p | RText _ p => pok p
  end.
