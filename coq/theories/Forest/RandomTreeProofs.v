(* Specification of build_random_tree (independent of the stream) and the
   proofs that the model of RandomTree.v meets it for EVERY stream. *)
From Coq Require Import List ZArith Bool Arith Lia QArith Qreduction Lqa.
From NT Require Import Sx Rose RandomTree.
Import ListNotations.
Open Scope Z_scope.

(* ------------------------------------------------------------------------ *)
(* draws                                                                     *)
(* ------------------------------------------------------------------------ *)
Lemma rand01_range d : (0 <= rand01 d)%Q /\ (rand01 d < 1)%Q.
Proof.
  unfold rand01. set (den := Z.to_pos (dd d)).
  assert (B : 0 <= dn d mod Zpos den < Zpos den) by (apply Z.mod_pos_bound; reflexivity).
  split.
  - unfold Qle. cbn [Qnum Qden]. lia.
  - unfold Qlt. cbn [Qnum Qden]. lia.
Qed.

Lemma randrange_range lo hi d : lo < hi -> lo <= randrange lo hi d < hi.
Proof.
  intros Hlt. unfold randrange.
  assert (B : 0 <= dn d mod (hi - lo) < hi - lo) by (apply Z.mod_pos_bound; lia).
  lia.
Qed.

Lemma uniform_range lo hi d : (lo < hi)%Q -> (lo <= uniform lo hi d)%Q /\ (uniform lo hi d < hi)%Q.
Proof.
  intros Hlt. unfold uniform. rewrite Qred_correct.
  destruct (rand01_range d) as [H0 H1].
  set (r := rand01 d) in *. set (w := (hi - lo)%Q).
  assert (Hw : (0 < w)%Q) by (unfold w; lra).
  assert (A : (0 <= w * r)%Q) by (apply Qmult_le_0_compat; [apply Qlt_le_weak; exact Hw | exact H0]).
  assert (B : (w * r < w * 1)%Q) by (apply Qmult_lt_l; assumption).
  unfold w in *. split; lra.
Qed.

Lemma total_nonneg cnts : Forall (fun x => 0 <= x) cnts -> 0 <= total cnts.
Proof. induction 1 as [|x l Hx Hl IH]; [cbn; lia|]. change (total (x :: l)) with (x + total l). lia. Qed.

Lemma pick_in : forall vals cnts k,
  length cnts = length vals -> Forall (fun x => 0 <= x) cnts -> 0 <= k < total cnts ->
  exists c, In (pick vals cnts k, c) (combine vals cnts) /\ 0 < c.
Proof.
  induction vals as [|v vs IH]; intros [|c cs] k Hlen Hnn Hk; cbn [length] in Hlen; try discriminate.
  - cbn [total fold_right] in Hk. lia.
  - cbn [pick combine]. inversion Hnn as [|x l Hc Hcs]; subst.
    cbn [total fold_right] in Hk. fold (total cs) in Hk.
    destruct (k <? c) eqn:E.
    + apply Z.ltb_lt in E. exists c. split; [left; reflexivity | lia].
    + apply Z.ltb_ge in E.
      destruct (IH cs (k - c)) as [c' [Hin Hpos]]; [lia | exact Hcs | lia |].
      exists c'. split; [right; exact Hin | exact Hpos].
Qed.

(* ------------------------------------------------------------------------ *)
(* randomizers: declared ranges (no stream in the statement)                 *)
(* ------------------------------------------------------------------------ *)
(* what the constructors assert *)
Definition rnd_wf (r : rnd) : Prop :=
  match r with
  | RRangeI lo hi _ _ => lo < hi
  | RRangeF lo hi _ _ => (lo < hi)%Q
  | RDate _ days _ _ => 0 < days
  | RValue _ _ => True
  | RSample vals counts _ =>
      let c := counts_of vals counts in
      length c = length vals /\ Forall (fun x => 0 <= x) c /\ 0 < total c
  | RText _ => True
  end.

Definition prob_of (r : rnd) : Q :=
  match r with
  | RRangeI _ _ p _ | RRangeF _ _ p _ | RDate _ _ _ p | RValue _ p | RSample _ _ p | RText p => p
  end.
(* what generate() answers when the value is skipped *)
Definition none_of (r : rnd) : value :=
  match r with RRangeI _ _ _ n | RRangeF _ _ _ n => n | _ => VNone end.

(* the declared range of a randomizer *)
Definition in_range (r : rnd) (raw : value) : Prop :=
  match r with
  | RRangeI lo hi _ _ => exists z, raw = VInt z /\ lo <= z < hi
  | RRangeF lo hi _ _ => exists q, raw = VFlt q /\ (lo <= q)%Q /\ (q < hi)%Q
  | RDate mn days stamp _ =>
      exists k, 0 <= k < days /\ raw = if stamp then VFlt (js_stamp (mn + k)) else VDate (mn + k)
  | RValue v _ => raw = v
  | RSample vals counts _ =>
      exists c, In (raw, c) (combine vals (counts_of vals counts)) /\ 0 < c
  | RText _ => exists t, raw = VStr t
  end.

(* the values randomizer r may answer: inside the declared range – unless its
   probability is 0.0 – or the none value – unless its probability is 1.0 *)
Definition rnd_may (r : rnd) (raw : value) : Prop :=
  (~ (prob_of r == 0)%Q /\ in_range r raw) \/ (~ (prob_of r == 1)%Q /\ raw = none_of r).

Lemma skip_true p s : fst (skip_value p s) = true -> ~ (p == 1)%Q.
Proof.
  unfold skip_value. destruct (Qeq_bool p 1) eqn:E.
  - cbn [fst]. discriminate.
  - intros _. apply Qeq_bool_neq. exact E.
Qed.

Lemma skip_false p s : fst (skip_value p s) = false -> ~ (p == 0)%Q.
Proof.
  unfold skip_value. destruct (Qeq_bool p 1) eqn:E.
  - intros _ H0. apply Qeq_bool_iff in E. rewrite H0 in E. discriminate E.
  - destruct (next s) as [d s1]. cbn [fst]. intros Hle H0.
    destruct (rand01_range d) as [Hr _].
    assert (Hle' : (p <= rand01 d)%Q) by (rewrite H0; exact Hr).
    apply Qle_bool_iff in Hle'. congruence.
Qed.

(* the drawn value, once the skip test has passed *)
Lemma gen_may r s : rnd_wf r -> rnd_may r (fst (gen r s)).
Proof.
  intros Hwf. unfold rnd_may.
  destruct r as [lo hi p none | lo hi p none | mn days stamp p | v p | vals counts p | p];
    cbn [rnd_wf prob_of none_of in_range gen] in *;
    pose proof (skip_true p s) as Hsk; pose proof (skip_false p s) as Hns;
    destruct (skip_value p s) as [sk s1]; cbn [fst] in Hsk, Hns;
    (destruct sk; [right; split; [apply Hsk; reflexivity | reflexivity] | left; split; [apply Hns; reflexivity|]]).
  - destruct (next s1) as [d s2]. cbn [fst]. exists (randrange lo hi d).
    split; [reflexivity | apply randrange_range; exact Hwf].
  - destruct (next s1) as [d s2]. cbn [fst]. exists (uniform lo hi d).
    split; [reflexivity | apply uniform_range; exact Hwf].
  - destruct (next s1) as [d s2]. cbn [fst]. exists (randrange 0 days d).
    split; [pose proof (randrange_range 0 days d Hwf); lia | reflexivity].
  - reflexivity.
  - destruct (next s1) as [d s2]. cbn [fst].
    destruct Hwf as [Hlen [Hnn Htot]]. unfold sample.
    apply pick_in; [exact Hlen | exact Hnn | apply Z.mod_pos_bound; exact Htot].
  - destruct (next s1) as [d s2]. cbn [fst]. exists (dt d). reflexivity.
Qed.

(* stream-aware: a randomizer whose probability is not 1.0 consumes one draw
   u = random(); if u >= probability the none value is answered and nothing else
   is consumed; probability 1.0 consumes no draw for the test *)
Lemma gen_skipped r s :
  ~ (prob_of r == 1)%Q -> (prob_of r <= rand01 (fst (next s)))%Q ->
  gen r s = (none_of r, snd (next s)).
Proof.
  intros Hp Hu.
  assert (E : skip_value (prob_of r) s = (true, snd (next s))).
  { unfold skip_value. destruct (Qeq_bool (prob_of r) 1) eqn:E1.
    - exfalso. apply Hp. apply Qeq_bool_eq. exact E1.
    - destruct (next s) as [d s1]. cbn [fst snd] in *.
      apply Qle_bool_iff in Hu. rewrite Hu. reflexivity. }
  destruct r; cbn [prob_of none_of gen] in *; rewrite E; reflexivity.
Qed.

(* probability 0.0: always the none value, for every stream (D60) *)
Lemma gen_prob_zero r s : (prob_of r == 0)%Q -> gen r s = (none_of r, snd (next s)).
Proof.
  intros H0. apply gen_skipped.
  - intros H1. rewrite H0 in H1. discriminate H1.
  - rewrite H0. apply (rand01_range (fst (next s))).
Qed.

Lemma skip_value_used p s :
  (p == 1)%Q \/ (rand01 (fst (next s)) < p)%Q -> fst (skip_value p s) = false.
Proof.
  intros H. unfold skip_value. destruct (Qeq_bool p 1) eqn:E; [reflexivity|].
  destruct H as [H|H]; [apply Qeq_bool_iff in H; congruence|].
  destruct (next s) as [d s1]. cbn [fst] in *.
  destruct (Qle_bool p (rand01 d)) eqn:E2; [|reflexivity].
  apply Qle_bool_iff in E2. exfalso. apply (Qlt_not_le _ _ H). exact E2.
Qed.

Lemma skip_value_p1 p s : (p == 1)%Q -> skip_value p s = (false, s).
Proof. intros H. unfold skip_value. apply Qeq_bool_iff in H. rewrite H. reflexivity. Qed.

(* ------------------------------------------------------------------------ *)
(* str(int) and the dotted index path                                        *)
(* ------------------------------------------------------------------------ *)
Lemma dec_aux_nonempty : forall fuel n acc, (acc <> [] \/ fuel <> O) -> dec_aux fuel n acc <> [].
Proof.
  induction fuel as [|f IH]; intros n acc H; cbn [dec_aux].
  - destruct H as [H|H]; [exact H | congruence].
  - destruct (n <? 10)%nat; [discriminate|]. apply IH. left. discriminate.
Qed.

Lemma dec_nonempty n : dec n <> [].
Proof. unfold dec. apply dec_aux_nonempty. right. discriminate. Qed.

(* ".".join(str(i) for i in path) *)
Fixpoint dotted (path : list nat) : text :=
  match path with
  | [] => []
  | i :: rest => match rest with [] => dec i | _ => dec i ++ DOT :: dotted rest end
  end.

Lemma dotted_nil_iff path : dotted path = [] <-> path = [].
Proof.
  split; [|intros ->; reflexivity].
  destruct path as [|i [|j r]]; [reflexivity | |]; cbn [dotted].
  - intros H. exfalso. exact (dec_nonempty i H).
  - intros H. exfalso. destruct (dec i) eqn:E; [exact (dec_nonempty i E) | discriminate].
Qed.

Lemma dotted_snoc : forall path i, path <> [] -> dotted path ++ DOT :: dec i = dotted (path ++ [i]).
Proof.
  induction path as [|j rest IH]; intros i Hne; [congruence|].
  destruct rest as [|r rs].
  - reflexivity.
  - change (dotted (j :: r :: rs)) with (dec j ++ DOT :: dotted (r :: rs)).
    change ((j :: r :: rs) ++ [i]) with (j :: (r :: (rs ++ [i]))).
    change (dotted (j :: r :: rs ++ [i])) with (dec j ++ DOT :: dotted ((r :: rs) ++ [i])).
    rewrite <- (IH i) by discriminate.
    rewrite <- app_assoc. reflexivity.
Qed.

(* the prefix string the code threads through the recursion is the dotted path *)
Lemma hier_dotted path i : hier (dotted path) i = dotted (path ++ [i]).
Proof.
  unfold hier. destruct (dotted path) eqn:E.
  - apply dotted_nil_iff in E. subst. reflexivity.
  - rewrite <- E. apply dotted_snoc. intros ->. discriminate.
Qed.

(* ------------------------------------------------------------------------ *)
(* dictionaries                                                              *)
(* ------------------------------------------------------------------------ *)
Lemma text_eqb_sym a b : text_eqb a b = text_eqb b a.
Proof.
  destruct (text_eqb a b) eqn:E1, (text_eqb b a) eqn:E2; try reflexivity.
  - apply text_eqb_eq in E1. subst. rewrite text_eqb_refl in E2. discriminate.
  - apply text_eqb_eq in E2. subst. rewrite text_eqb_refl in E1. discriminate.
Qed.

Lemma lookup_In {X} k (l : list (text * X)) x : lookup k l = Some x -> In (k, x) l.
Proof.
  induction l as [|[k' x'] l IH]; cbn [lookup]; [discriminate|].
  destruct (text_eqb k k') eqn:E.
  - intros H. injection H as ->. apply text_eqb_eq in E. subst. left. reflexivity.
  - intros H. right. apply IH. exact H.
Qed.

Lemma lookup_app {X} k (a b : list (text * X)) :
  lookup k (a ++ b) = match lookup k a with Some x => Some x | None => lookup k b end.
Proof.
  induction a as [|[k' x'] a IH]; cbn [lookup app]; [reflexivity|].
  destruct (text_eqb k k'); [reflexivity | exact IH].
Qed.

Lemma lookup_upd {X} k (l : list (text * X)) k' v :
  lookup k (upd l k' v) = if text_eqb k k' then Some v else lookup k l.
Proof.
  induction l as [|[k0 x0] l IH]; cbn [upd lookup].
  - destruct (text_eqb k k'); reflexivity.
  - destruct (text_eqb k' k0) eqn:E0; cbn [lookup].
    + apply text_eqb_eq in E0. subst k0. destruct (text_eqb k k'); reflexivity.
    + destruct (text_eqb k k0) eqn:E1.
      * destruct (text_eqb k k') eqn:E2; [|reflexivity].
        apply text_eqb_eq in E1. apply text_eqb_eq in E2. subst. rewrite text_eqb_refl in E0. discriminate.
      * exact IH.
Qed.

(* a.update(b): the LAST binding of k in b wins (the only one for a dict), otherwise a's *)
Lemma lookup_update {X} k : forall (b a : list (text * X)),
  lookup k (update a b) = match lookup k (rev b) with Some v => Some v | None => lookup k a end.
Proof.
  unfold update. induction b as [|[k0 v0] b IH]; intros a; cbn [fold_left rev fst snd]; [reflexivity|].
  rewrite IH, lookup_app, lookup_upd. cbn [lookup].
  destruct (lookup k (rev b)); [reflexivity|]. destruct (text_eqb k k0); reflexivity.
Qed.

Lemma lookup_rev_nodup {X} k : forall (l : list (text * X)), NoDup (map fst l) -> lookup k (rev l) = lookup k l.
Proof.
  induction l as [|[k0 v0] l IH]; intros Hnd; [reflexivity|].
  cbn [map fst] in Hnd. inversion Hnd as [|x xs Hnotin Hnd']; subst.
  cbn [rev lookup]. rewrite lookup_app, (IH Hnd'). cbn [lookup].
  destruct (text_eqb k k0) eqn:E.
  - apply text_eqb_eq in E. subst k0.
    destruct (lookup k l) eqn:El; [|reflexivity].
    exfalso. apply Hnotin. apply lookup_In in El. apply (in_map fst) in El. exact El.
  - destruct (lookup k l); reflexivity.
Qed.

(* precedence of _merge_specs: relation spec, then type defaults, then "*" *)
Lemma merge_lookup k nt sp types :
  lookup k (merge_specs nt sp types) =
  match lookup k (rev sp) with
  | Some v => Some v
  | None => match lookup k (rev (getd nt types)) with
            | Some v => Some v
            | None => lookup k (getd K_star types)
            end
  end.
Proof. unfold merge_specs. rewrite !lookup_update. reflexivity. Qed.

Lemma keys_upd {X} (l : list (text * X)) k v :
  map fst (upd l k v) = if mem k l then map fst l else map fst l ++ [k].
Proof.
  unfold mem. induction l as [|[k0 x0] l IH]; cbn [upd lookup map fst app]; [reflexivity|].
  destruct (text_eqb k k0) eqn:E; cbn [map fst]; [reflexivity|].
  rewrite IH. destruct (lookup k l); reflexivity.
Qed.

Lemma mem_false_notin {X} k (l : list (text * X)) : mem k l = false -> ~ In k (map fst l).
Proof.
  unfold mem. induction l as [|[k0 x0] l IH]; cbn [lookup map fst In]; [intros _ []|].
  destruct (text_eqb k k0) eqn:E; [discriminate|].
  intros H [H1|H1].
  - subst. rewrite text_eqb_refl in E. discriminate.
  - exact (IH H H1).
Qed.

Lemma nodup_keys_upd {X} (l : list (text * X)) k v : NoDup (map fst l) -> NoDup (map fst (upd l k v)).
Proof.
  intros H. rewrite keys_upd. destruct (mem k l) eqn:E; [exact H|].
  apply mem_false_notin in E.
  induction (map fst l) as [|a m IH]; cbn [app].
  - constructor; [intros []|constructor].
  - inversion H as [|x xs Hn Hnd]; subst. constructor.
    + rewrite in_app_iff. intros [H1|[H1|[]]]; [exact (Hn H1)|]. subst. apply E. left. reflexivity.
    + apply IH; [exact Hnd|]. intros H1. apply E. right. exact H1.
Qed.

Lemma nodup_keys_update {X} : forall (b a : list (text * X)), NoDup (map fst a) -> NoDup (map fst (update a b)).
Proof.
  unfold update. induction b as [|[k v] b IH]; intros a H; cbn [fold_left]; [exact H|].
  apply IH. apply nodup_keys_upd. exact H.
Qed.

Lemma Forall_upd {X} (P : X -> Prop) (l : list (text * X)) k v :
  Forall (fun kv => P (snd kv)) l -> P v -> Forall (fun kv => P (snd kv)) (upd l k v).
Proof.
  intros Hl Hv. induction Hl as [|[k0 x0] l Hx Hl IH]; cbn [upd].
  - constructor; [exact Hv|constructor].
  - destruct (text_eqb k k0); constructor; try assumption.
Qed.

Lemma Forall_update {X} (P : X -> Prop) : forall (b a : list (text * X)),
  Forall (fun kv => P (snd kv)) a -> Forall (fun kv => P (snd kv)) b ->
  Forall (fun kv => P (snd kv)) (update a b).
Proof.
  unfold update. induction b as [|[k v] b IH]; intros a Ha Hb; cbn [fold_left]; [exact Ha|].
  inversion Hb as [|x xs Hv Hb']; subst. apply IH; [|exact Hb'].
  apply Forall_upd; assumption.
Qed.

Lemma Forall_remove_key {X} (P : text * X -> Prop) k l : Forall P l -> Forall P (remove_key k l).
Proof.
  intros H. unfold remove_key. apply Forall_forall. intros x Hx. apply filter_In in Hx.
  destruct Hx as [Hx _]. revert x Hx. apply Forall_forall. exact H.
Qed.

(* ------------------------------------------------------------------------ *)
(* well-formed definitions: what the randomizer constructors assert          *)
(* ------------------------------------------------------------------------ *)
Definition sval_wf (sv : sval) : Prop := match sv with SV _ => True | SR r => rnd_wf r end.
Definition spec_wf (sp : spec) : Prop := Forall (fun kv => sval_wf (snd kv)) sp.
Definition def_wf (Df : sdef) : Prop :=
  Forall (fun e => spec_wf (snd e)) (d_types Df) /\
  Forall (fun e => Forall (fun c => spec_wf (snd c)) (snd e)) (d_rels Df).

Lemma getd_wf k types : Forall (fun e => spec_wf (snd e)) types -> spec_wf (getd k types).
Proof.
  intros H. unfold getd. destruct (lookup k types) eqn:E; [|constructor].
  apply lookup_In in E. rewrite Forall_forall in H. exact (H _ E).
Qed.

Lemma merge_wf nt sp types :
  Forall (fun e => spec_wf (snd e)) types -> spec_wf sp -> spec_wf (merge_specs nt sp types).
Proof.
  intros Ht Hs. unfold merge_specs, spec_wf.
  apply Forall_update; [apply Forall_update; apply getd_wf; exact Ht | exact Hs].
Qed.

Lemma strip_wf m : spec_wf m -> spec_wf (strip m).
Proof. intros H. unfold strip, spec_wf. do 3 apply Forall_remove_key. exact H. Qed.

Lemma lookup_wf k m sv : spec_wf m -> lookup k m = Some sv -> sval_wf sv.
Proof.
  intros H E. apply lookup_In in E. unfold spec_wf in H. rewrite Forall_forall in H. exact (H _ E).
Qed.

(* ------------------------------------------------------------------------ *)
(* the stream-threading loop                                                 *)
(* ------------------------------------------------------------------------ *)
Lemma Forall2_imp {X Y} (P Q : X -> Y -> Prop) l l' :
  (forall x y, P x y -> Q x y) -> Forall2 P l l' -> Forall2 Q l l'.
Proof. intros H F. induction F; constructor; auto. Qed.

Lemma smap_Forall2 {X Y} (f : X -> stream -> Y * stream) : forall l s,
  Forall2 (fun x y => In x l /\ exists s1, y = fst (f x s1)) l (fst (smap f l s)).
Proof.
  induction l as [|x l IH]; intros s; cbn [smap]; [constructor|].
  destruct (f x s) as [y s1] eqn:E1. specialize (IH s1).
  destruct (smap f l s1) as [ys s2]. cbn [fst] in *. constructor.
  - split; [left; reflexivity | exists s; rewrite E1; reflexivity].
  - eapply Forall2_imp; [|exact IH]. cbn beta. intros a b [Hin Hex]. split; [right; exact Hin | exact Hex].
Qed.

Lemma smap_ext {X Y} (f g : X -> stream -> Y * stream) : forall l s,
  (forall x s', In x l -> f x s' = g x s') -> smap f l s = smap g l s.
Proof.
  induction l as [|x l IH]; intros s H; cbn [smap]; [reflexivity|].
  rewrite (H x s (or_introl eq_refl)). destruct (g x s) as [y s1].
  rewrite (IH s1); [reflexivity|]. intros x' s' Hin. apply H. right. exact Hin.
Qed.

(* ------------------------------------------------------------------------ *)
(* THE SPECIFICATION: conformance of a forest to a structure definition.     *)
(* Declarative, no stream, no fuel, no prefix string.                        *)
(* ------------------------------------------------------------------------ *)
(* number of children one relation may create *)
Definition count_ok (c : option sval) (n : nat) : Prop :=
  match c with
  | None => n = 1%nat                                   (* default of spec.pop(":count", 1) *)
  | Some (SV v) => n = count_of v                       (* fixed *)
  | Some (SR r) => exists raw, rnd_may r raw /\ n = count_of raw
  end.

(* value of one attribute of the child with 1-based index i (= last element of path) *)
Definition val_ok (sv : sval) (i : nat) (path : list nat) (v : value) : Prop :=
  match sv with
  | SV v0 => v = expand i (dotted path) v0
  | SR r => exists raw, rnd_may r raw /\ raw <> VNone /\ v = expand i (dotted path) raw
  end.
Definition may_skip (sv : sval) : Prop :=
  match sv with SV _ => False | SR r => rnd_may r VNone end.

(* the node's dict, aligned with the merged spec: every key in spec order, present
   with an allowed value, or absent – only possible for a randomizer that may
   answer None *)
Inductive attrs_ok (i : nat) (path : list nat) : spec -> list (text * value) -> Prop :=
| AO_nil : attrs_ok i path [] []
| AO_keep k sv v m a : val_ok sv i path v -> attrs_ok i path m a ->
                       attrs_ok i path ((k, sv) :: m) ((k, v) :: a)
| AO_skip k sv m a : may_skip sv -> attrs_ok i path m a -> attrs_ok i path ((k, sv) :: m) a.

Section Spec.
  Variable Df : sdef.
  Let types := d_types Df.
  Let rels := d_rels Df.

  Definition mspec (e : text * spec) : spec := merge_specs (fst e) (snd e) types.

  (* the children below a node of type ptype at index path [path] *)
  Inductive Conf : text -> list nat -> list gt -> Prop :=
  | Conf_intro ptype path cs groups :
      lookup ptype rels = Some cs ->
      Forall2 (fun (e : text * spec) (g : list gt) =>
                 exists n, count_ok (lookup K_count (mspec e)) n /\
                   Forall2 (fun (i : nat) (t : gt) =>
                              g_type t = fst e /\
                              attrs_ok i (path ++ [i]) (strip (mspec e)) (g_attrs t) /\
                              (mem (fst e) rels = true -> Conf (fst e) (path ++ [i]) (g_ch t)) /\
                              (mem (fst e) rels = false -> g_ch t = []))
                           (seq 1 n) g)
              cs groups ->
      Conf ptype path (concat groups).

  (* a relation that can create a child *)
  Definition can_be_pos (c : option sval) : bool :=
    match c with Some (SV v) => Nat.ltb 0 (count_of v) | _ => true end.

  (* D39: acyclic relation graph = a rank that decreases along every relation that
     can create a child whose type has relations of its own *)
  Definition rank_ok (rk : text -> nat) : Prop :=
    forall p cs e, lookup p rels = Some cs -> In e cs ->
      can_be_pos (lookup K_count (mspec e)) = true -> mem (fst e) rels = true ->
      (rk (fst e) < rk p)%nat.

  Hypothesis Hwf : def_wf Df.

  Lemma mspec_wf p cs e : lookup p rels = Some cs -> In e cs -> spec_wf (mspec e).
  Proof.
    intros Hl Hin. destruct Hwf as [Ht Hr]. apply merge_wf; [exact Ht|].
    apply lookup_In in Hl. rewrite Forall_forall in Hr. specialize (Hr _ Hl). cbn [snd] in Hr.
    rewrite Forall_forall in Hr. exact (Hr _ Hin).
  Qed.

  Lemma resolve_count_ok c s : (forall sv, c = Some sv -> sval_wf sv) -> count_ok c (fst (resolve_count c s)).
  Proof.
    intros H. destruct c as [[v|r]|]; cbn [resolve_count count_ok].
    - reflexivity.
    - specialize (H _ eq_refl). cbn [sval_wf] in H.
      pose proof (gen_may r s H) as Hm. destruct (gen r s) as [raw s1]. cbn [fst] in *.
      exists raw. split; [exact Hm | reflexivity].
    - reflexivity.
  Qed.

  Lemma resolve_count_pos c s : (0 < fst (resolve_count c s))%nat -> can_be_pos c = true.
  Proof.
    destruct c as [[v|r]|]; cbn [resolve_count can_be_pos fst]; intros H; try reflexivity.
    apply Nat.ltb_lt. exact H.
  Qed.

  Lemma resolve_dict_ok i path : forall d s, spec_wf d ->
    attrs_ok i path d (fst (resolve_dict d i (dotted path) s)).
  Proof.
    induction d as [|[k sv] d IH]; intros s Hd; cbn [resolve_dict]; [constructor|].
    inversion Hd as [|x xs Hsv Hd']; subst. cbn [snd] in Hsv.
    destruct sv as [v|r].
    - specialize (IH s Hd'). destruct (resolve_dict d i (dotted path) s) as [rest s2]. cbn [fst] in *.
      apply AO_keep; [reflexivity | exact IH].
    - cbn [sval_wf] in Hsv. pose proof (gen_may r s Hsv) as Hm.
      destruct (gen r s) as [raw s1]. cbn [fst] in Hm.
      specialize (IH s1 Hd'). destruct (resolve_dict d i (dotted path) s1) as [rest s2]. cbn [fst] in *.
      destruct raw; try (apply AO_keep; [eexists; split; [exact Hm | split; [discriminate | reflexivity]] | exact IH]).
      apply AO_skip; [exact Hm | exact IH].
  Qed.

  (* MAIN THEOREM: for every stream, every path and enough fuel *)
  Theorem make_tree_conf (rk : text -> nat) : rank_ok rk ->
    forall fuel ptype path s, (rk ptype < fuel)%nat -> mem ptype rels = true ->
      Conf ptype path (fst (make_tree Df fuel ptype (dotted path) s)).
  Proof.
    intros Hrk. induction fuel as [|fuel IH]; intros ptype path s Hfuel Hmem; [lia|].
    cbn [make_tree]. fold rels. unfold mem in Hmem.
    destruct (lookup ptype rels) as [cs|] eqn:Hl; [|discriminate].
    pose proof (smap_Forall2 (make_group Df (make_tree Df fuel) (dotted path)) cs s) as HF.
    destruct (smap (make_group Df (make_tree Df fuel) (dotted path)) cs s) as [groups s']. cbn [fst] in *.
    apply Conf_intro with (cs := cs); [exact Hl|].
    eapply Forall2_imp; [|exact HF]. cbn beta. clear HF groups s'.
    intros e g [Hin [s1 ->]].
    unfold make_group. fold types. fold (mspec e).
    pose proof (mspec_wf _ _ _ Hl Hin) as Hmw.
    pose proof (resolve_count_ok (lookup K_count (mspec e)) s1 (fun sv E => lookup_wf _ _ _ Hmw E)) as Hc.
    pose proof (resolve_count_pos (lookup K_count (mspec e)) s1) as Hpos.
    destruct (resolve_count (lookup K_count (mspec e)) s1) as [cnt s2]. cbn [fst] in *.
    exists cnt. split; [exact Hc|].
    pose proof (smap_Forall2 (make_node Df (make_tree Df fuel) (fst e) (strip (mspec e)) (dotted path)) (seq 1 cnt) s2) as HG.
    eapply Forall2_imp; [|exact HG]. cbn beta. clear HG.
    intros i t [Hi [s3 ->]].
    apply in_seq in Hi.
    unfold make_node. fold rels. rewrite hier_dotted.
    pose proof (resolve_dict_ok i (path ++ [i]) (strip (mspec e)) s3 (strip_wf _ Hmw)) as Ha.
    destruct (resolve_dict (strip (mspec e)) i (dotted (path ++ [i])) s3) as [data s4]. cbn [fst] in Ha.
    destruct (mem (fst e) rels) eqn:Hm.
    - assert (Hlt : (rk (fst e) < fuel)%nat).
      { assert (rk (fst e) < rk ptype)%nat; [|lia].
        apply (Hrk ptype cs e Hl Hin); [apply Hpos; lia | exact Hm]. }
      pose proof (IH (fst e) (path ++ [i]) s4 Hlt Hm) as Hch.
      destruct (make_tree Df fuel (fst e) (dotted (path ++ [i])) s4) as [ch s5]. cbn [fst g_type g_attrs g_ch] in *.
      refine (conj eq_refl (conj Ha (conj (fun _ => Hch) _))). discriminate.
    - cbn [fst g_type g_attrs g_ch].
      refine (conj eq_refl (conj Ha (conj _ (fun _ => eq_refl)))). discriminate.
  Qed.

  (* fuel sufficiency: any two fuels above the rank give the same tree and the same rest stream *)
  Theorem make_tree_fuel (rk : text -> nat) : rank_ok rk ->
    forall f1 f2 ptype prefix s, (rk ptype < f1)%nat -> (rk ptype < f2)%nat ->
      make_tree Df f1 ptype prefix s = make_tree Df f2 ptype prefix s.
  Proof.
    intros Hrk. induction f1 as [|f1 IH]; intros f2 ptype prefix s H1 H2; [lia|].
    destruct f2 as [|f2]; [lia|]. cbn [make_tree]. fold rels.
    destruct (lookup ptype rels) as [cs|] eqn:Hl; [|reflexivity].
    rewrite (smap_ext (make_group Df (make_tree Df f1) prefix) (make_group Df (make_tree Df f2) prefix)); [reflexivity|].
    intros e s1 Hin. unfold make_group. fold types. fold (mspec e).
    pose proof (resolve_count_pos (lookup K_count (mspec e)) s1) as Hpos.
    destruct (resolve_count (lookup K_count (mspec e)) s1) as [cnt s2]. cbn [fst] in Hpos.
    apply smap_ext. intros i s3 Hi. apply in_seq in Hi.
    unfold make_node. fold rels.
    destruct (resolve_dict (strip (mspec e)) i (hier prefix i) s3) as [data s4].
    destruct (mem (fst e) rels) eqn:Hm; [|reflexivity].
    assert (Hlt : (rk (fst e) < rk ptype)%nat).
    { apply (Hrk ptype cs e Hl Hin); [apply Hpos; lia | exact Hm]. }
    rewrite (IH f2 (fst e) (hier prefix i) s4); [reflexivity | lia | lia].
  Qed.
End Spec.
